(* C17 - proofs about the transaction state machine of Store/C17Txn.v.  All statements are about ALL states /
   histories; table contents, write operations and multi-table statements are arbitrary. *)
From Coq Require Import List NArith Bool Lia.
Import ListNotations.
From GMS Require Import Store.C17Txn.

Section Proofs.
Variable data : Type.
Variable wop : Type.
Variable apply : wop -> data -> option data.
Variable mop : Type.
Variable mtabs : mop -> list tid.
Variable mwrites : mop -> bool.
Variable mexec : mop -> list data -> mres data.

Notation sess := (sess data).
Notation state := (state data).
Notation stmt := (stmt wop mop).
Notation step := (step apply mtabs mwrites mexec).
Notation run := (run apply mtabs mwrites mexec).

(* pointwise equality of session records / states (their fields are functions) *)
Definition sess_eq (a b : sess) : Prop :=
  (forall t, staged a t = staged b t) /\ tx a = tx b /\ ign a = ign b /\ ac a = ac b /\ ro a = ro b.

Lemma sess_eq_refl a : sess_eq a a.
Proof. repeat split. Qed.

Lemma set_sess_same (f : sid -> sess) s se : set_sess f s se s = se.
Proof. unfold set_sess. now rewrite N.eqb_refl. Qed.

Lemma set_sess_other (f : sid -> sess) s se s' : s' <> s -> set_sess f s se s' = f s'.
Proof. intros H. unfold set_sess. apply N.eqb_neq in H. now rewrite H. Qed.

Lemma put_same (stg : tid -> option data) t x : put stg t x t = Some x.
Proof. unfold put. now rewrite N.eqb_refl. Qed.

Lemma put_other (stg : tid -> option data) t x t' : t' <> t -> put stg t x t' = stg t'.
Proof. intros H. unfold put. apply N.eqb_neq in H. now rewrite H. Qed.

Lemma begin_tx_tx (se : sess) : tx (begin_tx se) = true.
Proof. unfold begin_tx. destruct (tx se) eqn:E; auto. Qed.

Lemma begin_tx_ign (se : sess) : ign (begin_tx se) = ign se.
Proof. unfold begin_tx. destruct (tx se); auto. Qed.

Lemma begin_tx_ac (se : sess) : ac (begin_tx se) = ac se.
Proof. unfold begin_tx. destruct (tx se); auto. Qed.

Lemma begin_tx_open (se : sess) : tx se = true -> begin_tx se = se.
Proof. intros H. unfold begin_tx. now rewrite H. Qed.

(* control flow of [step] *)
Ltac break :=
  repeat match goal with
  | |- context [if ?b then _ else _] => destruct b eqn:?
  | |- context [match apply ?w ?x with _ => _ end] => destruct (apply w x) eqn:?
  | |- context [match mexec ?m ?x with _ => _ end] => destruct (mexec m x) eqn:?
  end.

(* a statement of session s leaves the records of the other sessions alone *)
Lemma step_other_sess st s q s' : s' <> s -> ss (fst (step st s q)) s' = ss st s'.
Proof.
  intros Hn. unfold C17Txn.step. set (se := begin_tx (ss st s)). cbn zeta.
  destruct q; break; cbn [fst ss rejected closed closed_ic]; now apply set_sess_other.
Qed.

(* ------------------------------------------------------------------------------------------------ *)
(* 1. A statement of a session that is inside an explicit transaction or has autocommit off, and that is
      not itself a transaction-control or implicit-commit statement, changes neither the database nor any
      other session.                                                                                  *)

Definition quiet (q : stmt) : bool :=
  match q with Read _ | Write _ _ | WriteAll _ _ | Multi _ | Bad | Savepoint => true | _ => false end.

(* the end of a statement will not commit: ignoreAutocommit is set (explicit START TRANSACTION not yet ended by
   COMMIT / ROLLBACK) or autocommit is off *)
Definition holding (se : sess) : Prop := ign se = true \/ ac se = false.

Lemma close_holding (d : tid -> data) (se : sess) a :
  holding se -> a = ac se -> close d se a = (d, se).
Proof.
  intros Hm ->. unfold close. destruct (tx se); cbn; auto. destruct (ign se) eqn:Ei; auto.
  destruct Hm as [Hm|Hm]; [congruence|]. now rewrite Hm.
Qed.

Lemma fail_sess_holding (se : sess) : holding se -> fail_sess se = se.
Proof.
  intros Hm. unfold fail_sess. destruct (ign se) eqn:Ei; auto.
  destruct Hm as [Hm|Hm]; [congruence|]. now rewrite Hm.
Qed.

Lemma holding_with_stg (se : sess) g : holding se -> holding (with_stg se g).
Proof. auto. Qed.

Lemma holding_begin_tx (se : sess) : holding se -> holding (begin_tx se).
Proof. unfold holding. now rewrite begin_tx_ign, begin_tx_ac. Qed.

(* the shape of a quiet step of a holding session *)
Lemma step_quiet_shape st s q :
  holding (ss st s) -> quiet q = true ->
  exists g, fst (step st s q) = mkState (db st) (set_sess (ss st) s (with_stg (begin_tx (ss st s)) g)).
Proof.
  intros Hh Hq. unfold C17Txn.step. set (se := begin_tx (ss st s)). cbn zeta.
  assert (Hse : holding se) by now apply holding_begin_tx.
  assert (Hc : forall g r, closed st s se g r = (mkState (db st) (set_sess (ss st) s (with_stg se g)), r)).
  { intros g r. unfold closed. rewrite close_holding; auto. }
  assert (Hr : forall g, rejected st s se g = (mkState (db st) (set_sess (ss st) s (with_stg se g)), RErr)).
  { intros g. unfold rejected. rewrite fail_sess_holding; auto. }
  destruct q; try discriminate; break; rewrite ?Hc, ?Hr; eexists; reflexivity.
Qed.

Lemma step_quiet_holding st s q :
  holding (ss st s) -> quiet q = true ->
  let st' := fst (step st s q) in
  (forall t, db st' t = db st t) /\ (forall s', s' <> s -> ss st' s' = ss st s') /\ holding (ss st' s).
Proof.
  intros Hh Hq. cbn zeta. destruct (step_quiet_shape st s q Hh Hq) as [g ->]. cbn [db ss].
  split; [auto|]. split; [intros; now apply set_sess_other|]. rewrite set_sess_same.
  apply holding_with_stg. now apply holding_begin_tx.
Qed.

(* ------------------------------------------------------------------------------------------------ *)
(* 2. Non-interference: what the other sessions see and what ends up in the database does not depend on
      the quiet statements of a holding session.                                                      *)

(* st1 and st2 agree on the database and on every session except s *)
Definition agree_but (s : sid) (st1 st2 : state) : Prop :=
  (forall t, db st1 t = db st2 t) /\ (forall s', s' <> s -> sess_eq (ss st1 s') (ss st2 s')).

Lemma cur_ext (d1 d2 : tid -> data) (g1 g2 : tid -> option data) t :
  (forall t, d1 t = d2 t) -> (forall t, g1 t = g2 t) -> cur d1 g1 t = cur d2 g2 t.
Proof. intros Hd Hg. unfold cur. rewrite Hg, Hd. reflexivity. Qed.

Lemma put_ext (g1 g2 : tid -> option data) t x :
  (forall t, g1 t = g2 t) -> forall t', put g1 t x t' = put g2 t x t'.
Proof. intros Hg t'. unfold put. destruct (N.eqb t' t); auto. Qed.

Lemma touch_ext (d1 d2 : tid -> data) (g1 g2 : tid -> option data) t :
  (forall t, d1 t = d2 t) -> (forall t, g1 t = g2 t) -> forall t', touch d1 g1 t t' = touch d2 g2 t t'.
Proof. intros Hd Hg t'. unfold touch. rewrite (cur_ext d1 d2 g1 g2 t Hd Hg). now apply put_ext. Qed.

Lemma touch_all_ext (d1 d2 : tid -> data) (g1 g2 : tid -> option data) :
  (forall t, d1 t = d2 t) -> (forall t, g1 t = g2 t) -> forall t', touch_all d1 g1 t' = touch_all d2 g2 t'.
Proof. intros Hd Hg t'. unfold touch_all. f_equal. now apply cur_ext. Qed.

Lemma touch_list_ext (d1 d2 : tid -> data) ts : forall (g1 g2 : tid -> option data),
  (forall t, d1 t = d2 t) -> (forall t, g1 t = g2 t) -> forall t', touch_list d1 g1 ts t' = touch_list d2 g2 ts t'.
Proof.
  induction ts as [|t ts IH]; intros g1 g2 Hd Hg; cbn; auto.
  apply IH; auto. now apply touch_ext.
Qed.

Lemma put_list_ext l : forall (g1 g2 : tid -> option data),
  (forall t, g1 t = g2 t) -> forall t', put_list g1 l t' = put_list g2 l t'.
Proof.
  induction l as [|[t x] l IH]; intros g1 g2 Hg; cbn; auto.
  apply IH. now apply put_ext.
Qed.

Lemma begin_tx_eq a b : sess_eq a b -> sess_eq (begin_tx a) (begin_tx b).
Proof.
  intros (Hs & Ht & Hi & Ha & Hr). unfold begin_tx. rewrite <- Ht.
  destruct (tx a) eqn:E; repeat split; cbn; auto; congruence.
Qed.

Lemma close_ext (d1 d2 : tid -> data) (a b : sess) autoc :
  (forall t, d1 t = d2 t) -> sess_eq a b ->
  (forall t, fst (close d1 a autoc) t = fst (close d2 b autoc) t) /\
  sess_eq (snd (close d1 a autoc)) (snd (close d2 b autoc)).
Proof.
  intros Hd (Hs & Ht & Hi & Ha & Hr). unfold close. rewrite <- Ht, <- Hi.
  destruct (tx a) eqn:Et; cbn; [|repeat split; auto; congruence].
  destruct (ign a) eqn:Ei; cbn; [repeat split; auto; congruence|].
  destruct autoc; cbn; [|repeat split; auto; congruence].
  split; [intros t; unfold publish; now apply cur_ext|repeat split; cbn; auto; congruence].
Qed.

Lemma close_ic_ext (d1 d2 : tid -> data) (a b : sess) :
  (forall t, d1 t = d2 t) -> sess_eq a b ->
  (forall t, fst (close_ic d1 a) t = fst (close_ic d2 b) t) /\
  sess_eq (snd (close_ic d1 a)) (snd (close_ic d2 b)).
Proof.
  intros Hd (Hs & Ht & Hi & Ha & Hr). unfold close_ic. rewrite <- Ht.
  destruct (tx a) eqn:Et; cbn; [|repeat split; auto; congruence].
  split; [intros t; unfold publish; now apply cur_ext|repeat split; cbn; auto; congruence].
Qed.

Lemma fail_sess_ext (a b : sess) : sess_eq a b -> sess_eq (fail_sess a) (fail_sess b).
Proof.
  intros (Hs & Ht & Hi & Ha & Hr). unfold fail_sess. rewrite <- Hi, <- Ha.
  destruct (ign a) eqn:Ei; [repeat split; auto; congruence|].
  destruct (ac a) eqn:Ea; repeat split; cbn; auto; congruence.
Qed.

Lemma with_stg_ext (a b : sess) g1 g2 :
  sess_eq a b -> (forall t, g1 t = g2 t) -> sess_eq (with_stg a g1) (with_stg b g2).
Proof. intros (Hs & Ht & Hi & Ha & Hr) Hg. repeat split; cbn; auto. Qed.

Section Agree.
Variables (s s' : sid) (st1 st2 : state) (e1 e2 : sess).
Hypothesis Hne : s' <> s.
Hypothesis Hag : agree_but s st1 st2.
Hypothesis He : sess_eq e1 e2.

Lemma set_agree (x y : sess) d1 d2 :
  (forall t, d1 t = d2 t) -> sess_eq x y ->
  agree_but s (mkState d1 (set_sess (ss st1) s' x)) (mkState d2 (set_sess (ss st2) s' y)).
Proof.
  intros Hdd Hxy. split; cbn; auto. intros s'' Hn. unfold set_sess.
  destruct (N.eqb s'' s'); auto. now apply Hag.
Qed.

Lemma rejected_agree g1 g2 :
  (forall t, g1 t = g2 t) ->
  agree_but s (fst (rejected st1 s' e1 g1)) (fst (rejected st2 s' e2 g2)) /\
  snd (rejected st1 s' e1 g1) = snd (rejected st2 s' e2 g2).
Proof.
  intros Hg. split; [|reflexivity]. cbn [fst rejected]. apply set_agree; [apply Hag|].
  apply fail_sess_ext. now apply with_stg_ext.
Qed.

Lemma closed_agree g1 g2 r :
  (forall t, g1 t = g2 t) ->
  agree_but s (fst (closed st1 s' e1 g1 r)) (fst (closed st2 s' e2 g2 r)) /\
  snd (closed st1 s' e1 g1 r) = snd (closed st2 s' e2 g2 r).
Proof.
  intros Hg. split; [|reflexivity]. unfold closed. cbn [fst].
  assert (Ha : ac e1 = ac e2) by apply He. rewrite Ha.
  destruct (close_ext (db st1) (db st2) (with_stg e1 g1) (with_stg e2 g2) (ac e2)) as [H1 H2];
    [apply Hag|now apply with_stg_ext|]. now apply set_agree.
Qed.

Lemma closed_ic_agree g1 g2 r :
  (forall t, g1 t = g2 t) ->
  agree_but s (fst (closed_ic st1 s' e1 g1 r)) (fst (closed_ic st2 s' e2 g2 r)) /\
  snd (closed_ic st1 s' e1 g1 r) = snd (closed_ic st2 s' e2 g2 r).
Proof.
  intros Hg. split; [|reflexivity]. unfold closed_ic. cbn [fst].
  destruct (close_ic_ext (db st1) (db st2) (with_stg e1 g1) (with_stg e2 g2)) as [H1 H2];
    [apply Hag|now apply with_stg_ext|]. now apply set_agree.
Qed.
End Agree.

(* a step of another session s' behaves the same in two states that agree except on s *)
Lemma step_other_agree s st1 st2 s' q :
  s' <> s -> agree_but s st1 st2 ->
  agree_but s (fst (step st1 s' q)) (fst (step st2 s' q)) /\ snd (step st1 s' q) = snd (step st2 s' q).
Proof.
  intros Hne Hag. pose proof Hag as [Hd Hs].
  pose proof (begin_tx_eq _ _ (Hs s' Hne)) as Hb.
  unfold C17Txn.step.
  set (e1 := begin_tx (ss st1 s')) in *. set (e2 := begin_tx (ss st2 s')) in *.
  pose proof Hb as (Hstg & Htx & Hign & Hac & Hro). cbn zeta.
  assert (Hcur : forall t, cur (db st1) (staged e1) t = cur (db st2) (staged e2) t).
  { intros t. now apply cur_ext. }
  assert (Hpub : forall t, publish (db st1) (staged e1) t = publish (db st2) (staged e2) t) by exact Hcur.
  destruct q as [t|t w| | | |b| |t w|t w| | |ts|m].
  - (* Read *) rewrite Hcur. apply closed_agree; auto. now apply touch_ext.
  - (* Write *)
    rewrite Hro, Hcur. break.
    + apply rejected_agree; auto. now apply touch_ext.
    + apply closed_agree; auto. apply put_ext. now apply touch_ext.
    + apply closed_agree; auto. now apply touch_ext.
  - (* Begin *) split; [|reflexivity]. cbn [fst]. rewrite Hac. apply set_agree; auto. apply sess_eq_refl.
  - (* Commit *) split; [|reflexivity]. cbn [fst]. rewrite Hac. apply set_agree; auto. repeat split; auto.
  - (* Rollback *) split; [|reflexivity]. cbn [fst]. rewrite Hac. apply set_agree; auto. apply sess_eq_refl.
  - (* SetAC *)
    split; [|reflexivity]. cbn [fst].
    destruct (close_ext (db st1) (db st2)
                (mkSess (staged e1) (tx e1) (ign e1) b (ro e1)) (mkSess (staged e2) (tx e2) (ign e2) b (ro e2)) b Hd) as [Hc1 Hc2].
    { repeat split; cbn; auto. }
    now apply set_agree.
  - (* Bad *) apply rejected_agree; auto.
  - (* WriteIC *)
    rewrite Hcur. break.
    + apply closed_ic_agree; auto. apply put_ext. now apply touch_ext.
    + apply closed_ic_agree; auto. now apply touch_ext.
  - (* WriteAll *)
    rewrite Hro, Hcur. break.
    + apply rejected_agree; auto. now apply touch_ext.
    + apply closed_agree; auto. apply put_ext. now apply touch_all_ext.
    + apply closed_agree; auto. now apply touch_all_ext.
  - (* BeginRO *) split; [|reflexivity]. cbn [fst]. rewrite Hac. apply set_agree; auto. apply sess_eq_refl.
  - (* Savepoint *) apply rejected_agree; auto.
  - (* Ddl *) apply closed_ic_agree; auto. now apply touch_list_ext.
  - (* Multi *)
    rewrite Hro. rewrite (map_ext _ _ Hcur). break.
    + apply rejected_agree; auto. now apply touch_list_ext.
    + apply closed_agree; auto. now apply touch_list_ext.
    + apply closed_agree; auto. apply put_list_ext. now apply touch_list_ext.
    + apply closed_agree; auto. now apply touch_list_ext.
Qed.

(* the results seen by sessions other than s *)
Fixpoint others (s : sid) (h : list (sid * stmt)) (rs : list (result data)) : list (result data) :=
  match h, rs with
  | (s', _) :: h', r :: rs' => if N.eqb s' s then others s h' rs' else r :: others s h' rs'
  | _, _ => []
  end.

Definition without (s : sid) (h : list (sid * stmt)) : list (sid * stmt) :=
  filter (fun e => negb (N.eqb (fst e) s)) h.

(* every statement of s in h is quiet *)
Definition quiet_in (s : sid) (h : list (sid * stmt)) : Prop :=
  forall e, In e h -> fst e = s -> quiet (snd e) = true.

Lemma run_cons st s q h :
  run st ((s, q) :: h) =
  (fst (run (fst (step st s q)) h), snd (step st s q) :: snd (run (fst (step st s q)) h)).
Proof.
  cbn. destruct (step st s q) as [st1 r]. cbn. destruct (run st1 h) as [st2 rs]. reflexivity.
Qed.

Theorem noninterference s h : forall st1 st2,
  holding (ss st1 s) -> quiet_in s h -> agree_but s st1 st2 ->
  let '(st1', rs1) := run st1 h in
  let '(st2', rs2) := run st2 (without s h) in
  agree_but s st1' st2' /\ holding (ss st1' s) /\ others s h rs1 = rs2.
Proof.
  induction h as [|[s' q] h IH]; intros st1 st2 Hh Hq Hag.
  - cbn. auto.
  - rewrite run_cons. cbn [without filter fst].
    assert (Hq' : quiet_in s h) by (intros e He; apply Hq; now right).
    destruct (N.eqb s' s) eqn:Es.
    + apply N.eqb_eq in Es. subst s'. cbn [negb].
      assert (Hqq : quiet q = true) by (apply (Hq (s, q)); [now left|reflexivity]).
      destruct (step_quiet_holding st1 s q Hh Hqq) as (Hd & Hs & Hh').
      specialize (IH (fst (step st1 s q)) st2 Hh' Hq').
      destruct (run (fst (step st1 s q)) h) as [st1' rs1] eqn:E1.
      fold (without s h). destruct (run st2 (without s h)) as [st2' rs2] eqn:E2.
      cbn [fst snd others]. rewrite N.eqb_refl. apply IH.
      destruct Hag as [Ha1 Ha2]. split.
      * intros t. rewrite Hd. apply Ha1.
      * intros s'' Hn. rewrite (Hs s'' Hn). now apply Ha2.
    + cbn [negb]. apply N.eqb_neq in Es.
      destruct (step_other_agree s st1 st2 s' q Es Hag) as [Hag' Hr].
      assert (Hh' : holding (ss (fst (step st1 s' q)) s)).
      { rewrite step_other_sess; auto. }
      specialize (IH (fst (step st1 s' q)) (fst (step st2 s' q)) Hh' Hq' Hag').
      rewrite run_cons. fold (without s h).
      destruct (run (fst (step st1 s' q)) h) as [st1' rs1] eqn:E1.
      destruct (run (fst (step st2 s' q)) (without s h)) as [st2' rs2] eqn:E2.
      cbn [fst snd others]. apply N.eqb_neq in Es. rewrite Es.
      destruct IH as (I1 & I2 & I3). split; [exact I1|split; [exact I2|]]. now rewrite Hr, I3.
Qed.

Lemma agree_but_refl s st : agree_but s st st.
Proof. split; auto. intros. apply sess_eq_refl. Qed.

(* ------------------------------------------------------------------------------------------------ *)
(* 3. ROLLBACK: BEGIN; (own reads/writes/failed statements interleaved with anything the other sessions
      do); ROLLBACK  leaves the database and every other session exactly as if the session had issued
      nothing between BEGIN and ROLLBACK, the others saw the same results, and the session itself is
      back to reading committed data.  The same for START TRANSACTION READ ONLY.                      *)

Definition is_begin (q : stmt) : bool := match q with Begin | BeginRO => true | _ => false end.

Lemma holding_after_begin st s b : is_begin b = true -> holding (ss (fst (step st s b)) s).
Proof. intros Hb. destruct b; try discriminate; cbn; rewrite set_sess_same; left; reflexivity. Qed.

(* the situation in which rollback_restores is used below: s holds, issues quiet statements, rolls back *)
Lemma rollback_after_holding st0 s h :
  holding (ss st0 s) -> quiet_in s h ->
  let '(st1, rs1) := run st0 h in
  let st2 := fst (step st1 s Rollback) in
  let '(stR, rsR) := run st0 (without s h) in
  (forall t, db st2 t = db stR t) /\
  (forall s', s' <> s -> sess_eq (ss st2 s') (ss stR s')) /\
  others s h rs1 = rsR /\
  (forall t, view st2 s t = db st2 t) /\ tx (ss st2 s) = false /\ ign (ss st2 s) = false /\ ro (ss st2 s) = false.
Proof.
  intros Hh Hq.
  pose proof (noninterference s h _ _ Hh Hq (agree_but_refl s _)) as H.
  destruct (run st0 h) as [st1 rs1].
  destruct (run st0 (without s h)) as [stR rsR].
  destruct H as ([Hd Hs] & Hh' & Ho). cbn zeta.
  split; [exact Hd|]. split.
  { intros s' Hn. rewrite step_other_sess by auto. now apply Hs. }
  split; [exact Ho|]. split.
  { intros t. unfold view. cbn. rewrite set_sess_same. reflexivity. }
  cbn. rewrite set_sess_same. cbn. auto.
Qed.

Theorem rollback_restores st s b h :
  is_begin b = true -> quiet_in s h ->
  let st0 := fst (step st s b) in
  let '(st1, rs1) := run st0 h in
  let st2 := fst (step st1 s Rollback) in
  let '(stR, rsR) := run st0 (without s h) in
  (forall t, db st2 t = db stR t) /\
  (forall s', s' <> s -> sess_eq (ss st2 s') (ss stR s')) /\
  others s h rs1 = rsR /\
  (forall t, view st2 s t = db st2 t) /\ tx (ss st2 s) = false /\ ign (ss st2 s) = false /\ ro (ss st2 s) = false.
Proof.
  intros Hb Hq. cbn zeta. apply rollback_after_holding; auto. now apply holding_after_begin.
Qed.

Lemma without_own s (qs : list stmt) : without s (map (fun q => (s, q)) qs) = [].
Proof. induction qs as [|q qs IH]; cbn; auto. rewrite N.eqb_refl. cbn. apply IH. Qed.

Lemma quiet_in_own s (qs : list stmt) :
  (forall q, In q qs -> quiet q = true) -> quiet_in s (map (fun q => (s, q)) qs).
Proof. intros Hq e He _. apply in_map_iff in He. destruct He as (q & <- & Hin). now apply Hq. Qed.

(* with no other session active: the database after BEGIN; own statements; ROLLBACK is the one after BEGIN *)
Corollary rollback_restores_alone st s b (qs : list stmt) :
  is_begin b = true -> (forall q, In q qs -> quiet q = true) ->
  let st0 := fst (step st s b) in
  let st2 := fst (step (fst (run st0 (map (fun q => (s, q)) qs))) s Rollback) in
  forall t, db st2 t = db st0 t /\ view st2 s t = db st0 t.
Proof.
  intros Hb Hq. cbn zeta. intros t.
  pose proof (rollback_restores st s b (map (fun q => (s, q)) qs) Hb (quiet_in_own s qs Hq)) as H.
  cbn zeta in H. rewrite without_own in H. cbn [C17Txn.run] in H.
  destruct (run (fst (step st s b)) (map (fun q => (s, q)) qs)) as [st1 rs1].
  destruct H as (H1 & _ & _ & H4 & _). cbn [fst]. split; [apply H1|]. rewrite H4. apply H1.
Qed.

(* ------------------------------------------------------------------------------------------------ *)
(* 4. No dirty reads: the results every other session observes, the database and the other sessions'
      state are the same whether or not a holding session issues its (uncommitted) reads and writes.  *)

Theorem no_dirty_read st s h :
  holding (ss st s) -> quiet_in s h ->
  let '(st1, rs1) := run st h in
  let '(st2, rs2) := run st (without s h) in
  others s h rs1 = rs2 /\ (forall t, db st1 t = db st2 t) /\
  (forall s', s' <> s -> forall t, view st1 s' t = view st2 s' t).
Proof.
  intros Hh Hq.
  pose proof (noninterference s h _ _ Hh Hq (agree_but_refl s st)) as H.
  destruct (run st h) as [st1 rs1]. destruct (run st (without s h)) as [st2 rs2].
  destruct H as ([Hd Hs] & _ & Ho). repeat split; auto.
  intros s' Hn t. unfold view. apply cur_ext; auto.
  destruct (begin_tx_eq _ _ (Hs s' Hn)) as (Hx & _). exact Hx.
Qed.

(* ------------------------------------------------------------------------------------------------ *)
(* 5. COMMIT publishes: every table the session has staged (in particular every table it wrote) becomes
      the database content, all other tables stay, and sessions that have not staged the table see it. *)

Theorem commit_publishes st s :
  let se := begin_tx (ss st s) in
  let st' := fst (step st s Commit) in
  (forall t x, staged se t = Some x -> db st' t = x) /\
  (forall t, staged se t = None -> db st' t = db st t) /\
  (forall t, db st' t = view st s t) /\
  (forall s' t, s' <> s -> staged (begin_tx (ss st s')) t = None -> view st' s' t = view st s t) /\
  tx (ss st' s) = false /\ ign (ss st' s) = false /\ ro (ss st' s) = false.
Proof.
  cbn zeta. repeat split.
  - intros t x H. cbn. unfold publish, cur. now rewrite H.
  - intros t H. cbn. unfold publish, cur. now rewrite H.
  - intros s' t Hn H. unfold view. cbn [C17Txn.step fst ss db]. rewrite set_sess_other by auto.
    unfold cur at 1. rewrite H. reflexivity.
  - cbn. now rewrite set_sess_same.
  - cbn. now rewrite set_sess_same.
  - cbn. now rewrite set_sess_same.
Qed.

(* what a write leaves in the session's own view: the operation applied to what it saw *)
Theorem write_updates_own_view st s t w :
  holding (ss st s) -> ro (begin_tx (ss st s)) = false ->
  let st' := fst (step st s (Write t w)) in
  view st' s t = match apply w (view st s t) with Some x => x | None => view st s t end /\
  (forall t', t' <> t -> view st' s t' = view st s t').
Proof.
  intros Hh Hro. cbn zeta. unfold view at 2 3 5. unfold C17Txn.step. set (se := begin_tx (ss st s)) in *. cbn zeta.
  assert (Hse : holding se) by now apply holding_begin_tx.
  assert (Hc : forall g r, closed st s se g r = (mkState (db st) (set_sess (ss st) s (with_stg se g)), r)).
  { intros g r. unfold closed. rewrite close_holding; auto. }
  assert (Hb : forall g, begin_tx (with_stg se g) = with_stg se g).
  { intros g. unfold begin_tx. cbn. unfold se. now rewrite begin_tx_tx. }
  rewrite Hro.
  destruct (apply w (cur (db st) (staged se) t)) as [x|] eqn:Ea; rewrite Hc; unfold view; cbn [fst db ss];
    rewrite set_sess_same, Hb; cbn [staged with_stg].
  - split.
    + unfold cur at 1. now rewrite put_same.
    + intros t' Hn. unfold cur at 1, touch. rewrite !put_other by auto. reflexivity.
  - split.
    + unfold cur at 1, touch. now rewrite put_same.
    + intros t' Hn. unfold cur at 1, touch. rewrite !put_other by auto. reflexivity.
Qed.

(* ------------------------------------------------------------------------------------------------ *)
(* 6. Autocommit: a statement of an idle autocommit session is committed on its own.                   *)

Definition idle (se : sess) : Prop := tx se = false /\ ign se = false /\ ac se = true.

Definition idle0 : sess := mkSess no_tables true false true false.

Lemma begin_tx_idle (se : sess) : idle se -> begin_tx se = idle0.
Proof. intros (Htx & Hi & Ha). unfold begin_tx, idle0. now rewrite Htx, Hi, Ha. Qed.

Lemma closed_idle st s g r :
  closed st s idle0 g r = (mkState (publish (db st) g) (set_sess (ss st) s (mkSess g false false true false)), r).
Proof. reflexivity. Qed.

Lemma closed_ic_idle st s g r :
  closed_ic st s idle0 g r = (mkState (publish (db st) g) (set_sess (ss st) s (mkSess g false false true false)), r).
Proof. reflexivity. Qed.

Lemma rejected_idle st s g :
  rejected st s idle0 g = (mkState (db st) (set_sess (ss st) s (mkSess g false false true false)), RErr).
Proof. reflexivity. Qed.

Theorem autocommit_each_statement st s t w :
  idle (ss st s) ->
  let st' := fst (step st s (Write t w)) in
  db st' t = match apply w (db st t) with Some x => x | None => db st t end /\
  (forall t', t' <> t -> db st' t' = db st t') /\
  snd (step st s (Write t w)) = match apply w (db st t) with Some _ => ROk | None => RErr end /\
  idle (ss st' s) /\ (forall s', s' <> s -> ss st' s' = ss st s').
Proof.
  intros Hid. cbn zeta. split; [|split; [|split; [|split; [|intros; now apply step_other_sess]]]];
  unfold C17Txn.step; rewrite (begin_tx_idle _ Hid); cbn zeta; cbn [ro idle0 staged];
  change (cur (db st) no_tables t) with (db st t);
  destruct (apply w (db st t)) as [x|] eqn:Ea; rewrite closed_idle; cbn [fst snd db ss]; auto.
  - unfold publish, cur. now rewrite put_same.
  - unfold publish, cur, touch. now rewrite put_same.
  - intros t' Hn. unfold publish, cur, touch. rewrite !put_other by auto. reflexivity.
  - intros t' Hn. unfold publish, cur, touch. rewrite !put_other by auto. reflexivity.
  - rewrite set_sess_same. repeat split.
  - rewrite set_sess_same. repeat split.
Qed.

(* ------------------------------------------------------------------------------------------------ *)
(* 7. Statements executed directly on a database vs. through the session staging.                      *)

Notation apply_rw := (apply_rw apply mtabs mwrites mexec).
Notation apply_rws := (apply_rws apply mtabs mwrites mexec).
Notation apply_ic := (apply_ic apply).
Notation apply_block := (apply_block apply mtabs mwrites mexec).
Notation serial := (serial apply mtabs mwrites mexec).

(* the session's staging over the database d shows the contents sd *)
Definition tracks (d : tid -> data) (stg : tid -> option data) (sd : tid -> data) : Prop :=
  forall t, cur d stg t = sd t.

Lemma tracks_put d g sd t x : tracks d g sd -> tracks d (put g t x) (upd sd t x).
Proof. intros H t'. unfold cur, put, upd. destruct (N.eqb t' t); auto. apply H. Qed.

Lemma tracks_touch d g sd t : tracks d g sd -> tracks d (touch d g t) sd.
Proof.
  intros H t'. unfold touch, cur at 1, put. destruct (N.eqb t' t) eqn:E; [|apply H].
  apply N.eqb_eq in E. subst. apply H.
Qed.

Lemma tracks_touch_all d g sd : tracks d g sd -> tracks d (touch_all d g) sd.
Proof. intros H t'. unfold touch_all, cur at 1. apply H. Qed.

Lemma tracks_touch_list d ts : forall g sd, tracks d g sd -> tracks d (touch_list d g ts) sd.
Proof. induction ts as [|t ts IH]; intros g sd H; cbn; auto. apply IH. now apply tracks_touch. Qed.

Lemma tracks_put_list d l : forall g sd, tracks d g sd -> tracks d (put_list g l) (upd_list sd l).
Proof. induction l as [|[t x] l IH]; intros g sd H; cbn; auto. apply IH. now apply tracks_put. Qed.

(* a body statement: the session entries afterwards show what the statement does to the contents it saw, and the
   result is the one of running it directly on those contents *)
Lemma rw_shape st s q sd :
  let se := begin_tx (ss st s) in
  tracks (db st) (staged se) sd ->
  exists g, tracks (db st) g (fst (apply_rw (ro se) sd q)) /\
    (step st s (stmt_of q) = closed st s se g (snd (apply_rw (ro se) sd q)) \/
     step st s (stmt_of q) = rejected st s se g /\ snd (apply_rw (ro se) sd q) = RErr /\
       fst (apply_rw (ro se) sd q) = sd).
Proof.
  cbn zeta. intros Htr. unfold C17Txn.step. set (se := begin_tx (ss st s)) in *. cbn zeta.
  destruct q as [t|t w|t w|m| |]; cbn [stmt_of C17Txn.apply_rw].
  - (* read *) exists (touch (db st) (staged se) t). split; [now apply tracks_touch|]. left. now rewrite (Htr t).
  - (* write *)
    rewrite (Htr t). destruct (ro se).
    + exists (touch (db st) (staged se) t). split; [now apply tracks_touch|]. right. auto.
    + destruct (apply w (sd t)) as [x|].
      * eexists. split; [apply tracks_put; apply tracks_touch; eassumption|]. left. reflexivity.
      * eexists. split; [apply tracks_touch; eassumption|]. left. reflexivity.
  - (* write that registers every table *)
    rewrite (Htr t). destruct (ro se).
    + exists (touch (db st) (staged se) t). split; [now apply tracks_touch|]. right. auto.
    + destruct (apply w (sd t)) as [x|].
      * eexists. split; [apply tracks_put; apply tracks_touch_all; eassumption|]. left. reflexivity.
      * eexists. split; [apply tracks_touch_all; eassumption|]. left. reflexivity.
  - (* several tables *)
    rewrite (map_ext _ _ Htr). destruct (ro se && mwrites m).
    + eexists. split; [apply tracks_touch_list; eassumption|]. right. auto.
    + destruct (mexec m (map sd (mtabs m))) as [|l|x].
      * eexists. split; [apply tracks_touch_list; eassumption|]. left. reflexivity.
      * eexists. split; [apply tracks_put_list; apply tracks_touch_list; eassumption|]. left. reflexivity.
      * eexists. split; [apply tracks_touch_list; eassumption|]. left. reflexivity.
  - exists (staged se). split; [exact Htr|]. right. auto.
  - exists (staged se). split; [exact Htr|]. right. auto.
Qed.

(* an implicit-commit statement *)
Lemma ic_shape st s i sd :
  let se := begin_tx (ss st s) in
  tracks (db st) (staged se) sd ->
  exists g, tracks (db st) g (fst (apply_ic sd i)) /\
    step st s (stmt_of_ic i) = closed_ic st s se g (snd (apply_ic sd i)).
Proof.
  cbn zeta. intros Htr. unfold C17Txn.step. set (se := begin_tx (ss st s)) in *. cbn zeta.
  destruct i as [t w|ts]; cbn [stmt_of_ic C17Txn.apply_ic].
  - rewrite (Htr t). destruct (apply w (sd t)) as [x|].
    + eexists. split; [apply tracks_put; apply tracks_touch; eassumption|]. reflexivity.
    + eexists. split; [apply tracks_touch; eassumption|]. reflexivity.
  - eexists. split; [apply tracks_touch_list; eassumption|]. reflexivity.
Qed.

Lemma closed_ic_publishes (st : state) s (se : sess) g r :
  tx se = true ->
  closed_ic st s se g r = (mkState (publish (db st) g) (set_sess (ss st) s (mkSess g false (ign se) (ac se) false)), r).
Proof. intros Htx. unfold closed_ic, close_ic. cbn. rewrite Htx. reflexivity. Qed.

(* ------------------------------------------------------------------------------------------------ *)
(* 8. A failed SAVEPOINT / ROLLBACK TO / RELEASE statement changes nothing: not the database, not the other
      sessions, not the transaction state of the session, not what the session reads next.  The premise
      excludes only session records that cannot exist between two statements (an autocommit transaction
      left open).                                                                                     *)

Theorem savepoint_changes_nothing st s :
  tx (ss st s) = false \/ holding (ss st s) ->
  let st' := fst (step st s Savepoint) in
  snd (step st s Savepoint) = RErr /\
  (forall t, db st' t = db st t) /\ (forall s', s' <> s -> ss st' s' = ss st s') /\
  (forall t, view st' s t = view st s t) /\
  ign (ss st' s) = ign (ss st s) /\ ac (ss st' s) = ac (ss st s) /\
  ro (begin_tx (ss st' s)) = ro (begin_tx (ss st s)) /\
  (holding (ss st s) -> sess_eq (ss st' s) (begin_tx (ss st s))).
Proof.
  intros Hwf. cbn zeta. split; [reflexivity|]. split; [reflexivity|].
  split; [intros; now apply step_other_sess|].
  cbn [C17Txn.step fst rejected ss db]. rewrite set_sess_same. unfold view. cbn [ss db].
  rewrite set_sess_same. set (se := begin_tx (ss st s)).
  assert (Hi : ign se = ign (ss st s)) by apply begin_tx_ign.
  assert (Ha : ac se = ac (ss st s)) by apply begin_tx_ac.
  assert (Ht : tx se = true) by apply begin_tx_tx.
  assert (Hb : forall g, begin_tx (with_stg se g) = with_stg se g).
  { intros g. unfold begin_tx. cbn [with_stg tx]. now rewrite Ht. }
  unfold fail_sess. cbn [with_stg ign ac staged]. rewrite Hi, Ha.
  destruct (ign (ss st s)) eqn:Ei; [|destruct (ac (ss st s)) eqn:Eac].
  - fold (with_stg se (staged se)). rewrite Hb. cbn [with_stg staged ign ac ro]. repeat split; auto; congruence.
  - (* autocommit: the implicit transaction is dropped *)
    destruct Hwf as [Hwf|[Hwf|Hwf]]; try congruence.
    assert (Hse : se = mkSess no_tables true false true false).
    { unfold se, begin_tx. rewrite Hwf, Ei, Eac. reflexivity. }
    rewrite Hse. cbn. repeat split; auto; try congruence; exfalso; match goal with X : holding _ |- _ => destruct X; congruence end.
  - fold (with_stg se (staged se)). rewrite Hb. cbn [with_stg staged ign ac ro]. repeat split; auto; congruence.
Qed.

(* ------------------------------------------------------------------------------------------------ *)
(* 9. DDL with an implicit commit inside an open transaction: everything the transaction did so far becomes
      the database content (other sessions without a copy of their own see it), and whatever quiet statements
      follow, a later ROLLBACK takes the database back to the state right after the DDL statement - not
      to the one before the transaction started.                                                      *)

Lemma implicit_commit_publishes st s i :
  let st1 := fst (step st s (stmt_of_ic i)) in
  (forall t, db st1 t = fst (apply_ic (view st s) i) t) /\
  tx (ss st1 s) = false /\ ign (ss st1 s) = ign (ss st s) /\ ac (ss st1 s) = ac (ss st s) /\
  ro (ss st1 s) = false /\
  (forall s', s' <> s -> ss st1 s' = ss st s').
Proof.
  cbn zeta.
  destruct (ic_shape st s i (view st s)) as (g & Hg & Hs); [intros t; reflexivity|].
  rewrite Hs, closed_ic_publishes by apply begin_tx_tx. cbn [fst db ss]. rewrite set_sess_same. cbn.
  rewrite begin_tx_ign, begin_tx_ac. repeat split; auto. intros; now apply set_sess_other.
Qed.

Theorem ddl_commits_pending_work st s ts h :
  holding (ss st s) -> quiet_in s h ->
  let st1 := fst (step st s (Ddl ts)) in
  (* published *)
  (forall t, db st1 t = view st s t) /\
  (forall s' t, s' <> s -> staged (begin_tx (ss st s')) t = None -> view st1 s' t = view st s t) /\
  (* a later ROLLBACK does not undo it *)
  let '(st2, rs2) := run st1 h in
  let st3 := fst (step st2 s Rollback) in
  let '(stR, rsR) := run st1 (without s h) in
  (forall t, db st3 t = db stR t) /\ (forall s', s' <> s -> sess_eq (ss st3 s') (ss stR s')) /\ others s h rs2 = rsR.
Proof.
  intros Hh Hq. cbn zeta.
  destruct (implicit_commit_publishes st s (IDdl ts)) as (P1 & P2 & P3 & P4 & P5 & P6). cbn [stmt_of_ic] in *.
  split; [exact P1|]. split.
  { intros s' t Hn Hnone. unfold view at 1. rewrite P6 by auto. unfold cur. rewrite Hnone. apply P1. }
  assert (Hh1 : holding (ss (fst (step st s (Ddl ts))) s)).
  { unfold holding. now rewrite P3, P4. }
  pose proof (rollback_after_holding _ s h Hh1 Hq) as H.
  destruct (run (fst (step st s (Ddl ts))) h) as [st2 rs2].
  destruct (run (fst (step st s (Ddl ts))) (without s h)) as [stR rsR].
  cbn zeta in H. destruct H as (H1 & H2 & H3 & _). auto.
Qed.

(* alone: the database after DDL; own statements; ROLLBACK is the one right after the DDL statement *)
Corollary ddl_then_rollback_alone st s ts (qs : list stmt) :
  holding (ss st s) -> (forall q, In q qs -> quiet q = true) ->
  let st1 := fst (step st s (Ddl ts)) in
  let st3 := fst (step (fst (run st1 (map (fun q => (s, q)) qs))) s Rollback) in
  forall t, db st3 t = view st s t.
Proof.
  intros Hh Hq. cbn zeta. intros t.
  pose proof (ddl_commits_pending_work st s ts (map (fun q => (s, q)) qs) Hh (quiet_in_own s qs Hq)) as H.
  cbn zeta in H. destruct H as (H1 & _ & H). rewrite without_own in H. cbn [C17Txn.run] in H.
  destruct (run (fst (step st s (Ddl ts))) (map (fun q => (s, q)) qs)) as [st2 rs2].
  destruct H as (H3 & _). cbn [fst]. rewrite H3. apply H1.
Qed.

(* ------------------------------------------------------------------------------------------------ *)
(* 10. READ ONLY ends with the transaction: after COMMIT / ROLLBACK (of any transaction, in any state) the
       session has no transaction, the next one starts READ WRITE, and its writes are executed.        *)

Lemma write_without_tx st s t w :
  tx (ss st s) = false ->
  snd (step st s (Write t w)) = match apply w (db st t) with Some _ => ROk | None => RErr end.
Proof.
  intros H. unfold C17Txn.step, begin_tx. rewrite H. cbn zeta. cbn [ro staged].
  change (cur (db st) no_tables t) with (db st t). destruct (apply w (db st t)); reflexivity.
Qed.

Theorem read_only_ends st s e :
  e = Commit \/ e = Rollback ->
  let st' := fst (step st s e) in
  tx (ss st' s) = false /\ ign (ss st' s) = false /\ ro (begin_tx (ss st' s)) = false /\
  forall t w, snd (step st' s (Write t w)) = match apply w (db st' t) with Some _ => ROk | None => RErr end.
Proof.
  intros He. cbn zeta.
  assert (H : tx (ss (fst (step st s e)) s) = false /\ ign (ss (fst (step st s e)) s) = false).
  { destruct He as [->| ->]; cbn; rewrite set_sess_same; auto. }
  destruct H as [H1 H2]. split; [exact H1|]. split; [exact H2|]. split.
  - unfold begin_tx. rewrite H1. reflexivity.
  - intros t w. now apply write_without_tx.
Qed.

(* inside a READ ONLY transaction a DML statement (one table, all tables registered, several tables) is refused and
   changes nothing: not the database, not the other sessions, not what the session itself reads *)
Definition is_dml (q : stmt) : bool :=
  match q with Write _ _ | WriteAll _ _ => true | Multi m => mwrites m | _ => false end.

Theorem read_only_refuses_dml st s q :
  tx (ss st s) = true -> ro (ss st s) = true -> holding (ss st s) -> is_dml q = true ->
  let st' := fst (step st s q) in
  snd (step st s q) = RErr /\ (forall t, db st' t = db st t) /\ (forall s', s' <> s -> ss st' s' = ss st s') /\
  (forall t, view st' s t = view st s t) /\ tx (ss st' s) = true /\ ro (ss st' s) = true.
Proof.
  intros Htx Hro Hh Hq. cbn zeta.
  assert (Hr : forall g, tracks (db st) g (view st s) ->
            let x := rejected st s (ss st s) g in
            snd x = RErr /\ (forall t, db (fst x) t = db st t) /\ (forall s', s' <> s -> ss (fst x) s' = ss st s') /\
            (forall t, view (fst x) s t = view st s t) /\ tx (ss (fst x) s) = true /\ ro (ss (fst x) s) = true).
  { intros g Hg. cbn zeta. unfold rejected. rewrite fail_sess_holding by auto. cbn [fst snd db ss].
    split; [reflexivity|]. split; [reflexivity|]. split; [intros; now apply set_sess_other|].
    rewrite set_sess_same. cbn [with_stg tx ro]. split; [|auto].
    intros t. unfold view at 1. cbn [db ss]. rewrite set_sess_same. unfold begin_tx. cbn [with_stg tx]. rewrite Htx. apply Hg. }
  assert (Hv : tracks (db st) (staged (ss st s)) (view st s)).
  { intros t. unfold view. now rewrite begin_tx_open. }
  unfold C17Txn.step. rewrite (begin_tx_open _ Htx). cbn zeta.
  destruct q; try discriminate; cbn [is_dml] in Hq; rewrite Hro; try rewrite Hq; cbn [andb]; apply Hr.
  - now apply tracks_touch.
  - now apply tracks_touch.
  - now apply tracks_touch_list.
Qed.

(* ------------------------------------------------------------------------------------------------ *)
(* 11. Non-overlapping transactions: the machine equals the serial reference, results included.          *)

Definition all_idle (st : state) : Prop := forall s, idle (ss st s).

Lemma run_app st h1 h2 :
  run st (h1 ++ h2) =
  (fst (run (fst (run st h1)) h2), snd (run st h1) ++ snd (run (fst (run st h1)) h2)).
Proof.
  revert st. induction h1 as [|[s q] h1 IH]; intros st.
  - cbn. destruct (run st h2). reflexivity.
  - rewrite <- app_comm_cons, !run_cons. rewrite IH. cbn. reflexivity.
Qed.

Lemma run_one st s q : run st [(s, q)] = (fst (step st s q), [snd (step st s q)]).
Proof. rewrite run_cons. reflexivity. Qed.

(* one autocommit statement *)
Lemma auto_step st s q :
  idle (ss st s) ->
  let st' := fst (step st s (stmt_of q)) in
  (forall t, db st' t = fst (apply_rw false (db st) q) t) /\
  snd (step st s (stmt_of q)) = snd (apply_rw false (db st) q) /\
  idle (ss st' s).
Proof.
  intros Hid. cbn zeta.
  destruct (rw_shape st s q (db st)) as (g & Hg & Hs).
  { rewrite (begin_tx_idle _ Hid). intros t. reflexivity. }
  rewrite (begin_tx_idle _ Hid) in *. cbn [ro idle0] in *.
  destruct Hs as [Hs|(Hs & Hr & Hd)]; rewrite Hs.
  - rewrite closed_idle. cbn [fst snd db ss]. rewrite set_sess_same. repeat split. intros t. apply Hg.
  - rewrite rejected_idle. cbn [fst snd db ss]. rewrite set_sess_same, Hr, Hd. repeat split.
Qed.

(* one implicit-commit statement of an autocommit session *)
Lemma auto_ic_step st s i :
  idle (ss st s) ->
  let st' := fst (step st s (stmt_of_ic i)) in
  (forall t, db st' t = fst (apply_ic (db st) i) t) /\
  snd (step st s (stmt_of_ic i)) = snd (apply_ic (db st) i) /\
  idle (ss st' s).
Proof.
  intros Hid. cbn zeta.
  destruct (ic_shape st s i (db st)) as (g & Hg & Hs).
  { rewrite (begin_tx_idle _ Hid). intros t. reflexivity. }
  rewrite (begin_tx_idle _ Hid) in *. rewrite Hs, closed_ic_idle. cbn [fst snd db ss]. rewrite set_sess_same.
  repeat split. intros t. apply Hg.
Qed.

(* inside a transaction that the end of a statement does not commit *)
Definition intx (st : state) (s : sid) (r : bool) (sd : tid -> data) : Prop :=
  tx (ss st s) = true /\ holding (ss st s) /\ ro (ss st s) = r /\ tracks (db st) (staged (ss st s)) sd.

Lemma body_step st s q sd r :
  intx st s r sd ->
  let st' := fst (step st s (stmt_of q)) in
  (forall t, db st' t = db st t) /\ intx st' s r (fst (apply_rw r sd q)) /\
  ign (ss st' s) = ign (ss st s) /\ ac (ss st' s) = ac (ss st s) /\
  snd (step st s (stmt_of q)) = snd (apply_rw r sd q).
Proof.
  intros (Htx & Hh & Hro & Htr). cbn zeta.
  destruct (rw_shape st s q sd) as (g & Hg & Hs); [now rewrite begin_tx_open|].
  rewrite (begin_tx_open _ Htx), Hro in *.
  assert (Hsame : forall x : state, x = mkState (db st) (set_sess (ss st) s (with_stg (ss st s) g)) ->
            (forall t, db x t = db st t) /\ intx x s r (fst (apply_rw r sd q)) /\
            ign (ss x s) = ign (ss st s) /\ ac (ss x s) = ac (ss st s)).
  { intros x ->. unfold intx, holding in *. cbn [db ss]. rewrite set_sess_same. cbn [with_stg tx ign ac ro staged].
    repeat split; auto. }
  destruct Hs as [Hs|(Hs & Hr & Hd)]; rewrite Hs.
  - unfold closed. rewrite close_holding; auto. cbn [fst snd].
    destruct (Hsame _ eq_refl) as (A & B & C & D). auto.
  - unfold rejected. rewrite fail_sess_holding; auto. cbn [fst snd].
    destruct (Hsame _ eq_refl) as (A & B & C & D). rewrite Hr. auto.
Qed.

Lemma body_run s r : forall (body : list (rw wop mop)) st sd,
  intx st s r sd ->
  let '(st', rs) := run st (map (fun q => (s, stmt_of q)) body) in
  (forall t, db st' t = db st t) /\ intx st' s r (fst (apply_rws r sd body)) /\
  ign (ss st' s) = ign (ss st s) /\ ac (ss st' s) = ac (ss st s) /\
  rs = snd (apply_rws r sd body) /\
  (forall s', s' <> s -> ss st' s' = ss st s').
Proof.
  induction body as [|q body IH]; intros st sd Hin.
  - cbn. repeat split; auto; apply Hin.
  - cbn [map]. rewrite run_cons.
    destruct (body_step st s q sd r Hin) as (B1 & B2 & B3 & B4 & B5).
    specialize (IH (fst (step st s (stmt_of q))) (fst (apply_rw r sd q)) B2).
    destruct (run (fst (step st s (stmt_of q))) (map (fun q0 => (s, stmt_of q0)) body)) as [st' rs] eqn:E.
    cbn [fst snd]. destruct IH as (I1 & I2 & I3 & I4 & I5 & I6).
    cbn [C17Txn.apply_rws]. destruct (apply_rw r sd q) as [d1 r1] eqn:E1. cbn [fst snd] in *.
    destruct (apply_rws r d1 body) as [d2 rs2] eqn:E2. cbn [fst snd] in *.
    split; [intros t; now rewrite I1|]. split; [exact I2|]. split; [congruence|]. split; [congruence|].
    split; [congruence|].
    intros s' Hn. rewrite I6 by auto. now apply step_other_sess.
Qed.

(* the opening statement of a block, from an idle session *)
Lemma opener_step st s k :
  idle (ss st s) ->
  let st0 := fst (step st s (opener k)) in
  (forall t, db st0 t = db st t) /\ intx st0 s (is_ro k) (db st) /\
  ign (ss st0 s) = match k with KOff => false | _ => true end /\
  ac (ss st0 s) = match k with KOff => false | _ => true end /\
  snd (step st s (opener k)) = ROk.
Proof.
  intros Hid. cbn zeta. unfold intx, C17Txn.step. rewrite (begin_tx_idle _ Hid).
  destruct k as [[|]|]; cbn [opener is_ro]; cbn -[set_sess]; rewrite !set_sess_same; cbn; unfold holding, tracks; cbn;
    repeat split; auto.
Qed.

(* COMMIT / ROLLBACK in any state *)
Lemma end_step st s (c : bool) :
  let st' := fst (step st s (if c then Commit else Rollback)) in
  (forall t, db st' t = if c then view st s t else db st t) /\
  tx (ss st' s) = false /\ ign (ss st' s) = false /\ ac (ss st' s) = ac (ss st s) /\
  snd (step st s (if c then Commit else Rollback)) = ROk.
Proof.
  cbn zeta. destruct c; cbn; rewrite set_sess_same; cbn; rewrite begin_tx_ac; repeat split; auto.
Qed.

(* SET autocommit = 1 of a session without transaction *)
Lemma setac_on_step st s :
  tx (ss st s) = false -> ign (ss st s) = false ->
  let st' := fst (step st s (SetAC true)) in
  (forall t, db st' t = db st t) /\ idle (ss st' s) /\ snd (step st s (SetAC true)) = ROk.
Proof.
  intros Htx Hi. cbn zeta. unfold C17Txn.step, begin_tx. rewrite Htx, Hi. cbn. rewrite set_sess_same.
  repeat split.
Qed.

(* SET autocommit = 1 of a session with autocommit off and no explicit transaction: commits the pending work *)
Lemma setac_on_commits st s r sd :
  intx st s r sd -> ign (ss st s) = false ->
  let st' := fst (step st s (SetAC true)) in
  (forall t, db st' t = sd t) /\ idle (ss st' s) /\ snd (step st s (SetAC true)) = ROk.
Proof.
  intros (Htx & _ & _ & Htr) Hi. cbn zeta. unfold C17Txn.step. rewrite (begin_tx_open _ Htx). cbn zeta.
  unfold close. cbn [tx ign]. rewrite Htx, Hi. cbn. rewrite set_sess_same. repeat split. exact Htr.
Qed.

Lemma view_intx (st : state) s r sd : intx st s r sd -> forall t, view st s t = sd t.
Proof. intros (Htx & _ & _ & Htr) t. unfold view. rewrite begin_tx_open by auto. apply Htr. Qed.

Lemma view_closed (st : state) s t : tx (ss st s) = false -> view st s t = db st t.
Proof. intros H. unfold view, begin_tx. rewrite H. reflexivity. Qed.

Lemma all_idle_after (st st' : state) s :
  all_idle st -> idle (ss st' s) -> (forall s', s' <> s -> ss st' s' = ss st s') -> all_idle st'.
Proof. intros Hid Hs Ho s0. destruct (N.eq_dec s0 s) as [->|Hn]; [exact Hs|]. rewrite Ho by auto. apply Hid. Qed.

Lemma run_other_sess h : forall st s,
  (forall e, In e h -> fst e = s) -> forall s', s' <> s -> ss (fst (run st h)) s' = ss st s'.
Proof.
  induction h as [|[s0 q] h IH]; intros st s Hall s' Hn; [reflexivity|].
  rewrite run_cons. cbn [fst]. assert (s0 = s) by (apply (Hall (s0, q)); now left). subst s0.
  rewrite (IH _ s) by (auto; intros e He; apply Hall; now right). now apply step_other_sess.
Qed.

Lemma flatten_own (b : block wop mop) :
  match b with Auto s _ | AutoIC s _ | OffSet s _ | Txn s _ _ _ _ => forall e, In e (flatten b) -> fst e = s end.
Proof.
  destruct b as [s q|s i|s body|s k body fin c]; cbn [flatten]; intros e He.
  - destruct He as [<-|[]]. reflexivity.
  - destruct He as [<-|[]]. reflexivity.
  - destruct He as [<-|He]; [reflexivity|]. apply in_app_or in He. destruct He as [He|[<-|[]]]; [|reflexivity].
    apply in_map_iff in He. destruct He as (q & <- & _). reflexivity.
  - destruct He as [<-|He]; [reflexivity|].
    repeat (apply in_app_or in He; destruct He as [He|He]).
    + apply in_map_iff in He. destruct He as (q & <- & _). reflexivity.
    + destruct fin; [destruct He as [<-|[]]; reflexivity|destruct He].
    + destruct He as [<-|He]; [reflexivity|]. destruct k; cbn in He; try contradiction; destruct He as [<-|[]]; reflexivity.
Qed.

Lemma block_run st b :
  all_idle st ->
  let '(st', rs) := run st (flatten b) in
  all_idle st' /\ (forall t, db st' t = fst (apply_block (db st) b) t) /\ rs = snd (apply_block (db st) b).
Proof.
  intros Hid. pose proof (flatten_own b) as Hown.
  destruct b as [s q|s i|s body|s k body fin c].
  3: { (* SET autocommit = 0; body; SET autocommit = 1 *)
    assert (Hoth : forall s', s' <> s -> ss (fst (run st (flatten (OffSet s body)))) s' = ss st s').
    { intros s' Hn. now apply (run_other_sess _ st s Hown). }
    cbn [flatten] in *. rewrite run_cons, run_app in *.
    destruct (opener_step st s KOff (Hid s)) as (O1 & O2 & O3 & O4 & O5). cbn [opener is_ro] in *.
    set (st0 := fst (step st s (SetAC false))) in *.
    pose proof (body_run s false body st0 (db st) O2) as HB.
    destruct (run st0 (map (fun q => (s, stmt_of q)) body)) as [st1 rs1] eqn:E1.
    destruct HB as (B1 & B2 & B3 & B4 & B5 & B6).
    cbn [fst snd] in *. cbn [C17Txn.apply_block].
    destruct (apply_rws false (db st) body) as [sd rsS] eqn:ES. cbn [fst snd] in *.
    rewrite run_one in *. cbn [fst snd] in *.
    destruct (setac_on_commits st1 s false sd B2) as (S1 & S2 & S3); [now rewrite B3|].
    rewrite O5, B5, S3.
    split; [apply (all_idle_after st _ s Hid S2 Hoth)|]. split; [exact S1|reflexivity]. }
  - cbn [flatten]. rewrite run_one.
    destruct (auto_step st s q (Hid s)) as (A1 & A2 & A3).
    cbn [C17Txn.apply_block]. destruct (apply_rw false (db st) q) as [d' r] eqn:E. cbn [fst snd] in *.
    split; [|split; [exact A1|congruence]].
    apply (all_idle_after st _ s Hid A3). intros; now apply step_other_sess.
  - cbn [flatten]. rewrite run_one.
    destruct (auto_ic_step st s i (Hid s)) as (A1 & A2 & A3).
    cbn [C17Txn.apply_block]. destruct (apply_ic (db st) i) as [d' r] eqn:E. cbn [fst snd] in *.
    split; [|split; [exact A1|congruence]].
    apply (all_idle_after st _ s Hid A3). intros; now apply step_other_sess.
  - (* a transaction block *)
    assert (Hoth : forall s', s' <> s -> ss (fst (run st (flatten (Txn s k body fin c)))) s' = ss st s').
    { intros s' Hn. now apply (run_other_sess _ st s Hown). }
    cbn [flatten] in *. rewrite run_cons, run_app in *.
    destruct (opener_step st s k (Hid s)) as (O1 & O2 & O3 & O4 & O5).
    set (st0 := fst (step st s (opener k))) in *.
    pose proof (body_run s (is_ro k) body st0 (db st) O2) as HB.
    destruct (run st0 (map (fun q => (s, stmt_of q)) body)) as [st1 rs1] eqn:E1.
    destruct HB as (B1 & B2 & B3 & B4 & B5 & B6).
    cbn [fst snd] in *. cbn [C17Txn.apply_block].
    destruct (apply_rws (is_ro k) (db st) body) as [sd rsS] eqn:ES. cbn [fst snd] in *.
    rewrite O5, B5.
    (* the optional implicit-commit statement: afterwards the session's view is the expected content *)
    assert (HF : exists st2 rf d2,
        run st1 (match fin with Some i => [(s, stmt_of_ic i)] | None => [] end) = (st2, rf) /\
        rf = match fin with Some i => [snd (apply_ic sd i)] | None => [] end /\
        (forall t, d2 t = match fin with Some i => fst (apply_ic sd i) t | None => sd t end) /\
        (forall t, view st2 s t = d2 t) /\
        (forall t, db st2 t = match fin with Some _ => d2 t | None => db st t end) /\
        ign (ss st2 s) = ign (ss st1 s) /\ ac (ss st2 s) = ac (ss st1 s)).
    { destruct fin as [i|].
      - rewrite run_one.
        destruct (implicit_commit_publishes st1 s i) as (P1 & P2 & P3 & P4 & P5 & P6).
        exists (fst (step st1 s (stmt_of_ic i))), [snd (step st1 s (stmt_of_ic i))], (fst (apply_ic sd i)).
        destruct (ic_shape st1 s i sd) as (g & Hg & Hs).
        { rewrite begin_tx_open by apply B2. apply B2. }
        assert (Hv : forall t, fst (apply_ic (view st1 s) i) t = fst (apply_ic sd i) t).
        { pose proof (view_intx _ _ _ _ B2) as Hv. intros t. destruct i as [t0 w|ts]; cbn.
          - rewrite Hv. destruct (apply w (sd t0)); cbn; auto. unfold upd. destruct (N.eqb t t0); auto.
          - apply Hv. }
        split; [reflexivity|]. split; [now rewrite Hs|]. split; [auto|].
        split; [intros t; rewrite view_closed by auto; now rewrite P1|].
        split; [intros t; now rewrite P1|]. auto.
      - exists st1, [], sd. cbn. split; [reflexivity|]. split; [reflexivity|]. split; [auto|].
        split; [apply (view_intx _ _ _ _ B2)|]. split; [intros t; rewrite B1; apply O1|auto]. }
    destruct HF as (st2 & rf & d2 & HF1 & HF2 & HF3 & HF4 & HF5 & HF6 & HF7).
    rewrite run_app, HF1 in *. cbn [fst snd] in *. rewrite run_cons in *. cbn [fst snd] in *.
    destruct (end_step st2 s c) as (N1 & N2 & N3 & N4 & N5).
    set (st3 := fst (step st2 s (if c then Commit else Rollback))) in *. rewrite N5.
    (* the database after COMMIT / ROLLBACK *)
    assert (HD : forall t, db st3 t =
              fst (match fin with
                   | None => (if c then sd else db st, @nil (result data))
                   | Some i => (fst (apply_ic sd i), [])
                   end) t).
    { intros t. rewrite N1. destruct fin as [i|]; cbn [fst].
      - destruct c; [rewrite HF4|rewrite HF5]; apply HF3.
      - destruct c; [rewrite HF4; apply HF3|apply HF5]. }
    destruct k as [r|].
    + (* START TRANSACTION ... *)
      cbn [C17Txn.run fst snd] in *.
      assert (Hidle : idle (ss st3 s)).
      { repeat split; auto. rewrite N4, HF7, B4. apply O4. }
      split; [apply (all_idle_after st st3 s Hid Hidle Hoth)|].
      destruct fin as [i|]; cbn [fst] in HD; destruct (apply_ic sd _) as [d3 r3] eqn:E3 || idtac; cbn [fst snd] in *.
      * split; [exact HD|]. subst rf. reflexivity.
      * split; [exact HD|]. subst rf. reflexivity.
    + (* SET autocommit = 0 ... SET autocommit = 1 *)
      rewrite run_one in *. cbn [fst snd] in *.
      destruct (setac_on_step st3 s N2 N3) as (S1 & S2 & S3). rewrite S3.
      split; [apply (all_idle_after st _ s Hid S2 Hoth)|].
      destruct fin as [i|]; cbn [fst] in HD; destruct (apply_ic sd _) as [d3 r3] eqn:E3 || idtac; cbn [fst snd] in *.
      * split; [intros t; rewrite S1; apply HD|]. subst rf. reflexivity.
      * split; [intros t; rewrite S1; apply HD|]. subst rf. reflexivity.
Qed.

Lemma upd_ext (d1 d2 : tid -> data) t x : (forall t, d1 t = d2 t) -> forall t', upd d1 t x t' = upd d2 t x t'.
Proof. intros H t'. unfold upd. destruct (N.eqb t' t); auto. Qed.

Lemma upd_list_ext l : forall (d1 d2 : tid -> data), (forall t, d1 t = d2 t) -> forall t', upd_list d1 l t' = upd_list d2 l t'.
Proof. induction l as [|[t x] l IH]; intros d1 d2 H; cbn; auto. apply IH. now apply upd_ext. Qed.

Lemma apply_rw_ext r (d1 d2 : tid -> data) q :
  (forall t, d1 t = d2 t) ->
  (forall t, fst (apply_rw r d1 q) t = fst (apply_rw r d2 q) t) /\ snd (apply_rw r d1 q) = snd (apply_rw r d2 q).
Proof.
  intros H. destruct q as [t|t w|t w|m| |]; cbn; auto.
  - split; auto. now rewrite H.
  - rewrite H. destruct r; [auto|]. destruct (apply w (d2 t)); cbn; split; auto. now apply upd_ext.
  - rewrite H. destruct r; [auto|]. destruct (apply w (d2 t)); cbn; split; auto. now apply upd_ext.
  - rewrite (map_ext _ _ H). destruct (r && mwrites m); [auto|].
    destruct (mexec m (map d2 (mtabs m))); cbn; split; auto. now apply upd_list_ext.
Qed.

Lemma apply_ic_ext (d1 d2 : tid -> data) i :
  (forall t, d1 t = d2 t) ->
  (forall t, fst (apply_ic d1 i) t = fst (apply_ic d2 i) t) /\ snd (apply_ic d1 i) = snd (apply_ic d2 i).
Proof.
  intros H. destruct i as [t w|ts]; cbn; auto.
  rewrite H. destruct (apply w (d2 t)); cbn; split; auto. now apply upd_ext.
Qed.

Lemma apply_rws_ext r qs : forall (d1 d2 : tid -> data),
  (forall t, d1 t = d2 t) ->
  (forall t, fst (apply_rws r d1 qs) t = fst (apply_rws r d2 qs) t) /\ snd (apply_rws r d1 qs) = snd (apply_rws r d2 qs).
Proof.
  induction qs as [|q qs IH]; intros d1 d2 H; cbn; auto.
  destruct (apply_rw_ext r d1 d2 q H) as [H1 H2].
  destruct (apply_rw r d1 q) as [e1 r1]. destruct (apply_rw r d2 q) as [e2 r2]. cbn in *.
  destruct (IH e1 e2 H1) as [H3 H4].
  destruct (apply_rws r e1 qs) as [f1 s1]. destruct (apply_rws r e2 qs) as [f2 s2]. cbn in *.
  split; auto. congruence.
Qed.

Lemma apply_block_ext (d1 d2 : tid -> data) b :
  (forall t, d1 t = d2 t) ->
  (forall t, fst (apply_block d1 b) t = fst (apply_block d2 b) t) /\ snd (apply_block d1 b) = snd (apply_block d2 b).
Proof.
  intros H. destruct b as [s q|s i|s body|s k body fin c]; cbn.
  - destruct (apply_rw_ext false d1 d2 q H) as [H1 H2].
    destruct (apply_rw false d1 q), (apply_rw false d2 q). cbn in *. split; auto. congruence.
  - destruct (apply_ic_ext d1 d2 i H) as [H1 H2].
    destruct (apply_ic d1 i), (apply_ic d2 i). cbn in *. split; auto. congruence.
  - destruct (apply_rws_ext false body d1 d2 H) as [H1 H2].
    destruct (apply_rws false d1 body), (apply_rws false d2 body). cbn in *. split; auto. congruence.
  - destruct (apply_rws_ext (is_ro k) body d1 d2 H) as [H1 H2].
    destruct (apply_rws (is_ro k) d1 body) as [e1 r1], (apply_rws (is_ro k) d2 body) as [e2 r2]. cbn in *. subst r2.
    destruct fin as [i|].
    + destruct (apply_ic_ext e1 e2 i H1) as [H3 H4].
      destruct (apply_ic e1 i), (apply_ic e2 i). cbn in *. split; auto. congruence.
    + cbn. split; [destruct c; auto|reflexivity].
Qed.

Lemma serial_ext bs : forall (d1 d2 : tid -> data),
  (forall t, d1 t = d2 t) ->
  (forall t, fst (serial d1 bs) t = fst (serial d2 bs) t) /\ snd (serial d1 bs) = snd (serial d2 bs).
Proof.
  induction bs as [|b bs IH]; intros d1 d2 H; cbn; auto.
  destruct (apply_block_ext d1 d2 b H) as [H1 H2].
  destruct (apply_block d1 b) as [e1 r1]. destruct (apply_block d2 b) as [e2 r2]. cbn in *.
  destruct (IH e1 e2 H1) as [H3 H4].
  destruct (serial e1 bs) as [f1 s1]. destruct (serial e2 bs) as [f2 s2]. cbn in *.
  split; auto. congruence.
Qed.

Theorem serial_equivalence bs : forall st,
  all_idle st ->
  let '(st', rs) := run st (flat_map flatten bs) in
  (forall t, db st' t = fst (serial (db st) bs) t) /\ rs = snd (serial (db st) bs) /\ all_idle st'.
Proof.
  induction bs as [|b bs IH]; intros st Hid.
  - cbn. auto.
  - cbn [flat_map]. rewrite run_app.
    pose proof (block_run st b Hid) as HB.
    destruct (run st (flatten b)) as [st1 rs1]. destruct HB as (H1 & H2 & H3).
    specialize (IH st1 H1). cbn [fst snd].
    destruct (run st1 (flat_map flatten bs)) as [st2 rs2]. destruct IH as (I1 & I2 & I3).
    cbn [C17Txn.serial]. destruct (apply_block (db st) b) as [d1 r1] eqn:E. cbn [fst snd] in *.
    destruct (serial_ext bs (db st1) d1 H2) as [X1 X2].
    destruct (serial d1 bs) as [d2 r2]. cbn [fst snd] in *.
    repeat split; auto; try apply I3.
    + intros t. now rewrite I1.
    + congruence.
Qed.

End Proofs.

(* ------------------------------------------------------------------------------------------------ *)
(* 12. Facts about the concrete machine of the correspondence (witnesses by computation).              *)
From Coq Require Import ZArith.
Open Scope Z_scope.

Definition tabs0 : tid -> rows := fun t => if N.eqb t 0 then [(1, 10)] else if N.eqb t 1 then [(1, 1)] else [].

(* COMMIT publishes every table the session touched, so a transaction that only READ a table overwrites what
   another session committed to it in the meantime (overlapping transactions) *)
Definition lost_update_history : list (sid * stmt cwop cmop) :=
  [ (1%N, Begin); (1%N, Read 0%N);                 (* session 1 only reads table 0 *)
    (2%N, Write 0%N (Ins [(4, 40)]));              (* session 2 inserts (4,40), autocommit *)
    (0%N, Read 0%N);                               (* a third session sees it: it is committed *)
    (1%N, Commit);                                 (* session 1 commits a transaction without writes *)
    (0%N, Read 0%N) ].                             (* the committed row is gone *)

Lemma lost_update_results :
  snd (crun (init (fun _ => [(1, 10)])) lost_update_history) =
  [ ROk; RRows [(1, 10)]; ROk; RRows [(1, 10); (4, 40)]; ROk; RRows [(1, 10)] ].
Proof. vm_compute. reflexivity. Qed.

(* an unfiltered DELETE FROM t0 registers EVERY table in the session: a later read of t1 inside the own open
   transaction is the snapshot taken then, and the commit republishes it (overlapping transactions) *)
Definition delete_all_history : list (sid * stmt cwop cmop) :=
  [ (1%N, Begin); (1%N, WriteAll 0%N DelAll);      (* session 1 empties table 0 *)
    (2%N, Write 1%N (Ins [(6, 6)]));               (* session 2 inserts into table 1, autocommit *)
    (0%N, Read 1%N);                               (* committed *)
    (1%N, Read 1%N);                               (* session 1 reads table 1 for the first time: the old contents *)
    (1%N, Commit); (0%N, Read 1%N) ].              (* and its commit puts the old contents back *)

Lemma delete_all_results :
  snd (crun (init tabs0) delete_all_history) =
  [ ROk; ROk; ROk; RRows [(1, 1); (6, 6)]; RRows [(1, 1)]; ROk; RRows [(1, 1)] ].
Proof. vm_compute. reflexivity. Qed.

(* the implicit commit of a DDL statement ends the transaction (its work is published, no transaction object is
   left, autocommit is on) but ignoreAutocommit stays set: the next INSERT succeeds, is NOT committed on its
   own, and a ROLLBACK discards it *)
Definition after_ddl : state rows :=
  fst (crun (init tabs0) [(1%N, Begin); (1%N, Write 0%N (Ins [(2, 20)])); (1%N, Ddl [])]).

Lemma not_autocommitted_after_implicit_commit :
  tx (ss after_ddl 1%N) = false /\ ac (ss after_ddl 1%N) = true /\ db after_ddl 0%N = [(1, 10); (2, 20)] /\
  capply (Ins [(3, 30)]) (db after_ddl 0%N) = Some [(1, 10); (2, 20); (3, 30)] /\
  snd (cstep after_ddl 1%N (Write 0%N (Ins [(3, 30)]))) = ROk /\
  db (fst (cstep after_ddl 1%N (Write 0%N (Ins [(3, 30)])))) 0%N = [(1, 10); (2, 20)] /\
  snd (crun after_ddl [(1%N, Write 0%N (Ins [(3, 30)])); (0%N, Read 0%N); (1%N, Rollback); (1%N, Read 0%N)]) =
    [ROk; RRows [(1, 10); (2, 20)]; ROk; RRows [(1, 10); (2, 20)]].
Proof. vm_compute. repeat split; reflexivity. Qed.

Lemma not_autocommitted_witness :
  exists (st : state rows) s t w x,
    st = fst (crun (init tabs0) [(1%N, Begin); (1%N, Write 0%N (Ins [(2, 20)])); (1%N, Ddl [])]) /\
    tx (ss st s) = false /\ ac (ss st s) = true /\
    capply w (db st t) = Some x /\ x <> db st t /\
    snd (cstep st s (Write t w)) = ROk /\ db (fst (cstep st s (Write t w))) t = db st t /\
    snd (crun st [(s, Write t w); (0%N, Read t); (s, Rollback); (s, Read t)]) = [ROk; RRows (db st t); ROk; RRows (db st t)].
Proof.
  exists after_ddl, 1%N, 0%N, (Ins [(3, 30)]), [(1, 10); (2, 20); (3, 30)].
  destruct not_autocommitted_after_implicit_commit as (H1 & H2 & H3 & H4 & H5 & H6 & H7).
  rewrite H3. repeat split; auto; discriminate.
Qed.

Definition example_blocks : list (block cwop cmop) :=
  [Txn 1%N (KBegin false) [RWrite 0%N (Ins [(2, 20)]); RRead 0%N] None true; Auto 2%N (RRead 0%N);
   Txn 2%N (KBegin false) [RWrite 0%N (DelKey 1)] None false;
   Txn 1%N KOff [RWrite 0%N (Ins [(3, 30)]); RSavepoint] (Some (IDdl [0%N])) false;
   Txn 2%N (KBegin true) [RWrite 0%N (DelKey 1); RMulti (MJoinRead 0%N 1%N)] None true;
   AutoIC 2%N (IWrite 1%N DelAll); Auto 1%N (RMulti (MInsSel 1%N 0%N 10)); Auto 1%N (RRead 1%N);
   OffSet 2%N [RWrite 2%N (Ins [(5, 50)]); RRead 2%N]; Auto 1%N (RRead 2%N)].

Lemma nonvacuous_example :
  let st0 := fst (cstep (init tabs0) 1%N Begin) in
  holding rows (ss st0 1%N) /\ all_idle rows (init tabs0) /\
  snd (crun (init tabs0) (flat_map flatten example_blocks)) =
  [ROk; ROk; RRows [(1, 10); (2, 20)]; ROk; RRows [(1, 10); (2, 20)];
   ROk; ROk; ROk; ROk; ROk; RErr; ROk; ROk; ROk; ROk; RErr;
   RRows [(1, 11)]; ROk; ROk; ROk; RRows [(11, 10); (12, 20); (13, 30)];
   ROk; ROk; RRows [(5, 50)]; ROk; RRows [(5, 50)]].
Proof.
  split; [|split].
  - left; reflexivity.
  - intros s. repeat split.
  - vm_compute. reflexivity.
Qed.
