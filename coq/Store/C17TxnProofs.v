(* C17 - proofs about the transaction state machine of Store/C17Txn.v.  All statements are about ALL states /
   histories; table contents and write operations are arbitrary. *)
From Coq Require Import List NArith Bool Lia.
Import ListNotations.
From GMS Require Import Store.C17Txn.

Section Proofs.
Variable data : Type.
Variable wop : Type.
Variable apply : wop -> data -> option data.

Notation sess := (sess data).
Notation state := (state data).
Notation step := (step apply).
Notation run := (run apply).

(* pointwise equality of session records / states (their fields are functions) *)
Definition sess_eq (a b : sess) : Prop :=
  (forall t, staged a t = staged b t) /\ tx a = tx b /\ ign a = ign b /\ ac a = ac b.

Lemma sess_eq_refl a : sess_eq a a.
Proof. repeat split. Qed.

Lemma set_sess_same (f : sid -> sess) s se : set_sess f s se s = se.
Proof. unfold set_sess. now rewrite N.eqb_refl. Qed.

Lemma set_sess_other (f : sid -> sess) s se s' : s' <> s -> set_sess f s se s' = f s'.
Proof. intros H. unfold set_sess. apply N.eqb_neq in H. now rewrite H. Qed.

Lemma put_same (stg : tid -> option data) t x : put stg t x t = Some x.
Proof. unfold put. now rewrite N.eqb_refl. Qed.

Lemma put_other (stg : tid -> option data) t x t' : t' <> t -> put stg t x t' = stg t'.
Proof. intros H. unfold put. apply N.eqb_neq in H. now rewrite H. Qed.

(* ------------------------------------------------------------------------------------------------ *)
(* 1. A statement of a session whose transaction is open and not auto-committing (explicit START
      TRANSACTION, or autocommit off) and that is not itself BEGIN / COMMIT / ROLLBACK / SET autocommit
      changes neither the database nor any other session.                                            *)

Definition quiet (q : stmt wop) : bool :=
  match q with Read _ | Write _ _ | WriteAll _ _ | Bad => true | _ => false end.

(* the session holds an open transaction that the end of a statement will not commit *)
Definition holding (se : sess) : Prop := tx se = true /\ (ign se = true \/ ac se = false).

Lemma close_holding (d : tid -> data) (se : sess) a :
  holding se -> a = ac se -> close d se a = (d, se).
Proof.
  intros [Htx Hm] ->. unfold close. rewrite Htx. cbn. destruct (ign se); auto.
  destruct Hm as [Hm|Hm]; [discriminate|]. now rewrite Hm.
Qed.

Lemma step_quiet_holding st s q :
  holding (ss st s) -> quiet q = true ->
  let st' := fst (step st s q) in
  (forall t, db st' t = db st t) /\ (forall s', s' <> s -> ss st' s' = ss st s') /\ holding (ss st' s).
Proof.
  intros Hh Hq. pose proof Hh as [Htx Hm]. unfold step, begin_tx. rewrite Htx.
  assert (Hc : forall g, close (db st) (mkSess g (tx (ss st s)) (ign (ss st s)) (ac (ss st s))) (ac (ss st s))
               = (db st, mkSess g (tx (ss st s)) (ign (ss st s)) (ac (ss st s)))).
  { intros g. apply close_holding; [exact Hh|reflexivity]. }
  destruct q as [t|t w| | | |b| |t w|t w]; try discriminate; cbn -[touch touch_all put cur close].
  - (* Read *)
    rewrite Hc. cbn -[touch put cur]. repeat split; auto; intros; try (now apply set_sess_other); rewrite set_sess_same; cbn; auto.
  - (* Write *)
    rewrite Hc. cbn -[touch put cur]. repeat split; auto; intros; try (now apply set_sess_other); rewrite set_sess_same; cbn; auto.
  - (* Bad *)
    destruct (ign (ss st s)) eqn:Ei.
    + repeat split; auto; intros; try (now apply set_sess_other); rewrite set_sess_same; auto.
    + destruct Hm as [Hm|Hm]; [discriminate|]. rewrite Hm.
      repeat split; auto; intros; try (now apply set_sess_other); rewrite set_sess_same; auto.
  - (* WriteAll *)
    rewrite Hc. cbn -[touch touch_all put cur]. repeat split; auto; intros; try (now apply set_sess_other); rewrite set_sess_same; cbn; auto.
Qed.

(* ------------------------------------------------------------------------------------------------ *)
(* 2. Non-interference: what the other sessions see and what ends up in the database does not depend on
      the quiet statements of a holding session.                                                      *)

(* st1 and st2 agree on the database and on every session except s *)
Definition agree_but (s : sid) (st1 st2 : state) : Prop :=
  (forall t, db st1 t = db st2 t) /\ (forall s', s' <> s -> sess_eq (ss st1 s') (ss st2 s')).

Lemma cur_ext (d1 d2 : tid -> data) (g1 g2 : tid -> option data) t :
  (forall t, d1 t = d2 t) -> (forall t, g1 t = g2 t) -> cur d1 g1 t = cur d2 g2 t.
Proof. intros Hd Hg. unfold cur. rewrite Hg, Hd. reflexivity. Qed.

Lemma put_ext (g1 g2 : tid -> option data) t x t' :
  (forall t, g1 t = g2 t) -> put g1 t x t' = put g2 t x t'.
Proof. intros Hg. unfold put. destruct (N.eqb t' t); auto. Qed.

Lemma begin_tx_eq a b : sess_eq a b -> sess_eq (begin_tx a) (begin_tx b).
Proof.
  intros (Hs & Ht & Hi & Ha). unfold begin_tx. rewrite <- Ht.
  destruct (tx a) eqn:E; repeat split; cbn; auto; congruence.
Qed.

Lemma close_ext (d1 d2 : tid -> data) (a b : sess) autoc :
  (forall t, d1 t = d2 t) -> sess_eq a b ->
  (forall t, fst (close d1 a autoc) t = fst (close d2 b autoc) t) /\
  sess_eq (snd (close d1 a autoc)) (snd (close d2 b autoc)).
Proof.
  intros Hd (Hs & Ht & Hi & Ha). unfold close. rewrite <- Ht, <- Hi.
  destruct (tx a) eqn:Et; cbn; [|repeat split; auto; congruence].
  destruct (ign a) eqn:Ei; cbn; [repeat split; auto; congruence|].
  destruct autoc; cbn; [|repeat split; auto; congruence].
  split; [intros t; unfold publish; now apply cur_ext|repeat split; cbn; auto; congruence].
Qed.

Lemma close_ic_ext (d1 d2 : tid -> data) (a b : sess) :
  (forall t, d1 t = d2 t) -> sess_eq a b ->
  (forall t, fst (close_ic d1 a) t = fst (close_ic d2 b) t) /\
  sess_eq (snd (close_ic d1 a)) (snd (close_ic d2 b)).
Proof.
  intros Hd (Hs & Ht & Hi & Ha). unfold close_ic. rewrite <- Ht.
  destruct (tx a) eqn:Et; cbn; [|repeat split; auto; congruence].
  split; [intros t; unfold publish; now apply cur_ext|repeat split; cbn; auto; congruence].
Qed.

(* a step of another session s' behaves the same in two states that agree except on s *)
Lemma step_other_agree s st1 st2 s' q :
  s' <> s -> agree_but s st1 st2 ->
  agree_but s (fst (step st1 s' q)) (fst (step st2 s' q)) /\ snd (step st1 s' q) = snd (step st2 s' q).
Proof.
  intros Hne [Hd Hs].
  pose proof (begin_tx_eq _ _ (Hs s' Hne)) as Hb.
  remember (begin_tx (ss st1 s')) as e1. remember (begin_tx (ss st2 s')) as e2.
  destruct Hb as (Hstg & Htx & Hign & Hac).
  assert (Hset : forall (x y : sess) d1 d2, (forall t, d1 t = d2 t) -> sess_eq x y ->
            agree_but s (mkState d1 (set_sess (ss st1) s' x)) (mkState d2 (set_sess (ss st2) s' y))).
  { intros x y d1 d2 Hdd Hxy. split; cbn; auto. intros s'' Hn. unfold set_sess.
    destruct (N.eqb s'' s'); auto. }
  assert (Htouch : forall t t', touch (db st1) (staged e1) t t' = touch (db st2) (staged e2) t t').
  { intros t t'. unfold touch. rewrite (cur_ext _ _ _ _ t Hd Hstg). now apply put_ext. }
  unfold step. rewrite <- Heqe1, <- Heqe2.
  destruct q as [t|t w| | | |b| |t w|t w]; cbn zeta.
  - (* Read *)
    rewrite <- Hac.
    destruct (close_ext (db st1) (db st2)
                  (mkSess (touch (db st1) (staged e1) t) (tx e1) (ign e1) (ac e1))
                  (mkSess (touch (db st2) (staged e2) t) (tx e2) (ign e2) (ac e1)) (ac e1) Hd) as [Hc1 Hc2].
    { repeat split; cbn; auto. }
    split; [apply Hset; auto|]. cbn. f_equal. now apply cur_ext.
  - (* Write *)
    rewrite <- Hac. rewrite (cur_ext _ _ _ _ t Hd Hstg).
    destruct (apply w (cur (db st2) (staged e2) t)) as [x|].
    + destruct (close_ext (db st1) (db st2)
                  (mkSess (put (touch (db st1) (staged e1) t) t x) (tx e1) (ign e1) (ac e1))
                  (mkSess (put (touch (db st2) (staged e2) t) t x) (tx e2) (ign e2) (ac e1)) (ac e1) Hd) as [Hc1 Hc2].
      { repeat split; cbn; auto. intros t'. apply put_ext. apply Htouch. }
      split; [apply Hset; auto|reflexivity].
    + destruct (close_ext (db st1) (db st2)
                  (mkSess (touch (db st1) (staged e1) t) (tx e1) (ign e1) (ac e1))
                  (mkSess (touch (db st2) (staged e2) t) (tx e2) (ign e2) (ac e1)) (ac e1) Hd) as [Hc1 Hc2].
      { repeat split; cbn; auto. }
      split; [apply Hset; auto|reflexivity].
  - (* Begin *)
    split; [|reflexivity]. apply Hset.
    + intros t. unfold publish. now apply cur_ext.
    + repeat split; cbn; auto.
  - (* Commit *)
    split; [|reflexivity]. apply Hset.
    + intros t. unfold publish. now apply cur_ext.
    + repeat split; cbn; auto.
  - (* Rollback *)
    split; [|reflexivity]. apply Hset; auto. repeat split; cbn; auto.
  - (* SetAC *)
    destruct (close_ext (db st1) (db st2)
                  (mkSess (staged e1) (tx e1) (ign e1) b) (mkSess (staged e2) (tx e2) (ign e2) b) b Hd) as [Hc1 Hc2].
    { repeat split; cbn; auto. }
    split; [apply Hset; auto|reflexivity].
  - (* Bad *)
    split; [|reflexivity]. apply Hset; auto.
    rewrite <- Hign, <- Hac. destruct (ign e1) eqn:Ei; [repeat split; auto; congruence|].
    destruct (ac e1) eqn:Ea; repeat split; cbn; auto; congruence.
  - (* WriteIC *)
    rewrite (cur_ext _ _ _ _ t Hd Hstg).
    destruct (apply w (cur (db st2) (staged e2) t)) as [x|].
    + destruct (close_ic_ext (db st1) (db st2)
                  (mkSess (put (touch (db st1) (staged e1) t) t x) (tx e1) (ign e1) (ac e1))
                  (mkSess (put (touch (db st2) (staged e2) t) t x) (tx e2) (ign e2) (ac e2)) Hd) as [Hc1 Hc2].
      { repeat split; cbn; auto. intros t'. apply put_ext. apply Htouch. }
      split; [apply Hset; auto|reflexivity].
    + destruct (close_ic_ext (db st1) (db st2)
                  (mkSess (touch (db st1) (staged e1) t) (tx e1) (ign e1) (ac e1))
                  (mkSess (touch (db st2) (staged e2) t) (tx e2) (ign e2) (ac e2)) Hd) as [Hc1 Hc2].
      { repeat split; cbn; auto. }
      split; [apply Hset; auto|reflexivity].
  - (* WriteAll *)
    assert (Hta : forall t', touch_all (db st1) (staged e1) t' = touch_all (db st2) (staged e2) t').
    { intros t'. unfold touch_all. f_equal. now apply cur_ext. }
    rewrite <- Hac. rewrite (cur_ext _ _ _ _ t Hd Hstg).
    destruct (apply w (cur (db st2) (staged e2) t)) as [x|].
    + destruct (close_ext (db st1) (db st2)
                  (mkSess (put (touch_all (db st1) (staged e1)) t x) (tx e1) (ign e1) (ac e1))
                  (mkSess (put (touch_all (db st2) (staged e2)) t x) (tx e2) (ign e2) (ac e1)) (ac e1) Hd) as [Hc1 Hc2].
      { repeat split; cbn; auto. intros t'. apply put_ext. apply Hta. }
      split; [apply Hset; auto|reflexivity].
    + destruct (close_ext (db st1) (db st2)
                  (mkSess (touch_all (db st1) (staged e1)) (tx e1) (ign e1) (ac e1))
                  (mkSess (touch_all (db st2) (staged e2)) (tx e2) (ign e2) (ac e1)) (ac e1) Hd) as [Hc1 Hc2].
      { repeat split; cbn; auto. }
      split; [apply Hset; auto|reflexivity].
Qed.

(* the results seen by sessions other than s *)
Fixpoint others (s : sid) (h : list (sid * stmt wop)) (rs : list (result data)) : list (result data) :=
  match h, rs with
  | (s', _) :: h', r :: rs' => if N.eqb s' s then others s h' rs' else r :: others s h' rs'
  | _, _ => []
  end.

Definition without (s : sid) (h : list (sid * stmt wop)) : list (sid * stmt wop) :=
  filter (fun e => negb (N.eqb (fst e) s)) h.

(* every statement of s in h is quiet *)
Definition quiet_in (s : sid) (h : list (sid * stmt wop)) : Prop :=
  forall e, In e h -> fst e = s -> quiet (snd e) = true.

Lemma run_cons st s q h :
  run st ((s, q) :: h) =
  (fst (run (fst (step st s q)) h), snd (step st s q) :: snd (run (fst (step st s q)) h)).
Proof.
  cbn. destruct (step st s q) as [st1 r]. cbn. destruct (run st1 h) as [st2 rs]. reflexivity.
Qed.

Theorem noninterference s h : forall st1 st2,
  holding (ss st1 s) -> quiet_in s h -> agree_but s st1 st2 ->
  let '(st1', rs1) := run st1 h in
  let '(st2', rs2) := run st2 (without s h) in
  agree_but s st1' st2' /\ holding (ss st1' s) /\ others s h rs1 = rs2.
Proof.
  induction h as [|[s' q] h IH]; intros st1 st2 Hh Hq Hag.
  - cbn. auto.
  - rewrite run_cons. cbn [without filter fst].
    assert (Hq' : quiet_in s h) by (intros e He; apply Hq; now right).
    destruct (N.eqb s' s) eqn:Es.
    + apply N.eqb_eq in Es. subst s'. cbn [negb].
      assert (Hqq : quiet q = true) by (apply (Hq (s, q)); [now left|reflexivity]).
      destruct (step_quiet_holding st1 s q Hh Hqq) as (Hd & Hs & Hh').
      specialize (IH (fst (step st1 s q)) st2 Hh' Hq').
      destruct (run (fst (step st1 s q)) h) as [st1' rs1] eqn:E1.
      fold (without s h). destruct (run st2 (without s h)) as [st2' rs2] eqn:E2.
      cbn [fst snd others]. rewrite N.eqb_refl. apply IH.
      destruct Hag as [Ha1 Ha2]. split.
      * intros t. rewrite Hd. apply Ha1.
      * intros s'' Hn. rewrite (Hs s'' Hn). now apply Ha2.
    + cbn [negb]. apply N.eqb_neq in Es.
      destruct (step_other_agree s st1 st2 s' q Es Hag) as [Hag' Hr].
      assert (Hh' : holding (ss (fst (step st1 s' q)) s)).
      { replace (ss (fst (step st1 s' q)) s) with (ss st1 s); auto.
        unfold step. destruct q; cbn;
          repeat match goal with |- context [let '(_, _) := ?x in _] => destruct x end; cbn;
          (rewrite set_sess_other; [reflexivity|congruence]). }
      specialize (IH (fst (step st1 s' q)) (fst (step st2 s' q)) Hh' Hq' Hag').
      rewrite run_cons. fold (without s h).
      destruct (run (fst (step st1 s' q)) h) as [st1' rs1] eqn:E1.
      destruct (run (fst (step st2 s' q)) (without s h)) as [st2' rs2] eqn:E2.
      cbn [fst snd others]. apply N.eqb_neq in Es. rewrite Es.
      destruct IH as (I1 & I2 & I3). split; [exact I1|split; [exact I2|]]. now rewrite Hr, I3.
Qed.

Lemma agree_but_refl s st : agree_but s st st.
Proof. split; auto. intros. apply sess_eq_refl. Qed.

(* ------------------------------------------------------------------------------------------------ *)
(* 3. ROLLBACK: BEGIN; (own reads/writes/failed statements interleaved with anything the other sessions
      do); ROLLBACK  leaves the database and every other session exactly as if the session had issued
      nothing between BEGIN and ROLLBACK, the others saw the same results, and the session itself is
      back to reading committed data.                                                                 *)

Lemma holding_after_begin st s : holding (ss (fst (step st s Begin)) s).
Proof. cbn. rewrite set_sess_same. split; cbn; auto. Qed.

Theorem rollback_restores st s h :
  quiet_in s h ->
  let st0 := fst (step st s Begin) in
  let '(st1, rs1) := run st0 h in
  let st2 := fst (step st1 s Rollback) in
  let '(stR, rsR) := run st0 (without s h) in
  (forall t, db st2 t = db stR t) /\
  (forall s', s' <> s -> sess_eq (ss st2 s') (ss stR s')) /\
  others s h rs1 = rsR /\
  (forall t, view st2 s t = db st2 t) /\ tx (ss st2 s) = false /\ ign (ss st2 s) = false.
Proof.
  intros Hq. cbn zeta.
  pose proof (noninterference s h _ _ (holding_after_begin st s) Hq (agree_but_refl s _)) as H.
  destruct (run (fst (step st s Begin)) h) as [st1 rs1].
  destruct (run (fst (step st s Begin)) (without s h)) as [stR rsR].
  destruct H as ([Hd Hs] & Hh & Ho).
  split; [exact Hd|]. split.
  { intros s' Hn. cbn. rewrite set_sess_other by auto. now apply Hs. }
  split; [exact Ho|]. split.
  { intros t. unfold view. cbn. rewrite set_sess_same. reflexivity. }
  cbn. rewrite set_sess_same. cbn. auto.
Qed.

(* with no other session active: the database after BEGIN; own statements; ROLLBACK is the one after BEGIN *)
Corollary rollback_restores_alone st s (qs : list (stmt wop)) :
  (forall q, In q qs -> quiet q = true) ->
  let st0 := fst (step st s Begin) in
  let st2 := fst (step (fst (run st0 (map (fun q => (s, q)) qs))) s Rollback) in
  forall t, db st2 t = db st0 t /\ view st2 s t = db st0 t.
Proof.
  intros Hq. cbn zeta. intros t.
  pose proof (rollback_restores st s (map (fun q => (s, q)) qs)) as H.
  assert (Hqi : quiet_in s (map (fun q => (s, q)) qs)).
  { intros e He _. apply in_map_iff in He. destruct He as (q & <- & Hin). now apply Hq. }
  specialize (H Hqi). cbn zeta in H.
  assert (Hw : without s (map (fun q => (s, q)) qs) = []).
  { clear. induction qs as [|q qs IH]; cbn; auto. rewrite N.eqb_refl. cbn. apply IH. }
  rewrite Hw in H. cbn [C17Txn.run] in H.
  destruct (run (fst (step st s Begin)) (map (fun q => (s, q)) qs)) as [st1 rs1].
  destruct H as (H1 & _ & _ & H4 & _). cbn [fst]. split; [apply H1|]. rewrite H4. apply H1.
Qed.

(* ------------------------------------------------------------------------------------------------ *)
(* 4. No dirty reads: the results every other session observes, the database and the other sessions'
      state are the same whether or not a holding session issues its (uncommitted) reads and writes.  *)

Theorem no_dirty_read st s h :
  holding (ss st s) -> quiet_in s h ->
  let '(st1, rs1) := run st h in
  let '(st2, rs2) := run st (without s h) in
  others s h rs1 = rs2 /\ (forall t, db st1 t = db st2 t) /\
  (forall s', s' <> s -> forall t, view st1 s' t = view st2 s' t).
Proof.
  intros Hh Hq.
  pose proof (noninterference s h _ _ Hh Hq (agree_but_refl s st)) as H.
  destruct (run st h) as [st1 rs1]. destruct (run st (without s h)) as [st2 rs2].
  destruct H as ([Hd Hs] & _ & Ho). repeat split; auto.
  intros s' Hn t. unfold view. apply cur_ext; auto.
  destruct (begin_tx_eq _ _ (Hs s' Hn)) as (Hx & _). exact Hx.
Qed.

(* ------------------------------------------------------------------------------------------------ *)
(* 5. COMMIT publishes: every table the session has staged (in particular every table it wrote) becomes
      the database content, all other tables stay, and sessions that have not staged the table see it. *)

Theorem commit_publishes st s :
  let se := begin_tx (ss st s) in
  let st' := fst (step st s Commit) in
  (forall t x, staged se t = Some x -> db st' t = x) /\
  (forall t, staged se t = None -> db st' t = db st t) /\
  (forall t, db st' t = view st s t) /\
  (forall s' t, s' <> s -> staged (begin_tx (ss st s')) t = None -> view st' s' t = view st s t) /\
  tx (ss st' s) = false /\ ign (ss st' s) = false.
Proof.
  cbn zeta. repeat split.
  - intros t x H. cbn. unfold publish, cur. now rewrite H.
  - intros t H. cbn. unfold publish, cur. now rewrite H.
  - intros s' t Hn H. unfold view. cbn [step fst ss db]. rewrite set_sess_other by auto.
    unfold cur at 1. rewrite H. reflexivity.
  - cbn. now rewrite set_sess_same.
  - cbn. now rewrite set_sess_same.
Qed.

(* what a write leaves in the session's own view (any mode): the operation applied to what it saw *)
Theorem write_updates_own_view st s t w :
  holding (ss st s) ->
  let st' := fst (step st s (Write t w)) in
  view st' s t = match apply w (view st s t) with Some x => x | None => view st s t end /\
  (forall t', t' <> t -> view st' s t' = view st s t').
Proof.
  intros [Htx Hm]. cbn zeta. unfold view, step, begin_tx. rewrite Htx.
  assert (Hc : forall g, close (db st) (mkSess g (tx (ss st s)) (ign (ss st s)) (ac (ss st s))) (ac (ss st s))
               = (db st, mkSess g (tx (ss st s)) (ign (ss st s)) (ac (ss st s)))).
  { intros g. unfold close. cbn. rewrite Htx. cbn. destruct (ign (ss st s)); auto.
    destruct Hm as [Hm|Hm]; [discriminate|]. rewrite Hm. reflexivity. }
  destruct (apply w (cur (db st) (staged (ss st s)) t)) as [x|] eqn:Ea; cbn -[touch put cur close];
    rewrite Hc; cbn -[touch put cur]; rewrite set_sess_same; cbn -[touch put cur]; rewrite Htx; cbn -[touch put cur].
  - split.
    + unfold cur at 1. now rewrite put_same.
    + intros t' Hn. unfold cur at 1, touch. rewrite !put_other by auto. reflexivity.
  - split.
    + unfold cur at 1, touch. now rewrite put_same.
    + intros t' Hn. unfold cur at 1, touch. rewrite !put_other by auto. reflexivity.
Qed.

(* ------------------------------------------------------------------------------------------------ *)
(* 6. Autocommit: a statement of an idle autocommit session is committed on its own.                   *)

Definition idle (se : sess) : Prop := tx se = false /\ ign se = false /\ ac se = true.

Lemma close_auto (d : tid -> data) g :
  close d (mkSess g true false true) true = (publish d g, mkSess g false false true).
Proof. reflexivity. Qed.

Theorem autocommit_each_statement st s t w :
  idle (ss st s) ->
  let st' := fst (step st s (Write t w)) in
  db st' t = match apply w (db st t) with Some x => x | None => db st t end /\
  (forall t', t' <> t -> db st' t' = db st t') /\
  snd (step st s (Write t w)) = match apply w (db st t) with Some _ => ROk | None => RErr end /\
  idle (ss st' s) /\ (forall s', s' <> s -> ss st' s' = ss st s').
Proof.
  intros (Htx & Hi & Ha). cbn zeta. unfold step, begin_tx. rewrite Htx, Hi, Ha. cbn [staged tx ign ac].
  change (cur (db st) no_tables t) with (db st t).
  destruct (apply w (db st t)) as [x|] eqn:Ea; rewrite close_auto; cbn [fst snd db ss].
  - split; [unfold publish, cur; now rewrite put_same|].
    split; [intros t' Hn; unfold publish, cur, touch; rewrite !put_other by auto; reflexivity|].
    split; [reflexivity|]. split; [rewrite set_sess_same; repeat split|].
    intros s' Hn. now apply set_sess_other.
  - split; [unfold publish, cur, touch; now rewrite put_same|].
    split; [intros t' Hn; unfold publish, cur, touch; rewrite !put_other by auto; reflexivity|].
    split; [reflexivity|]. split; [rewrite set_sess_same; repeat split|].
    intros s' Hn. now apply set_sess_other.
Qed.

(* ------------------------------------------------------------------------------------------------ *)
(* 7. Non-overlapping transactions: the machine equals the serial reference, results included.          *)

Definition all_idle (st : state) : Prop := forall s, idle (ss st s).

Notation apply_rw := (apply_rw apply).
Notation apply_rws := (apply_rws apply).
Notation apply_block := (apply_block apply).
Notation serial := (serial apply).

Lemma run_app st h1 h2 :
  run st (h1 ++ h2) =
  (fst (run (fst (run st h1)) h2), snd (run st h1) ++ snd (run (fst (run st h1)) h2)).
Proof.
  revert st. induction h1 as [|[s q] h1 IH]; intros st.
  - cbn. destruct (run st h2). reflexivity.
  - rewrite <- app_comm_cons, !run_cons. rewrite IH. cbn. reflexivity.
Qed.

(* one autocommit statement *)
Lemma auto_step st s q :
  idle (ss st s) ->
  let st' := fst (step st s (stmt_of q)) in
  (forall t, db st' t = fst (apply_rw (db st) q) t) /\
  snd (step st s (stmt_of q)) = snd (apply_rw (db st) q) /\
  idle (ss st' s) /\ (forall s', s' <> s -> ss st' s' = ss st s').
Proof.
  intros Hid. destruct q as [t|t w].
  - (* read *)
    destruct Hid as (Htx & Hi & Ha). cbn zeta. cbn [stmt_of]. unfold step, begin_tx. rewrite Htx, Hi, Ha.
    cbn [staged tx ign ac]. rewrite close_auto. cbn [fst snd db ss C17Txn.apply_rw].
    split.
    { intros t'. unfold publish, cur, touch, put. destruct (N.eqb t' t) eqn:E; auto.
      apply N.eqb_eq in E. now subst. }
    split; [reflexivity|]. split; [rewrite set_sess_same; repeat split|].
    intros s' Hn. now apply set_sess_other.
  - pose proof (autocommit_each_statement st s t w Hid) as (H1 & H2 & H3 & H4 & H5).
    cbn [stmt_of]. split; [|split; [|split; [exact H4|exact H5]]].
    + intros t'. cbn [C17Txn.apply_rw]. destruct (N.eq_dec t' t) as [->|Hn].
      * rewrite H1. destruct (apply w (db st t)); cbn; auto. unfold upd. now rewrite N.eqb_refl.
      * rewrite (H2 t' Hn). destruct (apply w (db st t)); cbn; auto. unfold upd.
        apply N.eqb_neq in Hn. now rewrite Hn.
    + rewrite H3. cbn. destruct (apply w (db st t)); reflexivity.
Qed.

(* inside an explicit transaction: the session's staging tracks the serial database [sd] *)
Definition tracks (d0 : tid -> data) (stg : tid -> option data) (sd : tid -> data) : Prop :=
  forall t, cur d0 stg t = sd t.

Lemma body_step st s q sd :
  tx (ss st s) = true -> ign (ss st s) = true -> tracks (db st) (staged (ss st s)) sd ->
  let st' := fst (step st s (stmt_of q)) in
  (forall t, db st' t = db st t) /\ tx (ss st' s) = true /\ ign (ss st' s) = true /\
  ac (ss st' s) = ac (ss st s) /\
  tracks (db st') (staged (ss st' s)) (fst (apply_rw sd q)) /\
  snd (step st s (stmt_of q)) = snd (apply_rw sd q) /\
  (forall s', s' <> s -> ss st' s' = ss st s').
Proof.
  intros Htx Hi Htr. cbn zeta. unfold step, begin_tx. rewrite Htx.
  assert (Hc : forall g, close (db st) (mkSess g (tx (ss st s)) (ign (ss st s)) (ac (ss st s))) (ac (ss st s))
               = (db st, mkSess g (tx (ss st s)) (ign (ss st s)) (ac (ss st s)))).
  { intros g. unfold close. cbn. rewrite Htx, Hi. reflexivity. }
  destruct q as [t|t w]; cbn -[touch put cur close].
  - rewrite Hc. cbn -[touch put cur]. rewrite set_sess_same. cbn -[touch put cur].
    repeat split; auto.
    + intros t'. unfold cur at 1, touch, put. destruct (N.eqb t' t) eqn:E.
      * apply N.eqb_eq in E. subst. apply Htr.
      * apply Htr.
    + f_equal. apply Htr.
    + intros. now apply set_sess_other.
  - rewrite (Htr t).
    destruct (apply w (sd t)) as [x|] eqn:Ea; cbn -[touch put cur close]; rewrite Hc; cbn -[touch put cur];
      rewrite set_sess_same; cbn -[touch put cur]; repeat split; auto; try (intros; now apply set_sess_other).
    + intros t'. unfold cur at 1, upd, put at 1. destruct (N.eqb t' t) eqn:E; auto.
      unfold touch, put. rewrite E. apply Htr.
    + intros t'. unfold cur at 1, touch, put. destruct (N.eqb t' t) eqn:E.
      * apply N.eqb_eq in E. subst. apply Htr.
      * apply Htr.
Qed.

Lemma body_run s : forall (body : list (rw wop)) st sd,
  tx (ss st s) = true -> ign (ss st s) = true -> tracks (db st) (staged (ss st s)) sd ->
  let '(st', rs) := run st (map (fun q => (s, stmt_of q)) body) in
  (forall t, db st' t = db st t) /\ tx (ss st' s) = true /\ ign (ss st' s) = true /\
  ac (ss st' s) = ac (ss st s) /\
  tracks (db st') (staged (ss st' s)) (fst (apply_rws sd body)) /\
  rs = snd (apply_rws sd body) /\
  (forall s', s' <> s -> ss st' s' = ss st s').
Proof.
  induction body as [|q body IH]; intros st sd Htx Hi Htr.
  - cbn. repeat split; auto.
  - cbn [map]. rewrite run_cons.
    destruct (body_step st s q sd Htx Hi Htr) as (B1 & B2 & B3 & B4 & B5 & B6 & B7).
    specialize (IH (fst (step st s (stmt_of q))) (fst (apply_rw sd q)) B2 B3 B5).
    destruct (run (fst (step st s (stmt_of q))) (map (fun q0 => (s, stmt_of q0)) body)) as [st' rs] eqn:E.
    cbn [fst snd]. destruct IH as (I1 & I2 & I3 & I4 & I5 & I6 & I7).
    cbn [C17Txn.apply_rws]. destruct (apply_rw sd q) as [d1 r1] eqn:E1. cbn [fst snd] in *.
    destruct (apply_rws d1 body) as [d2 rs2] eqn:E2. cbn [fst snd] in *.
    split; [intros t; now rewrite I1|]. split; [exact I2|]. split; [exact I3|]. split; [congruence|].
    split; [exact I5|]. split; [congruence|].
    intros s' Hn. rewrite I7 by auto. now apply B7.
Qed.

Lemma block_run st b :
  all_idle st ->
  let '(st', rs) := run st (flatten b) in
  all_idle st' /\ (forall t, db st' t = fst (apply_block (db st) b) t) /\ rs = snd (apply_block (db st) b).
Proof.
  intros Hid. destruct b as [s q|s body c].
  - cbn [flatten]. rewrite run_cons. cbn [C17Txn.run fst snd].
    destruct (auto_step st s q (Hid s)) as (A1 & A2 & A3 & A4).
    cbn [C17Txn.apply_block]. destruct (apply_rw (db st) q) as [d' r] eqn:E. cbn [fst snd] in *.
    repeat split; auto; try congruence.
    + destruct (N.eq_dec s0 s) as [->|Hn]; [apply A3|rewrite A4 by auto; apply Hid].
    + destruct (N.eq_dec s0 s) as [->|Hn]; [apply A3|rewrite A4 by auto; apply Hid].
    + destruct (N.eq_dec s0 s) as [->|Hn]; [apply A3|rewrite A4 by auto; apply Hid].
  - cbn [flatten]. rewrite run_cons, run_app.
    destruct (Hid s) as (Htx & Hi & Ha).
    set (st0 := fst (step st s Begin)).
    assert (D0 : forall t, db st0 t = db st t).
    { intros t. unfold st0. cbn. unfold begin_tx. rewrite Htx. reflexivity. }
    assert (S0 : ss st0 s = mkSess no_tables true true true).
    { unfold st0. cbn. rewrite set_sess_same. unfold begin_tx. rewrite Htx. cbn. now rewrite Ha. }
    assert (O0 : forall s', s' <> s -> ss st0 s' = ss st s').
    { intros s' Hn. unfold st0. cbn. now apply set_sess_other. }
    assert (Htr : tracks (db st0) (staged (ss st0 s)) (db st)).
    { intros t. rewrite S0. cbn. apply D0. }
    pose proof (body_run s body st0 (db st)) as HB.
    rewrite S0 in HB at 1 2. specialize (HB eq_refl eq_refl Htr).
    destruct (run st0 (map (fun q => (s, stmt_of q)) body)) as [st1 rs1] eqn:E1.
    destruct HB as (B1 & B2 & B3 & B4 & B5 & B6 & B7).
    cbn [fst snd]. cbn [C17Txn.apply_block].
    destruct (apply_rws (db st) body) as [sd rsS] eqn:ES. cbn [fst snd] in *.
    rewrite S0 in B4. cbn in B4.
    destruct c.
    + (* COMMIT *)
      cbn [C17Txn.run]. cbn -[C17Txn.run]. unfold begin_tx. rewrite B2.
      repeat split; cbn.
      * destruct (N.eq_dec s0 s) as [->|Hn]; [now rewrite set_sess_same|].
        rewrite set_sess_other by auto. rewrite B7, O0 by auto. apply Hid.
      * destruct (N.eq_dec s0 s) as [->|Hn]; [now rewrite set_sess_same|].
        rewrite set_sess_other by auto. rewrite B7, O0 by auto. apply Hid.
      * destruct (N.eq_dec s0 s) as [->|Hn]; [rewrite set_sess_same; cbn; auto|].
        rewrite set_sess_other by auto. rewrite B7, O0 by auto. apply Hid.
      * intros t. unfold publish. apply B5.
      * rewrite B6. reflexivity.
    + (* ROLLBACK *)
      cbn [C17Txn.run]. cbn -[C17Txn.run]. unfold begin_tx. rewrite B2.
      repeat split; cbn.
      * destruct (N.eq_dec s0 s) as [->|Hn]; [now rewrite set_sess_same|].
        rewrite set_sess_other by auto. rewrite B7, O0 by auto. apply Hid.
      * destruct (N.eq_dec s0 s) as [->|Hn]; [now rewrite set_sess_same|].
        rewrite set_sess_other by auto. rewrite B7, O0 by auto. apply Hid.
      * destruct (N.eq_dec s0 s) as [->|Hn]; [rewrite set_sess_same; cbn; auto|].
        rewrite set_sess_other by auto. rewrite B7, O0 by auto. apply Hid.
      * intros t. rewrite B1. apply D0.
      * rewrite B6. reflexivity.
Qed.

Lemma apply_rw_ext (d1 d2 : tid -> data) q :
  (forall t, d1 t = d2 t) ->
  (forall t, fst (apply_rw d1 q) t = fst (apply_rw d2 q) t) /\ snd (apply_rw d1 q) = snd (apply_rw d2 q).
Proof.
  intros H. destruct q as [t|t w]; cbn.
  - split; auto. now rewrite H.
  - rewrite H. destruct (apply w (d2 t)); cbn; split; auto.
    intros t'. unfold upd. destruct (N.eqb t' t); auto.
Qed.

Lemma apply_rws_ext qs : forall (d1 d2 : tid -> data),
  (forall t, d1 t = d2 t) ->
  (forall t, fst (apply_rws d1 qs) t = fst (apply_rws d2 qs) t) /\ snd (apply_rws d1 qs) = snd (apply_rws d2 qs).
Proof.
  induction qs as [|q qs IH]; intros d1 d2 H; cbn; auto.
  destruct (apply_rw_ext d1 d2 q H) as [H1 H2].
  destruct (apply_rw d1 q) as [e1 r1]. destruct (apply_rw d2 q) as [e2 r2]. cbn in *.
  destruct (IH e1 e2 H1) as [H3 H4].
  destruct (apply_rws e1 qs) as [f1 s1]. destruct (apply_rws e2 qs) as [f2 s2]. cbn in *.
  split; auto. congruence.
Qed.

Lemma apply_block_ext (d1 d2 : tid -> data) b :
  (forall t, d1 t = d2 t) ->
  (forall t, fst (apply_block d1 b) t = fst (apply_block d2 b) t) /\ snd (apply_block d1 b) = snd (apply_block d2 b).
Proof.
  intros H. destruct b as [s q|s body c]; cbn.
  - destruct (apply_rw_ext d1 d2 q H) as [H1 H2].
    destruct (apply_rw d1 q), (apply_rw d2 q). cbn in *. split; auto. congruence.
  - destruct (apply_rws_ext body d1 d2 H) as [H1 H2].
    destruct (apply_rws d1 body), (apply_rws d2 body). cbn in *. split; [destruct c; auto|congruence].
Qed.

Lemma serial_ext bs : forall (d1 d2 : tid -> data),
  (forall t, d1 t = d2 t) ->
  (forall t, fst (serial d1 bs) t = fst (serial d2 bs) t) /\ snd (serial d1 bs) = snd (serial d2 bs).
Proof.
  induction bs as [|b bs IH]; intros d1 d2 H; cbn; auto.
  destruct (apply_block_ext d1 d2 b H) as [H1 H2].
  destruct (apply_block d1 b) as [e1 r1]. destruct (apply_block d2 b) as [e2 r2]. cbn in *.
  destruct (IH e1 e2 H1) as [H3 H4].
  destruct (serial e1 bs) as [f1 s1]. destruct (serial e2 bs) as [f2 s2]. cbn in *.
  split; auto. congruence.
Qed.

Theorem serial_equivalence bs : forall st,
  all_idle st ->
  let '(st', rs) := run st (flat_map flatten bs) in
  (forall t, db st' t = fst (serial (db st) bs) t) /\ rs = snd (serial (db st) bs) /\ all_idle st'.
Proof.
  induction bs as [|b bs IH]; intros st Hid.
  - cbn. auto.
  - cbn [flat_map]. rewrite run_app.
    pose proof (block_run st b Hid) as HB.
    destruct (run st (flatten b)) as [st1 rs1]. destruct HB as (H1 & H2 & H3).
    specialize (IH st1 H1). cbn [fst snd].
    destruct (run st1 (flat_map flatten bs)) as [st2 rs2]. destruct IH as (I1 & I2 & I3).
    cbn [C17Txn.serial]. destruct (apply_block (db st) b) as [d1 r1] eqn:E. cbn [fst snd] in *.
    destruct (serial_ext bs (db st1) d1 H2) as [X1 X2].
    destruct (serial d1 bs) as [d2 r2]. cbn [fst snd] in *.
    repeat split; auto; try apply I3.
    + intros t. now rewrite I1.
    + congruence.
Qed.

End Proofs.

(* ------------------------------------------------------------------------------------------------ *)
(* 8. What does NOT hold: COMMIT publishes every table the session touched, so a transaction that only
      READ a table overwrites what another session committed to it in the meantime.                    *)
From Coq Require Import ZArith.

Definition lost_update_history : list (sid * stmt cwop) :=
  [ (1%N, Begin); (1%N, Read 0%N);                 (* session 1 only reads table 0 *)
    (2%N, Write 0%N (Ins [(4%Z, 40%Z)]));          (* session 2 inserts (4,40), autocommit *)
    (0%N, Read 0%N);                               (* a third session sees it: it is committed *)
    (1%N, Commit);                                 (* session 1 commits a transaction without writes *)
    (0%N, Read 0%N) ].                             (* the committed row is gone *)

Lemma lost_update_results :
  snd (run capply (init (fun _ => [(1%Z, 10%Z)])) lost_update_history) =
  [ ROk; RRows [(1%Z, 10%Z)]; ROk; RRows [(1%Z, 10%Z); (4%Z, 40%Z)]; ROk; RRows [(1%Z, 10%Z)] ].
Proof. vm_compute. reflexivity. Qed.

Lemma nonvacuous_example :
  let st0 := fst (step capply (init (fun _ => [(1%Z, 10%Z)])) 1%N Begin) in
  holding rows (ss st0 1%N) /\ all_idle rows (init (fun _ : tid => [(1%Z, 10%Z)])) /\
  snd (run capply (init (fun _ => [(1%Z, 10%Z)]))
         (flat_map flatten [Txn 1%N [RWrite 0%N (Ins [(2%Z, 20%Z)]); RRead 0%N] true; Auto 2%N (RRead 0%N);
                            Txn 2%N [RWrite 0%N (DelKey 1%Z)] false; Auto 1%N (RRead 0%N)])) =
  [ROk; ROk; RRows [(1%Z, 10%Z); (2%Z, 20%Z)]; ROk; RRows [(1%Z, 10%Z); (2%Z, 20%Z)]; ROk; ROk; ROk;
   RRows [(1%Z, 10%Z); (2%Z, 20%Z)]].
Proof.
  split; [|split].
  - split; [reflexivity|left; reflexivity].
  - intros s. repeat split.
  - vm_compute. reflexivity.
Qed.
