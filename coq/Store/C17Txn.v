(* C17 - transactions of the in-memory backend as a state machine at statement granularity.

   Mirrors (go-mysql-server):
     engine.go            beginTransaction, clearAutocommitOnError / clearAutocommitTransaction
     memory/session.go    tableData (first touch stores a copy of the global table data in the session),
                          putTable, StartTransaction (clears the session tables), CommitTransaction (publishes
                          EVERY session table, read or written), Rollback (clears)
     sql/rowexec/transaction.go        buildStartTransaction (commit pending work, new tx, ignoreAutocommit),
                                       buildCommit, buildRollback
     sql/rowexec/transaction_iters.go  TransactionCommittingIter.Close (autocommit read after the statement
                                       was built, so SET autocommit=1 commits the pending implicit tx)
     sql/rowexec/rel.go   buildSet (the variable is assigned while the iterator is built)

     sql/rowexec/transaction_iters.go  the implicitCommit branch of Close (DDL: commits whatever the mode and does NOT
                                       reset ignoreAutocommit, unlike buildCommit/buildRollback)
     sql/rowexec/transaction.go        buildCreateSavepoint / buildRollbackSavepoint / buildReleaseSavepoint over
                                       memory/session.go CreateSavepoint... (always an error)
     sql/analyzer/validation_rules.go  validateReadOnlyTransaction (DML rejected during analysis, DDL let through)

   The table contents [data], the single-table write operations [wop] and the multi-table statements [mop] stay
   abstract in this file (a write either yields new data or fails and leaves the data as it was:
   memory/table_editor.go DiscardChanges + Close). *)
From Coq Require Import List NArith Bool.
Import ListNotations.

Section Txn.
Variable data : Type.
Variable wop : Type.
Variable apply : wop -> data -> option data.

Definition tid := N.
Definition sid := N.

(* a statement naming several tables: a query over them, or a write to some of them computed from all of them *)
Inductive mres :=
| MFail                              (* fails without effect *)
| MWrite (l : list (tid * data))     (* new contents of the written tables *)
| MRows (d : data).                  (* a query: the rows returned *)

Variable mop : Type.
Variable mtabs : mop -> list tid.           (* the tables the statement names; every one gets its session entry *)
Variable mwrites : mop -> bool.             (* a DML write: rejected inside a READ ONLY transaction *)
Variable mexec : mop -> list data -> mres.  (* its effect, given the contents of [mtabs] in that order *)

Record sess := mkSess {
  staged : tid -> option data;   (* Session.tables *)
  tx : bool;                     (* ctx.GetTransaction() != nil *)
  ign : bool;                    (* BaseSession.ignoreAutocommit: an explicit START TRANSACTION is open *)
  ac : bool;                     (* @@autocommit *)
  ro : bool                      (* Transaction.readOnly of the open transaction (START TRANSACTION READ ONLY) *)
}.

Record state := mkState {
  db : tid -> data;              (* BaseDatabase.tables *)
  ss : sid -> sess
}.

Inductive stmt :=
| Read (t : tid)                 (* SELECT * FROM t *)
| Write (t : tid) (w : wop)      (* INSERT / UPDATE / DELETE on t *)
| Begin                          (* START TRANSACTION / BEGIN *)
| Commit
| Rollback
| SetAC (b : bool)               (* SET autocommit = b *)
| Bad                            (* a statement that fails during analysis (unknown table) *)
| WriteIC (t : tid) (w : wop)    (* a write flagged as DDL, e.g. TRUNCATE TABLE t: implicit commit when it closes *)
| WriteAll (t : tid) (w : wop)   (* a write whose planning resolves every table of the database (unfiltered DELETE FROM t,
                                    planned as a truncate after looking for referencing foreign keys): all tables are
                                    registered in the session, then t is written *)
| BeginRO                        (* START TRANSACTION READ ONLY *)
| Savepoint                      (* SAVEPOINT x / ROLLBACK TO [SAVEPOINT] x / RELEASE SAVEPOINT x: the memory session
                                    answers every one of them with an error while the iterator is built *)
| Ddl (ts : list tid)            (* a successful DDL statement with implicit commit that names the tables ts (CREATE TABLE /
                                    DROP TABLE of some other table: none; CREATE INDEX ON t, ALTER TABLE t: t) and leaves
                                    their rows alone *)
| Multi (m : mop).               (* a statement over several tables: join query, UPDATE ... JOIN, INSERT ... SELECT,
                                    DELETE a, b FROM a JOIN b *)

Inductive result :=
| ROk
| RErr
| RRows (d : data).

Definition no_tables : tid -> option data := fun _ => None.

Definition idle_sess : sess := mkSess no_tables false false true false.

(* Engine.beginTransaction *)
Definition begin_tx (se : sess) : sess :=
  if tx se then se else mkSess no_tables true (ign se) (ac se) false.   (* StartTransaction(ctx, sql.ReadWrite) *)

(* Session.tableData on first touch; later touches find the entry *)
Definition put (stg : tid -> option data) (t : tid) (x : data) : tid -> option data :=
  fun t' => if N.eqb t' t then Some x else stg t'.

Definition cur (d : tid -> data) (stg : tid -> option data) (t : tid) : data :=
  match stg t with Some x => x | None => d t end.

Definition touch (d : tid -> data) (stg : tid -> option data) (t : tid) : tid -> option data :=
  put stg t (cur d stg t).

(* every table of the database gets its session entry *)
Definition touch_all (d : tid -> data) (stg : tid -> option data) : tid -> option data :=
  fun t => Some (cur d stg t).

Definition touch_list (d : tid -> data) (stg : tid -> option data) (ts : list tid) : tid -> option data :=
  fold_left (fun g t => touch d g t) ts stg.

Definition put_list (stg : tid -> option data) (l : list (tid * data)) : tid -> option data :=
  fold_left (fun g p => put g (fst p) (snd p)) l stg.

(* Session.CommitTransaction: every table of the session replaces the global one *)
Definition publish (d : tid -> data) (stg : tid -> option data) : tid -> data :=
  fun t => cur d stg t.

Definition set_sess (f : sid -> sess) (s : sid) (se : sess) : sid -> sess :=
  fun s' => if N.eqb s' s then se else f s'.

(* TransactionCommittingIter.Close; [autoc] is @@autocommit as read after the statement was built *)
Definition close (d : tid -> data) (se : sess) (autoc : bool) : (tid -> data) * sess :=
  if negb (tx se) then (d, se)
  else if ign se then (d, se)
  else if negb autoc then (d, se)
  else (publish d (staged se), mkSess (staged se) false (ign se) (ac se) false).

(* TransactionCommittingIter.Close with implicitCommit set: commits whatever the mode; ignoreAutocommit is NOT reset *)
Definition close_ic (d : tid -> data) (se : sess) : (tid -> data) * sess :=
  if negb (tx se) then (d, se)
  else (publish d (staged se), mkSess (staged se) false (ign se) (ac se) false).

(* clearAutocommitOnError: a statement that fails before its iterator exists drops an implicitly started autocommit
   transaction and leaves everything else as it is *)
Definition fail_sess (se : sess) : sess :=
  if ign se then se else if ac se then mkSess (staged se) false (ign se) (ac se) false else se.

Definition with_stg (se : sess) (g : tid -> option data) : sess := mkSess g (tx se) (ign se) (ac se) (ro se).

(* the statement of session s (state se after beginTransaction) was rejected while it was analysed / built, after the
   tables it names got their session entries g *)
Definition rejected (st : state) (s : sid) (se : sess) (g : tid -> option data) : state * result :=
  (mkState (db st) (set_sess (ss st) s (fail_sess (with_stg se g))), RErr).

(* the iterator ran, leaving the session entries g, and is closed *)
Definition closed (st : state) (s : sid) (se : sess) (g : tid -> option data) (r : result) : state * result :=
  let c := close (db st) (with_stg se g) (ac se) in (mkState (fst c) (set_sess (ss st) s (snd c)), r).

Definition closed_ic (st : state) (s : sid) (se : sess) (g : tid -> option data) (r : result) : state * result :=
  let c := close_ic (db st) (with_stg se g) in (mkState (fst c) (set_sess (ss st) s (snd c)), r).

(* one statement of session s, from Engine.QueryWithBindings to the Close of the iterator *)
Definition step (st : state) (s : sid) (q : stmt) : state * result :=
  let se := begin_tx (ss st s) in
  let d := db st in
  let rejected := rejected st s se in
  let closed := closed st s se in
  let closed_ic := closed_ic st s se in
  match q with
  | Bad | Savepoint => rejected (staged se)
  | Read t => closed (touch d (staged se) t) (RRows (cur d (staged se) t))
  | Write t w =>
      let stg := touch d (staged se) t in
      if ro se then rejected stg else
      match apply w (cur d (staged se) t) with
      | Some x => closed (put stg t x) ROk
      | None => closed stg RErr
      end
  | WriteAll t w =>
      if ro se then rejected (touch d (staged se) t) else
      let stg := touch_all d (staged se) in
      match apply w (cur d (staged se) t) with
      | Some x => closed (put stg t x) ROk
      | None => closed stg RErr
      end
  | Multi m =>
      let stg := touch_list d (staged se) (mtabs m) in
      if ro se && mwrites m then rejected stg else
      match mexec m (map (cur d (staged se)) (mtabs m)) with
      | MFail => closed stg RErr
      | MWrite l => closed (put_list stg l) ROk
      | MRows x => closed stg (RRows x)
      end
  | Begin =>
      (* commit pending work, StartTransaction, ignoreAutocommit := true; Close does nothing *)
      (mkState (publish d (staged se)) (set_sess (ss st) s (mkSess no_tables true true (ac se) false)), ROk)
  | BeginRO =>
      (mkState (publish d (staged se)) (set_sess (ss st) s (mkSess no_tables true true (ac se) true)), ROk)
  | Commit =>
      (mkState (publish d (staged se)) (set_sess (ss st) s (mkSess (staged se) false false (ac se) false)), ROk)
  | Rollback =>
      (mkState d (set_sess (ss st) s (mkSess no_tables false false (ac se) false)), ROk)
  | SetAC b =>
      let c := close d (mkSess (staged se) (tx se) (ign se) b (ro se)) b in
      (mkState (fst c) (set_sess (ss st) s (snd c)), ROk)
  | WriteIC t w =>
      (* DDL is let through by validateReadOnlyTransaction *)
      let stg := touch d (staged se) t in
      match apply w (cur d (staged se) t) with
      | Some x => closed_ic (put stg t x) ROk
      | None => closed_ic stg RErr
      end
  | Ddl ts => closed_ic (touch_list d (staged se) ts) ROk
  end.

Fixpoint run (st : state) (h : list (sid * stmt)) : state * list result :=
  match h with
  | [] => (st, [])
  | (s, q) :: h' =>
      let '(st1, r) := step st s q in
      let '(st2, rs) := run st1 h' in
      (st2, r :: rs)
  end.

(* what session s would read from table t with its next statement *)
Definition view (st : state) (s : sid) (t : tid) : data :=
  cur (db st) (staged (begin_tx (ss st s))) t.

Definition init (d : tid -> data) : state := mkState d (fun _ => idle_sess).

(* ---- the serial reference for histories whose transactions do not overlap ---- *)

(* statements that may stand inside a transaction *)
Inductive rw :=
| RRead (t : tid) | RWrite (t : tid) (w : wop) | RWriteAll (t : tid) (w : wop) | RMulti (m : mop)
| RBad | RSavepoint.

(* statements with an implicit commit *)
Inductive ic := IWrite (t : tid) (w : wop) | IDdl (ts : list tid).

Definition stmt_of (q : rw) : stmt :=
  match q with
  | RRead t => Read t | RWrite t w => Write t w | RWriteAll t w => WriteAll t w | RMulti m => Multi m
  | RBad => Bad | RSavepoint => Savepoint
  end.

Definition stmt_of_ic (i : ic) : stmt :=
  match i with IWrite t w => WriteIC t w | IDdl ts => Ddl ts end.

Inductive bkind :=
| KBegin (r : bool)     (* START TRANSACTION [READ ONLY if r] ... COMMIT | ROLLBACK *)
| KOff.                 (* SET autocommit = 0; ...; COMMIT | ROLLBACK; SET autocommit = 1 *)

Inductive block :=
| Auto (s : sid) (q : rw)                          (* one statement of an autocommit session *)
| AutoIC (s : sid) (i : ic)                        (* one implicit-commit statement of an autocommit session *)
| OffSet (s : sid) (body : list rw)                (* SET autocommit = 0; body; SET autocommit = 1 - which commits *)
| Txn (s : sid) (k : bkind) (body : list rw) (fin : option ic) (commit : bool).
    (* open; body; [an implicit-commit statement as the LAST statement before the end]; COMMIT or ROLLBACK *)

Definition opener (k : bkind) : stmt :=
  match k with KBegin false => Begin | KBegin true => BeginRO | KOff => SetAC false end.

Definition flatten (b : block) : list (sid * stmt) :=
  match b with
  | Auto s q => [(s, stmt_of q)]
  | AutoIC s i => [(s, stmt_of_ic i)]
  | OffSet s body => (s, SetAC false) :: map (fun q => (s, stmt_of q)) body ++ [(s, SetAC true)]
  | Txn s k body fin c =>
      (s, opener k) :: map (fun q => (s, stmt_of q)) body
        ++ match fin with Some i => [(s, stmt_of_ic i)] | None => [] end
        ++ (s, if c then Commit else Rollback)
        :: match k with KOff => [(s, SetAC true)] | _ => [] end
  end.

Definition upd (d : tid -> data) (t : tid) (x : data) : tid -> data :=
  fun t' => if N.eqb t' t then x else d t'.

Definition upd_list (d : tid -> data) (l : list (tid * data)) : tid -> data :=
  fold_left (fun g p => upd g (fst p) (snd p)) l d.

(* a statement executed directly on a database; [r]: inside a READ ONLY transaction *)
Definition apply_rw (r : bool) (d : tid -> data) (q : rw) : (tid -> data) * result :=
  match q with
  | RRead t => (d, RRows (d t))
  | RWrite t w | RWriteAll t w =>
      if r then (d, RErr) else
      match apply w (d t) with Some x => (upd d t x, ROk) | None => (d, RErr) end
  | RMulti m =>
      if r && mwrites m then (d, RErr) else
      match mexec m (map d (mtabs m)) with
      | MFail => (d, RErr)
      | MWrite l => (upd_list d l, ROk)
      | MRows x => (d, RRows x)
      end
  | RBad | RSavepoint => (d, RErr)
  end.

Definition apply_ic (d : tid -> data) (i : ic) : (tid -> data) * result :=
  match i with
  | IWrite t w => match apply w (d t) with Some x => (upd d t x, ROk) | None => (d, RErr) end
  | IDdl _ => (d, ROk)
  end.

Fixpoint apply_rws (r : bool) (d : tid -> data) (qs : list rw) : (tid -> data) * list result :=
  match qs with
  | [] => (d, [])
  | q :: qs' => let '(d1, x) := apply_rw r d q in let '(d2, rs) := apply_rws r d1 qs' in (d2, x :: rs)
  end.

Definition is_ro (k : bkind) : bool := match k with KBegin r => r | KOff => false end.

(* a committed transaction is its statements run directly on the database; a rolled back one leaves the
   database alone (its statements still report what they would have done); an implicit-commit statement at its
   end commits it whatever the final COMMIT / ROLLBACK says *)
Definition apply_block (d : tid -> data) (b : block) : (tid -> data) * list result :=
  match b with
  | Auto _ q => let '(d', r) := apply_rw false d q in (d', [r])
  | AutoIC _ i => let '(d', r) := apply_ic d i in (d', [r])
  | OffSet _ body => let '(d1, rs) := apply_rws false d body in (d1, ROk :: rs ++ [ROk])
  | Txn _ k body fin c =>
      let '(d1, rs) := apply_rws (is_ro k) d body in
      let tail := match k with KOff => [ROk; ROk] | _ => [ROk] end in
      match fin with
      | None => (if c then d1 else d, ROk :: rs ++ tail)
      | Some i => let '(d2, r) := apply_ic d1 i in (d2, ROk :: rs ++ r :: tail)
      end
  end.

Fixpoint serial (d : tid -> data) (bs : list block) : (tid -> data) * list result :=
  match bs with
  | [] => (d, [])
  | b :: bs' => let '(d1, r) := apply_block d b in let '(d2, rs) := serial d1 bs' in (d2, r ++ rs)
  end.

End Txn.

Arguments MFail {data}. Arguments MWrite {data}. Arguments MRows {data}.
Arguments Read {wop mop}. Arguments Write {wop mop}. Arguments Begin {wop mop}. Arguments Commit {wop mop}.
Arguments Rollback {wop mop}. Arguments SetAC {wop mop}. Arguments Bad {wop mop}. Arguments WriteIC {wop mop}.
Arguments WriteAll {wop mop}. Arguments BeginRO {wop mop}. Arguments Savepoint {wop mop}. Arguments Ddl {wop mop}.
Arguments Multi {wop mop}.
Arguments ROk {data}. Arguments RErr {data}. Arguments RRows {data}.
Arguments RRead {wop mop}. Arguments RWrite {wop mop}. Arguments RWriteAll {wop mop}. Arguments RMulti {wop mop}.
Arguments RBad {wop mop}. Arguments RSavepoint {wop mop}.
Arguments IWrite {wop}. Arguments IDdl {wop}.
Arguments Auto {wop mop}. Arguments AutoIC {wop mop}. Arguments OffSet {wop mop}. Arguments Txn {wop mop}.
Arguments mkSess {data}. Arguments mkState {data}.
Arguments staged {data}. Arguments tx {data}. Arguments ign {data}. Arguments ac {data}. Arguments ro {data}.
Arguments db {data}. Arguments ss {data}.
Arguments idle_sess {data}. Arguments no_tables {data}.
Arguments begin_tx {data}. Arguments cur {data}. Arguments touch {data}. Arguments touch_all {data}. Arguments put {data}.
Arguments touch_list {data}. Arguments put_list {data}. Arguments publish {data}. Arguments fail_sess {data}.
Arguments set_sess {data}. Arguments close {data}. Arguments close_ic {data}.
Arguments with_stg {data}. Arguments rejected {data}. Arguments closed {data}. Arguments closed_ic {data}.
Arguments step {data wop} apply {mop} mtabs mwrites mexec. Arguments run {data wop} apply {mop} mtabs mwrites mexec.
Arguments view {data}. Arguments init {data}. Arguments stmt_of {wop mop}. Arguments stmt_of_ic {wop mop}.
Arguments opener {wop mop}. Arguments flatten {wop mop}.
Arguments upd {data}. Arguments upd_list {data}. Arguments apply_rw {data wop} apply {mop} mtabs mwrites mexec.
Arguments apply_rws {data wop} apply {mop} mtabs mwrites mexec. Arguments apply_ic {data wop} apply.
Arguments apply_block {data wop} apply {mop} mtabs mwrites mexec. Arguments serial {data wop} apply {mop} mtabs mwrites mexec.

(* ---- the concrete tables used by the correspondence: (k INT PRIMARY KEY, v INT), rows kept in key order ---- *)
From Coq Require Import ZArith.
Open Scope Z_scope.

Definition rows := list (Z * Z).

Fixpoint has_key (k : Z) (d : rows) : bool :=
  match d with [] => false | (k', _) :: d' => Z.eqb k k' || has_key k d' end.

Fixpoint ins_sorted (k v : Z) (d : rows) : rows :=
  match d with
  | [] => [(k, v)]
  | (k', v') :: d' => if Z.ltb k k' then (k, v) :: d else (k', v') :: ins_sorted k v d'
  end.

Inductive cwop :=
| Ins (kvs : list (Z * Z))       (* INSERT INTO t VALUES (k,v),...: fails as a whole on a duplicate key *)
| UpdAll (dv : Z)                (* UPDATE t SET v = v + dv *)
| UpdKey (k v : Z)               (* UPDATE t SET v = v WHERE k = k *)
| DelKey (k : Z)                 (* DELETE FROM t WHERE k = k *)
| DelGe (k : Z)                  (* DELETE FROM t WHERE k >= k *)
| DelAll.                        (* DELETE FROM t (no filter; planned as a truncate), TRUNCATE TABLE t *)

Fixpoint ins_all (kvs : list (Z * Z)) (d : rows) : option rows :=
  match kvs with
  | [] => Some d
  | (k, v) :: kvs' => if has_key k d then None else ins_all kvs' (ins_sorted k v d)
  end.

Definition capply (w : cwop) (d : rows) : option rows :=
  match w with
  | Ins kvs => ins_all kvs d
  | UpdAll dv => Some (map (fun kv => (fst kv, snd kv + dv)) d)
  | UpdKey k v => Some (map (fun kv => if Z.eqb (fst kv) k then (fst kv, v) else kv) d)
  | DelKey k => Some (filter (fun kv => negb (Z.eqb (fst kv) k)) d)
  | DelGe k => Some (filter (fun kv => Z.ltb (fst kv) k) d)
  | DelAll => Some []
  end.

(* ---- the multi-table statements of the correspondence (a <> b) ---- *)
Inductive cmop :=
| MJoinRead (a b : tid)              (* SELECT x.k, x.v + y.v FROM ta x JOIN tb y ON x.k = y.k ORDER BY x.k *)
| MUpdJoin (a b : tid) (da db : Z)   (* UPDATE ta JOIN tb ON ta.k = tb.k SET ta.v = ta.v + da, tb.v = tb.v + db *)
| MInsSel (a b : tid) (dk : Z)       (* INSERT INTO ta SELECT k + dk, v FROM tb *)
| MDelJoin (a b : tid) (k : Z).      (* DELETE ta, tb FROM ta JOIN tb ON ta.k = tb.k WHERE ta.k >= k *)

Fixpoint lookup (k : Z) (d : rows) : option Z :=
  match d with [] => None | (k', v) :: d' => if Z.eqb k k' then Some v else lookup k d' end.

Definition cmtabs (m : cmop) : list tid :=
  match m with MJoinRead a b | MUpdJoin a b _ _ | MInsSel a b _ | MDelJoin a b _ => [a; b] end.

Definition cmwrites (m : cmop) : bool := match m with MJoinRead _ _ => false | _ => true end.

Definition cmexec (m : cmop) (ds : list rows) : mres rows :=
  match ds with
  | [x; y] =>
      match m with
      | MJoinRead _ _ =>
          MRows (flat_map (fun kv => match lookup (fst kv) y with Some v' => [(fst kv, snd kv + v')] | None => [] end) x)
      | MUpdJoin a b da db =>
          MWrite [(a, map (fun kv => if has_key (fst kv) y then (fst kv, snd kv + da) else kv) x);
                  (b, map (fun kv => if has_key (fst kv) x then (fst kv, snd kv + db) else kv) y)]
      | MInsSel a _ dk =>
          match ins_all (map (fun kv => (fst kv + dk, snd kv)) y) x with
          | Some x' => MWrite [(a, x')]
          | None => MFail
          end
      | MDelJoin a b k =>
          MWrite [(a, filter (fun kv => negb (Z.leb k (fst kv) && has_key (fst kv) y)) x);
                  (b, filter (fun kv => negb (Z.leb k (fst kv) && has_key (fst kv) x)) y)]
      end
  | _ => MFail
  end.

(* the machine of the correspondence *)
Definition cstep := step capply cmtabs cmwrites cmexec.
Definition crun := run capply cmtabs cmwrites cmexec.
