(* C17 - transactions of the in-memory backend as a state machine at statement granularity.

   Mirrors (go-mysql-server):
     engine.go            beginTransaction, clearAutocommitOnError / clearAutocommitTransaction
     memory/session.go    tableData (first touch stores a copy of the global table data in the session),
                          putTable, StartTransaction (clears the session tables), CommitTransaction (publishes
                          EVERY session table, read or written), Rollback (clears)
     sql/rowexec/transaction.go        buildStartTransaction (commit pending work, new tx, ignoreAutocommit),
                                       buildCommit, buildRollback
     sql/rowexec/transaction_iters.go  TransactionCommittingIter.Close (autocommit read after the statement
                                       was built, so SET autocommit=1 commits the pending implicit tx)
     sql/rowexec/rel.go   buildSet (the variable is assigned while the iterator is built)

   The table contents [data] and the write operations [wop] stay abstract in this file (a write either yields
   new data or fails and leaves the data as it was: memory/table_editor.go DiscardChanges + Close). *)
From Coq Require Import List NArith Bool.
Import ListNotations.

Section Txn.
Variable data : Type.
Variable wop : Type.
Variable apply : wop -> data -> option data.

Definition tid := N.
Definition sid := N.

Record sess := mkSess {
  staged : tid -> option data;   (* Session.tables *)
  tx : bool;                     (* ctx.GetTransaction() != nil *)
  ign : bool;                    (* BaseSession.ignoreAutocommit: an explicit START TRANSACTION is open *)
  ac : bool                      (* @@autocommit *)
}.

Record state := mkState {
  db : tid -> data;              (* BaseDatabase.tables *)
  ss : sid -> sess
}.

Inductive stmt :=
| Read (t : tid)                 (* SELECT * FROM t *)
| Write (t : tid) (w : wop)      (* INSERT / UPDATE / DELETE on t *)
| Begin                          (* START TRANSACTION / BEGIN *)
| Commit
| Rollback
| SetAC (b : bool)               (* SET autocommit = b *)
| Bad                            (* a statement that fails during analysis (unknown table) *)
| WriteIC (t : tid) (w : wop)    (* a write flagged as DDL, e.g. TRUNCATE TABLE t: implicit commit when it closes *)
| WriteAll (t : tid) (w : wop).  (* a write whose planning resolves every table of the database (unfiltered DELETE FROM t,
                                    planned as a truncate after looking for referencing foreign keys): all tables are
                                    registered in the session, then t is written *)

Inductive result :=
| ROk
| RErr
| RRows (d : data).

Definition no_tables : tid -> option data := fun _ => None.

Definition idle_sess : sess := mkSess no_tables false false true.

(* Engine.beginTransaction *)
Definition begin_tx (se : sess) : sess :=
  if tx se then se else mkSess no_tables true (ign se) (ac se).

(* Session.tableData on first touch; later touches find the entry *)
Definition put (stg : tid -> option data) (t : tid) (x : data) : tid -> option data :=
  fun t' => if N.eqb t' t then Some x else stg t'.

Definition cur (d : tid -> data) (stg : tid -> option data) (t : tid) : data :=
  match stg t with Some x => x | None => d t end.

Definition touch (d : tid -> data) (stg : tid -> option data) (t : tid) : tid -> option data :=
  put stg t (cur d stg t).

(* every table of the database gets its session entry *)
Definition touch_all (d : tid -> data) (stg : tid -> option data) : tid -> option data :=
  fun t => Some (cur d stg t).

(* Session.CommitTransaction: every table of the session replaces the global one *)
Definition publish (d : tid -> data) (stg : tid -> option data) : tid -> data :=
  fun t => cur d stg t.

Definition set_sess (f : sid -> sess) (s : sid) (se : sess) : sid -> sess :=
  fun s' => if N.eqb s' s then se else f s'.

(* TransactionCommittingIter.Close; [autoc] is @@autocommit as read after the statement was built *)
Definition close (d : tid -> data) (se : sess) (autoc : bool) : (tid -> data) * sess :=
  if negb (tx se) then (d, se)
  else if ign se then (d, se)
  else if negb autoc then (d, se)
  else (publish d (staged se), mkSess (staged se) false (ign se) (ac se)).

(* TransactionCommittingIter.Close with implicitCommit set: commits whatever the mode; ignoreAutocommit is NOT reset *)
Definition close_ic (d : tid -> data) (se : sess) : (tid -> data) * sess :=
  if negb (tx se) then (d, se)
  else (publish d (staged se), mkSess (staged se) false (ign se) (ac se)).

(* one statement of session s, from Engine.QueryWithBindings to the Close of the iterator *)
Definition step (st : state) (s : sid) (q : stmt) : state * result :=
  let se := begin_tx (ss st s) in
  match q with
  | Bad =>
      (* clearAutocommitOnError *)
      let se' := if ign se then se else if ac se then mkSess (staged se) false (ign se) (ac se) else se in
      (mkState (db st) (set_sess (ss st) s se'), RErr)
  | Read t =>
      let se1 := mkSess (touch (db st) (staged se) t) (tx se) (ign se) (ac se) in
      let c := close (db st) se1 (ac se) in
      (mkState (fst c) (set_sess (ss st) s (snd c)), RRows (cur (db st) (staged se) t))
  | Write t w =>
      let stg := touch (db st) (staged se) t in
      let a := apply w (cur (db st) (staged se) t) in
      let stg' := match a with Some x => put stg t x | None => stg end in
      let se1 := mkSess stg' (tx se) (ign se) (ac se) in
      let c := close (db st) se1 (ac se) in
      (mkState (fst c) (set_sess (ss st) s (snd c)), match a with Some _ => ROk | None => RErr end)
  | Begin =>
      (* commit pending work, StartTransaction, ignoreAutocommit := true; Close does nothing *)
      let d' := publish (db st) (staged se) in
      (mkState d' (set_sess (ss st) s (mkSess no_tables true true (ac se))), ROk)
  | Commit =>
      let d' := publish (db st) (staged se) in
      (mkState d' (set_sess (ss st) s (mkSess (staged se) false false (ac se))), ROk)
  | Rollback =>
      (mkState (db st) (set_sess (ss st) s (mkSess no_tables false false (ac se))), ROk)
  | SetAC b =>
      let c := close (db st) (mkSess (staged se) (tx se) (ign se) b) b in
      (mkState (fst c) (set_sess (ss st) s (snd c)), ROk)
  | WriteIC t w =>
      let stg := touch (db st) (staged se) t in
      let a := apply w (cur (db st) (staged se) t) in
      let stg' := match a with Some x => put stg t x | None => stg end in
      let c := close_ic (db st) (mkSess stg' (tx se) (ign se) (ac se)) in
      (mkState (fst c) (set_sess (ss st) s (snd c)), match a with Some _ => ROk | None => RErr end)
  | WriteAll t w =>
      let stg := touch_all (db st) (staged se) in
      let a := apply w (cur (db st) (staged se) t) in
      let stg' := match a with Some x => put stg t x | None => stg end in
      let se1 := mkSess stg' (tx se) (ign se) (ac se) in
      let c := close (db st) se1 (ac se) in
      (mkState (fst c) (set_sess (ss st) s (snd c)), match a with Some _ => ROk | None => RErr end)
  end.

Fixpoint run (st : state) (h : list (sid * stmt)) : state * list result :=
  match h with
  | [] => (st, [])
  | (s, q) :: h' =>
      let '(st1, r) := step st s q in
      let '(st2, rs) := run st1 h' in
      (st2, r :: rs)
  end.

(* what session s would read from table t with its next statement *)
Definition view (st : state) (s : sid) (t : tid) : data :=
  cur (db st) (staged (begin_tx (ss st s))) t.

Definition init (d : tid -> data) : state := mkState d (fun _ => idle_sess).

(* ---- the serial reference for histories whose transactions do not overlap ---- *)

Inductive rw := RRead (t : tid) | RWrite (t : tid) (w : wop).

Definition stmt_of (q : rw) : stmt :=
  match q with RRead t => Read t | RWrite t w => Write t w end.

Inductive block :=
| Auto (s : sid) (q : rw)                          (* one statement of an autocommit session *)
| Txn (s : sid) (body : list rw) (commit : bool).  (* BEGIN; body; COMMIT or ROLLBACK *)

Definition flatten (b : block) : list (sid * stmt) :=
  match b with
  | Auto s q => [(s, stmt_of q)]
  | Txn s body c => (s, Begin) :: map (fun q => (s, stmt_of q)) body ++ [(s, if c then Commit else Rollback)]
  end.

Definition upd (d : tid -> data) (t : tid) (x : data) : tid -> data :=
  fun t' => if N.eqb t' t then x else d t'.

(* a statement executed directly on a database *)
Definition apply_rw (d : tid -> data) (q : rw) : (tid -> data) * result :=
  match q with
  | RRead t => (d, RRows (d t))
  | RWrite t w => match apply w (d t) with Some x => (upd d t x, ROk) | None => (d, RErr) end
  end.

Fixpoint apply_rws (d : tid -> data) (qs : list rw) : (tid -> data) * list result :=
  match qs with
  | [] => (d, [])
  | q :: qs' => let '(d1, r) := apply_rw d q in let '(d2, rs) := apply_rws d1 qs' in (d2, r :: rs)
  end.

(* a committed transaction is its statements run directly on the database; a rolled back one leaves the
   database alone (its statements still report what they would have done) *)
Definition apply_block (d : tid -> data) (b : block) : (tid -> data) * list result :=
  match b with
  | Auto _ q => let '(d', r) := apply_rw d q in (d', [r])
  | Txn _ body c =>
      let '(d', rs) := apply_rws d body in
      (if c then d' else d, ROk :: rs ++ [ROk])
  end.

Fixpoint serial (d : tid -> data) (bs : list block) : (tid -> data) * list result :=
  match bs with
  | [] => (d, [])
  | b :: bs' => let '(d1, r) := apply_block d b in let '(d2, rs) := serial d1 bs' in (d2, r ++ rs)
  end.

End Txn.

Arguments Read {wop}. Arguments Write {wop}. Arguments Begin {wop}. Arguments Commit {wop}.
Arguments Rollback {wop}. Arguments SetAC {wop}. Arguments Bad {wop}. Arguments WriteIC {wop}. Arguments WriteAll {wop}.
Arguments ROk {data}. Arguments RErr {data}. Arguments RRows {data}.
Arguments RRead {wop}. Arguments RWrite {wop}.
Arguments Auto {wop}. Arguments Txn {wop}.
Arguments mkSess {data}. Arguments mkState {data}.
Arguments staged {data}. Arguments tx {data}. Arguments ign {data}. Arguments ac {data}.
Arguments db {data}. Arguments ss {data}.
Arguments idle_sess {data}. Arguments no_tables {data}.
Arguments begin_tx {data}. Arguments cur {data}. Arguments touch {data}. Arguments touch_all {data}. Arguments put {data}. Arguments publish {data}.
Arguments set_sess {data}. Arguments close {data}. Arguments close_ic {data}. Arguments step {data wop}. Arguments run {data wop}.
Arguments view {data}. Arguments init {data}. Arguments stmt_of {wop}. Arguments flatten {wop}.
Arguments upd {data}. Arguments apply_rw {data wop}. Arguments apply_rws {data wop}.
Arguments apply_block {data wop}. Arguments serial {data wop}.

(* ---- the concrete tables used by the correspondence: (k INT PRIMARY KEY, v INT), rows kept in key order ---- *)
From Coq Require Import ZArith.
Open Scope Z_scope.

Definition rows := list (Z * Z).

Fixpoint has_key (k : Z) (d : rows) : bool :=
  match d with [] => false | (k', _) :: d' => Z.eqb k k' || has_key k d' end.

Fixpoint ins_sorted (k v : Z) (d : rows) : rows :=
  match d with
  | [] => [(k, v)]
  | (k', v') :: d' => if Z.ltb k k' then (k, v) :: d else (k', v') :: ins_sorted k v d'
  end.

Inductive cwop :=
| Ins (kvs : list (Z * Z))       (* INSERT INTO t VALUES (k,v),...: fails as a whole on a duplicate key *)
| UpdAll (dv : Z)                (* UPDATE t SET v = v + dv *)
| UpdKey (k v : Z)               (* UPDATE t SET v = v WHERE k = k *)
| DelKey (k : Z)                 (* DELETE FROM t WHERE k = k *)
| DelGe (k : Z)                  (* DELETE FROM t WHERE k >= k *)
| DelAll.                        (* DELETE FROM t (no filter; planned as a truncate), TRUNCATE TABLE t *)

Fixpoint ins_all (kvs : list (Z * Z)) (d : rows) : option rows :=
  match kvs with
  | [] => Some d
  | (k, v) :: kvs' => if has_key k d then None else ins_all kvs' (ins_sorted k v d)
  end.

Definition capply (w : cwop) (d : rows) : option rows :=
  match w with
  | Ins kvs => ins_all kvs d
  | UpdAll dv => Some (map (fun kv => (fst kv, snd kv + dv)) d)
  | UpdKey k v => Some (map (fun kv => if Z.eqb (fst kv) k then (fst kv, v) else kv) d)
  | DelKey k => Some (filter (fun kv => negb (Z.eqb (fst kv) k)) d)
  | DelGe k => Some (filter (fun kv => Z.ltb (fst kv) k) d)
  | DelAll => Some []
  end.
