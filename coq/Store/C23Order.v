(* C23 - plan.OrderTriggers (sql/plan/ddl_trigger.go) and analyzer.orderTriggersAndReverseAfter, as they are, for ANY
   number of FOLLOWS / PRECEDES clauses among the triggers of one event.

   Go code, per index i of the list [triggers] handed in by applyTriggers (all triggers of the table and event, both
   times, in creation order = memory.BaseDatabase.GetTriggers order), with [ordered] a private copy:

     for i, trigger := range triggers {
       if trigger.TriggerOrder != nil {
         ordered = append(ordered[:i], ordered[i+1:]...)            // removes position i of ORDERED (not "this trigger")
         for j, t := range ordered { if t.TriggerName == ref {
            PRECEDES: ordered = append(ordered[:j],   append(triggers[i:i+1], ordered[j:]...)...)
            FOLLOWS : ordered = append(ordered[:j+1], append(triggers[i:i+1], ordered[j+1:]...)...)
            continue Top } }
         panic("Referenced trigger not found") } }

   Go slice semantics that matter: [triggers[i:i+1]] has length 1 and capacity cap(triggers)-i, so the inner append
   writes the tail of [ordered] INTO THE BACKING ARRAY OF [triggers], positions i+1.., whenever 1 + len(tail) fits in that
   capacity - which changes the elements the range loop reads at the following indices (the loop reads triggers[i] from
   the array at each iteration).  Otherwise a fresh array is used and [triggers] stays as it is.  The outer append always
   fits into the private array of [ordered] (length n-1 after the removal, capacity n).
   cap(triggers): applyTriggers builds the list by append from nil, one element at a time, so by runtime.growslice
   (8-byte elements, fewer than 256 of them) the capacity is the least power of two >= n ([gocap]).
   The model keeps of [triggers] only the not yet visited part [rest] (head = triggers[i]); writes beyond len(triggers)
   are invisible.  Trigger names are the tags. *)
From Coq Require Import List ZArith Bool Arith.
Import ListNotations.
From GMS Require Import Store.C23Trigger.

Open Scope nat_scope.

Notation item := (trigger * clause)%type.

Fixpoint remove_nth {A} (i : nat) (l : list A) : list A :=
  match i, l with
  | _, [] => []
  | O, _ :: l' => l'
  | S i', a :: l' => a :: remove_nth i' l'
  end.

Fixpoint find_ref (g : Z) (l : list item) : option nat :=
  match l with
  | [] => None
  | (t, _) :: l' => if Z.eqb (t_tag t) g then Some O else option_map S (find_ref g l')
  end.

(* append(triggers[i:i+1], src...) in place: the elements after triggers[i] are overwritten by src, as far as they are
   inside len(triggers) *)
Definition overwrite (r src : list item) : list item := firstn (length r) (src ++ skipn (length src) r).

(* capacity after appending n elements one at a time to a nil slice (growslice doubling; pointer elements, n < 256) *)
Fixpoint grow (fuel : nat) (c n : nat) : nat :=
  match fuel with
  | O => c
  | S f => if n <=? c then c else grow f (if c =? 0 then 1 else 2 * c) n
  end.
Definition gocap (n : nat) : nat := grow (S n) 0 n.

(* one iteration: i, the unvisited part of [triggers] (x = triggers[i]), [ordered] *)
Definition step (cT i : nat) (x : item) (r : list item) (o : list item) : option (list item * list item) :=
  match snd x with
  | NoClause => Some (r, o)
  | Follows g | Precedes g =>
      let o' := remove_nth i o in
      match find_ref g o' with
      | None => None                                     (* panic: Referenced trigger not found *)
      | Some j =>
          let pos := match snd x with Precedes _ => j | _ => S j end in
          let tail := skipn pos o' in
          let fits := (1 + length tail <=? cT - i) in
          Some ((if fits then overwrite r tail else r), firstn pos o' ++ x :: tail)
      end
  end.

Fixpoint go_loop (cT : nat) (fuel i : nat) (rest o : list item) : option (list item) :=
  match fuel, rest with
  | S f, x :: r =>
      match step cT i x r o with
      | None => None
      | Some (r', o') => go_loop cT f (S i) r' o'
      end
  | _, _ => Some o
  end.

Definition go_ordered (l : list item) : option (list item) := go_loop (gocap (length l)) (length l) 0 l l.

(* plan.OrderTriggers: (BEFORE triggers, AFTER triggers) in firing order; None = the statement panics.
   orderTriggersAndReverseAfter reverses the AFTER list because applyTrigger wraps the DML node once per AFTER trigger,
   innermost first, so the firing order is this one. *)
Definition go_order (l : list item) : option (list trigger * list trigger) :=
  match go_ordered l with
  | None => None
  | Some o => Some (befores (map fst o), afters (map fst o))
  end.

(* ---- what MySQL prescribes: each (event, time) class is kept in creation order, a trigger created with FOLLOWS /
   PRECEDES is placed right after / right before the named trigger of its class at creation ---- *)
Definition mysql_order (l : list item) : list trigger * list trigger :=
  (order_triggers (filter (fun x => is_before (fst x)) l) [],
   order_triggers (filter (fun x => negb (is_before (fst x))) l) []).

Definition no_clause (x : item) : Prop := snd x = NoClause.
