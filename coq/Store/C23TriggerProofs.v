(* C23 - proofs about the trigger model of Store/C23Trigger.v. *)
From Coq Require Import List ZArith Bool Lia.
Import ListNotations.
From GMS Require Import Store.C23Trigger.
Open Scope Z_scope.

Definition tag_of (e : entry) : Z := fst (fst e).

Lemma run_before_tags ts : forall old new, map tag_of (fst (run_before ts old new)) = map t_tag ts.
Proof.
  induction ts as [|t ts IH]; intros old new; cbn; auto.
  specialize (IH old (apply_set (t_set t) new)).
  destruct (run_before ts old (apply_set (t_set t) new)) as [log n']. cbn in *. now rewrite IH.
Qed.

Lemma run_after_tags ts old new : map tag_of (run_after ts old new) = map t_tag ts.
Proof. unfold run_after. rewrite map_map. reflexivity. Qed.

(* the tags one affected row contributes: BEFORE triggers in order, then AFTER triggers in order *)
Definition row_tags (ts : list trigger) : list Z := map t_tag (befores ts) ++ map t_tag (afters ts).

(* what the BEFORE triggers leave in NEW: the SET operations composed in firing order *)
Definition final_new (ts : list trigger) (new : row) : row :=
  fold_left (fun n t => apply_set (t_set t) n) ts new.

Lemma run_before_new ts : forall old new, snd (run_before ts old new) = final_new ts new.
Proof.
  induction ts as [|t ts IH]; intros old new; cbn; auto.
  specialize (IH old (apply_set (t_set t) new)).
  destruct (run_before ts old (apply_set (t_set t) new)) as [log n']. cbn in *. exact IH.
Qed.

(* what the k-th BEFORE trigger sees: NEW after the SETs of the triggers fired before it *)
Lemma run_before_sees ts : forall old new k t,
  nth_error ts k = Some t ->
  nth_error (fst (run_before ts old new)) k =
    Some (t_tag t, get (t_x t) old (final_new (firstn k ts) new), get (t_y t) old (final_new (firstn k ts) new)).
Proof.
  induction ts as [|a ts IH]; intros old new k t H; [destruct k; discriminate|].
  cbn. specialize (IH old (apply_set (t_set a) new)).
  destruct (run_before ts old (apply_set (t_set a) new)) as [log n'] eqn:E. cbn.
  destruct k as [|k]; cbn in *.
  - now injection H as <-.
  - apply IH. exact H.
Qed.

(* ---- UPDATE ---- *)
Theorem update_fires_once_per_row_in_order ts c m tb :
  map tag_of (snd (upd_rows ts c m tb)) = flat_map (fun _ => row_tags ts) (filter m tb) /\
  fst (upd_rows ts c m tb) =
    map (fun r => if m r then final_new (befores ts) (fst r, snd r + c) else r) tb.
Proof.
  induction tb as [|r tb [IH1 IH2]]; cbn; auto.
  destruct (upd_rows ts c m tb) as [tb2 log2]. cbn in *.
  destruct (m r); cbn.
  - pose proof (run_before_tags (befores ts) r (fst r, snd r + c)) as Hb.
    pose proof (run_before_new (befores ts) r (fst r, snd r + c)) as Hn.
    destruct (run_before (befores ts) r (fst r, snd r + c)) as [lb r']. cbn in *.
    split.
    + rewrite !map_app, Hb, run_after_tags, IH1. unfold row_tags. now rewrite <- app_assoc.
    + now rewrite Hn, IH2.
  - split; [exact IH1|now rewrite IH2].
Qed.

(* ---- DELETE ---- *)
Theorem delete_fires_once_per_row_in_order ts m tb :
  map tag_of (snd (del_rows ts m tb)) = flat_map (fun _ => row_tags ts) (filter m tb) /\
  fst (del_rows ts m tb) = filter (fun r => negb (m r)) tb.
Proof.
  induction tb as [|r tb [IH1 IH2]]; cbn; auto.
  destruct (del_rows ts m tb) as [tb2 log2]. cbn in *.
  destruct (m r); cbn.
  - split; [|exact IH2].
    rewrite !map_app, run_before_tags, run_after_tags, IH1. unfold row_tags. now rewrite <- app_assoc.
  - split; [exact IH1|now rewrite IH2].
Qed.

(* ---- INSERT (a statement that succeeds) ---- *)
Theorem insert_fires_once_per_row_in_order ts : forall rows tb log0 tb' log,
  ins_rows ts rows tb log0 = (tb', log, false) ->
  map tag_of log = map tag_of log0 ++ flat_map (fun _ => row_tags ts) rows /\
  (forall r, In r tb' <-> In r tb \/ In r (map (fun r => final_new (befores ts) r) rows)).
Proof.
  induction rows as [|r rows IH]; intros tb log0 tb' log H; cbn in H.
  - injection H as <- <-. cbn. rewrite app_nil_r. split; auto. intros r. tauto.
  - pose proof (run_before_tags (befores ts) r r) as Hb.
    pose proof (run_before_new (befores ts) r r) as Hn.
    destruct (run_before (befores ts) r r) as [lb r']. cbn in Hb, Hn.
    destruct (has_id (fst r') tb); [discriminate|].
    apply IH in H. destruct H as [H1 H2]. split.
    + rewrite H1, !map_app, Hb, run_after_tags. cbn. unfold row_tags. now rewrite <- !app_assoc.
    + intros x. rewrite H2. cbn. rewrite <- Hn.
      assert (Hi : forall l, In x (insert_sorted r' l) <-> x = r' \/ In x l).
      { induction l as [|a l IHl]; cbn; [intuition congruence|].
        destruct (fst r' <? fst a); cbn; [intuition congruence|]. rewrite IHl. intuition congruence. }
      rewrite Hi. intuition congruence.
Qed.

(* without placement clauses the firing order is the creation order *)
Lemma order_triggers_creation l : forall acc, order_triggers (map (fun t => (t, NoClause)) l) acc = acc ++ l.
Proof.
  induction l as [|t l IH]; intros acc; cbn; [now rewrite app_nil_r|]. rewrite IH. now rewrite <- app_assoc.
Qed.

(* FOLLOWS puts the new trigger right after the named one, PRECEDES right before it *)
Lemma place_after_spec x g l1 a l2 :
  (forall b, In b l1 -> t_tag b <> g) -> t_tag a = g -> place_after x g (l1 ++ a :: l2) = l1 ++ a :: x :: l2.
Proof.
  intros H Ha. induction l1 as [|b l1 IH]; cbn.
  - rewrite Ha, Z.eqb_refl. reflexivity.
  - assert (t_tag b =? g = false) as -> by (apply Z.eqb_neq; apply H; now left).
    f_equal. apply IH. intros c Hc. apply H. now right.
Qed.
Lemma place_before_spec x g l1 a l2 :
  (forall b, In b l1 -> t_tag b <> g) -> t_tag a = g -> place_before x g (l1 ++ a :: l2) = l1 ++ x :: a :: l2.
Proof.
  intros H Ha. induction l1 as [|b l1 IH]; cbn.
  - rewrite Ha, Z.eqb_refl. reflexivity.
  - assert (t_tag b =? g = false) as -> by (apply Z.eqb_neq; apply H; now left).
    f_equal. apply IH. intros c Hc. apply H. now right.
Qed.

(* ---- what is false: the triggers' effects are not discarded with a failing statement ---- *)
Definition w_trigs := mkSet [mkTrig Before 1 NewId NewV (Some (SAdd 10)); mkTrig After 2 NewId NewV None] [] [].
Lemma effects_not_atomic_witness :
  exec w_trigs [(1, 11); (2, 12)] (SIns [(3, 3); (1, 5)]) =
    ([(1, 11); (2, 12)], [(1, 3, 3); (2, 3, 13); (1, 1, 5)], true).
Proof. vm_compute. reflexivity. Qed.

Lemma nonvacuous_example :
  exec w_trigs [] (SIns [(1, 1); (2, 2)]) = ([(1, 11); (2, 12)], [(1, 1, 1); (2, 1, 11); (1, 2, 2); (2, 2, 12)], false).
Proof. vm_compute. reflexivity. Qed.
