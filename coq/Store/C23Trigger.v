(* C23 - row triggers on t (id INT PRIMARY KEY, v INT) writing to an audit table.

   Mirrors (go-mysql-server): sql/analyzer/triggers.go applyTriggers / applyTrigger (BEFORE triggers wrap the row source,
   AFTER triggers wrap the DML node, so per affected row: BEFORE triggers in order, the row operation, AFTER triggers in
   order), sql/plan/trigger.go + rowexec triggerIter (OLD/NEW row layout, SET NEW.v written through to the stored row),
   rowexec AddTriggerRollbackIter + memory/session.go CreateSavepoint (savepoints are rejected, so when the statement
   fails the table under edit is restored by its editor but the rows the triggers wrote elsewhere stay).
   Trigger order: creation order with at most one FOLLOWS / PRECEDES placement per event (plan.OrderTriggers for several
   clauses is not modelled, see docs/C23.md).  Bodies: INSERT INTO audit (tag, x, y) VALUES (tag, <field>, <field>)
   optionally followed by SET NEW.v = NEW.v + c | NEW.v * c (BEFORE INSERT / BEFORE UPDATE). *)
From Coq Require Import List ZArith Bool.
Import ListNotations.
Open Scope Z_scope.

Inductive ttime := Before | After.
Inductive tevent := EIns | EUpd | EDel.
Inductive field := OldId | OldV | NewId | NewV.
Inductive setop := SAdd (c : Z) | SMul (c : Z).

Record trigger := mkTrig { t_time : ttime; t_tag : Z; t_x : field; t_y : field; t_set : option setop }.

Definition row := (Z * Z)%type.
Definition entry := (Z * Z * Z)%type.      (* tag, x, y *)

Definition get (f : field) (old new : row) : Z :=
  match f with OldId => fst old | OldV => snd old | NewId => fst new | NewV => snd new end.

Definition apply_set (o : option setop) (new : row) : row :=
  match o with None => new | Some (SAdd c) => (fst new, snd new + c) | Some (SMul c) => (fst new, snd new * c) end.

(* the BEFORE triggers of one row: each logs what it sees, then may change NEW.v *)
Fixpoint run_before (ts : list trigger) (old new : row) : list entry * row :=
  match ts with
  | [] => ([], new)
  | t :: ts' =>
      let e := (t_tag t, get (t_x t) old new, get (t_y t) old new) in
      let '(log, new') := run_before ts' old (apply_set (t_set t) new) in
      (e :: log, new')
  end.

Definition run_after (ts : list trigger) (old new : row) : list entry :=
  map (fun t => (t_tag t, get (t_x t) old new, get (t_y t) old new)) ts.

Definition is_before (t : trigger) : bool := match t_time t with Before => true | After => false end.
Definition befores (ts : list trigger) := filter is_before ts.
Definition afters (ts : list trigger) := filter (fun t => negb (is_before t)) ts.

Definition table := list row.
Definition has_id (k : Z) (tb : table) : bool := existsb (fun r => fst r =? k) tb.
Fixpoint insert_sorted (r : row) (tb : table) : table :=
  match tb with
  | [] => [r]
  | a :: tb' => if fst r <? fst a then r :: tb else a :: insert_sorted r tb'
  end.

(* INSERT rows: per row BEFORE, insert (duplicate id = error), AFTER.  Result: table, log, failed? *)
Fixpoint ins_rows (ts : list trigger) (rows : list row) (tb : table) (log : list entry) : table * list entry * bool :=
  match rows with
  | [] => (tb, log, false)
  | r :: rows' =>
      let '(lb, r') := run_before (befores ts) r r in
      if has_id (fst r') tb then (tb, log ++ lb, true)
      else ins_rows ts rows' (insert_sorted r' tb) (log ++ lb ++ run_after (afters ts) r' r')
  end.

(* UPDATE t SET v = v + c on the matching rows, in id order; no failure possible *)
Fixpoint upd_rows (ts : list trigger) (c : Z) (m : row -> bool) (tb : table) : table * list entry :=
  match tb with
  | [] => ([], [])
  | r :: tb' =>
      let '(tb2, log2) := upd_rows ts c m tb' in
      if m r then
        let '(lb, r') := run_before (befores ts) r (fst r, snd r + c) in
        (r' :: tb2, lb ++ run_after (afters ts) r r' ++ log2)
      else (r :: tb2, log2)
  end.

Fixpoint del_rows (ts : list trigger) (m : row -> bool) (tb : table) : table * list entry :=
  match tb with
  | [] => ([], [])
  | r :: tb' =>
      let '(tb2, log2) := del_rows ts m tb' in
      if m r then (tb2, fst (run_before (befores ts) r r) ++ run_after (afters ts) r r ++ log2)
      else (r :: tb2, log2)
  end.

Inductive stmt :=
| SIns (rows : list row)
| SUpd (c : Z) (k : option Z)      (* UPDATE t SET v = v + c [WHERE id = k] *)
| SDel (k : Z).                    (* DELETE FROM t WHERE id >= k *)

Definition matches (k : option Z) (r : row) : bool := match k with None => true | Some x => fst r =? x end.

(* trigger lists per event, already in firing order *)
Record trigset := mkSet { on_ins : list trigger; on_upd : list trigger; on_del : list trigger }.

(* table after, the audit rows written by the statement, failed?; a failing statement restores the table - not the audit *)
Definition exec (s : trigset) (tb : table) (q : stmt) : table * list entry * bool :=
  match q with
  | SIns rows => let '(tb', log, failed) := ins_rows (on_ins s) rows tb [] in ((if failed then tb else tb'), log, failed)
  | SUpd c k => let '(tb', log) := upd_rows (on_upd s) c (matches k) tb in (tb', log, false)
  | SDel k => let '(tb', log) := del_rows (on_del s) (fun r => k <=? fst r) tb in (tb', log, false)
  end.

(* firing order from creation order and one optional placement clause (MySQL: the trigger is placed when created) *)
Inductive clause := NoClause | Follows (tag : Z) | Precedes (tag : Z).

Fixpoint place_before (x : trigger) (tag : Z) (l : list trigger) : list trigger :=
  match l with
  | [] => [x]
  | a :: l' => if t_tag a =? tag then x :: l else a :: place_before x tag l'
  end.
Fixpoint place_after (x : trigger) (tag : Z) (l : list trigger) : list trigger :=
  match l with
  | [] => [x]
  | a :: l' => if t_tag a =? tag then a :: x :: l' else a :: place_after x tag l'
  end.

Fixpoint order_triggers (created : list (trigger * clause)) (acc : list trigger) : list trigger :=
  match created with
  | [] => acc
  | (x, NoClause) :: l => order_triggers l (acc ++ [x])
  | (x, Follows g) :: l => order_triggers l (place_after x g acc)
  | (x, Precedes g) :: l => order_triggers l (place_before x g acc)
  end.
