(* C20: model of AUTO_INCREMENT bookkeeping for a table t(id <int type> AUTO_INCREMENT PRIMARY KEY, u UNIQUE, v):
     memory/table.go        Table.GetNextAutoIncrementValue, PeekNextAutoIncrementValue, updateAutoIncrementSafe
     sql/expression/auto_increment.go   AutoIncrement.Eval (NULL / 0 => generate; negative => no auto logic)
     memory/table_editor.go tableEditor.Insert (primary key, then unique key check; counter bump: cmp > 0 => value + 1,
                            cmp = 0 => + 1), tableEditor.Update (no counter logic), SetAutoIncrementValue (ALTER,
                            unconditional), StatementBegin / StatementComplete / DiscardChanges (a failed statement
                            restores the TableData, counter included; an ignorable error only clears the accumulator)
     sql/rowexec/insert.go  insertIter.Next: plain / IGNORE / REPLACE (delete the conflicting rows, insert, return BEFORE
                            updateLastInsertId) / ON DUPLICATE KEY UPDATE (handleOnDuplicateKeyUpdate on the existing row, no
                            updateLastInsertId); updateLastInsertId (countdown of firstGeneratedAutoIncRowIdx over INSERTED rows)
     sql/rowexec/dml.go     INSERT IGNORE runs under the CheckpointingTableEditorIter: StatementComplete after every inserted
                            row replaces the SESSION's table data by a copy of the accumulator's; from then on
                            GetNextAutoIncrementValue works on that copy ([sctr]) while tableEditor.Insert advances the
                            accumulator's counter ([ctr]); tableEditor.Close copies the accumulator's data back at the end
     sql/rowexec/dml_iters.go  insertRowHandler (OkResult.InsertID = id of the first inserted row); REPLACE / ODKU:
                            InsertID = the session's LAST_INSERT_ID() at the end of the statement
     memory/session.go      StartTransaction / CommitTransaction / Rollback: a transaction works on a private copy of the
                            table data (counter included) and COMMIT stores that copy as the table ([world] below)
   The counter is advanced only while the next value fits the column type ([tmax]): it pins there and never wraps. *)
From Coq Require Import List ZArith Bool.
Import ListNotations.
Open Scope Z_scope.

Record st := {
  ctr : Z;              (* autoIncVal of the edit accumulator's TableData (= the table's between statements) *)
  sctr : Z;             (* autoIncVal of the session's TableData: differs from ctr only inside an INSERT IGNORE *)
  linked : bool;        (* both are the same Go object (no checkpoint has happened in this statement) *)
  rows : list (Z * Z);  (* stored rows: id, u *)
  lid : Z;              (* session LAST_INSERT_ID() *)
  cnt : Z;              (* insertIter.firstGeneratedAutoIncRowIdx (per statement) *)
  first : option Z;     (* insertRowHandler.lastInsertId source: id of the first inserted row (per statement) *)
  delu : list Z;        (* u values of the rows in the edit accumulator's [deletes] (per statement): GetByCols reports no
                           conflict for them, although ON DUPLICATE KEY UPDATE has put the updated row back *)
  seen : list Z;        (* ghost: every id ever stored, in order *)
  gens : list Z         (* ghost: every generated id of a committed row, in order *)
}.

Definition ids (s : st) : list Z := map fst (rows s).

Definition init : st :=
  {| ctr := 1; sctr := 1; linked := true; rows := []; lid := 0; cnt := -1; first := None; delu := []; seen := []; gens := [] |}.

(* ON DUPLICATE KEY UPDATE v = <const> | id = LAST_INSERT_ID(id) | id = id + d *)
Inductive oact := OSetV | OLid | OAdd (d : Z).
Inductive imode := MPlain | MIgnore | MReplace | MOdku (a : oact).

Inductive event :=
| EInsert (m : imode) (specs : list (option Z * Z))
    (* id: None = NULL / 0 / DEFAULT / column omitted, Some k = explicit k <> 0;  second component: the row's u value *)
| EDelGe (k : Z)                                     (* DELETE FROM t WHERE id >= k *)
| EDelEq (k : Z)                                     (* DELETE FROM t WHERE id = k *)
| EAlter (n : Z)                                     (* ALTER TABLE t AUTO_INCREMENT = n *)
| EUpdId (k k' : Z)                                  (* UPDATE t SET id = k' WHERE id = k *)
| ESetLid (n : Z).                                   (* SELECT LAST_INSERT_ID(n) *)

(* analyzer/inserts.go: index of the first tuple whose id is NULL / 0 / DEFAULT, else -1 *)
Fixpoint first_gen_index (specs : list (option Z * Z)) : Z :=
  match specs with
  | [] => -1
  | (None, _) :: _ => 0
  | (Some _, _) :: r => let i := first_gen_index r in if i <? 0 then -1 else i + 1
  end.

(* updateAutoIncrementSafe *)
Definition bump (tmax c : Z) : Z := if c <? tmax then c + 1 else c.

(* tableEditor.Insert's counter logic: cmp > 0 => the inserted value, then +1; cmp = 0 => +1 *)
Definition ins_bump (tmax id c : Z) : Z := if c <=? id then bump tmax id else c.

(* AutoIncrement.Eval + GetNextAutoIncrementValue (on the session's table data): the id of the row; an explicit id above
   the counter raises it *)
Definition eval_id (s : st) (sp : option Z) : Z * st :=
  match sp with
  | None => (sctr s, s)
  | Some k =>
      if k <? 0 then (k, s)
      else (k, {| ctr := if linked s then Z.max (ctr s) k else ctr s; sctr := Z.max (sctr s) k; linked := linked s;
                  rows := rows s; lid := lid s; cnt := cnt s; first := first s; delu := delu s; seen := seen s; gens := gens s |})
  end.

Definition has_id (id : Z) (l : list (Z * Z)) : bool := existsb (fun r => fst r =? id) l.
Definition has_u (u : Z) (l : list (Z * Z)) : bool := existsb (fun r => snd r =? u) l.

(* the row tableEditor.Insert reports as UniqueKeyError.Existing: primary key first (pkTableEditAccumulator.Get), then the
   unique index (GetByCols: "if we have this row in any delete, bail" - a u value of [dl] is reported as free; the table is
   kept sorted by id, so the row with the smallest id is found) *)
Fixpoint min_u (u : Z) (l : list (Z * Z)) (best : option (Z * Z)) : option (Z * Z) :=
  match l with
  | [] => best
  | r :: l' => min_u u l' (if snd r =? u then match best with Some b => if fst r <? fst b then Some r else best | None => Some r end
                           else best)
  end.

Definition existing (id u : Z) (l : list (Z * Z)) (dl : list Z) : option (Z * Z) :=
  match find (fun r => fst r =? id) l with
  | Some r => Some r
  | None => if existsb (Z.eqb u) dl then None else min_u u l None
  end.

Definition with_delu (s : st) (u : Z) : st :=
  {| ctr := ctr s; sctr := sctr s; linked := linked s; rows := rows s; lid := lid s; cnt := cnt s; first := first s;
     delu := delu s ++ [u]; seen := seen s; gens := gens s |}.

(* a successful tableEditor.Insert (+ updateLastInsertId unless REPLACE; + the checkpoint of INSERT IGNORE) *)
Definition do_insert (tmax : Z) (m : imode) (s : st) (gen : bool) (id u : Z) (l : list (Z * Z)) : st :=
  let c := ins_bump tmax id (ctr s) in
  let repl := match m with MReplace => true | _ => false end in
  {| ctr := c; sctr := c;
     linked := match m with MIgnore => false | _ => linked s end;
     rows := l ++ [(id, u)];
     lid := if repl then lid s else if cnt s =? 0 then id else lid s;
     cnt := if repl then cnt s else if cnt s <? 0 then cnt s else cnt s - 1;
     first := match first s with None => Some id | f => f end;
     delu := delu s;
     seen := seen s ++ [id];
     gens := if gen then gens s ++ [id] else gens s |}.

Definition with_rows_seen (s : st) (l : list (Z * Z)) (sn : list Z) : st :=
  {| ctr := ctr s; sctr := sctr s; linked := linked s; rows := l; lid := lid s; cnt := cnt s; first := first s;
     delu := delu s; seen := sn; gens := gens s |}.

Definition with_lid (s : st) (l : Z) : st :=
  {| ctr := ctr s; sctr := sctr s; linked := linked s; rows := rows s; lid := l; cnt := cnt s; first := first s;
     delu := delu s; seen := seen s; gens := gens s |}.

Definition with_ctr (s : st) (c : Z) : st :=
  {| ctr := c; sctr := c; linked := true; rows := rows s; lid := lid s; cnt := cnt s; first := first s;
     delu := delu s; seen := seen s; gens := gens s |}.

Definition set_id (k k' : Z) (l : list (Z * Z)) : list (Z * Z) :=
  map (fun r => if fst r =? k then (k', snd r) else r) l.

(* one row through insertIter.Next; None = the statement fails *)
Definition row_step (tmax : Z) (m : imode) (s0 : st) (spu : option Z * Z) : option st :=
  let '(sp, u) := spu in
  let '(id, s) := eval_id s0 sp in
  let gen := match sp with None => true | Some _ => false end in
  match existing id u (rows s) (delu s) with
  | None => Some (do_insert tmax m s gen id u (rows s))
  | Some ex =>
      match m with
      | MPlain => None
      | MIgnore => Some s       (* skipped; a raise by GetNextAutoIncrementValue stays in the session's copy only *)
      | MReplace =>             (* delete the primary-key conflict, then the unique-key conflict, then insert *)
          Some (do_insert tmax m s gen id u (filter (fun r => negb (fst r =? id) && negb (snd r =? u)) (rows s)))
      | MOdku a =>              (* tableEditor.Update: the old row goes to the accumulator's deletes, the new one to its adds *)
          let s := with_delu s (snd ex) in
          match a with
          | OSetV => Some s     (* the existing row keeps id and u *)
          | OLid => Some (with_lid s (fst ex))
          | OAdd d =>
              let k' := fst ex + d in
              if k' =? fst ex then Some s
              else if has_id k' (rows s) then None
              else Some (with_rows_seen s (set_id (fst ex) k' (rows s)) (seen s ++ [k']))
          end
      end
  end.

Fixpoint rows_run (tmax : Z) (m : imode) (s : st) (specs : list (option Z * Z)) : st * bool :=
  match specs with
  | [] => (s, true)
  | sp :: r => match row_step tmax m s sp with
               | Some s' => rows_run tmax m s' r
               | None => (s, false)
               end
  end.

Definition begin_insert (s : st) (specs : list (option Z * Z)) : st :=
  {| ctr := ctr s; sctr := ctr s; linked := true; rows := rows s; lid := lid s; cnt := first_gen_index specs; first := None;
     delu := []; seen := seen s; gens := gens s |}.

(* tableEditor.Close: the accumulator's table data becomes the session's *)
Definition end_insert (s : st) : st :=
  {| ctr := ctr s; sctr := ctr s; linked := true; rows := rows s; lid := lid s; cnt := cnt s; first := first s;
     delu := []; seen := seen s; gens := gens s |}.

(* uint64(int64(id)) *)
Definition wrap64 (z : Z) : Z := if z <? 0 then z + 18446744073709551616 else z.

(* result: succeeded?, OkResult.InsertID *)
Definition step (tmax : Z) (s : st) (e : event) : st * (bool * Z) :=
  match e with
  | EInsert m specs =>
      let '(s1, ok) := rows_run tmax m (begin_insert s specs) specs in
      if ok then
        (end_insert s1,
         (true, match m with
                | MPlain | MIgnore => match first s1 with Some id => wrap64 id | None => 0 end
                | _ => wrap64 (lid s1)
                end))
      else (with_lid s (lid s1), (false, 0))        (* the table data is restored, the session variable is not *)
  | EDelGe k => (with_rows_seen s (filter (fun r => fst r <? k) (rows s)) (seen s), (true, 0))
  | EDelEq k => (with_rows_seen s (filter (fun r => negb (fst r =? k)) (rows s)) (seen s), (true, 0))
  | EAlter n => (with_ctr s n, (true, 0))
  | EUpdId k k' =>
      if has_id k (rows s) && negb (k' =? k) then
        if has_id k' (rows s) then (s, (false, 0))
        else (with_rows_seen s (set_id k k' (rows s)) (seen s ++ [k']), (true, 0))
      else (s, (true, 0))
  | ESetLid n => (with_lid s n, (true, 0))
  end.

Definition run (tmax : Z) (s : st) (h : list event) : st := fold_left (fun s e => fst (step tmax s e)) h s.

(* the guard of the theorems: ALTER TABLE ... AUTO_INCREMENT never lowers the counter, no UPDATE (plain or through
   ON DUPLICATE KEY UPDATE id = id + d) puts an id at or above the counter, and the counter stays below the type maximum
   (the behaviour AT the maximum is the subject of the saturation theorems) *)
Definition ev_ok (s : st) (e : event) : bool :=
  match e with
  | EAlter n => ctr s <=? n
  | EUpdId _ k' => k' <? ctr s
  | EInsert (MOdku (OAdd d)) _ => d <=? 0     (* an id moved by d > 0 may land at or above the counter *)
  | _ => true
  end.

Fixpoint guarded (tmax : Z) (s : st) (h : list event) : bool :=
  match h with
  | [] => true
  | e :: h' => ev_ok s e && (ctr (fst (step tmax s e)) <? tmax) && guarded tmax (fst (step tmax s e)) h'
  end.

(* ids and ALTER values fit the column type *)
Definition ev_fits (tmax : Z) (e : event) : bool :=
  match e with
  | EInsert _ specs => forallb (fun sp => match fst sp with Some k => k <=? tmax | None => true end) specs
  | EAlter n => n <=? tmax
  | _ => true
  end.

(* ---------- several sessions, transactions (memory/session.go) ---------- *)
Record tb := { t_ctr : Z; t_rows : list (Z * Z); t_seen : list Z; t_gens : list Z }.

Definition tb_of (s : st) : tb := {| t_ctr := ctr s; t_rows := rows s; t_seen := seen s; t_gens := gens s |}.
Definition st_of (t : tb) (l : Z) : st :=
  {| ctr := t_ctr t; sctr := t_ctr t; linked := true; rows := t_rows t; lid := l; cnt := -1; first := None;
     delu := []; seen := t_seen t; gens := t_gens t |}.

Record world := {
  wdb : tb;                 (* the table stored in the database *)
  wlid : list Z;            (* LAST_INSERT_ID() of session 0, 1, ... (0 when absent) *)
  wtx : list (option tb)    (* the private copy of a session inside BEGIN ... COMMIT / ROLLBACK *)
}.

Definition winit : world := {| wdb := tb_of init; wlid := []; wtx := [] |}.

Fixpoint set_nth {A} (d : A) (i : nat) (v : A) (l : list A) : list A :=
  match i, l with
  | O, [] => [v]
  | O, _ :: r => v :: r
  | S j, [] => d :: set_nth d j v []
  | S j, x :: r => x :: set_nth d j v r
  end.

Inductive wevent :=
| WStmt (i : nat) (e : event)
| WBegin (i : nat)        (* BEGIN; the copy is taken at the session's first access (the driver reads right away) *)
| WCommit (i : nat)
| WRollback (i : nat).

Definition wtable (w : world) (i : nat) : tb := match nth i (wtx w) None with Some t => t | None => wdb w end.

Definition wstep (tmax : Z) (w : world) (e : wevent) : world * (bool * Z) :=
  match e with
  | WStmt i ev =>
      let '(s', res) := step tmax (st_of (wtable w i) (nth i (wlid w) 0)) ev in
      let l' := set_nth 0 i (lid s') (wlid w) in
      (match nth i (wtx w) None with
       | Some _ => {| wdb := wdb w; wlid := l'; wtx := set_nth None i (Some (tb_of s')) (wtx w) |}
       | None => {| wdb := tb_of s'; wlid := l'; wtx := wtx w |}
       end, res)
  | WBegin i =>       (* an open transaction is committed first *)
      let db := wtable w i in
      ({| wdb := db; wlid := wlid w; wtx := set_nth None i (Some db) (wtx w) |}, (true, 0))
  | WCommit i => ({| wdb := wtable w i; wlid := wlid w; wtx := set_nth None i None (wtx w) |}, (true, 0))
  | WRollback i => ({| wdb := wdb w; wlid := wlid w; wtx := set_nth None i None (wtx w) |}, (true, 0))
  end.

Definition wrun (tmax : Z) (w : world) (h : list wevent) : world := fold_left (fun w e => fst (wstep tmax w e)) h w.

(* the guard, per statement against the table it works on *)
Definition wev_ok (tmax : Z) (w : world) (e : wevent) : bool :=
  match e with
  | WStmt i ev => let s := st_of (wtable w i) (nth i (wlid w) 0) in ev_ok s ev && (ctr (fst (step tmax s ev)) <? tmax)
  | _ => true
  end.

Fixpoint wguarded (tmax : Z) (w : world) (h : list wevent) : bool :=
  match h with
  | [] => true
  | e :: h' => wev_ok tmax w e && wguarded tmax (fst (wstep tmax w e)) h'
  end.
