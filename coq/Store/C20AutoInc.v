(* C20: model of AUTO_INCREMENT bookkeeping for a table t(id BIGINT AUTO_INCREMENT PRIMARY KEY, ...):
     memory/table.go        Table.GetNextAutoIncrementValue, PeekNextAutoIncrementValue
     sql/expression/auto_increment.go   AutoIncrement.Eval (NULL / 0 => generate; negative => no auto logic)
     memory/table_editor.go tableEditor.Insert (counter bump: cmp = 0 => +1), SetAutoIncrementValue (ALTER, unconditional),
                            DiscardChanges (a failed statement restores the TableData, counter included; an ignorable
                            error only clears the accumulator)
     sql/rowexec/insert.go  insertIter.updateLastInsertId (countdown of firstGeneratedAutoIncRowIdx over INSERTED rows)
     sql/rowexec/dml_iters.go  insertRowHandler (OkResult.InsertID = id of the first inserted row)
   memory/table.go updateAutoIncrementSafe: the counter is advanced only while the next value fits the column type
   ([tmax], at most MaxUint64): it pins at the type maximum and never wraps.
   The table also has a UNIQUE column u; a row whose u value is already stored is a duplicate as well ([udup], decided by
   the driver from the stored rows: within one statement the u values are pairwise different). *)
From Coq Require Import List ZArith Bool.
Import ListNotations.
Open Scope Z_scope.

Record st := {
  ctr : Z;              (* TableData.autoIncVal *)
  ids : list Z;         (* stored ids *)
  lid : Z;              (* session LAST_INSERT_ID() *)
  cnt : Z;              (* insertIter.firstGeneratedAutoIncRowIdx (per statement) *)
  first : option Z;     (* insertRowHandler.lastInsertId source: id of the first inserted row (per statement) *)
  seen : list Z;        (* ghost: every id ever stored, in order *)
  gens : list Z         (* ghost: every generated id of a committed row, in order *)
}.

Definition init : st := {| ctr := 1; ids := []; lid := 0; cnt := -1; first := None; seen := []; gens := [] |}.

Inductive event :=
| EInsert (ignore : bool) (specs : list (option Z * bool))
    (* id: None = NULL / 0 / DEFAULT / column omitted, Some k = explicit k <> 0;  flag: the row's u value is already stored *)
| EDelGe (k : Z)                                     (* DELETE FROM t WHERE id >= k *)
| EDelEq (k : Z)                                     (* DELETE FROM t WHERE id = k *)
| EAlter (n : Z).                                    (* ALTER TABLE t AUTO_INCREMENT = n *)

(* analyzer/inserts.go: index of the first tuple whose id is NULL / 0 / DEFAULT, else -1 *)
Fixpoint first_gen_index (specs : list (option Z * bool)) : Z :=
  match specs with
  | [] => -1
  | (None, _) :: _ => 0
  | (Some _, _) :: r => let i := first_gen_index r in if i <? 0 then -1 else i + 1
  end.

(* updateAutoIncrementSafe *)
Definition bump (tmax c : Z) : Z := if c <? tmax then c + 1 else c.

(* AutoIncrement.Eval + GetNextAutoIncrementValue: the id of the row and the counter afterwards *)
Definition eval_id (c : Z) (sp : option Z) : Z * Z :=
  match sp with
  | None => (c, c)
  | Some k => if k <? 0 then (k, c) else (k, Z.max c k)
  end.

(* one row through insertIter.Next / tableEditor.Insert; None = duplicate key in a plain INSERT *)
Definition row_step (tmax : Z) (ign : bool) (s : st) (spu : option Z * bool) : option st :=
  let '(sp, udup) := spu in
  let '(id, c') := eval_id (ctr s) sp in
  if udup || existsb (Z.eqb id) (ids s) then
    (* INSERT IGNORE: the row is skipped.  GetNextAutoIncrementValue raised the counter of the SESSION's table data, but
       the statement ends with ApplyEdits from the accumulator's own TableData, whose counter only tableEditor.Insert
       advances: the raise is lost *)
    (if ign then Some {| ctr := ctr s; ids := ids s; lid := lid s; cnt := cnt s; first := first s; seen := seen s; gens := gens s |}
     else None)
  else
    Some {| ctr := if id =? c' then bump tmax c' else c';
            ids := ids s ++ [id];
            lid := if cnt s =? 0 then id else lid s;
            cnt := if cnt s <? 0 then cnt s else cnt s - 1;
            first := match first s with None => Some id | f => f end;
            seen := seen s ++ [id];
            gens := match sp with None => gens s ++ [id] | Some _ => gens s end |}.

Fixpoint rows_run (tmax : Z) (ign : bool) (s : st) (specs : list (option Z * bool)) : st * bool :=
  match specs with
  | [] => (s, true)
  | sp :: r => match row_step tmax ign s sp with
               | Some s' => rows_run tmax ign s' r
               | None => (s, false)
               end
  end.

Definition begin_insert (s : st) (specs : list (option Z * bool)) : st :=
  {| ctr := ctr s; ids := ids s; lid := lid s; cnt := first_gen_index specs; first := None; seen := seen s; gens := gens s |}.

Definition with_lid (s : st) (l : Z) : st :=
  {| ctr := ctr s; ids := ids s; lid := l; cnt := cnt s; first := first s; seen := seen s; gens := gens s |}.

Definition with_ids (s : st) (l : list Z) : st :=
  {| ctr := ctr s; ids := l; lid := lid s; cnt := cnt s; first := first s; seen := seen s; gens := gens s |}.

Definition with_ctr (s : st) (c : Z) : st :=
  {| ctr := c; ids := ids s; lid := lid s; cnt := cnt s; first := first s; seen := seen s; gens := gens s |}.

(* uint64(int64(id)) *)
Definition wrap64 (z : Z) : Z := if z <? 0 then z + 18446744073709551616 else z.

(* result: succeeded?, OkResult.InsertID *)
Definition step (tmax : Z) (s : st) (e : event) : st * (bool * Z) :=
  match e with
  | EInsert ign specs =>
      let '(s1, ok) := rows_run tmax ign (begin_insert s specs) specs in
      if ok then (s1, (true, match first s1 with Some id => wrap64 id | None => 0 end))
      else (with_lid s (lid s1), (false, 0))        (* the table data is restored, the session variable is not *)
  | EDelGe k => (with_ids s (filter (fun x => x <? k) (ids s)), (true, 0))
  | EDelEq k => (with_ids s (filter (fun x => negb (x =? k)) (ids s)), (true, 0))
  | EAlter n => (with_ctr s n, (true, 0))
  end.

Definition run (tmax : Z) (s : st) (h : list event) : st := fold_left (fun s e => fst (step tmax s e)) h s.

(* the guard of the theorems: ALTER TABLE ... AUTO_INCREMENT never lowers the counter, and the counter stays below the
   type maximum (the behaviour AT the maximum is the subject of the saturation theorems) *)
Definition ev_ok (s : st) (e : event) : bool :=
  match e with EAlter n => ctr s <=? n | _ => true end.

Fixpoint guarded (tmax : Z) (s : st) (h : list event) : bool :=
  match h with
  | [] => true
  | e :: h' => ev_ok s e && (ctr (fst (step tmax s e)) <? tmax) && guarded tmax (fst (step tmax s e)) h'
  end.

(* ids and ALTER values fit the column type *)
Definition ev_fits (tmax : Z) (e : event) : bool :=
  match e with
  | EInsert _ specs => forallb (fun sp => match fst sp with Some k => k <=? tmax | None => true end) specs
  | EAlter n => n <=? tmax
  | _ => true
  end.
