(* C19 - the write pipeline for CHECK / NOT NULL / DEFAULT / generated columns over the integer column types.

   Mirrors (go-mysql-server), in the REAL order of the code:
     sql/rowexec/insert.go  insertIter.Next: row source (rowexec.ProjectRow: first pass = values AS WRITTEN and literal
                            defaults, second pass = expression defaults and generated columns, left to right, over the
                            row under construction) -> validateNullability (IGNORE: NULL := 0) -> evaluateChecks ->
                            per-column ConvertRound (strict: out of range / not a number = error; IGNORE: clamp, a
                            negative value into an UNSIGNED column wraps, a string with a numeric prefix keeps the
                            prefix through a Go cast) -> editor insert / replace;  ignoreOrClose / warnOnIgnorableError
     sql/rowexec/update.go  applyUpdateExpressionsWithIgnore (SET expressions left to right on the working row,
                            SetField.Eval converts with Convert and DROPS the range flag: out-of-range values are
                            clamped silently; a string that is not an integer is an error, IGNORE: 0; derived =
                            generated columns recomputed when the row changed), updateIter.Next (old <> new: checks
                            -> validateNullability (IGNORE: NULL := 0 AFTER the checks and the generated columns))
     insertIter.handleOnDuplicateKeyUpdate  SET expressions on old ++ new (VALUES(c) = column n + c), derived columns,
                            checks, update
     sql/types/number.go    NumberTypeImpl_.Compare: an operand whose conversion to int64 fails compares as 0
                            (a string with a fractional part or trailing garbage); arithmetic truncates such a string
                            toward zero; ConvertRound rounds it half away from zero
     sql/planbuilder/dml.go loadChecksFromTable: the table of a schema with a VIRTUAL column is wrapped in
                            plan.VirtualColumnTable, which is no sql.CheckTable: NO check is loaded (eff_checks)
     sql/planbuilder/dml_validate.go validGeneratedColumnValue: only the FIRST tuple is inspected for an explicit
                            value in a generated column *)
From Coq Require Import List ZArith Bool.
Import ListNotations.
Open Scope Z_scope.

(* an integer column type: bounds and signedness (TINYINT .. INT, signed or UNSIGNED) *)
Record ity := mkTy { t_lo : Z; t_hi : Z; t_uns : bool }.

(* a value as written in the statement *)
Inductive raw :=
| RNull
| RInt (z : Z)
| RDec (t : Z)       (* decimal literal t/10: the planner converts it to the column type in the row source *)
| RStrI (z : Z)      (* string holding an integer, e.g. '7' *)
| RStrF (t : Z)      (* string holding t/10 with a non-zero fractional digit, e.g. '9.6' *)
| RBad (p : Z)       (* string with a numeric prefix p >= 0 followed by letters: '12abc' ('abc' is p = 0) *)
| RDef.              (* DEFAULT, or the column is omitted *)

(* a value travelling through the pipeline before the type conversion *)
Inductive cell := CNull | CInt (z : Z) | CStrI (z : Z) | CStrF (t : Z) | CBad (p : Z).

Inductive term := TCol (i : nat) | TLit (z : Z) | TAdd (a b : term) | TMul (a b : term).
Inductive cop := Lt | Le | Gt | Ge | Eq | Ne.
Record check := mkCheck { c_op : cop; c_l : term; c_r : term }.
Inductive dfl := DNone | DLit (z : Z) | DExpr (e : term).
Record col := mkCol { cty : ity; notnull : bool; dflt : dfl; gen : option term; virt : bool }.

Definition round10 (t : Z) : Z := if 0 <=? t then (t + 5) / 10 else - ((- t + 5) / 10).
Definition trunc10 (t : Z) : Z := Z.quot t 10.

(* arithmetic operand *)
Definition aval (c : cell) : option Z :=
  match c with CNull => None | CInt z => Some z | CStrI z => Some z | CStrF t => Some (trunc10 t) | CBad p => Some p end.
(* comparison operand: a failed conversion compares as 0 *)
Definition cval (c : cell) : option Z :=
  match c with CNull => None | CInt z => Some z | CStrI z => Some z | CStrF _ => Some 0 | CBad _ => Some 0 end.

Definition lift2 (f : Z -> Z -> Z) (a b : option Z) : option Z :=
  match a, b with Some x, Some y => Some (f x y) | _, _ => None end.

Fixpoint eval_term (row : list cell) (e : term) : option Z :=
  match e with
  | TCol i => aval (nth i row CNull)
  | TLit z => Some z
  | TAdd a b => lift2 Z.add (eval_term row a) (eval_term row b)
  | TMul a b => lift2 Z.mul (eval_term row a) (eval_term row b)
  end.

Definition cmp_operand (row : list cell) (e : term) : option Z :=
  match e with TCol i => cval (nth i row CNull) | _ => eval_term row e end.

Definition cop_holds (o : cop) (x y : Z) : bool :=
  match o with
  | Lt => x <? y | Le => x <=? y | Gt => y <? x | Ge => y <=? x | Eq => x =? y | Ne => negb (x =? y)
  end.

(* three-valued: None = NULL *)
Definition eval_check (row : list cell) (c : check) : option bool :=
  match cmp_operand row (c_l c), cmp_operand row (c_r c) with
  | Some x, Some y => Some (cop_holds (c_op c) x y)
  | _, _ => None
  end.

Definition check_false (row : list cell) (c : check) : bool :=
  match eval_check row c with Some false => true | _ => false end.

Definition cell_of_opt (v : option Z) : cell := match v with Some z => CInt z | None => CNull end.

(* first pass of ProjectRow: the value as written; DEFAULT / omitted = the literal default (an expression default is
   filled by the second pass) *)
Definition cell_of_raw (c : col) (r : raw) : cell :=
  match r with
  | RNull => CNull
  | RInt z => CInt z
  | RDec t => CInt (round10 t)
  | RStrI z => CStrI z
  | RStrF t => CStrF t
  | RBad p => CBad p
  | RDef => match dflt c with DLit d => CInt d | _ => CNull end
  end.

(* the conversion of a value that is already an integer or NULL (nothing to do) *)
Definition convert (c : cell) : option Z :=
  match c with CNull => None | CInt z => Some z | CStrI z => Some z | CStrF t => Some (round10 t) | CBad p => Some p end.

(* ---- the integer types ---- *)
Definition in_range (ty : ity) (z : Z) : bool := (t_lo ty <=? z) && (z <=? t_hi ty).
(* what Convert/ConvertRound return next to the Overflow/Underflow flag: the bound, but a negative value into an
   UNSIGNED type is uintN(max + num + 1), i.e. it wraps *)
Definition clamp (ty : ity) (z : Z) : Z :=
  if t_hi ty <? z then t_hi ty
  else if z <? t_lo ty then (if t_uns ty then z mod (t_hi ty + 1) else t_lo ty)
  else z.
(* the Go cast intN(num) / uintN(num) applied to the prefix of a malformed string (no range check on that path) *)
Definition wrap_cast (ty : ity) (z : Z) : Z :=
  if t_uns ty then z mod (t_hi ty + 1) else (z - t_lo ty) mod (t_hi ty - t_lo ty + 1) + t_lo ty.

Inductive err := ENotNull | ECheck | EInvalid | ERange | EDefNull | EGenValue.

Inductive conv := COk (v : option Z) | CWarn (v : Z) | CErr (e : err).

Definition conv_range (ign : bool) (ty : ity) (z : Z) : conv :=
  if in_range ty z then COk (Some z) else if ign then CWarn (clamp ty z) else CErr ERange.

(* insertIter.Next, the per-column conversion *)
Definition convert_cell (ign : bool) (ty : ity) (c : cell) : conv :=
  match c with
  | CNull => COk None
  | CInt z => conv_range ign ty z
  | CStrI z => conv_range ign ty z
  | CStrF t => conv_range ign ty (round10 t)
  | CBad p => if ign then CWarn (wrap_cast ty p) else CErr EInvalid
  end.

Definition conv_val (ign : bool) (ty : ity) (c : cell) : option Z :=
  match convert_cell ign ty c with COk v => v | CWarn v => Some v | CErr _ => None end.
Definition conv_err (ign : bool) (ty : ity) (c : cell) : option err :=
  match convert_cell ign ty c with CErr e => Some e | _ => None end.
Definition conv_warn (ign : bool) (ty : ity) (c : cell) : N :=
  match convert_cell ign ty c with CWarn _ => 1%N | _ => 0%N end.

Fixpoint map2 {A B C} (f : A -> B -> C) (l : list A) (m : list B) : list C :=
  match l, m with a :: l', b :: m' => f a b :: map2 f l' m' | _, _ => [] end.

Fixpoint first_some {A} (l : list (option A)) : option A :=
  match l with [] => None | Some a :: _ => Some a | None :: l' => first_some l' end.

(* the whole row: the first failing column decides the error *)
Definition convert_row (ign : bool) (sch : list col) (row : list cell) : list (option Z) + err :=
  match first_some (map2 (fun c x => conv_err ign (cty c) x) sch row) with
  | Some e => inr e
  | None => inl (map2 (fun c x => conv_val ign (cty c) x) sch row)
  end.

Fixpoint set_nth {A} (i : nat) (x : A) (l : list A) : list A :=
  match i, l with
  | O, _ :: l' => x :: l'
  | S i', a :: l' => a :: set_nth i' x l'
  | _, [] => []
  end.

(* second pass of ProjectRow: the pending expressions evaluated left to right, each over the row with the earlier
   ones already in place *)
Fixpoint fill_from (pend : list (option term)) (i : nat) (row : list cell) : list cell :=
  match pend with
  | [] => row
  | p :: pend' =>
      let row' := match p with Some e => set_nth i (cell_of_opt (eval_term row e)) row | None => row end in
      fill_from pend' (S i) row'
  end.

(* the generated columns of a row recomputed (UPDATE: the derived SET expressions) *)
Definition fill_generated (sch : list col) (row : list cell) : list cell := fill_from (map gen sch) 0 row.

(* what the second pass computes for an INSERT row: a generated column written as DEFAULT / omitted, and an
   expression default of a column written as DEFAULT / omitted.  An explicit value in a generated column (accepted
   after the first tuple) is taken as written. *)
Definition pend_ins (c : col) (r : raw) : option term :=
  match r with
  | RDef => match gen c with Some e => Some e | None => match dflt c with DExpr e => Some e | _ => None end end
  | _ => None
  end.

Definition source_row (sch : list col) (rs : list raw) : list cell :=
  fill_from (map2 pend_ins sch rs) 0 (map2 cell_of_raw sch rs).

(* ColumnDefaultValue.Eval: an expression default of a NOT NULL column that evaluates to NULL is an error *)
Definition def_null (c : col) (r : raw) (x : cell) : bool :=
  match r, gen c, dflt c, x with
  | RDef, None, DExpr _, CNull => notnull c
  | _, _, _, _ => false
  end.
Fixpoint map3 {A B C D} (f : A -> B -> C -> D) (l : list A) (m : list B) (k : list C) : list D :=
  match l, m, k with a :: l', b :: m', c :: k' => f a b c :: map3 f l' m' k' | _, _, _ => [] end.

(* the virtual columns as they are read back: computed from the stored values, left to right *)
Definition refresh_virtual (sch : list col) (r : list (option Z)) : list (option Z) :=
  map convert (fill_from (map (fun c => if virt c then gen c else None) sch) 0 (map cell_of_opt r)).

Inductive outcome (A : Type) := Stored (x : A) | Skipped | Failed (e : err).
Arguments Stored {A}. Arguments Skipped {A}. Arguments Failed {A}.

(* validateNullability *)
Fixpoint nullability (ign : bool) (sch : list col) (row : list cell) : option (list cell) :=
  match sch, row with
  | c :: sch', x :: row' =>
      match nullability ign sch' row' with
      | None => None
      | Some rest =>
          match x with
          | CNull => if notnull c then (if ign then Some (CInt 0 :: rest) else None) else Some (x :: rest)
          | _ => Some (x :: rest)
          end
      end
  | _, _ => Some []
  end.

Definition insert_row (ign : bool) (sch : list col) (chks : list check) (rs : list raw)
  : outcome (list (option Z)) :=
  let row0 := source_row sch rs in
  if existsb (fun b => b) (map3 def_null sch rs row0) then Failed EDefNull
  else match nullability ign sch row0 with
  | None => Failed ENotNull
  | Some row1 =>
      if existsb (check_false row1) chks then (if ign then Skipped else Failed ECheck)
      else match convert_row ign sch row1 with
           | inr e => Failed e
           | inl r => Stored (refresh_virtual sch r)
           end
  end.

(* the warnings of one INSERT IGNORE row (values without strings): one per NULL := 0, then either the skipped row's
   check violation or one per clamped column *)
Fixpoint null_fixes (sch : list col) (row : list cell) : N :=
  match sch, row with
  | c :: sch', x :: row' =>
      ((match x with CNull => if notnull c then 1 else 0 | _ => 0 end) + null_fixes sch' row')%N
  | _, _ => 0%N
  end.
Fixpoint sumN (l : list N) : N := match l with [] => 0%N | x :: l' => (x + sumN l')%N end.

Definition insert_row_warn (sch : list col) (chks : list check) (rs : list raw) : N :=
  let row0 := source_row sch rs in
  match nullability true sch row0 with
  | None => 0%N
  | Some row1 =>
      (null_fixes sch row0 +
       if existsb (check_false row1) chks then 1
       else sumN (map2 (fun c x => conv_warn true (cty c) x) sch row1))%N
  end.

Definition table := list (list (option Z)).

Inductive result := ROk | RErr (e : err).

Fixpoint insert_rows (ign : bool) (sch : list col) (chks : list check) (rows : list (list raw)) (acc : table)
  : table + err :=
  match rows with
  | [] => inl acc
  | rs :: rows' =>
      match insert_row ign sch chks rs with
      | Stored r => insert_rows ign sch chks rows' (acc ++ [r])
      | Skipped => insert_rows ign sch chks rows' acc
      | Failed e => inr e
      end
  end.

(* validGeneratedColumnValue looks at the first tuple only *)
Definition explicit_gen (c : col) (r : raw) : bool :=
  match gen c, r with Some _, RDef => false | Some _, _ => true | None, _ => false end.
Definition first_row_gen_value (sch : list col) (rows : list (list raw)) : bool :=
  match rows with rs :: _ => existsb (fun b => b) (map2 explicit_gen sch rs) | [] => false end.

(* ---- UPDATE ---- *)
Inductive urhs := URaw (r : raw) | UTerm (e : term).

Definition no_col := mkCol (mkTy 0 0 false) false DNone None false.

(* SetField.Eval: the right side evaluated on the working row, converted with Convert (range flag dropped) *)
Definition set_value (ign : bool) (sch : list col) (row : list cell) (i : nat) (rhs : urhs) : cell + err :=
  let c := nth i sch no_col in
  let cl (v : option Z) : cell := match v with Some z => CInt (clamp (cty c) z) | None => CNull end in
  match rhs with
  | UTerm e => inl (cl (eval_term row e))
  | URaw RNull => inl CNull
  | URaw (RInt z) => inl (cl (Some z))
  | URaw (RDec t) => inl (cl (Some (round10 t)))
  | URaw (RStrI z) => inl (cl (Some z))
  | URaw (RStrF _) => if ign then inl (CInt 0) else inr EInvalid
  | URaw (RBad _) => if ign then inl (CInt 0) else inr EInvalid
  | URaw RDef =>
      match gen c with
      | Some e => inl (cl (eval_term row e))
      | None =>
          match dflt c with
          | DNone => inl CNull
          | DLit d => inl (cl (Some d))
          | DExpr e => match eval_term row e with
                       | None => if notnull c then inr EDefNull else inl CNull
                       | Some z => inl (cl (Some z))
                       end
          end
      end
  end.

Fixpoint apply_sets (ign : bool) (sch : list col) (row : list cell) (sets : list (nat * urhs)) : list cell + err :=
  match sets with
  | [] => inl row
  | (i, rhs) :: sets' =>
      match set_value ign sch row i rhs with
      | inr e => inr e
      | inl v => apply_sets ign sch (set_nth i v row) sets'
      end
  end.

Definition opt_eqb (a b : option Z) : bool :=
  match a, b with None, None => true | Some x, Some y => x =? y | _, _ => false end.

Fixpoint row_eqb (a b : list (option Z)) : bool :=
  match a, b with
  | [], [] => true
  | x :: a', y :: b' => opt_eqb x y && row_eqb a' b'
  | _, _ => false
  end.

(* one matching row; the result is the row to keep *)
Definition update_row (ign : bool) (sch : list col) (chks : list check) (sets : list (nat * urhs))
           (old : list (option Z)) : outcome (list (option Z)) :=
  let oldc := map cell_of_opt old in
  match apply_sets ign sch oldc sets with
  | inr e => Failed e
  | inl w =>
      let w1 := if row_eqb (map convert w) old then w else fill_generated sch w in
      if row_eqb (map convert w1) old then Stored old
      else if existsb (check_false w1) chks then (if ign then Skipped else Failed ECheck)
      else match nullability ign sch w1 with
           | None => Failed ENotNull
           | Some w2 => Stored (refresh_virtual sch (map convert w2))
           end
  end.

Definition update_row_warn (sch : list col) (chks : list check) (sets : list (nat * urhs))
           (old : list (option Z)) : N :=
  match apply_sets true sch (map cell_of_opt old) sets with
  | inr _ => 0%N
  | inl w =>
      let w1 := if row_eqb (map convert w) old then w else fill_generated sch w in
      if row_eqb (map convert w1) old then 0%N
      else if existsb (check_false w1) chks then 1%N
      else null_fixes sch w1
  end.

(* rows whose id (column 0) matches; None = every row *)
Definition matches (wh : option Z) (r : list (option Z)) : bool :=
  match wh with None => true | Some k => opt_eqb (nth 0 r None) (Some k) end.

Fixpoint update_rows (ign : bool) (sch : list col) (chks : list check) (sets : list (nat * urhs)) (wh : option Z)
         (t : table) : table + err :=
  match t with
  | [] => inl []
  | r :: t' =>
      let keep := if matches wh r then update_row ign sch chks sets r else Stored r in
      match keep with
      | Failed e => inr e
      | Stored r' => match update_rows ign sch chks sets wh t' with inl t2 => inl (r' :: t2) | inr e => inr e end
      | Skipped => match update_rows ign sch chks sets wh t' with inl t2 => inl (r :: t2) | inr e => inr e end
      end
  end.

Inductive stmt :=
| Insert (ign : bool) (rows : list (list raw))
| Update (ign : bool) (sets : list (nat * urhs)) (wh : option Z)
(* INSERT [IGNORE] ... VALUES rows ON DUPLICATE KEY UPDATE sets; in a SET term, column n + c stands for VALUES(c) *)
| Upsert (ign : bool) (rows : list (list raw)) (sets : list (nat * urhs))
| Replace (rows : list (list raw)).

(* insertIter.handleOnDuplicateKeyUpdate: SET expressions on old ++ new, generated columns when the row changed, the
   checks (always), then the editor update; a NULL left in a NOT NULL column is refused by the storage layer *)
Definition odku_row (ign : bool) (sch : list col) (chks : list check) (sets : list (nat * urhs))
           (old new : list (option Z)) : outcome (list (option Z)) :=
  let n := length old in
  match apply_sets false sch (map cell_of_opt old ++ map cell_of_opt new) sets with
  | inr e => Failed e
  | inl acc =>
      let w := firstn n acc in
      (* the derived SET expressions run on the accumulator; generated columns read table columns only, so this
         is the same as recomputing them on its first half *)
      let w1 := if row_eqb (map convert w) old then w else fill_generated sch w in
      if existsb (check_false w1) chks then (if ign then Skipped else Failed ECheck)
      else match nullability false sch w1 with
           | None => Failed EInvalid
           | Some w2 => Stored (refresh_virtual sch (map convert w2))
           end
  end.

(* the table is read back in id order *)
Fixpoint insert_by_id (r : list (option Z)) (t : table) : table :=
  match t with
  | [] => [r]
  | x :: t' =>
      match nth 0 r None, nth 0 x None with
      | Some a, Some b => if a <? b then r :: t else x :: insert_by_id r t'
      | _, _ => x :: insert_by_id r t'
      end
  end.

Fixpoint replace_id (k : option Z) (r : list (option Z)) (t : table) : table :=
  match t with
  | [] => []
  | x :: t' => if opt_eqb (nth 0 x None) k then r :: t' else x :: replace_id k r t'
  end.

Definition same_id (r x : list (option Z)) : bool := opt_eqb (nth 0 x None) (nth 0 r None).

(* rows of INSERT .. ON DUPLICATE KEY UPDATE, one after the other on the evolving table *)
Fixpoint upsert_rows (ign : bool) (sch : list col) (chks : list check) (sets : list (nat * urhs))
         (rows : list (list raw)) (t : table) : table + err :=
  match rows with
  | [] => inl t
  | rs :: rows' =>
      match insert_row ign sch chks rs with
      | Failed e => inr e
      | Skipped => upsert_rows ign sch chks sets rows' t
      | Stored r =>
          match find (same_id r) t with
          | None => upsert_rows ign sch chks sets rows' (insert_by_id r t)
          | Some old =>
              match odku_row ign sch chks sets old r with
              | Stored r' => upsert_rows ign sch chks sets rows' (replace_id (nth 0 r None) r' t)
              | Skipped => upsert_rows ign sch chks sets rows' t
              | Failed e => inr e
              end
          end
      end
  end.

(* REPLACE: the same INSERT pipeline; an existing row with the same key is deleted first *)
Fixpoint replace_rows (sch : list col) (chks : list check) (rows : list (list raw)) (t : table) : table + err :=
  match rows with
  | [] => inl t
  | rs :: rows' =>
      match insert_row false sch chks rs with
      | Failed e => inr e
      | Skipped => replace_rows sch chks rows' t
      | Stored r => replace_rows sch chks rows' (insert_by_id r (filter (fun x => negb (same_id r x)) t))
      end
  end.

(* loadChecksFromTable: nothing is loaded when the table has a VIRTUAL column *)
Definition eff_checks (sch : list col) (chks : list check) : list check :=
  if existsb virt sch then [] else chks.

(* a failing statement changes nothing *)
Definition exec (sch : list col) (chks0 : list check) (t : table) (s : stmt) : table * result :=
  let chks := eff_checks sch chks0 in
  let fin (x : table + err) := match x with inl t' => (t', ROk) | inr e => (t, RErr e) end in
  match s with
  | Insert ign rows =>
      if first_row_gen_value sch rows then (t, RErr EGenValue) else fin (insert_rows ign sch chks rows t)
  | Update ign sets wh => fin (update_rows ign sch chks sets wh t)
  | Upsert ign rows sets =>
      if first_row_gen_value sch rows then (t, RErr EGenValue) else fin (upsert_rows ign sch chks sets rows t)
  | Replace rows =>
      if first_row_gen_value sch rows then (t, RErr EGenValue) else fin (replace_rows sch chks rows t)
  end.

(* the warnings of a successful IGNORE statement whose values hold no strings *)
Definition stmt_warnings (sch : list col) (chks0 : list check) (t : table) (s : stmt) : N :=
  let chks := eff_checks sch chks0 in
  match s with
  | Insert true rows => sumN (map (insert_row_warn sch chks) rows)
  | Update true sets wh => sumN (map (fun r => if matches wh r then update_row_warn sch chks sets r else 0%N) t)
  | _ => 0%N
  end.

Fixpoint run (sch : list col) (chks : list check) (t : table) (h : list stmt) : table :=
  match h with [] => t | s :: h' => run sch chks (fst (exec sch chks t s)) h' end.

(* ---- what the property demands of a stored row ---- *)
Definition cells (r : list (option Z)) : list cell := map cell_of_opt r.

Definition row_checks_ok (chks : list check) (r : list (option Z)) : Prop :=
  forall c, In c chks -> eval_check (cells r) c <> Some false.

Definition row_notnull_ok (sch : list col) (r : list (option Z)) : Prop :=
  forall i c, nth_error sch i = Some c -> notnull c = true -> nth i r None <> None.

(* stored and virtual generated columns alike *)
Definition row_generated_ok (sch : list col) (r : list (option Z)) : Prop :=
  forall i c e, nth_error sch i = Some c -> gen c = Some e -> nth i r None = eval_term (cells r) e.
