(* C19 - the write pipeline for CHECK / NOT NULL / DEFAULT / STORED generated columns, INT columns.

   Mirrors (go-mysql-server), in the REAL order of the code:
     sql/rowexec/insert.go  insertIter.Next: row source (defaults and generated values already projected from the
                            values AS WRITTEN) -> validateNullability (IGNORE: NULL := 0) -> evaluateChecks ->
                            per-column ConvertRound -> editor insert;  ignoreOrClose / warnOnIgnorableError
     sql/rowexec/update.go  applyUpdateExpressionsWithIgnore (SET expressions left to right on the working row,
                            SetField converts strictly; derived = generated columns recomputed when the row changed),
                            updateIter.Next (old <> new: checks -> validateNullability (IGNORE: NULL := 0 AFTER the
                            checks and after the generated columns) -> editor update)
     sql/types/number.go    NumberTypeImpl_.Compare: an operand whose conversion to int64 fails compares as 0
                            (a string with a fractional part); arithmetic truncates such a string toward zero;
                            ConvertRound rounds it half away from zero
   Values are small (no range failures are generated; range checks are not modelled). *)
From Coq Require Import List ZArith Bool.
Import ListNotations.
Open Scope Z_scope.

(* a value as written in the statement *)
Inductive raw :=
| RNull
| RInt (z : Z)
| RDec (t : Z)       (* decimal literal t/10: the planner converts it to the column type in the row source *)
| RStrI (z : Z)      (* string holding an integer, e.g. '7' *)
| RStrF (t : Z)      (* string holding t/10 with a non-zero fractional digit, e.g. '9.6' *)
| RDef.              (* DEFAULT, or the column is omitted *)

(* a value travelling through the pipeline before the type conversion *)
Inductive cell := CNull | CInt (z : Z) | CStrI (z : Z) | CStrF (t : Z).

Inductive term := TCol (i : nat) | TLit (z : Z) | TAdd (a b : term) | TMul (a b : term).
Inductive cop := Lt | Le | Gt | Ge | Eq | Ne.
Record check := mkCheck { c_op : cop; c_l : term; c_r : term }.
Record col := mkCol { notnull : bool; dflt : option Z; gen : option term }.

Definition round10 (t : Z) : Z := if 0 <=? t then (t + 5) / 10 else - ((- t + 5) / 10).
Definition trunc10 (t : Z) : Z := Z.quot t 10.

(* arithmetic operand *)
Definition aval (c : cell) : option Z :=
  match c with CNull => None | CInt z => Some z | CStrI z => Some z | CStrF t => Some (trunc10 t) end.
(* comparison operand: a failed conversion compares as 0 *)
Definition cval (c : cell) : option Z :=
  match c with CNull => None | CInt z => Some z | CStrI z => Some z | CStrF _ => Some 0 end.

Definition lift2 (f : Z -> Z -> Z) (a b : option Z) : option Z :=
  match a, b with Some x, Some y => Some (f x y) | _, _ => None end.

Fixpoint eval_term (row : list cell) (e : term) : option Z :=
  match e with
  | TCol i => aval (nth i row CNull)
  | TLit z => Some z
  | TAdd a b => lift2 Z.add (eval_term row a) (eval_term row b)
  | TMul a b => lift2 Z.mul (eval_term row a) (eval_term row b)
  end.

Definition cmp_operand (row : list cell) (e : term) : option Z :=
  match e with TCol i => cval (nth i row CNull) | _ => eval_term row e end.

Definition cop_holds (o : cop) (x y : Z) : bool :=
  match o with
  | Lt => x <? y | Le => x <=? y | Gt => y <? x | Ge => y <=? x | Eq => x =? y | Ne => negb (x =? y)
  end.

(* three-valued: None = NULL *)
Definition eval_check (row : list cell) (c : check) : option bool :=
  match cmp_operand row (c_l c), cmp_operand row (c_r c) with
  | Some x, Some y => Some (cop_holds (c_op c) x y)
  | _, _ => None
  end.

Definition check_false (row : list cell) (c : check) : bool :=
  match eval_check row c with Some false => true | _ => false end.

Definition cell_of_opt (v : option Z) : cell := match v with Some z => CInt z | None => CNull end.

Definition cell_of_raw (c : col) (r : raw) : cell :=
  match r with
  | RNull => CNull
  | RInt z => CInt z
  | RDec t => CInt (round10 t)
  | RStrI z => CStrI z
  | RStrF t => CStrF t
  | RDef => cell_of_opt (dflt c)
  end.

(* per-column ConvertRound *)
Definition convert (c : cell) : option Z :=
  match c with CNull => None | CInt z => Some z | CStrI z => Some z | CStrF t => Some (round10 t) end.

Fixpoint map2 {A B C} (f : A -> B -> C) (l : list A) (m : list B) : list C :=
  match l, m with a :: l', b :: m' => f a b :: map2 f l' m' | _, _ => [] end.

Fixpoint set_nth {A} (i : nat) (x : A) (l : list A) : list A :=
  match i, l with
  | O, _ :: l' => x :: l'
  | S i', a :: l' => a :: set_nth i' x l'
  | _, [] => []
  end.

(* the generated columns of [row] recomputed, left to right, each from the row with the earlier ones already in place
   (a generated column may read an earlier generated column) *)
Fixpoint fill_gen_from (sch : list col) (i : nat) (row : list cell) : list cell :=
  match sch with
  | [] => row
  | c :: sch' =>
      let row' := match gen c with Some e => set_nth i (cell_of_opt (eval_term row e)) row | None => row end in
      fill_gen_from sch' (S i) row'
  end.
Definition fill_generated (sch : list col) (row : list cell) : list cell := fill_gen_from sch 0 row.

(* row source: values as written, defaults, then generated columns from that row *)
Definition source_row (sch : list col) (rs : list raw) : list cell :=
  fill_generated sch (map2 cell_of_raw sch rs).

Inductive err := ENotNull | ECheck | EInvalid.

Inductive outcome (A : Type) := Stored (x : A) | Skipped | Failed (e : err).
Arguments Stored {A}. Arguments Skipped {A}. Arguments Failed {A}.

(* validateNullability *)
Fixpoint nullability (ign : bool) (sch : list col) (row : list cell) : option (list cell) :=
  match sch, row with
  | c :: sch', x :: row' =>
      match nullability ign sch' row' with
      | None => None
      | Some rest =>
          match x with
          | CNull => if notnull c then (if ign then Some (CInt 0 :: rest) else None) else Some (x :: rest)
          | _ => Some (x :: rest)
          end
      end
  | _, _ => Some []
  end.

Definition insert_row (ign : bool) (sch : list col) (chks : list check) (rs : list raw)
  : outcome (list (option Z)) :=
  let row0 := source_row sch rs in
  match nullability ign sch row0 with
  | None => Failed ENotNull
  | Some row1 =>
      if existsb (check_false row1) chks then (if ign then Skipped else Failed ECheck)
      else Stored (map convert row1)
  end.

Definition table := list (list (option Z)).

Inductive result := ROk | RErr (e : err).

Fixpoint insert_rows (ign : bool) (sch : list col) (chks : list check) (rows : list (list raw)) (acc : table)
  : table + err :=
  match rows with
  | [] => inl acc
  | rs :: rows' =>
      match insert_row ign sch chks rs with
      | Stored r => insert_rows ign sch chks rows' (acc ++ [r])
      | Skipped => insert_rows ign sch chks rows' acc
      | Failed e => inr e
      end
  end.

(* ---- UPDATE ---- *)
Inductive urhs := URaw (r : raw) | UTerm (e : term).

(* SetField.Eval: the right side evaluated on the working row, converted strictly *)
Definition set_value (ign : bool) (sch : list col) (row : list cell) (i : nat) (rhs : urhs) : option cell :=
  match rhs with
  | UTerm e => Some (cell_of_opt (eval_term row e))
  | URaw RNull => Some CNull
  | URaw (RInt z) => Some (CInt z)
  | URaw (RDec t) => Some (CInt (round10 t))
  | URaw (RStrI z) => Some (CInt z)
  | URaw (RStrF _) => if ign then Some (CInt 0) else None
  | URaw RDef => Some (cell_of_opt (dflt (nth i sch (mkCol false None None))))
  end.

Fixpoint apply_sets (ign : bool) (sch : list col) (row : list cell) (sets : list (nat * urhs)) : option (list cell) :=
  match sets with
  | [] => Some row
  | (i, rhs) :: sets' =>
      match set_value ign sch row i rhs with
      | None => None
      | Some v => apply_sets ign sch (set_nth i v row) sets'
      end
  end.

Definition opt_eqb (a b : option Z) : bool :=
  match a, b with None, None => true | Some x, Some y => x =? y | _, _ => false end.

Fixpoint row_eqb (a b : list (option Z)) : bool :=
  match a, b with
  | [], [] => true
  | x :: a', y :: b' => opt_eqb x y && row_eqb a' b'
  | _, _ => false
  end.

(* one matching row; the result is the row to keep *)
Definition update_row (ign : bool) (sch : list col) (chks : list check) (sets : list (nat * urhs))
           (old : list (option Z)) : outcome (list (option Z)) :=
  let oldc := map cell_of_opt old in
  match apply_sets ign sch oldc sets with
  | None => Failed EInvalid
  | Some w =>
      let w1 := if row_eqb (map convert w) old then w else fill_generated sch w in
      if row_eqb (map convert w1) old then Stored old
      else if existsb (check_false w1) chks then (if ign then Skipped else Failed ECheck)
      else match nullability ign sch w1 with
           | None => Failed ENotNull
           | Some w2 => Stored (map convert w2)
           end
  end.

(* rows whose id (column 0) matches; None = every row *)
Definition matches (wh : option Z) (r : list (option Z)) : bool :=
  match wh with None => true | Some k => opt_eqb (nth 0 r None) (Some k) end.

Fixpoint update_rows (ign : bool) (sch : list col) (chks : list check) (sets : list (nat * urhs)) (wh : option Z)
         (t : table) : table + err :=
  match t with
  | [] => inl []
  | r :: t' =>
      let keep := if matches wh r then update_row ign sch chks sets r else Stored r in
      match keep with
      | Failed e => inr e
      | Stored r' => match update_rows ign sch chks sets wh t' with inl t2 => inl (r' :: t2) | inr e => inr e end
      | Skipped => match update_rows ign sch chks sets wh t' with inl t2 => inl (r :: t2) | inr e => inr e end
      end
  end.

Inductive stmt :=
| Insert (ign : bool) (rows : list (list raw))
| Update (ign : bool) (sets : list (nat * urhs)) (wh : option Z)
| Upsert (rs : list raw) (sets : list (nat * urhs)).   (* INSERT ... VALUES (one row) ON DUPLICATE KEY UPDATE sets *)

(* insertIter.handleOnDuplicateKeyUpdate: SET expressions on the existing row, generated columns when it changed, the
   checks (always), then the editor update; a NULL left in a NOT NULL column is refused by the storage layer *)
Definition odku_row (sch : list col) (chks : list check) (sets : list (nat * urhs)) (old : list (option Z))
  : outcome (list (option Z)) :=
  match apply_sets false sch (map cell_of_opt old) sets with
  | None => Failed EInvalid
  | Some w =>
      let w1 := if row_eqb (map convert w) old then w else fill_generated sch w in
      if existsb (check_false w1) chks then Failed ECheck
      else match nullability false sch w1 with
           | None => Failed EInvalid
           | Some w2 => Stored (map convert w2)
           end
  end.

(* the table is read back in id order *)
Fixpoint insert_by_id (r : list (option Z)) (t : table) : table :=
  match t with
  | [] => [r]
  | x :: t' =>
      match nth 0 r None, nth 0 x None with
      | Some a, Some b => if a <? b then r :: t else x :: insert_by_id r t'
      | _, _ => x :: insert_by_id r t'
      end
  end.

Fixpoint replace_id (k : option Z) (r : list (option Z)) (t : table) : table :=
  match t with
  | [] => []
  | x :: t' => if opt_eqb (nth 0 x None) k then r :: t' else x :: replace_id k r t'
  end.

(* a failing statement changes nothing *)
Definition exec (sch : list col) (chks : list check) (t : table) (s : stmt) : table * result :=
  match s with
  | Insert ign rows =>
      match insert_rows ign sch chks rows t with inl t' => (t', ROk) | inr e => (t, RErr e) end
  | Update ign sets wh =>
      match update_rows ign sch chks sets wh t with inl t' => (t', ROk) | inr e => (t, RErr e) end
  | Upsert rs sets =>
      match insert_row false sch chks rs with
      | Failed e => (t, RErr e)
      | Skipped => (t, ROk)
      | Stored r =>
          match find (fun x => opt_eqb (nth 0 x None) (nth 0 r None)) t with
          | None => (insert_by_id r t, ROk)
          | Some old =>
              match odku_row sch chks sets old with
              | Stored r' => (replace_id (nth 0 r None) r' t, ROk)
              | Skipped => (t, ROk)
              | Failed e => (t, RErr e)
              end
          end
      end
  end.

Fixpoint run (sch : list col) (chks : list check) (t : table) (h : list stmt) : table :=
  match h with [] => t | s :: h' => run sch chks (fst (exec sch chks t s)) h' end.

(* ---- what the property demands of a stored row ---- *)
Definition cells (r : list (option Z)) : list cell := map cell_of_opt r.

Definition row_checks_ok (chks : list check) (r : list (option Z)) : Prop :=
  forall c, In c chks -> eval_check (cells r) c <> Some false.

Definition row_notnull_ok (sch : list col) (r : list (option Z)) : Prop :=
  forall i c, nth_error sch i = Some c -> notnull c = true -> nth i r None <> None.

Definition row_generated_ok (sch : list col) (r : list (option Z)) : Prop :=
  forall i c e, nth_error sch i = Some c -> gen c = Some e -> nth i r None = eval_term (cells r) e.
