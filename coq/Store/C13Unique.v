(* C13, keyed tables WITH unique secondary indexes: the refinement pk_exec = spec_exec (Store/C13Refine.v; the reference
   rejects a row iff the logical table holds a row with the same unique value: sp_get_by_cols is a plain find) for
     - INSERT and INSERT IGNORE (no pending delete exists, so GetByCols cannot give up) and DELETE (no probe at all);
     - UPDATE under a static guard that excludes the GetByCols defect: the rows written by the statement carry pairwise
       different unique values ([news_ok]; if two of them collide the reference rejects the statement anyway), and the
       stored rows respect the unique indexes ([urows]).
   REPLACE / ON DUPLICATE KEY UPDATE delete rows found by the probe itself and stay outside (witnesses below). *)
From Coq Require Import List NArith ZArith Bool Lia Permutation.
Import ListNotations.
From GMS Require Import Store.C14Editor Store.C14EditorProofs Store.C13Refine Store.C13RefineProofs Store.C13Keyless.

(* ---------- columnsMatch is an equivalence test on the truncated projections ---------- *)
Lemma cols_match_eucl : forall cols pls x d r,
  cols_match cols pls x r = true -> cols_match cols pls d r = true -> cols_match cols pls x d = true.
Proof.
  induction cols as [|c cs IH]; intros pls x d r H1 H2; cbn in *; [reflexivity|].
  apply andb_prop in H1. apply andb_prop in H2. destruct H1 as [A1 B1]. destruct H2 as [A2 B2].
  apply andb_true_intro. split; [|eapply IH; eassumption].
  apply val_eqb_spec in A1. apply val_eqb_spec in A2. apply val_eqb_spec. congruence.
Qed.

Lemma has_null_match : forall cols pls x r,
  cols_match cols pls x r = true -> has_null cols r = false -> has_null cols x = false.
Proof.
  induction cols as [|c cs IH]; intros pls x r H1 H2; cbn in *; [reflexivity|].
  apply andb_prop in H1. destruct H1 as [A B]. apply orb_false_elim in H2. destruct H2 as [N1 N2].
  apply orb_false_intro; [|eapply IH; eassumption].
  unfold trunc in A. destruct (col x c); [|reflexivity|reflexivity].
  destruct (col r c); [discriminate|discriminate|]. destruct (0 <? hd 0%N pls)%N; discriminate.
Qed.

Lemma in_mem_key : forall (m : smap) kv, In kv m -> mem_key (fst kv) m = true.
Proof.
  intros m kv H. unfold mem_key. apply existsb_exists. exists kv. split; [exact H|apply str_eqb_refl].
Qed.

Lemma mem_key_in : forall k (m : smap), mem_key k m = true -> exists kv, In kv m /\ fst kv = k.
Proof.
  intros k m H. unfold mem_key in H. apply existsb_exists in H. destruct H as [kv [Hin He]].
  apply str_eqb_spec in He. exists kv. split; [exact Hin|symmetry; exact He].
Qed.

Lemma keys_nodup_inj : forall sch rows x y, keys_nodup sch rows -> In x rows -> In y rows -> key sch x = key sch y -> x = y.
Proof.
  intros sch rows x y. unfold keys_nodup. induction rows as [|z rows IH]; cbn; intros Hnd Hx Hy Hk; [contradiction|].
  inversion Hnd as [|? ? Hn Hd]; subst.
  destruct Hx as [<-|Hx], Hy as [<-|Hy].
  - reflexivity.
  - exfalso. apply Hn. rewrite Hk. apply in_map. exact Hy.
  - exfalso. apply Hn. rewrite <- Hk. apply in_map. exact Hx.
  - apply IH; assumption.
Qed.

Lemma check_unique_agree : forall (g1 g2 : row -> list nat -> list N -> option row) r u,
  (forall cols pls, In (cols, pls) u -> has_null cols r = false -> (g1 r cols pls = None <-> g2 r cols pls = None)) ->
  (check_unique g1 u r = None <-> check_unique g2 u r = None).
Proof.
  intros g1 g2 r. induction u as [|[cols pls] u IH]; intros H; cbn [check_unique]; [tauto|].
  assert (IH' : check_unique g1 u r = None <-> check_unique g2 u r = None).
  { apply IH. intros c p Hin. apply H. right. exact Hin. }
  destruct (has_null cols r) eqn:En; [exact IH'|].
  pose proof (H cols pls (or_introl eq_refl) En) as Hi.
  destruct (g1 r cols pls), (g2 r cols pls); try exact IH'.
  - split; discriminate.
  - destruct Hi as [_ Hi]. specialize (Hi eq_refl). discriminate.
  - destruct Hi as [Hi _]. specialize (Hi eq_refl). discriminate.
Qed.

Section Uniq.
  Variable sch : schema.
  Variable U : row -> Prop.
  Hypothesis Hinj : forall a b, U a -> U b -> key_str sch a = key_str sch b -> key sch a = key sch b.
  Hypothesis Hbin : pk_binary sch.

  Notation Rk := (R sch U).

  (* ================= INSERT / INSERT IGNORE / DELETE ================= *)
  Lemma probe_nodels : forall s L r cols pls, Rk s L -> p_dels s = [] ->
    (pk_get_by_cols s r cols pls = None <-> sp_get_by_cols L r cols pls = None).
  Proof.
    intros s L r cols pls HR Hd. unfold pk_get_by_cols, sp_get_by_cols. rewrite (R_L _ _ _ _ HR), Hd. cbn [existsb].
    assert (Ef : filter (notdel sch []) (p_rows s) = p_rows s) by (apply filter_all; reflexivity).
    rewrite Ef, find_app.
    set (f := fun x => cols_match cols pls x r).
    change (fun kv : str * row => cols_match cols pls (snd kv) r) with (fun kv : str * row => f (snd kv)).
    pose proof (find_snd_none_iff f (p_adds s)) as H1. pose proof (find_none_iff _ f (map snd (p_adds s))) as H2.
    destruct (find (fun kv : str * row => f (snd kv)) (p_adds s)) as [kv|] eqn:Ea.
    - split; [discriminate|]. intros H. exfalso.
      destruct (find f (p_rows s)); [discriminate|].
      apply H2 in H. apply H1 in H. discriminate.
    - assert (E2 : find f (map snd (p_adds s)) = None) by (apply H2; apply H1; reflexivity).
      rewrite E2. destruct (find f (p_rows s)); split; intros H; try discriminate; reflexivity.
  Qed.

  Definition R0 (s : pkst) (L : list row) : Prop := Rk s L /\ p_dels s = [].

  Lemma insert_sim0 : forall s L r, R0 s L -> U r ->
    match pk_insert sch s r, sp_insert sch L r with
    | ROk a, ROk b => R0 a b
    | RDup _, RDup _ => True
    | _, _ => False
    end.
  Proof.
    intros s L r [HR Hd] Hr. unfold pk_insert, sp_insert. rewrite <- (get_sim sch U Hinj s L r HR Hr).
    destruct (pk_get sch s r) eqn:Eg; [exact I|].
    pose proof (check_unique_agree (pk_get_by_cols s) (sp_get_by_cols L) r (s_uniq sch)
                  (fun cols pls _ _ => probe_nodels s L r cols pls HR Hd)) as Hcu.
    destruct (check_unique (pk_get_by_cols s) (s_uniq sch) r), (check_unique (sp_get_by_cols L) (s_uniq sch) r).
    - exact I.
    - destruct Hcu as [_ Hcu]. specialize (Hcu eq_refl). discriminate.
    - destruct Hcu as [Hcu _]. specialize (Hcu eq_refl). discriminate.
    - split; [apply acc_insert_sim; assumption|exact Hd].
  Qed.

  Lemma begin_sim0 : forall rows, Pre sch U rows -> R0 (pk_begin rows) (sp_begin rows).
  Proof. intros rows HP. split; [apply begin_sim; exact HP|reflexivity]. Qed.

  Lemma plain_sim0 : forall news s L n, R0 s L -> Forall U news ->
    match ins_plain (pk_insert sch) s news n, ins_plain (sp_insert sch) L news n with
    | Some (a, x), Some (b, y) => R0 a b /\ x = y
    | None, None => True
    | _, _ => False
    end.
  Proof.
    induction news as [|r news IH]; cbn [ins_plain]; intros s L n HR HU; [split; [exact HR|reflexivity]|].
    inversion HU as [|? ? Hr Hrs]; subst. pose proof (insert_sim0 s L r HR Hr) as H.
    destruct (pk_insert sch s r), (sp_insert sch L r); try contradiction; [apply IH; assumption|exact I].
  Qed.

  Lemma ignore_sim0 : forall news cur n, Pre sch U cur -> Forall U news ->
    ins_ignore pk_begin (pk_insert sch) (pk_commit sch) cur news n =
      ins_ignore sp_begin (sp_insert sch) (sp_commit sch) cur news n /\
    Pre sch U (fst (ins_ignore sp_begin (sp_insert sch) (sp_commit sch) cur news n)).
  Proof.
    induction news as [|r news IH]; cbn [ins_ignore]; intros cur n HP HU; [split; [reflexivity|exact HP]|].
    inversion HU as [|? ? Hr Hrs]; subst. pose proof (insert_sim0 _ _ r (begin_sim0 cur HP) Hr) as H.
    destruct (pk_insert sch (pk_begin cur) r), (sp_insert sch (sp_begin cur) r); try contradiction.
    - destruct (commit_sim sch U Hinj Hbin _ _ (proj1 H)) as [E HP']. rewrite E. apply IH; assumption.
    - apply IH; assumption.
  Qed.

  Lemma delete_fold_sim : forall ts s L, Rk s L -> Forall U ts ->
    Rk (fold_left (pk_delete sch) ts s) (fold_left (sp_delete sch) ts L).
  Proof.
    induction ts as [|r ts IH]; cbn [fold_left]; intros s L HR HU; [exact HR|].
    inversion HU; subst. apply IH; [apply delete_sim; assumption|assumption].
  Qed.

  Theorem uniq_insert_delete_refines : forall rows st, Pre sch U rows ->
    match st with
    | SInsert IPlain news => Forall U news
    | SInsert IIgnore news => Forall U news
    | SDelete _ _ _ => True
    | _ => False
    end ->
    pk_exec sch rows st = spec_exec sch rows st /\ Pre sch U (snd (spec_exec sch rows st)).
  Proof.
    intros rows st HP HS. unfold pk_exec, spec_exec.
    destruct st as [m news|a w ord lim|w ord lim]; [destruct m as [| | |a]| |]; try contradiction; cbn [exec].
    - pose proof (plain_sim0 news _ _ 0%N (begin_sim0 rows HP) HS) as H.
      destruct (ins_plain (pk_insert sch) (pk_begin rows) news 0) as [[x n]|],
               (ins_plain (sp_insert sch) (sp_begin rows) news 0) as [[y n']|]; try contradiction;
        [|split; [reflexivity|exact HP]].
      destruct H as [[H _] ->]. destruct (commit_sim sch U Hinj Hbin _ _ H) as [E HP']. rewrite E.
      split; [reflexivity|exact HP'].
    - destruct (ignore_sim0 news rows 0%N HP HS) as [E HP']. rewrite E.
      destruct (ins_ignore sp_begin (sp_insert sch) (sp_commit sch) rows news 0) as [cur n].
      split; [reflexivity|exact HP'].
    - destruct (is_truncate w ord lim); [split; [reflexivity|split; constructor]|].
      pose proof (delete_fold_sim (targets sch w ord lim rows) _ _ (begin_sim sch U rows HP)
                    (targets_U sch U w ord lim rows (proj2 HP))) as H.
      destruct (commit_sim sch U Hinj Hbin _ _ H) as [E HP']. rewrite E. split; [reflexivity|exact HP'].
  Qed.

  (* ================= UPDATE under the guard ================= *)
  (* b may be stored next to a: on no unique index does b (without NULL there) carry a's value *)
  Definition noconf (a b : row) : Prop :=
    forall cols pls, In (cols, pls) (s_uniq sch) -> has_null cols b = false -> cols_match cols pls a b = false.

  (* the stored rows respect the unique indexes *)
  Definition urows (rows : list row) : Prop :=
    forall cols pls x y, In (cols, pls) (s_uniq sch) -> In x rows -> In y rows ->
      has_null cols y = false -> cols_match cols pls x y = true -> x = y.

  (* the rows written by the statement, in the order written: no later one carries the unique value of an earlier one *)
  Fixpoint news_ok (ns : list row) : Prop :=
    match ns with
    | [] => True
    | n :: ns' => (forall b, In b ns' -> noconf n b) /\ news_ok ns'
    end.

  Definition I1 (s : pkst) : Prop := forall kv, In kv (p_dels s) -> In (snd kv) (p_rows s).
  Definition G (s : pkst) (r : row) : Prop := forall kv, In kv (p_adds s) -> noconf (snd kv) r.

  Lemma probe_guard : forall s L r cols pls, Rk s L -> I1 s -> urows (p_rows s) -> G s r ->
    In (cols, pls) (s_uniq sch) -> has_null cols r = false ->
    (pk_get_by_cols s r cols pls = None <-> sp_get_by_cols L r cols pls = None).
  Proof.
    intros s L r cols pls HR H1 Hu HG Hin Hnull. unfold pk_get_by_cols, sp_get_by_cols.
    rewrite (R_L _ _ _ _ HR), find_app.
    set (f := fun x => cols_match cols pls x r).
    change (fun kv : str * row => cols_match cols pls (snd kv) r) with (fun kv : str * row => f (snd kv)).
    assert (Ha : forall kv, In kv (p_adds s) -> f (snd kv) = false).
    { intros kv Hkv. exact (HG kv Hkv cols pls Hin Hnull). }
    assert (Ea1 : find (fun kv : str * row => f (snd kv)) (p_adds s) = None).
    { apply find_none_iff. apply existsb_false_iff. exact Ha. }
    assert (Ea2 : find f (map snd (p_adds s)) = None).
    { apply find_none_iff. apply (find_snd_none_iff f). exact Ea1. }
    rewrite Ea1, Ea2.
    set (nd := notdel sch (p_dels s)).
    assert (Hsurv : find f (filter nd (p_rows s)) = None <-> forall x, In x (p_rows s) -> nd x = true -> f x = false).
    { rewrite find_none_iff, existsb_false_iff. split.
      - intros H x Hx Hn. apply H. apply filter_In. split; assumption.
      - intros H x Hx. apply filter_In in Hx. apply H; tauto. }
    destruct (existsb (fun kv : str * row => f (snd kv)) (p_dels s)) eqn:Ed.
    - (* a pending delete carries the value: the stored row it deletes is the only stored row with it *)
      split; [intros _|reflexivity].
      assert (Hs : find f (filter nd (p_rows s)) = None).
      { apply Hsurv. intros x Hx Hn. destruct (f x) eqn:Efx; [exfalso|reflexivity].
        apply existsb_exists in Ed. destruct Ed as [kv [Hkv Hfd]].
        pose proof (H1 kv Hkv) as Hdin.
        assert (Hxd : cols_match cols pls x (snd kv) = true) by (eapply cols_match_eucl; [exact Efx|exact Hfd]).
        assert (Hnd : has_null cols (snd kv) = false) by (eapply has_null_match; [exact Hfd|exact Hnull]).
        pose proof (Hu cols pls x (snd kv) Hin Hx Hdin Hnd Hxd) as Exd.
        unfold nd, notdel in Hn. rewrite Exd, <- (R_do _ _ _ _ HR kv Hkv), (in_mem_key _ kv Hkv) in Hn. discriminate. }
      rewrite Hs. reflexivity.
    - (* no pending delete carries the value: a stored row with it has not been deleted *)
      assert (Hd : forall kv, In kv (p_dels s) -> f (snd kv) = false) by (apply existsb_false_iff; exact Ed).
      assert (Hrows : find f (p_rows s) = None <-> find f (filter nd (p_rows s)) = None).
      { rewrite Hsurv, find_none_iff, existsb_false_iff. split; [intros H x Hx _; apply H; exact Hx|].
        intros H x Hx. destruct (nd x) eqn:En; [apply H; assumption|].
        unfold nd, notdel in En. apply negb_false_iff in En. apply mem_key_in in En. destruct En as [kv [Hkv Hk]].
        pose proof (H1 kv Hkv) as Hdin.
        assert (Ux : U x) by (exact (proj1 (Forall_forall _ _) (R_Ur _ _ _ _ HR) x Hx)).
        assert (Ud : U (snd kv)).
        { apply (proj1 (Forall_forall _ _) (R_Ud _ _ _ _ HR)). apply in_map. exact Hkv. }
        assert (Ek : key sch x = key sch (snd kv)).
        { apply Hinj; [exact Ux|exact Ud|]. rewrite <- Hk. apply (R_do _ _ _ _ HR kv Hkv). }
        rewrite (keys_nodup_inj sch _ x (snd kv) (R_nd _ _ _ _ HR) Hx Hdin Ek). apply Hd. exact Hkv. }
      destruct (find f (filter nd (p_rows s))) eqn:E1.
      + split; intros H; [|discriminate]. apply Hrows in H. discriminate.
      + destruct Hrows as [_ Hrows]. rewrite (Hrows eq_refl). tauto.
  Qed.

  Lemma update_sim_g : forall s L o n, Rk s L -> I1 s -> urows (p_rows s) -> U o -> U n -> In o (p_rows s) -> G s n ->
    match pk_update sch s o n, sp_update sch L o n with
    | ROk a, ROk b => Rk a b /\ I1 a /\ p_rows a = p_rows s /\
                      (forall kv, In kv (p_adds a) -> In kv (p_adds s) \/ snd kv = n)
    | RDup _, RDup _ => True
    | _, _ => False
    end.
  Proof.
    intros s L o n HR H1 Hu Ho Hn Hin HG.
    pose proof (delete_sim sch U Hinj s L o HR Ho) as HR1.
    set (s1 := pk_acc_delete sch s o) in *. set (L1 := sp_delete sch L o) in *.
    assert (H11 : I1 s1).
    { intros kv Hkv. cbn [s1 pk_acc_delete p_dels p_rows] in *. apply in_m_set in Hkv.
      destruct Hkv as [-> |Hkv]; [exact Hin|apply H1; exact Hkv]. }
    assert (Hsub : forall kv, In kv (p_adds s1) -> In kv (p_adds s)).
    { intros kv Hkv. cbn [s1 pk_acc_delete p_adds] in Hkv. rewrite m_del_filter in Hkv. apply filter_In in Hkv. tauto. }
    assert (HG1 : G s1 n) by (intros kv Hkv; apply HG; apply Hsub; exact Hkv).
    pose proof (check_unique_agree (pk_get_by_cols s1) (sp_get_by_cols L1) n (s_uniq sch)
                  (fun cols pls Hi Hnl => probe_guard s1 L1 n cols pls HR1 H11 Hu HG1 Hi Hnl)) as Hcu.
    assert (Hfin : pk_get sch s1 n = None ->
      match (match check_unique (pk_get_by_cols s1) (s_uniq sch) n with
             | Some ex => RDup ex | None => ROk (pk_acc_insert sch s1 n) end),
            (match check_unique (sp_get_by_cols L1) (s_uniq sch) n with
             | Some ex => RDup ex | None => ROk (L1 ++ [n]) end) with
      | ROk a, ROk b => Rk a b /\ I1 a /\ p_rows a = p_rows s /\
                        (forall kv, In kv (p_adds a) -> In kv (p_adds s) \/ snd kv = n)
      | RDup _, RDup _ => True
      | _, _ => False
      end).
    { intros Eg.
      destruct (check_unique (pk_get_by_cols s1) (s_uniq sch) n), (check_unique (sp_get_by_cols L1) (s_uniq sch) n).
      - exact I.
      - destruct Hcu as [_ Hcu]. specialize (Hcu eq_refl). discriminate.
      - destruct Hcu as [Hcu _]. specialize (Hcu eq_refl). discriminate.
      - split; [apply acc_insert_sim; assumption|]. split; [exact H11|]. split; [reflexivity|].
        intros kv Hkv. cbn [pk_acc_insert p_adds] in Hkv. apply in_m_set in Hkv.
        destruct Hkv as [-> |Hkv]; [right; reflexivity|left; apply Hsub; exact Hkv]. }
    unfold pk_update, sp_update. fold s1. fold L1.
    destruct (pk_match sch o n) eqn:Em.
    - apply Hfin. apply pk_match_spec in Em. unfold pk_get. cbn [s1 pk_acc_delete p_adds p_dels].
      rewrite <- (key_str_of_key sch o n Em). rewrite m_get_m_del, m_get_m_set. reflexivity.
    - rewrite <- (get_sim sch U Hinj s1 L1 n HR1 Hn). destruct (pk_get sch s1 n) eqn:Eg; [exact I|].
      apply Hfin. reflexivity.
  Qed.

  Definition news (a : list assign) (ts : list row) : list row := map (apply_assigns a) (changed sch a ts).

  Lemma upd_sim_g : forall a, (forall r, U r -> U (apply_assigns a r)) ->
    forall ts s L m c, Rk s L -> I1 s -> urows (p_rows s) ->
      Forall (fun o => In o (p_rows s)) ts -> Forall U ts ->
      (forall kv b, In kv (p_adds s) -> In b (news a ts) -> noconf (snd kv) b) -> news_ok (news a ts) ->
      match upd_loop (pk_update sch) sch a s ts m c, upd_loop (sp_update sch) sch a L ts m c with
      | Some (x, m1, c1), Some (y, m2, c2) => Rk x y /\ m1 = m2 /\ c1 = c2
      | None, None => True
      | _, _ => False
      end.
  Proof.
    intros a Ha. induction ts as [|o ts IH]; intros s L m c HR H1 Hu Hts HU Hadds Hnews; cbn [upd_loop];
      [split; [exact HR|split; reflexivity]|].
    inversion Hts as [|? ? Hoin Hts']; subst. inversion HU as [|? ? Ho HU']; subst.
    unfold news, changed in Hadds, Hnews. cbn [filter] in Hadds, Hnews.
    destruct (row_equals sch o (apply_assigns a o)) eqn:Eq; cbn [negb map] in Hadds, Hnews.
    - apply IH; assumption.
    - fold (changed sch a ts) in Hadds, Hnews. fold (news a ts) in Hadds, Hnews. destruct Hnews as [Hhd Htl].
      set (n := apply_assigns a o) in *.
      assert (HG : G s n) by (intros kv Hkv; apply (Hadds kv n Hkv); left; reflexivity).
      pose proof (update_sim_g s L o n HR H1 Hu Ho (Ha o Ho) Hoin HG) as H.
      destruct (pk_update sch s o n) as [x|], (sp_update sch L o n) as [y|]; try contradiction; [|exact I].
      destruct H as [HRx [H1x [Erows Haddsx]]].
      apply IH; try assumption.
      + rewrite Erows. exact Hu.
      + rewrite Erows. exact Hts'.
      + intros kv b Hkv Hb. destruct (Haddsx kv Hkv) as [Hold| ->].
        * apply (Hadds kv b Hold). right. exact Hb.
        * apply Hhd. exact Hb.
  Qed.

  Theorem uniq_update_refines : forall rows a w ord lim, Pre sch U rows -> urows rows ->
    (forall r, U r -> U (apply_assigns a r)) ->
    news_ok (news a (targets sch w ord lim rows)) ->
    pk_exec sch rows (SUpdate a w ord lim) = spec_exec sch rows (SUpdate a w ord lim) /\
    Pre sch U (snd (spec_exec sch rows (SUpdate a w ord lim))).
  Proof.
    intros rows a w ord lim HP Hu Ha Hn. unfold pk_exec, spec_exec. cbn [exec].
    pose proof (upd_sim_g a Ha (targets sch w ord lim rows) (pk_begin rows) (sp_begin rows) 0%N 0%N
                  (begin_sim sch U rows HP)) as H.
    assert (Hin : Forall (fun o => In o rows) (targets sch w ord lim rows)).
    { apply targets_U. apply Forall_forall. intros x Hx. exact Hx. }
    specialize (H (fun kv (F : In kv []) => match F with end) Hu Hin (targets_U sch U w ord lim rows (proj2 HP))
                  (fun kv b (F : In kv []) _ => match F with end) Hn).
    destruct (upd_loop (pk_update sch) sch a (pk_begin rows) _ 0 0) as [[[x m1] k1]|],
             (upd_loop (sp_update sch) sch a (sp_begin rows) _ 0 0) as [[[y m2] k2]|]; try contradiction;
      [|split; [reflexivity|exact HP]].
    destruct H as [H [-> ->]]. destruct (commit_sim sch U Hinj Hbin _ _ H) as [E HP']. rewrite E.
    split; [reflexivity|exact HP'].
  Qed.
End Uniq.

(* ---------- with the length-prefixed row key the injectivity premise is a theorem (typing premises as in C13) ---------- *)
Theorem uniq_insert_delete_refines_typed : forall sch ks, pk_binary sch ->
  forall rows st, Pre sch (key_kinds sch ks) rows ->
    match st with
    | SInsert IPlain news => Forall (key_kinds sch ks) news
    | SInsert IIgnore news => Forall (key_kinds sch ks) news
    | SDelete _ _ _ => True
    | _ => False
    end ->
    pk_exec sch rows st = spec_exec sch rows st /\ Pre sch (key_kinds sch ks) (snd (spec_exec sch rows st)).
Proof.
  intros sch ks Hb. apply (uniq_insert_delete_refines sch (key_kinds sch ks)); [|exact Hb].
  intros a b Ha Hb'. apply (row_key_injective sch ks); assumption.
Qed.

Theorem uniq_update_refines_typed : forall sch ks, pk_binary sch ->
  forall rows a w ord lim, Pre sch (key_kinds sch ks) rows -> urows sch rows ->
    (forall r, key_kinds sch ks r -> key_kinds sch ks (apply_assigns a r)) ->
    news_ok sch (news sch a (targets sch w ord lim rows)) ->
    pk_exec sch rows (SUpdate a w ord lim) = spec_exec sch rows (SUpdate a w ord lim) /\
    Pre sch (key_kinds sch ks) (snd (spec_exec sch rows (SUpdate a w ord lim))).
Proof.
  intros sch ks Hb. apply (uniq_update_refines sch (key_kinds sch ks)); [|exact Hb].
  intros a b Ha Hb'. apply (row_key_injective sch ks); assumption.
Qed.

(* ---------- witnesses ---------- *)
Definition uq_sch : schema := {| s_pk := [0%nat]; s_uniq := [([1%nat], [0%N])]; s_coll := [CBin; CBin] |}.

(* guard holds: UPDATE t SET c0 = c0 + 10, c1 = c1 + 1 on (1,5), (2,6): (1,5) -> (11,6) takes the value 6 that the
   reference still sees on the stored (2,6): both reject *)
Definition uq_rows : list row := [[VInt 1; VInt 5]; [VInt 2; VInt 6]].
Definition uq_shift : stmt := SUpdate [(0%nat, AAdd 10); (1%nat, AAdd 1)] PTrue None None.
Definition uq_shift_desc : stmt := SUpdate [(0%nat, AAdd 10); (1%nat, AAdd 1)] PTrue (Some (1%nat, true)) None.

Lemma uq_guarded_examples :
  pk_exec uq_sch uq_rows uq_shift = (ODupKey, uq_rows) /\ spec_exec uq_sch uq_rows uq_shift = (ODupKey, uq_rows) /\
  pk_exec uq_sch uq_rows uq_shift_desc = (OOk 2 2, [[VInt 11; VInt 6]; [VInt 12; VInt 7]]) /\
  spec_exec uq_sch uq_rows uq_shift_desc = (OOk 2 2, [[VInt 11; VInt 6]; [VInt 12; VInt 7]]).
Proof. repeat split; vm_compute; reflexivity. Qed.

Lemma uq_bin : pk_binary uq_sch.
Proof. intros c Hc. cbn in Hc. destruct Hc as [<-|[]]. reflexivity. Qed.

Lemma uq_pre : Pre uq_sch (key_kinds uq_sch [KInt]) uq_rows.
Proof.
  split.
  - unfold keys_nodup. vm_compute. constructor; [intros [H|[]]; discriminate|constructor; [intros []|constructor]].
  - repeat constructor.
Qed.

Lemma uq_urows : urows uq_sch uq_rows.
Proof.
  intros cols pls x y Hu Hx Hy _ Hm. cbn in Hu. destruct Hu as [Hu|[]]. injection Hu as <- <-.
  cbn in Hx, Hy. destruct Hx as [<-|[<-|[]]], Hy as [<-|[<-|[]]]; try reflexivity; vm_compute in Hm; discriminate.
Qed.

Lemma uq_news_ok : news_ok uq_sch (news uq_sch [(0%nat, AAdd 10); (1%nat, AAdd 1)] (targets uq_sch PTrue None None uq_rows)).
Proof.
  vm_compute. split; [|split; [intros b []|exact I]].
  intros b [<-|[]] cols pls [Hu|[]] _. injection Hu as <- <-. reflexivity.
Qed.

(* the unguarded statement is false, twice:
   (1) freed value taken twice: UPDATE t SET c0 = c0 + 10, c1 = 5 on (1,5), (2,6): GetByCols gives up on the pending
       delete of (1,5) for BOTH new rows; the editor stores (11,5), (12,5), the reference rejects;
   (2) overwritten pending delete: REPLACE INTO t VALUES (1,6),(1,7),(2,5) on (1,5): the pending delete of the stored (1,5)
       is overwritten by the delete of the re-added (1,6); the probe for (2,5) finds the stored (1,5) again, REPLACE
       deletes "it" once more and thereby drops the pending add (1,7): the editor stores (2,5) alone (6 affected), the
       reference (1,7), (2,5) (5 affected). *)
Definition uq_take : stmt := SUpdate [(0%nat, AAdd 10); (1%nat, AConst (VInt 5))] PTrue None None.
Definition uq_stale_rows : list row := [[VInt 1; VInt 5]].
Definition uq_stale : stmt := SInsert IReplace [[VInt 1; VInt 6]; [VInt 1; VInt 7]; [VInt 2; VInt 5]].

Lemma uq_unguarded_refuted :
  (pk_exec uq_sch uq_rows uq_take = (OOk 2 2, [[VInt 11; VInt 5]; [VInt 12; VInt 5]]) /\
   spec_exec uq_sch uq_rows uq_take = (ODupKey, uq_rows)) /\
  (pk_exec uq_sch uq_stale_rows uq_stale = (OOk 6 0, [[VInt 2; VInt 5]]) /\
   spec_exec uq_sch uq_stale_rows uq_stale = (OOk 5 0, [[VInt 1; VInt 7]; [VInt 2; VInt 5]])).
Proof. repeat split; vm_compute; reflexivity. Qed.
