(* C16 — proofs about the storage model of Store/C16Index.v: the index invariant, its preservation by every
   helper, and the consequence "index lookup = filtered scan" (as bags). *)
From Coq Require Import List NArith ZArith Bool Arith Lia Permutation.
Import ListNotations.
From GMS Require Import Store.C16Index.

(* ---------- decidable equalities ---------- *)
Lemma ns_eqb_eq a b : ns_eqb a b = true <-> a = b.
Proof.
  revert b; induction a as [|x a IH]; intros [|y b]; cbn; split; intros H; try reflexivity; try discriminate.
  - apply andb_prop in H. destruct H as [H1 H2]. apply N.eqb_eq in H1. apply IH in H2. congruence.
  - injection H as -> ->. rewrite N.eqb_refl. cbn. apply IH. reflexivity.
Qed.

Lemma val_eqb_eq a b : val_eqb a b = true <-> a = b.
Proof.
  destruct a, b; cbn; split; intros H; try reflexivity; try discriminate.
  - apply Z.eqb_eq in H. congruence.
  - injection H as ->. apply Z.eqb_refl.
  - apply ns_eqb_eq in H. congruence.
  - injection H as ->. apply ns_eqb_eq. reflexivity.
Qed.

Lemma loc_eqb_eq a b : loc_eqb a b = true <-> a = b.
Proof.
  destruct a as [a1 a2], b as [b1 b2]. unfold loc_eqb. cbn. rewrite andb_true_iff, !Nat.eqb_eq.
  split; [intros [-> ->]; reflexivity | intros H; injection H; auto].
Qed.

Lemma loc_eqb_refl a : loc_eqb a a = true.
Proof. apply loc_eqb_eq. reflexivity. Qed.

Lemma loc_eqb_neq a b : loc_eqb a b = false <-> a <> b.
Proof.
  split.
  - intros H E. apply loc_eqb_eq in E. congruence.
  - intros H. destruct (loc_eqb a b) eqn:E; [apply loc_eqb_eq in E; contradiction | reflexivity].
Qed.

Lemma name_eqb_eq a b : name_eqb a b = true <-> a = b.
Proof.
  destruct a as [a1 a2], b as [b1 b2]. unfold name_eqb. cbn. rewrite andb_true_iff, N.eqb_eq, eqb_true_iff.
  split; [intros [-> ->]; reflexivity | intros H; injection H; auto].
Qed.

Lemma name_eqb_refl a : name_eqb a a = true.
Proof. apply name_eqb_eq. reflexivity. Qed.

Lemma name_eqb_neq a b : name_eqb a b = false <-> a <> b.
Proof.
  split.
  - intros H E. apply name_eqb_eq in E. congruence.
  - intros H. destruct (name_eqb a b) eqn:E; [apply name_eqb_eq in E; contradiction | reflexivity].
Qed.

Lemma lower_idem n : lower (lower n) = lower n.
Proof. reflexivity. Qed.

(* ---------- partitions ---------- *)
Lemma upd_part_length ps p f : length (upd_part ps p f) = length ps.
Proof. revert p; induction ps as [|x t IH]; intros [|p]; cbn; auto. Qed.

Lemma part_upd_same ps p f : p < length ps -> part (upd_part ps p f) p = f (part ps p).
Proof.
  unfold part. revert p; induction ps as [|x t IH]; intros [|p] H; cbn in *; try lia; auto.
  apply IH. lia.
Qed.

Lemma part_upd_other ps p q f : p <> q -> part (upd_part ps p f) q = part ps q.
Proof.
  unfold part. revert p q; induction ps as [|x t IH]; intros [|p] [|q] H; cbn; auto; try congruence.
Qed.

Lemma upd_part_oob ps p f : length ps <= p -> upd_part ps p f = ps.
Proof.
  revert p; induction ps as [|x t IH]; intros [|p] H; cbn in *; auto; try lia. f_equal. apply IH. lia.
Qed.

Lemma part_oob ps p : length ps <= p -> part ps p = [].
Proof. intros H. unfold part. apply nth_overflow. exact H. Qed.

Definition valid (ps : list (list row)) (l : loc) : Prop := snd l < length (part ps (fst l)).

Lemma valid_part_lt ps l : valid ps l -> fst l < length ps.
Proof.
  unfold valid. intros H. destruct (Nat.lt_ge_cases (fst l) (length ps)) as [L|L]; auto.
  rewrite part_oob in H by exact L. cbn in H. lia.
Qed.

Lemma row_at_valid ps l r : row_at ps l = Some r -> valid ps l.
Proof. unfold row_at, valid. intros H. apply nth_error_Some. congruence. Qed.

Lemma valid_row_at ps l : valid ps l -> exists r, row_at ps l = Some r.
Proof.
  unfold row_at, valid. intros H. destruct (nth_error (part ps (fst l)) (snd l)) eqn:E; eauto.
  apply nth_error_None in E. lia.
Qed.

Lemma remove_nth_length {A} i (l : list A) : i < length l -> length (remove_nth i l) = length l - 1.
Proof.
  revert i; induction l as [|x t IH]; intros [|i] H; cbn in *; try lia.
  rewrite IH by lia. lia.
Qed.

Lemma remove_nth_lt {A} i j (l : list A) : j < i -> nth_error (remove_nth i l) j = nth_error l j.
Proof.
  revert i j; induction l as [|x t IH]; intros i j H.
  - destruct i, j; reflexivity.
  - destruct i as [|i], j as [|j]; cbn; try lia; auto. apply IH. lia.
Qed.

Lemma remove_nth_ge {A} i j (l : list A) : i <= j -> nth_error (remove_nth i l) j = nth_error l (S j).
Proof.
  revert i j; induction l as [|x t IH]; intros i j H.
  - destruct i, j; reflexivity.
  - destruct i as [|i], j as [|j]; cbn; try lia; auto. apply IH. lia.
Qed.

Lemma set_nth_length {A} i (v : A) l : length (set_nth i v l) = length l.
Proof. revert i; induction l as [|x t IH]; intros [|i]; cbn; auto. Qed.

Lemma set_nth_same {A} i (v : A) l : i < length l -> nth_error (set_nth i v l) i = Some v.
Proof. revert i; induction l as [|x t IH]; intros [|i] H; cbn in *; try lia; auto. apply IH. lia. Qed.

Lemma set_nth_other {A} i j (v : A) l : i <> j -> nth_error (set_nth i v l) j = nth_error l j.
Proof. revert i j; induction l as [|x t IH]; intros [|i] [|j] H; cbn; auto; try congruence. Qed.

Lemma NoDup_app_intro_c16 {A} (a b : list A) :
  NoDup a -> NoDup b -> (forall x, In x a -> In x b -> False) -> NoDup (a ++ b).
Proof.
  induction a as [|x a IH]; intros Na Nb D; cbn; auto.
  inversion Na as [|? ? NI Na']; subst. constructor.
  - intros H. apply in_app_or in H. destruct H as [H|H]; [contradiction|]. apply (D x); [left; reflexivity|exact H].
  - apply IH; auto. intros y Hy. apply D. right. exact Hy.
Qed.

(* ---------- the invariant ---------- *)
Definition wf (d : idef) (ps : list (list row)) (es : list entry) : Prop :=
  NoDup (map snd es) /\
  (forall k l, In (k, l) es -> exists r, row_at ps l = Some r /\ k = key_of d r) /\
  (forall l, valid ps l -> In l (map snd es)).

Definition defs_ok (ds : list (name * idef)) : Prop :=
  NoDup (map fst ds) /\ forall k d, In (k, d) ds -> k = lower (iname d).

Definition Inv (td : tdata) : Prop :=
  defs_ok (defs td) /\ forall k d, In (k, d) (defs td) -> wf d (parts td) (stor td (iname d)).

Lemma wf_perm d ps es es' : Permutation es es' -> wf d ps es -> wf d ps es'.
Proof.
  intros P (N & K & C). split; [|split].
  - eapply Permutation_NoDup; [apply Permutation_map; exact P | exact N].
  - intros k l H. apply K. eapply Permutation_in; [apply Permutation_sym; exact P | exact H].
  - intros l V. eapply Permutation_in; [apply Permutation_map; exact P | apply C; exact V].
Qed.

(* names of definitions are unique, so looking an index up by its own Name finds it *)
Lemma defs_ok_names ds k1 d1 k2 d2 :
  defs_ok ds -> In (k1, d1) ds -> In (k2, d2) ds -> iname d1 = iname d2 -> (k1, d1) = (k2, d2).
Proof.
  intros [N L] H1 H2 E.
  assert (k1 = k2) as -> by (rewrite (L _ _ H1), (L _ _ H2), E; reflexivity).
  f_equal. clear L E. induction ds as [|[k d] t IH]; [contradiction|].
  cbn in N. inversion N as [|? ? NI N']; subst.
  destruct H1 as [H1|H1], H2 as [H2|H2].
  - congruence.
  - injection H1 as -> ->. exfalso. apply NI. apply (in_map fst) in H2. exact H2.
  - injection H2 as -> ->. exfalso. apply NI. apply (in_map fst) in H1. exact H1.
  - apply IH; assumption.
Qed.

Lemma def_named_in ds k d : defs_ok ds -> In (k, d) ds -> def_named ds (iname d) = Some d.
Proof.
  intros OK H. unfold def_named.
  destruct (find (fun kd => name_eqb (iname (snd kd)) (iname d)) ds) as [[k' d']|] eqn:F.
  - apply find_some in F. destruct F as [F1 F2]. cbn in F2. apply name_eqb_eq in F2.
    pose proof (defs_ok_names _ _ _ _ _ OK F1 H F2) as E. injection E as _ ->. reflexivity.
  - exfalso. eapply find_none in F; [|exact H]. cbn in F. rewrite name_eqb_refl in F. discriminate.
Qed.

Lemma def_keyed_some ds k d : def_keyed ds k = Some d -> In (k, d) ds.
Proof.
  unfold def_keyed. destruct (find (fun kd => name_eqb (fst kd) k) ds) as [[k' d']|] eqn:F; [|discriminate].
  intros E. injection E as ->. apply find_some in F. destruct F as [F1 F2]. cbn in F2.
  apply name_eqb_eq in F2. subst. exact F1.
Qed.

Lemma def_keyed_none ds k : def_keyed ds k = None -> ~ In k (map fst ds).
Proof.
  unfold def_keyed. destruct (find (fun kd => name_eqb (fst kd) k) ds) as [[k' d']|] eqn:F; [discriminate|].
  intros _ H. apply in_map_iff in H. destruct H as ([k' d'] & E & H). cbn in E. subst.
  eapply find_none in F; [|exact H]. cbn in F. rewrite name_eqb_refl in F. discriminate.
Qed.

(* ---------- addRowToIndexes after appending a row ---------- *)
Lemma wf_append d ps p r es :
  p < length ps -> wf d ps es ->
  wf d (upd_part ps p (fun rs => rs ++ [r])) (es ++ [(key_of d r, (p, length (part ps p)))]).
Proof.
  intros PL (N & K & C).
  set (l := (p, length (part ps p))). set (ps' := upd_part ps p (fun rs => rs ++ [r])).
  assert (NV : ~ valid ps l) by (unfold valid, l; cbn; lia).
  assert (RA : forall l', valid ps l' -> row_at ps' l' = row_at ps l').
  { intros [q i] V. unfold row_at, ps'. cbn. destruct (Nat.eq_dec p q) as [->|NE].
    - rewrite part_upd_same by exact PL. unfold valid in V. cbn in V. rewrite nth_error_app1 by exact V. reflexivity.
    - rewrite part_upd_other by exact NE. reflexivity. }
  assert (RN : row_at ps' l = Some r).
  { unfold row_at, ps', l. cbn. rewrite part_upd_same by exact PL. rewrite nth_error_app2 by lia.
    rewrite Nat.sub_diag. reflexivity. }
  assert (VV : forall l', valid ps' l' -> valid ps l' \/ l' = l).
  { intros [q i] V. unfold valid, ps' in V. cbn in V. destruct (Nat.eq_dec p q) as [->|NE].
    - rewrite part_upd_same in V by exact PL. rewrite app_length in V. cbn in V.
      destruct (Nat.eq_dec i (length (part ps q))) as [->|NE2]; [right; reflexivity|left].
      unfold valid. cbn. lia.
    - rewrite part_upd_other in V by exact NE. left. exact V. }
  split; [|split].
  - rewrite map_app. cbn. apply NoDup_app_intro_c16; auto.
    + repeat constructor. intros [].
    + intros x Hx [Hy|[]]. subst x. apply in_map_iff in Hx. destruct Hx as ([k l'] & E & Hx). cbn in E. subst l'.
      destruct (K _ _ Hx) as (r' & Hr & _). apply row_at_valid in Hr. contradiction.
  - intros k l' H. apply in_app_or in H. destruct H as [H|[H|[]]].
    + destruct (K _ _ H) as (r' & Hr & Hk). exists r'. split; [|exact Hk].
      rewrite RA; [exact Hr | eapply row_at_valid; exact Hr].
    + injection H as <- <-. exists r. split; [exact RN | reflexivity].
  - intros l' V. rewrite map_app. apply in_or_app. destruct (VV _ V) as [V'|E].
    + left. apply C. exact V'.
    + right. cbn. left. symmetry. exact E.
Qed.

(* ---------- deleteRowFromIndexes after removing a row ---------- *)
Lemma in_del_loc l es x :
  In x (del_loc l es) <-> exists e, In e es /\ snd e <> l /\ x = (fst e, shift l (snd e)).
Proof.
  unfold del_loc. rewrite in_flat_map. split.
  - intros (e & He & Hx). exists e. destruct (loc_eqb (snd e) l) eqn:E; [contradiction|].
    apply loc_eqb_neq in E. destruct Hx as [Hx|[]]. auto.
  - intros (e & He & Hn & ->). exists e. split; [exact He|]. apply loc_eqb_neq in Hn. rewrite Hn. left. reflexivity.
Qed.

Lemma shift_hi l a : fst a = fst l -> snd l < snd a -> shift l a = (fst a, snd a - 1).
Proof.
  intros H1 H2. unfold shift. rewrite H1, Nat.eqb_refl.
  replace (Nat.ltb (snd l) (snd a)) with true by (symmetry; apply Nat.ltb_lt; exact H2). reflexivity.
Qed.

Lemma shift_lo l a : fst a <> fst l \/ snd a <= snd l -> shift l a = a.
Proof.
  intros H. unfold shift. destruct (Nat.eqb (fst a) (fst l)) eqn:E; [|reflexivity].
  apply Nat.eqb_eq in E. destruct H as [H|H]; [contradiction|].
  replace (Nat.ltb (snd l) (snd a)) with false by (symmetry; apply Nat.ltb_ge; exact H). reflexivity.
Qed.

Lemma shift_cases l a :
  (fst a = fst l /\ snd l < snd a /\ shift l a = (fst a, snd a - 1)) \/
  ((fst a <> fst l \/ snd a <= snd l) /\ shift l a = a).
Proof.
  destruct (Nat.eq_dec (fst a) (fst l)) as [E|E].
  - destruct (Nat.lt_ge_cases (snd l) (snd a)) as [L|L].
    + left. split; [exact E|]. split; [exact L|]. apply shift_hi; assumption.
    + right. split; [right; exact L|]. apply shift_lo. right. exact L.
  - right. split; [left; exact E|]. apply shift_lo. left. exact E.
Qed.

Lemma shift_inj l a b : a <> l -> b <> l -> shift l a = shift l b -> a = b.
Proof.
  intros Ha Hb H.
  assert (Ha' : fst a <> fst l \/ snd a <> snd l).
  { destruct a as [q j], l as [p i]. cbn. destruct (Nat.eq_dec q p), (Nat.eq_dec j i); auto; subst; exfalso; congruence. }
  assert (Hb' : fst b <> fst l \/ snd b <> snd l).
  { destruct b as [q j], l as [p i]. cbn. destruct (Nat.eq_dec q p), (Nat.eq_dec j i); auto; subst; exfalso; congruence. }
  destruct (shift_cases l a) as [(A1 & A2 & A3)|(A1 & A3)], (shift_cases l b) as [(B1 & B2 & B3)|(B1 & B3)];
    rewrite A3, B3 in H; destruct a as [q j], b as [q' j'], l as [p i]; cbn in *; injection H as H1 H2; subst;
    f_equal; lia.
Qed.

Lemma row_at_delete ps l l' :
  valid ps l -> valid ps l' -> l' <> l ->
  row_at (upd_part ps (fst l) (remove_nth (snd l))) (shift l l') = row_at ps l'.
Proof.
  destruct l as [p i], l' as [q j]. intros V V' NE. pose proof (valid_part_lt _ _ V) as PL. cbn in PL.
  unfold shift, row_at. cbn [fst snd].
  destruct (Nat.eqb q p) eqn:E1; cbn [andb fst snd].
  - apply Nat.eqb_eq in E1. subst q. destruct (Nat.ltb i j) eqn:L; cbn [fst snd].
    + apply Nat.ltb_lt in L. rewrite part_upd_same by exact PL. rewrite remove_nth_ge by lia.
      replace (S (j - 1)) with j by lia. reflexivity.
    + apply Nat.ltb_ge in L. rewrite part_upd_same by exact PL. assert (j <> i) by congruence.
      rewrite remove_nth_lt by lia. reflexivity.
  - apply Nat.eqb_neq in E1. rewrite part_upd_other by congruence. reflexivity.
Qed.

Lemma valid_delete ps l l'' :
  valid ps l -> valid (upd_part ps (fst l) (remove_nth (snd l))) l'' ->
  exists l', valid ps l' /\ l' <> l /\ shift l l' = l''.
Proof.
  destruct l as [p i], l'' as [q j]. intros V V'. pose proof (valid_part_lt _ _ V) as PL. cbn in PL.
  unfold valid in *. cbn in *. destruct (Nat.eq_dec q p) as [->|NE].
  - rewrite part_upd_same in V' by exact PL. rewrite remove_nth_length in V' by exact V.
    destruct (Nat.lt_ge_cases j i) as [L|L].
    + exists (p, j). cbn. split; [lia|]. split; [intros E; injection E; lia|].
      unfold shift. cbn [fst snd]. rewrite Nat.eqb_refl. replace (Nat.ltb i j) with false by (symmetry; apply Nat.ltb_ge; lia).
      reflexivity.
    + exists (p, S j). cbn. split; [lia|]. split; [intros E; injection E; lia|].
      unfold shift. cbn [fst snd]. rewrite Nat.eqb_refl. replace (Nat.ltb i (S j)) with true by (symmetry; apply Nat.ltb_lt; lia).
      cbn [andb]. f_equal. lia.
  - rewrite part_upd_other in V' by congruence. exists (q, j). cbn. split; [exact V'|]. split; [congruence|].
    unfold shift. cbn [fst snd]. replace (Nat.eqb q p) with false by (symmetry; apply Nat.eqb_neq; exact NE). reflexivity.
Qed.

Lemma wf_delete d ps l es :
  valid ps l -> wf d ps es -> wf d (upd_part ps (fst l) (remove_nth (snd l))) (del_loc l es).
Proof.
  intros V (N & K & C). split; [|split].
  - clear C. induction es as [|e t IH]; [constructor|].
    cbn in N. inversion N as [|? ? NI N']; subst.
    assert (K' : forall k l0, In (k, l0) t -> exists r, row_at ps l0 = Some r /\ k = key_of d r)
      by (intros; apply K; right; assumption).
    unfold del_loc. cbn. fold (del_loc l t). destruct (loc_eqb (snd e) l) eqn:E; cbn; [apply IH; assumption|].
    constructor; [|apply IH; assumption].
    intros H. apply in_map_iff in H. destruct H as (x & Hx1 & Hx2). apply in_del_loc in Hx2.
    destruct Hx2 as (e' & He' & Hn & ->). cbn in Hx1. apply loc_eqb_neq in E.
    apply shift_inj in Hx1; auto. apply NI. rewrite <- Hx1. apply in_map. exact He'.
  - intros k l'' H. apply in_del_loc in H. destruct H as ([k' l'] & He & Hn & E). cbn in *. injection E as -> ->.
    destruct (K _ _ He) as (r & Hr & Hk). exists r. split; [|exact Hk].
    rewrite row_at_delete; auto. eapply row_at_valid; exact Hr.
  - intros l'' V''. destruct (valid_delete _ _ _ V V'') as (l' & V' & Hn & <-).
    apply C in V'. apply in_map_iff in V'. destruct V' as ([k l0] & E & He). cbn in E. subst l0.
    apply in_map_iff. exists (k, shift l l'). split; [reflexivity|]. apply in_del_loc. exists (k, l'). auto.
Qed.

(* ---------- partitionssort.Swap ---------- *)
Lemma valid_set_row ps l r l' : valid (set_row ps l r) l' <-> valid ps l'.
Proof.
  unfold valid, set_row. destruct (Nat.eq_dec (fst l) (fst l')) as [E|NE].
  - destruct (Nat.lt_ge_cases (fst l) (length ps)) as [L|L].
    + rewrite <- E, part_upd_same by exact L. rewrite set_nth_length. reflexivity.
    + rewrite upd_part_oob by exact L. reflexivity.
  - rewrite part_upd_other by exact NE. reflexivity.
Qed.

Lemma row_at_set_row_same ps l r : valid ps l -> row_at (set_row ps l r) l = Some r.
Proof.
  intros V. pose proof (valid_part_lt _ _ V) as PL. unfold row_at, set_row.
  rewrite part_upd_same by exact PL. apply set_nth_same. exact V.
Qed.

Lemma row_at_set_row_other ps l l' r : l' <> l -> row_at (set_row ps l r) l' = row_at ps l'.
Proof.
  intros NE. unfold row_at, set_row. destruct (Nat.eq_dec (fst l) (fst l')) as [E|NE'].
  - destruct (Nat.lt_ge_cases (fst l) (length ps)) as [L|L].
    + rewrite <- E, part_upd_same by exact L. apply set_nth_other.
      intros E2. apply NE. destruct l, l'. cbn in *. congruence.
    + rewrite upd_part_oob by exact L. reflexivity.
  - rewrite part_upd_other by exact NE'. reflexivity.
Qed.

Lemma patch_invol l1 l2 l : patch l1 l2 (patch l1 l2 l) = l.
Proof.
  unfold patch. destruct (loc_eqb l l1) eqn:E1.
  - apply loc_eqb_eq in E1. subst. destruct (loc_eqb l2 l1) eqn:E2.
    + apply loc_eqb_eq in E2. exact E2.
    + rewrite loc_eqb_refl. reflexivity.
  - destruct (loc_eqb l l2) eqn:E2.
    + apply loc_eqb_eq in E2. subst. rewrite loc_eqb_refl. reflexivity.
    + rewrite E1, E2. reflexivity.
Qed.

Lemma patch_inj l1 l2 a b : patch l1 l2 a = patch l1 l2 b -> a = b.
Proof. intros H. rewrite <- (patch_invol l1 l2 a), H. apply patch_invol. Qed.

Lemma row_at_swap ps l1 l2 r1 r2 l :
  row_at ps l1 = Some r1 -> row_at ps l2 = Some r2 ->
  row_at (set_row (set_row ps l1 r2) l2 r1) (patch l1 l2 l) = row_at ps l.
Proof.
  intros H1 H2. pose proof (row_at_valid _ _ _ H1) as V1. pose proof (row_at_valid _ _ _ H2) as V2.
  unfold patch. destruct (loc_eqb l l1) eqn:E1.
  - apply loc_eqb_eq in E1. subst. rewrite row_at_set_row_same by (apply valid_set_row; exact V2). congruence.
  - apply loc_eqb_neq in E1. destruct (loc_eqb l l2) eqn:E2.
    + apply loc_eqb_eq in E2. subst. rewrite row_at_set_row_other by congruence.
      rewrite row_at_set_row_same by exact V1. congruence.
    + apply loc_eqb_neq in E2. rewrite !row_at_set_row_other by assumption. reflexivity.
Qed.

Lemma valid_patch ps l1 l2 l : valid ps l1 -> valid ps l2 -> valid ps l -> valid ps (patch l1 l2 l).
Proof.
  intros V1 V2 V. unfold patch. destruct (loc_eqb l l1); [exact V2|]. destruct (loc_eqb l l2); assumption.
Qed.

Lemma wf_swap d ps l1 l2 r1 r2 es :
  row_at ps l1 = Some r1 -> row_at ps l2 = Some r2 -> wf d ps es ->
  wf d (set_row (set_row ps l1 r2) l2 r1) (map (fun e => (fst e, patch l1 l2 (snd e))) es).
Proof.
  intros H1 H2 (N & K & C). pose proof (row_at_valid _ _ _ H1) as V1. pose proof (row_at_valid _ _ _ H2) as V2.
  split; [|split].
  - rewrite map_map. cbn. rewrite <- (map_map snd (patch l1 l2)).
    apply FinFun.Injective_map_NoDup; [|exact N]. intros a b. apply patch_inj.
  - intros k l H. apply in_map_iff in H. destruct H as ([k0 l0] & E & H). cbn in E. injection E as -> <-.
    destruct (K _ _ H) as (r & Hr & Hk). exists r. split; [|exact Hk]. rewrite (row_at_swap _ _ _ _ _ _ H1 H2). exact Hr.
  - intros l V. apply valid_set_row in V. apply valid_set_row in V.
    pose proof (valid_patch _ _ _ _ V1 V2 V) as V'. apply C in V'. apply in_map_iff in V'.
    destruct V' as ([k l0] & E & H). cbn in E. subst l0. apply in_map_iff.
    exists (k, l). split; [reflexivity|]. apply in_map_iff. exists (k, patch l1 l2 l). split; [|exact H].
    cbn. rewrite patch_invol. reflexivity.
Qed.

(* ---------- sort_entries is a permutation ---------- *)
Lemma ins_entry_perm n x l : Permutation (ins_entry n x l) (x :: l).
Proof.
  induction l as [|y t IH]; cbn; [reflexivity|].
  destruct (key_cmp n (fst x) (fst y)); try reflexivity.
  rewrite IH. apply perm_swap.
Qed.

Lemma sort_entries_perm n l : Permutation (sort_entries n l) l.
Proof.
  induction l as [|x t IH]; cbn; [reflexivity|]. rewrite ins_entry_perm. constructor. exact IH.
Qed.

(* ---------- table-level preservation ---------- *)
Lemma find_in_part_spec f rs i0 i :
  find_in_part f rs i0 = Some i -> i0 <= i /\ i - i0 < length rs /\ exists r, nth_error rs (i - i0) = Some r /\ f r = true.
Proof.
  revert i0; induction rs as [|r t IH]; intros i0 H; cbn in H; [discriminate|].
  destruct (f r) eqn:F.
  - injection H as <-. rewrite Nat.sub_diag. cbn. split; [lia|]. split; [lia|]. eauto.
  - apply IH in H. destruct H as (H1 & H2 & r' & H3 & H4). split; [lia|]. split; [cbn; lia|].
    exists r'. split; [|exact H4]. replace (i - i0) with (S (i - S i0)) by lia. exact H3.
Qed.

Lemma find_row_spec f ps p0 l :
  find_row f ps p0 = Some l ->
  p0 <= fst l /\ exists r, nth_error (nth (fst l - p0) ps []) (snd l) = Some r /\ f r = true.
Proof.
  revert p0; induction ps as [|rs t IH]; intros p0 H; cbn in H; [discriminate|].
  destruct (find_in_part f rs 0) as [i|] eqn:F.
  - injection H as <-. cbn. apply find_in_part_spec in F. destruct F as (_ & _ & r & F1 & F2).
    rewrite Nat.sub_0_r in F1. rewrite Nat.sub_diag. split; [lia|]. eauto.
  - apply IH in H. destruct H as (H1 & r & H2 & H3). split; [lia|]. exists r. split; [|exact H3].
    replace (fst l - p0) with (S (fst l - S p0)) by lia. exact H2.
Qed.

Lemma find_row_valid f ps l : find_row f ps 0 = Some l -> valid ps l.
Proof.
  intros H. apply find_row_spec in H. destruct H as (_ & r & H & _). rewrite Nat.sub_0_r in H.
  unfold valid, part. apply nth_error_Some. congruence.
Qed.

Lemma Inv_delete_helper td r : Inv td -> Inv (delete_helper td r).
Proof.
  intros [OK W]. unfold delete_helper. destruct (find_row (del_pred td r) (parts td) 0) as [l|] eqn:F; [|split; assumption].
  apply find_row_valid in F. split; [exact OK|]. cbn. intros k d H.
  rewrite (def_named_in _ _ _ OK H). apply wf_delete; [exact F | apply (W _ _ H)].
Qed.

Lemma parts_len_delete_helper td r : length (parts (delete_helper td r)) = length (parts td).
Proof.
  unfold delete_helper. destruct (find_row (del_pred td r) (parts td) 0); [|reflexivity]. cbn. apply upd_part_length.
Qed.

Lemma pkcols_delete_helper td r : pkcols (delete_helper td r) = pkcols td.
Proof. unfold delete_helper. destruct (find_row (del_pred td r) (parts td) 0); reflexivity. Qed.

Lemma defs_delete_helper td r : defs (delete_helper td r) = defs td.
Proof. unfold delete_helper. destruct (find_row (del_pred td r) (parts td) 0); reflexivity. Qed.

Lemma Inv_insert_helper td p r : Inv td -> fresh_insert td p r = true -> Inv (insert_helper td p r).
Proof.
  intros [OK W] F. unfold fresh_insert in F. apply andb_prop in F. destruct F as [F1 F2]. apply Nat.ltb_lt in F1.
  unfold insert_helper.
  assert (E : match pkcols td with [] => None | n :: l => find_row (fun x => pk_match (n :: l) x r) (parts td) 0 end = None).
  { destruct (pkcols td); [reflexivity|]. destruct (find_row _ (parts td) 0); [discriminate|reflexivity]. }
  rewrite E. split; [exact OK|]. cbn. intros k d H. rewrite (def_named_in _ _ _ OK H).
  apply wf_append; [exact F1 | apply (W _ _ H)].
Qed.

Lemma parts_len_insert_helper td p r : length (parts (insert_helper td p r)) = length (parts td).
Proof.
  unfold insert_helper.
  destruct (match pkcols td with [] => None | n :: l => find_row (fun x => pk_match (n :: l) x r) (parts td) 0 end);
    cbn; apply upd_part_length.
Qed.

Lemma Inv_fold_delete dels : forall td, Inv td -> Inv (fold_left delete_helper dels td).
Proof. induction dels as [|r t IH]; intros td H; cbn; [exact H|]. apply IH. apply Inv_delete_helper. exact H. Qed.

Lemma Inv_fold_insert adds : forall td, Inv td -> fresh_adds td adds = true ->
  Inv (fold_left (fun t a => insert_helper t (fst a) (snd a)) adds td).
Proof.
  induction adds as [|a t IH]; intros td H F; cbn; [exact H|]. cbn in F. apply andb_prop in F. destruct F as [F1 F2].
  apply IH; [apply Inv_insert_helper; assumption | exact F2].
Qed.

Lemma Inv_apply_rows td dels adds : Inv td -> apply_fresh td dels adds = true -> Inv (apply_rows td dels adds).
Proof. intros H F. unfold apply_rows. apply Inv_fold_insert; [apply Inv_fold_delete; exact H | exact F]. Qed.

Lemma Inv_swap_td td l1 l2 : Inv td -> Inv (swap_td td l1 l2).
Proof.
  intros [OK W]. unfold swap_td. destruct (row_at (parts td) l1) as [r1|] eqn:H1; [|split; assumption].
  destruct (row_at (parts td) l2) as [r2|] eqn:H2; [|split; assumption].
  split; [exact OK|]. cbn. intros k d H. apply wf_swap; auto. apply (W _ _ H).
Qed.

(* any sequence of Swap calls, whatever sort.Sort decides to do *)
Lemma Inv_do_swaps sw : forall td, Inv td -> Inv (do_swaps td sw).
Proof.
  unfold do_swaps. induction sw as [|s t IH]; intros td H; cbn; [exact H|]. apply IH. apply Inv_swap_td. exact H.
Qed.

Lemma Inv_bubble_pass ls : forall td, Inv td -> Inv (bubble_pass td ls).
Proof.
  induction ls as [|l1 t IH]; intros td H; cbn; [exact H|]. destruct t as [|l2 t']; [exact H|].
  apply IH. destruct (row_at (parts td) l1); [|exact H]. destruct (row_at (parts td) l2); [|exact H].
  destruct (row_cmp (pkcols td) r r0); try exact H. apply Inv_swap_td. exact H.
Qed.

Lemma Inv_bubble n : forall td, Inv td -> Inv (bubble n td).
Proof. induction n as [|n IH]; intros td H; cbn; [exact H|]. apply IH. apply Inv_bubble_pass. exact H. Qed.

Lemma Inv_sort_rows td : Inv td -> Inv (sort_rows td).
Proof. apply Inv_bubble. Qed.

Lemma Inv_sort_secondary td td' : Inv td -> sort_secondary td = Ok td' -> Inv td'.
Proof.
  intros [OK W] H. unfold sort_secondary in H. destruct (existsb (stale_key td) (skeys td)); [discriminate|].
  injection H as <-. split; [exact OK|]. cbn. intros k d Hd. specialize (W _ _ Hd).
  destruct (mem_name (iname d) (skeys td)); [|exact W].
  destruct (def_keyed (defs td) (lower (iname d))); [|exact W].
  eapply wf_perm; [apply Permutation_sym; apply sort_entries_perm | exact W].
Qed.

Lemma Inv_apply_edits td dels adds td' :
  Inv td -> apply_fresh td dels adds = true -> apply_edits td dels adds = Ok td' -> Inv td'.
Proof.
  intros H F E. unfold apply_edits in E. pose proof (Inv_apply_rows _ _ _ H F) as H1.
  destruct (pkcols td).
  - eapply Inv_sort_secondary; [exact H1 | exact E].
  - eapply Inv_sort_secondary; [apply Inv_sort_rows; exact H1 | exact E].
Qed.

Lemma wf_empty d ps : (forall l, ~ valid ps l) -> wf d ps [].
Proof.
  intros NV. split; [constructor|]. split; [intros k l []|]. intros l V. exfalso. apply (NV l V).
Qed.

Lemma no_valid_truncated (ps : list (list row)) l : ~ valid (map (fun _ => @nil row) ps) l.
Proof.
  assert (E : forall n, nth n (map (fun _ : list row => @nil row) ps) [] = []).
  { induction ps as [|x t IH]; intros [|n]; cbn; auto. }
  unfold valid, part. intros H. rewrite E in H. cbn in H. lia.
Qed.

Lemma Inv_truncate td : defs_ok (defs td) -> Inv (truncate td).
Proof.
  intros OK. split; [exact OK|]. cbn. intros k d H. apply wf_empty. apply no_valid_truncated.
Qed.

Lemma defs_ok_add ds d : defs_ok ds -> def_keyed ds (lower (iname d)) = None -> defs_ok (ds ++ [(lower (iname d), d)]).
Proof.
  intros [N L] F. apply def_keyed_none in F. split.
  - rewrite map_app. cbn. apply NoDup_app_intro_c16; auto.
    + repeat constructor. intros [].
    + intros x Hx [<-|[]]. contradiction.
  - intros k d' H. apply in_app_or in H. destruct H as [H|[H|[]]]; [apply L; exact H|]. injection H as <- <-. reflexivity.
Qed.

Lemma defs_ok_filter ds f : defs_ok ds -> defs_ok (filter f ds).
Proof.
  intros [N L]. split.
  - clear L. induction ds as [|x t IH]; cbn; [constructor|]. cbn in N. inversion N as [|? ? NI N']; subst.
    destruct (f x); cbn; [constructor|]; auto. intros H. apply NI. apply in_map_iff in H.
    destruct H as (y & E & H). apply filter_In in H. destruct H as [H _]. apply in_map_iff. eauto.
  - intros k d H. apply filter_In in H. destruct H as [H _]. apply L. exact H.
Qed.

Lemma Inv_drop_index td nm : Inv td -> Inv (drop_index td nm).
Proof.
  intros [OK W]. unfold drop_index. destruct (def_keyed (defs td) (lower nm)) as [d|] eqn:F; [|split; assumption].
  apply def_keyed_some in F.
  split; cbn; [apply defs_ok_filter; exact OK|]. intros k d2 H. apply filter_In in H. destruct H as [H NE].
  cbn in NE. apply negb_true_iff in NE. apply name_eqb_neq in NE.
  destruct (name_eqb (iname d2) (iname d)) eqn:E.
  - exfalso. apply name_eqb_eq in E. apply NE. pose proof (defs_ok_names _ _ _ _ _ OK H F E) as EE. congruence.
  - apply (W _ _ H).
Qed.

Lemma Inv_create_index hp td d td' :
  Inv td -> step_ok hp td (OCreate d) = true -> create_index hp td d = Ok td' -> Inv td'.
Proof.
  intros [OK W] S E. unfold create_index in E. cbn in S.
  destruct (def_keyed (defs td) (lower (iname d))) eqn:F.
  - injection E as <-. split; assumption.
  - eapply Inv_apply_edits; [|exact S|exact E]. apply Inv_truncate. cbn. apply defs_ok_add; assumption.
Qed.

(* RENAME INDEX needs the stronger invariant of Store/C16IndexOrder.v (storage keys = index names); see Good_step *)
Definition op_not_rename (o : op) : bool := match o with ORename _ _ => false | _ => true end.

Theorem Inv_step hp td o td' :
  Inv td -> op_not_rename o = true -> step_ok hp td o = true -> step hp td o = Ok td' -> Inv td'.
Proof.
  intros H NR S E. destruct o as [dels adds| |d|nm|a b| |d]; cbn in E.
  - eapply Inv_apply_edits; [exact H | exact S | exact E].
  - injection E as <-. apply Inv_truncate. apply H.
  - eapply Inv_create_index; eassumption.
  - injection E as <-. apply Inv_drop_index. exact H.
  - discriminate.
  - injection E as <-. exact H.
  - discriminate.
Qed.

Theorem Inv_run hp h : forall td td',
  Inv td -> forallb op_not_rename h = true -> hist_ok hp td h = true -> run hp td h = Ok td' -> Inv td'.
Proof.
  induction h as [|o t IH]; intros td td' H NR S E; cbn in *.
  - injection E as <-. exact H.
  - apply andb_prop in S. destruct S as [S1 S2]. apply andb_prop in NR. destruct NR as [N1 N2].
    destruct (step hp td o) as [td1|] eqn:E1; [|discriminate].
    eapply IH; [eapply Inv_step; eassumption | exact N2 | exact S2 | exact E].
Qed.

Lemma Inv_init n pks : Inv (init n pks).
Proof.
  split; [split; [constructor | intros k d []]|]. intros k d [].
Qed.

(* ---------- index lookup = filtered scan ---------- *)
Definition rows_of_locs (ps : list (list row)) (ls : list loc) : list row :=
  flat_map (fun l => match row_at ps l with Some r => [r] | None => [] end) ls.

Lemma nth_error_enum {A} (rs : list A) :
  flat_map (fun i => match nth_error rs i with Some r => [r] | None => [] end) (seq 0 (length rs)) = rs.
Proof.
  induction rs as [|r t IH]; [reflexivity|]. cbn [length seq flat_map nth_error]. cbn [app]. f_equal.
  rewrite <- seq_shift, flat_map_concat_map, map_map, <- flat_map_concat_map. exact IH.
Qed.

Lemma rows_of_flat_locs_from ps : forall pre,
  rows_of_locs (pre ++ ps) (flat_locs_from ps (length pre)) = concat ps.
Proof.
  induction ps as [|rs t IH]; intros pre; [reflexivity|].
  cbn [flat_locs_from concat]. unfold rows_of_locs. rewrite flat_map_app. f_equal.
  - rewrite flat_map_concat_map, map_map, <- flat_map_concat_map.
    rewrite <- (nth_error_enum rs) at 2. apply flat_map_ext. intros i. unfold row_at, part. cbn [fst snd].
    rewrite app_nth2 by lia. rewrite Nat.sub_diag. reflexivity.
  - specialize (IH (pre ++ [rs])). rewrite <- app_assoc in IH. cbn [app] in IH.
    rewrite app_length in IH. cbn [length] in IH. rewrite Nat.add_1_r in IH. exact IH.
Qed.

Lemma rows_of_flat_locs ps : rows_of_locs ps (flat_locs ps) = concat ps.
Proof. exact (rows_of_flat_locs_from ps []). Qed.

Lemma in_flat_locs_from ps : forall p0 l,
  In l (flat_locs_from ps p0) <-> p0 <= fst l /\ snd l < length (nth (fst l - p0) ps []).
Proof.
  induction ps as [|rs t IH]; intros p0 [q i]; cbn [flat_locs_from fst snd].
  - split; [intros []|]. intros [_ H]. destruct (q - p0); cbn in H; lia.
  - rewrite in_app_iff, in_map_iff, IH. cbn [fst snd]. split.
    + intros [(j & E & H)|[H1 H2]].
      * injection E as <- <-. apply in_seq in H. rewrite Nat.sub_diag. cbn. lia.
      * split; [lia|]. replace (q - p0) with (S (q - S p0)) by lia. exact H2.
    + intros [H1 H2]. destruct (Nat.eq_dec q p0) as [->|NE].
      * left. exists i. split; [reflexivity|]. rewrite Nat.sub_diag in H2. cbn in H2. apply in_seq. lia.
      * right. split; [lia|]. replace (q - p0) with (S (q - S p0)) in H2 by lia. exact H2.
Qed.

Lemma in_flat_locs ps l : In l (flat_locs ps) <-> valid ps l.
Proof.
  unfold flat_locs. rewrite in_flat_locs_from. unfold valid, part. rewrite Nat.sub_0_r. split; [intros [_ H]; exact H|].
  intros H. split; [lia|exact H].
Qed.

Lemma NoDup_flat_locs_from ps : forall p0, NoDup (flat_locs_from ps p0).
Proof.
  induction ps as [|rs t IH]; intros p0; cbn [flat_locs_from]; [constructor|].
  apply NoDup_app_intro_c16.
  - apply FinFun.Injective_map_NoDup; [|apply seq_NoDup]. intros a b H. injection H. auto.
  - apply IH.
  - intros [q i] H1 H2. apply in_map_iff in H1. destruct H1 as (j & E & _). injection E as <- <-.
    apply in_flat_locs_from in H2. cbn in H2. lia.
Qed.

Lemma wf_locs_perm d ps es : wf d ps es -> Permutation (map snd es) (flat_locs ps).
Proof.
  intros (N & K & C). apply NoDup_Permutation; [exact N | apply NoDup_flat_locs_from|].
  intros l. rewrite in_flat_locs. split.
  - intros H. apply in_map_iff in H. destruct H as ([k l'] & E & H). cbn in E. subst l'.
    destruct (K _ _ H) as (r & Hr & _). eapply row_at_valid. exact Hr.
  - apply C.
Qed.

Definition lookup_locs (ps : list (list row)) (q : row -> bool) (ls : list loc) : list row :=
  flat_map (fun l => match row_at ps l with Some r => if q r then [r] else [] | None => [] end) ls.

Lemma lookup_locs_filter ps q ls : lookup_locs ps q ls = filter q (rows_of_locs ps ls).
Proof.
  induction ls as [|l t IH]; [reflexivity|]. unfold lookup_locs, rows_of_locs in *. cbn [flat_map].
  rewrite filter_app, <- IH. f_equal. destruct (row_at ps l) as [r|]; [|reflexivity]. cbn. destruct (q r); reflexivity.
Qed.

Theorem lookup_eq_scan td k d p :
  Inv td -> In (k, d) (defs td) ->
  Permutation (index_lookup td (iname d) p) (filter (fun r => p (key_of d r)) (all_rows td)).
Proof.
  intros [OK W] H. specialize (W _ _ H). unfold index_lookup, all_rows.
  set (q := fun r => p (key_of d r)). set (es := stor td (iname d)) in *.
  assert (E : flat_map (fun e => match row_at (parts td) (snd e) with
                                 | Some r => if p (fst e) then [r] else []
                                 | None => [] end) es
              = lookup_locs (parts td) q (map snd es)).
  { destruct W as (_ & K & _). unfold lookup_locs. rewrite flat_map_concat_map, (flat_map_concat_map _ (map snd es)), map_map.
    f_equal. apply map_ext_in. intros [k0 l] Hin. cbn [fst snd]. destruct (K _ _ Hin) as (r & Hr & ->). rewrite Hr. reflexivity. }
  rewrite E. rewrite <- rows_of_flat_locs, <- lookup_locs_filter.
  unfold lookup_locs. apply Permutation_flat_map. eapply wf_locs_perm. exact W.
Qed.
