(* C21 -- proofs: retained columns keep their (converted) values; failure has no effect; the row/schema
   invariant is preserved; sequences. *)
From Coq Require Import List NArith ZArith Bool Lia.
Import ListNotations.
From GMS Require Import Store.C21Alter.
Open Scope N_scope.

Lemma has_in n cs : has n cs = true <-> In n (map cn cs).
Proof.
  unfold has. rewrite existsb_exists. split.
  - intros [c [Hc E]]. apply N.eqb_eq in E. subst. apply in_map. exact Hc.
  - intro H. apply in_map_iff in H. destruct H as [c [E Hc]]. exists c. split; [exact Hc|]. apply N.eqb_eq. exact E.
Qed.

Lemma has_false n cs : has n cs = false <-> ~ In n (map cn cs).
Proof.
  rewrite <- has_in. destruct (has n cs); split; intro H.
  - discriminate.
  - exfalso. apply H. reflexivity.
  - intro; discriminate.
  - reflexivity.
Qed.

Lemma lookup_in n r : In n (map fst r) -> exists v, lookup n r = Some v.
Proof.
  induction r as [|[k v] r IH]; cbn; [intros []|]. intros [E|H].
  - subst. rewrite N.eqb_refl. eauto.
  - destruct (k =? n); eauto.
Qed.

Lemma lookup_some_in n r v : lookup n r = Some v -> In n (map fst r).
Proof.
  induction r as [|[k w] r IH]; cbn; [discriminate|]. destruct (N.eqb_spec k n); [left; assumption|right; auto].
Qed.

Lemma lookup_remove_neq n d r : n <> d -> lookup n (remove_key d r) = lookup n r.
Proof.
  intro H. induction r as [|[k v] r IH]; [reflexivity|].
  unfold remove_key in *. cbn [filter fst lookup].
  destruct (N.eqb_spec k d) as [->|Hk]; cbn [negb lookup].
  - assert (E : d =? n = false) by (apply N.eqb_neq; congruence). rewrite E. exact IH.
  - rewrite IH. reflexivity.
Qed.

Lemma keys_remove d r n : In n (map fst (remove_key d r)) <-> In n (map fst r) /\ n <> d.
Proof.
  unfold remove_key. rewrite !in_map_iff. split.
  - intros [[k v] [E H]]. apply filter_In in H. destruct H as [H1 H2]. cbn in *. subst.
    apply negb_true_iff, N.eqb_neq in H2. split; [exists (n, v); auto|exact H2].
  - intros [[[k v] [E H]] Hn]. cbn in E. subst. exists (n, v). split; [reflexivity|].
    apply filter_In. split; [exact H|]. cbn. apply negb_true_iff, N.eqb_neq. exact Hn.
Qed.

Lemma rename_key_cons a b k v r :
  rename_key a b ((k, v) :: r) = (if k =? a then (b, v) else (k, v)) :: rename_key a b r.
Proof. reflexivity. Qed.

Lemma lookup_rename_same a b r : ~ In b (map fst r) -> lookup b (rename_key a b r) = lookup a r.
Proof.
  induction r as [|[k v] r IH]; [reflexivity|]. intro H. rewrite rename_key_cons. cbn [lookup].
  destruct (N.eqb_spec k a) as [->|Hk]; cbn [lookup].
  - rewrite N.eqb_refl. reflexivity.
  - assert (E : k =? b = false) by (apply N.eqb_neq; intro; subst; apply H; left; reflexivity).
    rewrite E. apply IH. intro; apply H; right; assumption.
Qed.

Lemma lookup_rename_other n a b r : n <> a -> n <> b -> lookup n (rename_key a b r) = lookup n r.
Proof.
  intros Ha Hb. induction r as [|[k v] r IH]; [reflexivity|]. rewrite rename_key_cons. cbn [lookup].
  destruct (N.eqb_spec k a) as [->|Hk]; cbn [lookup].
  - assert (E1 : b =? n = false) by (apply N.eqb_neq; congruence).
    assert (E2 : a =? n = false) by (apply N.eqb_neq; congruence). rewrite E1, E2. exact IH.
  - rewrite IH. reflexivity.
Qed.

Lemma keys_rename a b r n :
  In n (map fst (rename_key a b r)) <-> (In n (map fst r) /\ n <> a) \/ (n = b /\ In a (map fst r)).
Proof.
  induction r as [|[k v] r IH]; [cbn; intuition|]. rewrite rename_key_cons. cbn [map fst In].
  destruct (N.eqb_spec k a) as [->|Hk]; cbn [fst]; rewrite IH; intuition (subst; auto; congruence).
Qed.

Lemma mapM_Forall2 {A B} (f : A -> option B) l l' : mapM f l = Some l' -> Forall2 (fun x y => f x = Some y) l l'.
Proof.
  revert l'. induction l as [|x l IH]; cbn; intros l' H.
  - injection H as <-. constructor.
  - destruct (f x) eqn:E; [|discriminate]. destruct (mapM f l) eqn:E2; [|discriminate].
    injection H as <-. constructor; [exact E|apply IH; reflexivity].
Qed.

Lemma Forall2_map_r {A B} (P : A -> B -> Prop) (g : A -> B) l : (forall x, In x l -> P x (g x)) -> Forall2 P l (map g l).
Proof.
  induction l as [|x l IH]; cbn; intro H; constructor; [apply H; left; reflexivity|apply IH; intros; apply H; right; assumption].
Qed.

Lemma Forall2_refl_in {A} (P : A -> A -> Prop) l : (forall x, In x l -> P x x) -> Forall2 P l l.
Proof.
  induction l as [|x l IH]; intro H; constructor; [apply H; left; reflexivity|apply IH; intros; apply H; right; assumption].
Qed.

Ltac case_if H :=
  match type of H with
  | (if ?b then _ else _) = _ => let E := fresh "Eg" in destruct b eqn:E; [|discriminate]
  end.

Definition col_rel (o : op) (t : table) (n n' : name) (r r' : row) : Prop :=
  exists v v', lookup n r = Some v /\ lookup n' r' = Some v' /\ convd o t n v = Some v'.

Lemma cn_eff t n c : cn (eff t n c) = cn c.
Proof. unfold eff. destruct (memb n (pk t)); reflexivity. Qed.

(* ---- the main single-statement theorem ---- *)
Theorem alter_preserves_retained o t t' n n' :
  inv t -> alter o t = Some t' -> In n (names t) -> retained o n = Some n' ->
  Forall2 (col_rel o t n n') (rows t) (rows t').
Proof.
  intros Hinv Ha Hn Hr. unfold inv in Hinv. rewrite Forall_forall in Hinv.
  assert (Hl : forall r, In r (rows t) -> exists v, lookup n r = Some v).
  { intros r Hr0. apply lookup_in. apply (Hinv r Hr0). exact Hn. }
  assert (Hsame : rows t' = rows t -> n' = n -> (forall v, convd o t n v = Some v) ->
                  Forall2 (col_rel o t n n') (rows t) (rows t')).
  { intros E1 E2 E3. rewrite E1, E2. apply Forall2_refl_in. intros r Hr0.
    destruct (Hl r Hr0) as [v Hv]. exists v, v. auto. }
  destruct o as [c fill p|d|m c0 p|a b|tn'| |ks|]; cbn [alter retained] in Ha, Hr.
  - (* add *)
    destruct (has (cn c) (cols t)) eqn:Hh; [discriminate|]. destruct (conv c fill) as [v0|]; [|discriminate].
    destruct (insert_col p c (cols t)); [|discriminate]. injection Ha as <-. injection Hr as <-. cbn [rows].
    apply Forall2_map_r. intros r Hr0. destruct (Hl r Hr0) as [v Hv]. exists v, v. split; [exact Hv|split; [|reflexivity]].
    cbn. apply has_false in Hh. assert (E : cn c =? n = false) by (apply N.eqb_neq; intro; subst; exact (Hh Hn)).
    rewrite E. exact Hv.
  - (* drop *)
    case_if Ha. injection Ha as <-. cbn [rows].
    destruct (N.eqb_spec n d) as [->|Hnd]; [discriminate|]. injection Hr as <-.
    apply Forall2_map_r. intros r Hr0. destruct (Hl r Hr0) as [v Hv]. exists v, v. split; [exact Hv|split; [|reflexivity]].
    rewrite lookup_remove_neq; assumption.
  - (* modify *)
    cbv zeta in Ha. rewrite <- (cn_eff t m c0) in Hr. set (c' := eff t m c0) in *.
    destruct (has m (cols t) && _) eqn:Hc; [|discriminate]. apply andb_prop in Hc. destruct Hc as [Hm Hc'].
    destruct (mapM (modify_row m c') (rows t)) as [rs|] eqn:Hmm; [|discriminate].
    destruct (new_cols m c' p (cols t)) as [cs|]; [|discriminate]. injection Ha as <-. cbn [rows].
    apply mapM_Forall2 in Hmm.
    assert (Hneq : n <> m -> n <> cn c').
    { intros Hnm E. apply orb_prop in Hc'. destruct Hc' as [H|H].
      - apply N.eqb_eq in H. congruence.
      - apply negb_true_iff, has_false in H. subst. exact (H Hn). }
    clear Hsame. induction Hmm as [|r r' l l' Hrr' Hmm IH]; constructor.
    + unfold modify_row in Hrr'. destruct (lookup m r) as [v|] eqn:Hv; [|discriminate].
      destruct (conv c' v) as [v'|] eqn:Hcv; [|discriminate]. injection Hrr' as <-.
      destruct (N.eqb_spec n m) as [->|Hnm].
      * injection Hr as <-. exists v, v'. split; [exact Hv|split; [cbn; rewrite N.eqb_refl; reflexivity|]].
        cbn. rewrite N.eqb_refl. exact Hcv.
      * injection Hr as <-. destruct (Hl r (or_introl eq_refl)) as [w Hw]. exists w, w. split; [exact Hw|split].
        -- cbn. assert (E : cn c' =? n = false) by (apply N.eqb_neq; intro E; symmetry in E; exact (Hneq Hnm E)).
           rewrite E. rewrite lookup_remove_neq; assumption.
        -- cbn. assert (E : n =? m = false) by (apply N.eqb_neq; exact Hnm). rewrite E. reflexivity.
    + apply IH; intros; [apply Hinv|apply Hl]; right; assumption.
  - (* rename column *)
    destruct (has a (cols t) && negb (has b (cols t))) eqn:Hc; [|discriminate]. apply andb_prop in Hc. destruct Hc as [Hha Hhb].
    apply negb_true_iff, has_false in Hhb. injection Ha as <-. cbn [rows].
    apply Forall2_map_r. intros r Hr0. destruct (Hl r Hr0) as [v Hv]. exists v, v.
    assert (Hb : ~ In b (map fst r)) by (intro H; apply Hhb; apply (Hinv r Hr0); exact H).
    destruct (N.eqb_spec n a) as [->|Hna]; injection Hr as <-; (split; [exact Hv|split; [|reflexivity]]).
    + rewrite lookup_rename_same; assumption.
    + rewrite lookup_rename_other; [exact Hv|exact Hna|intro; subst; exact (Hhb Hn)].
  - injection Ha as <-. injection Hr as <-. apply Hsame; reflexivity.
  - injection Ha as <-. injection Hr as <-. apply Hsame; reflexivity.
  - (* add primary key *)
    destruct (pk t); [|discriminate]. destruct ks as [|k ks]; [discriminate|].
    case_if Ha. injection Ha as <-. injection Hr as <-. apply Hsame; reflexivity.
  - destruct (pk t); [discriminate|]. injection Ha as <-. injection Hr as <-. apply Hsame; reflexivity.
Qed.

Lemma F2_length {A B} (P : A -> B -> Prop) l l' : Forall2 P l l' -> length l = length l'.
Proof. induction 1; cbn; congruence. Qed.

Theorem alter_keeps_row_count o t t' : alter o t = Some t' -> length (rows t') = length (rows t).
Proof.
  destruct o as [c fill p|d|m c0 p|a b|tn'| |ks|]; cbn [alter]; intro Ha.
  - destruct (has (cn c) (cols t)); [discriminate|]. destruct (conv c fill); [|discriminate].
    destruct (insert_col p c (cols t)); [|discriminate]. injection Ha as <-. cbn. apply map_length.
  - case_if Ha. injection Ha as <-. cbn. apply map_length.
  - cbv zeta in Ha. destruct (has m (cols t) && _); [|discriminate].
    destruct (mapM (modify_row m (eff t m c0)) (rows t)) as [rs|] eqn:Hmm; [|discriminate].
    apply mapM_Forall2 in Hmm. pose proof (F2_length _ _ _ Hmm) as HL.
    destruct (new_cols m (eff t m c0) p (cols t)); [|discriminate]. injection Ha as <-. cbn. lia.
  - destruct (has a (cols t) && negb (has b (cols t))); [|discriminate]. injection Ha as <-. cbn. apply map_length.
  - injection Ha as <-. reflexivity.
  - injection Ha as <-. reflexivity.
  - destruct (pk t); [|discriminate]. destruct ks; [discriminate|]. case_if Ha.
    injection Ha as <-. reflexivity.
  - destruct (pk t); [discriminate|]. injection Ha as <-. reflexivity.
Qed.

(* ---- the invariant is preserved, hence sequences ---- *)

Lemma insert_after_names a c cs l n :
  insert_after a c cs = Some l -> (In n (map cn l) <-> n = cn c \/ In n (map cn cs)).
Proof.
  revert l. induction cs as [|x cs IH]; cbn; intros l H; [discriminate|].
  destruct (cn x =? a).
  - injection H as <-. cbn. (intuition (subst; auto; congruence)).
  - destruct (insert_after a c cs) as [l0|]; [|discriminate]. injection H as <-. cbn. rewrite (IH l0 eq_refl). (intuition (subst; auto; congruence)).
Qed.

Lemma insert_col_names p c cs l n :
  insert_col p c cs = Some l -> (In n (map cn l) <-> n = cn c \/ In n (map cn cs)).
Proof.
  destruct p; cbn; intro H.
  - injection H as <-. rewrite map_app, in_app_iff. cbn. (intuition (subst; auto; congruence)).
  - injection H as <-. cbn. split; [intros [E|E]; auto|intros [E|E]; auto].
  - apply (insert_after_names a c cs l n H).
  - injection H as <-. rewrite map_app, in_app_iff. cbn. (intuition (subst; auto; congruence)).
Qed.

Lemma remove_col_names m cs n : In n (map cn (remove_col m cs)) <-> In n (map cn cs) /\ n <> m.
Proof.
  unfold remove_col. rewrite !in_map_iff. split.
  - intros [c [E H]]. apply filter_In in H. destruct H as [H1 H2]. apply negb_true_iff, N.eqb_neq in H2.
    subst. split; [exists c; auto|exact H2].
  - intros [[c [E H]] Hn]. exists c. split; [exact E|]. apply filter_In. split; [exact H|].
    apply negb_true_iff, N.eqb_neq. congruence.
Qed.

Lemma replace_col_names m c' cs n :
  In n (map cn (replace_col m c' cs)) <-> (In n (map cn cs) /\ n <> m) \/ (n = cn c' /\ In m (map cn cs)).
Proof.
  induction cs as [|x cs IH]; cbn; [(intuition (subst; auto; congruence))|].
  destruct (N.eqb_spec (cn x) m) as [E|E]; cbn; rewrite IH; split; intro H.
  - destruct H as [H|[[H1 H2]|[H1 H2]]]; auto.
  - destruct H as [[[H|H] H2]|[H1 [H|H]]]; subst; auto; try congruence.
  - destruct H as [H|[[H1 H2]|[H1 H2]]]; auto. left. split; auto. congruence.
  - destruct H as [[[H|H] H2]|[H1 [H|H]]]; subst; auto; try congruence.
Qed.

Lemma rename_col_names a b cs n :
  In n (map cn (map (fun c => if cn c =? a then mkc b (cty c) (cnullable c) else c) cs)) <->
  (In n (map cn cs) /\ n <> a) \/ (n = b /\ In a (map cn cs)).
Proof.
  induction cs as [|x cs IH]; cbn; [(intuition (subst; auto; congruence))|].
  destruct (N.eqb_spec (cn x) a) as [E|E]; cbn; rewrite IH; split; intro H.
  - destruct H as [H|[[H1 H2]|[H1 H2]]]; auto.
  - destruct H as [[[H|H] H2]|[H1 [H|H]]]; subst; auto; try congruence.
  - destruct H as [H|[[H1 H2]|[H1 H2]]]; auto. left. split; auto. congruence.
  - destruct H as [[[H|H] H2]|[H1 [H|H]]]; subst; auto; try congruence.
Qed.

Lemma new_cols_names m c' p cs l n :
  new_cols m c' p cs = Some l -> In m (map cn cs) ->
  (In n (map cn l) <-> n = cn c' \/ (In n (map cn cs) /\ n <> m)).
Proof.
  intros H Hm. destruct p; cbn [new_cols] in H;
    try (rewrite (insert_col_names _ c' _ l n H), remove_col_names; (intuition (subst; auto; congruence))).
  injection H as <-. rewrite replace_col_names. (intuition (subst; auto; congruence)).
Qed.

Lemma setnn_names (f : col -> bool) cs : map cn (map (fun c => if f c then mkc (cn c) (cty c) false else c) cs) = map cn cs.
Proof. induction cs as [|c cs IH]; [reflexivity|]. cbn. rewrite IH. destruct (f c); reflexivity. Qed.

Theorem alter_preserves_inv o t t' : inv t -> alter o t = Some t' -> inv t'.
Proof.
  unfold inv. intros Hinv Ha. rewrite Forall_forall in *.
  destruct o as [c fill p|d|m c0 p|a b|tn'| |ks|]; cbn [alter] in Ha.
  - destruct (has (cn c) (cols t)); [discriminate|]. destruct (conv c fill) as [v0|]; [|discriminate].
    destruct (insert_col p c (cols t)) as [cs|] eqn:Hi; [|discriminate]. injection Ha as <-. unfold names in *; cbn [rows cols].
    intros r Hr n. apply in_map_iff in Hr. destruct Hr as [r0 [<- Hr0]]. cbn [map fst].
    rewrite (insert_col_names p c (cols t) cs n Hi). cbn. rewrite (Hinv r0 Hr0 n). unfold names. split; intros [E|E]; auto.
  - case_if Ha. injection Ha as <-. unfold names in *; cbn [rows cols].
    intros r Hr n. apply in_map_iff in Hr. destruct Hr as [r0 [<- Hr0]].
    rewrite keys_remove, remove_col_names. rewrite (Hinv r0 Hr0 n). reflexivity.
  - cbv zeta in Ha. set (c' := eff t m c0) in *.
    destruct (has m (cols t) && _) eqn:Hc; [|discriminate]. apply andb_prop in Hc. destruct Hc as [Hm _].
    apply has_in in Hm.
    destruct (mapM (modify_row m c') (rows t)) as [rs|] eqn:Hmm; [|discriminate]. apply mapM_Forall2 in Hmm.
    destruct (new_cols m c' p (cols t)) as [cs|] eqn:Hnc; [|discriminate]. injection Ha as <-. unfold names in *; cbn [rows cols].
    assert (Hrs : forall r', In r' rs -> forall n, In n (map fst r') <-> n = cn c' \/ (In n (map cn (cols t)) /\ n <> m)).
    { clear Hnc. induction Hmm as [|r r' l l' Hrr' Hmm IH]; [intros ? []|]. intros r0 [<-|Hr0] n.
      - unfold modify_row in Hrr'. destruct (lookup m r); [|discriminate]. destruct (conv c' v); [|discriminate].
        injection Hrr' as <-. cbn [map fst]. cbn. rewrite keys_remove. rewrite (Hinv r (or_introl eq_refl) n). split; intros [E|E]; auto.
      - apply IH; [intros; apply Hinv; right; assumption|exact Hr0]. }
    intros r Hr n. rewrite (Hrs r Hr n). rewrite (new_cols_names m c' p (cols t) cs n Hnc Hm). reflexivity.
  - destruct (has a (cols t) && negb (has b (cols t))); [|discriminate]. injection Ha as <-. unfold names in *; cbn [rows cols].
    intros r Hr n. apply in_map_iff in Hr. destruct Hr as [r0 [<- Hr0]].
    rewrite keys_rename, rename_col_names. rewrite !(Hinv r0 Hr0). reflexivity.
  - injection Ha as <-. exact Hinv.
  - injection Ha as <-. exact Hinv.
  - destruct (pk t); [|discriminate]. destruct ks as [|k ks]; [discriminate|]. case_if Ha.
    injection Ha as <-. unfold names in *; cbn [rows cols]. rewrite setnn_names. exact Hinv.
  - destruct (pk t); [discriminate|]. injection Ha as <-. exact Hinv.
Qed.

(* ---- the corrupting failure keeps keys, row count and every other column ---- *)
Lemma keys_set_key n v r : map fst (set_key n v r) = map fst r.
Proof.
  induction r as [|[k w] r IH]; [reflexivity|]. unfold set_key in *. cbn [map fst]. rewrite IH.
  destruct (N.eqb_spec k n); cbn [fst]; congruence.
Qed.

Lemma set_key_cons n v k w r : set_key n v ((k, w) :: r) = (if k =? n then (n, v) else (k, w)) :: set_key n v r.
Proof. reflexivity. Qed.

Lemma lookup_set_key_other m n v r : m <> n -> lookup m (set_key n v r) = lookup m r.
Proof.
  intro H. induction r as [|[k w] r IH]; [reflexivity|]. rewrite set_key_cons.
  destruct (N.eqb_spec k n) as [->|Hk]; cbn [lookup].
  - assert (E : n =? m = false) by (apply N.eqb_neq; congruence). rewrite E. exact IH.
  - rewrite IH. reflexivity.
Qed.

Lemma corrupt_rows_spec n b old new rs :
  length (corrupt_rows n b old new rs) = length rs /\
  Forall2 (fun r r' => map fst r' = map fst r /\ forall m, m <> n -> lookup m r' = lookup m r) rs (corrupt_rows n b old new rs).
Proof.
  assert (Hrefl : forall l : list row,
            Forall2 (fun r r' => map fst r' = map fst r /\ forall m, m <> n -> lookup m r' = lookup m r) l l).
  { induction l; constructor; auto. }
  induction rs as [|r rs [IH1 IH2]]; [split; [reflexivity|constructor]|].
  cbn [corrupt_rows]. destruct (lookup n r) as [[|z|s|u sc|tm]|]; try (split; [reflexivity|apply Hrefl]).
  - destruct b; [|split; [reflexivity|apply Hrefl]]. cbn [length]. split; [congruence|]. constructor; auto.
  - destruct (index_of_b s new 0) as [j|]; [|split; [reflexivity|apply Hrefl]]. cbn [length]. split; [congruence|].
    constructor; [|exact IH2]. split; [apply keys_set_key|]. intros m Hm. apply lookup_set_key_other. exact Hm.
Qed.

Lemma corrupt_cases o t :
  corrupt o t = t \/
  exists n c0 p b old new, o = OModify n c0 p /\
    corrupt o t = mkt (tn t) (cols t) (pk t) (corrupt_rows n b old new (rows t)).
Proof.
  destruct o as [c fill p|d|m c0 p|a b|tn'| |ks|]; try (left; reflexivity).
  cbn [corrupt]. cbv zeta. destruct (has m (cols t) && _); [|left; reflexivity].
  destruct (find_col m (cols t)) as [oc|]; [|left; reflexivity].
  destruct (new_cols m (eff t m c0) p (cols t)) as [cs|]; [|left; reflexivity].
  destruct (cty oc); try (left; reflexivity). destruct (cty (eff t m c0)); try (left; reflexivity).
  destruct (_ || _ || _); [|left; reflexivity].
  right. do 6 eexists. split; reflexivity.
Qed.

Theorem corrupt_preserves_inv o t : inv t -> inv (corrupt o t).
Proof.
  intro H. destruct (corrupt_cases o t) as [->|[n [c0 [p [b [old [new [_ ->]]]]]]]]; [exact H|].
  unfold inv in *. unfold names in *. cbn [rows cols].
  destruct (corrupt_rows_spec n b old new (rows t)) as [_ HF].
  induction HF as [|r r' l l' [Hk _] HF IH]; [constructor|].
  inversion H as [|? ? Hr Hl]; subst. constructor; [|apply IH; exact Hl].
  intro m. rewrite Hk. apply Hr.
Qed.

Theorem exec_preserves_inv o t : inv t -> inv (exec o t).
Proof.
  intro H. unfold exec. destruct (alter o t) eqn:E; [exact (alter_preserves_inv o t t0 H E)|exact (corrupt_preserves_inv o t H)].
Qed.

Lemma corrupt_row_count o t : length (rows (corrupt o t)) = length (rows t).
Proof.
  destruct (corrupt_cases o t) as [->|[n [c0 [p [b [old [new [_ ->]]]]]]]]; [reflexivity|].
  cbn [rows]. apply corrupt_rows_spec.
Qed.

Theorem exec_seq_inv_rows os : forall t, inv t -> inv (exec_seq os t) /\ length (rows (exec_seq os t)) = length (rows t).
Proof.
  induction os as [|o os IH]; intros t H; [cbn; auto|].
  change (exec_seq (o :: os) t) with (exec_seq os (exec o t)).
  destruct (IH (exec o t) (exec_preserves_inv o t H)) as [H1 H2]. split; [exact H1|]. rewrite H2.
  unfold exec. destruct (alter o t) eqn:E; [apply (alter_keeps_row_count o t t0 E)|apply corrupt_row_count].
Qed.

(* a failed statement has no effect -- except the ENUM redefinition above *)
Definition not_enum_modify (o : op) (t : table) : bool :=
  match o with
  | OModify n _ _ => match find_col n (cols t) with
                     | Some oc => match cty oc with TEnum _ => false | _ => true end
                     | None => true
                     end
  | _ => true
  end.

Theorem failed_alter_no_effect o t : not_enum_modify o t = true -> alter o t = None -> exec o t = t.
Proof.
  intros Hg H. unfold exec. rewrite H.
  destruct o as [c fill p|d|m c0 p|a b|tn'| |ks|]; try reflexivity.
  cbn [corrupt not_enum_modify] in *. cbv zeta. destruct (has m (cols t) && _); [|reflexivity].
  destruct (find_col m (cols t)) as [oc|]; [|reflexivity].
  destruct (new_cols m (eff t m c0) p (cols t)); [|reflexivity].
  destruct (cty oc); try reflexivity. discriminate.
Qed.

(* a column that no statement of the sequence drops, modifies or renames keeps its values *)
Definition touches (o : op) (n : name) : bool :=
  match o with
  | ODrop d => n =? d
  | OModify m c' _ => (n =? m) || (n =? cn c')
  | ORename a b => (n =? a) || (n =? b)
  | OAdd c _ _ => n =? cn c
  | _ => false
  end.

Definition column (t : table) (n : name) : list (option val) := map (lookup n) (rows t).

Lemma setnn_in (f : col -> bool) cs n : In n (map cn (map (fun c => if f c then mkc (cn c) (cty c) false else c) cs)) <-> In n (map cn cs).
Proof. rewrite setnn_names. reflexivity. Qed.

Lemma exec_untouched o t n : inv t -> In n (names t) -> touches o n = false ->
  column (exec o t) n = column t n /\ In n (names (exec o t)).
Proof.
  intros Hinv Hn Ht. unfold exec. destruct (alter o t) as [t'|] eqn:Ha.
  2:{ destruct (corrupt_cases o t) as [->|[m [c0 [p [b [old [new [-> ->]]]]]]]]; [auto|].
      split; [|exact Hn]. unfold column. cbn [rows]. cbn in Ht. apply orb_false_elim in Ht. destruct Ht as [E _].
      apply N.eqb_neq in E. destruct (corrupt_rows_spec m b old new (rows t)) as [_ HF].
      induction HF as [|r r' l l' [_ Hk] HF IH]; [reflexivity|]. cbn. rewrite IH. rewrite (Hk n E). reflexivity. }
  assert (Hr : retained o n = Some n).
  { destruct o; cbn in *; try reflexivity.
    - rewrite Ht. reflexivity.
    - apply orb_false_elim in Ht. destruct Ht as [-> _]. reflexivity.
    - apply orb_false_elim in Ht. destruct Ht as [-> _]. reflexivity. }
  pose proof (alter_preserves_retained o t t' n n Hinv Ha Hn Hr) as H. split.
  - unfold column. induction H as [|r r' l l' [v [v' [H1 [H2 H3]]]] H IH]; [reflexivity|]. cbn. rewrite IH. f_equal.
    rewrite H1, H2. f_equal.
    destruct o; cbn in H3; try congruence.
    apply orb_false_elim in Ht. destruct Ht as [E _]. rewrite E in H3. congruence.
  - destruct o as [c fill p|d|m c0 p|a b|tn'| |ks|]; cbn [alter touches] in Ha, Ht.
    + destruct (has (cn c) (cols t)); [discriminate|]. destruct (conv c fill); [|discriminate].
      destruct (insert_col p c (cols t)) as [cs|] eqn:Hi; [|discriminate]. injection Ha as <-. unfold names. cbn [cols].
      apply (insert_col_names p c (cols t) cs n Hi). right. exact Hn.
    + case_if Ha. injection Ha as <-. unfold names. cbn [cols].
      apply remove_col_names. split; [exact Hn|]. apply N.eqb_neq. exact Ht.
    + cbv zeta in Ha. apply orb_false_elim in Ht. destruct Ht as [E1 E2]. apply N.eqb_neq in E1.
      destruct (has m (cols t) && _) eqn:Hc; [|discriminate]. apply andb_prop in Hc. destruct Hc as [Hm _]. apply has_in in Hm.
      destruct (mapM (modify_row m (eff t m c0)) (rows t)); [|discriminate].
      destruct (new_cols m (eff t m c0) p (cols t)) as [cs|] eqn:Hnc; [|discriminate]. injection Ha as <-. unfold names. cbn [cols].
      apply (new_cols_names m _ p (cols t) cs n Hnc Hm). right. split; assumption.
    + apply orb_false_elim in Ht. destruct Ht as [E1 E2]. apply N.eqb_neq in E1.
      destruct (has a (cols t) && negb (has b (cols t))); [|discriminate]. injection Ha as <-. unfold names. cbn [cols].
      apply rename_col_names. left. split; assumption.
    + injection Ha as <-. exact Hn.
    + injection Ha as <-. exact Hn.
    + destruct (pk t); [|discriminate]. destruct ks; [discriminate|]. case_if Ha.
      injection Ha as <-. unfold names. cbn [cols]. apply setnn_in. exact Hn.
    + destruct (pk t); [discriminate|]. injection Ha as <-. exact Hn.
Qed.

Theorem untouched_column_unchanged os : forall t n,
  inv t -> In n (names t) -> forallb (fun o => negb (touches o n)) os = true ->
  column (exec_seq os t) n = column t n.
Proof.
  induction os as [|o os IH]; intros t n Hinv Hn Ht; [reflexivity|]. cbn in Ht. apply andb_prop in Ht.
  destruct Ht as [H1 H2]. apply negb_true_iff in H1.
  change (exec_seq (o :: os) t) with (exec_seq os (exec o t)).
  destruct (exec_untouched o t n Hinv Hn H1) as [E Hn'].
  rewrite (IH (exec o t) n (exec_preserves_inv o t Hinv) Hn' H2). exact E.
Qed.

Theorem modify_representable n c0 p t t' :
  inv t -> alter (OModify n c0 p) t = Some t' -> In n (names t) ->
  Forall (fun r => exists v v', lookup n r = Some v /\ conv (eff t n c0) v = Some v') (rows t).
Proof.
  intros Hi Ha Hn.
  assert (Hr : retained (OModify n c0 p) n = Some (cn c0)) by (cbn; rewrite N.eqb_refl; reflexivity).
  pose proof (alter_preserves_retained (OModify n c0 p) t t' n (cn c0) Hi Ha Hn Hr) as H.
  induction H as [|r r' l l' [v [v' [H1 [_ H3]]]] _ IH]; constructor; [|exact IH].
  cbn in H3. rewrite N.eqb_refl in H3. exists v, v'. auto.
Qed.

(* ---- primary keys ---- *)
Theorem add_pk_spec ks t t' :
  alter (OAddPK ks) t = Some t' ->
  rows t' = rows t /\ pk t' = ks /\ pk t = [] /\
  distinct_keys (map (key_of ks) (rows t)) = true /\
  forallb (fun r => forallb (fun k => non_null (lookup k r)) ks) (rows t) = true.
Proof.
  cbn [alter]. destruct (pk t); [|discriminate]. destruct ks as [|k ks]; [discriminate|].
  destruct (_ && _ && _ && _) eqn:E; [|discriminate]. intro H. injection H as <-. cbn [rows pk].
  apply andb_prop in E. destruct E as [E E4]. apply andb_prop in E. destruct E as [_ E3]. auto.
Qed.

Theorem drop_pk_spec t t' : alter ODropPK t = Some t' -> rows t' = rows t /\ cols t' = cols t /\ pk t' = [].
Proof. cbn [alter]. destruct (pk t); [discriminate|]. intro H. injection H as <-. auto. Qed.

(* ---- conversions: exact when representable ---- *)
Lemma pow10_pos n : (0 < pow10 n)%Z.
Proof. unfold pow10. apply Z.pow_pos_nonneg; lia. Qed.

Theorem conv_int_to_dec_exact c z u s : conv c (VInt z) = Some (VDec u s) -> u = (z * pow10 s)%Z.
Proof.
  cbn [conv]. destruct (cty c) as [lo hi|n k|ms|p sc| |]; try discriminate.
  - destruct ((lo <=? z)%Z && (z <=? hi)%Z); discriminate.
  - cbv zeta. destruct (fits_dec (z * pow10 sc) p); [|discriminate]. intro H. inversion H; subst. reflexivity.
Qed.

(* widening the scale keeps the number: u' * 10^-s = u * 10^-s0 *)
Theorem conv_dec_widen_exact c u s0 u' s :
  conv c (VDec u s0) = Some (VDec u' s) -> s0 <= s -> (u' * pow10 s0 = u * pow10 s)%Z.
Proof.
  cbn [conv]. destruct (cty c) as [lo hi|n k|ms|p sc| |]; try discriminate.
  - cbv zeta. destruct ((lo =? 0)%Z && (hi =? 18446744073709551615)%Z && (u <? 0)%Z); [discriminate|].
    destruct ((lo <=? rescale u s0 0)%Z && (rescale u s0 0 <=? hi)%Z); discriminate.
  - cbv zeta. destruct (fits_dec (rescale u s0 sc) p); [|discriminate]. intros H Hs. inversion H; subst. unfold rescale.
    apply N.leb_le in Hs. rewrite Hs. apply N.leb_le in Hs. unfold pow10.
    replace (Z.of_N s) with (Z.of_N (s - s0) + Z.of_N s0)%Z by lia.
    rewrite Z.pow_add_r by lia. ring.
Qed.

(* narrowing the scale rounds to a nearest value: |u' * 10^(s0-s) - u| * 2 <= 10^(s0-s) *)
Lemma rdiv_nearest a b : (0 < b)%Z -> (Z.abs (rdiv a b * b - a) * 2 <= b)%Z.
Proof.
  intro Hb. unfold rdiv. pose proof (Z.div_mod (2 * Z.abs a + b) (2 * b) ltac:(lia)) as E.
  pose proof (Z.mod_pos_bound (2 * Z.abs a + b) (2 * b) ltac:(lia)) as B.
  set (q := ((2 * Z.abs a + b) / (2 * b))%Z) in *. set (r := ((2 * Z.abs a + b) mod (2 * b))%Z) in *.
  destruct (Z.sgn_spec a) as [[Ha ->]|[[Ha ->]|[Ha ->]]]; nia.
Qed.

Theorem conv_dec_narrow_nearest c u s0 u' s :
  conv c (VDec u s0) = Some (VDec u' s) -> s < s0 -> (Z.abs (u' * pow10 (s0 - s) - u) * 2 <= pow10 (s0 - s))%Z.
Proof.
  cbn [conv]. destruct (cty c) as [lo hi|n k|ms|p sc| |]; try discriminate.
  - cbv zeta. destruct ((lo =? 0)%Z && (hi =? 18446744073709551615)%Z && (u <? 0)%Z); [discriminate|].
    destruct ((lo <=? rescale u s0 0)%Z && (rescale u s0 0 <=? hi)%Z); discriminate.
  - cbv zeta. destruct (fits_dec (rescale u s0 sc) p); [|discriminate]. intros H Hs. inversion H; subst. unfold rescale.
    assert (E : s0 <=? s = false) by (apply N.leb_gt; exact Hs). rewrite E.
    apply rdiv_nearest. apply pow10_pos.
Qed.

(* DATE -> DATETIME keeps the instant; DATETIME -> DATE keeps the day (exactly the value when it is a midnight) *)
Theorem conv_to_datetime_exact c t v : cty c = TDatetime -> conv c (VTime t) = Some v -> v = VTime t.
Proof. intros E. cbn. rewrite E. congruence. Qed.

Theorem conv_to_date_day c t v :
  cty c = TDate -> conv c (VTime t) = Some v ->
  exists d, v = VTime d /\ (d mod 86400 = 0 /\ d <= t < d + 86400)%Z /\ ((t mod 86400 = 0)%Z -> d = t).
Proof.
  intros E. cbn. rewrite E. intro H. injection H as <-. eexists. split; [reflexivity|].
  pose proof (Z.mod_pos_bound t 86400 ltac:(lia)) as B. pose proof (Z.div_mod t 86400 ltac:(lia)) as D.
  split; [split|].
  - replace (t - t mod 86400)%Z with (86400 * (t / 86400))%Z by lia. rewrite Z.mul_comm. apply Z.mod_mul. lia.
  - lia.
  - intro H0. lia.
Qed.

(* a collation change (or any MODIFY to a VARCHAR definition) keeps the bytes of every string *)
Theorem conv_to_varchar_keeps_bytes c s v n k : cty c = TStr n k -> conv c (VStr s) = Some v -> v = VStr s.
Proof. intros E. cbn. rewrite E. destruct (_ <=? _); congruence. Qed.

(* an ENUM redefinition keeps the member string *)
Theorem conv_to_enum_keeps_member c s v ms : cty c = TEnum ms -> conv c (VStr s) = Some v -> v = VStr s /\ existsb (bytes_eqb s) ms = true.
Proof. intros E. cbn. rewrite E. destruct (existsb _ _); [|discriminate]. intro H. injection H as <-. auto. Qed.
