(* C15 — model of the statement protocol of a table editor (go-mysql-server).

   Mirrors  sql/plan/table_editor.go : TableEditorIter.Next (StatementBegin once, then one inner Next per row),
                                       TableEditorIter.Close (DiscardChanges on a non-ignorable error, else
                                       StatementComplete; then the inner Close, which reaches tableEditor.Close),
            memory/table_editor.go   : tableEditor.StatementBegin (initialTable = editedTable.copy()),
                                       Insert/Update/Delete (accumulate an edit or return an error; under tag verif the
                                       n-th call can be made to fail), DiscardChanges (clear the accumulator; unless
                                       the error is ignorable: restore the data and set discardChanges),
                                       StatementComplete (ApplyEdits; when that fails the error is returned, nothing is
                                       cleared or published), Close (publish the snapshot when discardChanges,
                                       else ApplyEdits + publish),
            sql/rowexec (triggers)   : a BEFORE INSERT trigger body runs, per row, as its own complete statement on
                                       the other table before the row reaches the editor; triggerRollbackIter asks
                                       the session for a savepoint, which memory.Session refuses with an error.

   The table data (rows AND index storage, C16) is an abstract type [T]; an accumulated edit is an abstract [E];
   [apply] is ApplyEdits (total) or [apply_opt] (may fail, leaving a partially edited table). *)
From Coq Require Import List Bool Arith.
Import ListNotations.

Section Editor.
Variable T : Type.
Variable E : Type.
Variable apply_opt : nat -> T -> list E -> option T * T.
(* [apply_opt n t es]: the n-th ApplyEdits call of the statement (1 = StatementComplete, 2 = Close) on data [t] with the
   pending edits [es]: (Some result | None = error, data as ApplyEdits left it).  The call number lets a one-shot
   storage fault (memory.VerifC15ResetApplyFault n) be expressed. *)

(* the outcome of the k-th row-edit call of the statement *)
Inductive call :=
| CGood (e : E)               (* the call accumulates its edit *)
| CBad (ignorable : bool)     (* the call returns an error that reaches the statement iterator *)
| CHandled                    (* the call returns an error the ROW iterator handles itself (the rejected insert of
                                 INSERT .. ON DUPLICATE KEY UPDATE / REPLACE): nothing accumulated, the loop goes on *)
| CFlush.                     (* tableEditor.IndexedAccess in the middle of the statement (self-referential foreign
                                 key lookups): ApplyEdits + Clear on the edited table, in place *)

Record editor := {
  edited : T;            (* editedTable.data / the accumulator's tableData *)
  initial : T;           (* initialTable.data *)
  acc : list E;          (* pending adds / deletes *)
  discard : bool;        (* discardChanges *)
  published : T          (* what the session holds (sess.putTable) *)
}.

Definition open_editor (t : T) : editor :=
  {| edited := t; initial := t; acc := []; discard := false; published := t |}.

Definition statement_begin (ed : editor) : editor :=
  {| edited := edited ed; initial := edited ed; acc := acc ed; discard := discard ed; published := published ed |}.

Definition accumulate (ed : editor) (e : E) : editor :=
  {| edited := edited ed; initial := initial ed; acc := acc ed ++ [e]; discard := discard ed; published := published ed |}.

Definition discard_changes (ed : editor) (ignorable : bool) : editor :=
  if ignorable
  then {| edited := edited ed; initial := initial ed; acc := []; discard := discard ed; published := published ed |}
  else {| edited := initial ed; initial := initial ed; acc := []; discard := true; published := published ed |}.

(* StatementComplete: ApplyEdits, Clear, publish; an ApplyEdits failure is RETURNED (since /repo 647a7064d; it used to
   be swallowed) with the accumulator left as it is.  The accumulator edits the session's TableData object in place
   (sess.editAccumulator is built over sess.tableData), so a failed ApplyEdits is visible as it was left. *)
Definition statement_complete_at (n : nat) (ed : editor) : bool * editor :=
  match apply_opt n (edited ed) (acc ed) with
  | (Some t, _) => (false, {| edited := t; initial := initial ed; acc := []; discard := discard ed; published := t |})
  | (None, t) => (true, {| edited := t; initial := initial ed; acc := acc ed; discard := discard ed; published := t |})
  end.

Definition statement_complete (ed : editor) : bool * editor := statement_complete_at 1 ed.

(* tableEditor.Close: error flag, editor *)
Definition close_editor_at (n : nat) (ed : editor) : bool * editor :=
  if discard ed
  then (false, {| edited := edited ed; initial := initial ed; acc := acc ed; discard := true; published := initial ed |})
  else match apply_opt n (edited ed) (acc ed) with
       | (Some t, _) => (false, {| edited := t; initial := initial ed; acc := []; discard := false; published := t |})
       | (None, t) => (true, {| edited := t; initial := initial ed; acc := acc ed; discard := false; published := t |})
       end.

Definition close_editor (ed : editor) : bool * editor := close_editor_at 2 ed.

(* IndexedAccess: ApplyEdits (call number 0: not one of the two statement-level calls) and Clear; the accumulator
   works on the session's TableData, so the result is what the session holds *)
Definition flush (ed : editor) : editor :=
  match apply_opt 0 (edited ed) (acc ed) with
  | (Some t, _) => {| edited := t; initial := initial ed; acc := []; discard := discard ed; published := t |}
  | (None, t) => {| edited := t; initial := initial ed; acc := acc ed; discard := discard ed; published := t |}
  end.

(* the row loop: stop at the first call that returns an error *)
Fixpoint feed (ed : editor) (cs : list call) : editor * option bool :=
  match cs with
  | [] => (ed, None)
  | CGood e :: t => feed (accumulate ed e) t
  | CHandled :: t => feed ed t
  | CFlush :: t => feed (flush ed) t
  | CBad ig :: _ => (ed, Some ig)
  end.

Inductive result := ROk | RErr.

(* one statement through TableEditorIter: returns the reported result and what the session holds afterwards.
   Close: DiscardChanges on a non-ignorable error of the row loop, else StatementComplete (its error is reported);
   in every case the inner Close follows and reaches tableEditor.Close (which re-runs ApplyEdits unless discarding) *)
Definition run_stmt (t : T) (cs : list call) : result * T :=
  let ed0 := statement_begin (open_editor t) in
  let '(ed1, err) := feed ed0 cs in
  match err with
  | Some false => let '(_, ed3) := close_editor (discard_changes ed1 false) in (RErr, published ed3)
  | Some true => let '(_, ed2) := statement_complete ed1 in
                 let '(_, ed3) := close_editor ed2 in (RErr, published ed3)
  | None => let '(serr, ed2) := statement_complete ed1 in
            let '(cerr, ed3) := close_editor ed2 in
            ((if serr || cerr then RErr else ROk), published ed3)
  end.

Definition good_edits (cs : list call) : list E :=
  flat_map (fun c => match c with CGood e => [e] | _ => [] end) cs.

(* no call returns an error to the statement iterator *)
Definition all_good (cs : list call) : bool := forallb (fun c => match c with CBad _ => false | _ => true end) cs.

(* ---- CheckpointingTableEditorIter (INSERT IGNORE): StatementBegin / StatementComplete around EVERY row; an
   ignorable error discards that row only and the loop goes on; any other error discards that row and stops ---- *)
(* [n] numbers the ApplyEdits calls of the whole statement (one per completed row, then the one in Close).  A
   StatementComplete error is returned by Next like a row error, but nothing is discarded *)
Fixpoint feed_ckpt (ed : editor) (n : nat) (cs : list call) : editor * option bool * nat :=
  match cs with
  | [] => (ed, None, n)
  | c :: t =>
      let ed0 := statement_begin ed in
      let complete (e0 : editor) :=
        let '(serr, ed1) := statement_complete_at n e0 in
        if serr then (ed1, Some false, S n) else feed_ckpt ed1 (S n) t in
      match c with
      | CGood e => complete (accumulate ed0 e)
      | CHandled => complete ed0
      | CFlush => complete (flush ed0)
      | CBad true => feed_ckpt (discard_changes ed0 true) n t
      | CBad false => (discard_changes ed0 false, Some false, n)
      end
  end.

(* the Next call that finds the end of the rows is wrapped like any other: StatementBegin, io.EOF, StatementComplete *)
Definition run_stmt_ckpt (t : T) (cs : list call) : result * T :=
  let '(ed1, err, n) := feed_ckpt (open_editor t) 1 cs in
  match err with
  | Some _ => let '(_, ed2) := close_editor_at n ed1 in (RErr, published ed2)
  | None =>
      let '(serr, ed_eof) := statement_complete_at n (statement_begin ed1) in
      let '(cerr, ed2) := close_editor_at (S n) ed_eof in
      ((if serr || cerr then RErr else ROk), published ed2)
  end.

(* fault injection (memory.VerifResetFault k): the k-th call (1-based) returns an error *)
Fixpoint inject (k : nat) (cs : list call) : list call :=
  match k, cs with
  | _, [] => []
  | O, _ => cs
  | 1, _ :: t => CBad false :: t
  | S k', c :: t => c :: inject k' t
  end.

(* ---- a BEFORE INSERT trigger writing into another table ---- *)
Variable A : Type.                                   (* the audit row the trigger writes *)
Variable audit_edit : A -> E.

(* per row: the trigger body is a complete statement on the other table, then the row reaches the editor.
   On failure the rollback iterator's savepoint calls fail (memory.Session), so nothing is undone there. *)
(* [None] instead of an audit row: the trigger body itself fails (SIGNAL) before the row reaches the editor *)
Fixpoint feed_trig (ed : editor) (other : T) (cs : list (option A * call)) : editor * T * option bool :=
  match cs with
  | [] => (ed, other, None)
  | (None, _) :: _ => (ed, other, Some false)
  | (Some a, c) :: t =>
      let other' := snd (run_stmt other [CGood (audit_edit a)]) in
      match c with
      | CGood e => feed_trig (accumulate ed e) other' t
      | CHandled => feed_trig ed other' t
      | CFlush => feed_trig (flush ed) other' t
      | CBad ig => (ed, other', Some ig)
      end
  end.

Definition run_stmt_trig (t other : T) (cs : list (option A * call)) : result * T * T :=
  let ed0 := statement_begin (open_editor t) in
  let '(ed1, other', err) := feed_trig ed0 other cs in
  match err with
  | Some false => let '(_, ed3) := close_editor (discard_changes ed1 false) in (RErr, published ed3, other')
  | Some true => let '(_, ed2) := statement_complete ed1 in
                 let '(_, ed3) := close_editor ed2 in (RErr, published ed3, other')
  | None => let '(serr, ed2) := statement_complete ed1 in
            let '(cerr, ed3) := close_editor ed2 in
            ((if serr || cerr then RErr else ROk), published ed3, other')
  end.

End Editor.

Arguments CGood {E} e.
Arguments CBad {E} ignorable.
Arguments CHandled {E}.
Arguments CFlush {E}.
