(* C13, keyless tables: keylessTableEditAccumulator + tableEditor + the statement iterators (kl_exec, Store/C14Editor.v)
   refine the reference multiset semantics ms_exec (Store/C13Keyless.v).  Bags are compared through occurrence counts
   (Permutation_count_occ). *)
From Coq Require Import List NArith ZArith Bool Lia Permutation.
Import ListNotations.
From GMS Require Import Store.C14Editor Store.C14EditorProofs Store.C13Keyless.

(* ---------- decidable equality, occurrence counts ---------- *)
Definition val_eq_dec : forall a b : val, {a = b} + {a <> b}.
Proof. decide equality; [apply Z.eq_dec|apply (list_eq_dec N.eq_dec)]. Defined.
Definition row_eq_dec : forall a b : row, {a = b} + {a <> b} := list_eq_dec val_eq_dec.

Definition cnt (L : list row) (x : row) : nat := count_occ row_eq_dec L x.
Definition ind (a x : row) : nat := if row_eq_dec a x then 1%nat else 0%nat.

Lemma cnt_nil : forall x, cnt [] x = 0%nat.
Proof. reflexivity. Qed.

Lemma cnt_cons : forall a l x, cnt (a :: l) x = (ind a x + cnt l x)%nat.
Proof. intros a l x. unfold cnt, ind. cbn. destruct (row_eq_dec a x); reflexivity. Qed.

Lemma cnt_app : forall l1 l2 x, cnt (l1 ++ l2) x = (cnt l1 x + cnt l2 x)%nat.
Proof. intros. apply count_occ_app. Qed.

Lemma ind_refl : forall a, ind a a = 1%nat.
Proof. intros a. unfold ind. destruct (row_eq_dec a a); [reflexivity|congruence]. Qed.

Lemma ind_le : forall a x, (ind a x <= 1)%nat.
Proof. intros a x. unfold ind. destruct (row_eq_dec a x); lia. Qed.

Lemma perm_cnt : forall l1 l2, Permutation l1 l2 <-> forall x, cnt l1 x = cnt l2 x.
Proof. intros. apply Permutation_count_occ. Qed.

Lemma cnt_filter : forall (p : row -> bool) l x, cnt (filter p l) x = if p x then cnt l x else 0%nat.
Proof.
  intros p l x. induction l as [|y l IH]; cbn [filter]; [destruct (p x); reflexivity|].
  destruct (p y) eqn:Ey; rewrite ?cnt_cons, IH.
  - destruct (p x) eqn:Ex; [reflexivity|]. unfold ind. destruct (row_eq_dec y x); [congruence|reflexivity].
  - destruct (p x) eqn:Ex; [|reflexivity]. unfold ind. destruct (row_eq_dec y x); [congruence|reflexivity].
Qed.

Lemma cnt_filter_le : forall (p : row -> bool) l x, (cnt (filter p l) x <= cnt l x)%nat.
Proof. intros p l x. rewrite cnt_filter. destruct (p x); lia. Qed.

Lemma cnt_firstn_le : forall n l x, (cnt (firstn n l) x <= cnt l x)%nat.
Proof.
  induction n as [|n IH]; intros [|y l] x; cbn [firstn]; rewrite ?cnt_nil; try lia.
  rewrite !cnt_cons. specialize (IH l x). lia.
Qed.

Lemma cnt_targets_le : forall sch w ord lim rows x, (cnt (targets sch w ord lim rows) x <= cnt rows x)%nat.
Proof.
  intros sch w ord lim rows x. unfold targets.
  assert (H1 : (cnt (order_rows sch ord (filter (pred_true sch w) rows)) x <= cnt rows x)%nat).
  { assert (E : cnt (order_rows sch ord (filter (pred_true sch w) rows)) x = cnt (filter (pred_true sch w) rows) x).
    { destruct ord as [[c d]|]; [|reflexivity]. apply perm_cnt. apply sort_by_perm. }
    rewrite E. apply cnt_filter_le. }
  destruct lim as [n|]; cbn [limit_rows]; [|exact H1].
  eapply Nat.le_trans; [apply cnt_firstn_le|exact H1].
Qed.

(* ---------- equality tests ---------- *)
Lemma row_eqb_spec : forall a b, row_eqb a b = true <-> a = b.
Proof.
  induction a as [|x a IH]; intros [|y b]; cbn; split; intros H; try reflexivity; try discriminate.
  - apply andb_prop in H. destruct H as [H1 H2]. apply val_eqb_spec in H1. apply IH in H2. congruence.
  - injection H as -> ->. apply andb_true_intro. split; [apply val_eqb_spec; reflexivity|apply IH; reflexivity].
Qed.

Lemma str_cmp_refl : forall a, str_cmp a a = Eq.
Proof. induction a as [|x a IH]; cbn; [reflexivity|]. rewrite N.compare_refl. exact IH. Qed.

Lemma val_cmp_bin_refl : forall a, val_cmp CBin a a = Eq.
Proof. intros [|z|s]; cbn; [reflexivity|apply Z.compare_refl|apply str_cmp_refl]. Qed.

Lemma row_equals_from_eq : forall sch, all_binary sch -> forall a b i, row_equals_from sch i a b = true <-> a = b.
Proof.
  intros sch Hb. induction a as [|x a IH]; intros [|y b] i; cbn; split; intros H; try reflexivity; try discriminate.
  - rewrite Hb in H. destruct (val_cmp CBin x y) eqn:E; try discriminate.
    apply val_cmp_bin_eq in E. apply IH in H. congruence.
  - injection H as -> ->. rewrite Hb, val_cmp_bin_refl. apply IH. reflexivity.
Qed.

Lemma row_equals_eq : forall sch, all_binary sch -> forall a b, row_equals sch a b = true <-> a = b.
Proof. intros sch Hb a b. apply row_equals_from_eq. exact Hb. Qed.

(* ---------- removing one occurrence ---------- *)
Lemma cnt_remove_first : forall (f : row -> bool) d, (forall y, f y = true <-> y = d) ->
  forall l x, (cnt (remove_first f l) x + ind d x * Nat.min 1 (cnt l x) = cnt l x)%nat.
Proof.
  intros f d Hf. induction l as [|y l IH]; intros x; cbn [remove_first]; [rewrite cnt_nil; lia|].
  destruct (f y) eqn:Ey.
  - apply Hf in Ey. subst y. rewrite cnt_cons. pose proof (ind_le d x). destruct (ind d x) as [|[|k]]; lia.
  - rewrite !cnt_cons. specialize (IH x).
    assert (Hyd : y <> d) by (intros E; apply Hf in E; congruence).
    unfold ind in *. destruct (row_eq_dec d x) as [->|Hd]; destruct (row_eq_dec y x) as [->|Hy]; try congruence; lia.
Qed.

Lemma cnt_remove_first_sub : forall (f : row -> bool) d, (forall y, f y = true <-> y = d) ->
  forall l x, cnt (remove_first f l) x = (cnt l x - ind d x)%nat.
Proof.
  intros f d Hf l x. pose proof (cnt_remove_first f d Hf l x) as H. pose proof (ind_le d x).
  destruct (ind d x) as [|[|k]]; lia.
Qed.

Lemma cnt_fold_remove : forall (F : row -> row -> bool), (forall d y, F d y = true <-> y = d) ->
  forall ds l x, cnt (fold_left (fun acc d => remove_first (F d) acc) ds l) x = (cnt l x - cnt ds x)%nat.
Proof.
  intros F HF. induction ds as [|d ds IH]; intros l x; cbn [fold_left]; [rewrite cnt_nil; lia|].
  rewrite IH, (cnt_remove_first_sub (F d) d (HF d)), cnt_cons. lia.
Qed.

Lemma cnt_bag_diff : forall l ds x, cnt (bag_diff l ds) x = (cnt l x - cnt ds x)%nat.
Proof.
  intros l ds x. unfold bag_diff, bag_remove.
  apply (cnt_fold_remove (fun d y => row_eqb d y)). intros d y. rewrite row_eqb_spec. split; congruence.
Qed.

Lemma remove_first_opt_some : forall (f : row -> bool) l l', remove_first_opt f l = Some l' ->
  l' = remove_first f l /\ exists y, In y l /\ f y = true.
Proof.
  intros f. induction l as [|x l IH]; intros l' H; cbn in *; [discriminate|].
  destruct (f x) eqn:Ex.
  - injection H as <-. split; [reflexivity|]. exists x. split; [left; reflexivity|exact Ex].
  - destruct (remove_first_opt f l) as [l''|]; [|discriminate]. injection H as <-.
    destruct (IH l'' eq_refl) as [-> [y [Hy Hfy]]]. split; [reflexivity|]. exists y. split; [right; exact Hy|exact Hfy].
Qed.

Lemma remove_first_opt_none : forall (f : row -> bool) l, remove_first_opt f l = None -> forall y, In y l -> f y = false.
Proof.
  intros f. induction l as [|x l IH]; intros H y Hy; cbn in *; [contradiction|].
  destruct (f x) eqn:Ex; [discriminate|]. destruct (remove_first_opt f l); [discriminate|].
  destruct Hy as [<-|Hy]; [exact Ex|apply IH; [reflexivity|exact Hy]].
Qed.

Lemma cnt_pos_in : forall l x, In x l -> (1 <= cnt l x)%nat.
Proof. intros l x H. apply (count_occ_In row_eq_dec) in H. unfold cnt. lia. Qed.

Lemma cnt_zero_notin : forall l x, ~ In x l -> cnt l x = 0%nat.
Proof. intros l x H. apply (count_occ_not_In row_eq_dec). exact H. Qed.

(* ---------- the accumulator ---------- *)
Section Keyless.
  Variable sch : schema.
  Hypothesis Hbin : all_binary sch.
  Hypothesis Hnu : s_uniq sch = [].

  (* logical content of a state, as counts:  stored - pending deletes + pending adds *)
  Definition C (s : klst) (x : row) : nat := (cnt (k_rows s) x - cnt (k_dels s) x + cnt (k_adds s) x)%nat.

  (* the rows still to be deleted by the statement, together with the pending deletes, are occurrences of stored rows *)
  Definition J (s : klst) (ts : list row) : Prop := forall x, (cnt ts x + cnt (k_dels s) x <= cnt (k_rows s) x)%nat.

  Lemma J_tail : forall s o ts, J s (o :: ts) -> J s ts.
  Proof. intros s o ts H x. specialize (H x). rewrite cnt_cons in H. lia. Qed.

  Lemma cnt_commit : forall s x, cnt (kl_commit sch s) x = C s x.
  Proof.
    intros s x. unfold kl_commit, C. rewrite cnt_app. f_equal.
    apply (cnt_fold_remove (fun d pr => row_equals sch pr d)). intros d y. apply row_equals_eq. exact Hbin.
  Qed.

  Lemma eq_spec_l : forall r y, row_equals sch r y = true <-> y = r.
  Proof. intros r y. rewrite (row_equals_eq sch Hbin). split; congruence. Qed.

  (* Insert: cancels one pending delete of an equal row, else queues the row *)
  Lemma acc_insert_J : forall s ts r, J s ts ->
    J (kl_acc_insert sch s r) ts /\ k_rows (kl_acc_insert sch s r) = k_rows s /\
    forall x, C (kl_acc_insert sch s r) x = (C s x + ind r x)%nat.
  Proof.
    intros s ts r HJ. unfold kl_acc_insert.
    destruct (remove_first_opt (fun d => row_equals sch r d) (k_dels s)) as [d'|] eqn:E.
    - apply remove_first_opt_some in E. destruct E as [-> [y [Hy Hry]]]. apply eq_spec_l in Hry. subst y.
      pose proof (cnt_pos_in _ _ Hy) as Hpos.
      pose proof (cnt_remove_first_sub _ r (eq_spec_l r) (k_dels s)) as Hc.
      split; [|split; [reflexivity|]].
      + intros x. cbn [k_rows k_dels]. rewrite Hc. specialize (HJ x). lia.
      + intros x. unfold C. cbn [k_rows k_dels k_adds]. rewrite Hc. specialize (HJ x).
        unfold ind in *. destruct (row_eq_dec r x) as [<-|Hn]; lia.
    - split; [|split; [reflexivity|]].
      + exact HJ.
      + intros x. unfold C. cbn [k_rows k_dels k_adds]. rewrite cnt_app, cnt_cons, cnt_nil. lia.
  Qed.

  (* Delete of a row that is a target of the statement: cancels one pending add of an equal row, else queues the delete *)
  Lemma acc_delete_J : forall s ts o, J s (o :: ts) ->
    J (kl_acc_delete sch s o) ts /\ k_rows (kl_acc_delete sch s o) = k_rows s /\
    forall x, (C (kl_acc_delete sch s o) x + ind o x = C s x)%nat.
  Proof.
    intros s ts o HJ. unfold kl_acc_delete.
    destruct (remove_first_opt (fun a => row_equals sch o a) (k_adds s)) as [a'|] eqn:E.
    - apply remove_first_opt_some in E. destruct E as [-> [y [Hy Hoy]]]. apply eq_spec_l in Hoy. subst y.
      pose proof (cnt_pos_in _ _ Hy) as Hpos.
      pose proof (cnt_remove_first_sub _ o (eq_spec_l o) (k_adds s)) as Hc.
      split; [|split; [reflexivity|]].
      + exact (J_tail _ _ _ HJ).
      + intros x. unfold C. cbn [k_rows k_dels k_adds]. rewrite Hc.
        unfold ind in *. destruct (row_eq_dec o x) as [<-|Hn]; lia.
    - assert (Ha : cnt (k_adds s) o = 0%nat).
      { apply cnt_zero_notin. intros Hin. pose proof (remove_first_opt_none _ _ E o Hin) as Hf. cbv beta in Hf.
        rewrite (proj2 (eq_spec_l o o) eq_refl) in Hf. discriminate. }
      split; [|split; [reflexivity|]].
      + intros x. cbn [k_rows k_dels]. rewrite cnt_app, cnt_cons, cnt_nil. specialize (HJ x). rewrite cnt_cons in HJ. lia.
      + intros x. unfold C. cbn [k_rows k_dels k_adds]. rewrite cnt_app, cnt_cons, cnt_nil.
        specialize (HJ x). rewrite cnt_cons in HJ.
        unfold ind in *. destruct (row_eq_dec o x) as [<-|Hn]; lia.
  Qed.

  Lemma kl_insert_ok : forall s r, kl_insert sch s r = ROk (kl_acc_insert sch s r).
  Proof. intros s r. unfold kl_insert. rewrite Hnu. reflexivity. Qed.

  Lemma kl_update_ok : forall s o n, kl_update sch s o n = ROk (kl_acc_insert sch (kl_acc_delete sch s o) n).
  Proof. intros s o n. unfold kl_update. rewrite Hnu. reflexivity. Qed.

  (* ---------- DELETE ---------- *)
  Lemma delete_loop : forall ts s, J s ts ->
    let s' := fold_left (kl_delete sch) ts s in
    J s' [] /\ k_rows s' = k_rows s /\ forall x, (C s' x + cnt ts x = C s x)%nat.
  Proof.
    induction ts as [|o ts IH]; intros s HJ; cbn [fold_left].
    - split; [exact HJ|split; [reflexivity|]]. intros x. rewrite cnt_nil. lia.
    - destruct (acc_delete_J s ts o HJ) as [HJ1 [Hr1 Hc1]].
      destruct (IH (kl_delete sch s o) HJ1) as [HJ2 [Hr2 Hc2]].
      split; [exact HJ2|split; [rewrite Hr2; exact Hr1|]].
      intros x. rewrite cnt_cons. specialize (Hc1 x). specialize (Hc2 x). unfold kl_delete in *. lia.
  Qed.

  (* ---------- UPDATE ---------- *)
  Lemma update_loop : forall a ts s m c, J s ts ->
    exists s', upd_loop (kl_update sch) sch a s ts m c =
                 Some (s', (m + N.of_nat (length ts))%N, (c + N.of_nat (length (changed sch a ts)))%N) /\
               forall x, (C s' x + cnt (changed sch a ts) x = C s x + cnt (map (apply_assigns a) (changed sch a ts)) x)%nat.
  Proof.
    intros a. induction ts as [|o ts IH]; intros s m c HJ.
    - exists s. cbn. rewrite !N.add_0_r. split; [reflexivity|]. intros x. reflexivity.
    - cbn [upd_loop]. unfold changed. cbn [filter]. fold (changed sch a ts).
      destruct (row_equals sch o (apply_assigns a o)) eqn:Eq; cbn [negb].
      + destruct (IH s (m + 1)%N c (J_tail _ _ _ HJ)) as [s' [E Hc]]. exists s'. split; [|exact Hc].
        rewrite E. do 3 f_equal. cbn [length]. lia.
      + rewrite kl_update_ok.
        destruct (acc_delete_J s ts o HJ) as [HJ1 [_ Hc1]].
        destruct (acc_insert_J _ ts (apply_assigns a o) HJ1) as [HJ2 [_ Hc2]].
        destruct (IH _ (m + 1)%N (c + 1)%N HJ2) as [s' [E Hc]]. exists s'. split.
        * rewrite E. do 2 f_equal; [f_equal|]; cbn [length]; lia.
        * intros x. cbn [map]. rewrite !cnt_cons. specialize (Hc x). specialize (Hc1 x). specialize (Hc2 x). lia.
  Qed.

  (* ---------- INSERT (all four modes): nothing to collide with ---------- *)
  Definition st0 (rows adds : list row) : klst := {| k_rows := rows; k_adds := adds; k_dels := [] |}.

  Lemma acc_insert_st0 : forall rows adds r, kl_acc_insert sch (st0 rows adds) r = st0 rows (adds ++ [r]).
  Proof. reflexivity. Qed.

  Lemma commit_st0 : forall rows adds, kl_commit sch (st0 rows adds) = rows ++ adds.
  Proof. reflexivity. Qed.

  Lemma succ_len : forall (n : N) (r : row) (l : list row), (n + 1 + N.of_nat (length l) = n + N.of_nat (length (r :: l)))%N.
  Proof. intros. cbn [length]. lia. Qed.

  Lemma plain_loop : forall news rows adds n,
    ins_plain (kl_insert sch) (st0 rows adds) news n = Some (st0 rows (adds ++ news), (n + N.of_nat (length news))%N).
  Proof.
    induction news as [|r news IH]; intros rows adds n; cbn [ins_plain].
    - rewrite app_nil_r, N.add_0_r. reflexivity.
    - rewrite kl_insert_ok, acc_insert_st0, IH, <- app_assoc, (succ_len n r news). reflexivity.
  Qed.

  Lemma ignore_loop : forall news cur n,
    ins_ignore kl_begin (kl_insert sch) (kl_commit sch) cur news n = (cur ++ news, (n + N.of_nat (length news))%N).
  Proof.
    induction news as [|r news IH]; intros cur n; cbn [ins_ignore].
    - rewrite app_nil_r, N.add_0_r. reflexivity.
    - rewrite kl_insert_ok. change (kl_begin cur) with (st0 cur []). rewrite acc_insert_st0, commit_st0, IH.
      cbn [app]. rewrite <- app_assoc, (succ_len n r news). reflexivity.
  Qed.

  Lemma replace_loop : forall fuel news rows adds n,
    ins_replace (kl_insert sch) (kl_delete sch) (S fuel) (st0 rows adds) news n =
      Some (st0 rows (adds ++ news), (n + N.of_nat (length news))%N).
  Proof.
    intros fuel. induction news as [|r news IH]; intros rows adds n; cbn [ins_replace replace_one].
    - rewrite app_nil_r, N.add_0_r. reflexivity.
    - rewrite kl_insert_ok, acc_insert_st0, IH, <- app_assoc, (succ_len n r news). reflexivity.
  Qed.

  Lemma odku_loop : forall a news rows adds n,
    ins_odku (kl_insert sch) (kl_update sch) sch a (st0 rows adds) news n =
      Some (st0 rows (adds ++ news), (n + N.of_nat (length news))%N).
  Proof.
    intros a. induction news as [|r news IH]; intros rows adds n; cbn [ins_odku].
    - rewrite app_nil_r, N.add_0_r. reflexivity.
    - rewrite kl_insert_ok, acc_insert_st0, IH, <- app_assoc, (succ_len n r news). reflexivity.
  Qed.

  Lemma J_begin : forall rows ts, (forall x, (cnt ts x <= cnt rows x)%nat) -> J (kl_begin rows) ts.
  Proof. intros rows ts H x. cbn [kl_begin k_rows k_dels]. rewrite cnt_nil. specialize (H x). lia. Qed.

  Lemma C_begin : forall rows x, C (kl_begin rows) x = cnt rows x.
  Proof. intros rows x. unfold C. cbn [kl_begin k_rows k_dels k_adds]. rewrite !cnt_nil. lia. Qed.

  Lemma cnt_changed_le : forall a ts x, (cnt (changed sch a ts) x <= cnt ts x)%nat.
  Proof. intros. apply cnt_filter_le. Qed.

  (* ---------- one statement ---------- *)
  Theorem kl_refines_ms : forall rows st, same_step (kl_exec sch rows st) (ms_exec sch rows st).
  Proof.
    intros rows st. unfold kl_exec, same_step.
    destruct st as [m news|a w ord lim|w ord lim]; cbn [exec ms_exec].
    - change (kl_begin rows) with (st0 rows []).
      destruct m as [| | |a].
      + rewrite plain_loop. cbn. split; reflexivity.
      + rewrite ignore_loop. cbn. split; reflexivity.
      + rewrite replace_loop. cbn. split; reflexivity.
      + rewrite odku_loop. cbn. split; reflexivity.
    - set (ts := targets sch w ord lim rows).
      destruct (update_loop a ts (kl_begin rows) 0%N 0%N (J_begin rows ts (cnt_targets_le sch w ord lim rows)))
        as [s' [E Hc]].
      rewrite E. cbn [fst snd]. split; [reflexivity|].
      apply perm_cnt. intros x. rewrite cnt_commit, cnt_app, cnt_bag_diff.
      specialize (Hc x). rewrite C_begin in Hc.
      pose proof (cnt_changed_le a ts x). pose proof (cnt_targets_le sch w ord lim rows x). fold ts in H0. lia.
    - destruct (is_truncate w ord lim) eqn:Et.
      + destruct w; try discriminate. destruct ord; try discriminate. destruct lim; try discriminate.
        assert (Ets : targets sch PTrue None None rows = rows).
        { unfold targets. cbn. induction rows as [|r rs IH]; cbn; [reflexivity|f_equal; exact IH]. }
        rewrite Ets. cbn [fst snd]. split; [reflexivity|].
        apply perm_cnt. intros x. rewrite cnt_bag_diff, cnt_nil. lia.
      + set (ts := targets sch w ord lim rows). cbn [fst snd]. split; [reflexivity|].
        destruct (delete_loop ts (kl_begin rows) (J_begin rows ts (cnt_targets_le sch w ord lim rows))) as [_ [_ Hc]].
        apply perm_cnt. intros x. rewrite cnt_commit, cnt_bag_diff. specialize (Hc x). rewrite C_begin in Hc.
        pose proof (cnt_targets_le sch w ord lim rows x). fold ts in H. lia.
  Qed.

  (* ---------- the reference is a function of the bag when no LIMIT cuts the targets ---------- *)
  Lemma targets_perm : forall w ord L L', Permutation L L' ->
    Permutation (targets sch w ord None L) (targets sch w ord None L').
  Proof.
    intros w ord L L' HP. unfold targets. cbn [limit_rows].
    assert (Hf : Permutation (filter (pred_true sch w) L) (filter (pred_true sch w) L')).
    { apply perm_cnt. intros x. rewrite !cnt_filter. destruct (pred_true sch w x); [apply perm_cnt; exact HP|reflexivity]. }
    destruct ord as [[c d]|]; cbn [order_rows]; [|exact Hf].
    eapply Permutation_trans; [apply sort_by_perm|]. eapply Permutation_trans; [exact Hf|].
    apply Permutation_sym. apply sort_by_perm.
  Qed.

  Lemma changed_perm : forall a ts ts', Permutation ts ts' -> Permutation (changed sch a ts) (changed sch a ts').
  Proof.
    intros a ts ts' HP. apply perm_cnt. intros x. unfold changed. rewrite !cnt_filter.
    destruct (negb _); [apply perm_cnt; exact HP|reflexivity].
  Qed.

  Lemma bag_diff_perm : forall L L' ds ds', Permutation L L' -> Permutation ds ds' ->
    Permutation (bag_diff L ds) (bag_diff L' ds').
  Proof.
    intros L L' ds ds' H1 H2. apply perm_cnt. intros x. rewrite !cnt_bag_diff.
    rewrite (proj1 (perm_cnt _ _) H1 x), (proj1 (perm_cnt _ _) H2 x). reflexivity.
  Qed.

  Theorem ms_respects_bags : forall st L L', no_limit st -> Permutation L L' ->
    same_step (ms_exec sch L st) (ms_exec sch L' st).
  Proof.
    intros st L L' Hn HP. unfold same_step.
    destruct st as [m news|a w ord lim|w ord lim]; cbn [ms_exec fst snd]; cbn in Hn; try subst lim.
    - split; [reflexivity|]. apply Permutation_app_tail. exact HP.
    - pose proof (targets_perm w ord L L' HP) as Ht. pose proof (changed_perm a _ _ Ht) as Hch. split.
      + rewrite (Permutation_length Ht), (Permutation_length Hch). reflexivity.
      + apply Permutation_app; [apply bag_diff_perm; assumption|apply Permutation_map; exact Hch].
    - pose proof (targets_perm w ord L L' HP) as Ht. split.
      + rewrite (Permutation_length Ht). reflexivity.
      + apply bag_diff_perm; assumption.
  Qed.

  (* ---------- histories ---------- *)
  Theorem kl_trace_refines_ms : forall h rows rows', Forall no_limit h -> Permutation rows rows' ->
    Forall2 same_step (trace (kl_exec sch) rows h) (trace (ms_exec sch) rows' h).
  Proof.
    induction h as [|st h IH]; intros rows rows' Hn HP; cbn [trace]; [constructor|].
    inversion Hn as [|? ? Hst Hh]; subst.
    destruct (kl_refines_ms rows st) as [E1 P1]. destruct (ms_respects_bags st rows rows' Hst HP) as [E2 P2].
    constructor.
    - split; [congruence|eapply Permutation_trans; eassumption].
    - apply IH; [exact Hh|eapply Permutation_trans; eassumption].
  Qed.

  Theorem kl_history_refines_ms : forall h rows rows', Forall no_limit h -> Permutation rows rows' ->
    Permutation (fold_left (fun rs st => snd (kl_exec sch rs st)) h rows) (ms_history sch rows' h).
  Proof.
    unfold ms_history. induction h as [|st h IH]; intros rows rows' Hn HP; cbn [fold_left]; [exact HP|].
    inversion Hn as [|? ? Hst Hh]; subst. apply IH; [exact Hh|].
    destruct (kl_refines_ms rows st) as [_ P1]. destruct (ms_respects_bags st rows rows' Hst HP) as [_ P2].
    eapply Permutation_trans; eassumption.
  Qed.

  (* any statements (LIMIT included): every step is explained by a listing of the bag before it *)
  Theorem kl_trace_is_bag_run : forall h rows, bag_run sch rows h (trace (kl_exec sch) rows h).
  Proof.
    induction h as [|st h IH]; intros rows; cbn [trace bag_run]; [exact I|].
    destruct (kl_exec sch rows st) as [o B'] eqn:E. cbn [snd]. split; [|apply IH].
    destruct (kl_refines_ms rows st) as [E1 P1]. rewrite E in E1, P1. cbn [fst snd] in E1, P1.
    exists rows. split; [apply Permutation_refl|]. split; [symmetry; exact E1|apply Permutation_sym; exact P1].
  Qed.
End Keyless.

(* stated on the implementation's dispatch (newTableEditAccumulator: keyless schema -> keyless accumulator) *)
Theorem keyless_refines_multiset : forall sch, keyless sch = true -> all_binary sch -> s_uniq sch = [] ->
  forall rows st, same_step (impl_exec sch rows st) (ms_exec sch rows st).
Proof.
  intros sch Hk Hb Hn rows st. unfold impl_exec. rewrite Hk. apply kl_refines_ms; assumption.
Qed.

Lemma impl_history_keyless : forall sch, keyless sch = true -> forall h rows,
  run_history sch rows h = fold_left (fun rs st => snd (kl_exec sch rs st)) h rows.
Proof.
  intros sch Hk. unfold run_history. induction h as [|st h IH]; intros rows; cbn [fold_left]; [reflexivity|].
  rewrite IH. unfold impl_exec. rewrite Hk. reflexivity.
Qed.

Lemma trace_ext : forall e1 e2, (forall rows st, e1 rows st = e2 rows st) ->
  forall h rows, trace e1 rows h = trace e2 rows h.
Proof.
  intros e1 e2 He. induction h as [|st h IH]; intros rows; cbn [trace]; [reflexivity|].
  rewrite He, IH. reflexivity.
Qed.

Lemma impl_trace_keyless : forall sch, keyless sch = true -> forall h rows,
  trace (impl_exec sch) rows h = trace (kl_exec sch) rows h.
Proof.
  intros sch Hk. apply trace_ext. intros rows st. unfold impl_exec. rewrite Hk. reflexivity.
Qed.

Theorem keyless_history_refines_multiset : forall sch, keyless sch = true -> all_binary sch -> s_uniq sch = [] ->
  forall h rows, Forall no_limit h ->
    Forall2 same_step (trace (impl_exec sch) rows h) (trace (ms_exec sch) rows h) /\
    Permutation (run_history sch rows h) (ms_history sch rows h).
Proof.
  intros sch Hk Hb Hn h rows Hl. rewrite (impl_trace_keyless sch Hk), (impl_history_keyless sch Hk). split.
  - apply kl_trace_refines_ms; [exact Hb|exact Hn|exact Hl|apply Permutation_refl].
  - apply kl_history_refines_ms; [exact Hb|exact Hn|exact Hl|apply Permutation_refl].
Qed.

Theorem keyless_history_is_bag_run : forall sch, keyless sch = true -> all_binary sch -> s_uniq sch = [] ->
  forall h rows, bag_run sch rows h (trace (impl_exec sch) rows h).
Proof.
  intros sch Hk Hb Hn h rows. rewrite (impl_trace_keyless sch Hk). apply kl_trace_is_bag_run; assumption.
Qed.

(* ---------- witnesses ---------- *)
Definition kl_sch : schema := {| s_pk := []; s_uniq := []; s_coll := [CBin; CBin] |}.
Definition kl_rows : list row := [[VInt 1; VInt 0]; [VInt 2; VInt 0]; [VInt 1; VInt 0]].
(* UPDATE t SET c0 = c0 + 1 LIMIT 2: (1,0) -> (2,0) while a (2,0) is stored and itself updated to (3,0): the Insert of
   the Insert of the new (2,0) happens before the Delete of the stored (2,0), and that Delete cancels the pending add
   instead of the stored row - same bag, other listing *)
Definition kl_upd : stmt := SUpdate [(0%nat, AAdd 1)] PTrue None (Some 2%N).

Lemma kl_sch_binary : all_binary kl_sch.
Proof. intros i. unfold col_coll. cbn. destruct i as [|[|[|i]]]; reflexivity. Qed.

Lemma kl_witness :
  impl_exec kl_sch kl_rows kl_upd = (OOk 2 2, [[VInt 2; VInt 0]; [VInt 1; VInt 0]; [VInt 3; VInt 0]]) /\
  ms_exec kl_sch kl_rows kl_upd = (OOk 2 2, [[VInt 1; VInt 0]; [VInt 2; VInt 0]; [VInt 3; VInt 0]]).
Proof. split; vm_compute; reflexivity. Qed.

(* a case-insensitive column breaks the bag: UPDATE t SET c1 = c1 + 1 ORDER BY c1 DESC on ('a',1), ('A',2).
   Insert('a',2) cancels the pending Delete('A',2) (Row.Equals is collation aware), so 'A',2 stays stored and 'a',1
   is removed: stored ('A',2), ('A',3) where the bag semantics gives ('a',2), ('A',3). *)
Definition kl_ci_sch : schema := {| s_pk := []; s_uniq := []; s_coll := [CCi; CBin] |}.
Definition kl_ci_rows : list row := [[VStr [97%N]; VInt 1]; [VStr [65%N]; VInt 2]].
Definition kl_ci_upd : stmt := SUpdate [(1%nat, AAdd 1)] PTrue (Some (1%nat, true)) None.

Lemma kl_ci_refuted :
  exists sch rows st, keyless sch = true /\ s_uniq sch = [] /\
    ~ Permutation (snd (impl_exec sch rows st)) (snd (ms_exec sch rows st)).
Proof.
  exists kl_ci_sch, kl_ci_rows, kl_ci_upd. split; [reflexivity|split; [reflexivity|]].
  intros HP. apply Permutation_sym in HP. apply (Permutation_in [VStr [97%N]; VInt 2]) in HP.
  - vm_compute in HP. destruct HP as [H|[H|[]]]; discriminate.
  - vm_compute. auto.
Qed.
