(* Proofs for C20 over Store/C20AutoInc.v: invariants over ALL guarded histories. *)
From Coq Require Import List ZArith Bool Lia Sorting.Sorted.
Import ListNotations.
From GMS Require Import Store.C20AutoInc.
Open Scope Z_scope.

Definition below (c : Z) (l : list Z) : Prop := Forall (fun x => x < c) l.

Record Inv (s : st) : Prop := {
  I_pos : 1 <= ctr s;
  I_ids : below (ctr s) (ids s);
  I_seen : below (ctr s) (seen s);
  I_gens : below (ctr s) (gens s);
  I_sorted : StronglySorted Z.lt (gens s)
}.

Lemma below_mono : forall c c' l, c <= c' -> below c l -> below c' l.
Proof. intros c c' l H. apply Forall_impl. intros x Hx. lia. Qed.

Lemma below_snoc : forall c l x, below c l -> x < c -> below c (l ++ [x]).
Proof. intros c l x H Hx. apply Forall_app. split; [exact H|constructor; [exact Hx|constructor]]. Qed.

Lemma sorted_snoc : forall l x, StronglySorted Z.lt l -> below x l -> StronglySorted Z.lt (l ++ [x]).
Proof.
  induction l as [|y l IH]; intros x Hs Hb; cbn.
  - constructor; constructor.
  - inversion Hs as [|? ? Hs' Hy]; subst. inversion Hb as [|? ? Hyx Hb']; subst.
    constructor; [apply IH; assumption|]. apply Forall_app. split; [exact Hy|constructor; [exact Hyx|constructor]].
Qed.

Lemma row_step_inv : forall ign s sp s', Inv s -> row_step ign s sp = Some s' -> Inv s' /\ ctr s <= ctr s'.
Proof.
  intros ign s sp s' [Hp Hi Hs Hg Hso] H. unfold row_step in H.
  destruct (eval_id (ctr s) sp) as [id c'] eqn:Ee.
  assert (Hc : ctr s <= c' /\ id <= c' /\ (sp = None -> id = ctr s /\ c' = ctr s)).
  { unfold eval_id in Ee. destruct sp as [k|].
    - destruct (k <? 0) eqn:Ek; injection Ee as <- <-; [apply Z.ltb_lt in Ek|apply Z.ltb_ge in Ek]; repeat split; try lia; discriminate.
    - injection Ee as <- <-. repeat split; lia. }
  destruct Hc as [Hc1 [Hc2 Hc3]].
  destruct (existsb (Z.eqb id) (ids s)).
  - destruct ign; [|discriminate]. injection H as <-. cbn. split; [constructor; cbn; assumption|lia].
  - injection H as <-. cbn.
    assert (Hn : ctr s <= (if id =? c' then c' + 1 else c') /\ id < (if id =? c' then c' + 1 else c')).
    { destruct (id =? c') eqn:E; [apply Z.eqb_eq in E|apply Z.eqb_neq in E]; lia. }
    destruct Hn as [Hn1 Hn2]. split; [|exact Hn1].
    constructor; cbn.
    + lia.
    + apply below_snoc; [eapply below_mono; [|exact Hi]; exact Hn1|exact Hn2].
    + apply below_snoc; [eapply below_mono; [|exact Hs]; exact Hn1|exact Hn2].
    + destruct sp; [eapply below_mono; [|exact Hg]; exact Hn1|].
      apply below_snoc; [eapply below_mono; [|exact Hg]; exact Hn1|exact Hn2].
    + destruct sp; [exact Hso|]. destruct (Hc3 eq_refl) as [-> _]. apply sorted_snoc; assumption.
Qed.

Lemma rows_run_inv : forall ign specs s s' b, Inv s -> rows_run ign s specs = (s', b) -> Inv s'.
Proof.
  intros ign. induction specs as [|sp r IH]; cbn; intros s s' b HI H.
  - injection H as <- _. exact HI.
  - destruct (row_step ign s sp) as [s1|] eqn:E.
    + eapply IH; [|exact H]. exact (proj1 (row_step_inv _ _ _ _ HI E)).
    + injection H as <- _. exact HI.
Qed.

Lemma filter_below : forall c f l, below c l -> below c (filter f l).
Proof.
  intros c f l H. apply Forall_forall. intros x Hx. apply filter_In in Hx.
  exact (proj1 (Forall_forall _ _) H x (proj1 Hx)).
Qed.

Lemma step_inv : forall s e, Inv s -> ev_ok s e = true -> Inv (fst (step s e)).
Proof.
  intros s e HI Hg. destruct e as [ign specs|k|k|n]; cbn.
  - destruct (rows_run ign (begin_insert s specs) specs) as [s1 b] eqn:E.
    assert (HI0 : Inv (begin_insert s specs)) by (destruct HI; constructor; cbn; assumption).
    pose proof (rows_run_inv _ _ _ _ _ HI0 E) as HI1.
    destruct b; cbn; [exact HI1|]. destruct HI; constructor; cbn; assumption.
  - destruct HI; constructor; cbn; try assumption. apply filter_below. assumption.
  - destruct HI; constructor; cbn; try assumption. apply filter_below. assumption.
  - cbn in Hg. apply Z.leb_le in Hg. destruct HI as [Hp Hi Hs Hgn Hso]. constructor; cbn.
    + lia.
    + eapply below_mono; [exact Hg|exact Hi].
    + eapply below_mono; [exact Hg|exact Hs].
    + eapply below_mono; [exact Hg|exact Hgn].
    + exact Hso.
Qed.

Theorem run_inv : forall h s, Inv s -> guarded s h = true -> Inv (run s h).
Proof.
  induction h as [|e h IH]; intros s HI Hg; cbn; [exact HI|].
  cbn in Hg. apply andb_prop in Hg. destruct Hg as [H1 H2]. apply IH; [apply step_inv; assumption|exact H2].
Qed.

Lemma init_inv : Inv init.
Proof. constructor; cbn; try constructor; lia. Qed.

(* the next generated id is the counter *)
Lemma generated_is_counter : forall ign s s', row_step ign s None = Some s' ->
  s' = s \/ (gens s' = gens s ++ [ctr s] /\ ids s' = ids s ++ [ctr s] /\ ctr s' = ctr s + 1).
Proof.
  intros ign s s' H. unfold row_step in H. cbn in H.
  destruct (existsb (Z.eqb (ctr s)) (ids s)).
  - destruct ign; [|discriminate]. injection H as <-. left. destruct s; reflexivity.
  - injection H as <-. right. cbn. rewrite Z.eqb_refl. repeat split.
Qed.

(* LAST_INSERT_ID() after a successful plain INSERT is the first generated id *)
Lemma row_step_plain_fields : forall s sp s', row_step false s sp = Some s' ->
  exists id, lid s' = (if cnt s =? 0 then id else lid s) /\
             cnt s' = (if cnt s <? 0 then cnt s else cnt s - 1) /\
             gens s' = (match sp with None => gens s ++ [id] | Some _ => gens s end).
Proof.
  intros s sp s' E. unfold row_step in E. destruct (eval_id (ctr s) sp) as [id c'].
  destruct (existsb (Z.eqb id) (ids s)); [discriminate|]. injection E as <-. exists id. cbn. repeat split.
Qed.

Lemma rows_run_neg : forall specs s s', cnt s < 0 -> rows_run false s specs = (s', true) ->
  lid s' = lid s /\ exists rest, gens s' = gens s ++ rest.
Proof.
  induction specs as [|sp r IH]; cbn; intros s s' Hc H.
  - injection H as <-. split; [reflexivity|exists []; rewrite app_nil_r; reflexivity].
  - destruct (row_step false s sp) as [s1|] eqn:E; [|discriminate].
    destruct (row_step_plain_fields _ _ _ E) as [id [Hl [Hn Hg]]].
    assert (X : cnt s <? 0 = true) by (apply Z.ltb_lt; exact Hc). rewrite X in Hn.
    assert (Y : cnt s =? 0 = false) by (apply Z.eqb_neq; lia). rewrite Y in Hl.
    assert (Hc1 : cnt s1 < 0) by lia.
    destruct (IH s1 s' Hc1 H) as [Hl' [rest Hr]]. split; [congruence|].
    rewrite Hr, Hg. destruct sp; [exists rest; reflexivity|exists (id :: rest); rewrite <- app_assoc; reflexivity].
Qed.

Lemma first_gen_index_ge : forall specs, -1 <= first_gen_index specs.
Proof.
  induction specs as [|[k|] r IH]; cbn; try lia. destruct (first_gen_index r <? 0) eqn:E; [lia|apply Z.ltb_ge in E; lia].
Qed.

Lemma rows_run_lid : forall specs s s', cnt s = first_gen_index specs -> 0 <= cnt s ->
  rows_run false s specs = (s', true) -> exists g rest, gens s' = gens s ++ g :: rest /\ lid s' = g.
Proof.
  induction specs as [|sp r IH]; cbn; intros s s' Hc Hp H; [lia|].
  destruct (row_step false s sp) as [s1|] eqn:E; [|discriminate].
  destruct (row_step_plain_fields _ _ _ E) as [id [Hl [Hn Hg]]].
  assert (X : cnt s <? 0 = false) by (apply Z.ltb_ge; exact Hp). rewrite X in Hn.
  destruct sp as [k|].
  - destruct (first_gen_index r <? 0) eqn:Y; [lia|]. apply Z.ltb_ge in Y.
    assert (H1 : cnt s1 = first_gen_index r) by lia. assert (H2 : 0 <= cnt s1) by lia.
    destruct (IH s1 s' H1 H2 H) as [g [rest [Hr Hlg]]]. exists g, rest. split; [rewrite Hr, Hg; reflexivity|exact Hlg].
  - assert (Z0 : cnt s =? 0 = true) by (apply Z.eqb_eq; lia). rewrite Z0 in Hl.
    assert (Hc1 : cnt s1 < 0) by lia.
    destruct (rows_run_neg r s1 s' Hc1 H) as [Hl' [rest Hr]].
    exists id, rest. split; [rewrite Hr, Hg, <- app_assoc; reflexivity|congruence].
Qed.

Theorem plain_insert_lid : forall s specs s' iid,
  step s (EInsert false specs) = (s', (true, iid)) -> 0 <= first_gen_index specs ->
  exists g rest, gens s' = gens s ++ g :: rest /\ lid s' = g.
Proof.
  intros s specs s' iid H Hf. cbn in H.
  destruct (rows_run false (begin_insert s specs) specs) as [s1 b] eqn:E. destruct b; [|discriminate].
  injection H as <- _. exact (rows_run_lid specs (begin_insert s specs) s1 (eq_refl : cnt (begin_insert s specs) = first_gen_index specs) Hf E).
Qed.

(* ---------- witnesses: what the faithful model does outside the guard / for the other reports ---------- *)
Definition h_alter : list event :=
  [EInsert false [None; None; None]; EAlter 2; EInsert false [None]].

Lemma alter_below_max_stuck :
  guarded init h_alter = false /\
  ctr (run init [EInsert false [None; None; None]; EAlter 2]) = 2 /\ In 3 (ids (run init [EInsert false [None; None; None]; EAlter 2])) /\
  snd (step (run init [EInsert false [None; None; None]; EAlter 2]) (EInsert false [None])) = (false, 0).
Proof. repeat split; vm_compute; auto. Qed.

Lemma ignore_lid_shift :
  let s := run init [EInsert false [None]] in
  let r := step s (EInsert true [Some 1; None; Some 20]) in
  snd r = (true, 2) /\ gens (fst r) = [1; 2] /\ lid (fst r) = 20.
Proof. repeat split; vm_compute; reflexivity. Qed.

Lemma insert_id_explicit_first :
  let r := step init (EInsert false [Some 5; None]) in
  snd r = (true, 5) /\ gens (fst r) = [6] /\ lid (fst r) = 6.
Proof. repeat split; vm_compute; reflexivity. Qed.
