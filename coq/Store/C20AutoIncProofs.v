(* Proofs for C20 over Store/C20AutoInc.v: invariants over ALL guarded histories. *)
From Coq Require Import List ZArith Bool Lia Sorting.Sorted.
Import ListNotations.
From GMS Require Import Store.C20AutoInc.
Open Scope Z_scope.

Definition below (c : Z) (l : list Z) : Prop := Forall (fun x => x < c) l.

Record Inv (s : st) : Prop := {
  I_pos : 1 <= ctr s;
  I_ids : below (ctr s) (ids s);
  I_seen : below (ctr s) (seen s);
  I_gens : below (ctr s) (gens s);
  I_sorted : StronglySorted Z.lt (gens s)
}.

Lemma below_mono : forall c c' l, c <= c' -> below c l -> below c' l.
Proof. intros c c' l H. apply Forall_impl. intros x Hx. lia. Qed.

Lemma below_snoc : forall c l x, below c l -> x < c -> below c (l ++ [x]).
Proof. intros c l x H Hx. apply Forall_app. split; [exact H|constructor; [exact Hx|constructor]]. Qed.

Lemma sorted_snoc : forall l x, StronglySorted Z.lt l -> below x l -> StronglySorted Z.lt (l ++ [x]).
Proof.
  induction l as [|y l IH]; intros x Hs Hb; cbn.
  - constructor; constructor.
  - inversion Hs as [|? ? Hs' Hy]; subst. inversion Hb as [|? ? Hyx Hb']; subst.
    constructor; [apply IH; assumption|]. apply Forall_app. split; [exact Hy|constructor; [exact Hyx|constructor]].
Qed.

Lemma bump_ge : forall tmax c, c <= bump tmax c.
Proof. intros. unfold bump. destruct (c <? tmax); lia. Qed.

Lemma eval_id_facts : forall c sp id c', eval_id c sp = (id, c') ->
  c <= c' /\ (0 <= c -> id <= c') /\ (sp = None -> id = c /\ c' = c).
Proof.
  intros c sp id c' Ee. unfold eval_id in Ee. destruct sp as [k|].
  - destruct (k <? 0) eqn:Ek; injection Ee as <- <-; [apply Z.ltb_lt in Ek|apply Z.ltb_ge in Ek]; repeat split; try lia; discriminate.
  - injection Ee as <- <-. repeat split; lia.
Qed.

Lemma row_step_mono : forall tmax ign s spu s', row_step tmax ign s spu = Some s' -> ctr s <= ctr s'.
Proof.
  intros tmax ign s [sp ud] s' H. unfold row_step in H. destruct (eval_id (ctr s) sp) as [id c'] eqn:Ee.
  destruct (eval_id_facts _ _ _ _ Ee) as [Hc1 _].
  destruct (ud || existsb (Z.eqb id) (ids s)).
  - destruct ign; [|discriminate]. injection H as <-. cbn. lia.
  - injection H as <-. cbn. destruct (id =? c'); [pose proof (bump_ge tmax c')|]; lia.
Qed.

Lemma rows_run_mono : forall tmax ign specs s s' b, rows_run tmax ign s specs = (s', b) -> ctr s <= ctr s'.
Proof.
  intros tmax ign. induction specs as [|sp r IH]; cbn; intros s s' b H.
  - injection H as <- _. lia.
  - destruct (row_step tmax ign s sp) as [s1|] eqn:E.
    + pose proof (row_step_mono _ _ _ _ _ E). pose proof (IH _ _ _ H). lia.
    + injection H as <- _. lia.
Qed.

(* one row keeps the invariant as long as the counter stays below the type maximum *)
Lemma row_step_inv : forall tmax ign s spu s', Inv s -> row_step tmax ign s spu = Some s' -> ctr s' < tmax -> Inv s'.
Proof.
  intros tmax ign s [sp ud] s' [Hp Hi Hs Hg Hso] H Hlt. unfold row_step in H.
  destruct (eval_id (ctr s) sp) as [id c'] eqn:Ee.
  destruct (eval_id_facts _ _ _ _ Ee) as [Hc1 [Hc2' Hc3]]. assert (Hc2 : id <= c') by (apply Hc2'; lia).
  destruct (ud || existsb (Z.eqb id) (ids s)).
  - destruct ign; [|discriminate]. injection H as <-. cbn. constructor; cbn; assumption.
  - injection H as <-. cbn in Hlt |- *.
    assert (Hn : ctr s <= (if id =? c' then bump tmax c' else c') /\ id < (if id =? c' then bump tmax c' else c')).
    { unfold bump in *. destruct (id =? c') eqn:E; [apply Z.eqb_eq in E|apply Z.eqb_neq in E]; [|lia].
      destruct (c' <? tmax) eqn:E2; [apply Z.ltb_lt in E2|apply Z.ltb_ge in E2]; lia. }
    destruct Hn as [Hn1 Hn2].
    constructor; cbn.
    + lia.
    + apply below_snoc; [eapply below_mono; [|exact Hi]; exact Hn1|exact Hn2].
    + apply below_snoc; [eapply below_mono; [|exact Hs]; exact Hn1|exact Hn2].
    + destruct sp; [eapply below_mono; [|exact Hg]; exact Hn1|].
      apply below_snoc; [eapply below_mono; [|exact Hg]; exact Hn1|exact Hn2].
    + destruct sp; [exact Hso|]. destruct (Hc3 eq_refl) as [-> _]. apply sorted_snoc; assumption.
Qed.

Lemma rows_run_inv : forall tmax ign specs s s', Inv s -> rows_run tmax ign s specs = (s', true) -> ctr s' < tmax -> Inv s'.
Proof.
  intros tmax ign. induction specs as [|sp r IH]; cbn; intros s s' HI H Hlt.
  - injection H as <-. exact HI.
  - destruct (row_step tmax ign s sp) as [s1|] eqn:E; [|discriminate].
    eapply IH; [|exact H|exact Hlt]. eapply row_step_inv; [exact HI|exact E|].
    pose proof (rows_run_mono _ _ _ _ _ _ H). lia.
Qed.

Lemma filter_below : forall c f l, below c l -> below c (filter f l).
Proof.
  intros c f l H. apply Forall_forall. intros x Hx. apply filter_In in Hx.
  exact (proj1 (Forall_forall _ _) H x (proj1 Hx)).
Qed.

Lemma step_inv : forall tmax s e, Inv s -> ev_ok s e = true -> ctr (fst (step tmax s e)) < tmax -> Inv (fst (step tmax s e)).
Proof.
  intros tmax s e HI Hg. destruct e as [ign specs|k|k|n]; cbn.
  - destruct (rows_run tmax ign (begin_insert s specs) specs) as [s1 b] eqn:E.
    assert (HI0 : Inv (begin_insert s specs)) by (destruct HI; constructor; cbn; assumption).
    destruct b; cbn; intros Hlt; [exact (rows_run_inv _ _ _ _ _ HI0 E Hlt)|]. destruct HI; constructor; cbn; assumption.
  - intros _. destruct HI; constructor; cbn; try assumption. apply filter_below. assumption.
  - intros _. destruct HI; constructor; cbn; try assumption. apply filter_below. assumption.
  - intros _. cbn in Hg. apply Z.leb_le in Hg. destruct HI as [Hp Hi Hs Hgn Hso]. constructor; cbn.
    + lia.
    + eapply below_mono; [exact Hg|exact Hi].
    + eapply below_mono; [exact Hg|exact Hs].
    + eapply below_mono; [exact Hg|exact Hgn].
    + exact Hso.
Qed.

Theorem run_inv : forall tmax h s, Inv s -> guarded tmax s h = true -> Inv (run tmax s h).
Proof.
  intros tmax. induction h as [|e h IH]; intros s HI Hg; cbn; [exact HI|].
  cbn in Hg. apply andb_prop in Hg. destruct Hg as [H1 H2]. apply andb_prop in H1. destruct H1 as [H0 H1].
  apply Z.ltb_lt in H1. apply IH; [apply step_inv; assumption|exact H2].
Qed.

(* ---------- saturation: the counter pins at the type maximum and never wraps ---------- *)
Lemma row_step_le : forall tmax ign s spu s', ctr s <= tmax ->
  (match fst spu with Some k => k <= tmax | None => True end) ->
  row_step tmax ign s spu = Some s' -> ctr s' <= tmax.
Proof.
  intros tmax ign s [sp ud] s' Hc Hk H. unfold row_step in H. destruct (eval_id (ctr s) sp) as [id c'] eqn:Ee.
  assert (Hc' : c' <= tmax).
  { unfold eval_id in Ee. destruct sp as [k|]; [|injection Ee as _ <-; exact Hc]. cbn in Hk.
    destruct (k <? 0); injection Ee as _ <-; lia. }
  destruct (ud || existsb (Z.eqb id) (ids s)).
  - destruct ign; [|discriminate]. injection H as <-. cbn. exact Hc.
  - injection H as <-. cbn. unfold bump. destruct (id =? c'); [|exact Hc'].
    destruct (c' <? tmax) eqn:E; [apply Z.ltb_lt in E|]; lia.
Qed.

Lemma rows_run_le : forall tmax ign specs s s' b, ctr s <= tmax ->
  forallb (fun sp : option Z * bool => match fst sp with Some k => k <=? tmax | None => true end) specs = true ->
  rows_run tmax ign s specs = (s', b) -> ctr s' <= tmax.
Proof.
  intros tmax ign. induction specs as [|sp r IH]; cbn; intros s s' b Hc Hf H.
  - injection H as <- _. exact Hc.
  - apply andb_prop in Hf. destruct Hf as [Hf1 Hf2]. destruct (row_step tmax ign s sp) as [s1|] eqn:E.
    + eapply IH; [|exact Hf2|exact H]. eapply row_step_le; [exact Hc| |exact E].
      destruct (fst sp); [apply Z.leb_le; exact Hf1|exact I].
    + injection H as <- _. exact Hc.
Qed.

Lemma step_le : forall tmax s e, ctr s <= tmax -> ev_fits tmax e = true -> ctr (fst (step tmax s e)) <= tmax.
Proof.
  intros tmax s e Hc Hf. destruct e as [ign specs|k|k|n]; cbn; try exact Hc.
  - destruct (rows_run tmax ign (begin_insert s specs) specs) as [s1 b] eqn:E.
    destruct b; cbn; [|exact Hc]. eapply rows_run_le; [|exact Hf|exact E]. exact Hc.
  - cbn in Hf. apply Z.leb_le. exact Hf.
Qed.

Theorem run_le : forall tmax h s, ctr s <= tmax -> forallb (ev_fits tmax) h = true -> ctr (run tmax s h) <= tmax.
Proof.
  intros tmax. induction h as [|e h IH]; intros s Hc Hf; cbn; [exact Hc|].
  cbn in Hf. apply andb_prop in Hf. destruct Hf as [H1 H2]. apply IH; [apply step_le; assumption|exact H2].
Qed.

(* at the maximum with the maximum stored: a generated insert fails (duplicate key) and the counter stays *)
Theorem pinned_insert_fails : forall tmax s, ctr s = tmax -> In tmax (ids s) ->
  snd (step tmax s (EInsert false [(None, false)])) = (false, 0) /\ ctr (fst (step tmax s (EInsert false [(None, false)]))) = tmax.
Proof.
  intros tmax s Hc Hin. cbn. unfold row_step. cbn. rewrite Hc.
  assert (E : existsb (Z.eqb tmax) (ids s) = true).
  { apply existsb_exists. exists tmax. split; [exact Hin|apply Z.eqb_refl]. }
  rewrite E. cbn. split; [reflexivity|exact Hc].
Qed.

Lemma init_inv : Inv init.
Proof. constructor; cbn; try constructor; lia. Qed.

(* the next generated id is the counter *)
Lemma generated_is_counter : forall tmax ign s ud s', row_step tmax ign s (None, ud) = Some s' ->
  s' = s \/ (gens s' = gens s ++ [ctr s] /\ ids s' = ids s ++ [ctr s] /\ ctr s' = bump tmax (ctr s)).
Proof.
  intros tmax ign s ud s' H. unfold row_step in H. cbn in H.
  destruct (ud || existsb (Z.eqb (ctr s)) (ids s)).
  - destruct ign; [|discriminate]. injection H as <-. left. destruct s; reflexivity.
  - injection H as <-. right. cbn. rewrite Z.eqb_refl. repeat split.
Qed.

(* LAST_INSERT_ID() after a successful plain INSERT is the first generated id *)
Lemma row_step_plain_fields : forall tmax s sp ud s', row_step tmax false s (sp, ud) = Some s' ->
  exists id, lid s' = (if cnt s =? 0 then id else lid s) /\
             cnt s' = (if cnt s <? 0 then cnt s else cnt s - 1) /\
             gens s' = (match sp with None => gens s ++ [id] | Some _ => gens s end).
Proof.
  intros tmax s sp ud s' E. unfold row_step in E. destruct (eval_id (ctr s) sp) as [id c'].
  destruct (ud || existsb (Z.eqb id) (ids s)); [discriminate|]. injection E as <-. exists id. cbn. repeat split.
Qed.

Lemma rows_run_neg : forall tmax specs s s', cnt s < 0 -> rows_run tmax false s specs = (s', true) ->
  lid s' = lid s /\ exists rest, gens s' = gens s ++ rest.
Proof.
  intros tmax. induction specs as [|[sp ud] r IH]; cbn [rows_run]; intros s s' Hc H.
  - injection H as <-. split; [reflexivity|exists []; rewrite app_nil_r; reflexivity].
  - destruct (row_step tmax false s (sp, ud)) as [s1|] eqn:E; [|discriminate].
    destruct (row_step_plain_fields _ _ _ _ _ E) as [id [Hl [Hn Hg]]].
    assert (X : cnt s <? 0 = true) by (apply Z.ltb_lt; exact Hc). rewrite X in Hn.
    assert (Y : cnt s =? 0 = false) by (apply Z.eqb_neq; lia). rewrite Y in Hl.
    assert (Hc1 : cnt s1 < 0) by lia.
    destruct (IH s1 s' Hc1 H) as [Hl' [rest Hr]]. split; [congruence|].
    rewrite Hr, Hg. destruct sp; [exists rest; reflexivity|exists (id :: rest); rewrite <- app_assoc; reflexivity].
Qed.

Lemma first_gen_index_ge : forall specs, -1 <= first_gen_index specs.
Proof.
  induction specs as [|[[k|] ud] r IH]; cbn; try lia. destruct (first_gen_index r <? 0) eqn:E; [lia|apply Z.ltb_ge in E; lia].
Qed.

Lemma rows_run_lid : forall tmax specs s s', cnt s = first_gen_index specs -> 0 <= cnt s ->
  rows_run tmax false s specs = (s', true) -> exists g rest, gens s' = gens s ++ g :: rest /\ lid s' = g.
Proof.
  intros tmax. induction specs as [|[sp ud] r IH]; cbn [rows_run first_gen_index]; intros s s' Hc Hp H; [cbn in Hc; lia|].
  destruct (row_step tmax false s (sp, ud)) as [s1|] eqn:E; [|discriminate].
  destruct (row_step_plain_fields _ _ _ _ _ E) as [id [Hl [Hn Hg]]].
  assert (X : cnt s <? 0 = false) by (apply Z.ltb_ge; exact Hp). rewrite X in Hn.
  destruct sp as [k|].
  - destruct (first_gen_index r <? 0) eqn:Y; [lia|]. apply Z.ltb_ge in Y.
    assert (H1 : cnt s1 = first_gen_index r) by lia. assert (H2 : 0 <= cnt s1) by lia.
    destruct (IH s1 s' H1 H2 H) as [g [rest [Hr Hlg]]]. exists g, rest. split; [rewrite Hr, Hg; reflexivity|exact Hlg].
  - assert (Z0 : cnt s =? 0 = true) by (apply Z.eqb_eq; lia). rewrite Z0 in Hl.
    assert (Hc1 : cnt s1 < 0) by lia.
    destruct (rows_run_neg tmax r s1 s' Hc1 H) as [Hl' [rest Hr]].
    exists id, rest. split; [rewrite Hr, Hg, <- app_assoc; reflexivity|congruence].
Qed.

Theorem plain_insert_lid : forall tmax s specs s' iid,
  step tmax s (EInsert false specs) = (s', (true, iid)) -> 0 <= first_gen_index specs ->
  exists g rest, gens s' = gens s ++ g :: rest /\ lid s' = g.
Proof.
  intros tmax s specs s' iid H Hf. cbn in H.
  destruct (rows_run tmax false (begin_insert s specs) specs) as [s1 b] eqn:E. destruct b; [|discriminate].
  injection H as <- _. exact (rows_run_lid tmax specs (begin_insert s specs) s1 (eq_refl : cnt (begin_insert s specs) = first_gen_index specs) Hf E).
Qed.

(* ---------- witnesses ---------- *)
Definition big : Z := 9223372036854775807.
Definition g : option Z * bool := (None, false).
Definition x (k : Z) : option Z * bool := (Some k, false).

Lemma alter_below_max_stuck :
  guarded big init [EInsert false [g; g; g]; EAlter 2; EInsert false [g]] = false /\
  ctr (run big init [EInsert false [g; g; g]; EAlter 2]) = 2 /\ In 3 (ids (run big init [EInsert false [g; g; g]; EAlter 2])) /\
  snd (step big (run big init [EInsert false [g; g; g]; EAlter 2]) (EInsert false [g])) = (false, 0).
Proof. repeat split; vm_compute; auto. Qed.

Lemma ignore_lid_shift :
  let s := run big init [EInsert false [g]] in
  let r := step big s (EInsert true [x 1; g; x 20]) in
  snd r = (true, 2) /\ gens (fst r) = [1; 2] /\ lid (fst r) = 20.
Proof. repeat split; vm_compute; reflexivity. Qed.

Lemma insert_id_explicit_first :
  let r := step big init (EInsert false [x 5; g]) in
  snd r = (true, 5) /\ gens (fst r) = [6] /\ lid (fst r) = 6.
Proof. repeat split; vm_compute; reflexivity. Qed.

(* TINYINT: the maximum 127 is generated, deleted and generated AGAIN (the counter is pinned, it does not wrap) *)
Lemma max_id_reused_after_delete :
  let s := run 127 init [EAlter 127; EInsert false [g]; EDelEq 127; EInsert false [g]] in
  gens s = [127; 127] /\ ctr s = 127.
Proof. split; vm_compute; reflexivity. Qed.
