(* Proofs for C20 over Store/C20AutoInc.v: invariants over ALL guarded histories (single table, then several sessions). *)
From Coq Require Import List ZArith Bool Lia Sorting.Sorted.
Import ListNotations.
From GMS Require Import Store.C20AutoInc.
Open Scope Z_scope.

Definition below (c : Z) (l : list Z) : Prop := Forall (fun x => x < c) l.

Record Inv (s : st) : Prop := {
  I_pos : 1 <= ctr s;
  I_sc : ctr s <= sctr s;
  I_ids : below (ctr s) (ids s);
  I_seen : below (ctr s) (seen s);
  I_gens : below (ctr s) (gens s);
  I_sorted : StronglySorted Z.lt (gens s)
}.

Lemma below_mono : forall c c' l, c <= c' -> below c l -> below c' l.
Proof. intros c c' l H. apply Forall_impl. intros x Hx. lia. Qed.

Lemma below_snoc : forall c l x, below c l -> x < c -> below c (l ++ [x]).
Proof. intros c l x H Hx. apply Forall_app. split; [exact H|constructor; [exact Hx|constructor]]. Qed.

Lemma sorted_snoc : forall l x, StronglySorted Z.lt l -> below x l -> StronglySorted Z.lt (l ++ [x]).
Proof.
  induction l as [|y l IH]; intros x Hs Hb; cbn.
  - constructor; constructor.
  - inversion Hs as [|? ? Hs' Hy]; subst. inversion Hb as [|? ? Hyx Hb']; subst.
    constructor; [apply IH; assumption|]. apply Forall_app. split; [exact Hy|constructor; [exact Hyx|constructor]].
Qed.

Lemma bump_ge : forall tmax c, c <= bump tmax c.
Proof. intros. unfold bump. destruct (c <? tmax); lia. Qed.

Lemma ins_bump_ge : forall tmax id c, c <= ins_bump tmax id c.
Proof. intros. unfold ins_bump. destruct (c <=? id) eqn:E; [apply Z.leb_le in E; pose proof (bump_ge tmax id)|]; lia. Qed.

Lemma ins_bump_gt : forall tmax id c, ins_bump tmax id c < tmax -> id < ins_bump tmax id c.
Proof.
  intros tmax id c. unfold ins_bump, bump. destruct (c <=? id) eqn:E; [apply Z.leb_le in E|apply Z.leb_gt in E]; [|lia].
  destruct (id <? tmax) eqn:E2; [apply Z.ltb_lt in E2|apply Z.ltb_ge in E2]; lia.
Qed.

(* ---------- AutoIncrement.Eval ---------- *)
Lemma eval_id_fields : forall s sp id s', eval_id s sp = (id, s') ->
  rows s' = rows s /\ lid s' = lid s /\ cnt s' = cnt s /\ first s' = first s /\ seen s' = seen s /\ gens s' = gens s /\
  linked s' = linked s /\ ctr s <= ctr s' /\ sctr s <= sctr s' /\ (sp = None -> id = sctr s /\ s' = s).
Proof.
  intros s sp id s' E. unfold eval_id in E. destruct sp as [k|].
  - destruct (k <? 0); injection E as <- <-; cbn; repeat split; try lia; try discriminate. destruct (linked s); lia.
  - injection E as <- <-. repeat split; lia.
Qed.

Lemma eval_id_inv : forall s sp id s', Inv s -> eval_id s sp = (id, s') -> Inv s' /\ id <= sctr s'.
Proof.
  intros s sp id s' [Hp Hsc Hi Hs Hg Hso] E. unfold eval_id in E. destruct sp as [k|].
  - destruct (k <? 0) eqn:Ek; injection E as <- <-.
    + apply Z.ltb_lt in Ek. split; [constructor; assumption|lia].
    + split; [|cbn; lia].
      assert (Hc : ctr s <= (if linked s then Z.max (ctr s) k else ctr s)) by (destruct (linked s); lia).
      constructor; cbn; unfold ids; cbn; try (eapply below_mono; [exact Hc|assumption]); try assumption; destruct (linked s); lia.
  - injection E as <- <-. split; [constructor; assumption|lia].
Qed.

(* ---------- one row ---------- *)
Lemma below_filter : forall c (f : Z * Z -> bool) l, below c (map fst l) -> below c (map fst (filter f l)).
Proof.
  intros c f l H. apply Forall_forall. intros x Hx. apply in_map_iff in Hx. destruct Hx as [r [<- Hr]].
  apply filter_In in Hr. apply (proj1 (Forall_forall _ _) H). apply in_map. exact (proj1 Hr).
Qed.

Lemma do_insert_inv : forall tmax m s gen id u l, Inv s -> below (ctr s) (map fst l) -> (gen = true -> ctr s <= id) ->
  ctr (do_insert tmax m s gen id u l) < tmax -> Inv (do_insert tmax m s gen id u l).
Proof.
  intros tmax m s gen id u l [Hp Hsc Hi Hs Hg Hso] Hl Hgen Hlt. cbn in Hlt.
  pose proof (ins_bump_ge tmax id (ctr s)) as Hn1. pose proof (ins_bump_gt tmax id (ctr s) Hlt) as Hn2.
  constructor; cbn; unfold ids; cbn.
  - lia.
  - lia.
  - rewrite map_app. cbn. apply below_snoc; [eapply below_mono; [exact Hn1|exact Hl]|exact Hn2].
  - apply below_snoc; [eapply below_mono; [exact Hn1|exact Hs]|exact Hn2].
  - destruct gen; [apply below_snoc; [|exact Hn2]|]; (eapply below_mono; [exact Hn1|exact Hg]).
  - destruct gen; [|exact Hso]. apply sorted_snoc; [exact Hso|]. eapply below_mono; [|exact Hg]. apply Hgen. reflexivity.
Qed.

Lemma do_insert_ctr : forall tmax m s gen id u l, ctr (do_insert tmax m s gen id u l) = ins_bump tmax id (ctr s).
Proof. reflexivity. Qed.

Lemma min_u_in : forall u l best r, min_u u l best = Some r -> best = Some r \/ In r l.
Proof.
  intros u. induction l as [|y l IH]; cbn; intros best r H; [left; exact H|].
  destruct (IH _ _ H) as [H1|H1]; [|right; right; exact H1].
  destruct (snd y =? u); [|left; exact H1].
  destruct best as [b|]; [destruct (fst y <? fst b)|]; first [left; exact H1|injection H1 as <-; right; left; reflexivity].
Qed.

Lemma existing_in : forall id u l dl ex, existing id u l dl = Some ex -> In ex l.
Proof.
  intros id u l dl ex H. unfold existing in H. destruct (find (fun r => fst r =? id) l) as [r|] eqn:E.
  - injection H as <-. exact (proj1 (find_some _ _ E)).
  - destruct (existsb (Z.eqb u) dl); [discriminate|]. destruct (min_u_in _ _ _ _ H) as [H1|H1]; [discriminate|exact H1].
Qed.

Definition mode_ok (m : imode) : Prop := match m with MOdku (OAdd d) => d <= 0 | _ => True end.

Lemma set_id_below : forall c k k' l, below c (map fst l) -> k' < c -> below c (map fst (set_id k k' l)).
Proof.
  intros c k k' l H Hk. unfold set_id. rewrite map_map. apply Forall_forall. intros x Hx. apply in_map_iff in Hx.
  destruct Hx as [r [<- Hr]]. destruct (fst r =? k); cbn; [exact Hk|].
  apply (proj1 (Forall_forall _ _) H). apply in_map. exact Hr.
Qed.

Lemma row_step_mono : forall tmax m s spu s', row_step tmax m s spu = Some s' -> ctr s <= ctr s'.
Proof.
  intros tmax m s [sp u] s' H. unfold row_step in H. destruct (eval_id s sp) as [id s1] eqn:Ee.
  destruct (eval_id_fields _ _ _ _ Ee) as [_ [_ [_ [_ [_ [_ [_ [Hc _]]]]]]]].
  assert (Hd : forall g l, ctr s <= ctr (do_insert tmax m s1 g id u l)).
  { intros g0 l. rewrite do_insert_ctr. pose proof (ins_bump_ge tmax id (ctr s1)). lia. }
  destruct (existing id u (rows s1) (delu s1)) as [ex|].
  - destruct m as [| | |[| |d]].
    + discriminate.
    + injection H as <-. exact Hc.
    + injection H as <-. apply Hd.
    + injection H as <-. exact Hc.
    + injection H as <-. exact Hc.
    + cbn [rows with_delu] in H. destruct (fst ex + d =? fst ex); [injection H as <-; exact Hc|].
      destruct (has_id (fst ex + d) (rows s1)); [discriminate|]. injection H as <-. exact Hc.
  - injection H as <-. apply Hd.
Qed.

Lemma rows_run_mono : forall tmax m specs s s' b, rows_run tmax m s specs = (s', b) -> ctr s <= ctr s'.
Proof.
  intros tmax m. induction specs as [|sp r IH]; cbn; intros s s' b H.
  - injection H as <- _. lia.
  - destruct (row_step tmax m s sp) as [s1|] eqn:E.
    + pose proof (row_step_mono _ _ _ _ _ E). pose proof (IH _ _ _ H). lia.
    + injection H as <- _. lia.
Qed.

(* one row keeps the invariant as long as the counter stays below the type maximum *)
Lemma row_step_inv : forall tmax m s spu s', mode_ok m -> Inv s -> row_step tmax m s spu = Some s' -> ctr s' < tmax -> Inv s'.
Proof.
  intros tmax m s [sp u] s' Hm HI H Hlt. unfold row_step in H. destruct (eval_id s sp) as [id s1] eqn:Ee.
  destruct (eval_id_inv _ _ _ _ HI Ee) as [HI1 Hid].
  destruct (eval_id_fields _ _ _ _ Ee) as [_ [_ [_ [_ [_ [_ [_ [_ [_ Hnone]]]]]]]]].
  assert (Hgen : (match sp with None => true | Some _ => false end) = true -> ctr s1 <= id).
  { destruct sp; [discriminate|]. intros _. destruct (Hnone eq_refl) as [-> ->]. exact (I_sc _ HI). }
  destruct (existing id u (rows s1) (delu s1)) as [ex|] eqn:Eex.
  - destruct m as [| | |[| |d]].
    + discriminate.
    + injection H as <-. exact HI1.
    + injection H as <-. apply do_insert_inv; [exact HI1| |exact Hgen|exact Hlt].
      apply below_filter. exact (I_ids _ HI1).
    + injection H as <-. destruct HI1; constructor; assumption.
    + injection H as <-. destruct HI1; constructor; assumption.
    + cbn in Hm. cbn [rows with_delu] in H. destruct (fst ex + d =? fst ex); [injection H as <-; destruct HI1; constructor; assumption|].
      destruct (has_id (fst ex + d) (rows s1)); [discriminate|]. injection H as <-.
      assert (Hex : fst ex < ctr s1).
      { apply (proj1 (Forall_forall _ _) (I_ids _ HI1)). apply in_map. exact (existing_in _ _ _ _ _ Eex). }
      destruct HI1 as [Hp Hsc Hi Hs Hg Hso]. constructor; cbn; unfold ids; cbn; try assumption.
      * apply set_id_below; [exact Hi|lia].
      * apply below_snoc; [exact Hs|lia].
  - injection H as <-. apply do_insert_inv; [exact HI1|exact (I_ids _ HI1)|exact Hgen|exact Hlt].
Qed.

Lemma rows_run_inv : forall tmax m specs s s', mode_ok m -> Inv s -> rows_run tmax m s specs = (s', true) -> ctr s' < tmax -> Inv s'.
Proof.
  intros tmax m. induction specs as [|sp r IH]; cbn; intros s s' Hm HI H Hlt.
  - injection H as <-. exact HI.
  - destruct (row_step tmax m s sp) as [s1|] eqn:E; [|discriminate].
    eapply IH; [exact Hm| |exact H|exact Hlt]. eapply row_step_inv; [exact Hm|exact HI|exact E|].
    pose proof (rows_run_mono _ _ _ _ _ _ H). lia.
Qed.

Lemma ev_ok_mode : forall s m specs, ev_ok s (EInsert m specs) = true -> mode_ok m.
Proof. intros s m specs H. destruct m as [| | |[| |d]]; cbn; try exact I. cbn in H. apply Z.leb_le. exact H. Qed.

Lemma step_inv : forall tmax s e, Inv s -> ev_ok s e = true -> ctr (fst (step tmax s e)) < tmax -> Inv (fst (step tmax s e)).
Proof.
  intros tmax s e HI Hg. destruct e as [m specs|k|k|n|k k'|n]; cbn [step].
  - destruct (rows_run tmax m (begin_insert s specs) specs) as [s1 b] eqn:E.
    assert (HI0 : Inv (begin_insert s specs)) by (destruct HI; constructor; cbn; try assumption; lia).
    destruct b; cbn; intros Hlt.
    + pose proof (rows_run_inv _ _ _ _ _ (ev_ok_mode _ _ _ Hg) HI0 E Hlt) as [Hp Hsc Hi Hs Hgn Hso].
      constructor; cbn; try assumption; lia.
    + destruct HI; constructor; cbn; assumption.
  - intros _. destruct HI; constructor; cbn; unfold ids; cbn; try assumption. apply below_filter. assumption.
  - intros _. destruct HI; constructor; cbn; unfold ids; cbn; try assumption. apply below_filter. assumption.
  - intros _. cbn in Hg. apply Z.leb_le in Hg. destruct HI as [Hp Hsc Hi Hs Hgn Hso]. constructor; cbn.
    + lia.
    + lia.
    + eapply below_mono; [exact Hg|exact Hi].
    + eapply below_mono; [exact Hg|exact Hs].
    + eapply below_mono; [exact Hg|exact Hgn].
    + exact Hso.
  - intros _. cbn in Hg. apply Z.ltb_lt in Hg. destruct (has_id k (rows s) && negb (k' =? k)); [|exact HI].
    destruct (has_id k' (rows s)); [exact HI|]. cbn. destruct HI as [Hp Hsc Hi Hs Hgn Hso].
    constructor; cbn; unfold ids; cbn; try assumption.
    + apply set_id_below; assumption.
    + apply below_snoc; assumption.
  - intros _. destruct HI; constructor; cbn; assumption.
Qed.

Theorem run_inv : forall tmax h s, Inv s -> guarded tmax s h = true -> Inv (run tmax s h).
Proof.
  intros tmax. induction h as [|e h IH]; intros s HI Hg; cbn; [exact HI|].
  cbn in Hg. apply andb_prop in Hg. destruct Hg as [H1 H2]. apply andb_prop in H1. destruct H1 as [H0 H1].
  apply Z.ltb_lt in H1. apply IH; [apply step_inv; assumption|exact H2].
Qed.

Lemma init_inv : Inv init.
Proof. constructor; cbn; try constructor; lia. Qed.

(* a failed statement leaves counter, rows and the ghost lists as they were (DiscardChanges) *)
Theorem failed_statement_restores : forall tmax s e iid, snd (step tmax s e) = (false, iid) -> tb_of (fst (step tmax s e)) = tb_of s.
Proof.
  intros tmax s e iid. destruct e as [m specs|k|k|n|k k'|n]; cbn [step]; try (cbn; discriminate).
  - destruct (rows_run tmax m (begin_insert s specs) specs) as [s1 b]. destruct b; cbn; [discriminate|reflexivity].
  - destruct (has_id k (rows s) && negb (k' =? k)); [|cbn; discriminate].
    destruct (has_id k' (rows s)); cbn; [reflexivity|discriminate].
Qed.

(* ---------- saturation: the counter pins at the type maximum and never wraps ---------- *)
Definition fits (tmax : Z) (s : st) : Prop := ctr s <= tmax /\ sctr s <= tmax.

Lemma bump_le : forall tmax c, c <= tmax -> bump tmax c <= tmax.
Proof. intros. unfold bump. destruct (c <? tmax) eqn:E; [apply Z.ltb_lt in E|]; lia. Qed.

Lemma row_step_le : forall tmax m s spu s', fits tmax s ->
  (match fst spu with Some k => k <= tmax | None => True end) ->
  row_step tmax m s spu = Some s' -> fits tmax s'.
Proof.
  intros tmax m s [sp u] s' [Hc Hs] Hk H. unfold row_step in H. destruct (eval_id s sp) as [id s1] eqn:Ee.
  assert (H1 : fits tmax s1 /\ id <= tmax).
  { unfold eval_id in Ee. destruct sp as [k|]; [|injection Ee as <- <-; repeat split; assumption]. cbn in Hk.
    destruct (k <? 0) eqn:Ek; injection Ee as <- <-; [apply Z.ltb_lt in Ek; repeat split; try assumption; lia|].
    unfold fits; cbn. destruct (linked s); repeat split; lia. }
  destruct H1 as [[Hc1 Hs1] Hid].
  assert (Hd : forall g l, fits tmax (do_insert tmax m s1 g id u l)).
  { intros g0 l. unfold fits. cbn. unfold ins_bump. destruct (ctr s1 <=? id); [pose proof (bump_le tmax id Hid)|]; lia. }
  destruct (existing id u (rows s1) (delu s1)) as [ex|].
  - destruct m as [| | |[| |d]].
    + discriminate.
    + injection H as <-. split; assumption.
    + injection H as <-. apply Hd.
    + injection H as <-. split; assumption.
    + injection H as <-. split; assumption.
    + cbn [rows with_delu] in H. destruct (fst ex + d =? fst ex); [injection H as <-; split; assumption|].
      destruct (has_id (fst ex + d) (rows s1)); [discriminate|]. injection H as <-. split; assumption.
  - injection H as <-. apply Hd.
Qed.

Lemma rows_run_le : forall tmax m specs s s' b, fits tmax s ->
  forallb (fun sp : option Z * Z => match fst sp with Some k => k <=? tmax | None => true end) specs = true ->
  rows_run tmax m s specs = (s', b) -> fits tmax s'.
Proof.
  intros tmax m. induction specs as [|sp r IH]; cbn; intros s s' b Hc Hf H.
  - injection H as <- _. exact Hc.
  - apply andb_prop in Hf. destruct Hf as [Hf1 Hf2]. destruct (row_step tmax m s sp) as [s1|] eqn:E.
    + eapply IH; [|exact Hf2|exact H]. eapply row_step_le; [exact Hc| |exact E].
      destruct (fst sp); [apply Z.leb_le; exact Hf1|exact I].
    + injection H as <- _. exact Hc.
Qed.

Lemma step_le : forall tmax s e, ctr s <= tmax -> ev_fits tmax e = true -> ctr (fst (step tmax s e)) <= tmax.
Proof.
  intros tmax s e Hc Hf. destruct e as [m specs|k|k|n|k k'|n]; cbn [step]; try exact Hc.
  - destruct (rows_run tmax m (begin_insert s specs) specs) as [s1 b] eqn:E.
    destruct b; cbn; [|exact Hc]. refine (proj1 (rows_run_le _ _ _ _ _ _ _ Hf E)). split; cbn; exact Hc.
  - cbn in Hf. apply Z.leb_le. exact Hf.
  - destruct (has_id k (rows s) && negb (k' =? k)); [|exact Hc]. destruct (has_id k' (rows s)); exact Hc.
Qed.

Theorem run_le : forall tmax h s, ctr s <= tmax -> forallb (ev_fits tmax) h = true -> ctr (run tmax s h) <= tmax.
Proof.
  intros tmax. induction h as [|e h IH]; intros s Hc Hf; cbn; [exact Hc|].
  cbn in Hf. apply andb_prop in Hf. destruct Hf as [H1 H2]. apply IH; [apply step_le; assumption|exact H2].
Qed.

Lemma find_id_some : forall id l, In id (map fst l) -> exists r, find (fun r : Z * Z => fst r =? id) l = Some r.
Proof.
  intros id. induction l as [|r l IH]; cbn; intros H; [contradiction|].
  destruct (fst r =? id) eqn:E; [exists r; reflexivity|]. destruct H as [H|H]; [apply Z.eqb_neq in E; contradiction|exact (IH H)].
Qed.

(* at the maximum with the maximum stored: a generated insert fails (duplicate key) and the counter stays *)
Theorem pinned_insert_fails : forall tmax s u, ctr s = tmax -> In tmax (ids s) ->
  snd (step tmax s (EInsert MPlain [(None, u)])) = (false, 0) /\ ctr (fst (step tmax s (EInsert MPlain [(None, u)]))) = tmax.
Proof.
  intros tmax s u Hc Hin. cbn. unfold row_step. cbn. rewrite Hc. unfold existing. cbn.
  destruct (find_id_some tmax (rows s) Hin) as [r ->]. cbn. split; [reflexivity|exact Hc].
Qed.

(* the next generated id is the counter of the session's table data (= the counter when the statement begins) *)
Lemma generated_is_counter : forall tmax m s u s', row_step tmax m s (None, u) = Some s' -> existing (sctr s) u (rows s) (delu s) = None ->
  gens s' = gens s ++ [sctr s] /\ ids s' = ids s ++ [sctr s] /\ ctr s' = ins_bump tmax (sctr s) (ctr s).
Proof.
  intros tmax m s u s' H Hex. unfold row_step in H. cbn in H. rewrite Hex in H. injection H as <-. cbn. unfold ids. cbn.
  rewrite map_app. repeat split.
Qed.

(* ---------- LAST_INSERT_ID() after a successful plain INSERT is the first generated id ---------- *)
Lemma row_step_plain_fields : forall tmax s sp u s', row_step tmax MPlain s (sp, u) = Some s' ->
  exists id, lid s' = (if cnt s =? 0 then id else lid s) /\
             cnt s' = (if cnt s <? 0 then cnt s else cnt s - 1) /\
             gens s' = (match sp with None => gens s ++ [id] | Some _ => gens s end).
Proof.
  intros tmax s sp u s' E. unfold row_step in E. destruct (eval_id s sp) as [id s1] eqn:Ee.
  destruct (eval_id_fields _ _ _ _ Ee) as [_ [Hl [Hc [_ [_ [Hg _]]]]]].
  destruct (existing id u (rows s1) (delu s1)); [discriminate|]. injection E as <-. exists id. cbn. rewrite Hl, Hc, Hg.
  destruct sp; repeat split.
Qed.

Lemma rows_run_neg : forall tmax specs s s', cnt s < 0 -> rows_run tmax MPlain s specs = (s', true) ->
  lid s' = lid s /\ exists rest, gens s' = gens s ++ rest.
Proof.
  intros tmax. induction specs as [|[sp ud] r IH]; cbn [rows_run]; intros s s' Hc H.
  - injection H as <-. split; [reflexivity|exists []; rewrite app_nil_r; reflexivity].
  - destruct (row_step tmax MPlain s (sp, ud)) as [s1|] eqn:E; [|discriminate].
    destruct (row_step_plain_fields _ _ _ _ _ E) as [id [Hl [Hn Hg]]].
    assert (X : cnt s <? 0 = true) by (apply Z.ltb_lt; exact Hc). rewrite X in Hn.
    assert (Y : cnt s =? 0 = false) by (apply Z.eqb_neq; lia). rewrite Y in Hl.
    assert (Hc1 : cnt s1 < 0) by lia.
    destruct (IH s1 s' Hc1 H) as [Hl' [rest Hr]]. split; [congruence|].
    rewrite Hr, Hg. destruct sp; [exists rest; reflexivity|exists (id :: rest); rewrite <- app_assoc; reflexivity].
Qed.

Lemma first_gen_index_ge : forall specs, -1 <= first_gen_index specs.
Proof.
  induction specs as [|[[k|] ud] r IH]; cbn; try lia. destruct (first_gen_index r <? 0) eqn:E; [lia|apply Z.ltb_ge in E; lia].
Qed.

Lemma rows_run_lid : forall tmax specs s s', cnt s = first_gen_index specs -> 0 <= cnt s ->
  rows_run tmax MPlain s specs = (s', true) -> exists g rest, gens s' = gens s ++ g :: rest /\ lid s' = g.
Proof.
  intros tmax. induction specs as [|[sp ud] r IH]; cbn [rows_run first_gen_index]; intros s s' Hc Hp H; [cbn in Hc; lia|].
  destruct (row_step tmax MPlain s (sp, ud)) as [s1|] eqn:E; [|discriminate].
  destruct (row_step_plain_fields _ _ _ _ _ E) as [id [Hl [Hn Hg]]].
  assert (X : cnt s <? 0 = false) by (apply Z.ltb_ge; exact Hp). rewrite X in Hn.
  destruct sp as [k|].
  - destruct (first_gen_index r <? 0) eqn:Y; [lia|]. apply Z.ltb_ge in Y.
    assert (H1 : cnt s1 = first_gen_index r) by lia. assert (H2 : 0 <= cnt s1) by lia.
    destruct (IH s1 s' H1 H2 H) as [g [rest [Hr Hlg]]]. exists g, rest. split; [rewrite Hr, Hg; reflexivity|exact Hlg].
  - assert (Z0 : cnt s =? 0 = true) by (apply Z.eqb_eq; lia). rewrite Z0 in Hl.
    assert (Hc1 : cnt s1 < 0) by lia.
    destruct (rows_run_neg tmax r s1 s' Hc1 H) as [Hl' [rest Hr]].
    exists id, rest. split; [rewrite Hr, Hg, <- app_assoc; reflexivity|congruence].
Qed.

Theorem plain_insert_lid : forall tmax s specs s' iid,
  step tmax s (EInsert MPlain specs) = (s', (true, iid)) -> 0 <= first_gen_index specs ->
  exists g rest, gens s' = gens s ++ g :: rest /\ lid s' = g.
Proof.
  intros tmax s specs s' iid H Hf. cbn in H.
  destruct (rows_run tmax MPlain (begin_insert s specs) specs) as [s1 b] eqn:E. destruct b; [|discriminate].
  injection H as <- _. cbn.
  exact (rows_run_lid tmax specs (begin_insert s specs) s1 (eq_refl : cnt (begin_insert s specs) = first_gen_index specs) Hf E).
Qed.

(* ---------- several sessions ---------- *)
Definition TInv (t : tb) : Prop := Inv (st_of t 0).
Definition OInv (o : option tb) : Prop := match o with Some t => TInv t | None => True end.
Definition WInv (w : world) : Prop := TInv (wdb w) /\ Forall OInv (wtx w).

Lemma inv_st_of : forall t l l', Inv (st_of t l) -> Inv (st_of t l').
Proof. intros t l l' [Hp Hsc Hi Hs Hg Hso]. constructor; assumption. Qed.

Lemma inv_tb_of : forall s l, Inv s -> Inv (st_of (tb_of s) l).
Proof. intros s l [Hp Hsc Hi Hs Hg Hso]. constructor; cbn; try assumption. lia. Qed.

Lemma forall_nth : forall (P : option tb -> Prop) l i, P None -> Forall P l -> P (nth i l None).
Proof.
  intros P. induction l as [|x l IH]; intros i Hn H; destruct i; cbn; try exact Hn.
  - inversion H; assumption.
  - inversion H; subst. apply IH; assumption.
Qed.

Lemma forall_set_nth : forall {A} (P : A -> Prop) d i v l, P d -> P v -> Forall P l -> Forall P (set_nth d i v l).
Proof.
  intros A P d. induction i as [|i IH]; intros v l Hd Hv H; destruct l as [|x l]; cbn.
  - constructor; [exact Hv|constructor].
  - inversion H; subst. constructor; assumption.
  - constructor; [exact Hd|]. apply IH; [exact Hd|exact Hv|constructor].
  - inversion H; subst. constructor; [assumption|]. apply IH; assumption.
Qed.

Lemma nth_set_nth_same : forall {A} (d : A) i v l, nth i (set_nth d i v l) d = v.
Proof. intros A d. induction i as [|i IH]; intros v l; destruct l; cbn; try reflexivity; apply IH. Qed.

Lemma nth_set_nth_other : forall {A} (d : A) i j v l, i <> j -> nth j (set_nth d i v l) d = nth j l d.
Proof.
  intros A d. induction i as [|i IH]; intros j v l Hij; destruct l as [|x l]; destruct j as [|j]; cbn; try reflexivity; try congruence.
  - destruct j; reflexivity.
  - rewrite IH; [destruct j; reflexivity|congruence].
  - apply IH. congruence.
Qed.

Lemma wtable_inv : forall w i, WInv w -> TInv (wtable w i).
Proof.
  intros w i [Hd Ht]. unfold wtable. pose proof (forall_nth OInv (wtx w) i I Ht) as H.
  destruct (nth i (wtx w) None); [exact H|exact Hd].
Qed.

Lemma wstep_inv : forall tmax w e, WInv w -> wev_ok tmax w e = true -> WInv (fst (wstep tmax w e)).
Proof.
  intros tmax w e HW Hg. pose proof HW as [Hd Ht]. destruct e as [i ev|i|i|i]; cbn [wstep].
  - cbn in Hg. apply andb_prop in Hg. destruct Hg as [G1 G2]. apply Z.ltb_lt in G2.
    pose proof (step_inv tmax _ ev (inv_st_of _ 0 (nth i (wlid w) 0) (wtable_inv w i HW)) G1 G2) as HI.
    destruct (step tmax (st_of (wtable w i) (nth i (wlid w) 0)) ev) as [s' res]. cbn in HI.
    destruct (nth i (wtx w) None); cbn; split; cbn; try assumption.
    + apply forall_set_nth; [exact I|exact (inv_tb_of _ 0 HI)|exact Ht].
    + exact (inv_tb_of _ 0 HI).
  - cbn. split; cbn; [exact (wtable_inv w i HW)|]. apply forall_set_nth; [exact I|exact (wtable_inv w i HW)|exact Ht].
  - cbn. split; cbn; [exact (wtable_inv w i HW)|]. apply forall_set_nth; [exact I|exact I|exact Ht].
  - cbn. split; cbn; [exact Hd|]. apply forall_set_nth; [exact I|exact I|exact Ht].
Qed.

Theorem wrun_inv : forall tmax h w, WInv w -> wguarded tmax w h = true -> WInv (wrun tmax w h).
Proof.
  intros tmax. induction h as [|e h IH]; intros w HW Hg; cbn; [exact HW|].
  cbn in Hg. apply andb_prop in Hg. destruct Hg as [H1 H2]. apply IH; [apply wstep_inv; assumption|exact H2].
Qed.

Lemma winit_inv : WInv winit.
Proof. split; [exact (inv_tb_of _ 0 init_inv)|constructor]. Qed.

Definition wevent_session (e : wevent) : nat :=
  match e with WStmt i _ => i | WBegin i => i | WCommit i => i | WRollback i => i end.

(* LAST_INSERT_ID() is per session: what session i does leaves the value of every other session alone *)
Theorem lid_per_session : forall tmax w e j, wevent_session e <> j ->
  nth j (wlid (fst (wstep tmax w e))) 0 = nth j (wlid w) 0.
Proof.
  intros tmax w e j Hj. destruct e as [i ev|i|i|i]; cbn [wstep wevent_session] in *; try reflexivity.
  destruct (step tmax (st_of (wtable w i) (nth i (wlid w) 0)) ev) as [s' res].
  destruct (nth i (wtx w) None); cbn; apply nth_set_nth_other; exact Hj.
Qed.

(* inside BEGIN ... ROLLBACK nothing reaches the stored table: the counter is rolled back with the rows *)
Theorem rollback_restores : forall tmax evs w i t, nth i (wtx w) None = Some t ->
  wdb (wrun tmax w (map (WStmt i) evs ++ [WRollback i])) = wdb w /\
  nth i (wtx (wrun tmax w (map (WStmt i) evs ++ [WRollback i]))) None = None.
Proof.
  intros tmax. induction evs as [|ev evs IH]; intros w i t Ht; cbn.
  - split; [reflexivity|apply nth_set_nth_same].
  - unfold wrun in IH. cbn [wstep].
    destruct (step tmax (st_of (wtable w i) (nth i (wlid w) 0)) ev) as [s' res]. rewrite Ht. cbn [fst].
    match goal with |- context [fold_left _ _ ?w'] => specialize (IH w' i (tb_of s')) end.
    cbn in IH. rewrite nth_set_nth_same in IH. exact (IH eq_refl).
Qed.

(* ---------- witnesses ---------- *)
Definition big : Z := 9223372036854775807.
Definition g (u : Z) : option Z * Z := (None, u).
Definition x (k u : Z) : option Z * Z := (Some k, u).

Lemma alter_below_max_stuck :
  guarded big init [EInsert MPlain [g 1; g 2; g 3]; EAlter 2; EInsert MPlain [g 4]] = false /\
  ctr (run big init [EInsert MPlain [g 1; g 2; g 3]; EAlter 2]) = 2 /\ In 3 (ids (run big init [EInsert MPlain [g 1; g 2; g 3]; EAlter 2])) /\
  snd (step big (run big init [EInsert MPlain [g 1; g 2; g 3]; EAlter 2]) (EInsert MPlain [g 4])) = (false, 0).
Proof. repeat split; vm_compute; auto. Qed.

Lemma ignore_lid_shift :
  let s := run big init [EInsert MPlain [g 1]] in
  let r := step big s (EInsert MIgnore [x 1 2; g 3; x 20 4]) in
  snd r = (true, 2) /\ gens (fst r) = [1; 2] /\ lid (fst r) = 20.
Proof. repeat split; vm_compute; reflexivity. Qed.

Lemma insert_id_explicit_first :
  let r := step big init (EInsert MPlain [x 5 1; g 2]) in
  snd r = (true, 5) /\ gens (fst r) = [6] /\ lid (fst r) = 6.
Proof. repeat split; vm_compute; reflexivity. Qed.

(* TINYINT: the maximum 127 is generated, deleted and generated AGAIN (the counter is pinned, it does not wrap) *)
Lemma max_id_reused_after_delete :
  let s := run 127 init [EAlter 127; EInsert MPlain [g 1]; EDelEq 127; EInsert MPlain [g 2]] in
  gens s = [127; 127] /\ ctr s = 127.
Proof. split; vm_compute; reflexivity. Qed.

(* REPLACE generates 2 but LAST_INSERT_ID() and OkResult.InsertID stay at the value of the statement before *)
Lemma replace_keeps_lid :
  let s := run big init [EInsert MPlain [g 1]] in
  let r := step big s (EInsert MReplace [g 2]) in
  snd r = (true, 1) /\ gens (fst r) = [1; 2] /\ lid (fst r) = 1.
Proof. repeat split; vm_compute; reflexivity. Qed.

(* ODKU: the row before the first generated one takes the UPDATE path and does not count down *)
Lemma odku_lid_shift :
  let s := run big init [EInsert MPlain [g 1]] in
  let r := step big s (EInsert (MOdku OSetV) [x 1 2; g 3; x 20 4]) in
  snd r = (true, 20) /\ gens (fst r) = [1; 2] /\ lid (fst r) = 20.
Proof. repeat split; vm_compute; reflexivity. Qed.

(* UPDATE does not move the counter: id 1 becomes 2 = the counter; the guard is violated and every later generated insert fails *)
Lemma update_to_counter_stuck :
  let h := [EInsert MPlain [g 1]; EUpdId 1 2] in
  guarded big init h = false /\ ctr (run big init h) = 2 /\ ids (run big init h) = [2] /\
  snd (step big (run big init h) (EInsert MPlain [g 2])) = (false, 0) /\
  run big (run big init h) [EInsert MPlain [g 2]; EInsert MPlain [g 3]] = run big init h.
Proof. repeat split; vm_compute; auto. Qed.

(* the same through ON DUPLICATE KEY UPDATE id = id + 5 *)
Lemma odku_add_above_counter :
  let h := [EInsert MPlain [g 1]; EInsert (MOdku (OAdd 5)) [g 1]] in
  guarded big init h = false /\ ctr (run big init h) = 2 /\ ids (run big init h) = [6].
Proof. repeat split; vm_compute; auto. Qed.

(* INSERT IGNORE, two copies of the table data: (NULL -> 1), (100 skipped: u duplicate; only the session copy is raised),
   then (NULL -> 100); but when the skipped row is the last one the raise is lost *)
Lemma ignore_two_copies :
  let s := run big init [EInsert MPlain [g 1]] in
  ids (fst (step big s (EInsert MIgnore [g 2; x 100 1; g 3]))) = [1; 2; 100] /\
  ctr (fst (step big s (EInsert MIgnore [g 2; x 100 1; g 3]))) = 101 /\
  ctr (fst (step big s (EInsert MIgnore [g 2; x 100 1]))) = 3 /\
  ctr (fst (step big s (EInsert MIgnore [x 100 1]))) = 100.
Proof. repeat split; vm_compute; reflexivity. Qed.

(* sessions 0 and 1: 0 opens a transaction and generates 2 in its private copy, 1 generates 2 in the stored table, 0
   commits: both statements succeeded and reported 2; the stored table is 0's copy *)
Definition interleaved : list wevent :=
  [WStmt 0 (EInsert MPlain [g 1]); WBegin 0; WStmt 0 (EInsert MPlain [g 2]); WStmt 1 (EInsert MPlain [g 3]); WCommit 0].

Lemma interleaved_same_id :
  let w := wrun big winit interleaved in
  nth 0 (wlid w) 0 = 2 /\ nth 1 (wlid w) 0 = 2 /\ t_rows (wdb w) = [(1, 1); (2, 2)] /\
  snd (wstep big (wrun big winit (firstn 2 interleaved)) (WStmt 0 (EInsert MPlain [g 2]))) = (true, 2) /\
  snd (wstep big (wrun big winit (firstn 3 interleaved)) (WStmt 1 (EInsert MPlain [g 3]))) = (true, 2).
Proof. repeat split; vm_compute; reflexivity. Qed.

(* ids generated inside a rolled-back transaction are generated again (the decision: uniqueness is over committed statements) *)
Lemma rollback_reuses :
  let w := wrun big winit [WStmt 0 (EInsert MPlain [g 1]); WBegin 0; WStmt 0 (EInsert MPlain [g 2]); WRollback 0; WStmt 0 (EInsert MPlain [g 2])] in
  t_gens (wdb w) = [1; 2] /\ t_ctr (wdb w) = 3.
Proof. split; vm_compute; reflexivity. Qed.
