package main

import (
	"fmt"
	"os"

	"verifharness/lib/eng"
)

func main() {
	e := eng.New("db")
	s := e.Session()
	s.MustExec("create table dup (i int primary key)", "insert into dup values (1)")
	bodies := []string{
		"begin declare h int default 0; declare x int default 1; begin declare x int default 2; declare exit handler for sqlexception set h = 1; signal sqlstate '45000'; set @a = 1; end; set @o = x; set @h = h; end",
		"begin declare h int default 0; declare x int default 1; begin declare exit handler for sqlexception set h = 1; begin declare x int default 3; insert into dup values (1); set @a = 1; end; set @b = 1; end; set @o = x; set @h = h; end",
		"begin declare h int default 0; declare x int default 1; declare continue handler for sqlexception set h = 7; signal sqlstate '45000'; set @a = 1; set @o = x; set @h = h; end",
		"begin declare h int default 0; declare continue handler for sqlexception set h = 10; begin declare continue handler for sqlexception set h = 20; signal sqlstate '45000'; set @a = 1; end; set @o = 5; set @h = h; end",
		"begin declare h int default 0; begin declare exit handler for sqlexception set h = 10; begin declare exit handler for sqlexception set h = 20; signal sqlstate '45000'; set @a = 1; end; set @b = 1; end; set @o = 5; set @h = h; end",
		"begin declare h int default 0; declare i int default 0; declare continue handler for sqlexception set h = h + 1; while i < 3 do set i = i + 1; signal sqlstate '45000'; end while; set @o = i; set @h = h; end",
		"begin declare h int default 0; declare i int default 0; l1: while i < 3 do set i = i + 1; begin declare exit handler for sqlexception set h = h + 1; if i = 2 then signal sqlstate '45000'; end if; set @a = i; end; set @b = i; end while; set @o = i; set @h = h; end",
	}
	which := os.Args[1]
	for i, b := range bodies {
		if fmt.Sprint(i+1) != which {
			continue
		}
		s.Query("drop procedure if exists p")
		for _, v := range []string{"@h", "@a", "@b", "@o"} {
			s.Query("set " + v + " = null")
		}
		if r := s.Query("create procedure p() " + b); r.Err != nil {
			fmt.Println("CREATE ERR", r.Err)
			continue
		}
		r := s.Query("call p()")
		fmt.Println("call err:", r.Err)
		fmt.Println(eng.Rows(s.Query("select @h, @a, @b, @o").Rows))
	}
}
