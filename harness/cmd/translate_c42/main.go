// translate_c42 extracts every IsReadOnly() method of package sql/plan (own or inherited through an embedded
// struct), classifies its body, and records the node type's node-typed fields and the fields its Children()
// method mentions.  Output: coq/gen/C42Flags.v (Coq table) and coq/gen/C42Flags.json (the same table for the
// Go driver).  Files are rewritten only when their content changes.
package main

import (
	"encoding/json"
	"flag"
	"fmt"
	"go/ast"
	"go/parser"
	"go/token"
	"os"
	"path/filepath"
	"sort"
	"strings"
)

type field struct {
	Name     string `json:"name"`
	Many     bool   `json:"many"`
	Embedded bool   `json:"-"`
	typ      ast.Expr
}

type typeInfo struct {
	name    string
	file    string
	fields  []field // all struct fields (in order)
	methods map[string]*ast.FuncDecl
	recv    map[string]string // method -> receiver identifier
}

// rexp mirrors Plan/C42Base.v
type rexp struct {
	Op   string   `json:"op"` // true false one and all nil data panic other
	Path []string `json:"path,omitempty"`
	A    *rexp    `json:"a,omitempty"`
	B    *rexp    `json:"b,omitempty"`
	Text string   `json:"text,omitempty"`
}

type entry struct {
	Kind      string   `json:"kind"`
	File      string   `json:"file"`
	From      string   `json:"from"` // type whose IsReadOnly method is used (== Kind unless inherited)
	Flag      *rexp    `json:"flag"`
	Fields    []field  `json:"fields"`   // node-typed fields (embedded Unary/Binary flattened)
	Children  []string `json:"children"` // node fields mentioned by Children()
	ChildKind string   `json:"children_kind"`
}

var types = map[string]*typeInfo{}

func typeName(e ast.Expr) string {
	switch x := e.(type) {
	case *ast.Ident:
		return x.Name
	case *ast.StarExpr:
		return typeName(x.X)
	case *ast.SelectorExpr:
		return typeName(x.X) + "." + x.Sel.Name
	case *ast.ArrayType:
		return "[]" + typeName(x.Elt)
	case *ast.IndexExpr:
		return typeName(x.X)
	}
	return "?"
}

func recvType(fd *ast.FuncDecl) (string, string) {
	if fd.Recv == nil || len(fd.Recv.List) != 1 {
		return "", ""
	}
	r := fd.Recv.List[0]
	id := ""
	if len(r.Names) == 1 {
		id = r.Names[0].Name
	}
	t := typeName(r.Type)
	return strings.TrimPrefix(t, "*"), id
}

// findMethod resolves a method through embedded structs (depth first, declaration order).
func findMethod(t *typeInfo, m string, seen map[string]bool) (*typeInfo, *ast.FuncDecl) {
	if t == nil || seen[t.name] {
		return nil, nil
	}
	seen[t.name] = true
	if fd, ok := t.methods[m]; ok {
		return t, fd
	}
	for _, f := range t.fields {
		if f.Embedded {
			if et, ok := types[strings.TrimPrefix(typeName(f.typ), "*")]; ok {
				if o, fd := findMethod(et, m, seen); fd != nil {
					return o, fd
				}
			}
		}
	}
	return nil, nil
}

func hasIsReadOnly(name string) bool {
	t, ok := types[name]
	if !ok {
		return false
	}
	_, fd := findMethod(t, "IsReadOnly", map[string]bool{})
	return fd != nil
}

// nodeFields lists the node-typed fields of t; embedded structs without their own IsReadOnly are flattened.
func nodeFields(t *typeInfo, seen map[string]bool) []field {
	var out []field
	if seen[t.name] {
		return nil
	}
	seen[t.name] = true
	for _, f := range t.fields {
		tn := typeName(f.typ)
		base := strings.TrimPrefix(strings.TrimPrefix(tn, "[]"), "*")
		many := strings.HasPrefix(tn, "[]")
		if f.Embedded {
			// Go promotes the fields of an embedded struct
			if et, ok := types[base]; ok {
				out = append(out, nodeFields(et, seen)...)
			}
			continue
		}
		if base == "sql.Node" || hasIsReadOnly(base) {
			out = append(out, field{Name: f.Name, Many: many})
		}
	}
	return out
}

// path turns recv.a.UnaryNode.Child into [a Child]; ok=false when the expression is not a pure selector chain
// starting at the receiver.
func path(e ast.Expr, recv string) ([]string, bool) {
	switch x := e.(type) {
	case *ast.Ident:
		if x.Name == recv {
			return []string{}, true
		}
		return nil, false
	case *ast.SelectorExpr:
		p, ok := path(x.X, recv)
		if !ok {
			return nil, false
		}
		if x.Sel.Name == "UnaryNode" || x.Sel.Name == "BinaryNode" {
			return p, true
		}
		return append(p, x.Sel.Name), true
	case *ast.ParenExpr:
		return path(x.X, recv)
	}
	return nil, false
}

func src(fset *token.FileSet, n ast.Node) string {
	return fmt.Sprintf("%s", fset.Position(n.Pos()))
}

func classifyExpr(e ast.Expr, recv string) *rexp {
	switch x := e.(type) {
	case *ast.ParenExpr:
		return classifyExpr(x.X, recv)
	case *ast.Ident:
		if x.Name == "true" {
			return &rexp{Op: "true"}
		}
		if x.Name == "false" {
			return &rexp{Op: "false"}
		}
	case *ast.CallExpr:
		if sel, ok := x.Fun.(*ast.SelectorExpr); ok && sel.Sel.Name == "IsReadOnly" && len(x.Args) == 0 {
			if p, ok := path(sel.X, recv); ok && len(p) > 0 {
				return &rexp{Op: "one", Path: p}
			}
		}
	case *ast.BinaryExpr:
		if x.Op == token.LAND {
			return &rexp{Op: "and", A: classifyExpr(x.X, recv), B: classifyExpr(x.Y, recv)}
		}
	case *ast.SelectorExpr:
		if p, ok := path(x, recv); ok && len(p) > 0 {
			return &rexp{Op: "data", Path: p}
		}
	}
	return &rexp{Op: "other"}
}

func isNil(e ast.Expr) bool {
	id, ok := e.(*ast.Ident)
	return ok && id.Name == "nil"
}

func classifyBlock(stmts []ast.Stmt, recv string) *rexp {
	if len(stmts) == 0 {
		return &rexp{Op: "other"}
	}
	switch s := stmts[0].(type) {
	case *ast.ReturnStmt:
		if len(s.Results) == 1 {
			return classifyExpr(s.Results[0], recv)
		}
	case *ast.ExprStmt:
		if c, ok := s.X.(*ast.CallExpr); ok {
			if id, ok := c.Fun.(*ast.Ident); ok && id.Name == "panic" {
				return &rexp{Op: "panic"}
			}
		}
	case *ast.IfStmt:
		if s.Init == nil && s.Else == nil {
			if b, ok := s.Cond.(*ast.BinaryExpr); ok && isNil(b.Y) && (b.Op == token.EQL || b.Op == token.NEQ) {
				if p, ok := path(b.X, recv); ok && len(p) > 0 {
					inner := classifyBlock(s.Body.List, recv)
					rest := classifyBlock(stmts[1:], recv)
					if b.Op == token.EQL {
						return &rexp{Op: "nil", Path: p, A: inner, B: rest}
					}
					return &rexp{Op: "nil", Path: p, A: rest, B: inner}
				}
			}
		}
	case *ast.RangeStmt:
		// for _, v := range recv.f { if !v.IsReadOnly() { return false } }
		p, ok := path(s.X, recv)
		v, okv := s.Value.(*ast.Ident)
		if ok && okv && len(p) > 0 && len(s.Body.List) == 1 {
			if ifs, ok := s.Body.List[0].(*ast.IfStmt); ok && ifs.Else == nil && ifs.Init == nil && len(ifs.Body.List) == 1 {
				if u, ok := ifs.Cond.(*ast.UnaryExpr); ok && u.Op == token.NOT {
					inner := classifyExpr(u.X, v.Name)
					ret := classifyBlock(ifs.Body.List, recv)
					// v.IsReadOnly() with v the loop variable: classifyExpr sees path [] -> not "one"; detect by hand
					if c, ok := u.X.(*ast.CallExpr); ok {
						if sel, ok := c.Fun.(*ast.SelectorExpr); ok && sel.Sel.Name == "IsReadOnly" {
							if id, ok := sel.X.(*ast.Ident); ok && id.Name == v.Name && ret.Op == "false" {
								_ = inner
								return &rexp{Op: "all", Path: p, A: classifyBlock(stmts[1:], recv)}
							}
						}
					}
				}
			}
		}
	}
	return &rexp{Op: "other"}
}

// mentioned collects receiver field paths (first component) used anywhere in a method body.
func mentioned(fd *ast.FuncDecl, recv string) []string {
	set := map[string]bool{}
	if fd.Body == nil || recv == "" {
		return nil
	}
	ast.Inspect(fd.Body, func(n ast.Node) bool {
		if sel, ok := n.(*ast.SelectorExpr); ok {
			if p, ok := path(sel, recv); ok && len(p) > 0 {
				set[p[0]] = true
			}
		}
		return true
	})
	var out []string
	for k := range set {
		out = append(out, k)
	}
	sort.Strings(out)
	return out
}

func coqStr(s string) string { return "\"" + strings.ReplaceAll(s, "\"", "\"\"") + "\"" }

func coqPath(p []string) string {
	q := make([]string, len(p))
	for i, s := range p {
		q[i] = coqStr(s)
	}
	return "[" + strings.Join(q, "; ") + "]"
}

func coqRexp(r *rexp) string {
	switch r.Op {
	case "true":
		return "RTrue"
	case "false":
		return "RFalse"
	case "one":
		return "(ROne " + coqPath(r.Path) + ")"
	case "and":
		return "(RAnd " + coqRexp(r.A) + " " + coqRexp(r.B) + ")"
	case "all":
		return "(RAll " + coqPath(r.Path) + " " + coqRexp(r.A) + ")"
	case "nil":
		return "(RNil " + coqPath(r.Path) + " " + coqRexp(r.A) + " " + coqRexp(r.B) + ")"
	case "data":
		return "(RData " + coqPath(r.Path) + ")"
	case "panic":
		return "RPanic"
	}
	return "ROther"
}

// ddlKinds extracts the case list of `func IsDDLNode(node sql.Node) bool { switch node.(type) { case ...: return true; default: return false } }`.
func ddlKinds(funcs []*ast.FuncDecl, funcFile map[*ast.FuncDecl]string) ([]string, string, bool) {
	for _, fd := range funcs {
		if fd.Recv != nil || fd.Name.Name != "IsDDLNode" || fd.Body == nil || len(fd.Body.List) != 1 {
			continue
		}
		ts, ok := fd.Body.List[0].(*ast.TypeSwitchStmt)
		if !ok {
			return nil, "", false
		}
		returns := func(body []ast.Stmt) (bool, bool) {
			if len(body) != 1 {
				return false, false
			}
			r, ok := body[0].(*ast.ReturnStmt)
			if !ok || len(r.Results) != 1 {
				return false, false
			}
			id, ok := r.Results[0].(*ast.Ident)
			if !ok || (id.Name != "true" && id.Name != "false") {
				return false, false
			}
			return id.Name == "true", true
		}
		var out []string
		sawDefault := false
		for _, st := range ts.Body.List {
			cc := st.(*ast.CaseClause)
			v, ok := returns(cc.Body)
			if !ok {
				return nil, "", false
			}
			if cc.List == nil {
				if v {
					return nil, "", false // default: return true is not a membership list
				}
				sawDefault = true
				continue
			}
			if !v {
				continue
			}
			for _, e := range cc.List {
				switch x := e.(type) {
				case *ast.StarExpr:
					id, ok := x.X.(*ast.Ident)
					if !ok {
						return nil, "", false
					}
					out = append(out, id.Name)
				case *ast.Ident:
					out = append(out, "val:"+x.Name)
				default:
					return nil, "", false
				}
			}
		}
		if !sawDefault {
			return nil, "", false
		}
		return out, funcFile[fd], true
	}
	return nil, "", false
}

func writeIfChanged(p string, content []byte) {
	old, err := os.ReadFile(p)
	if err == nil && string(old) == string(content) {
		return
	}
	if err := os.MkdirAll(filepath.Dir(p), 0o755); err != nil {
		panic(err)
	}
	if err := os.WriteFile(p, content, 0o644); err != nil {
		panic(err)
	}
	fmt.Println("wrote", p)
}

func main() {
	def := os.Getenv("VERIF_REPO")
	if def == "" {
		def = "/repo"
	}
	root := os.Getenv("VERIF_ROOT")
	if root == "" {
		root = "/verif"
	}
	repo := flag.String("repo", def, "repository root")
	out := flag.String("out", filepath.Join(root, "coq", "gen"), "output directory")
	flag.Parse()

	fset := token.NewFileSet()
	files, err := filepath.Glob(filepath.Join(*repo, "sql", "plan", "*.go"))
	if err != nil || len(files) == 0 {
		fmt.Fprintln(os.Stderr, "no files under", *repo)
		os.Exit(1)
	}
	sort.Strings(files)
	var funcs []*ast.FuncDecl
	funcFile := map[*ast.FuncDecl]string{}
	for _, f := range files {
		if strings.HasSuffix(f, "_test.go") {
			continue
		}
		af, err := parser.ParseFile(fset, f, nil, 0)
		if err != nil {
			fmt.Fprintln(os.Stderr, err)
			os.Exit(1)
		}
		// skip files restricted to the verif tag (hooks)
		base := filepath.Base(f)
		if strings.HasPrefix(base, "verif_") || strings.HasPrefix(base, "export_verif") {
			continue
		}
		for _, d := range af.Decls {
			switch x := d.(type) {
			case *ast.GenDecl:
				for _, sp := range x.Specs {
					ts, ok := sp.(*ast.TypeSpec)
					if !ok {
						continue
					}
					ti := &typeInfo{name: ts.Name.Name, file: base, methods: map[string]*ast.FuncDecl{}, recv: map[string]string{}}
					if st, ok := ts.Type.(*ast.StructType); ok {
						for _, fl := range st.Fields.List {
							if len(fl.Names) == 0 {
								tn := strings.TrimPrefix(typeName(fl.Type), "*")
								if i := strings.LastIndex(tn, "."); i >= 0 {
									tn = tn[i+1:]
								}
								ti.fields = append(ti.fields, field{Name: tn, Embedded: true, typ: fl.Type})
							}
							for _, n := range fl.Names {
								ti.fields = append(ti.fields, field{Name: n.Name, typ: fl.Type})
							}
						}
					}
					types[ti.name] = ti
				}
			case *ast.FuncDecl:
				funcs = append(funcs, x)
				funcFile[x] = base
			}
		}
	}
	for _, fd := range funcs {
		tn, id := recvType(fd)
		if tn == "" {
			continue
		}
		if t, ok := types[tn]; ok {
			t.methods[fd.Name.Name] = fd
			t.recv[fd.Name.Name] = id
		}
	}

	var names []string
	for n := range types {
		names = append(names, n)
	}
	sort.Strings(names)
	var entries []entry
	stats := map[string]int{}
	for _, n := range names {
		t := types[n]
		owner, fd := findMethod(t, "IsReadOnly", map[string]bool{})
		if fd == nil {
			continue
		}
		if _, isIter := t.methods["Next"]; isIter {
			continue // row iterators that embed their node (fetchIter)
		}
		var fl *rexp
		if fd.Body == nil {
			fl = &rexp{Op: "other"}
		} else {
			fl = classifyBlock(fd.Body.List, owner.recv["IsReadOnly"])
		}
		e := entry{Kind: n, File: t.file, From: owner.name, Flag: fl}
		e.Fields = nodeFields(t, map[string]bool{})
		if e.Fields == nil {
			e.Fields = []field{}
		}
		cowner, cfd := findMethod(t, "Children", map[string]bool{})
		e.Children = []string{}
		e.ChildKind = "none"
		if cfd != nil {
			e.ChildKind = "own"
			if cowner.name != n {
				e.ChildKind = "inherited:" + cowner.name
			}
			isField := map[string]bool{}
			for _, f := range e.Fields {
				isField[f.Name] = true
			}
			for _, m := range mentioned(cfd, cowner.recv["Children"]) {
				if isField[m] {
					e.Children = append(e.Children, m)
				}
			}
		}
		stats[fl.Op]++
		entries = append(entries, e)
	}

	var sb strings.Builder
	sb.WriteString("(* GENERATED by harness/cmd/translate_c42 from sql/plan/*.go -- do not edit.\n")
	sb.WriteString("   One entry per node type with an IsReadOnly method (own or inherited through an embedded struct):\n")
	sb.WriteString("   kind, source file, type providing the method, classified body, node-typed fields (name, is-slice),\n")
	sb.WriteString("   node fields mentioned by its Children() method. *)\n")
	sb.WriteString("From Coq Require Import String List.\nImport ListNotations.\nFrom GMS Require Import Plan.C42Base.\nOpen Scope string_scope.\n\n")
	ids := make([]string, len(entries))
	for i, e := range entries {
		fs := make([]string, len(e.Fields))
		for j, f := range e.Fields {
			b := "false"
			if f.Many {
				b = "true"
			}
			fs[j] = "(" + coqStr(f.Name) + ", " + b + ")"
		}
		ids[i] = fmt.Sprintf("e%d", i)
		fmt.Fprintf(&sb, "Definition e%d : entry := mkEntry %s %s %s %s [%s] %s.\n", i, coqStr(e.Kind), coqStr(e.File), coqStr(e.From), coqRexp(e.Flag),
			strings.Join(fs, "; "), coqPath(e.Children))
	}
	sb.WriteString("\nDefinition entries : list entry := [\n  " + strings.Join(ids, "; ") + "].\n")
	// the node types accepted by plan.IsDDLNode (a type switch whose listed cases return true)
	ddl, ddlFile, ok := ddlKinds(funcs, funcFile)
	if !ok {
		fmt.Fprintln(os.Stderr, "plan.IsDDLNode not found or not of the expected shape (type switch, cases returning true/false)")
		os.Exit(1)
	}
	sb.WriteString("\n(* node types for which plan.IsDDLNode (" + ddlFile + ") answers true; a non-pointer case would be spelled \"val:T\" *)\n")
	sb.WriteString("Definition ddl_kinds : list string := " + coqPath(ddl) + ".\n")
	writeIfChanged(filepath.Join(*out, "C42Flags.v"), []byte(sb.String()))
	jb, _ := json.MarshalIndent(entries, "", " ")
	writeIfChanged(filepath.Join(*out, "C42Flags.json"), append(jb, '\n'))
	keys := make([]string, 0, len(stats))
	for k := range stats {
		keys = append(keys, k)
	}
	sort.Strings(keys)
	fmt.Printf("%d kinds:", len(entries))
	for _, k := range keys {
		fmt.Printf(" %s=%d", k, stats[k])
	}
	fmt.Println()
}
