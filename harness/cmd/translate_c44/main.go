// translate_c44 extracts the system variable registry of sql/variables/system_variables.go (the map literals
// `systemVars` and `mariadbSystemVars`) with go/parser + go/ast: for every entry its key, Name, Scope, Dynamic, the
// type constructor with its bounds / values, the Default expression (evaluated when it is a constant) and whether
// NotifyChanged / ValueFunction are set.  Output: coq/gen/C44Vars.v, rewritten only when its content changes.
package main

import (
	"flag"
	"fmt"
	"go/ast"
	"go/constant"
	"go/parser"
	"go/printer"
	"go/token"
	"math"
	"math/big"
	"os"
	"path/filepath"
	"sort"
	"strconv"
	"strings"
)

var fset = token.NewFileSet()

func src(e ast.Expr) string {
	var sb strings.Builder
	printer.Fprint(&sb, fset, e)
	return strings.Join(strings.Fields(sb.String()), " ")
}

func coqStr(s string) string {
	for _, c := range []byte(s) {
		if c < 32 || c > 126 {
			fail("non-printable or non-ASCII byte in string %q", s)
		}
	}
	return `"` + strings.ReplaceAll(s, `"`, `""`) + `"`
}

func fail(f string, a ...interface{}) {
	fmt.Fprintf(os.Stderr, "translate_c44: "+f+"\n", a...)
	os.Exit(1)
}

var mathConst = map[string]constant.Value{
	"math.MaxInt64":   constant.MakeInt64(math.MaxInt64),
	"math.MinInt64":   constant.MakeInt64(math.MinInt64),
	"math.MaxInt32":   constant.MakeInt64(math.MaxInt32),
	"math.MinInt32":   constant.MakeInt64(math.MinInt32),
	"math.MaxInt16":   constant.MakeInt64(math.MaxInt16),
	"math.MaxInt8":    constant.MakeInt64(math.MaxInt8),
	"math.MaxUint64":  constant.MakeUint64(math.MaxUint64),
	"math.MaxUint32":  constant.MakeUint64(math.MaxUint32),
	"math.MaxUint16":  constant.MakeUint64(math.MaxUint16),
	"math.MaxUint8":   constant.MakeUint64(math.MaxUint8),
	"math.MaxFloat64": constant.MakeFloat64(math.MaxFloat64),
	"math.MaxFloat32": constant.MakeFloat64(math.MaxFloat32),
}

// eval evaluates a constant numeric / string expression; ok=false when it is not one.
func eval(e ast.Expr) (constant.Value, bool) {
	switch x := e.(type) {
	case *ast.BasicLit:
		v := constant.MakeFromLiteral(x.Value, x.Kind, 0)
		return v, v.Kind() != constant.Unknown
	case *ast.ParenExpr:
		return eval(x.X)
	case *ast.UnaryExpr:
		v, ok := eval(x.X)
		if !ok || (x.Op != token.SUB && x.Op != token.ADD) {
			return nil, false
		}
		return constant.UnaryOp(x.Op, v, 0), true
	case *ast.BinaryExpr:
		a, ok1 := eval(x.X)
		b, ok2 := eval(x.Y)
		if !ok1 || !ok2 {
			return nil, false
		}
		switch x.Op {
		case token.ADD, token.SUB, token.MUL:
			return constant.BinaryOp(a, x.Op, b), true
		case token.QUO:
			if a.Kind() == constant.Int && b.Kind() == constant.Int {
				return constant.BinaryOp(a, token.QUO_ASSIGN, b), true
			}
			return constant.BinaryOp(a, token.QUO, b), true
		case token.SHL:
			s, ok := constant.Uint64Val(b)
			if !ok {
				return nil, false
			}
			return constant.Shift(a, token.SHL, uint(s)), true
		}
		return nil, false
	case *ast.SelectorExpr:
		if v, ok := mathConst[src(x)]; ok {
			return v, true
		}
		if id, ok := x.X.(*ast.Ident); ok && id.Name == "sql" {
			if v, ok := sqlConsts[x.Sel.Name]; ok {
				return v, true
			}
		}
	}
	return nil, false
}

// sqlConsts: top-level string / numeric constants of package sql (const X = "..."), used for names such as
// sql.DisableMergeJoin.
var sqlConsts = map[string]constant.Value{}

func loadSQLConsts(dir string) {
	var parsed []*ast.File
	files, _ := filepath.Glob(filepath.Join(dir, "*.go"))
	for _, fn := range files {
		if strings.HasSuffix(fn, "_test.go") {
			continue
		}
		f, err := parser.ParseFile(token.NewFileSet(), fn, nil, 0)
		if err != nil {
			continue
		}
		for _, d := range f.Decls {
			gd, ok := d.(*ast.GenDecl)
			if !ok || gd.Tok != token.CONST {
				continue
			}
			for _, sp := range gd.Specs {
				vs := sp.(*ast.ValueSpec)
				for i, nm := range vs.Names {
					if i < len(vs.Values) {
						if bl, ok := vs.Values[i].(*ast.BasicLit); ok {
							sqlConsts[nm.Name] = constant.MakeFromLiteral(bl.Value, bl.Kind, 0)
						}
					}
				}
			}
		}
		parsed = append(parsed, f)
	}
	// second pass: package-level  var X = strings.Join([]string{A, B, "c"}, ",")  over string constants (sql.DefaultSqlMode)
	for _, f := range parsed {
		for _, d := range f.Decls {
			gd, ok := d.(*ast.GenDecl)
			if !ok || gd.Tok != token.VAR {
				continue
			}
			for _, sp := range gd.Specs {
				vs := sp.(*ast.ValueSpec)
				for i, nm := range vs.Names {
					if i >= len(vs.Values) {
						continue
					}
					call, ok := vs.Values[i].(*ast.CallExpr)
					if !ok || src(call.Fun) != "strings.Join" || len(call.Args) != 2 {
						continue
					}
					lit, ok := call.Args[0].(*ast.CompositeLit)
					sep, ok2 := call.Args[1].(*ast.BasicLit)
					if !ok || !ok2 || sep.Kind != token.STRING {
						continue
					}
					sepS, _ := strconv.Unquote(sep.Value)
					var parts []string
					good := true
					for _, el := range lit.Elts {
						var v constant.Value
						switch x := el.(type) {
						case *ast.BasicLit:
							v = constant.MakeFromLiteral(x.Value, x.Kind, 0)
						case *ast.Ident:
							v = sqlConsts[x.Name]
						}
						if v == nil || v.Kind() != constant.String {
							good = false
							break
						}
						parts = append(parts, constant.StringVal(v))
					}
					if good {
						sqlConsts[nm.Name] = constant.MakeString(strings.Join(parts, sepS))
					}
				}
			}
		}
	}
}

func ratOf(v constant.Value) (*big.Rat, bool) {
	switch v.Kind() {
	case constant.Int, constant.Float:
		switch t := constant.Val(constant.ToFloat(v)).(type) {
		case *big.Rat:
			return t, true
		case *big.Float:
			r, _ := t.Rat(nil)
			return r, r != nil
		}
		if i, ok := constant.Val(v).(int64); ok {
			return new(big.Rat).SetInt64(i), true
		}
		if i, ok := constant.Val(v).(*big.Int); ok {
			return new(big.Rat).SetInt(i), true
		}
	}
	return nil, false
}

func intOf(e ast.Expr) (*big.Int, bool) {
	v, ok := eval(e)
	if !ok {
		return nil, false
	}
	r, ok := ratOf(v)
	if !ok || !r.IsInt() {
		return nil, false
	}
	return r.Num(), true
}

func coqZ(i *big.Int) string {
	if i.Sign() < 0 {
		return "(" + i.String() + ")%Z"
	}
	return i.String() + "%Z"
}

func coqBool(b bool) string {
	if b {
		return "true"
	}
	return "false"
}

var kinds = map[string]string{"int": "KInt", "int8": "KInt8", "int16": "KInt16", "int32": "KInt32", "int64": "KInt64",
	"uint": "KUint", "uint8": "KUint8", "uint16": "KUint16", "uint32": "KUint32", "uint64": "KUint64"}

// float64 values are emitted as the exact rational of the float64 nearest to the constant
func coqFloat(r *big.Rat) string {
	f, _ := r.Float64()
	fr := new(big.Rat)
	if fr.SetFloat64(f) == nil {
		return ""
	}
	return fmt.Sprintf("(GF %s %s%%positive)", coqZ(fr.Num()), fr.Denom().String())
}

func defaultOf(e ast.Expr) string {
	opq := func() string { return "(GOpq " + coqStr(src(e)) + ")" }
	if c, ok := e.(*ast.CallExpr); ok && len(c.Args) == 1 {
		if id, ok := c.Fun.(*ast.Ident); ok {
			if k, ok := kinds[id.Name]; ok {
				i, ok := intOf(c.Args[0])
				if !ok {
					return opq()
				}
				return fmt.Sprintf("(GI %s %s)", k, coqZ(i))
			}
			if id.Name == "float64" || id.Name == "float32" {
				v, ok := eval(c.Args[0])
				if !ok {
					return opq()
				}
				r, ok := ratOf(v)
				if !ok {
					return opq()
				}
				if s := coqFloat(r); s != "" {
					return s
				}
				return opq()
			}
			if id.Name == "string" {
				if v, ok := eval(c.Args[0]); ok && v.Kind() == constant.String {
					return "(GS " + coqStr(constant.StringVal(v)) + ")"
				}
			}
		}
		return opq()
	}
	if id, ok := e.(*ast.Ident); ok {
		switch id.Name {
		case "true":
			return "(GBool true)"
		case "false":
			return "(GBool false)"
		case "nil":
			return "GNil"
		}
		return opq()
	}
	v, ok := eval(e)
	if !ok {
		return opq()
	}
	switch v.Kind() {
	case constant.String:
		return "(GS " + coqStr(constant.StringVal(v)) + ")"
	case constant.Int: // untyped integer constant in an interface{} field: Go type int
		r, _ := ratOf(v)
		return fmt.Sprintf("(GI KInt %s)", coqZ(r.Num()))
	case constant.Float:
		r, ok := ratOf(v)
		if ok {
			if s := coqFloat(r); s != "" {
				return s
			}
		}
	}
	return opq()
}

func strArgs(args []ast.Expr) ([]string, bool) {
	out := make([]string, len(args))
	for i, a := range args {
		v, ok := eval(a)
		if !ok || v.Kind() != constant.String {
			return nil, false
		}
		out[i] = coqStr(constant.StringVal(v))
	}
	return out, true
}

func typeOf(e ast.Expr, name string) string {
	other := func() string { return "(TOther " + coqStr(src(e)) + ")" }
	c, ok := e.(*ast.CallExpr)
	if !ok {
		return other()
	}
	fn := src(c.Fun)
	fn = strings.TrimPrefix(fn, "types.")
	if len(c.Args) == 0 {
		return other()
	}
	// the first argument of every constructor is the variable name (used in error messages only)
	args := c.Args[1:]
	switch fn {
	case "NewSystemBoolType":
		if len(args) == 0 {
			return "TBool"
		}
	case "NewSystemStringType":
		if len(args) == 0 {
			return "TString"
		}
	case "NewSystemIntType":
		if len(args) == 3 {
			lo, ok1 := intOf(args[0])
			hi, ok2 := intOf(args[1])
			b, ok3 := args[2].(*ast.Ident)
			if ok1 && ok2 && ok3 && (b.Name == "true" || b.Name == "false") {
				return fmt.Sprintf("(TInt %s %s %s)", coqZ(lo), coqZ(hi), b.Name)
			}
		}
	case "NewSystemUintType":
		if len(args) == 2 {
			lo, ok1 := intOf(args[0])
			hi, ok2 := intOf(args[1])
			if ok1 && ok2 {
				return fmt.Sprintf("(TUint %s %s)", coqZ(lo), coqZ(hi))
			}
		}
	case "NewSystemDoubleType":
		if len(args) == 2 {
			lo, ok1 := intOf(args[0])
			hi, ok2 := intOf(args[1])
			if ok1 && ok2 {
				return fmt.Sprintf("(TDouble %s %s)", coqZ(lo), coqZ(hi))
			}
		}
	case "NewSystemEnumType":
		if vs, ok := strArgs(args); ok {
			return "(TEnum [" + strings.Join(vs, "; ") + "])"
		}
	case "NewSystemSetType":
		if len(args) >= 1 {
			if vs, ok := strArgs(args[1:]); ok {
				return "(TSet " + coqStr(src(args[0])) + " [" + strings.Join(vs, "; ") + "])"
			}
		}
	}
	return other()
}

var scopes = map[string]string{
	"SystemVariableScope_Global": "ScGlobal", "SystemVariableScope_Session": "ScSession", "SystemVariableScope_Both": "ScBoth",
	"SystemVariableScope_Persist": "ScPersist", "SystemVariableScope_PersistOnly": "ScPersistOnly",
	"SystemVariableScope_ResetPersist": "ScResetPersist",
}

func scopeOf(e ast.Expr) string {
	// sql.GetMysqlScope(sql.SystemVariableScope_X)  or  &sql.MysqlScope{Type: sql.SystemVariableScope_X}
	var arg ast.Expr
	switch x := e.(type) {
	case *ast.CallExpr:
		if strings.HasSuffix(src(x.Fun), "GetMysqlScope") && len(x.Args) == 1 {
			arg = x.Args[0]
		}
	case *ast.UnaryExpr:
		if cl, ok := x.X.(*ast.CompositeLit); ok && len(cl.Elts) == 1 {
			if kv, ok := cl.Elts[0].(*ast.KeyValueExpr); ok {
				arg = kv.Value
			} else {
				arg = cl.Elts[0]
			}
		}
	}
	if arg == nil {
		return "ScOther"
	}
	s := src(arg)
	if i := strings.LastIndex(s, "."); i >= 0 {
		s = s[i+1:]
	}
	if c, ok := scopes[s]; ok {
		return c
	}
	return "ScOther"
}

type entry struct {
	key, coq string
}

func writeIfChanged(p string, content []byte) {
	old, err := os.ReadFile(p)
	if err == nil && string(old) == string(content) {
		return
	}
	if err := os.MkdirAll(filepath.Dir(p), 0o755); err != nil {
		panic(err)
	}
	if err := os.WriteFile(p, content, 0o644); err != nil {
		panic(err)
	}
	fmt.Println("wrote", p)
}

func main() {
	def := os.Getenv("VERIF_REPO")
	if def == "" {
		def = "/repo"
	}
	root := os.Getenv("VERIF_ROOT")
	if root == "" {
		root = "/verif"
	}
	repo := flag.String("repo", def, "repository root")
	out := flag.String("out", filepath.Join(root, "coq", "gen"), "output directory")
	flag.Parse()

	loadSQLConsts(filepath.Join(*repo, "sql"))
	path := filepath.Join(*repo, "sql", "variables", "system_variables.go")
	f, err := parser.ParseFile(fset, path, nil, 0)
	if err != nil {
		fail("%v", err)
	}
	stats := map[string]int{}
	var all []entry
	seen := map[string]bool{}
	found := map[string]bool{}
	for _, d := range f.Decls {
		gd, ok := d.(*ast.GenDecl)
		if !ok || gd.Tok != token.VAR {
			continue
		}
		for _, sp := range gd.Specs {
			vs := sp.(*ast.ValueSpec)
			for i, nm := range vs.Names {
				if nm.Name != "systemVars" && nm.Name != "mariadbSystemVars" {
					continue
				}
				if i >= len(vs.Values) {
					fail("%s has no initialiser", nm.Name)
				}
				cl, ok := vs.Values[i].(*ast.CompositeLit)
				if !ok {
					fail("%s is not a composite literal", nm.Name)
				}
				found[nm.Name] = true
				var entries []entry
				for _, el := range cl.Elts {
					kv, ok := el.(*ast.KeyValueExpr)
					if !ok {
						fail("%s: element without key", nm.Name)
					}
					kc, ok := eval(kv.Key)
					if !ok || kc.Kind() != constant.String {
						fail("%s: non-constant key %s", nm.Name, src(kv.Key))
					}
					key := constant.StringVal(kc)
					if seen[key] {
						fail("duplicate key %q", key)
					}
					seen[key] = true
					val := kv.Value
					if u, ok := val.(*ast.UnaryExpr); ok && u.Op == token.AND {
						val = u.X
					}
					lit, ok := val.(*ast.CompositeLit)
					if !ok || !strings.HasSuffix(src(lit.Type), "MysqlSystemVariable") {
						fail("%s[%q]: not a MysqlSystemVariable literal: %s", nm.Name, key, src(kv.Value))
					}
					fields := map[string]ast.Expr{}
					for _, fe := range lit.Elts {
						fkv, ok := fe.(*ast.KeyValueExpr)
						if !ok {
							fail("%s[%q]: positional field", nm.Name, key)
						}
						fields[src(fkv.Key)] = fkv.Value
					}
					name := ""
					if e, ok := fields["Name"]; ok {
						if v, ok := eval(e); ok && v.Kind() == constant.String {
							name = constant.StringVal(v)
						} else {
							fail("%s[%q]: non-constant Name", nm.Name, key)
						}
					}
					sc := "ScGlobal" // zero value of a nil *MysqlScope would panic; an absent Scope is reported as ScOther
					if e, ok := fields["Scope"]; ok {
						sc = scopeOf(e)
					} else {
						sc = "ScOther"
					}
					dyn := false
					if e, ok := fields["Dynamic"]; ok {
						id, ok := e.(*ast.Ident)
						if !ok || (id.Name != "true" && id.Name != "false") {
							fail("%s[%q]: non-literal Dynamic", nm.Name, key)
						}
						dyn = id.Name == "true"
					}
					ty := `(TOther "")`
					if e, ok := fields["Type"]; ok {
						ty = typeOf(e, name)
					}
					df := "GNil"
					if e, ok := fields["Default"]; ok {
						df = defaultOf(e)
					}
					isSet := func(k string) bool {
						e, ok := fields[k]
						if !ok {
							return false
						}
						id, isId := e.(*ast.Ident)
						return !(isId && id.Name == "nil")
					}
					stats[strings.Fields(strings.Trim(ty, "()"))[0]]++
					entries = append(entries, entry{key, fmt.Sprintf("mkVar %s %s %s %s %s %s %s %s", coqStr(key), coqStr(name), sc,
						coqBool(dyn), ty, df, coqBool(isSet("NotifyChanged")), coqBool(isSet("ValueFunction")))})
				}
				sort.Slice(entries, func(a, b int) bool { return entries[a].key < entries[b].key })
				all = append(all, entries...)
			}
		}
	}
	if !found["systemVars"] {
		fail("map literal systemVars not found in %s", path)
	}
	var sb strings.Builder
	sb.WriteString("(* GENERATED by harness/cmd/translate_c44 from sql/variables/system_variables.go -- do not edit.\n")
	sb.WriteString("   One entry per element of the map literals systemVars and mariadbSystemVars: key, Name, Scope, Dynamic,\n")
	sb.WriteString("   type constructor with bounds / values, Default, NotifyChanged set, ValueFunction set. *)\n")
	sb.WriteString("From Coq Require Import String ZArith List.\nImport ListNotations.\nFrom GMS Require Import Sys.C44SysVarsBase.\nOpen Scope string_scope.\n\n")
	ids := make([]string, len(all))
	for i, e := range all {
		ids[i] = "v" + strconv.Itoa(i)
		fmt.Fprintf(&sb, "Definition v%d : sysvar := %s.\n", i, e.coq)
	}
	sb.WriteString("\nDefinition vars : list sysvar := [\n  " + strings.Join(ids, "; ") + "].\n")
	writeIfChanged(filepath.Join(*out, "C44Vars.v"), []byte(sb.String()))
	keys := make([]string, 0, len(stats))
	for k := range stats {
		keys = append(keys, k)
	}
	sort.Strings(keys)
	fmt.Printf("%d variables:", len(all))
	for _, k := range keys {
		fmt.Printf(" %s=%d", k, stats[k])
	}
	fmt.Println()
}
