package main

import (
	"fmt"

	"verifharness/lib/eng"
)

func main() {
	e := eng.New("db")
	s := e.Session()
	for _, q := range []string{
		"SELECT 'abc' = 'ABC' COLLATE utf8mb4_0900_ai_ci",
		"SELECT 'abc' IN ('ABC' COLLATE utf8mb4_0900_ai_ci)",
		"SELECT 'abc' COLLATE utf8mb4_0900_ai_ci IN ('ABC')",
		"SELECT 'abc' COLLATE utf8mb4_0900_ai_ci IN ('ABC', 'x')",
		"SELECT 'abc' IN ('x', 'ABC' COLLATE utf8mb4_0900_ai_ci)",
		"SELECT 'abc' LIKE 'ABC' COLLATE utf8mb4_0900_ai_ci",
		"CREATE TABLE t (a VARCHAR(10) COLLATE utf8mb4_0900_ai_ci)",
		"INSERT INTO t VALUES ('abc')",
		"SELECT a = 'ABC', a IN ('ABC'), a IN ('ABC','x'), a LIKE 'ABC' FROM t",
		"SELECT 'ABC' IN (a) FROM t",
		"SELECT 'ABC' IN (SELECT a FROM t)",
	} {
		r := s.Query(q)
		fmt.Printf("%s -> rows=%v err=%v panic=%v\n", q, eng.Rows(r.Rows), r.Err, r.Panic)
	}
}
