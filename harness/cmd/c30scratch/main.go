package main

import (
	"fmt"

	"verifharness/lib/eng"
)

func main() {
	e := eng.New("db")
	s := e.Session()
	for _, q := range []string{
		"SELECT HEX(CONVERT(_utf8mb4 x'EDA080' USING utf16))",
		"SELECT HEX(CONVERT(_utf8mb4 x'EFBFBD' USING utf16))",
		"SELECT HEX(CONVERT(_utf8mb4 x'EFBFBD' USING utf32))",
		"SELECT HEX(CONVERT(_utf8mb4 x'EFBFBD' USING utf8mb3))",
		"SELECT HEX(CONVERT(_utf8mb4 x'EFBFBD' USING latin1))",
		"SELECT HEX(CONVERT(_utf8mb4 x'61EFBFBD62' USING swe7))",
		"SELECT HEX(CONVERT(_utf8mb4 x'C3A9' USING latin1))",
		"SELECT HEX(CONVERT(_utf8mb4 x'E697A5' USING latin1))",
		"SELECT HEX(CONVERT('abc@[def' USING swe7))",
		"SELECT HEX(CONVERT(_utf8mb4 x'F09F9880' USING utf16))",
		"SELECT HEX(CONVERT(_utf8mb4 x'C3' USING utf16))",
		"SELECT CAST(JSON_EXTRACT(JSON_REPLACE('{\"a\": null}', '$.a', 1), '$.a') AS CHAR)",
		"SELECT CAST(JSON_INSERT('{\"a\": null}', '$.a', 1) AS CHAR)",
		"SELECT JSON_CONTAINS_PATH(JSON_REMOVE('{\"a\": null}', '$.a'), 'one', '$.a')",
		"SELECT CAST(JSON_EXTRACT('{\"a\": null}', '$.a') AS CHAR)",
		"SELECT CAST(CAST('[1, 2, \"a\"]' AS JSON) AS CHAR)",
	} {
		r := s.Query(q)
		fmt.Printf("%s -> rows=%v err=%v panic=%v\n", q, eng.Rows(r.Rows), r.Err, r.Panic)
	}
}
