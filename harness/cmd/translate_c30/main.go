// translate_c30 regenerates coq/gen/C30Tables.v from the RangeMap composite literals in
// <repo>/sql/encodings/*.go (go/parser + go/ast; nothing is compiled or executed).  Every package-level
// `var X ... = &RangeMap{inputEntries: ..., outputEntries: ...}` becomes `Definition X : rangemap`.
// The file is rewritten only when its content changes.  Anything the translator does not understand
// (non-literal bounds, negative multipliers, unknown fields of rangeMapEntry) is an error: exit status 1.
package main

import (
	"bytes"
	"flag"
	"fmt"
	"go/ast"
	"go/parser"
	"go/token"
	"os"
	"path/filepath"
	"sort"
	"strconv"
	"strings"
)

type entry struct {
	inR, outR [][2]uint64
	inM, outM []uint64
}

type table struct {
	name    string
	in, out [][]entry
}

func die(format string, a ...interface{}) {
	fmt.Fprintf(os.Stderr, "translate_c30: "+format+"\n", a...)
	os.Exit(1)
}

func intLit(fset *token.FileSet, e ast.Expr) uint64 {
	bl, ok := e.(*ast.BasicLit)
	if !ok || (bl.Kind != token.INT && bl.Kind != token.CHAR) {
		die("%s: expected a non-negative integer literal", fset.Position(e.Pos()))
	}
	if bl.Kind == token.CHAR {
		r, _, _, err := strconv.UnquoteChar(bl.Value[1:len(bl.Value)-1], '\'')
		if err != nil {
			die("%s: %v", fset.Position(e.Pos()), err)
		}
		return uint64(r)
	}
	v, err := strconv.ParseUint(strings.ReplaceAll(bl.Value, "_", ""), 0, 63)
	if err != nil {
		die("%s: %v", fset.Position(e.Pos()), err)
	}
	return v
}

func compLit(fset *token.FileSet, e ast.Expr, what string) *ast.CompositeLit {
	cl, ok := e.(*ast.CompositeLit)
	if !ok {
		die("%s: expected a composite literal for %s", fset.Position(e.Pos()), what)
	}
	return cl
}

func parseBounds(fset *token.FileSet, e ast.Expr) [][2]uint64 {
	var out [][2]uint64
	for _, el := range compLit(fset, e, "rangeBounds").Elts {
		pair := compLit(fset, el, "[2]byte")
		if len(pair.Elts) != 2 {
			die("%s: a bound needs exactly two elements", fset.Position(el.Pos()))
		}
		lo, hi := intLit(fset, pair.Elts[0]), intLit(fset, pair.Elts[1])
		if lo > 255 || hi > 255 {
			die("%s: bound does not fit a byte", fset.Position(el.Pos()))
		}
		out = append(out, [2]uint64{lo, hi})
	}
	return out
}

func parseInts(fset *token.FileSet, e ast.Expr) []uint64 {
	var out []uint64
	for _, el := range compLit(fset, e, "[]int").Elts {
		out = append(out, intLit(fset, el))
	}
	return out
}

func parseEntry(fset *token.FileSet, e ast.Expr) entry {
	var en entry
	seen := map[string]bool{}
	for _, el := range compLit(fset, e, "rangeMapEntry").Elts {
		kv, ok := el.(*ast.KeyValueExpr)
		if !ok {
			die("%s: rangeMapEntry literal without field names", fset.Position(el.Pos()))
		}
		key := kv.Key.(*ast.Ident).Name
		if seen[key] {
			die("%s: duplicate field %s", fset.Position(el.Pos()), key)
		}
		seen[key] = true
		switch key {
		case "inputRange":
			en.inR = parseBounds(fset, kv.Value)
		case "outputRange":
			en.outR = parseBounds(fset, kv.Value)
		case "inputMults":
			en.inM = parseInts(fset, kv.Value)
		case "outputMults":
			en.outM = parseInts(fset, kv.Value)
		default:
			die("%s: unknown rangeMapEntry field %s", fset.Position(el.Pos()), key)
		}
	}
	return en
}

func parseGroups(fset *token.FileSet, e ast.Expr) [][]entry {
	var out [][]entry
	for _, g := range compLit(fset, e, "[][]rangeMapEntry").Elts {
		if id, ok := g.(*ast.Ident); ok && id.Name == "nil" {
			out = append(out, nil)
			continue
		}
		var grp []entry
		for _, el := range compLit(fset, g, "[]rangeMapEntry").Elts {
			grp = append(grp, parseEntry(fset, el))
		}
		out = append(out, grp)
	}
	return out
}

func rangeMapLit(e ast.Expr) *ast.CompositeLit {
	if u, ok := e.(*ast.UnaryExpr); ok && u.Op == token.AND {
		e = u.X
	}
	cl, ok := e.(*ast.CompositeLit)
	if !ok {
		return nil
	}
	if id, ok := cl.Type.(*ast.Ident); ok && id.Name == "RangeMap" {
		return cl
	}
	return nil
}

func coqBounds(b [][2]uint64) string {
	parts := make([]string, len(b))
	for i, p := range b {
		parts[i] = fmt.Sprintf("(%d,%d)", p[0], p[1])
	}
	return "[" + strings.Join(parts, ";") + "]"
}

func coqInts(b []uint64) string {
	parts := make([]string, len(b))
	for i, p := range b {
		parts[i] = strconv.FormatUint(p, 10)
	}
	return "[" + strings.Join(parts, ";") + "]"
}

func coqGroups(w *bytes.Buffer, gs [][]entry) {
	w.WriteString("  [")
	for i, g := range gs {
		if i > 0 {
			w.WriteString(";\n   ")
		}
		w.WriteString("[")
		for j, e := range g {
			if j > 0 {
				w.WriteString(";\n    ")
			}
			fmt.Fprintf(w, "mkE %s %s %s %s", coqBounds(e.inR), coqBounds(e.outR), coqInts(e.inM), coqInts(e.outM))
		}
		w.WriteString("]")
	}
	w.WriteString("]")
}

func main() {
	repo := flag.String("repo", "", "repository root (default $VERIF_REPO or /repo)")
	out := flag.String("out", "", "output .v file")
	flag.Parse()
	if *repo == "" {
		*repo = os.Getenv("VERIF_REPO")
	}
	if *repo == "" {
		*repo = "/repo"
	}
	if *out == "" {
		die("-out required")
	}
	dir := filepath.Join(*repo, "sql", "encodings")
	files, err := filepath.Glob(filepath.Join(dir, "*.go"))
	if err != nil || len(files) == 0 {
		die("no Go files under %s", dir)
	}
	sort.Strings(files)
	fset := token.NewFileSet()
	var tables []table
	for _, f := range files {
		if strings.HasSuffix(f, "_test.go") {
			continue
		}
		src, err := os.ReadFile(f)
		if err != nil {
			die("%v", err)
		}
		// cheap pre-filter: the weight-table files are large and irrelevant
		if !bytes.Contains(src, []byte("RangeMap{")) {
			continue
		}
		af, err := parser.ParseFile(fset, f, src, parser.SkipObjectResolution)
		if err != nil {
			die("%v", err)
		}
		for _, d := range af.Decls {
			gd, ok := d.(*ast.GenDecl)
			if !ok || gd.Tok != token.VAR {
				continue
			}
			for _, sp := range gd.Specs {
				vs := sp.(*ast.ValueSpec)
				for i, v := range vs.Values {
					cl := rangeMapLit(v)
					if cl == nil || i >= len(vs.Names) {
						continue
					}
					t := table{name: vs.Names[i].Name}
					for _, el := range cl.Elts {
						kv, ok := el.(*ast.KeyValueExpr)
						if !ok {
							die("%s: RangeMap literal without field names", fset.Position(el.Pos()))
						}
						switch kv.Key.(*ast.Ident).Name {
						case "inputEntries":
							t.in = parseGroups(fset, kv.Value)
						case "outputEntries":
							t.out = parseGroups(fset, kv.Value)
						case "toUpper", "toLower":
						default:
							die("%s: unknown RangeMap field", fset.Position(el.Pos()))
						}
					}
					tables = append(tables, t)
				}
			}
		}
	}
	if len(tables) == 0 {
		die("no RangeMap literal found under %s", dir)
	}
	sort.Slice(tables, func(i, j int) bool { return tables[i].name < tables[j].name })
	var w bytes.Buffer
	w.WriteString("(* GENERATED by harness/cmd/translate_c30 from sql/encodings/*.go (RangeMap literals). Do not edit. *)\n")
	w.WriteString("From Coq Require Import List NArith.\nImport ListNotations.\nFrom GMS Require Import Codec.Charset.\nOpen Scope N_scope.\n\n")
	names := []string{}
	for _, t := range tables {
		fmt.Fprintf(&w, "Definition %s : rangemap := mkMap\n", t.name)
		coqGroups(&w, t.in)
		w.WriteString("\n")
		coqGroups(&w, t.out)
		w.WriteString(".\n\n")
		names = append(names, t.name)
	}
	fmt.Fprintf(&w, "Definition all_tables : list rangemap := [%s].\n", strings.Join(names, "; "))
	fmt.Fprintf(&w, "Definition table_count : N := %d.\n", len(names))
	old, err := os.ReadFile(*out)
	if err == nil && bytes.Equal(old, w.Bytes()) {
		fmt.Printf("translate_c30: %d tables, %s unchanged\n", len(names), *out)
		return
	}
	if err := os.MkdirAll(filepath.Dir(*out), 0o755); err != nil {
		die("%v", err)
	}
	tmp := *out + ".tmp"
	if err := os.WriteFile(tmp, w.Bytes(), 0o644); err != nil {
		die("%v", err)
	}
	if err := os.Rename(tmp, *out); err != nil {
		die("%v", err)
	}
	fmt.Printf("translate_c30: %d tables, wrote %s\n", len(names), *out)
}
