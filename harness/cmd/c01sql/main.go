// c01sql: scratch runner used while triaging C01 findings: statements from stdin, one per line; lines starting
// with "?" are queries whose rows and chosen plan are printed.  "!rangeheap" / "!merge" / "!default" switch the coster.
package main

import (
	"bufio"
	"context"
	"fmt"
	"os"
	"strings"

	"github.com/dolthub/go-mysql-server/sql"
	"github.com/dolthub/go-mysql-server/sql/memo"

	"verifharness/lib/eng"
)

func main() {
	e := eng.New("db")
	s := e.Session()
	sc := bufio.NewScanner(os.Stdin)
	sc.Buffer(make([]byte, 1<<20), 1<<20)
	for sc.Scan() {
		line := strings.TrimSpace(sc.Text())
		switch {
		case line == "" || strings.HasPrefix(line, "#"):
		case line == "!rangeheap":
			e.Engine.Analyzer.Coster = memo.NewRangeHeapBiasedCoster()
		case line == "!merge":
			e.Engine.Analyzer.Coster = memo.NewMergeBiasedCoster()
		case line == "!lookup":
			e.Engine.Analyzer.Coster = memo.NewLookupBiasedCoster()
		case line == "!hash":
			e.Engine.Analyzer.Coster = memo.NewHashBiasedCoster()
		case line == "!default":
			e.Engine.Analyzer.Coster = memo.NewDefaultCoster()
		case strings.HasPrefix(line, "?"):
			q := strings.TrimSpace(line[1:])
			r := s.Query(q)
			fmt.Printf("%s\n  => %v err=%v\n", q, eng.Bag(r.Rows), r.Err)
			ctx := sql.NewContext(context.Background(), sql.WithSession(s.Ctx.Session))
			ctx.SetCurrentDatabase("db")
			if n, err := e.Engine.AnalyzeQuery(ctx, q); err == nil && os.Getenv("PLAN") != "" {
				fmt.Println(n.String())
			}
		default:
			if r := s.Query(line); r.Err != nil {
				fmt.Println("ERR", line, r.Err)
			}
		}
	}
}
