// smoke test of the engine helper
package main

import (
	"fmt"

	"verifharness/lib/eng"
)

func main() {
	e := eng.New("d")
	s := e.Session()
	s.MustExec("create table t (a int primary key, b varchar(10), c decimal(10,2))", "insert into t values (1,'x',1.50),(2,null,2.25)")
	r := s.Query("select * from t order by a")
	fmt.Println(eng.Rows(r.Rows), r.Err)
	r = s.Query("insert into t values (1,'y',0)")
	fmt.Println(eng.ErrKind(r.Err), r.Err)
	r = s.Query("select 9223372036854775807 + 1")
	fmt.Println(eng.Rows(r.Rows), r.Err)
	r = s.Query("update t set b = 'z' where a = 2")
	fmt.Println(eng.Rows(r.Rows), r.Err)
}
