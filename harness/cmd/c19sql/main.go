// c19sql: scratch runner used while triaging C19: statements from stdin, one per line; "---" starts a fresh engine.
// Every statement prints its rows / error and the session's warnings.
package main

import (
	"bufio"
	"fmt"
	"os"
	"strings"

	"verifharness/lib/eng"
)

func main() {
	e := eng.New("db")
	s := e.Session()
	sc := bufio.NewScanner(os.Stdin)
	sc.Buffer(make([]byte, 1<<20), 1<<20)
	for sc.Scan() {
		line := strings.TrimSpace(sc.Text())
		switch {
		case line == "" || strings.HasPrefix(line, "#"):
			fmt.Println(line)
		case line == "---":
			e = eng.New("db")
			s = e.Session()
			fmt.Println("---")
		default:
			r := s.Query(line)
			fmt.Printf("%s\n   => %v err=%v", line, eng.Rows(r.Rows), r.Err)
			if r.Panic != "" {
				fmt.Printf(" PANIC %s", r.Panic)
			}
			ws := s.Ctx.Session.Warnings()
			if len(ws) > 0 && !strings.HasPrefix(strings.ToUpper(line), "SELECT") {
				fmt.Printf(" warnings=%d", len(ws))
				for _, w := range ws {
					fmt.Printf(" [%d %s]", w.Code, w.Message)
				}
			}
			fmt.Println()
		}
	}
}
