package main

import (
	"bufio"
	"fmt"
	"os"
	"strings"

	"github.com/dolthub/go-mysql-server/sql/mysql_db"
	"verifharness/lib/eng"
)

func main() {
	mk := func() *eng.S {
		e := eng.New("db")
		mdb := e.Engine.Analyzer.Catalog.MySQLDb
		mdb.AddRootAccount()
		mdb.SetPersister(&mysql_db.NoopPersister{})
		return e.Session()
	}
	s := mk()
	sc := bufio.NewScanner(os.Stdin)
	sc.Buffer(make([]byte, 1<<20), 1<<20)
	for sc.Scan() {
		q := strings.TrimSpace(sc.Text())
		if q == "-- reset" {
			s = mk()
			fmt.Println("=========== reset")
			continue
		}
		if q == "" || strings.HasPrefix(q, "--") {
			continue
		}
		r := s.Query(q)
		fmt.Println(">>", q)
		if r.Err != nil {
			fmt.Println("   ERR:", r.Err)
			continue
		}
		var parts []string
		for _, row := range r.Rows {
			parts = append(parts, fmt.Sprint(row))
		}
		fmt.Println("   ", strings.Join(parts, " "))
	}
}
