package main

import (
	"bufio"
	"fmt"
	"os"
	"strings"

	"github.com/dolthub/go-mysql-server/sql/mysql_db"
	"verifharness/lib/eng"
)

func main() {
	e := eng.New("db")
	mdb := e.Engine.Analyzer.Catalog.MySQLDb
	mdb.AddRootAccount()
	mdb.SetPersister(&mysql_db.NoopPersister{})
	s := e.Session()
	sc := bufio.NewScanner(os.Stdin)
	sc.Buffer(make([]byte, 1<<20), 1<<20)
	for sc.Scan() {
		q := strings.TrimSpace(sc.Text())
		if q == "-- reset" {
			e = eng.New("db")
			mdb := e.Engine.Analyzer.Catalog.MySQLDb
			mdb.AddRootAccount()
			mdb.SetPersister(&mysql_db.NoopPersister{})
			s = e.Session()
			fmt.Println("=========== reset")
			continue
		}
		if q == "-- q" {
			for _, qq := range []string{
				"SELECT TABLE_NAME, COLUMN_NAME, ORDINAL_POSITION, IS_NULLABLE, COLUMN_TYPE, COLUMN_KEY FROM information_schema.COLUMNS WHERE TABLE_SCHEMA='db'",
				"SELECT TABLE_NAME, NON_UNIQUE, INDEX_NAME, SEQ_IN_INDEX, COLUMN_NAME, NULLABLE FROM information_schema.STATISTICS WHERE TABLE_SCHEMA='db'",
				"SELECT CONSTRAINT_NAME, TABLE_NAME, COLUMN_NAME, ORDINAL_POSITION, REFERENCED_TABLE_NAME, REFERENCED_COLUMN_NAME FROM information_schema.KEY_COLUMN_USAGE WHERE TABLE_SCHEMA='db'",
				"SELECT CONSTRAINT_NAME, UNIQUE_CONSTRAINT_NAME, TABLE_NAME, REFERENCED_TABLE_NAME FROM information_schema.REFERENTIAL_CONSTRAINTS WHERE CONSTRAINT_SCHEMA='db'",
				"SELECT CONSTRAINT_NAME, CHECK_CLAUSE FROM information_schema.CHECK_CONSTRAINTS WHERE CONSTRAINT_SCHEMA='db'",
			} {
				r := s.Query(qq)
				if r.Err != nil {
					fmt.Println("   ERR:", r.Err)
				}
				var parts []string
				for _, row := range r.Rows {
					parts = append(parts, fmt.Sprint(row))
				}
				fmt.Println("   ", strings.Join(parts, " "))
			}
			continue
		}
		if q == "" || strings.HasPrefix(q, "--") {
			continue
		}
		r := s.Query(q)
		fmt.Println(">>", q)
		if r.Err != nil {
			fmt.Println("   ERR:", r.Err, "kind=", eng.ErrKind(r.Err))
			continue
		}
		for _, row := range r.Rows {
			fmt.Printf("   %v\n", row)
		}
	}
}
