package main

import (
	"fmt"
	"os"

	"github.com/dolthub/go-mysql-server/memory"
	"verifharness/lib/eng"
)

func main() {
	e := eng.New("db")
	ss := map[string]*eng.S{}
	for i := 1; i+1 < len(os.Args); i += 2 {
		s, ok := ss[os.Args[i]]
		if !ok {
			s = e.Session()
			s.Ctx.Session.(*memory.Session).SetGlobals(map[string]interface{}{})
			ss[os.Args[i]] = s
		}
		q := os.Args[i+1]
		if len(q) > 8 && q[:8] == "persist:" {
			v, err := s.Ctx.Session.(*memory.Session).GetPersistedValue(q[8:])
			fmt.Printf("[%s] persisted %s = %T %v err=%v\n", os.Args[i], q[8:], v, v, err)
			continue
		}
		r := s.Query(q)
		fmt.Printf("[%s] %s\n", os.Args[i], q)
		if r.Err != nil {
			fmt.Printf("   err=%v panic=%q\n", r.Err, r.Panic)
		}
		for _, row := range r.Rows {
			for _, v := range row {
				fmt.Printf("   %T %v\n", v, v)
			}
		}
	}
}
