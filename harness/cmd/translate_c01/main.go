// translate_c01 regenerates coq/gen/C01Tables.v from /repo's current sql/memo/join_order_builder.go and
// sql/plan/join.go (go/parser + go/ast only, no type checking):
//   - the JoinType enumeration (all constant names of plan.JoinType, in source order),
//   - the lookupTableEntry constants (iota expressions evaluated),
//   - assocTable / leftAsscomTable / rightAsscomTable as 8x8 matrices of N (short rows zero-padded as Go does),
//   - getOpIdx as an association list JoinType -> index,
//   - commute as the list of join types it accepts,
//   - the if/else-if chain of checkProperty that picks the candidate null-reject relation set
//     (which edge and which side each rejectsOn* bit reads), and the filterA/filterB tests,
//   - whether any Go statement in sql/memo assigns edge.nullRejectedRels.
// The file is rewritten only when its content changes.
package main

import (
	"flag"
	"fmt"
	"go/ast"
	"go/parser"
	"go/token"
	"os"
	"path/filepath"
	"strings"
)

func die(f string, a ...interface{}) {
	fmt.Fprintf(os.Stderr, "translate_c01: "+f+"\n", a...)
	os.Exit(1)
}

type env map[string]int64

func eval(e ast.Expr, iota int64, en env) int64 {
	switch x := e.(type) {
	case *ast.BasicLit:
		var v int64
		if _, err := fmt.Sscan(x.Value, &v); err != nil {
			die("cannot read literal %s", x.Value)
		}
		return v
	case *ast.Ident:
		if x.Name == "iota" {
			return iota
		}
		v, ok := en[x.Name]
		if !ok {
			die("unknown constant %s", x.Name)
		}
		return v
	case *ast.ParenExpr:
		return eval(x.X, iota, en)
	case *ast.BinaryExpr:
		a, b := eval(x.X, iota, en), eval(x.Y, iota, en)
		switch x.Op {
		case token.OR:
			return a | b
		case token.AND:
			return a & b
		case token.SHL:
			if b < 0 {
				die("negative shift")
			}
			return a << uint(b)
		case token.ADD:
			return a + b
		case token.SUB:
			return a - b
		}
	}
	die("unsupported constant expression %T", e)
	return 0
}

func selName(e ast.Expr) string {
	switch x := e.(type) {
	case *ast.Ident:
		return x.Name
	case *ast.SelectorExpr:
		return x.Sel.Name
	}
	return ""
}

// chain of selectors a.b.c as a string
func selPath(e ast.Expr) string {
	switch x := e.(type) {
	case *ast.Ident:
		return x.Name
	case *ast.SelectorExpr:
		return selPath(x.X) + "." + x.Sel.Name
	}
	return "?"
}

func main() {
	def := os.Getenv("VERIF_REPO")
	if def == "" {
		def = "/repo"
	}
	repo := flag.String("repo", def, "go-mysql-server tree")
	root := os.Getenv("VERIF_ROOT")
	if root == "" {
		root = "/verif"
	}
	out := flag.String("out", filepath.Join(root, "coq", "gen", "C01Tables.v"), "output file")
	flag.Parse()

	fset := token.NewFileSet()
	jf, err := parser.ParseFile(fset, filepath.Join(*repo, "sql/plan/join.go"), nil, 0)
	if err != nil {
		die("%v", err)
	}
	var joinTypes []string
	for _, d := range jf.Decls {
		gd, ok := d.(*ast.GenDecl)
		if !ok || gd.Tok != token.CONST {
			continue
		}
		isJT := false
		for _, s := range gd.Specs {
			vs := s.(*ast.ValueSpec)
			if id, ok := vs.Type.(*ast.Ident); ok && id.Name == "JoinType" {
				isJT = true
			}
			if isJT {
				for _, n := range vs.Names {
					joinTypes = append(joinTypes, n.Name)
				}
			}
		}
	}
	if len(joinTypes) == 0 {
		die("no JoinType constants found")
	}

	bf, err := parser.ParseFile(fset, filepath.Join(*repo, "sql/memo/join_order_builder.go"), nil, 0)
	if err != nil {
		die("%v", err)
	}
	consts := env{}
	var constOrder []string
	tables := map[string][][]int64{}
	var opIdx [][2]string // join type, idx
	var commuteOps []string
	type pick struct{ bit, edge, side string }
	var picks []pick
	var filterTests [][2]string // bit, edge
	for _, d := range bf.Decls {
		switch x := d.(type) {
		case *ast.GenDecl:
			if x.Tok == token.CONST {
				isLTE := false
				var last ast.Expr
				for i, s := range x.Specs {
					vs := s.(*ast.ValueSpec)
					if id, ok := vs.Type.(*ast.Ident); ok && id.Name == "lookupTableEntry" {
						isLTE = true
					}
					if !isLTE {
						break
					}
					if len(vs.Values) > 0 {
						last = vs.Values[0]
					}
					if last == nil || len(vs.Names) != 1 {
						die("unexpected const spec shape")
					}
					consts[vs.Names[0].Name] = eval(last, int64(i), consts)
					constOrder = append(constOrder, vs.Names[0].Name)
				}
			}
			if x.Tok == token.VAR {
				for _, s := range x.Specs {
					vs := s.(*ast.ValueSpec)
					if len(vs.Names) != 1 || len(vs.Values) != 1 {
						continue
					}
					name := vs.Names[0].Name
					if name != "assocTable" && name != "leftAsscomTable" && name != "rightAsscomTable" {
						continue
					}
					cl, ok := vs.Values[0].(*ast.CompositeLit)
					if !ok {
						die("%s is not a composite literal", name)
					}
					if len(cl.Elts) != 8 {
						die("%s: expected 8 rows, found %d", name, len(cl.Elts))
					}
					var m [][]int64
					for _, r := range cl.Elts {
						rl, ok := r.(*ast.CompositeLit)
						if !ok {
							die("%s: row is not a literal (keyed rows are not supported)", name)
						}
						if len(rl.Elts) > 8 {
							die("%s: row longer than 8", name)
						}
						row := make([]int64, 8)
						for k, e := range rl.Elts {
							if _, keyed := e.(*ast.KeyValueExpr); keyed {
								die("%s: keyed element", name)
							}
							row[k] = eval(e, 0, consts)
						}
						m = append(m, row)
					}
					tables[name] = m
				}
			}
		case *ast.FuncDecl:
			switch x.Name.Name {
			case "getOpIdx":
				for _, st := range x.Body.List {
					sw, ok := st.(*ast.SwitchStmt)
					if !ok {
						continue
					}
					for _, c := range sw.Body.List {
						cc := c.(*ast.CaseClause)
						if cc.List == nil {
							continue
						}
						if len(cc.Body) != 1 {
							die("getOpIdx: case body shape")
						}
						rs, ok := cc.Body[0].(*ast.ReturnStmt)
						if !ok || len(rs.Results) != 1 {
							die("getOpIdx: case body is not a return")
						}
						v := eval(rs.Results[0], 0, env{})
						for _, e := range cc.List {
							opIdx = append(opIdx, [2]string{selName(e), fmt.Sprint(v)})
						}
					}
				}
			case "commute":
				if len(x.Body.List) != 1 {
					die("commute: body shape")
				}
				rs, ok := x.Body.List[0].(*ast.ReturnStmt)
				if !ok || len(rs.Results) != 1 {
					die("commute: body shape")
				}
				var walk func(e ast.Expr)
				walk = func(e ast.Expr) {
					switch b := e.(type) {
					case *ast.ParenExpr:
						walk(b.X)
					case *ast.BinaryExpr:
						if b.Op == token.LOR {
							walk(b.X)
							walk(b.Y)
							return
						}
						if b.Op == token.EQL && selName(b.X) == "op" {
							commuteOps = append(commuteOps, selName(b.Y))
							return
						}
						die("commute: unsupported expression")
					default:
						die("commute: unsupported expression")
					}
				}
				walk(rs.Results[0])
			case "checkProperty":
				// entry&BIT != 0  ->  bit name
				bitOf := func(c ast.Expr) string {
					be, ok := c.(*ast.BinaryExpr)
					if !ok || be.Op != token.NEQ {
						die("checkProperty: condition shape")
					}
					a, ok := be.X.(*ast.BinaryExpr)
					if !ok || a.Op != token.AND || selName(a.X) != "entry" {
						die("checkProperty: condition shape")
					}
					return selName(a.Y)
				}
				for _, st := range x.Body.List {
					is, ok := st.(*ast.IfStmt)
					if !ok {
						continue
					}
					if be, ok := is.Cond.(*ast.BinaryExpr); ok && be.Op == token.EQL {
						continue // entry == never / always
					}
					bit := bitOf(is.Cond)
					if strings.HasPrefix(bit, "rejectsOn") {
						for cur := is; cur != nil; {
							b := bitOf(cur.Cond)
							if len(cur.Body.List) != 1 {
								die("checkProperty: pick body shape")
							}
							as, ok := cur.Body.List[0].(*ast.AssignStmt)
							if !ok || len(as.Rhs) != 1 || selName(as.Lhs[0]) != "candidateNullRejectRels" {
								die("checkProperty: pick body shape")
							}
							p := selPath(as.Rhs[0]) // edgeA.op.leftVertices
							parts := strings.Split(p, ".")
							if len(parts) != 3 || parts[1] != "op" {
								die("checkProperty: unexpected relation set %s", p)
							}
							picks = append(picks, pick{b, parts[0], parts[2]})
							if cur.Else == nil {
								break
							}
							nx, ok := cur.Else.(*ast.IfStmt)
							if !ok {
								die("checkProperty: else shape")
							}
							cur = nx
						}
					} else if strings.HasPrefix(bit, "filter") {
						// body: if !edgeX.nullRejectedRels.Intersects(candidateNullRejectRels) { return false }
						if len(is.Body.List) != 1 {
							die("checkProperty: filter body shape")
						}
						in, ok := is.Body.List[0].(*ast.IfStmt)
						if !ok {
							die("checkProperty: filter body shape")
						}
						ue, ok := in.Cond.(*ast.UnaryExpr)
						if !ok || ue.Op != token.NOT {
							die("checkProperty: filter test shape")
						}
						call, ok := ue.X.(*ast.CallExpr)
						if !ok || len(call.Args) != 1 || selName(call.Args[0]) != "candidateNullRejectRels" {
							die("checkProperty: filter test shape")
						}
						p := selPath(call.Fun) // edgeA.nullRejectedRels.Intersects
						parts := strings.Split(p, ".")
						if len(parts) != 3 || parts[1] != "nullRejectedRels" || parts[2] != "Intersects" {
							die("checkProperty: filter test reads %s", p)
						}
						filterTests = append(filterTests, [2]string{bit, parts[0]})
					} else {
						die("checkProperty: unexpected test of bit %s", bit)
					}
				}
			}
		}
	}
	for _, n := range []string{"assocTable", "leftAsscomTable", "rightAsscomTable"} {
		if tables[n] == nil {
			die("%s not found", n)
		}
	}
	if len(opIdx) == 0 || len(commuteOps) == 0 || len(picks) == 0 || len(filterTests) == 0 {
		die("getOpIdx / commute / checkProperty not recognised")
	}

	// does any file of sql/memo assign .nullRejectedRels ?
	assigned := false
	files, _ := filepath.Glob(filepath.Join(*repo, "sql/memo/*.go"))
	for _, f := range files {
		if strings.HasSuffix(f, "_test.go") || strings.Contains(filepath.Base(f), "verif_") {
			continue
		}
		pf, err := parser.ParseFile(fset, f, nil, 0)
		if err != nil {
			die("%v", err)
		}
		ast.Inspect(pf, func(n ast.Node) bool {
			switch x := n.(type) {
			case *ast.AssignStmt:
				for _, l := range x.Lhs {
					if se, ok := l.(*ast.SelectorExpr); ok && se.Sel.Name == "nullRejectedRels" {
						assigned = true
					}
				}
			case *ast.KeyValueExpr:
				if id, ok := x.Key.(*ast.Ident); ok && id.Name == "nullRejectedRels" {
					assigned = true
				}
			}
			return true
		})
	}

	var sb strings.Builder
	sb.WriteString("(* GENERATED by harness/cmd/translate_c01 from sql/plan/join.go and sql/memo/join_order_builder.go. Do not edit. *)\n")
	sb.WriteString("From Coq Require Import List NArith.\nImport ListNotations.\nOpen Scope N_scope.\n\n")
	sb.WriteString("Inductive JoinType : Set :=\n")
	for _, j := range joinTypes {
		sb.WriteString("  | " + j + "\n")
	}
	sb.WriteString(".\n\n")
	fmt.Fprintf(&sb, "(* in declaration order = numeric value of the Go constant *)\nDefinition joinTypeByValue : list JoinType := [%s].\n\n", strings.Join(joinTypes, "; "))
	sb.WriteString("Inductive EdgeName : Set := edgeA | edgeB.\nInductive SideName : Set := leftVertices | rightVertices.\n\n")
	for _, c := range constOrder {
		fmt.Fprintf(&sb, "Definition %s : N := %d.\n", c, consts[c])
	}
	sb.WriteString("\n")
	for _, n := range []string{"assocTable", "leftAsscomTable", "rightAsscomTable"} {
		fmt.Fprintf(&sb, "Definition %s : list (list N) := [\n", n)
		for i, row := range tables[n] {
			parts := make([]string, len(row))
			for k, v := range row {
				parts[k] = fmt.Sprint(v)
			}
			sep := ";"
			if i == len(tables[n])-1 {
				sep = ""
			}
			fmt.Fprintf(&sb, "  [%s]%s\n", strings.Join(parts, "; "), sep)
		}
		sb.WriteString("].\n\n")
	}
	sb.WriteString("Definition getOpIdx : list (JoinType * N) := [\n")
	for i, p := range opIdx {
		sep := ";"
		if i == len(opIdx)-1 {
			sep = ""
		}
		fmt.Fprintf(&sb, "  (%s, %s)%s\n", p[0], p[1], sep)
	}
	sb.WriteString("].\n\n")
	fmt.Fprintf(&sb, "Definition commuteOps : list JoinType := [%s].\n\n", strings.Join(commuteOps, "; "))
	sb.WriteString("(* checkProperty: first matching bit selects the candidate relation set *)\n")
	sb.WriteString("Definition candidatePicks : list (N * (EdgeName * SideName)) := [\n")
	for i, p := range picks {
		sep := ";"
		if i == len(picks)-1 {
			sep = ""
		}
		fmt.Fprintf(&sb, "  (%s, (%s, %s))%s\n", p.bit, p.edge, p.side, sep)
	}
	sb.WriteString("].\n\n")
	sb.WriteString("(* checkProperty: bit set => that edge's nullRejectedRels must intersect the candidate set *)\n")
	sb.WriteString("Definition filterTests : list (N * EdgeName) := [\n")
	for i, p := range filterTests {
		sep := ";"
		if i == len(filterTests)-1 {
			sep = ""
		}
		fmt.Fprintf(&sb, "  (%s, %s)%s\n", p[0], p[1], sep)
	}
	sb.WriteString("].\n\n")
	fmt.Fprintf(&sb, "(* true iff some statement in sql/memo assigns edge.nullRejectedRels *)\nDefinition nullRejectedRelsAssigned : bool := %v.\n", assigned)

	want := sb.String()
	have, _ := os.ReadFile(*out)
	if string(have) == want {
		fmt.Println("translate_c01: up to date", *out)
		return
	}
	if err := os.MkdirAll(filepath.Dir(*out), 0o755); err != nil {
		die("%v", err)
	}
	if err := os.WriteFile(*out, []byte(want), 0o644); err != nil {
		die("%v", err)
	}
	fmt.Println("translate_c01: wrote", *out)
}
