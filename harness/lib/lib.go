// Package lib is the shared scaffolding of the implementation-side drivers (one main package per property
// under /verif/harness/props/<id>).  A driver generates cases from one splitmix64 stream, runs the real
// code from /repo on them, records the observed outputs as Coq terms (cases_<k>.v shards that the check
// driver compiles against the Coq model) and evaluates the property predicate on the implementation alone.
package lib

import (
	"encoding/json"
	"flag"
	"fmt"
	"os"
	"path/filepath"
	"sort"
	"strings"
)

// ---------- PRNG (splitmix64) ----------

type RNG struct{ s uint64 }

func NewRNG(seed uint64) *RNG { return &RNG{s: seed} }

func (r *RNG) Uint64() uint64 {
	r.s += 0x9E3779B97F4A7C15
	z := r.s
	z = (z ^ (z >> 30)) * 0xBF58476D1CE4E5B9
	z = (z ^ (z >> 27)) * 0x94D049BB133111EB
	return z ^ (z >> 31)
}

// Intn returns a value in [0,n).
func (r *RNG) Intn(n int) int {
	if n <= 0 {
		return 0
	}
	return int(r.Uint64() % uint64(n))
}

// Range returns a value in [lo,hi].
func (r *RNG) Range(lo, hi int) int { return lo + r.Intn(hi-lo+1) }

func (r *RNG) Bool() bool { return r.Uint64()&1 == 1 }

// Chance returns true with probability num/den.
func (r *RNG) Chance(num, den int) bool { return r.Intn(den) < num }

func (r *RNG) Int63() int64 { return int64(r.Uint64() >> 1) }

// Fork derives an independent stream (so a single case can be regenerated alone).
func (r *RNG) Fork() *RNG { return NewRNG(r.Uint64()) }

func Pick[T any](r *RNG, xs []T) T { return xs[r.Intn(len(xs))] }

// ---------- Coq term printers ----------

func CoqN(n uint64) string   { return fmt.Sprintf("%d", n) }
func CoqNat(n int) string    { return fmt.Sprintf("%d", n) }
func CoqBool(b bool) string  { if b { return "true" }; return "false" }
func CoqZ(z int64) string {
	if z < 0 {
		return fmt.Sprintf("(%d)%%Z", z)
	}
	return fmt.Sprintf("%d%%Z", z)
}

// CoqZStr prints a decimal integer given as text (for values beyond int64) as a Z literal.
func CoqZStr(s string) string {
	if strings.HasPrefix(s, "-") {
		return "(" + s + ")%Z"
	}
	return s + "%Z"
}

// CoqBytes prints a byte string as a list of N literals (to be read in N_scope).
func CoqBytes(b []byte) string {
	if len(b) == 0 {
		return "[]"
	}
	var sb strings.Builder
	sb.WriteByte('[')
	for i, c := range b {
		if i > 0 {
			sb.WriteByte(';')
		}
		fmt.Fprintf(&sb, "%d", c)
	}
	sb.WriteByte(']')
	return sb.String()
}

func CoqStr(s string) string { return CoqBytes([]byte(s)) }

func CoqList(items []string) string {
	if len(items) == 0 {
		return "[]"
	}
	return "[" + strings.Join(items, "; ") + "]"
}

func CoqListOf[T any](xs []T, f func(T) string) string {
	items := make([]string, len(xs))
	for i, x := range xs {
		items[i] = f(x)
	}
	return CoqList(items)
}

func CoqTuple(items ...string) string { return "(" + strings.Join(items, ", ") + ")" }

func CoqOpt(present bool, v string) string {
	if !present {
		return "None"
	}
	return "(Some " + v + ")"
}

// ---------- run context ----------

type PredFailure struct {
	CaseID    int         `json:"case_id"`
	Signature string      `json:"signature"` // narrow classification used to match known findings
	What      string      `json:"what"`
	Replay    interface{} `json:"replay"`
}

type Summary struct {
	Property           string                 `json:"property"`
	Seed               uint64                 `json:"seed"`
	Evaluations        int                    `json:"evaluations"`
	DistinctNontrivial int                    `json:"distinct_nontrivial"`
	Rule               string                 `json:"rule"`
	Samples            []interface{}          `json:"samples"`
	Distribution       map[string]int         `json:"distribution"`
	PredChecked        int                    `json:"predicate_checked"`
	PredFailures       []PredFailure          `json:"predicate_failures"`
	Shards             []string               `json:"shards"`
	CaseReplay         map[string]interface{} `json:"-"`
	Extra              map[string]interface{} `json:"extra,omitempty"`
	Panics             int                    `json:"driver_panics"`
}

type Ctx struct {
	Prop   string
	Seed   uint64
	N      int // number of cases requested
	Tier   string
	OutDir string
	Shard  int
	R      *RNG

	// Coq shard configuration, set by the driver before the first Case call.
	Header   string // Require/Import lines
	CaseType string // Coq type of one case
	MismatchFn string // Coq function : list (N * CaseType) -> list N

	ReplayFile string

	sum      Summary
	nontriv  map[string]struct{}
	terms    []string
	replays  []interface{}
	nshard   int
	maxSamples int
}

func (c *Ctx) Count(key string) { c.sum.Distribution[key]++ }
func (c *Ctx) SetRule(s string) { c.sum.Rule = s }
func (c *Ctx) SetExtra(k string, v interface{}) {
	if c.sum.Extra == nil {
		c.sum.Extra = map[string]interface{}{}
	}
	c.sum.Extra[k] = v
}

// Case records one executed case: its Coq term (inputs + observed outputs), a human-readable replayable
// description, and a key that is non-empty iff the case is non-trivial (distinct keys are counted).
// It returns the case id.
func (c *Ctx) Case(term string, replay interface{}, nontrivialKey string) int {
	id := c.sum.Evaluations
	c.sum.Evaluations++
	if nontrivialKey != "" {
		c.nontriv[nontrivialKey] = struct{}{}
	}
	if len(c.sum.Samples) < c.maxSamples {
		c.sum.Samples = append(c.sum.Samples, replay)
	}
	c.terms = append(c.terms, fmt.Sprintf("(%d, %s)", id, term))
	c.replays = append(c.replays, replay)
	if len(c.terms) >= c.Shard {
		c.flush()
	}
	return id
}

// CaseNoModel records a case that is only checked by the implementation-side predicate.
func (c *Ctx) CaseNoModel(replay interface{}, nontrivialKey string) int {
	id := c.sum.Evaluations
	c.sum.Evaluations++
	if nontrivialKey != "" {
		c.nontriv[nontrivialKey] = struct{}{}
	}
	if len(c.sum.Samples) < c.maxSamples {
		c.sum.Samples = append(c.sum.Samples, replay)
	}
	c.replays = append(c.replays, replay)
	return id
}

func (c *Ctx) PredChecked() { c.sum.PredChecked++ }

// PredFail records a failure of the property predicate on the implementation.
func (c *Ctx) PredFail(caseID int, signature, what string, replay interface{}) {
	if len(c.sum.PredFailures) < 200 {
		c.sum.PredFailures = append(c.sum.PredFailures, PredFailure{caseID, signature, what, replay})
	}
	c.sum.Distribution["predicate_failure:"+signature]++
}

func (c *Ctx) flush() {
	if len(c.terms) == 0 {
		return
	}
	name := fmt.Sprintf("cases_%03d.v", c.nshard)
	c.nshard++
	var sb strings.Builder
	sb.WriteString(c.Header)
	sb.WriteString("\n")
	fmt.Fprintf(&sb, "Definition cases : list (N * (%s)) := [\n", c.CaseType)
	sb.WriteString(strings.Join(c.terms, ";\n"))
	sb.WriteString("\n].\n")
	fmt.Fprintf(&sb, "Definition M := Eval vm_compute in (%s cases).\nPrint M.\n", c.MismatchFn)
	must(os.WriteFile(filepath.Join(c.OutDir, name), []byte(sb.String()), 0o644))
	c.sum.Shards = append(c.sum.Shards, name)
	c.terms = c.terms[:0]
}

func must(err error) {
	if err != nil {
		fmt.Fprintln(os.Stderr, "driver error:", err)
		os.Exit(3)
	}
}

// Main parses the common flags, runs the driver body and writes summary.json (+ replays.json).
func Main(prop string, body func(c *Ctx)) {
	seed := flag.Uint64("seed", 1, "PRNG seed")
	n := flag.Int("n", 100, "number of cases")
	out := flag.String("out", "", "output directory")
	shard := flag.Int("shard", 400, "cases per Coq shard")
	tier := flag.String("tier", "quick", "quick|thorough")
	replay := flag.String("replay", "", "replay file (a JSON case written by an earlier run)")
	flag.Parse()
	if *out == "" {
		fmt.Fprintln(os.Stderr, "-out required")
		os.Exit(3)
	}
	must(os.MkdirAll(*out, 0o755))
	c := &Ctx{Prop: prop, Seed: *seed, N: *n, Tier: *tier, OutDir: *out, Shard: *shard, R: NewRNG(*seed),
		nontriv: map[string]struct{}{}, maxSamples: 5, ReplayFile: *replay}
	c.sum.Property = prop
	c.sum.Seed = *seed
	c.sum.Distribution = map[string]int{}
	c.sum.PredFailures = []PredFailure{}
	c.sum.Samples = []interface{}{}
	c.sum.Shards = []string{}
	body(c)
	c.flush()
	c.sum.DistinctNontrivial = len(c.nontriv)
	b, err := json.MarshalIndent(&c.sum, "", " ")
	must(err)
	must(os.WriteFile(filepath.Join(*out, "summary.json"), b, 0o644))
	rb, err := json.Marshal(c.replays)
	must(err)
	must(os.WriteFile(filepath.Join(*out, "replays.json"), rb, 0o644))
}

// LoadReplay reads a replay file into v.
func LoadReplay(path string, v interface{}) {
	b, err := os.ReadFile(path)
	must(err)
	// accept either the bare case or the full replay record {"case": ...}
	var rec struct {
		Case json.RawMessage `json:"case"`
	}
	if json.Unmarshal(b, &rec) == nil && len(rec.Case) > 0 {
		must(json.Unmarshal(rec.Case, v))
		return
	}
	must(json.Unmarshal(b, v))
}

// SortedKeys returns the keys of a string map in order (canonicalisation helper).
func SortedKeys[V any](m map[string]V) []string {
	ks := make([]string, 0, len(m))
	for k := range m {
		ks = append(ks, k)
	}
	sort.Strings(ks)
	return ks
}

// Recover runs f and reports whether it panicked (with the panic value printed).
func Recover(f func()) (panicked bool, val string) {
	defer func() {
		if r := recover(); r != nil {
			panicked = true
			val = fmt.Sprint(r)
		}
	}()
	f()
	return
}
