// Package eng is a thin helper around sqle.Engine over the in-memory backend for the implementation-side
// drivers: one engine, any number of sessions, statements in / canonical rows and error kinds out.
package eng

import (
	"context"
	"encoding/hex"
	"fmt"
	"io"
	"sort"
	"strings"
	"time"

	"github.com/cockroachdb/apd/v3"

	sqle "github.com/dolthub/go-mysql-server"
	"github.com/dolthub/go-mysql-server/memory"
	"github.com/dolthub/go-mysql-server/sql"
	"github.com/dolthub/go-mysql-server/sql/types"
)

type E struct {
	Pro    *memory.DbProvider
	Engine *sqle.Engine
	DB     string
	nextID uint32
}

type S struct {
	E   *E
	Ctx *sql.Context
	ID  uint32
}

// New creates an engine with one empty database.
func New(db string) *E {
	d := memory.NewDatabase(db)
	pro := memory.NewDBProvider(d)
	e := sqle.NewDefault(pro)
	return &E{Pro: pro, Engine: e, DB: db}
}

// Session opens a new session on the engine (its own connection id, autocommit on).
func (e *E) Session() *S {
	e.nextID++
	base := sql.NewBaseSessionWithClientServer("srv", sql.Client{User: "root", Address: "localhost"}, e.nextID)
	sess := memory.NewSession(base, e.Pro)
	ctx := sql.NewContext(context.Background(), sql.WithSession(sess))
	ctx.SetCurrentDatabase(e.DB)
	return &S{E: e, Ctx: ctx, ID: e.nextID}
}

type Result struct {
	Schema sql.Schema
	Rows   []sql.Row
	Err    error
	Panic  string // non-empty when the engine panicked
}

// Query runs one statement to completion. A panic inside the engine is caught and reported in Result.Panic.
func (s *S) Query(q string) (res Result) {
	defer func() {
		if r := recover(); r != nil {
			res.Panic = fmt.Sprint(r)
			res.Err = fmt.Errorf("panic: %v", r)
		}
	}()
	// a fresh context per statement, as the server does
	ctx := sql.NewContext(context.Background(), sql.WithSession(s.Ctx.Session))
	ctx.SetCurrentDatabase(s.Ctx.GetCurrentDatabase())
	sch, iter, _, err := s.E.Engine.Query(ctx, q)
	if err != nil {
		res.Err = err
		return
	}
	res.Schema = sch
	for {
		row, err := iter.Next(ctx)
		if err == io.EOF {
			break
		}
		if err != nil {
			res.Err = err
			iter.Close(ctx)
			return
		}
		res.Rows = append(res.Rows, row.Copy())
	}
	if err := iter.Close(ctx); err != nil {
		res.Err = err
	}
	s.Ctx.SetCurrentDatabase(ctx.GetCurrentDatabase())
	return
}

// MustExec runs setup statements and panics on error (driver bug, not a finding).
func (s *S) MustExec(qs ...string) {
	for _, q := range qs {
		if r := s.Query(q); r.Err != nil {
			panic(fmt.Sprintf("setup statement failed: %s: %v", q, r.Err))
		}
	}
}

// Val prints one SQL value canonically: NULL, integers in decimal, decimals in plain notation,
// strings/bytes as s:<hex>, times in a fixed layout. Floats are printed by bit pattern-independent %v and
// must not be compared across implementations.
func Val(v interface{}) string {
	switch x := v.(type) {
	case nil:
		return "NULL"
	case bool:
		if x {
			return "1"
		}
		return "0"
	case int, int8, int16, int32, int64, uint, uint8, uint16, uint32, uint64:
		return fmt.Sprintf("%d", x)
	case float32, float64:
		return fmt.Sprintf("f:%v", x)
	case string:
		return "s:" + hex.EncodeToString([]byte(x))
	case []byte:
		return "s:" + hex.EncodeToString(x)
	case *apd.Decimal:
		if x == nil {
			return "NULL"
		}
		return "d:" + x.Text('f')
	case apd.Decimal:
		return "d:" + x.Text('f')
	case time.Time:
		return "t:" + x.UTC().Format("2006-01-02 15:04:05.000000")
	case types.Timespan:
		return "ts:" + x.String()
	case types.OkResult:
		return fmt.Sprintf("ok:%d:%d:%s", x.RowsAffected, x.InsertID, infoString(x.Info))
	case fmt.Stringer:
		return "str:" + x.String()
	default:
		return fmt.Sprintf("?%T:%v", v, v)
	}
}

func infoString(i fmt.Stringer) string {
	if i == nil {
		return ""
	}
	return i.String()
}

// Row prints a row canonically.
func Row(r sql.Row) string {
	parts := make([]string, len(r))
	for i, v := range r {
		parts[i] = Val(v)
	}
	return strings.Join(parts, ",")
}

// Rows prints rows in order.
func Rows(rs []sql.Row) []string {
	out := make([]string, len(rs))
	for i, r := range rs {
		out[i] = Row(r)
	}
	return out
}

// Bag prints rows sorted (multiset comparison).
func Bag(rs []sql.Row) []string {
	out := Rows(rs)
	sort.Strings(out)
	return out
}

// ErrKind maps an engine error to a small closed enum (errors are compared by kind only).
func ErrKind(err error) string {
	if err == nil {
		return ""
	}
	msg := err.Error()
	switch {
	case strings.HasPrefix(msg, "panic:"):
		return "panic"
	case sql.ErrPrimaryKeyViolation.Is(err), sql.ErrUniqueKeyViolation.Is(err), strings.Contains(msg, "duplicate primary key"), strings.Contains(msg, "duplicate unique key"), strings.Contains(msg, "Duplicate entry"):
		return "dup-key"
	case sql.ErrCheckConstraintViolated.Is(err):
		return "check"
	case sql.ErrInsertIntoNonNullableProvidedNull.Is(err), sql.ErrInsertIntoNonNullableDefaultNullColumn.Is(err), strings.Contains(msg, "non-nullable"), strings.Contains(msg, "cannot be null"):
		return "not-null"
	case sql.ErrForeignKeyChildViolation.Is(err), sql.ErrForeignKeyParentViolation.Is(err), strings.Contains(msg, "foreign key"):
		return "fk"
	case sql.ErrSyntaxError.Is(err), strings.Contains(msg, "syntax error"):
		return "syntax"
	case sql.ErrTableNotFound.Is(err), sql.ErrColumnNotFound.Is(err), sql.ErrDatabaseNotFound.Is(err), sql.ErrTableColumnNotFound.Is(err), strings.Contains(msg, "not found"):
		return "not-found"
	case sql.ErrReadOnly.Is(err), sql.ErrReadOnlyTransaction.Is(err), strings.Contains(msg, "read-only"), strings.Contains(msg, "read only"):
		return "read-only"
	case sql.ErrPrivilegeCheckFailed.Is(err), strings.Contains(msg, "denied"):
		return "denied"
	case sql.ErrValueOutOfRange.Is(err), strings.Contains(msg, "out of range"), strings.Contains(msg, "Out of range"):
		return "out-of-range"
	case sql.ErrLockDeadlock.Is(err):
		return "deadlock"
	default:
		return "other"
	}
}
