// Package c05expr is the Go side of the C05/C06 expression layer: a small typed expression AST that prints to SQL and
// to the Coq term language of coq/Expr/C05Expr.v, a converter from the engine's sql.Expression trees back to that AST,
// and converters between engine values and model values.
package c05expr

import (
	"fmt"
	"math/big"
	"strings"

	"github.com/cockroachdb/apd/v3"

	"github.com/dolthub/go-mysql-server/sql"
	"github.com/dolthub/go-mysql-server/sql/expression"
	"github.com/dolthub/go-mysql-server/sql/types"

	"verifharness/lib"
)

// ---------- values ----------

// Val is a model value: K in {"null","int","dec","str"}.
type Val struct {
	K string `json:"k"`
	I int64  `json:"i,omitempty"` // int value, or decimal mantissa
	S int    `json:"s,omitempty"` // decimal scale
	B string `json:"b,omitempty"` // string bytes
}

func Null() Val             { return Val{K: "null"} }
func Int(i int64) Val       { return Val{K: "int", I: i} }
func Dec(m int64, s int) Val { return Val{K: "dec", I: m, S: s} }
func Str(b string) Val      { return Val{K: "str", B: b} }

func (v Val) Coq() string {
	switch v.K {
	case "null":
		return "VNull"
	case "int":
		return "(VInt " + lib.CoqZ(v.I) + ")"
	case "dec":
		return fmt.Sprintf("(VDec %s %d)", lib.CoqZ(v.I), v.S)
	default:
		return "(VStr " + lib.CoqStr(v.B) + ")"
	}
}

// DecText prints m*10^-s in plain notation with exactly s fractional digits.
func DecText(m int64, s int) string {
	neg := m < 0
	if neg {
		m = -m
	}
	d := fmt.Sprintf("%d", m)
	for len(d) <= s {
		d = "0" + d
	}
	out := d
	if s > 0 {
		out = d[:len(d)-s] + "." + d[len(d)-s:]
	}
	if neg {
		out = "-" + out
	}
	return out
}

// SQL prints the value as a SQL literal.
func (v Val) SQL() string {
	switch v.K {
	case "null":
		return "NULL"
	case "int":
		return fmt.Sprintf("%d", v.I)
	case "dec":
		return DecText(v.I, v.S)
	default:
		return "'" + strings.ReplaceAll(strings.ReplaceAll(strings.ReplaceAll(v.B, "\\", "\\\\"), "'", "''"), "\x00", "\\0") + "'"
	}
}

// Canon is a canonical text of the value (scale-sensitive, as the engine prints it).
func (v Val) Canon() string { return v.K + ":" + v.SQL() }

// ValFromGo converts a value produced by the engine.
func ValFromGo(x interface{}) (Val, error) {
	switch t := x.(type) {
	case nil:
		return Null(), nil
	case bool:
		if t {
			return Int(1), nil
		}
		return Int(0), nil
	case int8:
		return Int(int64(t)), nil
	case int16:
		return Int(int64(t)), nil
	case int32:
		return Int(int64(t)), nil
	case int64:
		return Int(t), nil
	case int:
		return Int(int64(t)), nil
	case uint8:
		return Int(int64(t)), nil
	case uint16:
		return Int(int64(t)), nil
	case uint32:
		return Int(int64(t)), nil
	case string:
		return Str(t), nil
	case []byte:
		return Str(string(t)), nil
	case *apd.Decimal:
		if t == nil {
			return Null(), nil
		}
		return decFromText(t.Text('f'), -1)
	case apd.Decimal:
		return decFromText(t.Text('f'), -1)
	}
	return Val{}, fmt.Errorf("unmodelled value %T %v", x, x)
}

func decFromText(s string, scale int) (Val, error) {
	neg := strings.HasPrefix(s, "-")
	s = strings.TrimPrefix(s, "-")
	ip, fp := s, ""
	if i := strings.IndexByte(s, '.'); i >= 0 {
		ip, fp = s[:i], s[i+1:]
	}
	if scale >= 0 {
		for len(fp) < scale {
			fp += "0"
		}
	}
	n, ok := new(big.Int).SetString(ip+fp, 10)
	if !ok || !n.IsInt64() {
		return Val{}, fmt.Errorf("unmodelled decimal %q", s)
	}
	m := n.Int64()
	if neg {
		m = -m
	}
	return Dec(m, len(fp)), nil
}

// Truthy is the reference conversion of a non-NULL value to a truth value (MySQL: numbers are true iff non-zero,
// strings through their numeric prefix).  Written independently of sql.ConvertToBool.
func Truthy(v Val) bool {
	switch v.K {
	case "int", "dec":
		return v.I != 0
	case "str":
		s := strings.TrimLeft(v.B, " \t\n\r")
		if len(s) > 0 && (s[0] == '+' || s[0] == '-') {
			s = s[1:]
		}
		dot := false
		for i := 0; i < len(s); i++ {
			c := s[i]
			switch {
			case c >= '1' && c <= '9':
				return true
			case c == '0':
			case c == '.' && !dot:
				dot = true
			default:
				return false
			}
		}
		return false
	}
	return false
}

// ---------- expressions ----------

// Ex is an expression. K: lit col cmp nseq arith neg and or xor not isnull istrue in between case raw.
type Ex struct {
	K   string `json:"k"`
	Op  string `json:"op,omitempty"`  // cmp: = < <= > >= ; arith: + - * ; istrue: "true"/"false"
	V   *Val   `json:"v,omitempty"`   // lit
	T   string `json:"t,omitempty"`   // lit/col/raw static type: null bool int dec str
	I   int    `json:"i,omitempty"`   // col index (0-based, in model-row order)
	N   string `json:"n,omitempty"`   // col name
	A   []*Ex  `json:"a,omitempty"`   // children (in: first is the left operand)
	Raw string `json:"raw,omitempty"` // raw: SQL text with %s placeholders for the children (engine-only leaf/operator)
	Alt bool   `json:"alt,omitempty"` // print variant (NOT (a = b) as a <> b, NOT (x IN ..) as x NOT IN .., ...)
}

func Lit(v Val, t string) *Ex { vv := v; return &Ex{K: "lit", V: &vv, T: t} }
func Col(i int, name, t string) *Ex { return &Ex{K: "col", I: i, N: name, T: t} }
func Bin(k, op string, a, b *Ex) *Ex { return &Ex{K: k, Op: op, A: []*Ex{a, b}} }
func Un(k string, a *Ex) *Ex { return &Ex{K: k, A: []*Ex{a}} }

// SQL prints the expression fully parenthesised.
func (e *Ex) SQL() string {
	switch e.K {
	case "lit":
		if e.T == "bool" && e.V.K == "int" {
			if e.V.I != 0 {
				return "TRUE"
			}
			return "FALSE"
		}
		return e.V.SQL()
	case "col":
		return e.N
	case "cmp":
		return "(" + e.A[0].SQL() + " " + e.Op + " " + e.A[1].SQL() + ")"
	case "nseq":
		return "(" + e.A[0].SQL() + " <=> " + e.A[1].SQL() + ")"
	case "arith":
		return "(" + e.A[0].SQL() + " " + e.Op + " " + e.A[1].SQL() + ")"
	case "neg":
		return "(- " + e.A[0].SQL() + ")"
	case "and":
		return "(" + e.A[0].SQL() + " AND " + e.A[1].SQL() + ")"
	case "or":
		return "(" + e.A[0].SQL() + " OR " + e.A[1].SQL() + ")"
	case "xor":
		return "(" + e.A[0].SQL() + " XOR " + e.A[1].SQL() + ")"
	case "not":
		c := e.A[0]
		if e.Alt {
			switch c.K {
			case "cmp":
				if c.Op == "=" {
					return "(" + c.A[0].SQL() + " <> " + c.A[1].SQL() + ")"
				}
			case "in":
				return "(" + c.A[0].SQL() + " NOT IN (" + joinSQL(c.A[1:]) + "))"
			case "between":
				return "(" + c.A[0].SQL() + " NOT BETWEEN " + c.A[1].SQL() + " AND " + c.A[2].SQL() + ")"
			case "isnull":
				return "(" + c.A[0].SQL() + " IS NOT NULL)"
			case "istrue":
				return "(" + c.A[0].SQL() + " IS NOT " + strings.ToUpper(c.Op) + ")"
			}
		}
		return "(NOT " + c.SQL() + ")"
	case "isnull":
		return "(" + e.A[0].SQL() + " IS NULL)"
	case "istrue":
		return "(" + e.A[0].SQL() + " IS " + strings.ToUpper(e.Op) + ")"
	case "in":
		return "(" + e.A[0].SQL() + " IN (" + joinSQL(e.A[1:]) + "))"
	case "between":
		return "(" + e.A[0].SQL() + " BETWEEN " + e.A[1].SQL() + " AND " + e.A[2].SQL() + ")"
	case "case":
		return "(CASE WHEN " + e.A[0].SQL() + " THEN " + e.A[1].SQL() + " ELSE " + e.A[2].SQL() + " END)"
	case "raw":
		args := make([]interface{}, len(e.A))
		for i, a := range e.A {
			args[i] = a.SQL()
		}
		return "(" + fmt.Sprintf(e.Raw, args...) + ")"
	}
	panic("bad expr kind " + e.K)
}

func joinSQL(xs []*Ex) string {
	s := make([]string, len(xs))
	for i, x := range xs {
		s[i] = x.SQL()
	}
	return strings.Join(s, ", ")
}

func coqTy(t string) string {
	switch t {
	case "null":
		return "TyNull"
	case "bool":
		return "TyBool"
	case "int":
		return "TyInt"
	case "dec":
		return "TyDec"
	default:
		return "TyStr"
	}
}

var coqCmp = map[string]string{"=": "CEq", "<": "CLt", "<=": "CLe", ">": "CGt", ">=": "CGe"}
var coqAr = map[string]string{"+": "APlus", "-": "AMinus", "*": "AMult"}

// Coq prints the expression as a term of C05Expr.expr (raw nodes cannot be printed).
func (e *Ex) Coq() string {
	switch e.K {
	case "lit":
		return "(Lit " + e.V.Coq() + " " + coqTy(e.T) + ")"
	case "col":
		return fmt.Sprintf("(Col %d%%nat %s)", e.I, coqTy(e.T))
	case "cmp":
		return "(Cmp " + coqCmp[e.Op] + " " + e.A[0].Coq() + " " + e.A[1].Coq() + ")"
	case "nseq":
		return "(NsEq " + e.A[0].Coq() + " " + e.A[1].Coq() + ")"
	case "arith":
		return "(Arith " + coqAr[e.Op] + " " + e.A[0].Coq() + " " + e.A[1].Coq() + ")"
	case "neg":
		return "(Neg " + e.A[0].Coq() + ")"
	case "and":
		return "(And " + e.A[0].Coq() + " " + e.A[1].Coq() + ")"
	case "or":
		return "(Or " + e.A[0].Coq() + " " + e.A[1].Coq() + ")"
	case "xor":
		return "(Xor " + e.A[0].Coq() + " " + e.A[1].Coq() + ")"
	case "not":
		return "(Not " + e.A[0].Coq() + ")"
	case "isnull":
		return "(IsNull " + e.A[0].Coq() + ")"
	case "istrue":
		return "(IsTrue " + lib.CoqBool(e.Op == "false") + " " + e.A[0].Coq() + ")"
	case "in":
		return "(In " + e.A[0].Coq() + " " + lib.CoqListOf(e.A[1:], func(x *Ex) string { return x.Coq() }) + ")"
	case "between":
		return "(Between " + e.A[0].Coq() + " " + e.A[1].Coq() + " " + e.A[2].Coq() + ")"
	case "case":
		return "(Case " + e.A[0].Coq() + " " + e.A[1].Coq() + " " + e.A[2].Coq() + ")"
	}
	panic("cannot print " + e.K + " as a Coq term")
}

// Equal compares two expressions structurally (print variants ignored).
func Equal(a, b *Ex) bool { return a.Coq() == b.Coq() }

// HasRaw reports whether the expression contains an engine-only node.
func (e *Ex) HasRaw() bool {
	if e.K == "raw" {
		return true
	}
	for _, a := range e.A {
		if a.HasRaw() {
			return true
		}
	}
	return false
}

// Walk visits every node.
func (e *Ex) Walk(f func(*Ex)) {
	f(e)
	for _, a := range e.A {
		a.Walk(f)
	}
}

// ---------- static types and the modelled fragment (mirror of ty_of / wt in C05Expr.v) ----------

func genTy(a, b string) string {
	if a == b {
		return a
	}
	switch {
	case a == "null":
		return b
	case b == "null":
		return a
	case a == "str" || b == "str":
		return "str"
	case a == "dec" || b == "dec":
		return "dec"
	}
	return "int"
}

func TyOf(e *Ex) string {
	switch e.K {
	case "lit", "col", "raw":
		return e.T
	case "not":
		if TyOf(e.A[0]) == "null" {
			return "null"
		}
		return "bool"
	case "arith", "neg":
		return "int"
	case "case":
		return genTy(genTy("null", TyOf(e.A[1])), TyOf(e.A[2]))
	}
	return "bool"
}

func numTy(t string) bool { return t != "str" }
func strTy(t string) bool { return t == "str" || t == "null" }
func intTy(t string) bool { return t == "int" || t == "null" }
func compat(a, b string) bool { return (numTy(a) && numTy(b)) || (strTy(a) && strTy(b)) }

func litOK(v Val, t string) bool {
	switch {
	case v.K == "null":
		return true
	case v.K == "int" && t == "bool":
		return v.I == 0 || v.I == 1
	case v.K == "int" && t == "int":
		return true
	case v.K == "dec" && t == "dec":
		return v.S == 2
	case v.K == "str" && t == "str":
		return true
	}
	return false
}

// Wt reports whether the expression lies in the fragment whose value the Coq model is meant to predict.
func Wt(e *Ex) bool {
	for _, a := range e.A {
		if !Wt(a) {
			return false
		}
	}
	t := func(i int) string { return TyOf(e.A[i]) }
	switch e.K {
	case "lit":
		return litOK(*e.V, e.T)
	case "col":
		return e.T != "null"
	case "cmp", "nseq":
		return compat(t(0), t(1))
	case "arith":
		return intTy(t(0)) && intTy(t(1))
	case "neg":
		return intTy(t(0))
	case "and", "or", "xor":
		return numTy(t(0)) && numTy(t(1))
	case "not", "istrue":
		return numTy(t(0))
	case "isnull":
		return true
	case "in":
		// mirror of same_cls: all non-NULL operand types in one class (integer-like, decimal, string)
		cls := 0
		for i := range e.A {
			k := 0
			switch t(i) {
			case "bool", "int":
				k = 1
			case "dec":
				k = 2
			case "str":
				k = 3
			}
			if k == 0 {
				continue
			}
			if cls == 0 {
				cls = k
			} else if k != cls {
				return false
			}
		}
		return true
	case "between":
		return compat(t(0), t(1)) && compat(t(0), t(2))
	case "case":
		return numTy(t(0)) && ((intTy(t(1)) && intTy(t(2))) || (strTy(t(1)) && strTy(t(2))) || (t(1) == "bool" && t(2) == "bool"))
	}
	return false
}

// ---------- engine expression -> Ex ----------

func tyFromGo(t sql.Type) (string, error) {
	switch {
	case t == types.Null:
		return "null", nil
	case t == types.Boolean:
		return "bool", nil
	case types.IsSigned(t):
		return "int", nil
	case types.IsDecimal(t):
		return "dec", nil
	case types.IsTextOnly(t):
		return "str", nil
	}
	return "", fmt.Errorf("unmodelled type %s", t)
}

// FromGo converts an engine expression into the model AST; cols maps lower-case column names to model indices.
func FromGo(ctx *sql.Context, x sql.Expression, cols map[string]int) (*Ex, error) {
	rec := func(y sql.Expression) (*Ex, error) { return FromGo(ctx, y, cols) }
	bin := func(k, op string, l, r sql.Expression) (*Ex, error) {
		a, err := rec(l)
		if err != nil {
			return nil, err
		}
		b, err := rec(r)
		if err != nil {
			return nil, err
		}
		return Bin(k, op, a, b), nil
	}
	un := func(k string, c sql.Expression) (*Ex, error) {
		a, err := rec(c)
		if err != nil {
			return nil, err
		}
		return Un(k, a), nil
	}
	switch e := x.(type) {
	case *expression.Literal:
		t, err := tyFromGo(e.Type(ctx))
		if err != nil {
			return nil, err
		}
		v, err := ValFromGo(e.Value())
		if err != nil {
			return nil, err
		}
		return Lit(v, t), nil
	case *expression.GetField:
		i, ok := cols[strings.ToLower(e.Name())]
		if !ok {
			return nil, fmt.Errorf("unknown column %s", e.Name())
		}
		t, err := tyFromGo(e.Type(ctx))
		if err != nil {
			return nil, err
		}
		return Col(i, strings.ToLower(e.Name()), t), nil
	case *expression.Equals:
		return bin("cmp", "=", e.Left(), e.Right())
	case *expression.LessThan:
		return bin("cmp", "<", e.Left(), e.Right())
	case *expression.LessThanOrEqual:
		return bin("cmp", "<=", e.Left(), e.Right())
	case *expression.GreaterThan:
		return bin("cmp", ">", e.Left(), e.Right())
	case *expression.GreaterThanOrEqual:
		return bin("cmp", ">=", e.Left(), e.Right())
	case *expression.NullSafeEquals:
		return bin("nseq", "", e.Left(), e.Right())
	case *expression.Arithmetic:
		if e.Op != "+" && e.Op != "-" && e.Op != "*" {
			return nil, fmt.Errorf("unmodelled arithmetic %s", e.Op)
		}
		return bin("arith", e.Op, e.LeftChild, e.RightChild)
	case *expression.UnaryMinus:
		return un("neg", e.Child)
	case *expression.And:
		return bin("and", "", e.LeftChild, e.RightChild)
	case *expression.Or:
		return bin("or", "", e.LeftChild, e.RightChild)
	case *expression.Xor:
		return bin("xor", "", e.LeftChild, e.RightChild)
	case *expression.Not:
		return un("not", e.Child)
	case *expression.IsNull:
		return un("isnull", e.Child)
	case *expression.IsTrue:
		r, err := un("istrue", e.Child)
		if err != nil {
			return nil, err
		}
		r.Op = "true"
		if strings.HasSuffix(e.String(), expression.IsFalseStr) {
			r.Op = "false"
		}
		return r, nil
	case *expression.InTuple:
		l, err := rec(e.Left())
		if err != nil {
			return nil, err
		}
		out := &Ex{K: "in", A: []*Ex{l}}
		tup, ok := e.Right().(expression.Tuple)
		if !ok {
			// a single-element list is not wrapped
			r, err := rec(e.Right())
			if err != nil {
				return nil, err
			}
			out.A = append(out.A, r)
			return out, nil
		}
		for _, el := range tup {
			r, err := rec(el)
			if err != nil {
				return nil, err
			}
			out.A = append(out.A, r)
		}
		return out, nil
	case *expression.Between:
		a, err := rec(e.Val)
		if err != nil {
			return nil, err
		}
		b, err := rec(e.Lower)
		if err != nil {
			return nil, err
		}
		c, err := rec(e.Upper)
		if err != nil {
			return nil, err
		}
		return &Ex{K: "between", A: []*Ex{a, b, c}}, nil
	case *expression.Case:
		if e.Expr != nil || len(e.Branches) != 1 || e.Else == nil {
			return nil, fmt.Errorf("unmodelled CASE shape")
		}
		a, err := rec(e.Branches[0].Cond)
		if err != nil {
			return nil, err
		}
		b, err := rec(e.Branches[0].Value)
		if err != nil {
			return nil, err
		}
		c, err := rec(e.Else)
		if err != nil {
			return nil, err
		}
		return &Ex{K: "case", A: []*Ex{a, b, c}}, nil
	}
	return nil, fmt.Errorf("unmodelled expression %T", x)
}
