package c05expr

import "verifharness/lib"

var intPool = []int64{-3, -1, 0, 1, 2, 3, 5, 10}
var strPool = []string{"", "a", "A", "ab", "b", "a ", "1", "abc", "B"}

// Gen is a typed random expression generator over a list of columns (shared by the C05-style drivers).
type Gen struct {
	R    *lib.RNG
	Raw  bool     // allow engine-only constructs
	Cols []*Ex    // available columns (K = "col")
}

func (g *Gen) col(t string) *Ex {
	var c []*Ex
	for _, e := range g.Cols {
		if e.T == t {
			c = append(c, e)
		}
	}
	if len(c) == 0 {
		return g.Nulllit()
	}
	e := *lib.Pick(g.R, c)
	return &e
}

func (g *Gen) Nulllit() *Ex { return Lit(Null(), "null") }

func (g *Gen) Num(d int) *Ex {
	r := g.R
	if d <= 0 || r.Chance(2, 5) {
		switch r.Intn(6) {
		case 0, 1, 2:
			return g.col("int")
		case 3, 4:
			return Lit(Int(lib.Pick(r, intPool)), "int")
		default:
			if r.Chance(1, 3) {
				return g.Nulllit()
			}
			return Lit(Int(int64(r.Range(0, 4))), "int")
		}
	}
	switch r.Intn(8) {
	case 0, 1, 2, 3:
		return Bin("arith", lib.Pick(r, []string{"+", "-", "*"}), g.Num(d-1), g.Num(d-1))
	case 4:
		return Un("neg", g.Num(d-1))
	case 5:
		if g.Raw {
			switch r.Intn(6) {
			case 0:
				return &Ex{K: "raw", T: "int", Raw: "ABS(%s)", A: []*Ex{g.Num(d - 1)}}
			case 1:
				return &Ex{K: "raw", T: "int", Raw: "COALESCE(%s, %s)", A: []*Ex{g.Num(d - 1), g.Num(d - 1)}}
			case 2:
				return &Ex{K: "raw", T: "int", Raw: "LENGTH(%s)", A: []*Ex{g.Str(d - 1)}}
			case 3:
				return &Ex{K: "raw", T: "int", Raw: "NULLIF(%s, %s)", A: []*Ex{g.Num(d - 1), g.Num(d - 1)}}
			case 4:
				return &Ex{K: "raw", T: "int", Raw: "IF(%s, %s, %s)", A: []*Ex{g.Cond(d - 1), g.Num(d - 1), g.Num(d - 1)}}
			default:
				return &Ex{K: "raw", T: "int", Raw: "CASE %s WHEN %s THEN %s WHEN %s THEN %s END", A: []*Ex{g.Num(d - 1), g.Num(0), g.Num(d - 1), g.Num(0), g.Num(d - 1)}}
			}
		}
		fallthrough
	default:
		return &Ex{K: "case", A: []*Ex{g.Cond(d - 1), g.Num(d - 1), g.Num(d - 1)}}
	}
}

func (g *Gen) Dec() *Ex {
	r := g.R
	if r.Chance(3, 5) {
		return g.col("dec")
	}
	if g.Raw && r.Chance(1, 4) {
		if r.Bool() {
			return Lit(Dec(lib.Pick(r, []int64{1495, 1499, 1500, 1505, 500, 2254}), 3), "dec")
		}
		return Lit(Dec(lib.Pick(r, []int64{15, 5, 10, 20, 0}), 1), "dec")
	}
	if r.Chance(1, 8) {
		return g.Nulllit()
	}
	return Lit(Dec(lib.Pick(r, []int64{0, 50, 100, 150, 200, 225, 149, 151}), 2), "dec")
}

func (g *Gen) Str(d int) *Ex {
	r := g.R
	if d > 0 && r.Chance(1, 6) {
		return &Ex{K: "case", A: []*Ex{g.Cond(d - 1), g.Str(d - 1), g.Str(d - 1)}}
	}
	if g.Raw && d > 0 && r.Chance(1, 8) {
		if r.Bool() {
			return &Ex{K: "raw", T: "str", Raw: "CONCAT(%s, %s)", A: []*Ex{g.Str(d - 1), g.Str(d - 1)}}
		}
		return &Ex{K: "raw", T: "str", Raw: "UPPER(%s)", A: []*Ex{g.Str(d - 1)}}
	}
	switch r.Intn(5) {
	case 0, 1, 2:
		return g.col("str")
	case 3:
		if r.Chance(1, 4) {
			return g.Nulllit()
		}
		fallthrough
	default:
		return Lit(Str(lib.Pick(r, strPool)), "str")
	}
}

// an operand in boolean position
func (g *Gen) Cond(d int) *Ex {
	switch g.R.Intn(10) {
	case 0:
		return g.Num(d)
	case 1:
		return g.Dec()
	default:
		return g.Boolean(d)
	}
}

// two or three operands of one comparison class
func (g *Gen) Operands(d, n int) []*Ex {
	r := g.R
	out := make([]*Ex, n)
	cls := r.Intn(10)
	for i := range out {
		switch {
		case cls < 4:
			out[i] = g.Num(d)
		case cls < 6:
			out[i] = g.Dec()
		case cls < 7:
			if r.Bool() {
				out[i] = g.Num(d)
			} else {
				out[i] = g.Dec()
			}
		case cls < 9:
			out[i] = g.Str(d)
		default:
			if i == 0 {
				out[i] = g.Boolean(d)
			} else {
				out[i] = lib.Pick(r, []*Ex{Lit(Int(1), "bool"), Lit(Int(0), "bool"), Lit(Int(1), "int"), Lit(Int(0), "int"), g.col("bool")})
			}
		}
	}
	if g.Raw && r.Chance(1, 12) {
		// cross-class comparison (string against number): engine only
		out[n-1] = g.Str(0)
		out[0] = g.Num(0)
	}
	return out
}

func (g *Gen) Boolean(d int) *Ex {
	r := g.R
	if d <= 0 {
		switch r.Intn(8) {
		case 0, 1:
			return g.col("bool")
		case 2:
			return Lit(Int(int64(r.Intn(2))), "bool")
		case 3:
			return g.Nulllit()
		default:
			o := g.Operands(0, 2)
			return Bin("cmp", lib.Pick(r, []string{"=", "<", "<=", ">", ">="}), o[0], o[1])
		}
	}
	switch r.Intn(20) {
	case 0, 1, 2, 3:
		o := g.Operands(d-1, 2)
		return Bin("cmp", lib.Pick(r, []string{"=", "<", "<=", ">", ">="}), o[0], o[1])
	case 4:
		o := g.Operands(d-1, 2)
		return Bin("nseq", "", o[0], o[1])
	case 5, 6:
		return Bin("and", "", g.Cond(d-1), g.Cond(d-1))
	case 7, 8:
		return Bin("or", "", g.Cond(d-1), g.Cond(d-1))
	case 9:
		return Bin("xor", "", g.Cond(d-1), g.Cond(d-1))
	case 10, 11:
		e := Un("not", g.Cond(d-1))
		e.Alt = r.Bool()
		return e
	case 12:
		var c *Ex
		switch r.Intn(4) {
		case 0:
			c = g.Num(d - 1)
		case 1:
			c = g.Dec()
		case 2:
			c = g.Str(d - 1)
		default:
			c = g.Boolean(d - 1)
		}
		return Un("isnull", c)
	case 13:
		e := Un("istrue", g.Cond(d-1))
		e.Op = lib.Pick(r, []string{"true", "false"})
		return e
	case 14, 15:
		n := r.Range(1, 4)
		o := g.Operands(d-1, n+1)
		if r.Chance(1, 4) {
			o[r.Range(1, n)] = g.Nulllit()
		}
		return &Ex{K: "in", A: o}
	case 16, 17:
		o := g.Operands(d-1, 3)
		switch r.Intn(8) {
		case 0:
			if o[1].K == "col" {
				o[2] = o[1]
			}
		case 1:
			if o[0].K == "col" {
				o[1] = o[0]
			}
		case 2:
			if o[0].K == "col" {
				o[2] = o[0]
			}
		}
		return &Ex{K: "between", A: o}
	case 18:
		if g.Raw {
			switch r.Intn(3) {
			case 0:
				return &Ex{K: "raw", T: "bool", Raw: "%s LIKE " + lib.Pick(r, []string{"'a%%'", "'%%b'", "'a_'", "'A%%'", "''"}), A: []*Ex{g.Str(d - 1)}}
			case 1:
				return &Ex{K: "raw", T: "bool", Raw: "IFNULL(%s, %s)", A: []*Ex{g.Boolean(d - 1), g.Boolean(d - 1)}}
			default:
				return &Ex{K: "raw", T: "bool", Raw: "CASE WHEN %s THEN %s WHEN %s THEN %s ELSE %s END", A: []*Ex{g.Cond(d - 1), g.Cond(d - 1), g.Cond(d - 1), g.Cond(d - 1), g.Cond(d - 1)}}
			}
		}
		fallthrough
	default:
		return &Ex{K: "case", A: []*Ex{g.Cond(d - 1), g.Boolean(d - 1), g.Boolean(d - 1)}}
	}
}

