// Temporal and string operands for the C26 driver: civil-calendar helpers written independently of package time,
// generators over the full 1000..9999 range, and the chronological reference order.
package main

import (
	"fmt"
	"time"

	"verifharness/lib"
)

type civil struct{ Y, M, D, H, Mi, S, Us int }

// daysFromCivil: days since 1970-01-01 in the proleptic Gregorian calendar (written independently of package time).
func daysFromCivil(y, m, d int) int64 {
	yy := int64(y)
	if m <= 2 {
		yy--
	}
	era := yy / 400
	if yy < 0 && yy%400 != 0 {
		era--
	}
	yoe := yy - era*400
	mp := int64((m + 9) % 12)
	doy := (153*mp+2)/5 + int64(d) - 1
	doe := yoe*365 + yoe/4 - yoe/100 + doy
	return era*146097 + doe - 719468
}

func isLeap(y int) bool { return y%4 == 0 && (y%100 != 0 || y%400 == 0) }

func monthLen(y, m int) int {
	switch m {
	case 2:
		if isLeap(y) {
			return 29
		}
		return 28
	case 4, 6, 9, 11:
		return 30
	}
	return 31
}

func (c civil) micros() int64 {
	return daysFromCivil(c.Y, c.M, c.D)*86400000000 + int64(c.H)*3600000000 + int64(c.Mi)*60000000 + int64(c.S)*1000000 + int64(c.Us)
}

func civilOfTime(t time.Time) civil {
	t = t.UTC()
	return civil{t.Year(), int(t.Month()), t.Day(), t.Hour(), t.Minute(), t.Second(), t.Nanosecond() / 1000}
}

func floorDiv(a, b int64) int64 {
	q := a / b
	if (a%b != 0) && ((a < 0) != (b < 0)) {
		q--
	}
	return q
}

// roundMicros rounds a microsecond count half up to the unit of fractional-seconds precision p.
func roundMicros(us int64, p int) int64 {
	unit := int64(1)
	for i := p; i < 6; i++ {
		unit *= 10
	}
	return floorDiv(us+unit/2, unit) * unit
}

var yearPool = []int{1000, 1001, 1499, 1500, 1677, 1678, 1899, 1900, 1901, 1969, 1970, 1971, 1999, 2000, 2023, 2024, 2037, 2038, 2100, 2155, 2262, 2263, 2400, 5000, 9998}

func genCivil(r *lib.RNG, loY, hiY int) civil {
	var c civil
	for k := 0; ; k++ {
		if r.Chance(2, 3) {
			c.Y = lib.Pick(r, yearPool)
		} else {
			c.Y = r.Range(loY, hiY)
		}
		if (c.Y >= loY && c.Y <= hiY) || k > 50 {
			break
		}
	}
	if c.Y < loY || c.Y > hiY {
		c.Y = loY
	}
	c.M = r.Range(1, 12)
	if r.Chance(1, 4) {
		c.M = lib.Pick(r, []int{1, 2, 12})
	}
	c.D = r.Range(1, monthLen(c.Y, c.M))
	if r.Chance(1, 3) {
		c.D = lib.Pick(r, []int{1, monthLen(c.Y, c.M)})
	}
	switch r.Intn(4) {
	case 0:
	case 1:
		c.H, c.Mi, c.S = 23, 59, 59
	default:
		c.H, c.Mi, c.S = r.Intn(24), r.Intn(60), r.Intn(60)
	}
	switch r.Intn(5) {
	case 0:
	case 1:
		c.Us = lib.Pick(r, []int{500000, 499999, 999999, 999500, 999499, 5, 4, 50, 49, 500, 499, 5000, 50000, 450000})
	default:
		c.Us = r.Intn(1000000)
	}
	return c
}

// text prints the civil value; frac = number of fraction digits to print (0..6; trailing digits must be zero).
func (c civil) text(dateOnly bool, frac int) string {
	s := fmt.Sprintf("%04d-%02d-%02d", c.Y, c.M, c.D)
	if dateOnly {
		return s
	}
	s += fmt.Sprintf(" %02d:%02d:%02d", c.H, c.Mi, c.S)
	if frac > 0 {
		s += "." + fmt.Sprintf("%06d", c.Us)[:frac]
	}
	return s
}

func parseCivil(s string) civil {
	var c civil
	n, _ := fmt.Sscanf(s, "%d-%d-%d %d:%d:%d.%d", &c.Y, &c.M, &c.D, &c.H, &c.Mi, &c.S, &c.Us)
	if n < 3 {
		panic("civil text " + s)
	}
	return c
}

func (c civil) goTime() time.Time {
	return time.Date(c.Y, time.Month(c.M), c.D, c.H, c.Mi, c.S, c.Us*1000, time.UTC)
}

func (c civil) coq(ctor string) string {
	return fmt.Sprintf("(CX (%s %d%%Z %d%%Z %d%%Z %d%%Z %d%%Z %d%%Z %d%%Z))", ctor, c.Y, c.M, c.D, c.H, c.Mi, c.S, c.Us)
}

// temporalKey is the count the operand must be ordered by (the chronological reference, mirroring Coq's tkey).
func temporalKey(kind string, p int, v valSpec) int64 {
	switch v.Src {
	case "time", "text":
		us := parseCivil(v.Text).micros()
		switch {
		case kind == "date":
			return floorDiv(us, 86400000000) * 86400000000
		case v.Src == "text":
			return roundMicros(us, p)
		}
		return us
	case "yearint", "yearstr":
		var z int64
		fmt.Sscanf(v.Text, "%d", &z)
		switch {
		case z == 0 && v.Src == "yearstr":
			return 2000
		case z >= 1 && z <= 69:
			return z + 2000
		case z >= 70 && z <= 99:
			return z + 1900
		}
		return z
	case "span":
		var z int64
		fmt.Sscanf(v.Text, "%d", &z)
		return z
	}
	panic("temporal value " + v.Src)
}

func genTemporalVal(r *lib.RNG, kind string, p int) valSpec {
	if r.Chance(1, 10) {
		return valSpec{Src: "null"}
	}
	switch kind {
	case "year":
		if r.Bool() {
			return valSpec{Src: "yearint", Text: fmt.Sprint(lib.Pick(r, []int{0, 1, 5, 69, 70, 99, 1901, 1970, 2000, 2069, 2070, 2155, r.Range(1901, 2155), r.Range(0, 99)}))}
		}
		y := lib.Pick(r, []int{0, 1, 5, 69, 70, 99, 1901, 1970, 2000, 2069, 2155, r.Range(1901, 2155), r.Range(0, 99)})
		if y < 100 {
			return valSpec{Src: "yearstr", Text: fmt.Sprintf("%0*d", lib.Pick(r, []int{1, 2}), y)}
		}
		return valSpec{Src: "yearstr", Text: fmt.Sprint(y)}
	case "time":
		us := int64(r.Intn(839))*3600000000 + int64(r.Intn(60))*60000000 + int64(r.Intn(60))*1000000 + int64(r.Intn(1000000))
		if r.Chance(1, 3) {
			us = -us
		}
		if r.Chance(1, 5) {
			us = lib.Pick(r, []int64{0, 1, -1, 3020399000000, -3020399000000, 86400000000})
		}
		return valSpec{Src: "span", Text: fmt.Sprint(us)}
	}
	asText := r.Chance(1, 3)
	lo, hi := 1000, 9998
	if kind == "timestamp" && asText {
		lo, hi = 1971, 2037
	}
	c := genCivil(r, lo, hi)
	if !asText && r.Chance(1, 10) {
		c.Y = lib.Pick(r, []int{9999, 1, 500, 999})
		if c.D > 28 {
			c.D = 28
		}
	}
	if !asText && r.Chance(3, 4) { // a stored value carries at most the type's precision
		c.Us = int(roundMicros(int64(c.Us), p) % 1000000)
	}
	src := "time"
	if asText {
		src = "text"
		if kind == "date" {
			c.H, c.Mi, c.S, c.Us = 0, 0, 0, 0
		}
	}
	return valSpec{Src: src, Text: fmt.Sprintf("%04d-%02d-%02d %02d:%02d:%02d.%06d", c.Y, c.M, c.D, c.H, c.Mi, c.S, c.Us)}
}
