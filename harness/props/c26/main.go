// Driver for C26 (comparison of values is a consistent total order per type): calls sql.Type.Compare of the integer
// types, DECIMAL and string types from /repo directly on generated value triples, records the nine pairwise results
// for the Coq model, and evaluates the order laws (reflexive, antisymmetric, transitive, NULL first, compare =
// compare after Convert) on the implementation's own answers.
package main

import (
	"context"
	"fmt"
	"math/big"
	"math/rand"
	"strings"

	"github.com/cockroachdb/apd/v3"
	"github.com/dolthub/vitess/go/sqltypes"

	"github.com/dolthub/go-mysql-server/sql"
	"github.com/dolthub/go-mysql-server/sql/types"

	"verifharness/lib"
)

type valSpec struct {
	Src  string `json:"src"` // null | int8..uint64 | int | uint | decimal | string
	Text string `json:"text"`
}

type caseT struct {
	Type string     `json:"type"` // i8..u64 | decimal(p,s) | coldecimal(p,s) | varchar | varbinary
	V    [3]valSpec `json:"v"`
}

type intType struct {
	Name, SQL, Coq string
	Min, Max       *big.Int
	T              sql.Type
}

func bi(s string) *big.Int {
	z, ok := new(big.Int).SetString(s, 10)
	if !ok {
		panic("bad int " + s)
	}
	return z
}

var intTypes = []intType{
	{"i8", "tinyint", "I8", bi("-128"), bi("127"), types.Int8},
	{"u8", "tinyint unsigned", "U8", bi("0"), bi("255"), types.Uint8},
	{"i16", "smallint", "I16", bi("-32768"), bi("32767"), types.Int16},
	{"u16", "smallint unsigned", "U16", bi("0"), bi("65535"), types.Uint16},
	{"i24", "mediumint", "I24", bi("-8388608"), bi("8388607"), types.Int24},
	{"u24", "mediumint unsigned", "U24", bi("0"), bi("16777215"), types.Uint24},
	{"i32", "int", "I32", bi("-2147483648"), bi("2147483647"), types.Int32},
	{"u32", "int unsigned", "U32", bi("0"), bi("4294967295"), types.Uint32},
	{"i64", "bigint", "I64", bi("-9223372036854775808"), bi("9223372036854775807"), types.Int64},
	{"u64", "bigint unsigned", "U64", bi("0"), bi("18446744073709551615"), types.Uint64},
}

func intTypeByName(n string) *intType {
	for i := range intTypes {
		if intTypes[i].Name == n {
			return &intTypes[i]
		}
	}
	return nil
}

var goKinds = []struct {
	Name     string
	Min, Max *big.Int
}{
	{"int8", bi("-128"), bi("127")}, {"uint8", bi("0"), bi("255")}, {"int16", bi("-32768"), bi("32767")}, {"uint16", bi("0"), bi("65535")},
	{"int32", bi("-2147483648"), bi("2147483647")}, {"uint32", bi("0"), bi("4294967295")},
	{"int64", bi("-9223372036854775808"), bi("9223372036854775807")}, {"uint64", bi("0"), bi("18446744073709551615")},
	{"int", bi("-9223372036854775808"), bi("9223372036854775807")}, {"uint", bi("0"), bi("18446744073709551615")},
}

var boundaries []*big.Int

func init() {
	seen := map[string]bool{}
	add := func(z *big.Int) {
		if !seen[z.String()] {
			seen[z.String()] = true
			boundaries = append(boundaries, new(big.Int).Set(z))
		}
	}
	for _, e := range []uint{0, 1, 7, 8, 15, 16, 23, 24, 31, 32, 62, 63, 64} {
		p := new(big.Int).Lsh(big.NewInt(1), e)
		for d := int64(-2); d <= 2; d++ {
			v := new(big.Int).Add(p, big.NewInt(d))
			add(v)
			add(new(big.Int).Neg(v))
		}
	}
	add(big.NewInt(0))
}

func goValue(kind string, z *big.Int) interface{} {
	switch kind {
	case "int8":
		return int8(z.Int64())
	case "int16":
		return int16(z.Int64())
	case "int32":
		return int32(z.Int64())
	case "int64":
		return z.Int64()
	case "int":
		return int(z.Int64())
	case "uint8":
		return uint8(z.Uint64())
	case "uint16":
		return uint16(z.Uint64())
	case "uint32":
		return uint32(z.Uint64())
	case "uint64":
		return z.Uint64()
	case "uint":
		return uint(z.Uint64())
	}
	panic("kind " + kind)
}

// observed value: signed Go integer, unsigned Go integer or decimal
type val struct {
	Kind  string // si | su | dec | str | bytes | nil | other
	Go    string
	Z     *big.Int
	Scale int64
	S     string
}

func observe(v interface{}) val {
	mk := func(kind, g string, z *big.Int) val { return val{Kind: kind, Go: g, Z: z} }
	switch x := v.(type) {
	case nil:
		return val{Kind: "nil"}
	case int8:
		return mk("si", "int8", big.NewInt(int64(x)))
	case int16:
		return mk("si", "int16", big.NewInt(int64(x)))
	case int32:
		return mk("si", "int32", big.NewInt(int64(x)))
	case int64:
		return mk("si", "int64", big.NewInt(x))
	case int:
		return mk("si", "int", big.NewInt(int64(x)))
	case uint8:
		return mk("su", "uint8", new(big.Int).SetUint64(uint64(x)))
	case uint16:
		return mk("su", "uint16", new(big.Int).SetUint64(uint64(x)))
	case uint32:
		return mk("su", "uint32", new(big.Int).SetUint64(uint64(x)))
	case uint64:
		return mk("su", "uint64", new(big.Int).SetUint64(x))
	case uint:
		return mk("su", "uint", new(big.Int).SetUint64(uint64(x)))
	case *apd.Decimal:
		if x == nil {
			return val{Kind: "nil"}
		}
		if x.Form != apd.Finite {
			return val{Kind: "other"}
		}
		z := new(big.Int).Set(x.Coeff.MathBigInt())
		if x.Negative {
			z.Neg(z)
		}
		sc := -int64(x.Exponent)
		if sc < 0 {
			z.Mul(z, new(big.Int).Exp(big.NewInt(10), big.NewInt(-sc), nil))
			sc = 0
		}
		return val{Kind: "dec", Go: "decimal", Z: z, Scale: sc}
	case string:
		return val{Kind: "str", S: x}
	case []byte:
		return val{Kind: "bytes", S: string(x)}
	}
	return val{Kind: "other"}
}

func (v val) rat() *big.Rat {
	r := new(big.Rat).SetInt(v.Z)
	if v.Kind == "dec" && v.Scale > 0 {
		r.Quo(r, new(big.Rat).SetInt(pow10(v.Scale)))
	}
	return r
}

func pow10(k int64) *big.Int { return new(big.Int).Exp(big.NewInt(10), big.NewInt(k), nil) }

func (v val) coq() string {
	switch v.Kind {
	case "si":
		return "(SI " + lib.CoqZStr(v.Z.String()) + ")"
	case "su":
		if v.Go == "uint" {
			return "(SW " + lib.CoqZStr(v.Z.String()) + ")"
		}
		return "(SU " + lib.CoqZStr(v.Z.String()) + ")"
	default:
		return fmt.Sprintf("(SD %s %d%%Z)", lib.CoqZStr(v.Z.String()), v.Scale)
	}
}

// roundHalfAway rounds x to `scale` fraction digits, ties away from zero; returns the scaled integer.
func roundHalfAway(x *big.Rat, scale int64) *big.Int {
	s := new(big.Rat).Mul(x, new(big.Rat).SetInt(pow10(scale)))
	neg := s.Sign() < 0
	s.Abs(s)
	s.Add(s, big.NewRat(1, 2))
	q := new(big.Int).Quo(s.Num(), s.Denom()) // floor for non-negative
	if neg {
		q.Neg(q)
	}
	return q
}

func randDigits(r *lib.RNG, n int) string {
	var sb strings.Builder
	mode := r.Intn(4)
	for i := 0; i < n; i++ {
		d := r.Intn(10)
		switch mode {
		case 0:
			d = 9
		case 1:
			d = 0
			if i == 0 {
				d = 1
			}
		}
		if i == 0 && d == 0 && n > 1 {
			d = 1 + r.Intn(9)
		}
		sb.WriteByte(byte('0' + d))
	}
	return sb.String()
}

func randDecText(r *lib.RNG) string {
	var sb strings.Builder
	if r.Chance(2, 5) {
		sb.WriteByte('-')
	}
	switch r.Intn(6) {
	case 0: // around an integer boundary with a fraction
		b := new(big.Int).Abs(lib.Pick(r, boundaries))
		sb.WriteString(b.String())
	case 1:
		sb.WriteString(randDigits(r, r.Range(1, 40)))
	default:
		sb.WriteString(randDigits(r, r.Range(1, 12)))
	}
	if r.Chance(4, 5) {
		sb.WriteByte('.')
		n := r.Range(1, 32)
		if r.Chance(1, 2) {
			n = r.Range(1, 4)
		}
		switch r.Intn(5) {
		case 0:
			sb.WriteString(strings.Repeat("0", n-1) + "5") // ...05 / .5 ties
		case 1:
			sb.WriteString("5" + strings.Repeat("0", n-1))
		case 2:
			sb.WriteString("4" + strings.Repeat("9", n-1))
		default:
			sb.WriteString(randDigits(r, n))
		}
	}
	return sb.String()
}

func genIntFor(r *lib.RNG, lo, hi *big.Int, tgt *intType) *big.Int {
	in := func(z *big.Int) bool { return z.Cmp(lo) >= 0 && z.Cmp(hi) <= 0 }
	for k := 0; k < 40; k++ {
		var z *big.Int
		switch r.Intn(6) {
		case 0, 1:
			z = lib.Pick(r, boundaries)
		case 2:
			if tgt != nil { // around the target's own limits
				z = new(big.Int).Add(lib.Pick(r, []*big.Int{tgt.Min, tgt.Max}), big.NewInt(int64(r.Intn(5)-2)))
			} else {
				z = big.NewInt(int64(r.Intn(2001) - 1000))
			}
		case 3:
			z = big.NewInt(int64(r.Intn(401) - 200))
		default:
			span := new(big.Int).Sub(hi, lo)
			x := new(big.Int).SetUint64(r.Uint64())
			x.Lsh(x, 64).Or(x, new(big.Int).SetUint64(r.Uint64()))
			z = x.Mod(x, span.Add(span, big.NewInt(1))).Add(x, lo)
		}
		if in(z) {
			return z
		}
	}
	return new(big.Int).Set(hi)
}

var decShapes = [][2]int{{5, 0}, {10, 2}, {20, 5}, {38, 10}, {65, 30}, {18, 9}, {30, 28}, {1, 0}, {3, 3}}

var strAlphabet = []string{"a", "b", "B", "Z", "0", " ", "é", "ß", "日", "😀", "_", "\x00", "~"}

func genVal(r *lib.RNG, kind string, tgt *intType) valSpec {
	if r.Chance(1, 10) {
		return valSpec{Src: "null"}
	}
	if kind == "str" {
		var sb strings.Builder
		for i, l := 0, r.Intn(5); i < l; i++ {
			sb.WriteString(lib.Pick(r, strAlphabet))
		}
		return valSpec{Src: "string", Text: sb.String()}
	}
	if r.Chance(1, 3) {
		t := randDecText(r)
		if r.Chance(1, 2) { // close decimals: same integer part, nearby fractions
			t = lib.Pick(r, []string{"1", "-1", "0", "255", "9223372036854775807", "18446744073709551615"}) + lib.Pick(r, []string{".4", ".5", ".49", ".50", ".51", ".004", ".005", ".0", ".00"})
		}
		return valSpec{Src: "decimal", Text: t}
	}
	k := goKinds[r.Intn(len(goKinds))]
	return valSpec{Src: k.Name, Text: genIntFor(r, k.Min, k.Max, tgt).String()}
}

func gen(r *lib.RNG) caseT {
	var c caseT
	var tgt *intType
	kind := "num"
	switch r.Intn(20) {
	case 0, 1:
		c.Type = lib.Pick(r, []string{"varchar", "varbinary"})
		kind = "str"
	case 2, 3, 4:
		ds := lib.Pick(r, decShapes)
		c.Type = fmt.Sprintf("%s(%d,%d)", lib.Pick(r, []string{"decimal", "coldecimal"}), ds[0], ds[1])
	case 5, 6, 7, 8: // temporal types, every precision, the full 1000..9999 range
		tk := lib.Pick(r, []string{"date", "datetime", "datetime", "timestamp", "year", "time"})
		p := r.Intn(7)
		c.Type = tk
		if tk == "datetime" || tk == "timestamp" {
			c.Type = fmt.Sprintf("%s(%d)", tk, p)
		}
		for i := range c.V {
			c.V[i] = genTemporalVal(r, tk, p)
		}
		if r.Chance(1, 4) {
			c.V[r.Intn(3)] = c.V[r.Intn(3)]
		}
		if r.Chance(1, 5) && c.V[0].Src != "null" && (tk == "date" || tk == "datetime" || tk == "timestamp") {
			// the same instant as time.Time and as text, and a neighbour one microsecond / one day away
			cv := parseCivil(c.V[0].Text)
			if cv.Y >= 1971 && cv.Y <= 2037 || tk != "timestamp" && cv.Y >= 1000 && cv.Y <= 9998 {
				c.V[1] = valSpec{Src: lib.Pick(r, []string{"time", "text"}), Text: c.V[0].Text}
			}
		}
		return c
	case 10, 11: // ENUM (by index), SET (by mask), BIT (by value)
		k := lib.Pick(r, []string{"enum", "set", "bit"})
		n := r.Range(1, 10)
		if k == "bit" {
			n = lib.Pick(r, []int{1, 8, 16, 63, 64})
		}
		c.Type = fmt.Sprintf("%s(%d)", k, n)
		lim := new(big.Int).Lsh(big.NewInt(1), uint(n))
		if k == "enum" {
			lim = big.NewInt(int64(n) + 3) // a few invalid indexes: they sort first
		}
		for i := range c.V {
			z := new(big.Int).Rand(rand.New(rngSource{r}), lim)
			if r.Chance(1, 3) {
				z = new(big.Int).Sub(lim, big.NewInt(int64(1+r.Intn(2))))
				if k == "enum" && r.Bool() {
					z = big.NewInt(int64(r.Intn(3) - 1)) // -1 (invalid), 0, 1
				}
			}
			src := "uint64"
			if z.Sign() < 0 || (z.Cmp(bi("9223372036854775807")) <= 0 && r.Bool()) {
				src = "int64"
			}
			c.V[i] = valSpec{Src: src, Text: z.String()}
			if r.Chance(1, 10) {
				c.V[i] = valSpec{Src: "null"}
			}
		}
		if r.Chance(1, 4) {
			c.V[r.Intn(3)] = c.V[r.Intn(3)]
		}
		return c
	case 12: // JSON documents (implementation-side laws only; the model and its theorems are C32's)
		c.Type = "json"
		for i := range c.V {
			c.V[i] = valSpec{Src: "json", Text: genJSON(r, 2)}
			if r.Chance(1, 10) {
				c.V[i] = valSpec{Src: "null"}
			}
		}
		if r.Chance(1, 4) {
			c.V[r.Intn(3)] = c.V[r.Intn(3)]
		}
		return c
	case 9: // DOUBLE on integers beyond 2^53 (implementation-side laws only)
		c.Type = "f64"
		for i := range c.V {
			k := lib.Pick(r, []string{"int64", "uint64"})
			base := lib.Pick(r, []string{"9007199254740992", "9007199254740993", "9007199254740994", "9223372036854775807", "9223372036854775806", "4611686018427387905", "1", "0"})
			z := bi(base)
			if k == "int64" && r.Bool() {
				z = new(big.Int).Neg(z)
			}
			c.V[i] = valSpec{Src: k, Text: z.String()}
			if r.Chance(1, 10) {
				c.V[i] = valSpec{Src: "null"}
			}
		}
		return c
	default:
		tgt = &intTypes[r.Intn(len(intTypes))]
		c.Type = tgt.Name
	}
	for i := range c.V {
		c.V[i] = genVal(r, kind, tgt)
	}
	if tgt != nil && tgt.Min.Sign() == 0 && r.Chance(1, 3) {
		// unsigned type: negative Go int64 operands together with uint64 operands beyond 2^63 (mixed representations)
		neg := func() valSpec {
			return valSpec{Src: lib.Pick(r, []string{"int64", "int64", "int32", "int8", "int"}), Text: lib.Pick(r, []string{"-1", "-2", "-5", "-128", "-100"})}
		}
		small := func() valSpec {
			return valSpec{Src: lib.Pick(r, []string{"int64", "uint64", "int64", "uint8"}), Text: fmt.Sprint(r.Intn(200))}
		}
		big := func() valSpec {
			return valSpec{Src: "uint64", Text: lib.Pick(r, []string{"18446744073709551615", "9223372036854775808", "9223372036854775813", "18446744073709551610"})}
		}
		pool := []func() valSpec{neg, neg, small, big}
		for i := range c.V {
			c.V[i] = lib.Pick(r, pool)()
		}
		if c.V[0].Text[0] != '-' && c.V[1].Text[0] != '-' {
			c.V[r.Intn(3)] = valSpec{Src: "int64", Text: "-1"}
		}
	}
	if r.Chance(1, 4) { // duplicates exercise the equality cases of the laws
		c.V[r.Intn(3)] = c.V[r.Intn(3)]
	}
	return c
}

type rngSource struct{ r *lib.RNG }

func (s rngSource) Int63() int64   { return s.r.Int63() }
func (s rngSource) Seed(int64)     {}
func (s rngSource) Uint64() uint64 { return s.r.Uint64() }

func genJSON(r *lib.RNG, depth int) string {
	switch k := r.Intn(8); {
	case k == 0:
		return "null"
	case k == 1:
		return lib.Pick(r, []string{"true", "false"})
	case k == 2 || k == 3:
		return fmt.Sprint(r.Intn(21) - 10)
	case k == 4 || depth == 0:
		return `"` + lib.Pick(r, []string{"", "a", "b", "ab", "B", "10", "9"}) + `"`
	case k == 5:
		n := r.Intn(3)
		parts := make([]string, n)
		for i := range parts {
			parts[i] = genJSON(r, depth-1)
		}
		return "[" + strings.Join(parts, ",") + "]"
	default:
		n := r.Intn(3)
		keys := []string{"a", "b", "c", "aa"}
		var parts []string
		used := map[string]bool{}
		for i := 0; i < n; i++ {
			k := lib.Pick(r, keys)
			if used[k] {
				continue
			}
			used[k] = true
			parts = append(parts, fmt.Sprintf("%q:%s", k, genJSON(r, depth-1)))
		}
		return "{" + strings.Join(parts, ",") + "}"
	}
}

var memberNames = []string{"a", "b", "c", "d", "e", "f", "g", "h", "i", "j", "k", "l"}

func parseType(t string) (typ sql.Type, coq string, kind string) {
	if it := intTypeByName(t); it != nil {
		return it.T, "(CInt " + it.Coq + ")", "int"
	}
	var p, s int64
	switch {
	case strings.HasPrefix(t, "coldecimal"):
		fmt.Sscanf(t, "coldecimal(%d,%d)", &p, &s)
		return types.MustCreateColumnDecimalType(uint8(p), uint8(s)), fmt.Sprintf("(CDec %d%%Z true)", s), "dec"
	case strings.HasPrefix(t, "decimal"):
		fmt.Sscanf(t, "decimal(%d,%d)", &p, &s)
		return types.MustCreateDecimalType(uint8(p), uint8(s)), fmt.Sprintf("(CDec %d%%Z false)", s), "dec"
	case t == "varchar":
		return types.MustCreateString(sqltypes.VarChar, 20, sql.Collation_utf8mb4_bin), "CBin", "str"
	case t == "varbinary":
		return types.MustCreateBinary(sqltypes.VarBinary, 40), "CBin", "str"
	case t == "f64":
		return types.Float64, "", "flt"
	case t == "json":
		return types.JSON, "", "json"
	case strings.HasPrefix(t, "enum("):
		fmt.Sscanf(t, "enum(%d)", &p)
		return types.MustCreateEnumType(memberNames[:p], sql.Collation_utf8mb4_bin), fmt.Sprintf("(CEnum %d%%Z)", p), "enum"
	case strings.HasPrefix(t, "set("):
		fmt.Sscanf(t, "set(%d)", &p)
		return types.MustCreateSetType(memberNames[:p], sql.Collation_utf8mb4_bin), fmt.Sprintf("(CSet %d%%Z)", p), "set"
	case strings.HasPrefix(t, "bit("):
		fmt.Sscanf(t, "bit(%d)", &p)
		return types.MustCreateBitType(uint8(p)), fmt.Sprintf("(CBit %d%%Z)", p), "bit"
	case t == "date":
		return types.Date, "CDate", "date"
	case t == "year":
		return types.Year, "CYear", "year"
	case t == "time":
		return types.Time, "CTime", "time"
	case strings.HasPrefix(t, "datetime("):
		fmt.Sscanf(t, "datetime(%d)", &p)
		return types.MustCreateDatetimeType(sqltypes.Datetime, int(p)), fmt.Sprintf("(CDatetime %d%%Z)", p), "datetime"
	case strings.HasPrefix(t, "timestamp("):
		fmt.Sscanf(t, "timestamp(%d)", &p)
		return types.MustCreateDatetimeType(sqltypes.Timestamp, int(p)), fmt.Sprintf("(CTimestamp %d%%Z)", p), "timestamp"
	}
	panic("type " + t)
}

func goVal(v valSpec) interface{} {
	switch v.Src {
	case "null":
		return nil
	case "decimal":
		d, _, err := apd.NewFromString(v.Text)
		if err != nil {
			panic(err)
		}
		return d
	case "json":
		return types.MustJSON(v.Text)
	case "string", "text", "yearstr":
		return v.Text
	case "time":
		return parseCivil(v.Text).goTime()
	case "yearint":
		return bi(v.Text).Int64()
	case "span":
		return types.Timespan(bi(v.Text).Int64())
	}
	return goValue(v.Src, bi(v.Text))
}

func coqVal(v valSpec) string {
	switch v.Src {
	case "null":
		return "CNull"
	case "time":
		return parseCivil(v.Text).coq("TTime")
	case "text":
		return parseCivil(v.Text).coq("TText")
	case "yearint":
		return "(CX (TYearI " + lib.CoqZStr(v.Text) + "))"
	case "yearstr":
		return "(CX (TYearS " + lib.CoqZStr(bi(v.Text).String()) + "))"
	case "span":
		return "(CX (TSpan " + lib.CoqZStr(v.Text) + "))"
	case "string":
		bs := make([]string, len(v.Text))
		for i := 0; i < len(v.Text); i++ {
			bs[i] = fmt.Sprintf("%d%%Z", v.Text[i])
		}
		return "(CX (TStr " + lib.CoqList(bs) + "))"
	}
	return "(CV " + observe(goVal(v)).coq() + ")"
}

var sigSeen = map[string]int{}

func run(c *lib.Ctx, cs caseT) {
	typ, tcoq, kind := parseType(cs.Type)
	c.Count("type:" + kind)
	vals := [3]interface{}{goVal(cs.V[0]), goVal(cs.V[1]), goVal(cs.V[2])}
	pairs := [9][2]int{{0, 1}, {1, 0}, {0, 2}, {2, 0}, {1, 2}, {2, 1}, {0, 0}, {1, 1}, {2, 2}}
	var res [9]int
	var cmpErr error
	pn, pv := lib.Recover(func() {
		for i, p := range pairs {
			r, err := typ.Compare(context.Background(), vals[p[0]], vals[p[1]])
			if err != nil {
				cmpErr = err
			}
			res[i] = r
		}
	})
	desc := fmt.Sprintf("%s.Compare on a=%s:%q b=%s:%q c=%s:%q", cs.Type, cs.V[0].Src, cs.V[0].Text, cs.V[1].Src, cs.V[1].Text, cs.V[2].Src, cs.V[2].Text)
	key := cs.Type + "|" + fmt.Sprint(cs.V)
	var id int
	if kind == "flt" || kind == "json" || pn || cmpErr != nil {
		id = c.CaseNoModel(cs, key)
	} else {
		zs := make([]string, 9)
		for i, r := range res {
			zs[i] = lib.CoqZ(int64(r))
		}
		cv := coqVal
		if kind == "enum" || kind == "set" || kind == "bit" {
			cv = func(v valSpec) string {
				if v.Src == "null" {
					return "CNull"
				}
				return "(CX (TNum " + observe(goVal(v)).coq() + "))"
			}
		}
		id = c.Case(lib.CoqTuple(tcoq, cv(cs.V[0]), cv(cs.V[1]), cv(cs.V[2]), lib.CoqList(zs)), cs, key)
	}
	c.PredChecked()
	fail := func(sig, what string) {
		sigSeen[sig]++
		if sigSeen[sig] <= 5 {
			c.PredFail(id, sig, desc+": "+what, cs)
		} else {
			c.Count("predicate_failure:" + sig)
		}
	}
	if pn {
		fail("compare/"+kind+"/panic", pv)
		return
	}
	if cmpErr != nil {
		fail("compare/"+kind+"/error", cmpErr.Error())
		return
	}
	ab, ba, ac, ca, bc, cb := res[0], res[1], res[2], res[3], res[4], res[5]
	for i := 0; i < 9; i++ {
		if res[i] < -1 || res[i] > 1 {
			fail("compare/"+kind+"/result-not-in--1-0-1", fmt.Sprint(res))
			return
		}
	}
	if res[6] != 0 || res[7] != 0 || res[8] != 0 {
		fail("compare/"+kind+"/not-reflexive", fmt.Sprint(res))
	}
	if ab != -ba || ac != -ca || bc != -cb {
		fail("compare/"+kind+"/not-antisymmetric", fmt.Sprint(res))
	}
	// transitivity over every ordering of the triple
	le := func(x int) bool { return x <= 0 }
	type tr struct{ xy, yz, xz int }
	for _, t := range []tr{{ab, bc, ac}, {ac, cb, ab}, {ba, ac, bc}, {bc, ca, ba}, {ca, ab, cb}, {cb, ba, ca}} {
		if le(t.xy) && le(t.yz) && !le(t.xz) {
			fail("compare/"+kind+"/not-transitive", fmt.Sprint(res))
			break
		}
		if t.xy == 0 && t.yz == 0 && t.xz != 0 {
			fail("compare/"+kind+"/equality-not-transitive", fmt.Sprint(res))
			break
		}
	}
	// NULL sorts before every non-NULL value
	for i, p := range pairs[:6] {
		x, y := vals[p[0]], vals[p[1]]
		if x == nil && y != nil && res[i] != -1 {
			c.Count("null-vs-value")
			fail("compare/null-does-not-sort-first", fmt.Sprintf("Compare(NULL, %v) = %d", y, res[i]))
			break
		}
	}
	// temporal types: the order is the chronological order of the operands' instants (own calendar arithmetic);
	// binary collations: byte order
	switch kind {
	case "date", "datetime", "timestamp", "year", "time":
		var prec int
		fmt.Sscanf(cs.Type[strings.Index(cs.Type+"(", "("):], "(%d)", &prec)
		for i, p := range pairs[:6] {
			x, y := cs.V[p[0]], cs.V[p[1]]
			if x.Src == "null" || y.Src == "null" {
				continue
			}
			kx, ky := temporalKey(kind, prec, x), temporalKey(kind, prec, y)
			want := 0
			if kx < ky {
				want = -1
			} else if kx > ky {
				want = 1
			}
			if res[i] != want {
				fail("compare/"+kind+"/not-chronological", fmt.Sprintf("Compare(%s %q, %s %q) = %d, chronological order says %d", x.Src, x.Text, y.Src, y.Text, res[i], want))
				break
			}
		}
	case "str":
		for i, p := range pairs[:6] {
			x, y := cs.V[p[0]], cs.V[p[1]]
			if x.Src == "null" || y.Src == "null" {
				continue
			}
			if want := strings.Compare(x.Text, y.Text); res[i] != want {
				fail("compare/str/not-byte-order", fmt.Sprintf("Compare(%q, %q) = %d, byte order says %d", x.Text, y.Text, res[i], want))
				break
			}
		}
	}
	// the result equals comparing the values after converting them to the type
	var conv [3]interface{}
	okc := true
	for i, v := range vals {
		if v == nil {
			conv[i] = nil
			continue
		}
		o, f, err := typ.Convert(context.Background(), v)
		// for BIGINT / BIGINT UNSIGNED the conversion IS the key Compare uses, so the flagged value counts too
		if err != nil || (f != sql.InRange && cs.Type != "i64" && cs.Type != "u64") {
			okc = false
			break
		}
		conv[i] = o
	}
	if okc {
		c.Count("via-convert-checked")
		viaOK := true
		defer func() {
			// ... and the converted values are plain numbers: Compare must agree with their numeric order
			if !viaOK || kind == "str" {
				return
			}
			for i, p := range pairs[:6] {
				x, y := observe(conv[p[0]]), observe(conv[p[1]])
				if x.Z == nil || y.Z == nil {
					continue
				}
				if want := x.rat().Cmp(y.rat()); want != res[i] {
					fail("compare/"+kind+"/differs-from-numeric-order-of-converted-values", fmt.Sprintf("Compare(%v,%v) = %d but the converted values %v, %v compare %d", vals[p[0]], vals[p[1]], res[i], conv[p[0]], conv[p[1]], want))
					return
				}
			}
		}()
		for i, p := range pairs[:6] {
			r2, err := typ.Compare(context.Background(), conv[p[0]], conv[p[1]])
			if err != nil || r2 != res[i] {
				shape := kind
				isNegFrac := func(v interface{}) bool {
					d, ok := v.(*apd.Decimal)
					if !ok || !d.Negative || d.IsZero() {
						return false
					}
					var half apd.Decimal
					half.SetFinite(-5, -1)
					return d.Cmp(&half) > 0
				}
				if it := intTypeByName(cs.Type); it != nil && it.Min.Sign() == 0 && (isNegFrac(vals[p[0]]) || isNegFrac(vals[p[1]])) {
					shape = "unsigned-int/negative-fraction"
				} else if kind == "datetime" || kind == "timestamp" {
					shape = kind
					for _, k := range p {
						if cs.V[k].Src == "time" {
							var prec int
							fmt.Sscanf(cs.Type[strings.Index(cs.Type, "("):], "(%d)", &prec)
							if us := int64(parseCivil(cs.V[k].Text).Us); roundMicros(us, prec) != us {
								shape = "temporal/subprecision-time-value"
							}
						}
					}
				} else if strings.HasPrefix(cs.Type, "decimal(") {
					shape = "noncolumn-decimal"
				} else if strings.HasPrefix(cs.Type, "coldecimal(") {
					shape = "column-decimal"
				}
				viaOK = false
				fail("compare/"+shape+"/differs-after-convert", fmt.Sprintf("Compare(%v,%v) = %d but on converted values (%v,%v) = %d (%v)", vals[p[0]], vals[p[1]], res[i], conv[p[0]], conv[p[1]], r2, err))
				break
			}
		}
	}
}

func main() {
	lib.Main("C26", func(c *lib.Ctx) {
		c.Header = "From Coq Require Import List NArith ZArith.\nImport ListNotations.\nFrom GMS Require Import Codec.C25Arith Codec.C27Convert Codec.C27Enum Codec.C26Compare Corr.C26.\nOpen Scope N_scope."
		c.CaseType = "C26.case"
		c.MismatchFn = "C26.mismatches"
		c.SetRule("value triples per type: the ten integer types (values: Go integers of every carrier at type limits, +-2^k+-2, " +
			"around the type's limits, uniform; decimals incl. ties), DECIMAL(p,s) of nine shapes as column / non-column type " +
			"(close decimals differing beyond the scale), VARCHAR utf8mb4_bin and VARBINARY strings (multi-byte, NUL, prefixes); " +
			"1/10 NULLs, 1/4 with a repeated value. All nine ordered pairs are compared. Distinct = distinct (type, triple).")
		if c.ReplayFile != "" {
			var cs caseT
			lib.LoadReplay(c.ReplayFile, &cs)
			run(c, cs)
			return
		}
		v := func(s, t string) valSpec { return valSpec{Src: s, Text: t} }
		null := valSpec{Src: "null"}
		corpus := []caseT{
			{"i64", [3]valSpec{null, v("int64", "5"), v("int64", "-5")}},
			{"i8", [3]valSpec{v("int64", "300"), v("int64", "400"), v("int8", "127")}},
			{"i64", [3]valSpec{v("uint64", "9223372036854775808"), v("uint64", "18446744073709551615"), v("int64", "9223372036854775807")}},
			{"i64", [3]valSpec{v("uint", "18446744073709551615"), v("int64", "0"), v("int64", "-1")}},
			{"u64", [3]valSpec{v("int64", "-1"), v("uint64", "18446744073709551615"), v("decimal", "-0.4")}},
			{"u8", [3]valSpec{v("int8", "-1"), v("uint8", "255"), v("decimal", "1.5")}},
			{"i32", [3]valSpec{v("decimal", "1.4"), v("decimal", "1.5"), v("int32", "2")}},
			{"u32", [3]valSpec{v("decimal", "-0.499"), v("uint16", "37"), v("decimal", "255.4")}},
			{"coldecimal(10,2)", [3]valSpec{v("decimal", "1.001"), v("decimal", "1.002"), v("decimal", "1.005")}},
			{"decimal(10,2)", [3]valSpec{v("decimal", "1.001"), v("decimal", "1.002"), v("decimal", "1.00")}},
			{"coldecimal(5,0)", [3]valSpec{v("int64", "1"), v("decimal", "1.0"), null}},
			{"u64", [3]valSpec{v("int64", "-1"), v("int64", "5"), v("uint64", "9223372036854775813")}},
			{"u64", [3]valSpec{v("int64", "-1"), v("int64", "-2"), v("int64", "5")}},
			{"u8", [3]valSpec{v("int64", "-1"), v("int64", "5"), v("uint64", "18446744073709551615")}},
			{"u32", [3]valSpec{v("int32", "-5"), v("uint64", "9223372036854775808"), v("int64", "7")}},
			{"f64", [3]valSpec{v("int64", "9007199254740993"), v("int64", "9007199254740992"), v("uint64", "9007199254740994")}},
			{"datetime(0)", [3]valSpec{v("time", "1500-06-15 00:00:00.000000"), v("time", "2000-01-01 00:00:00.000000"), v("time", "9999-12-31 23:59:59.000000")}},
			{"date", [3]valSpec{v("time", "1500-06-15 00:00:00.000000"), v("text", "2000-01-01 00:00:00.000000"), v("time", "9999-12-31 00:00:00.000000")}},
			{"datetime(6)", [3]valSpec{v("time", "1677-09-21 00:12:43.145224"), v("time", "2262-04-11 23:47:16.854775"), v("text", "1000-01-01 00:00:00.000000")}},
			{"timestamp(6)", [3]valSpec{v("time", "1500-06-15 10:00:00.000000"), v("text", "2000-01-01 00:00:00.500000"), v("time", "2300-01-01 00:00:00.000000")}},
			{"datetime(0)", [3]valSpec{v("time", "2023-01-15 10:00:00.400000"), v("time", "2023-01-15 10:00:00.300000"), v("text", "2023-01-15 10:00:00.500000")}},
			{"year", [3]valSpec{v("yearint", "69"), v("yearstr", "70"), v("yearstr", "0")}},
			{"time", [3]valSpec{v("span", "-1"), v("span", "3020399000000"), v("span", "0")}},
			{"enum(3)", [3]valSpec{v("int64", "3"), v("int64", "1"), v("int64", "5")}},
			{"enum(3)", [3]valSpec{v("int64", "-1"), v("int64", "0"), v("uint64", "2")}},
			{"set(3)", [3]valSpec{v("int64", "7"), v("uint64", "1"), v("int64", "0")}},
			{"bit(8)", [3]valSpec{v("int64", "255"), v("uint64", "0"), v("int64", "128")}},
			{"bit(64)", [3]valSpec{v("uint64", "18446744073709551615"), v("int64", "1"), v("uint64", "9223372036854775808")}},
			{"json", [3]valSpec{v("json", `{"a":1}`), v("json", `[1,2]`), v("json", `"a"`)}},
			{"json", [3]valSpec{v("json", `{"b":1,"a":2}`), v("json", `{"a":2,"b":1}`), v("json", `null`)}},
			{"varchar", [3]valSpec{v("string", "a"), v("string", "ab"), v("string", "B")}},
			{"varbinary", [3]valSpec{v("string", "é"), v("string", "z"), null}},
		}
		for _, cs := range corpus {
			run(c, cs)
		}
		for n := len(corpus); n < c.N; n++ {
			run(c, gen(c.R.Fork()))
		}
	})
}
