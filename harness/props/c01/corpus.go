package main

func tdef(name, ddl string, idx []string, rows ...[]string) tableDef {
	return tableDef{Name: name, DDL: ddl, Indexes: idx, Rows: rows}
}

func row(a, b, c string) []string { return []string{a, b, c} }

// corpus holds the minimal failing inputs of the known findings (and a few passing neighbours).
func corpus() []engCase {
	plain := func(n string) string { return "CREATE TABLE " + n + " (a INT, b INT, c INT)" }
	return []engCase{
		{ // semi join => inner join over DISTINCT right columns with an OR filter
			Kind:    "engine",
			Tables:  []tableDef{tdef("t0", plain("t0"), nil, row("0", "1", "1")), tdef("t1", plain("t1"), nil, row("0", "0", "0"), row("0", "1", "1"))},
			Sel:     []string{"x0.b"},
			From:    []fromItem{{Table: "t0", Alias: "x0"}},
			Where:   []wherePred{{Sub: &subq{Kind: "EXISTS", Table: "t1", Alias: "x1", Where: []conj{{"x1.b = x0.b", "x1.a = x0.a"}}}}},
			Configs: []config{{Name: "default"}, {Name: "JOIN_ORDER", Hint: "JOIN_ORDER(x1,x0)"}},
		},
		{ // same with an arithmetic equality
			Kind: "engine",
			Tables: []tableDef{tdef("t0", plain("t0"), nil, row("0", "1", "0")),
				tdef("t1", "CREATE TABLE t1 (a INT, b INT, c INT, UNIQUE KEY ua (a))", nil, row("1", "2", "2"), row("0", "0", "1"))},
			Sel:     []string{"x0.a"},
			From:    []fromItem{{Table: "t0", Alias: "x0"}},
			Where:   []wherePred{{Sub: &subq{Kind: "EXISTS", Table: "t1", Alias: "x1", Where: []conj{{"x1.a = x0.c + x1.a"}}}}},
			Configs: []config{{Name: "default"}, {Name: "JOIN_ORDER", Hint: "JOIN_ORDER(x1,x0)"}},
		},
		{ // inner-join conjunct over the null-supplying side of a LEFT JOIN is lost when the outer join is placed on top
			Kind: "engine",
			Tables: []tableDef{tdef("t0", "CREATE TABLE t0 (a INT, b INT PRIMARY KEY, c INT)", nil, row("0", "1", "0"), row("0", "0", "2")),
				tdef("t1", "CREATE TABLE t1 (a INT, b INT PRIMARY KEY, c INT)", nil, row("1", "0", "NULL"), row("2", "2", "NULL"))},
			Sel: []string{"x2.b"},
			From: []fromItem{{Table: "t0", Alias: "x0"}, {Table: "t1", Alias: "x1", Kind: "LEFT", On: []conj{{"x0.c = x1.b"}}},
				{Table: "t1", Alias: "x2", Kind: "INNER", On: []conj{{"x1.a <=> x2.c"}, {"x0.b = x2.b"}}}},
			Configs: []config{{Name: "default"}, {Name: "disable_merge_join", NoMJ: true}},
		},
		{ // NOT IN, NULL outer operand, lookup anti join
			Kind: "engine",
			Tables: []tableDef{tdef("t0", "CREATE TABLE t0 (a INT, b INT, c INT, UNIQUE KEY ua (a))", nil, row("2", "0", "NULL")),
				tdef("t1", plain("t1"), []string{"CREATE INDEX i_b ON t1 (b)"}, row("1", "1", "NULL"))},
			Sel:     []string{"x0.c"},
			From:    []fromItem{{Table: "t0", Alias: "x0"}},
			Where:   []wherePred{{Sub: &subq{Kind: "NOT IN", Outer: "x0.c", Col: "x1.b", Table: "t1", Alias: "x1"}}},
			Configs: []config{{Name: "default"}, {Name: "LOOKUP_JOIN", Hint: "LOOKUP_JOIN(x0,x1)"}},
		},
		{ // NOT IN, NULL in the subquery, merge anti join
			Kind: "engine",
			Tables: []tableDef{tdef("t0", "CREATE TABLE t0 (a INT PRIMARY KEY, b INT, c INT)", nil, row("3", "1", "1")),
				tdef("t1", "CREATE TABLE t1 (a INT, b INT PRIMARY KEY, c INT)", []string{"CREATE INDEX i_c ON t1 (c)"}, row("0", "1", "NULL"))},
			Sel:     []string{"x0.c"},
			From:    []fromItem{{Table: "t0", Alias: "x0"}},
			Where:   []wherePred{{Sub: &subq{Kind: "NOT IN", Outer: "x0.a", Col: "x1.c", Table: "t1", Alias: "x1"}}},
			Configs: []config{{Name: "default"}, {Name: "MERGE_JOIN", Hint: "MERGE_JOIN(x1,x0)"}},
		},
		{ // passing neighbour: conjunction of equalities in EXISTS
			Kind:    "engine",
			Tables:  []tableDef{tdef("t0", plain("t0"), nil, row("0", "1", "1")), tdef("t1", plain("t1"), nil, row("0", "0", "0"), row("0", "1", "1"), row("0", "1", "2"))},
			Sel:     []string{"x0.b"},
			From:    []fromItem{{Table: "t0", Alias: "x0"}},
			Where:   []wherePred{{Sub: &subq{Kind: "EXISTS", Table: "t1", Alias: "x1", Where: []conj{{"x1.b = x0.b"}, {"x1.a = x0.a"}}}}},
			Configs: []config{{Name: "default"}, {Name: "JOIN_ORDER", Hint: "JOIN_ORDER(x1,x0)"}, {Name: "random-coster", Seed: 7}, {Name: "HASH_JOIN", Hint: "HASH_JOIN(x0,x1)"}},
		},
	}
}
