package main

func tdef(name, ddl string, idx []string, rows ...[]string) tableDef {
	return tableDef{Name: name, DDL: ddl, Indexes: idx, Rows: rows}
}

func row(a, b, c string) []string { return []string{a, b, c} }

// corpus holds the minimal failing inputs of the known findings (and a few passing neighbours).
func corpus() []engCase {
	plain := func(n string) string { return "CREATE TABLE " + n + " (a INT, b INT, c INT)" }
	return []engCase{
		{ // semi join => inner join over DISTINCT right columns with an OR filter
			Kind:    "engine",
			Tables:  []tableDef{tdef("t0", plain("t0"), nil, row("0", "1", "1")), tdef("t1", plain("t1"), nil, row("0", "0", "0"), row("0", "1", "1"))},
			Sel:     []string{"x0.b"},
			From:    []fromItem{{Table: "t0", Alias: "x0"}},
			Where:   []wherePred{{Sub: &subq{Kind: "EXISTS", Table: "t1", Alias: "x1", Where: []conj{{"x1.b = x0.b", "x1.a = x0.a"}}}}},
			Configs: []config{{Name: "default"}, {Name: "JOIN_ORDER", Hint: "JOIN_ORDER(x1,x0)"}},
		},
		{ // same with an arithmetic equality
			Kind: "engine",
			Tables: []tableDef{tdef("t0", plain("t0"), nil, row("0", "1", "0")),
				tdef("t1", "CREATE TABLE t1 (a INT, b INT, c INT, UNIQUE KEY ua (a))", nil, row("1", "2", "2"), row("0", "0", "1"))},
			Sel:     []string{"x0.a"},
			From:    []fromItem{{Table: "t0", Alias: "x0"}},
			Where:   []wherePred{{Sub: &subq{Kind: "EXISTS", Table: "t1", Alias: "x1", Where: []conj{{"x1.a = x0.c + x1.a"}}}}},
			Configs: []config{{Name: "default"}, {Name: "JOIN_ORDER", Hint: "JOIN_ORDER(x1,x0)"}},
		},
		{ // inner-join conjunct over the null-supplying side of a LEFT JOIN is lost when the outer join is placed on top
			Kind: "engine",
			Tables: []tableDef{tdef("t0", "CREATE TABLE t0 (a INT, b INT PRIMARY KEY, c INT)", nil, row("0", "1", "0"), row("0", "0", "2")),
				tdef("t1", "CREATE TABLE t1 (a INT, b INT PRIMARY KEY, c INT)", nil, row("1", "0", "NULL"), row("2", "2", "NULL"))},
			Sel: []string{"x2.b"},
			From: []fromItem{{Table: "t0", Alias: "x0"}, {Table: "t1", Alias: "x1", Kind: "LEFT", On: []conj{{"x0.c = x1.b"}}},
				{Table: "t1", Alias: "x2", Kind: "INNER", On: []conj{{"x1.a <=> x2.c"}, {"x0.b = x2.b"}}}},
			Configs: []config{{Name: "default"}, {Name: "disable_merge_join", NoMJ: true}},
		},
		{ // NOT IN, NULL outer operand, lookup anti join
			Kind: "engine",
			Tables: []tableDef{tdef("t0", "CREATE TABLE t0 (a INT, b INT, c INT, UNIQUE KEY ua (a))", nil, row("2", "0", "NULL")),
				tdef("t1", plain("t1"), []string{"CREATE INDEX i_b ON t1 (b)"}, row("1", "1", "NULL"))},
			Sel:     []string{"x0.c"},
			From:    []fromItem{{Table: "t0", Alias: "x0"}},
			Where:   []wherePred{{Sub: &subq{Kind: "NOT IN", Outer: "x0.c", Col: "x1.b", Table: "t1", Alias: "x1"}}},
			Configs: []config{{Name: "default"}, {Name: "LOOKUP_JOIN", Hint: "LOOKUP_JOIN(x0,x1)"}},
		},
		{ // NOT IN, NULL in the subquery, merge anti join
			Kind: "engine",
			Tables: []tableDef{tdef("t0", "CREATE TABLE t0 (a INT PRIMARY KEY, b INT, c INT)", nil, row("3", "1", "1")),
				tdef("t1", "CREATE TABLE t1 (a INT, b INT PRIMARY KEY, c INT)", []string{"CREATE INDEX i_c ON t1 (c)"}, row("0", "1", "NULL"))},
			Sel:     []string{"x0.c"},
			From:    []fromItem{{Table: "t0", Alias: "x0"}},
			Where:   []wherePred{{Sub: &subq{Kind: "NOT IN", Outer: "x0.a", Col: "x1.c", Table: "t1", Alias: "x1"}}},
			Configs: []config{{Name: "default"}, {Name: "MERGE_JOIN", Hint: "MERGE_JOIN(x1,x0)"}},
		},
		{ // range-heap join: static filter of a table read through the ordered index scan is lost
			Kind: "engine",
			Tables: []tableDef{tdef("t0", plain("t0"), []string{"CREATE INDEX i_b ON t0 (b)"}, row("1", "4", "2")),
				tdef("t1", plain("t1"), nil, row("3", "2", "5"))},
			Sel:     []string{"x1.c"},
			From:    []fromItem{{Table: "t0", Alias: "x0"}, {Table: "t1", Alias: "x1", Kind: "INNER", On: []conj{{"x0.b >= x1.a"}, {"x0.b < x1.c"}}}},
			Where:   []wherePred{{Disj: conj{"x0.a = 2"}}},
			Configs: []config{{Name: "default"}, {Name: "inner-biased-coster", Bias: "inner"}, {Name: "rangeheap-biased-coster", Bias: "rangeheap"}},
		},
		{ // lookup join over Concat (OR of equalities): static filter of the looked-up table is lost
			Kind: "engine",
			Tables: []tableDef{tdef("t0", "CREATE TABLE t0 (a INT, b INT, c INT, UNIQUE KEY ua (a))", []string{"CREATE INDEX i_bc ON t0 (b, c)"}, row("1", "NULL", "0")),
				tdef("t1", "CREATE TABLE t1 (a INT, b INT PRIMARY KEY, c INT)", nil, row("1", "1", "2"))},
			Sel:     []string{"x0.c"},
			From:    []fromItem{{Table: "t0", Alias: "x0"}, {Table: "t1", Alias: "x1", Kind: "INNER", On: []conj{{"x0.a = x1.a", "x0.b = x1.b"}}}},
			Where:   []wherePred{{Disj: conj{"x0.b IS NOT NULL"}}},
			Configs: []config{{Name: "default"}, {Name: "random-coster", Seed: 17902474889193919599}, {Name: "inner-biased-coster", Bias: "inner"}},
		},
		{ // merge join on a tuple key with a NULL component
			Kind: "engine",
			Tables: []tableDef{tdef("t0", "CREATE TABLE t0 (a INT, b INT PRIMARY KEY, c INT)", []string{"CREATE INDEX i_c ON t0 (c)"}, row("1", "5", "1"), row("NULL", "2", "0")),
				tdef("t1", plain("t1"), []string{"CREATE INDEX i_ac ON t1 (a, c)"}, row("1", "1", "1"), row("NULL", "2", "1"))},
			Sel:     []string{"x1.c"},
			From:    []fromItem{{Table: "t0", Alias: "x0"}, {Table: "t1", Alias: "x1", Kind: "INNER", On: []conj{{"x0.c = x1.a"}, {"x0.c = x1.c"}}}},
			Configs: []config{{Name: "default"}, {Name: "HASH_JOIN", Hint: "HASH_JOIN(x0,x1)"}},
		},
		{ // lookup key from an = conjunct becomes null-safe because an earlier <=> conjunct set the flag
			Kind: "engine",
			Tables: []tableDef{tdef("t0", plain("t0"), nil, row("2", "1", "2")),
				tdef("t1", plain("t1"), []string{"CREATE INDEX i_cba ON t1 (c, b, a)"}, row("1", "NULL", "NULL")),
				tdef("t2", plain("t2"), nil, row("0", "NULL", "1"))},
			Sel: []string{"x2.c"},
			From: []fromItem{{Table: "t0", Alias: "x0"}, {Table: "t1", Alias: "x1", Kind: "CROSS"},
				{Table: "t2", Alias: "x2", Kind: "INNER", On: []conj{{"x1.a <=> x2.c"}, {"x1.c = x2.b"}}}},
			Configs: []config{{Name: "default"}, {Name: "random-coster", Seed: 9360651348355887227}, {Name: "lookup-biased-coster", Bias: "lookup"}},
		},
		{ // passing neighbour: conjunction of equalities in EXISTS
			Kind:    "engine",
			Tables:  []tableDef{tdef("t0", plain("t0"), nil, row("0", "1", "1")), tdef("t1", plain("t1"), nil, row("0", "0", "0"), row("0", "1", "1"), row("0", "1", "2"))},
			Sel:     []string{"x0.b"},
			From:    []fromItem{{Table: "t0", Alias: "x0"}},
			Where:   []wherePred{{Sub: &subq{Kind: "EXISTS", Table: "t1", Alias: "x1", Where: []conj{{"x1.b = x0.b"}, {"x1.a = x0.a"}}}}},
			Configs: []config{{Name: "default"}, {Name: "JOIN_ORDER", Hint: "JOIN_ORDER(x1,x0)"}, {Name: "random-coster", Seed: 7}, {Name: "HASH_JOIN", Hint: "HASH_JOIN(x0,x1)"}},
		},
	}
}
