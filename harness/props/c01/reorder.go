// Operator-table part of the C01 driver: calls the real assoc / leftAsscom / rightAsscom / commute of
// sql/memo/join_order_builder.go (through the verif hook) on generated edges; Coq evaluates the model
// (tables translated from the same source) on the same edges.
package main

import (
	"fmt"

	"github.com/dolthub/go-mysql-server/sql/memo"
	"github.com/dolthub/go-mysql-server/sql/plan"

	"verifharness/lib"
)

type edgeT struct {
	JT                    uint16 `json:"jt"`
	Left, Right, Ses, Nrs uint64
}

type reorderCase struct {
	Kind string `json:"kind"` // "reorder" | "commute"
	Op   int    `json:"op"`   // 0 assoc, 1 leftAsscom, 2 rightAsscom
	A, B edgeT
}

const numJoinTypes = 37

var logicalJT = []plan.JoinType{plan.JoinTypeCross, plan.JoinTypeInner, plan.JoinTypeSemi, plan.JoinTypeAnti,
	plan.JoinTypeAntiIncludeNulls, plan.JoinTypeLeftOuter, plan.JoinTypeFullOuter, plan.JoinTypeGroupBy,
	plan.JoinTypeLateralInner, plan.JoinTypeLateralCross, plan.JoinTypeLateralLeft, plan.JoinTypeLateralRight}

func genEdge(r *lib.RNG) edgeT {
	var e edgeT
	if r.Chance(1, 12) {
		e.JT = uint16(r.Intn(numJoinTypes))
	} else {
		e.JT = uint16(lib.Pick(r, logicalJT))
	}
	e.Left, e.Right = uint64(r.Intn(16)), uint64(r.Intn(16))
	e.Ses = uint64(r.Intn(16))
	if r.Chance(1, 3) {
		e.Ses = (e.Left | e.Right) & uint64(r.Intn(16))
	}
	if r.Bool() {
		e.Nrs = uint64(r.Intn(16))
	}
	return e
}

func genReorderCase(r *lib.RNG) reorderCase {
	c := reorderCase{Kind: "reorder", Op: r.Intn(3), A: genEdge(r), B: genEdge(r)}
	if r.Chance(1, 2) { // the shapes calcTES produces: disjoint sides, SES inside the sides
		c.A.Left, c.A.Right = 1, 2
		c.B.Left, c.B.Right = 3, 4
		if r.Bool() {
			c.A.Right, c.B.Left = 6, 2
		}
		c.A.Ses = (c.A.Left | c.A.Right) & uint64(r.Intn(8))
		c.B.Ses = (c.B.Left | c.B.Right) & uint64(r.Intn(8))
		c.A.Nrs &= c.A.Ses
		c.B.Nrs &= c.B.Ses
	}
	if r.Chance(1, 20) {
		c.Kind = "commute"
	}
	return c
}

func coqEdge(e edgeT) string {
	return fmt.Sprintf("%d %d %d %d %d", e.JT, e.Left, e.Right, e.Ses, e.Nrs)
}

func runReorder(c *lib.Ctx, cs reorderCase) {
	if cs.Kind == "commute" {
		var res bool
		p, _ := lib.Recover(func() { res = memo.VerifC01Commute(plan.JoinType(cs.A.JT)) })
		obs := 0
		if res {
			obs = 1
		}
		if p {
			obs = 2
		}
		c.Case(fmt.Sprintf("Commute %d %d", cs.A.JT, obs), cs, fmt.Sprintf("commute|%d", cs.A.JT))
		c.Count("commute")
		return
	}
	var res bool
	p, _ := lib.Recover(func() {
		res = memo.VerifC01Reorder(cs.Op,
			memo.VerifC01Edge{JoinType: plan.JoinType(cs.A.JT), Left: cs.A.Left, Right: cs.A.Right, Ses: cs.A.Ses, NullRejs: cs.A.Nrs},
			memo.VerifC01Edge{JoinType: plan.JoinType(cs.B.JT), Left: cs.B.Left, Right: cs.B.Right, Ses: cs.B.Ses, NullRejs: cs.B.Nrs})
	})
	obs := 0
	if res {
		obs = 1
	}
	if p {
		obs = 2
	}
	key := ""
	if obs == 1 {
		key = fmt.Sprintf("%d|%v|%v", cs.Op, cs.A, cs.B)
	}
	c.Case(fmt.Sprintf("Reorder %d %s %s %d", cs.Op, coqEdge(cs.A), coqEdge(cs.B), obs), cs, key)
	c.Count(fmt.Sprintf("reorder:%s=%s", []string{"assoc", "leftAsscom", "rightAsscom"}[cs.Op], []string{"false", "true", "panic"}[obs]))
}
