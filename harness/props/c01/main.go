// Driver for C01 (query results do not depend on the physical plan chosen).
//   reorder.go : assoc / leftAsscom / rightAsscom / commute on generated edges (compared with the Coq model)
//   engine.go  : generated SELECTs under >= 6 steering configurations (predicate on the implementation alone)
package main

import (
	"encoding/json"
	"os"

	"verifharness/lib"
)

func main() {
	lib.Main("C01", func(c *lib.Ctx) {
		c.Header = "From Coq Require Import List NArith ZArith.\nImport ListNotations.\nFrom GMS Require Import Corr.C01.\nOpen Scope N_scope."
		c.CaseType = "C01.case"
		c.MismatchFn = "C01.mismatches"
		c.SetRule("four streams. (0) operators: plan.NewJoin nodes (inner, left outer, semi, anti, anti-include-nulls, hash / left-outer-hash / semi-hash / anti-hash-include-nulls, merge / left-outer-merge over key-sorted inputs) over two in-memory tables of 0-6 rows (k, v) with NULLs and duplicate keys, ON = l.k = r.k plus an optional extra conjunct, executed by rowexec.DefaultBuilder; the row SEQUENCE is compared with the Coq operator models inside Coq. (1) reorder: edges with join types over all 37 plan.JoinType values (mostly the 12 that getOpIdx accepts), " +
			"vertex sets / SES / nullRejectedRels over 4 vertices, half of them in the shapes calcTES builds; observed assoc / leftAsscom / " +
			"rightAsscom / commute results are compared with the Coq model inside Coq. (2) engine: SELECTs over 2-4 generated tables (6 key layouts, " +
			"random secondary indexes, values 0-2 and NULL, 0-9 rows), 1-4 tables in FROM (inner / left / right / cross, ON = equalities, <=>, " +
			"inequalities, BETWEEN, OR), the other tables under IN / NOT IN / EXISTS / NOT EXISTS (correlated, OR, arithmetic), plain filters, " +
			"1/4 with a total ORDER BY; each run under 17 configurations (default, 3 seeded random costers, @@disable_merge_join, 2 JOIN_ORDER, " +
			"LOOKUP/HASH/MERGE/INNER/SEMI/ANTI/LEFT_OUTER_LOOKUP_JOIN, LEFT_DEEP, NO_MERGE_JOIN, JOIN_ORDER+algorithm+random coster). " +
			"A case is non-trivial when the default result is non-empty (engine) or the transformation is permitted (reorder).")
		if c.ReplayFile != "" {
			b, _ := os.ReadFile(c.ReplayFile)
			var rec struct {
				Case json.RawMessage `json:"case"`
			}
			if json.Unmarshal(b, &rec) == nil && len(rec.Case) > 0 {
				b = rec.Case
			}
			var k struct {
				Kind string `json:"kind"`
			}
			json.Unmarshal(b, &k)
			switch k.Kind {
			case "engine":
				var cs engCase
				lib.LoadReplay(c.ReplayFile, &cs)
				runEngine(c, cs)
			case "oper":
				var cs operCase
				lib.LoadReplay(c.ReplayFile, &cs)
				runOper(c, cs)
			default:
				var cs reorderCase
				lib.LoadReplay(c.ReplayFile, &cs)
				runReorder(c, cs)
			}
			return
		}
		// fixed corpus: every known finding first
		for _, cs := range corpus() {
			runEngine(c, cs)
		}
		nEng := c.N / 8
		nOper := c.N / 2
		for i := 0; i < nOper; i++ {
			runOper(c, genOperCase(c.R.Fork()))
		}
		for i := 0; i < c.N-nEng-nOper; i++ {
			runReorder(c, genReorderCase(c.R.Fork()))
		}
		for i := 0; i < nEng; i++ {
			switch i % 5 {
			case 3:
				runEngine(c, genMergeCase(c.R.Fork()))
			case 4:
				runEngine(c, genRangeCase(c.R.Fork()))
			default:
				runEngine(c, genEngineCase(c.R.Fork()))
			}
		}
		c.SetExtra("engine_queries", extraQueries)
		c.SetExtra("engine_distinct_plans_total", extraPlans)
		if extraQueries > 0 {
			c.SetExtra("engine_distinct_plans_per_query_x100", 100*extraPlans/extraQueries)
		}
	})
}
