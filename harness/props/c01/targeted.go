package main

import (
	"fmt"

	"verifharness/lib"
)

// Targeted engine-level streams: shapes that the general generator reaches too rarely.

func smallRows(r *lib.RNG, n int, gen func() []string) [][]string {
	var out [][]string
	for i := 0; i < n; i++ {
		out = append(out, gen())
	}
	return out
}

func nv(r *lib.RNG, hi int, nullDen int) string {
	if nullDen > 0 && r.Chance(1, nullDen) {
		return "NULL"
	}
	return fmt.Sprint(r.Intn(hi + 1))
}

// genMergeCase: LEFT / INNER JOIN on an equality plus an extra non-equality ON conjunct, duplicate keys on both
// sides, composite indexes (a, b) so that merge joins are available; steered with MERGE_JOIN hints / merge-biased coster.
func genMergeCase(r *lib.RNG) engCase {
	var c engCase
	c.Kind = "engine"
	for i := 0; i < 2; i++ {
		name := fmt.Sprintf("t%d", i)
		t := tableDef{Name: name, DDL: fmt.Sprintf("CREATE TABLE %s (a INT, b INT, c INT)", name)}
		switch r.Intn(4) {
		case 0:
			t.Indexes = []string{fmt.Sprintf("CREATE INDEX i_ab ON %s (a, b)", name)}
		case 1:
			t.Indexes = []string{fmt.Sprintf("CREATE INDEX i_a ON %s (a)", name)}
		case 2:
			t.Indexes = []string{fmt.Sprintf("CREATE INDEX i_ab ON %s (a, b)", name), fmt.Sprintf("CREATE INDEX i_a ON %s (a)", name)}
		default:
			t.DDL = fmt.Sprintf("CREATE TABLE %s (a INT, b INT, c INT, PRIMARY KEY (a, b))", name)
		}
		pk := r.Intn(4) == 3 && len(t.Indexes) == 0
		nullDen := 8
		if pk || len(t.Indexes) == 0 {
			nullDen = 0
		}
		seen := map[string]bool{}
		for _, row := range smallRows(r, r.Range(2, 8), func() []string { return []string{nv(r, 2, nullDen), nv(r, 3, nullDen), nv(r, 2, 6)} }) {
			if len(t.Indexes) == 0 { // primary key layout
				k := row[0] + "," + row[1]
				if seen[k] {
					continue
				}
				seen[k] = true
			}
			t.Rows = append(t.Rows, row)
		}
		c.Tables = append(c.Tables, t)
	}
	kind := "LEFT"
	if r.Chance(1, 4) {
		kind = "INNER"
	}
	on := []conj{{"x0.a = x1.a"}}
	switch r.Intn(6) {
	case 0:
		on = append(on, conj{fmt.Sprintf("x0.b %s x1.b", lib.Pick(r, []string{"<", "<=", ">", ">=", "<>"}))})
	case 1:
		on = append(on, conj{fmt.Sprintf("x1.b %s %d", lib.Pick(r, []string{"<", "<=", ">", ">=", "<>", "="}), r.Intn(4))})
	case 2:
		on = append(on, conj{fmt.Sprintf("x0.b %s %d", lib.Pick(r, []string{"<", ">", "<>", "="}), r.Intn(4))})
	case 3:
		on = append(on, conj{fmt.Sprintf("x0.c %s x1.c", lib.Pick(r, []string{"<", "<=", "<>", "="}))})
	case 4:
		on = append(on, conj{"x0.b < x1.b", "x1.c = 1"})
	default:
		on = append(on, conj{fmt.Sprintf("x0.b + x1.b %s %d", lib.Pick(r, []string{"<", ">", "="}), r.Range(1, 4))})
	}
	if r.Bool() {
		on[0], on[1] = on[1], on[0]
	}
	c.From = []fromItem{{Table: "t0", Alias: "x0"}, {Table: "t1", Alias: "x1", Kind: kind, On: on}}
	c.Sel = []string{"x0.a", "x0.b", "x0.c", "x1.a", "x1.b", "x1.c"}
	if r.Chance(1, 5) {
		c.Where = []wherePred{{Disj: conj{genAtom(r, []string{"x0"})}}}
	}
	c.Ordered = r.Chance(1, 4)
	c.Configs = []config{{Name: "default"},
		{Name: "MERGE_JOIN", Hint: "MERGE_JOIN(x0,x1)"}, {Name: "merge-biased-coster", Bias: "merge"},
		{Name: "MERGE_JOIN", Hint: "MERGE_JOIN(x0,x1)", Bias: "merge"},
		{Name: "HASH_JOIN", Hint: "HASH_JOIN(x0,x1)"}, {Name: "LOOKUP_JOIN", Hint: "LOOKUP_JOIN(x0,x1)"},
		{Name: "hash-biased-coster", Bias: "hash"}, {Name: "lookup-biased-coster", Bias: "lookup"},
		{Name: "NO_MERGE_JOIN", Hint: "NO_MERGE_JOIN"}, {Name: "disable_merge_join", NoMJ: true},
		{Name: "random-coster", Seed: r.Uint64() | 1}, {Name: "random-coster", Seed: r.Uint64() | 1}}
	c.SQL = c.query("")
	return c
}

// genRangeCase: value-in-range joins (value from the left table, bounds from the right one) with every
// combination of open / closed bounds and values exactly on the bounds; steered to the range-heap join.
func genRangeCase(r *lib.RNG) engCase {
	var c engCase
	c.Kind = "engine"
	t0 := tableDef{Name: "t0", DDL: "CREATE TABLE t0 (a INT, b INT, c INT)"}
	if r.Bool() {
		t0.Indexes = []string{"CREATE INDEX i_b ON t0 (b)"}
	}
	t0.Rows = smallRows(r, r.Range(1, 7), func() []string { return []string{nv(r, 5, 0), nv(r, 4, 8), nv(r, 2, 6)} })
	t1 := tableDef{Name: "t1", DDL: "CREATE TABLE t1 (a INT, b INT, c INT)"}
	switch r.Intn(3) {
	case 0:
		t1.Indexes = []string{"CREATE INDEX i_a ON t1 (a)"}
	case 1:
		t1.Indexes = []string{"CREATE INDEX i_ac ON t1 (a, c)"}
	}
	t1.Rows = smallRows(r, r.Range(1, 6), func() []string {
		lo := r.Intn(4)
		hi := lo + r.Intn(3)
		if r.Chance(1, 8) {
			hi = lo - 1
		}
		row := []string{fmt.Sprint(lo), nv(r, 2, 6), fmt.Sprint(hi)}
		if r.Chance(1, 10) {
			row[r.Intn(2)*2] = "NULL"
		}
		return row
	})
	c.Tables = []tableDef{t0, t1}
	var on []conj
	switch r.Intn(7) {
	case 0:
		on = []conj{{"x0.b >= x1.a"}, {"x0.b < x1.c"}}
	case 1:
		on = []conj{{"x0.b >= x1.a"}, {"x0.b <= x1.c"}}
	case 2:
		on = []conj{{"x0.b > x1.a"}, {"x0.b <= x1.c"}}
	case 3:
		on = []conj{{"x0.b > x1.a"}, {"x0.b < x1.c"}}
	case 4:
		on = []conj{{"x0.b BETWEEN x1.a AND x1.c"}}
	case 5:
		on = []conj{{"x1.a <= x0.b"}, {"x1.c > x0.b"}}
	default:
		on = []conj{{"x1.c >= x0.b"}, {"x1.a < x0.b"}}
	}
	if r.Chance(1, 5) {
		on = append(on, conj{fmt.Sprintf("x0.c %s x1.b", lib.Pick(r, []string{"=", "<>", "<"}))})
	}
	kind := "INNER"
	if r.Chance(2, 5) {
		kind = "LEFT"
	}
	c.From = []fromItem{{Table: "t0", Alias: "x0"}, {Table: "t1", Alias: "x1", Kind: kind, On: on}}
	c.Sel = []string{"x0.a", "x0.b", "x1.a", "x1.c"}
	if r.Chance(1, 6) {
		c.Where = []wherePred{{Disj: conj{genAtom(r, []string{"x0", "x1"})}}}
	}
	c.Ordered = r.Chance(1, 4)
	c.Configs = []config{{Name: "default"}, {Name: "rangeheap-biased-coster", Bias: "rangeheap"},
		{Name: "hash-biased-coster", Bias: "hash"}, {Name: "inner-biased-coster", Bias: "inner"},
		{Name: "JOIN_ORDER", Hint: "JOIN_ORDER(x1,x0)"}, {Name: "JOIN_ORDER", Hint: "JOIN_ORDER(x0,x1)", Bias: "rangeheap"},
		{Name: "NO_MERGE_JOIN", Hint: "NO_MERGE_JOIN"},
		{Name: "random-coster", Seed: r.Uint64() | 1}, {Name: "random-coster", Seed: r.Uint64() | 1}}
	c.SQL = c.query("")
	return c
}
