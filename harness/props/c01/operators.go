// Operator-level part of the C01 driver (layer b): plan.NewJoin nodes over in-memory tables are executed through
// rowexec.DefaultBuilder for the physical join kinds; the produced row SEQUENCE is compared inside Coq with the
// list-function models of Phys/C01Joins.v and Phys/C01Merge.v (Corr/C01.v, constructor Oper).
package main

import (
	"context"
	"fmt"
	"io"
	"sort"
	"strings"

	"github.com/dolthub/go-mysql-server/memory"
	"github.com/dolthub/go-mysql-server/sql"
	"github.com/dolthub/go-mysql-server/sql/expression"
	"github.com/dolthub/go-mysql-server/sql/plan"
	"github.com/dolthub/go-mysql-server/sql/rowexec"
	"github.com/dolthub/go-mysql-server/sql/types"

	"verifharness/lib"
)

type orow [2]*int64 // k, v

type operCase struct {
	Kind  string `json:"kind"` // "oper"
	Op    int    `json:"op"`
	Extra int    `json:"extra"`
	L, R  []orow
}

var operKinds = []struct {
	name string
	jt   plan.JoinType
	hash bool
	sort bool
}{
	{"inner", plan.JoinTypeInner, false, false},                       // 0
	{"left-outer", plan.JoinTypeLeftOuter, false, false},              // 1
	{"semi", plan.JoinTypeSemi, false, false},                         // 2
	{"anti", plan.JoinTypeAnti, false, false},                         // 3  (NULL comparison rejects the row)
	{"anti-include-nulls", plan.JoinTypeAntiIncludeNulls, false, false}, // 4
	{"hash", plan.JoinTypeHash, true, false},                          // 5
	{"left-outer-hash", plan.JoinTypeLeftOuterHash, true, false},      // 6
	{"semi-hash", plan.JoinTypeSemiHash, true, false},                 // 7
	{"anti-hash-include-nulls", plan.JoinTypeAntiHashIncludeNulls, true, false}, // 8
	{"merge", plan.JoinTypeMerge, false, true},                        // 9
	{"left-outer-merge", plan.JoinTypeLeftOuterMerge, false, true},    // 10
}

func genORows(r *lib.RNG, sorted bool) []orow {
	n := r.Intn(7)
	dom := 3
	if sorted { // merge joins: more duplicate keys, longer key blocks
		n = r.Intn(9)
		dom = 2
	}
	out := make([]orow, n)
	for i := range out {
		for j := 0; j < 2; j++ {
			if !r.Chance(1, 6) {
				v := int64(r.Intn(dom + j))
				out[i][j] = &v
			}
		}
	}
	if sorted { // by key, NULL first (what an index scan delivers), stable
		sort.SliceStable(out, func(a, b int) bool {
			x, y := out[a][0], out[b][0]
			if x == nil {
				return y != nil
			}
			return y != nil && *x < *y
		})
	}
	return out
}

func genOperCase(r *lib.RNG) operCase {
	c := operCase{Kind: "oper", Op: r.Intn(len(operKinds) + 2), Extra: r.Intn(4)}
	if c.Op >= len(operKinds) { // merge joins get a double share, mostly with an extra ON filter
		c.Op = 9 + c.Op - len(operKinds)
	}
	if operKinds[c.Op].sort && c.Extra == 0 && r.Chance(2, 3) {
		c.Extra = 1 + r.Intn(3)
	}
	c.L = genORows(r, operKinds[c.Op].sort)
	c.R = genORows(r, operKinds[c.Op].sort)
	return c
}

func coqOZ(p *int64) string {
	if p == nil {
		return "None"
	}
	return fmt.Sprintf("(Some %d%%Z)", *p)
}

func coqORows(rs []orow) string {
	parts := make([]string, len(rs))
	for i, r := range rs {
		parts[i] = "(" + coqOZ(r[0]) + ", " + coqOZ(r[1]) + ")"
	}
	return lib.CoqList(parts)
}

func runOper(c *lib.Ctx, cs operCase) {
	k := operKinds[cs.Op]
	db := memory.NewDatabase("op")
	pro := memory.NewDBProvider(db)
	ctx := sql.NewContext(context.Background(), sql.WithSession(memory.NewSession(sql.NewBaseSession(), pro)))
	mk := func(name string, rows []orow) (*memory.Table, error) {
		sch := sql.NewPrimaryKeySchema(sql.Schema{
			{Name: "k", Source: name, Type: types.Int64, Nullable: true},
			{Name: "v", Source: name, Type: types.Int64, Nullable: true},
		})
		t := memory.NewTable(ctx, db.BaseDatabase, name, sch, nil)
		for _, r := range rows {
			row := sql.Row{nil, nil}
			for j := 0; j < 2; j++ {
				if r[j] != nil {
					row[j] = *r[j]
				}
			}
			if err := t.Insert(ctx, row); err != nil {
				return nil, err
			}
		}
		return t, nil
	}
	var out []string
	var observed []string
	panicked, pv := lib.Recover(func() {
		lt, err := mk("l", cs.L)
		if err != nil {
			panic(err)
		}
		rt, err := mk("r", cs.R)
		if err != nil {
			panic(err)
		}
		lk := expression.NewGetField(0, types.Int64, "k", true)
		lv := expression.NewGetField(1, types.Int64, "v", true)
		rk := expression.NewGetField(2, types.Int64, "k", true)
		rv := expression.NewGetField(3, types.Int64, "v", true)
		var cond sql.Expression = expression.NewEquals(lk, rk)
		switch cs.Extra {
		case 1:
			cond = expression.NewAnd(cond, expression.NewLessThan(lv, rv))
		case 2:
			cond = expression.NewAnd(cond, expression.NewNot(expression.NewEquals(lv, rv)))
		case 3:
			cond = expression.NewAnd(cond, expression.NewEquals(rv, expression.NewLiteral(int64(1), types.Int64)))
		}
		var left sql.Node = plan.NewResolvedTable(lt, nil, nil)
		var right sql.Node = plan.NewResolvedTable(rt, nil, nil)
		if k.hash {
			right = plan.NewHashLookup(ctx, right,
				expression.Tuple{expression.NewGetField(0, types.Int64, "k", true)},
				expression.Tuple{expression.NewGetField(0, types.Int64, "k", true)}, k.jt)
		}
		j := plan.NewJoin(ctx, left, right, k.jt, cond)
		iter, err := rowexec.NewBuilder(nil, sql.EngineOverrides{}).Build(ctx, j, nil)
		if err != nil {
			panic(err)
		}
		for {
			row, err := iter.Next(ctx)
			if err == io.EOF {
				break
			}
			if err != nil {
				panic(err)
			}
			vs := make([]string, len(row))
			ss := make([]string, len(row))
			for i, v := range row {
				if v == nil {
					vs[i], ss[i] = "None", "NULL"
				} else {
					vs[i], ss[i] = fmt.Sprintf("(Some %d%%Z)", v), fmt.Sprint(v)
				}
			}
			observed = append(observed, lib.CoqList(vs))
			out = append(out, strings.Join(ss, ","))
		}
		iter.Close(ctx)
	})
	c.Count("oper:" + k.name)
	if panicked {
		id := c.CaseNoModel(cs, "")
		c.PredFail(id, "operator-panic/"+k.name, fmt.Sprintf("%s join over %v / %v panicked: %s", k.name, cs.L, cs.R, pv), cs)
		return
	}
	key := ""
	if len(out) > 0 {
		key = fmt.Sprintf("oper|%d|%d|%v", cs.Op, cs.Extra, out)
	}
	c.Case(fmt.Sprintf("Oper %d %d %s %s %s", cs.Op, cs.Extra, coqORows(cs.L), coqORows(cs.R), lib.CoqList(observed)), cs, key)
}
