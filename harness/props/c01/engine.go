// Engine-level part of the C01 driver: generated SELECTs over generated tables and index layouts are run under
// several steering configurations (default coster, seeded random costers, join hints, @@disable_merge_join);
// the predicate is evaluated on the implementation alone: all configurations return the same bag of rows
// (the same sequence when the statement has a total ORDER BY).  A failing case is shrunk (greedy removal of
// tables, conjuncts, disjuncts, indexes, rows, select columns) and its signature is derived from the shape of
// the shrunk statement.
package main

import (
	"context"
	"fmt"
	"hash/fnv"
	"os"
	"regexp"
	"sort"
	"strings"
	"sync"

	"github.com/dolthub/go-mysql-server/sql"
	"github.com/dolthub/go-mysql-server/sql/memo"

	"verifharness/lib"
	"verifharness/lib/eng"
)

// ---------- case ----------

type config struct {
	Name string `json:"name"`            // class of the configuration
	Hint string `json:"hint,omitempty"`  // text placed in /*+ ... */
	Seed uint64 `json:"seed,omitempty"`  // random coster seed (0 = default coster)
	NoMJ bool   `json:"no_mj,omitempty"` // SET @@disable_merge_join = 1
	Bias string `json:"bias,omitempty"`  // memo.New<Bias>BiasedCoster: rangeheap, merge, lookup, hash, inner, partial
}

type conj []string // disjunction of atoms; a WHERE / ON clause is a conjunction of these

type tableDef struct {
	Name    string     `json:"name"`
	DDL     string     `json:"ddl"`
	Indexes []string   `json:"indexes"`
	Rows    [][]string `json:"rows"` // SQL literals
}

type fromItem struct {
	Table string `json:"table"`
	Alias string `json:"alias"`
	Kind  string `json:"kind"` // "" (first), INNER, LEFT, RIGHT, CROSS
	On    []conj `json:"on,omitempty"`
}

type subq struct {
	Kind  string `json:"kind"`            // IN, NOT IN, EXISTS, NOT EXISTS
	Outer string `json:"outer,omitempty"` // tested outer column (IN / NOT IN)
	Col   string `json:"col,omitempty"`   // selected inner column (IN / NOT IN)
	Table string `json:"table"`
	Alias string `json:"alias"`
	Where []conj `json:"where,omitempty"`
}

type wherePred struct {
	Sub  *subq `json:"sub,omitempty"`
	Disj conj  `json:"disj,omitempty"` // plain atoms OR-ed (with the subquery predicate, if any)
}

type engCase struct {
	Kind    string      `json:"kind"` // "engine"
	Tables  []tableDef  `json:"tables"`
	Sel     []string    `json:"select"`
	From    []fromItem  `json:"from"`
	Where   []wherePred `json:"where,omitempty"`
	Ordered bool        `json:"ordered"`
	Configs []config    `json:"configs"`
	SQL     string      `json:"sql,omitempty"` // rendered, for the reader
}

func renderConj(c conj) string {
	if len(c) == 1 {
		return c[0]
	}
	return "(" + strings.Join(c, " OR ") + ")"
}

func renderConjs(cs []conj) string {
	parts := make([]string, len(cs))
	for i, c := range cs {
		parts[i] = renderConj(c)
	}
	return strings.Join(parts, " AND ")
}

func (s *subq) render() string {
	w := ""
	if len(s.Where) > 0 {
		w = " WHERE " + renderConjs(s.Where)
	}
	switch s.Kind {
	case "IN", "NOT IN":
		return fmt.Sprintf("%s %s (SELECT %s FROM %s %s%s)", s.Outer, s.Kind, s.Col, s.Table, s.Alias, w)
	default:
		return fmt.Sprintf("%s (SELECT 1 FROM %s %s%s)", s.Kind, s.Table, s.Alias, w)
	}
}

func (w wherePred) render() string {
	var parts []string
	if w.Sub != nil {
		parts = append(parts, w.Sub.render())
	}
	parts = append(parts, w.Disj...)
	return renderConj(conj(parts))
}

func (c *engCase) setup() []string {
	var out []string
	for _, t := range c.Tables {
		out = append(out, t.DDL)
		out = append(out, t.Indexes...)
		if len(t.Rows) > 0 {
			vs := make([]string, len(t.Rows))
			for i, r := range t.Rows {
				vs[i] = "(" + strings.Join(r, ", ") + ")"
			}
			out = append(out, fmt.Sprintf("INSERT INTO %s VALUES %s", t.Name, strings.Join(vs, ", ")))
		}
	}
	return out
}

func (c *engCase) query(hint string) string {
	var sb strings.Builder
	sb.WriteString("SELECT ")
	if hint != "" {
		sb.WriteString("/*+ " + hint + " */ ")
	}
	sb.WriteString(strings.Join(c.Sel, ", "))
	sb.WriteString(" FROM ")
	for i, f := range c.From {
		if i == 0 {
			fmt.Fprintf(&sb, "%s %s", f.Table, f.Alias)
			continue
		}
		fmt.Fprintf(&sb, " %s JOIN %s %s", f.Kind, f.Table, f.Alias)
		if f.Kind != "CROSS" {
			sb.WriteString(" ON " + renderConjs(f.On))
		}
	}
	if len(c.Where) > 0 {
		ws := make([]string, len(c.Where))
		for i, w := range c.Where {
			ws[i] = w.render()
		}
		sb.WriteString(" WHERE " + strings.Join(ws, " AND "))
	}
	if c.Ordered {
		sb.WriteString(" ORDER BY " + strings.Join(c.Sel, ", "))
	}
	return sb.String()
}

// ---------- seeded random coster ----------

type randCoster struct{ seed uint64 }

func (c randCoster) EstimateCost(ctx *sql.Context, n memo.RelExpr, s sql.StatsProvider) (float64, error) {
	h := fnv.New64a()
	fmt.Fprintf(h, "%d|%T|%d|%s", c.seed, n, n.Group().Id, n.String())
	return float64(h.Sum64()%100000) + 1, nil
}

// ---------- generator ----------

var colNames = []string{"a", "b", "c"}

func genVal(r *lib.RNG, nullable bool) string {
	if nullable && r.Chance(1, 6) {
		return "NULL"
	}
	return fmt.Sprint(r.Intn(3))
}

func genTable(r *lib.RNG, name string) tableDef {
	t := tableDef{Name: name}
	nn := map[string]bool{}
	layout := r.Intn(6)
	switch layout {
	case 0:
		nn["a"] = true
		t.DDL = fmt.Sprintf("CREATE TABLE %s (a INT PRIMARY KEY, b INT, c INT)", name)
	case 1:
		nn["a"], nn["b"] = true, true
		t.DDL = fmt.Sprintf("CREATE TABLE %s (a INT, b INT, c INT, PRIMARY KEY (a, b))", name)
	case 2:
		t.DDL = fmt.Sprintf("CREATE TABLE %s (a INT, b INT, c INT)", name)
	case 3:
		nn["a"] = true
		t.DDL = fmt.Sprintf("CREATE TABLE %s (a INT NOT NULL, b INT, c INT)", name)
	case 4:
		nn["b"] = true
		t.DDL = fmt.Sprintf("CREATE TABLE %s (a INT, b INT PRIMARY KEY, c INT)", name)
	default:
		t.DDL = fmt.Sprintf("CREATE TABLE %s (a INT, b INT, c INT, UNIQUE KEY ua (a))", name)
	}
	for _, ix := range []string{"b", "c", "b, c", "a, c", "c, b, a"} {
		if r.Chance(1, 4) {
			t.Indexes = append(t.Indexes, fmt.Sprintf("CREATE INDEX i_%s ON %s (%s)", strings.NewReplacer(", ", "").Replace(ix), name, ix))
		}
	}
	n := r.Range(2, 9)
	if r.Chance(1, 12) {
		n = 0
	}
	seen := map[string]bool{}
	for i := 0; i < n; i++ {
		row := []string{genVal(r, !nn["a"]), genVal(r, !nn["b"]), genVal(r, true)}
		if (layout == 0 || layout == 1) && r.Bool() { // widen the key domain
			row[0] = fmt.Sprint(3 + r.Intn(3))
		}
		if layout == 4 && r.Bool() {
			row[1] = fmt.Sprint(3 + r.Intn(3))
		}
		key := ""
		switch layout {
		case 0:
			key = row[0]
		case 1:
			key = row[0] + "," + row[1]
		case 4:
			key = row[1]
		case 5:
			if row[0] != "NULL" {
				key = row[0]
			}
		}
		if key != "" {
			if seen[key] {
				continue
			}
			seen[key] = true
		}
		t.Rows = append(t.Rows, row)
	}
	return t
}

func col(r *lib.RNG, alias string) string { return alias + "." + lib.Pick(r, colNames) }

func genAtom(r *lib.RNG, aliases []string) string {
	a := lib.Pick(r, aliases)
	switch r.Intn(7) {
	case 0:
		return fmt.Sprintf("%s IS NULL", col(r, a))
	case 1:
		return fmt.Sprintf("%s IS NOT NULL", col(r, a))
	case 2:
		return fmt.Sprintf("%s %s %d", col(r, a), lib.Pick(r, []string{"=", "<", ">", "<=", ">=", "<>"}), r.Intn(3))
	case 3:
		return fmt.Sprintf("%s = %d", col(r, a), r.Intn(3))
	case 4:
		return fmt.Sprintf("%s IN (%d, %d)", col(r, a), r.Intn(4), r.Intn(4))
	case 5:
		b := lib.Pick(r, aliases)
		return fmt.Sprintf("%s %s %s", col(r, a), lib.Pick(r, []string{"=", "<", "<=", "<>", "<=>"}), col(r, b))
	default:
		return fmt.Sprintf("%s BETWEEN %d AND %d", col(r, a), r.Intn(3), 1+r.Intn(3))
	}
}

func genOn(r *lib.RNG, left []string, right string) []conj {
	var out []conj
	n := 1
	if r.Chance(1, 3) {
		n = 2
	}
	for i := 0; i < n; i++ {
		l := lib.Pick(r, left)
		switch r.Intn(10) {
		case 0:
			out = append(out, conj{fmt.Sprintf("%s %s %s", col(r, l), lib.Pick(r, []string{"<", "<=", ">", ">="}), col(r, right))})
		case 1:
			out = append(out, conj{fmt.Sprintf("%s <=> %s", col(r, l), col(r, right))})
		case 2:
			out = append(out, conj{fmt.Sprintf("%s = %s", col(r, l), col(r, right)), fmt.Sprintf("%s = %s", col(r, l), col(r, right))})
		case 3:
			out = append(out, conj{genAtom(r, []string{right})})
		case 4:
			out = append(out, conj{fmt.Sprintf("%s BETWEEN %s AND %s", col(r, right), col(r, l), col(r, l))})
		default:
			out = append(out, conj{fmt.Sprintf("%s = %s", col(r, l), col(r, right))})
		}
	}
	return out
}

func genSubq(r *lib.RNG, outer []string, alias, table string) *subq {
	s := &subq{Table: table, Alias: alias}
	corr := func() string { return fmt.Sprintf("%s = %s", col(r, alias), col(r, lib.Pick(r, outer))) }
	switch r.Intn(7) {
	case 0:
	case 1:
		s.Where = []conj{{genAtom(r, []string{alias})}}
	case 2:
		s.Where = []conj{{corr()}}
	case 3:
		s.Where = []conj{{corr(), genAtom(r, []string{alias})}}
	case 4:
		s.Where = []conj{{corr(), corr()}}
	case 5:
		s.Where = []conj{{fmt.Sprintf("%s = %s + %s", col(r, alias), col(r, lib.Pick(r, outer)), col(r, alias))}}
	default:
		s.Where = []conj{{corr()}, {genAtom(r, []string{alias})}}
	}
	s.Kind = lib.Pick(r, []string{"IN", "NOT IN", "EXISTS", "NOT EXISTS"})
	if s.Kind == "IN" || s.Kind == "NOT IN" {
		s.Outer = col(r, lib.Pick(r, outer))
		s.Col = col(r, alias)
	} else if len(s.Where) == 0 {
		s.Where = []conj{{corr()}}
	}
	return s
}

func perm(r *lib.RNG, xs []string) []string {
	out := append([]string(nil), xs...)
	for i := len(out) - 1; i > 0; i-- {
		j := r.Intn(i + 1)
		out[i], out[j] = out[j], out[i]
	}
	return out
}

func (c *engCase) allAliases() []string {
	var out []string
	for _, f := range c.From {
		out = append(out, f.Alias)
	}
	for _, w := range c.Where {
		if w.Sub != nil {
			out = append(out, w.Sub.Alias)
		}
	}
	return out
}

func genConfigs(r *lib.RNG, all []string) []config {
	cfgs := []config{{Name: "default"},
		{Name: "random-coster", Seed: r.Uint64() | 1}, {Name: "random-coster", Seed: r.Uint64() | 1},
		{Name: "random-coster", Seed: r.Uint64() | 1},
		{Name: "disable_merge_join", NoMJ: true}}
	pair := func() (string, string) {
		if len(all) < 2 {
			return all[0], all[0]
		}
		p := perm(r, all)
		return p[0], p[1]
	}
	cfgs = append(cfgs, config{Name: "JOIN_ORDER", Hint: "JOIN_ORDER(" + strings.Join(perm(r, all), ",") + ")"})
	cfgs = append(cfgs, config{Name: "JOIN_ORDER", Hint: "JOIN_ORDER(" + strings.Join(perm(r, all), ",") + ")"})
	for _, h := range []string{"LOOKUP_JOIN", "HASH_JOIN", "MERGE_JOIN", "INNER_JOIN", "SEMI_JOIN", "ANTI_JOIN", "LEFT_OUTER_LOOKUP_JOIN"} {
		a, b := pair()
		cfgs = append(cfgs, config{Name: h, Hint: fmt.Sprintf("%s(%s,%s)", h, a, b)})
	}
	cfgs = append(cfgs, config{Name: "LEFT_DEEP", Hint: "LEFT_DEEP"}, config{Name: "NO_MERGE_JOIN", Hint: "NO_MERGE_JOIN"})
	for _, b := range []string{"rangeheap", "merge", "lookup", "hash"} {
		cfgs = append(cfgs, config{Name: b + "-biased-coster", Bias: b})
	}
	p := perm(r, all)
	h := "JOIN_ORDER(" + strings.Join(p, ",") + ")"
	alg := lib.Pick(r, []string{"LOOKUP_JOIN", "HASH_JOIN", "MERGE_JOIN"})
	for i := 0; i+1 < len(p); i++ {
		h += fmt.Sprintf(" %s(%s,%s)", alg, p[i], p[i+1])
	}
	cfgs = append(cfgs, config{Name: "JOIN_ORDER+" + alg, Hint: h, Seed: r.Uint64() | 1})
	return cfgs
}

func genEngineCase(r *lib.RNG) engCase {
	var c engCase
	c.Kind = "engine"
	nt := r.Range(2, 4)
	for i := 0; i < nt; i++ {
		c.Tables = append(c.Tables, genTable(r, fmt.Sprintf("t%d", i)))
	}
	nfrom := r.Range(1, nt)
	if nt >= 2 && nfrom == nt && r.Bool() {
		nfrom = nt - 1
	}
	var aliases []string
	for i := 0; i < nfrom; i++ {
		al := fmt.Sprintf("x%d", i)
		tn := c.Tables[i].Name
		if r.Chance(1, 8) && i > 0 {
			tn = c.Tables[r.Intn(i)].Name
		}
		f := fromItem{Table: tn, Alias: al}
		if i > 0 {
			switch r.Intn(8) {
			case 0, 1, 2:
				f.Kind = "LEFT"
			case 3:
				f.Kind = "CROSS"
			case 4:
				f.Kind = "RIGHT"
			default:
				f.Kind = "INNER"
			}
			if f.Kind != "CROSS" {
				f.On = genOn(r, aliases, al)
			}
		}
		c.From = append(c.From, f)
		aliases = append(aliases, al)
	}
	for i := nfrom; i < nt; i++ {
		w := wherePred{Sub: genSubq(r, aliases, fmt.Sprintf("x%d", i), c.Tables[i].Name)}
		if r.Chance(1, 8) {
			w.Disj = conj{genAtom(r, aliases)}
		}
		c.Where = append(c.Where, w)
	}
	nf := r.Intn(2)
	for i := 0; i < nf; i++ {
		w := wherePred{Disj: conj{genAtom(r, aliases)}}
		if r.Chance(1, 4) {
			w.Disj = append(w.Disj, genAtom(r, aliases))
		}
		c.Where = append(c.Where, w)
	}
	for i := len(c.Where) - 1; i > 0; i-- {
		j := r.Intn(i + 1)
		c.Where[i], c.Where[j] = c.Where[j], c.Where[i]
	}
	for _, al := range aliases {
		for _, cn := range colNames {
			if r.Chance(2, 3) {
				c.Sel = append(c.Sel, al+"."+cn)
			}
		}
	}
	if len(c.Sel) == 0 {
		c.Sel = []string{aliases[0] + ".a"}
	}
	c.Ordered = r.Chance(1, 4)
	c.Configs = genConfigs(r, c.allAliases())
	c.SQL = c.query("")
	return c
}

// ---------- shape features (distribution and signatures) ----------

var reColCol = regexp.MustCompile(`^(x\d)\.[abc] (=|<=>|<>|<=|>=|<|>) (x\d)\.[abc]$`)

func atomClass(a string) string {
	switch {
	case strings.Contains(a, "IS NOT NULL"):
		return "is-not-null"
	case strings.Contains(a, "IS NULL"):
		return "is-null"
	case strings.Contains(a, " + "):
		return "eq-arith"
	case strings.Contains(a, "BETWEEN x"):
		return "between-cols"
	case strings.Contains(a, "BETWEEN"):
		return "between-consts"
	case strings.Contains(a, " IN ("):
		return "in-list"
	}
	if m := reColCol.FindStringSubmatch(a); m != nil {
		same := ""
		if m[1] == m[3] {
			same = "-same-table"
		}
		switch m[2] {
		case "=":
			return "eq-cols" + same
		case "<=>":
			return "nullsafe-eq-cols" + same
		case "<>":
			return "ne-cols" + same
		default:
			return "ineq-cols" + same
		}
	}
	switch {
	case strings.Contains(a, " = "):
		return "eq-const"
	case strings.Contains(a, " <> "):
		return "ne-const"
	default:
		return "ineq-const"
	}
}

func conjFeatures(prefix string, cs []conj, feat map[string]bool) {
	for _, c := range cs {
		if len(c) > 1 {
			feat[prefix+"or"] = true
		}
		for _, a := range c {
			feat[prefix+atomClass(a)] = true
		}
	}
}

func (c *engCase) features() []string {
	feat := map[string]bool{}
	for _, f := range c.From {
		if f.Kind != "" {
			feat["join:"+strings.ToLower(f.Kind)] = true
			conjFeatures("on:", f.On, feat)
		}
	}
	for _, w := range c.Where {
		if w.Sub != nil {
			k := "sub:" + strings.ToLower(strings.ReplaceAll(w.Sub.Kind, " ", "-"))
			feat[k] = true
			conjFeatures(k+":", w.Sub.Where, feat)
			if len(w.Disj) > 0 {
				feat["sub-under-or"] = true
			}
		}
		if len(w.Disj) > 0 {
			conjFeatures("where:", []conj{w.Disj}, feat)
		}
	}
	return lib.SortedKeys(feat)
}

// ---------- execution ----------

type runOut struct {
	rows []string
	err  string
	plan string
}

func runEngineConfig(cs *engCase, cf config, wantPlan bool) (out runOut) {
	defer func() {
		if r := recover(); r != nil {
			out.err = "panic:" + fmt.Sprint(r)
		}
	}()
	e := eng.New("db")
	s := e.Session()
	for _, st := range cs.setup() {
		if r := s.Query(st); r.Err != nil {
			return runOut{err: "setup:" + r.Err.Error()}
		}
	}
	if cf.Seed != 0 {
		e.Engine.Analyzer.Coster = randCoster{cf.Seed}
	}
	switch cf.Bias {
	case "rangeheap":
		e.Engine.Analyzer.Coster = memo.NewRangeHeapBiasedCoster()
	case "merge":
		e.Engine.Analyzer.Coster = memo.NewMergeBiasedCoster()
	case "lookup":
		e.Engine.Analyzer.Coster = memo.NewLookupBiasedCoster()
	case "hash":
		e.Engine.Analyzer.Coster = memo.NewHashBiasedCoster()
	case "inner":
		e.Engine.Analyzer.Coster = memo.NewInnerBiasedCoster()
	case "partial":
		e.Engine.Analyzer.Coster = memo.NewPartialBiasedCoster()
	}
	if cf.NoMJ {
		s.Query("SET @@disable_merge_join = 1")
	}
	q := cs.query(cf.Hint)
	res := s.Query(q)
	if res.Err != nil {
		out.err = eng.ErrKind(res.Err) + ":" + res.Err.Error()
	}
	if cs.Ordered {
		out.rows = eng.Rows(res.Rows)
	} else {
		out.rows = eng.Bag(res.Rows)
	}
	if wantPlan {
		// the plan that was chosen (the random coster is a deterministic function of the expression)
		func() {
			defer func() { recover() }()
			ctx := sql.NewContext(context.Background(), sql.WithSession(s.Ctx.Session))
			ctx.SetCurrentDatabase("db")
			n, err := e.Engine.AnalyzeQuery(ctx, q)
			if err == nil {
				out.plan = n.String()
			}
		}()
	}
	return out
}

func errKind(s string) string { return strings.SplitN(s, ":", 2)[0] }

func sameOut(a, b runOut) bool {
	return errKind(a.err) == errKind(b.err) && strings.Join(a.rows, "\n") == strings.Join(b.rows, "\n")
}

// diffType classifies how two results differ.
func diffType(a, b runOut) string {
	if errKind(a.err) != errKind(b.err) {
		return "error-vs-" + map[bool]string{true: "rows", false: "error"}[a.err == "" || b.err == ""]
	}
	as, bs := append([]string(nil), a.rows...), append([]string(nil), b.rows...)
	sort.Strings(as)
	sort.Strings(bs)
	if strings.Join(as, "\n") == strings.Join(bs, "\n") {
		return "order-differs"
	}
	set := func(xs []string) string {
		m := map[string]bool{}
		for _, x := range xs {
			m[x] = true
		}
		return strings.Join(lib.SortedKeys(m), "\n")
	}
	if set(as) == set(bs) {
		return "duplicate-rows"
	}
	return "different-rows"
}

func failsPair(cs *engCase, cf config) bool { return failKind(cs, cf) != "" }

// failKind returns "" when both configurations agree, else the kind of difference.
func failKind(cs *engCase, cf config) string {
	var a, b runOut
	var wg sync.WaitGroup
	wg.Add(2)
	go func() { defer wg.Done(); a = runEngineConfig(cs, config{Name: "default"}, false) }()
	go func() { defer wg.Done(); b = runEngineConfig(cs, cf, false) }()
	wg.Wait()
	if strings.HasPrefix(a.err, "setup:") || strings.HasPrefix(b.err, "setup:") {
		return ""
	}
	if sameOut(a, b) {
		return ""
	}
	return diffType(a, b)
}

func cloneCase(c *engCase) *engCase {
	d := *c
	d.Tables = make([]tableDef, len(c.Tables))
	for i, t := range c.Tables {
		d.Tables[i] = t
		d.Tables[i].Indexes = append([]string(nil), t.Indexes...)
		d.Tables[i].Rows = append([][]string(nil), t.Rows...)
	}
	d.Configs = append([]config(nil), c.Configs...)
	d.Sel = append([]string(nil), c.Sel...)
	d.From = make([]fromItem, len(c.From))
	for i, f := range c.From {
		d.From[i] = f
		d.From[i].On = cloneConjs(f.On)
	}
	d.Where = make([]wherePred, len(c.Where))
	for i, w := range c.Where {
		d.Where[i] = wherePred{Disj: append(conj(nil), w.Disj...)}
		if w.Sub != nil {
			s := *w.Sub
			s.Where = cloneConjs(w.Sub.Where)
			d.Where[i].Sub = &s
		}
	}
	return &d
}

func cloneConjs(cs []conj) []conj {
	out := make([]conj, len(cs))
	for i, c := range cs {
		out[i] = append(conj(nil), c...)
	}
	return out
}

// refs reports whether the statement still mentions alias al outside of item `skip`.
func (c *engCase) refsAlias(al string) bool {
	q := c.query("")
	return strings.Contains(q, al+".")
}

// candidates returns all one-step reductions of the case.
func reductions(c *engCase) []*engCase {
	var out []*engCase
	add := func(f func(d *engCase) bool) {
		d := cloneCase(c)
		if f(d) {
			out = append(out, d)
		}
	}
	// drop a where predicate
	for i := range c.Where {
		i := i
		add(func(d *engCase) bool {
			if d.Where[i].Sub != nil {
				d.Configs[1].Hint = dropAliasFromHint(d.Configs[1].Hint, d.Where[i].Sub.Alias)
			}
			d.Where = append(d.Where[:i], d.Where[i+1:]...)
			return true
		})
	}
	// drop a from item (not the first) when nothing else mentions it; hints lose that alias
	for i := 1; i < len(c.From); i++ {
		i := i
		add(func(d *engCase) bool {
			al := d.From[i].Alias
			d.From = append(d.From[:i], d.From[i+1:]...)
			var sel []string
			for _, s := range d.Sel {
				if !strings.HasPrefix(s, al+".") {
					sel = append(sel, s)
				}
			}
			if len(sel) == 0 {
				sel = []string{d.From[0].Alias + ".a"}
			}
			d.Sel = sel
			if d.refsAlias(al) {
				return false
			}
			d.Configs[1].Hint = dropAliasFromHint(d.Configs[1].Hint, al)
			return true
		})
	}
	// simplify the steering configuration
	if h := strings.Fields(c.Configs[1].Hint); len(h) > 1 {
		for i := range h {
			i := i
			add(func(d *engCase) bool {
				hh := append([]string(nil), h[:i]...)
				d.Configs[1].Hint = strings.Join(append(hh, h[i+1:]...), " ")
				return true
			})
		}
	}
	if c.Configs[1].Seed != 0 && c.Configs[1].Hint != "" {
		add(func(d *engCase) bool { d.Configs[1].Seed = 0; return true })
	}
	// drop ON conjuncts / disjuncts, turn outer joins into inner joins
	for i, f := range c.From {
		i := i
		for j := range f.On {
			j := j
			if len(f.On) > 1 {
				add(func(d *engCase) bool { d.From[i].On = append(d.From[i].On[:j], d.From[i].On[j+1:]...); return true })
			}
			for k := range f.On[j] {
				k := k
				if len(f.On[j]) > 1 {
					add(func(d *engCase) bool {
						d.From[i].On[j] = append(d.From[i].On[j][:k], d.From[i].On[j][k+1:]...)
						return true
					})
				}
			}
		}
		if f.Kind == "LEFT" || f.Kind == "RIGHT" {
			add(func(d *engCase) bool { d.From[i].Kind = "INNER"; return true })
		}
	}
	// inside where predicates
	for i, w := range c.Where {
		i := i
		for k := range w.Disj {
			k := k
			if len(w.Disj) > 1 || w.Sub != nil {
				add(func(d *engCase) bool { d.Where[i].Disj = append(d.Where[i].Disj[:k], d.Where[i].Disj[k+1:]...); return true })
			}
		}
		if w.Sub != nil {
			for j := range w.Sub.Where {
				j := j
				if len(w.Sub.Where) > 1 || w.Sub.Kind == "IN" || w.Sub.Kind == "NOT IN" {
					add(func(d *engCase) bool {
						d.Where[i].Sub.Where = append(d.Where[i].Sub.Where[:j], d.Where[i].Sub.Where[j+1:]...)
						return true
					})
				}
				for k := range w.Sub.Where[j] {
					k := k
					if len(w.Sub.Where[j]) > 1 {
						add(func(d *engCase) bool {
							d.Where[i].Sub.Where[j] = append(d.Where[i].Sub.Where[j][:k], d.Where[i].Sub.Where[j][k+1:]...)
							return true
						})
					}
				}
			}
		}
	}
	// select list
	if len(c.Sel) > 1 {
		for i := range c.Sel {
			i := i
			add(func(d *engCase) bool { d.Sel = append(d.Sel[:i], d.Sel[i+1:]...); return true })
		}
	}
	if c.Ordered {
		add(func(d *engCase) bool { d.Ordered = false; return true })
	}
	// tables: unused tables, indexes, rows
	for i, t := range c.Tables {
		i := i
		used := false
		for _, f := range c.From {
			used = used || f.Table == t.Name
		}
		for _, w := range c.Where {
			used = used || (w.Sub != nil && w.Sub.Table == t.Name)
		}
		if !used {
			add(func(d *engCase) bool { d.Tables = append(d.Tables[:i], d.Tables[i+1:]...); return true })
			continue
		}
		for j := range t.Indexes {
			j := j
			add(func(d *engCase) bool { d.Tables[i].Indexes = append(d.Tables[i].Indexes[:j], d.Tables[i].Indexes[j+1:]...); return true })
		}
		for j := range t.Rows {
			j := j
			add(func(d *engCase) bool { d.Tables[i].Rows = append(d.Tables[i].Rows[:j], d.Tables[i].Rows[j+1:]...); return true })
		}
	}
	return out
}

func shrink(cs *engCase, cf config) *engCase {
	cur := cloneCase(cs)
	cur.Configs = []config{{Name: "default"}, cf}
	want := failKind(cur, cf)
	budget := 400
	for changed := true; changed && budget > 0; {
		changed = false
		for _, d := range reductions(cur) {
			budget--
			if budget <= 0 {
				break
			}
			if k := failKind(d, d.Configs[1]); k != "" && k == want {
				cur = d
				changed = true
				break
			}
		}
	}
	cur.SQL = cur.query(cur.Configs[1].Hint)
	return cur
}

func dropAliasFromHint(hint, alias string) string {
	var out []string
	for _, h := range strings.Fields(hint) {
		i := strings.Index(h, "(")
		if i < 0 {
			out = append(out, h)
			continue
		}
		name, args := h[:i], strings.Split(strings.TrimSuffix(h[i+1:], ")"), ",")
		var keep []string
		for _, a := range args {
			if a != alias {
				keep = append(keep, a)
			}
		}
		if name == "JOIN_ORDER" {
			if len(keep) >= 2 {
				out = append(out, name+"("+strings.Join(keep, ",")+")")
			}
		} else if len(keep) == len(args) {
			out = append(out, h)
		}
	}
	return strings.Join(out, " ")
}

var shrinksDone int

func runEngine(c *lib.Ctx, cs engCase) {
	outs := make([]runOut, len(cs.Configs))
	plans := map[string]bool{}
	var wg sync.WaitGroup
	for i, cf := range cs.Configs {
		wg.Add(1)
		go func(i int, cf config) {
			defer wg.Done()
			outs[i] = runEngineConfig(&cs, cf, true)
		}(i, cf)
	}
	wg.Wait()
	for i := range outs {
		if outs[i].plan != "" {
			plans[outs[i].plan] = true
		}
		if os.Getenv("C01_DEBUG") != "" {
			fmt.Fprintf(os.Stderr, "--- %s [%s] seed=%d\n%s\nrows=%v err=%s\n%s\n", cs.Configs[i].Name, cs.Configs[i].Hint, cs.Configs[i].Seed, cs.query(cs.Configs[i].Hint), outs[i].rows, outs[i].err, outs[i].plan)
		}
	}
	key := ""
	if len(outs[0].rows) > 0 {
		key = cs.query("") + "|" + strings.Join(cs.setup(), ";")
	}
	id := c.CaseNoModel(cs, key)
	c.Count("engine")
	c.Count(fmt.Sprintf("engine:distinct_plans=%d", len(plans)))
	c.Count(fmt.Sprintf("engine:result_rows=%s", bucket(len(outs[0].rows))))
	c.Count(fmt.Sprintf("engine:from_tables=%d", len(cs.From)))
	if cs.Ordered {
		c.Count("engine:order-by-total")
	}
	for _, f := range cs.features() {
		c.Count("engine:" + f)
	}
	if outs[0].err != "" {
		c.Count("engine:error:" + errKind(outs[0].err))
	}
	extraPlans += len(plans)
	extraQueries++
	c.PredChecked()
	for i := 1; i < len(outs); i++ {
		if sameOut(outs[i], outs[0]) {
			continue
		}
		cf := cs.Configs[i]
		min := &cs
		a, b := outs[0], outs[i]
		if shrinksDone >= 400 {
			// shrink budget of the run exhausted: counted, not classified (an unshrunk signature would be arbitrary)
			c.Count("engine:failure-beyond-shrink-budget")
			return
		}
		shrinksDone++
		min = shrink(&cs, cf)
		cf = min.Configs[1]
		a, b = runEngineConfig(min, config{Name: "default"}, true), runEngineConfig(min, cf, true)
		sig := signature(min, diffType(a, b), a.plan, b.plan)
		what := fmt.Sprintf("%s over %q: default plan returns %v %s; under %s [%s] it returns %v %s",
			min.query(""), min.setup(), a.rows, a.err, cf.Name, cf.Hint, b.rows, b.err)
		c.PredFail(id, sig, what, min)
		return
	}
}

// signature classifies a failure by ROOT CAUSE, from the shape of the shrunk statement, its data and the two
// plans that disagree (plan operators name the mechanism).  Anything that matches no triaged cause falls through
// to a literal shape signature, which is not listed in findings and therefore reported.
func signature(m *engCase, diff string, planA, planB string) string {
	plans := planA + "\n" + planB
	colHasNull := func(qcol string) bool { // "x1.b"
		parts := strings.SplitN(qcol, ".", 2)
		if len(parts) != 2 {
			return false
		}
		tn := ""
		for _, f := range m.From {
			if f.Alias == parts[0] {
				tn = f.Table
			}
		}
		for _, w := range m.Where {
			if w.Sub != nil && w.Sub.Alias == parts[0] {
				tn = w.Sub.Table
			}
		}
		ci := strings.Index("abc", parts[1])
		for _, t := range m.Tables {
			if t.Name == tn {
				for _, r := range t.Rows {
					if ci >= 0 && r[ci] == "NULL" {
						return true
					}
				}
			}
		}
		return false
	}
	plainWhere := false
	for _, w := range m.Where {
		if w.Sub == nil && len(w.Disj) > 0 {
			plainWhere = true
		}
	}
	aliasesIn := func(txt string) int {
		n := 0
		for _, al := range m.allAliases() {
			if strings.Contains(txt, al+".") {
				n++
			}
		}
		return n
	}
	for _, f := range m.From { // a one-table conjunct of an inner join's ON clause is a static filter too
		if f.Kind == "INNER" {
			for _, c := range f.On {
				if aliasesIn(renderConj(c)) == 1 {
					plainWhere = true
				}
			}
		}
	}
	padded := map[string]bool{} // aliases on the null-supplying side of an outer join
	for i, f := range m.From {
		switch f.Kind {
		case "LEFT":
			padded[f.Alias] = true
		case "RIGHT":
			for _, g := range m.From[:i] {
				padded[g.Alias] = true
			}
		}
	}
	nullable := func(qcol string) bool { return colHasNull(qcol) || padded[strings.SplitN(qcol, ".", 2)[0]] }
	// (1) convertSemiToInnerJoin: semi join turned into an inner join over DISTINCT right columns although the
	//     filter is not a conjunction of column equalities (Or / Arithmetic admitted)
	if diff == "duplicate-rows" {
		for _, w := range m.Where {
			if w.Sub != nil && (w.Sub.Kind == "EXISTS" || w.Sub.Kind == "IN") {
				for _, c := range w.Sub.Where {
					if len(c) > 1 {
						return "duplicate-rows/semi-join-to-inner-join/or-filter"
					}
					for _, a := range c {
						if atomClass(a) == "eq-arith" {
							return "duplicate-rows/semi-join-to-inner-join/arithmetic-filter"
						}
					}
				}
			}
		}
	}
	// (2) NOT IN becomes LeftOuterJoinExcludingNulls (convertAntiToLeftJoin); JoinType.AsLookup / AsMerge map it
	//     to the plain LeftOuterLookup / LeftOuterMerge join, which keeps rows whose comparison is NULL
	for _, w := range m.Where {
		if w.Sub != nil && w.Sub.Kind == "NOT IN" && (nullable(w.Sub.Outer) || colHasNull(w.Sub.Col)) {
			switch {
			case strings.Contains(plans, "LeftOuterLookupJoin"):
				return "not-in-null/exclude-nulls-lost/left-outer-lookup-join"
			case strings.Contains(plans, "LeftOuterMergeJoin"):
				return "not-in-null/exclude-nulls-lost/left-outer-merge-join"
			}
		}
	}
	// (3) join order builder: an inner join whose ON clause mentions the null-supplying side of an earlier outer
	//     join and something else; addJoin drops the applicable inner-edge filters (selFilters unused) when the
	//     outer join is built on top.
	{
		nullSide := map[string]bool{}
		for i, f := range m.From {
			switch f.Kind {
			case "LEFT":
				nullSide[f.Alias] = true
			case "RIGHT":
				for _, g := range m.From[:i] {
					nullSide[g.Alias] = true
				}
			case "INNER":
				on := renderConjs(f.On)
				hitsNull, hitsOther := false, false
				for _, g := range m.From[:i] {
					if strings.Contains(on, g.Alias+".") {
						if nullSide[g.Alias] {
							hitsNull = true
						} else {
							hitsOther = true
						}
					}
				}
				if hitsNull && (hitsOther || len(f.On) > 1) {
					return "inner-join-on-mentions-null-supplying-side-of-outer-join/inner-edge-filter-dropped"
				}
				if hitsNull {
					nullSide[f.Alias] = true // inner-joined to the null-supplying side: its edges depend on it too
				}
			}
		}
	}
	// (3b) keyForExpr (indexed_joins.go): the named result `nullable` is set by ANY earlier `<=>` conjunct, so a key
	//      taken from a later `=` conjunct is looked up null-safely and NULL = NULL matches
	if strings.Contains(plans, "keys:") {
		check := func(cs []conj) bool {
			ns, eqNull := false, false
			for _, c := range cs {
				for _, a := range c {
					switch atomClass(a) {
					case "nullsafe-eq-cols", "nullsafe-eq-cols-same-table":
						ns = true
					case "eq-cols":
						parts := strings.SplitN(a, " = ", 2)
						if nullable(parts[0]) && nullable(parts[1]) {
							eqNull = true
						}
					}
				}
			}
			return ns && eqNull
		}
		for _, f := range m.From {
			if check(f.On) {
				return "lookup-join/null-safe-flag-leaks-from-nullsafe-conjunct-to-equality-key"
			}
		}
	}
	// (4) mergeJoinIter msRejectNull tests cmp.Left() == nil; for a tuple key (two equality conjuncts) a NULL
	//     component is not nil, so the RIGHT side is advanced and matches are skipped
	if strings.Contains(plans, "MergeJoin") && strings.Contains(plans, "cmp: ((") {
		for _, f := range m.From {
			neq := 0
			null := false
			for _, c := range f.On {
				if len(c) == 1 && atomClass(c[0]) == "eq-cols" {
					neq++
					parts := strings.SplitN(c[0], " = ", 2)
					null = null || colHasNull(parts[0]) || colHasNull(parts[1])
				}
			}
			if neq >= 2 && null {
				return "merge-join-tuple-key/null-component-advances-wrong-side"
			}
		}
	}
	// (5) makeIndexScan keeps only the filters it can turn into a range on the index prefix; the ordered index
	//     scans that addRangeHeapJoin puts under the join replace Filter->Table, so other static filters are lost
	if plainWhere && strings.Contains(plans, "RangeHeapJoin") {
		return "filter-lost/range-heap-join-index-scan"
	}
	// (6) lookup join over a Concat of index lookups (OR of equalities): static filters of the looked-up table are lost
	if plainWhere && strings.Contains(plans, "Concat") {
		return "filter-lost/lookup-join-over-concat"
	}
	// otherwise: the literal shape of the shrunk statement (plain WHERE atoms only as a marker)
	var fs []string
	seen := map[string]bool{}
	for _, f := range m.features() {
		if strings.HasPrefix(f, "where:") {
			f = "where-filter"
		}
		if !seen[f] {
			seen[f] = true
			fs = append(fs, f)
		}
	}
	return diff + "/" + strings.Join(fs, ",")
}

func bucket(n int) string {
	switch {
	case n == 0:
		return "0"
	case n <= 3:
		return "1-3"
	case n <= 10:
		return "4-10"
	default:
		return ">10"
	}
}

var extraPlans, extraQueries int
