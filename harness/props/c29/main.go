// Driver for C29 (collation comparison): runs StringType.Compare, CollationID.WriteWeightString and HashToUint from
// /repo on generated string triples under every collation that has a sort function, records Compare(a,b), the two
// weight strings and the weights of the runes involved for the Coq model (which is parametric in the weight
// function), and evaluates the property predicate on the implementation alone: reflexive, total/antisymmetric,
// transitive, equal <=> equal weight strings => equal hashes, case-insensitive collations equate ASCII case
// variants, selected _bin collations order by code point; per-rune table facts are swept (ASCII case pairs for
// every case-insensitive collation, monotonicity over all code points for the _bin ones); SQL =, LIKE, IN agree
// with Compare under COLLATE.
package main

import (
	"bytes"
	"context"
	"encoding/hex"
	"fmt"
	"reflect"
	"strings"
	"unicode/utf8"

	"github.com/dolthub/go-mysql-server/sql"
	"github.com/dolthub/go-mysql-server/sql/expression"
	"github.com/dolthub/go-mysql-server/sql/types"
	"github.com/dolthub/vitess/go/vt/proto/query"

	"verifharness/lib"
	"verifharness/lib/eng"
)

type caseT struct {
	Kind      string `json:"kind"` // cmp | sweep | sql
	Collation string `json:"collation"`
	A         string `json:"a,omitempty"` // hex
	B         string `json:"b,omitempty"`
	C         string `json:"c,omitempty"`
	Obs       string `json:"obs,omitempty"`
}

var colls []sql.Collation
var collByName = map[string]sql.Collation{}

func loadCollations() {
	it := sql.NewCollationsIterator()
	for {
		c, ok := it.Next()
		if !ok {
			break
		}
		if c.Sorter == nil {
			continue
		}
		colls = append(colls, c)
		collByName[c.Name] = c
	}
}

// collations whose order is defined as code point order and whose repertoire is all of Unicode
var codePointOrder = map[string]bool{"utf8mb4_bin": true, "utf8mb3_bin": true, "utf8mb4_0900_bin": true, "binary": true}

// case-insensitive by name (the IsCaseSensitive flag of the collation table is not reliable: utf8mb4_ja_0900_as_cs_ks has it unset)
func isCI(name string) bool { return strings.Contains(name+"_", "_ci_") }

func isTurkic(name string) bool {
	return strings.Contains(name, "_tr_") || strings.Contains(name, "turkish") || strings.Contains(name, "_lt_") || strings.Contains(name, "lithuanian")
}

var alpha = []string{"a", "A", "b", "B", "c", "z", "Z", "e", "E", "é", "É", "è", "ê", "n", "ñ", "Ñ", "o", "ö", "Ö", "ss", "ß", "s", "S", "0", "1", "9", " ", "-", "_",
	"α", "Α", "я", "Я", "日", "本", "😀", "́", "ı", "İ", "i", "I", "æ", "Æ", " ", "\t", "~", "\x7f", "￿", "\U0010ffff", ""}
var bad = []string{"\xff", "\xc3", "\xe6\x97", "\x80", "\xed\xa0\x80", "\xf4\x90\x80\x80", "\xc0\x80"}

func genStr(r *lib.RNG, malformed bool) string {
	n := r.Intn(6)
	var sb strings.Builder
	for i := 0; i < n; i++ {
		if malformed && r.Chance(1, 3) {
			sb.WriteString(lib.Pick(r, bad))
		} else {
			sb.WriteString(lib.Pick(r, alpha))
		}
	}
	return sb.String()
}

// variant: a string related to s (case flipped, accent changed, extended, truncated, equal)
func variant(r *lib.RNG, s string) string {
	switch r.Intn(6) {
	case 0:
		return s
	case 1:
		return strings.ToUpper(s)
	case 2:
		return strings.ToLower(s)
	case 3:
		return s + lib.Pick(r, alpha)
	case 4:
		rs := []rune(s)
		if len(rs) > 0 && utf8.ValidString(s) {
			rs[r.Intn(len(rs))] = []rune(lib.Pick(r, alpha))[0]
			return string(rs)
		}
		return s
	default:
		if len(s) > 0 {
			return s[:r.Intn(len(s))]
		}
		return s
	}
}

func asciiSwapCase(s string) string {
	b := []byte(s)
	for i, c := range b {
		if c >= 'a' && c <= 'z' {
			b[i] = c - 32
		} else if c >= 'A' && c <= 'Z' {
			b[i] = c + 32
		}
	}
	return string(b)
}

type cmpRes struct {
	v     int
	err   string
	panic string
}

func compare(st sql.StringType, a, b string) (r cmpRes) {
	p, pv := lib.Recover(func() {
		v, err := st.Compare(context.Background(), a, b)
		r.v = v
		if err != nil {
			r.err = err.Error()
		}
	})
	if p {
		r.panic = pv
	}
	return
}

type wsRes struct {
	ws    []byte
	hash  uint64
	err   string
	panic string
}

func weightString(c sql.Collation, s string) (r wsRes) {
	p, pv := lib.Recover(func() {
		var buf bytes.Buffer
		if err := c.ID.WriteWeightString(&buf, s); err != nil {
			r.err = err.Error()
			return
		}
		r.ws = append([]byte{}, buf.Bytes()...)
		h, err := c.ID.HashToUint(s)
		if err != nil {
			r.err = err.Error()
		}
		r.hash = h
	})
	if p {
		r.panic = pv
	}
	return
}

func runeTable(c sql.Collation, bin bool, strs ...string) string {
	seen := map[rune]bool{}
	var items []string
	add := func(x rune) {
		if !seen[x] {
			seen[x] = true
			items = append(items, fmt.Sprintf("(%d, %s)", x, lib.CoqZ(int64(c.Sorter(x)))))
		}
	}
	for _, s := range strs {
		if bin {
			for i := 0; i < len(s); i++ {
				add(rune(s[i]))
			}
		} else {
			for len(s) > 0 {
				x, n := utf8.DecodeRuneInString(s)
				add(x)
				s = s[n:]
			}
		}
	}
	return lib.CoqList(items)
}

func runCmp(c *lib.Ctx, cs caseT) {
	coll, ok := collByName[cs.Collation]
	if !ok {
		return
	}
	ab, _ := hex.DecodeString(cs.A)
	bb, _ := hex.DecodeString(cs.B)
	cb, _ := hex.DecodeString(cs.C)
	a, b, cc := string(ab), string(bb), string(cb)
	st, err := types.CreateString(query.Type_VARCHAR, 200, coll.ID)
	if err != nil {
		return
	}
	bin := coll.ID == sql.Collation_binary
	rab := compare(st, a, b)
	wa, wb := weightString(coll, a), weightString(coll, b)
	cs.Obs = fmt.Sprintf("cmp=%d err=%q", rab.v, rab.err)
	c.Count("collation_cases")
	if !isCI(coll.Name) {
		c.Count("case_sensitive")
	} else {
		c.Count("case_insensitive")
	}
	key := fmt.Sprintf("%s|%s|%s", cs.Collation, cs.A, cs.B)
	var id int
	clean := rab.panic == "" && rab.err == "" && wa.panic == "" && wa.err == "" && wb.panic == "" && wb.err == ""
	if clean {
		term := "C29.CCmp " + strings.Join([]string{lib.CoqBool(bin), lib.CoqStr(a), lib.CoqStr(b), runeTable(coll, bin, a, b), "(" + lib.CoqZ(int64(rab.v)) + ")", lib.CoqBytes(wa.ws), lib.CoqBytes(wb.ws)}, " ")
		id = c.Case(term, cs, key)
		c.Count(fmt.Sprintf("compare_%d", rab.v))
	} else {
		id = c.CaseNoModel(cs, key)
	}
	c.PredChecked()
	what := func(f string, x ...interface{}) string {
		return fmt.Sprintf("%s: a=%q b=%q c=%q: ", coll.Name, a, b, cc) + fmt.Sprintf(f, x...)
	}
	for _, p := range []string{rab.panic, wa.panic, wb.panic} {
		if p != "" {
			c.PredFail(id, "panic/compare-or-weightstring", what("%s", p), cs)
			return
		}
	}
	valid := utf8.ValidString(a) && utf8.ValidString(b) && utf8.ValidString(cc)
	if !clean {
		if valid {
			c.PredFail(id, "error-on-valid-strings", what("Compare err=%q, weight string err=%q/%q", rab.err, wa.err, wb.err), cs)
		}
		return
	}
	// total preorder
	if r := compare(st, a, a); r.v != 0 || r.err != "" {
		c.PredFail(id, "not-reflexive", what("Compare(a,a) = %d %s", r.v, r.err), cs)
	}
	rba := compare(st, b, a)
	if rba.err != "" || rba.v != -rab.v {
		c.PredFail(id, "not-antisymmetric", what("Compare(a,b) = %d but Compare(b,a) = %d %s", rab.v, rba.v, rba.err), cs)
	}
	rbc, rac := compare(st, b, cc), compare(st, a, cc)
	if rbc.err == "" && rac.err == "" && rbc.panic == "" && rac.panic == "" {
		if rab.v <= 0 && rbc.v <= 0 && rac.v > 0 {
			c.PredFail(id, "not-transitive", what("a<=b, b<=c but Compare(a,c) = %d", rac.v), cs)
		}
		if rab.v == 0 && rbc.v != rac.v {
			c.PredFail(id, "equal-strings-not-interchangeable", what("a=b but Compare(b,c) = %d, Compare(a,c) = %d", rbc.v, rac.v), cs)
		}
	}
	// coherent with weight strings and hashing
	if (rab.v == 0) != bytes.Equal(wa.ws, wb.ws) {
		c.PredFail(id, "equality-differs-from-weight-string-equality", what("Compare = %d, weight strings %x / %x", rab.v, wa.ws, wb.ws), cs)
	}
	if rab.v == 0 && wa.hash != wb.hash {
		c.PredFail(id, "equal-strings-different-hash", what("hashes %x / %x", wa.hash, wb.hash), cs)
	}
	// case-insensitive collations equate ASCII case variants
	if isCI(coll.Name) && !isTurkic(coll.Name) {
		sw := asciiSwapCase(a)
		if r := compare(st, a, sw); r.err == "" && r.v != 0 {
			letter := "?"
			for i := 0; i < len(a); i++ {
				if x := a[i] | 0x20; x >= 'a' && x <= 'z' && coll.Sorter(rune(x)) != coll.Sorter(rune(x-32)) {
					letter = string(rune(x))
					break
				}
			}
			c.PredFail(id, "ci-collation-distinguishes-ascii-case/"+coll.Name+"/"+letter, what("Compare(a, %q) = %d", sw, r.v), cs)
		}
	}
	// binary collations order by code point
	if codePointOrder[coll.Name] && valid {
		want := 0
		if bin {
			want = bytes.Compare([]byte(a), []byte(b))
		} else {
			ra, rb := []rune(a), []rune(b)
			for i := 0; want == 0; i++ {
				switch {
				case i >= len(ra) && i >= len(rb):
					want = 2
				case i >= len(ra):
					want = -1
				case i >= len(rb):
					want = 1
				case ra[i] < rb[i]:
					want = -1
				case ra[i] > rb[i]:
					want = 1
				}
			}
			if want == 2 {
				want = 0
			}
		}
		if want != rab.v {
			c.PredFail(id, "binary-collation-not-code-point-order", what("Compare = %d, code point order %d", rab.v, want), cs)
		}
	}
}

// runSweep: per-rune table facts of one collation, on the real Sorter
func runSweep(c *lib.Ctx, cs caseT) {
	coll, ok := collByName[cs.Collation]
	if !ok {
		return
	}
	id := c.CaseNoModel(cs, "sweep|"+cs.Collation)
	c.Count("sweep_collations")
	n := 0
	if isCI(coll.Name) && !isTurkic(coll.Name) {
		for x := 'a'; x <= 'z'; x++ {
			n++
			if coll.Sorter(x) != coll.Sorter(x-32) {
				c.PredFail(id, "ci-collation-distinguishes-ascii-case/"+coll.Name+"/"+string(x), fmt.Sprintf("%s: weight(%q) = %d, weight(%q) = %d", coll.Name, x, coll.Sorter(x), x-32, coll.Sorter(x-32)), cs)
			}
		}
	}
	if codePointOrder[coll.Name] {
		prev := int64(-1 << 40)
		limit := rune(0x10FFFF)
		if coll.ID == sql.Collation_binary {
			limit = 255
		}
		if coll.Name == "utf8mb3_bin" {
			limit = 0xFFFF
		}
		for x := rune(0); x <= limit; x++ {
			if x >= 0xD800 && x <= 0xDFFF {
				continue
			}
			n++
			w := int64(coll.Sorter(x))
			if w <= prev {
				c.PredFail(id, "binary-collation-weights-not-monotone", fmt.Sprintf("%s: weight(U+%04X) = %d is not above the weight %d of the previous code point", coll.Name, x, w, prev), cs)
				break
			}
			prev = w
		}
	}
	for i := 0; i < n; i++ {
		c.PredChecked()
	}
}

var sess *eng.S

func sqlLit(s string) string {
	return "'" + strings.ReplaceAll(strings.ReplaceAll(s, `\`, `\\`), "'", "''") + "'"
}

func sqlSafe(s string) bool {
	if !utf8.ValidString(s) {
		return false
	}
	for _, x := range s {
		if x < 0x20 || x == '%' || x == '_' || x == '\\' || x == 0x7f {
			return false
		}
	}
	return true
}

// runSQL: =, LIKE (no wildcards) and IN under COLLATE agree with Compare == 0
func runSQL(c *lib.Ctx, cs caseT) {
	coll, ok := collByName[cs.Collation]
	if !ok {
		return
	}
	ab, _ := hex.DecodeString(cs.A)
	bb, _ := hex.DecodeString(cs.B)
	a, b := string(ab), string(bb)
	id := c.CaseNoModel(cs, "sql|"+cs.Collation+"|"+cs.A+"|"+cs.B)
	c.Count("sql_cases")
	c.PredChecked()
	st, err := types.CreateString(query.Type_VARCHAR, 200, coll.ID)
	if err != nil {
		return
	}
	r := compare(st, a, b)
	if r.err != "" || r.panic != "" {
		return
	}
	want := "0"
	if r.v == 0 {
		want = "1"
	}
	if sess == nil {
		sess = eng.New("db").Session()
	}
	for _, op := range []string{"=", "LIKE", "IN"} {
		rhs := sqlLit(b) + " COLLATE " + coll.Name
		if op == "IN" {
			rhs = "(" + rhs + ")"
		}
		q := "SELECT " + sqlLit(a) + " " + op + " " + rhs
		res := sess.Query(q)
		if res.Panic != "" {
			c.PredFail(id, "sql/panic", q+" panics: "+res.Panic, cs)
			return
		}
		if res.Err != nil || len(res.Rows) != 1 {
			c.Count("sql_error_skipped")
			return
		}
		got := fmt.Sprint(res.Rows[0][0])
		if got == "true" {
			got = "1"
		} else if got == "false" {
			got = "0"
		}
		if got != want {
			sig := "sql-operator-disagrees-with-compare/" + op
			if op == "IN" && want == "1" && got == "0" && a != b {
				sig = "sql/IN-list-ignores-collation"
			}
			c.PredFail(id, sig, fmt.Sprintf("%s = %s but StringType.Compare = %d", q, got, r.v), cs)
		}
	}
}

// refLike: LIKE under a collation, written declaratively and independently of expression/like.go:
// '_' one character, '%' any sequence, escape+X the character X, everything else by equal weight.
type likeNode struct {
	kind int // 0 literal, 1 one, 2 any
	w    int32
}

func refLike(nodes []likeNode, ws []int32) bool {
	if len(nodes) == 0 {
		return len(ws) == 0
	}
	switch n := nodes[0]; n.kind {
	case 2:
		for k := 0; k <= len(ws); k++ {
			if refLike(nodes[1:], ws[k:]) {
				return true
			}
		}
		return false
	case 1:
		return len(ws) > 0 && refLike(nodes[1:], ws[1:])
	default:
		return len(ws) > 0 && ws[0] == n.w && refLike(nodes[1:], ws[1:])
	}
}

// runLike: A = subject, B = pattern (escape character backslash); valid UTF-8 only
func runLike(c *lib.Ctx, cs caseT) {
	coll, ok := collByName[cs.Collation]
	if !ok || coll.ID == sql.Collation_binary {
		return
	}
	ab, _ := hex.DecodeString(cs.A)
	bb, _ := hex.DecodeString(cs.B)
	subj, pat := string(ab), string(bb)
	if !utf8.ValidString(subj) || !utf8.ValidString(pat) {
		return
	}
	key := "like|" + cs.Collation + "|" + cs.A + "|" + cs.B
	c.Count("like_cases")
	var got bool
	var cerr error
	var realNodes []string
	p, pv := lib.Recover(func() {
		m, err := expression.ConstructLikeMatcher(coll.ID, pat, '\\')
		if err != nil {
			cerr = err
			return
		}
		got = m.Match(subj)
		// the nodes the real matcher built (reflection, read-only)
		nv := reflect.ValueOf(m).FieldByName("nodes")
		for i := 0; i < nv.Len(); i++ {
			e := nv.Index(i).Elem()
			if e.Type().Name() == "likeMatcherRune" {
				realNodes = append(realNodes, "Some "+"("+lib.CoqZ(e.FieldByName("sortOrder").Int())+")")
			} else {
				realNodes = append(realNodes, "None")
			}
		}
	})
	var id int
	if !p && cerr == nil {
		var items []string
		for _, x := range subj {
			items = append(items, "Some ("+lib.CoqZ(int64(coll.Sorter(x)))+")")
		}
		id = c.Case("C29.CLike "+lib.CoqList(realNodes)+" "+lib.CoqList(items)+" "+lib.CoqBool(got), cs, key)
	} else {
		id = c.CaseNoModel(cs, key)
	}
	c.PredChecked()
	if p {
		c.PredFail(id, "panic/like", fmt.Sprintf("%s: %q LIKE %q panics: %s", coll.Name, subj, pat, pv), cs)
		return
	}
	if cerr != nil {
		c.PredFail(id, "like-error-on-valid-pattern", fmt.Sprintf("%s: pattern %q: %v", coll.Name, pat, cerr), cs)
		return
	}
	var nodes []likeNode
	pr := []rune(pat)
	for i := 0; i < len(pr); i++ {
		switch pr[i] {
		case '_':
			nodes = append(nodes, likeNode{1, 0})
		case '%':
			nodes = append(nodes, likeNode{2, 0})
		case '\\':
			if i+1 < len(pr) {
				i++
				nodes = append(nodes, likeNode{0, coll.Sorter(pr[i])})
			} else {
				return // a trailing escape character has no agreed meaning: not judged
			}
		default:
			nodes = append(nodes, likeNode{0, coll.Sorter(pr[i])})
		}
	}
	var ws []int32
	for _, x := range subj {
		ws = append(ws, coll.Sorter(x))
	}
	want := refLike(nodes, ws)
	if want {
		c.Count("like_matches")
	}
	if got != want {
		c.PredFail(id, "like-differs-from-definition-under-collation", fmt.Sprintf("%s: %q LIKE %q = %v, expected %v", coll.Name, subj, pat, got, want), cs)
	}
}

// ---------- equal-weight characters of different UTF-8 width ----------
type widthPair struct{ narrow, wide rune }

var widthPairs = map[string][]widthPair{}

// pairsFor scans the collation's Sorter for code points that it gives the same weight although their UTF-8 encodings
// have different lengths (accent variants, Kelvin sign / long s, fullwidth forms ...)
func pairsFor(coll sql.Collation) []widthPair {
	if ps, ok := widthPairs[coll.Name]; ok {
		return ps
	}
	var ps []widthPair
	first := map[int32]rune{} // weight -> narrowest rune seen so far
	scan := func(lo, hi rune) {
		for x := lo; x <= hi; x++ {
			if x == '%' || x == '_' || x == '\\' || x == '\'' || (x >= 0xD800 && x <= 0xDFFF) {
				continue
			}
			w := coll.Sorter(x)
			if y, ok := first[w]; ok {
				if utf8.RuneLen(y) != utf8.RuneLen(x) && len(ps) < 60 {
					ps = append(ps, widthPair{y, x})
				}
			} else {
				first[w] = x
			}
		}
	}
	scan(0x30, 0x7A)
	scan(0xC0, 0x24F)
	scan(0x1E00, 0x1EFF)
	scan(0x2100, 0x214F)
	scan(0xFB00, 0xFB06)
	scan(0xFF10, 0xFF5A)
	widthPairs[coll.Name] = ps
	return ps
}

// genWidthCase: subject and pattern spell the same word with equal-weight characters of different byte widths (either
// direction), the pattern optionally wrapped in / interleaved with wildcards
func genWidthCase(r *lib.RNG, coll sql.Collation) (subj, pat string, ok bool) {
	ps := pairsFor(coll)
	if len(ps) == 0 {
		return "", "", false
	}
	n := r.Range(1, 4)
	var a, b []rune
	for i := 0; i < n; i++ {
		if r.Chance(1, 3) {
			x := rune(r.Range('a', 'z'))
			a, b = append(a, x), append(b, x)
			continue
		}
		p := ps[r.Intn(len(ps))]
		if r.Bool() {
			a, b = append(a, p.narrow), append(b, p.wide)
		} else {
			a, b = append(a, p.wide), append(b, p.narrow)
		}
	}
	subj, pat = string(a), string(b)
	switch r.Intn(8) {
	case 0:
		pat = "%" + pat
	case 1:
		pat = pat + "%"
	case 2:
		pat = "%" + pat + "%"
	case 3:
		pat = "_" + pat
		subj = "x" + subj
	case 4:
		subj = "zz" + subj
		pat = "%" + pat
	case 5:
		rs := []rune(pat)
		rs[r.Intn(len(rs))] = '_'
		pat = string(rs)
	}
	return subj, pat, true
}

var likeTables = map[string]bool{}

// runLikeSQL: the same law through SQL with a COLUMN-valued pattern (a literal wildcard-free pattern is rewritten to =
// by the analyzer): s LIKE p must be what the declarative LIKE over the collation's weights says
func runLikeSQL(c *lib.Ctx, cs caseT) {
	coll, ok := collByName[cs.Collation]
	if !ok || coll.ID == sql.Collation_binary || !strings.HasPrefix(coll.Name, "utf8mb4_") {
		return
	}
	ab, _ := hex.DecodeString(cs.A)
	bb, _ := hex.DecodeString(cs.B)
	subj, pat := string(ab), string(bb)
	if !sqlSafeLike(subj) || !sqlSafeLike(pat) {
		return
	}
	id := c.CaseNoModel(cs, "likesql|"+cs.Collation+"|"+cs.A+"|"+cs.B)
	c.Count("like_sql_column_pattern")
	c.PredChecked()
	if sess == nil {
		sess = eng.New("db").Session()
	}
	tbl := "lk_" + coll.Name
	if !likeTables[tbl] {
		if r := sess.Query("CREATE TABLE " + tbl + " (s VARCHAR(80) COLLATE " + coll.Name + ", p VARCHAR(80) COLLATE " + coll.Name + ")"); r.Err != nil || r.Panic != "" {
			c.Count("like_sql_skipped")
			return
		}
		likeTables[tbl] = true
	}
	sess.Query("DELETE FROM " + tbl)
	if r := sess.Query("INSERT INTO " + tbl + " VALUES (" + sqlLit(subj) + ", " + sqlLit(pat) + ")"); r.Err != nil || r.Panic != "" {
		c.Count("like_sql_skipped")
		return
	}
	q := "SELECT s LIKE p, s = p FROM " + tbl
	res := sess.Query(q)
	if res.Panic != "" {
		c.PredFail(id, "sql/panic", q+" panics: "+res.Panic, cs)
		return
	}
	if res.Err != nil || len(res.Rows) != 1 {
		c.Count("like_sql_skipped")
		return
	}
	b01 := func(v interface{}) string {
		switch fmt.Sprint(v) {
		case "true", "1":
			return "1"
		}
		return "0"
	}
	gotLike, gotEq := b01(res.Rows[0][0]), b01(res.Rows[0][1])
	var nodes []likeNode
	wild := false
	for _, x := range pat {
		switch x {
		case '_':
			nodes, wild = append(nodes, likeNode{1, 0}), true
		case '%':
			nodes, wild = append(nodes, likeNode{2, 0}), true
		default:
			nodes = append(nodes, likeNode{0, coll.Sorter(x)})
		}
	}
	var ws []int32
	for _, x := range subj {
		ws = append(ws, coll.Sorter(x))
	}
	want := "0"
	if refLike(nodes, ws) {
		want = "1"
	}
	what := fmt.Sprintf("%s: s=%q p=%q: s LIKE p = %s, s = p is %s, declarative LIKE over the weights %s", coll.Name, subj, pat, gotLike, gotEq, want)
	if !wild && gotLike != gotEq {
		c.PredFail(id, "sql/like-without-wildcards-differs-from-equality", what, cs)
	} else if gotLike != want {
		c.PredFail(id, "sql/like-column-pattern-differs-from-definition", what, cs)
	}
}

func sqlSafeLike(s string) bool {
	if !utf8.ValidString(s) {
		return false
	}
	for _, x := range s {
		if x < 0x20 || x == '\\' || x == 0x7f {
			return false
		}
	}
	return true
}

// runLikeSweep: every pattern over {a,b,%,_} and every string over {a,b} up to length 5 (binary collation): the real
// matcher against the declarative definition, both directions
func runLikeSweep(c *lib.Ctx, cs caseT) {
	id := c.CaseNoModel(cs, "like-sweep")
	c.Count("like_exhaustive_sweep")
	var strs, pats [][]byte
	var rec func(alpha string, n int, cur []byte, out *[][]byte)
	rec = func(alpha string, n int, cur []byte, out *[][]byte) {
		*out = append(*out, append([]byte{}, cur...))
		if len(cur) == n {
			return
		}
		for i := 0; i < len(alpha); i++ {
			rec(alpha, n, append(append([]byte{}, cur...), alpha[i]), out)
		}
	}
	rec("ab", 5, nil, &strs)
	rec("ab%_", 5, nil, &pats)
	bad := 0
	for _, p := range pats {
		var nodes []likeNode
		for _, ch := range p {
			switch ch {
			case '%':
				nodes = append(nodes, likeNode{2, 0})
			case '_':
				nodes = append(nodes, likeNode{1, 0})
			default:
				nodes = append(nodes, likeNode{0, int32(ch)})
			}
		}
		var m expression.LikeMatcher
		var err error
		if pn, pv := lib.Recover(func() { m, err = expression.ConstructLikeMatcher(sql.Collation_utf8mb4_0900_bin, string(p), '\\') }); pn || err != nil {
			c.PredFail(id, "like-sweep/construct-fails", fmt.Sprintf("pattern %q: %v %s", p, err, pv), cs)
			return
		}
		for _, s := range strs {
			c.PredChecked()
			ws := make([]int32, len(s))
			for i, ch := range s {
				ws[i] = int32(ch)
			}
			var got bool
			if pn, pv := lib.Recover(func() { got = m.Match(string(s)) }); pn {
				c.PredFail(id, "panic/like", fmt.Sprintf("%q LIKE %q panics: %s", s, p, pv), caseT{Kind: "like", Collation: "utf8mb4_0900_bin", A: hex.EncodeToString(s), B: hex.EncodeToString(p)})
				return
			}
			if want := refLike(nodes, ws); got != want {
				bad++
				if bad <= 3 {
					c.PredFail(id, "like-differs-from-definition-under-collation", fmt.Sprintf("utf8mb4_0900_bin: %q LIKE %q = %v, expected %v", s, p, got, want),
						caseT{Kind: "like", Collation: "utf8mb4_0900_bin", A: hex.EncodeToString(s), B: hex.EncodeToString(p)})
				}
			}
		}
	}
}

func genPattern(r *lib.RNG, s string) string {
	rs := []rune(s)
	var sb strings.Builder
	for _, x := range rs {
		switch k := r.Intn(12); {
		case k < 2:
			sb.WriteString("%")
		case k < 4:
			sb.WriteString("_")
		case k == 4:
			sb.WriteString(strings.ToUpper(string(x)))
		case k == 5:
			// dropped
		case k == 6 && (x == '_' || x == '%'):
			sb.WriteString("\\" + string(x))
		default:
			if x == '\\' {
				sb.WriteString("\\\\")
			} else {
				sb.WriteRune(x)
			}
		}
	}
	if r.Chance(1, 3) {
		sb.WriteString("%")
	}
	return sb.String()
}

func runCase(c *lib.Ctx, cs caseT) {
	switch cs.Kind {
	case "like-sweep":
		runLikeSweep(c, cs)
	case "like":
		runLike(c, cs)
	case "likesql":
		runLikeSQL(c, cs)
	case "sweep":
		runSweep(c, cs)
	case "sql":
		runSQL(c, cs)
	default:
		runCmp(c, cs)
	}
}

func main() {
	lib.Main("C29", func(c *lib.Ctx) {
		c.Header = "From Coq Require Import List NArith ZArith.\nImport ListNotations.\nFrom GMS Require Import Corr.C29.\nOpen Scope Z_scope.\nOpen Scope N_scope."
		c.CaseType = "C29.case"
		c.MismatchFn = "C29.mismatches"
		loadCollations()
		c.SetRule(fmt.Sprintf("%d collations with a sort function; per case one collation (every collation is visited round-robin, then random) and a "+
			"triple of strings: a from 0-5 symbols (letters with case/accent variants, digits, blanks, Greek, Cyrillic, CJK, emoji, "+
			"combining mark, dotless/dotted i, noncharacters), b and c variants of a (equal, upper, lower, extended, one rune replaced, cut) "+
			"or fresh; 1/8 of the cases contain malformed UTF-8. Non-trivial = Compare and both weight strings succeeded; distinct "+
			"(collation, a, b). 1/8 SQL cases (=, LIKE, IN under COLLATE) on wildcard-free strings. Sweeps (implementation only): ASCII case "+
			"pairs for every case-insensitive collation, weight monotonicity over all code points for utf8mb4_bin, utf8mb3_bin, utf8mb4_0900_bin, binary.", len(colls)))
		if c.ReplayFile != "" {
			var cs caseT
			lib.LoadReplay(c.ReplayFile, &cs)
			runCase(c, cs)
			return
		}
		hx := func(s string) string { return hex.EncodeToString([]byte(s)) }
		corpus := []caseT{
			{Kind: "cmp", Collation: "utf8mb4_0900_ai_ci", A: hx("abc"), B: hx("ABC"), C: hx("abd")},
			{Kind: "cmp", Collation: "utf8mb4_0900_ai_ci", A: hx("é"), B: hx("e"), C: hx("f")},
			{Kind: "cmp", Collation: "utf8mb4_0900_bin", A: hx("a"), B: hx("A"), C: hx("")},
			{Kind: "cmp", Collation: "utf8mb4_bin", A: hx("日本"), B: hx("日"), C: hx("😀")},
			{Kind: "cmp", Collation: "utf8mb4_general_ci", A: hx("ß"), B: hx("s"), C: hx("ss")},
			{Kind: "cmp", Collation: "binary", A: hx("a\xff"), B: hx("a"), C: hx("b")},
			{Kind: "cmp", Collation: "latin1_swedish_ci", A: hx("ö"), B: hx("Ö"), C: hx("o")},
			{Kind: "cmp", Collation: "utf8mb4_0900_ai_ci", A: hx("a\xff"), B: hx("a\xfe"), C: hx("a")},
			{Kind: "sql", Collation: "utf8mb4_0900_ai_ci", A: hx("abc"), B: hx("ABC")},
			{Kind: "sql", Collation: "utf8mb4_bin", A: hx("abc"), B: hx("ABC")},
			{Kind: "like", Collation: "utf8mb4_0900_ai_ci", A: hx("Hello"), B: hx("h_L%o")},
			{Kind: "like", Collation: "utf8mb4_0900_bin", A: hx("Hello"), B: hx("h_L%o")},
			{Kind: "like", Collation: "utf8mb4_general_ci", A: hx("a%b_c"), B: hx("A\\%%\\_C")},
			{Kind: "like", Collation: "utf8mb4_0900_ai_ci", A: hx("aXbXc"), B: hx("%b%c%")},
			// equal under the collation, shorter encoding than the pattern's literals (and the other way round)
			{Kind: "like", Collation: "utf8mb4_0900_ai_ci", A: hx("e"), B: hx("é")},
			{Kind: "like", Collation: "utf8mb4_0900_ai_ci", A: hx("resume"), B: hx("résumé")},
			{Kind: "like", Collation: "utf8mb4_0900_ai_ci", A: hx("résumé"), B: hx("resume")},
			{Kind: "like", Collation: "utf8mb4_0900_ai_ci", A: hx("k"), B: hx("\u212a")},
			{Kind: "like", Collation: "utf8mb4_general_ci", A: hx("s"), B: hx("ſ")},
			{Kind: "like", Collation: "utf8mb4_0900_ai_ci", A: hx("cafe"), B: hx("%café")},
			{Kind: "like", Collation: "utf8mb4_0900_ai_ci", A: hx("xe"), B: hx("_é")},
			{Kind: "likesql", Collation: "utf8mb4_0900_ai_ci", A: hx("e"), B: hx("é")},
			{Kind: "likesql", Collation: "utf8mb4_0900_ai_ci", A: hx("resume"), B: hx("résumé")},
			{Kind: "likesql", Collation: "utf8mb4_0900_ai_ci", A: hx("k"), B: hx("\u212a")},
			{Kind: "likesql", Collation: "utf8mb4_general_ci", A: hx("s"), B: hx("ſ")},
			{Kind: "likesql", Collation: "utf8mb4_0900_ai_ci", A: hx("cafe"), B: hx("%café")},
			{Kind: "likesql", Collation: "utf8mb4_0900_ai_ci", A: hx("café"), B: hx("%cafe%")},
			{Kind: "cmp", Collation: "latin7_general_ci", A: hx("t"), B: hx("T"), C: hx("u")}, // known: weights 182 / 183
		}
		for _, cs := range corpus {
			runCase(c, cs)
		}
		for i := len(corpus); i < c.N; i++ {
			r := c.R.Fork()
			coll := colls[(i-len(corpus))%len(colls)]
			if i-len(corpus) >= len(colls) && r.Chance(1, 2) {
				coll = colls[r.Intn(len(colls))]
			}
			malformed := r.Chance(1, 8)
			a := genStr(r, malformed)
			b, cc := variant(r, a), variant(r, a)
			if r.Chance(1, 4) {
				b = genStr(r, malformed)
			}
			if r.Chance(1, 4) {
				cc = genStr(r, malformed)
			}
			if coll.ID != sql.Collation_binary && r.Chance(1, 8) {
				if ws, wp, ok := genWidthCase(r, coll); ok {
					kind := "like"
					if strings.HasPrefix(coll.Name, "utf8mb4_") && r.Chance(1, 3) {
						kind = "likesql"
					}
					runCase(c, caseT{Kind: kind, Collation: coll.Name, A: hx(ws), B: hx(wp)})
					continue
				}
			}
			if r.Chance(1, 7) && utf8.ValidString(a) {
				runCase(c, caseT{Kind: "like", Collation: coll.Name, A: hx(a), B: hx(genPattern(r, variant(r, a)))})
				continue
			}
			if r.Chance(1, 8) && sqlSafe(a) && sqlSafe(b) {
				runCase(c, caseT{Kind: "sql", Collation: coll.Name, A: hx(a), B: hx(b)})
				continue
			}
			runCase(c, caseT{Kind: "cmp", Collation: coll.Name, A: hx(a), B: hx(b), C: hx(cc)})
		}
		for _, coll := range colls {
			runCase(c, caseT{Kind: "sweep", Collation: coll.Name})
		}
		runCase(c, caseT{Kind: "like-sweep"})
	})
}
