// Driver for C30 (sql/encodings RangeMap): dumps the running tables (reflection, read-only) for comparison with
// the translated Coq tables, runs Decode / Encode / EncodeReplaceUnknown / DecodeRune / EncodeRune from /repo on
// generated inputs (representable text, unrepresentable characters, malformed UTF-8, hidden slice capacity),
// records the observations for the Coq model, and evaluates the property predicate on the implementation alone:
// no panic, Encode/Decode round trip, EncodeReplaceUnknown total and equal to Encode where Encode succeeds,
// independent oracles for utf16 / utf32 / utf8mb3 / ascii / latin1 (U+00A0..U+00FF), plus a sweep over code points.
package main

import (
	"bytes"
	"encoding/hex"
	"fmt"
	"reflect"
	"strings"
	"unicode/utf16"
	"unicode/utf8"

	"github.com/dolthub/go-mysql-server/sql/encodings"

	"verifharness/lib"
	"verifharness/lib/eng"
)

type charset struct {
	Name string // Go variable name in sql/encodings == Coq identifier in gen/C30Tables.v
	Enc  encodings.Encoder
	Wide int // 1: single byte, 2: utf16, 4: utf32, 3: utf8mb3, 0: no RangeMap (binary, utf8mb4)
}

var charsets = []charset{
	{"Armscii8", encodings.Armscii8, 1}, {"Ascii", encodings.Ascii, 1}, {"Cp1256", encodings.Cp1256, 1},
	{"Cp1257", encodings.Cp1257, 1}, {"Dec8", encodings.Dec8, 1}, {"Geostd8", encodings.Geostd8, 1},
	{"Latin1", encodings.Latin1, 1}, {"Latin7", encodings.Latin7, 1}, {"Swe7", encodings.Swe7, 1},
	{"Utf16", encodings.Utf16, 2}, {"Utf32", encodings.Utf32, 4}, {"Utf8mb3", encodings.Utf8mb3, 3},
}
var passthrough = []charset{{"Binary", encodings.Binary, 0}, {"Utf8mb4", encodings.Utf8mb4, 0}}

func findCharset(name string) (charset, bool) {
	for _, cs := range append(append([]charset{}, charsets...), passthrough...) {
		if cs.Name == name {
			return cs, true
		}
	}
	return charset{}, false
}

type caseT struct {
	Kind    string `json:"kind"` // op | table | sweep | sql
	Charset string `json:"charset,omitempty"`
	Op      int    `json:"op"` // 0 Decode 1 Encode 2 EncodeReplaceUnknown 3 DecodeRune 4 EncodeRune
	S       string `json:"s,omitempty"` // hex
	Hid     string `json:"hid,omitempty"` // hex: bytes between len and cap of the slice given to Encode
	SQL     []string `json:"sql,omitempty"`
	Obs     string `json:"obs,omitempty"`
}

var opNames = []string{"Decode", "Encode", "EncodeReplaceUnknown", "DecodeRune", "EncodeRune"}

// ---------- table dump (reflection reads unexported fields; nothing is modified) ----------
func dumpBounds(v reflect.Value) string {
	parts := make([]string, v.Len())
	for i := range parts {
		parts[i] = fmt.Sprintf("(%d,%d)", v.Index(i).Index(0).Uint(), v.Index(i).Index(1).Uint())
	}
	return "[" + strings.Join(parts, ";") + "]"
}
func dumpInts(v reflect.Value) (string, bool) {
	parts := make([]string, v.Len())
	for i := range parts {
		if v.Index(i).Int() < 0 {
			return "", false
		}
		parts[i] = fmt.Sprintf("%d", v.Index(i).Int())
	}
	return "[" + strings.Join(parts, ";") + "]", true
}
func dumpGroups(v reflect.Value) (string, bool) {
	gs := make([]string, v.Len())
	for i := range gs {
		g := v.Index(i)
		es := make([]string, g.Len())
		for j := range es {
			e := g.Index(j)
			im, ok1 := dumpInts(e.FieldByName("inputMults"))
			om, ok2 := dumpInts(e.FieldByName("outputMults"))
			if !ok1 || !ok2 {
				return "", false
			}
			es[j] = fmt.Sprintf("mkE %s %s %s %s", dumpBounds(e.FieldByName("inputRange")), dumpBounds(e.FieldByName("outputRange")), im, om)
		}
		gs[i] = "[" + strings.Join(es, "; ") + "]"
	}
	return "[" + strings.Join(gs, ";\n ") + "]", true
}
func dumpTable(cs charset) (term string, maxIn int, ok bool) {
	v := reflect.ValueOf(cs.Enc)
	if v.Kind() != reflect.Ptr || v.Elem().Type().Name() != "RangeMap" {
		return "", 0, false
	}
	in, ok1 := dumpGroups(v.Elem().FieldByName("inputEntries"))
	out, ok2 := dumpGroups(v.Elem().FieldByName("outputEntries"))
	return "(mkMap " + in + "\n " + out + ")", v.Elem().FieldByName("inputEntries").Len(), ok1 && ok2
}

var maxIn = map[string]int{}

// ---------- running the real code ----------
type obsT struct {
	out   []byte
	ok    bool
	panic string
}

func (o obsT) coq() string {
	switch {
	case o.panic != "":
		return "Panic"
	case !o.ok:
		return "Fail"
	default:
		return "(Ok " + lib.CoqBytes(o.out) + ")"
	}
}
func (o obsT) String() string {
	switch {
	case o.panic != "":
		return "panic: " + o.panic
	case !o.ok:
		return "false"
	default:
		return hex.EncodeToString(o.out)
	}
}

// withCap returns a slice with content s whose capacity holds exactly hid after its length.
func withCap(s, hid []byte) []byte {
	buf := make([]byte, len(s)+len(hid))
	copy(buf, s)
	copy(buf[len(s):], hid)
	return buf[:len(s):len(buf)]
}

func runOp(enc encodings.Encoder, op int, s, hid []byte) (o obsT) {
	in := withCap(s, hid)
	p, pv := lib.Recover(func() {
		switch op {
		case 0:
			o.out, o.ok = enc.Decode(in)
		case 1:
			o.out, o.ok = enc.Encode(in)
		case 2:
			o.out, o.ok = enc.EncodeReplaceUnknown(in), true
		case 3:
			o.out, o.ok = enc.DecodeRune(in)
		default:
			o.out, o.ok = enc.EncodeRune(in)
		}
	})
	if p {
		return obsT{panic: pv}
	}
	o.out = append([]byte{}, o.out...)
	return o
}

// tailShort replays Encode's scan with the length guard that Decode has; it reports whether the scan reaches a
// point where the next candidate length exceeds the remaining length (exactly where the unguarded str[:n] bites).
func tailShort(cs charset, s []byte) bool {
	m := maxIn[cs.Name]
	for len(s) > 0 {
		found := 0
		for l := 1; l <= m; l++ {
			if l > len(s) {
				return true
			}
			if _, ok := cs.Enc.EncodeRune(s[:l]); ok {
				found = l
				break
			}
		}
		if found == 0 {
			return false
		}
		s = s[found:]
	}
	return false
}

// oracle: the expected Encode result for VALID UTF-8 text, written independently of the tables.
// known=false when this driver has no independent definition for the character set / text.
func oracleEncode(cs charset, s []byte) (out []byte, ok bool, known bool) {
	if !utf8.Valid(s) {
		return nil, false, false
	}
	runes := []rune(string(s))
	switch cs.Name {
	case "Utf16":
		for _, u := range utf16.Encode(runes) {
			out = append(out, byte(u>>8), byte(u))
		}
		return out, true, true
	case "Utf32":
		for _, r := range runes {
			out = append(out, byte(r>>24), byte(r>>16), byte(r>>8), byte(r))
		}
		return out, true, true
	case "Utf8mb3":
		for _, r := range runes {
			if r > 0xFFFF {
				return nil, false, true
			}
		}
		return s, true, true
	case "Ascii":
		for _, r := range runes {
			if r > 0x7F {
				return nil, false, true
			}
		}
		return s, true, true
	case "Latin1":
		for _, r := range runes {
			if r < 0x80 || (r >= 0xA0 && r <= 0xFF) {
				out = append(out, byte(r))
			} else {
				return nil, false, false
			}
		}
		return out, true, true
	}
	return nil, false, false
}

// ---------- generator ----------
func randRune(r *lib.RNG) rune {
	for {
		var x rune
		switch r.Intn(6) {
		case 0, 1:
			x = rune(r.Range(0x20, 0x7E))
		case 2:
			x = rune(r.Range(0x80, 0x7FF))
		case 3:
			x = rune(r.Range(0x800, 0xFFFF))
		case 4:
			x = rune(r.Range(0x10000, 0x10FFFF))
		default:
			x = lib.Pick(r, []rune{0, 0x7F, 0x80, 0xFF, 0x100, 0x7FF, 0x800, 0xD7FF, 0xE000, 0xFFFD, 0xFFFF, 0x10000, 0x10FFFF, 0x20AC, 0x65E5, 0x3B1, 0x10D0, 0x531, 0x62A})
		}
		if x < 0xD800 || x > 0xDFFF {
			return x
		}
	}
}

func randBytes(r *lib.RNG, n int) []byte {
	b := make([]byte, n)
	for i := range b {
		b[i] = byte(r.Intn(256))
	}
	return b
}

var malformed = [][]byte{
	{0xC3}, {0xE6}, {0xE6, 0x97}, {0xF0}, {0xF0, 0x9F}, {0xF0, 0x9F, 0x98}, {0x80}, {0xBF}, {0xC0, 0x80}, {0xC1, 0xBF},
	{0xE0, 0x80, 0x80}, {0xED, 0xA0, 0x80}, {0xED, 0xBF, 0xBF}, {0xED, 0xB0, 0x80}, {0xF4, 0x90, 0x80, 0x80},
	{0xF4, 0xBF, 0xBF, 0xBF}, {0xF5, 0x80, 0x80, 0x80}, {0xFF}, {0xFE}, {0xF8, 0x88, 0x80, 0x80, 0x80},
}

// a valid code of the character set (its bytes) for a random character
func randCode(r *lib.RNG, cs charset) []byte {
	switch cs.Wide {
	case 2:
		var out []byte
		for _, u := range utf16.Encode([]rune{randRune(r)}) {
			out = append(out, byte(u>>8), byte(u))
		}
		return out
	case 4:
		x := randRune(r)
		return []byte{byte(x >> 24), byte(x >> 16), byte(x >> 8), byte(x)}
	case 3:
		for {
			x := randRune(r)
			if x <= 0xFFFF {
				return []byte(string(x))
			}
		}
	default:
		return []byte{byte(r.Intn(256))}
	}
}

func genUTF8Side(r *lib.RNG, cs charset, pieces int) []byte {
	var s []byte
	for i := 0; i < pieces; i++ {
		switch k := r.Intn(10); {
		case k < 6: // a character the set can represent (through its own DecodeRune), if any
			if cs.Wide == 0 {
				s = append(s, []byte(string(randRune(r)))...)
			} else if d, ok := cs.Enc.DecodeRune(randCode(r, cs)); ok {
				s = append(s, d...)
			} else {
				s = append(s, 'a')
			}
		case k < 8:
			s = append(s, []byte(string(randRune(r)))...)
		case k < 9:
			s = append(s, lib.Pick(r, malformed)...)
		default:
			s = append(s, randBytes(r, r.Range(1, 3))...)
		}
	}
	return s
}

func genCharsetSide(r *lib.RNG, cs charset, pieces int) []byte {
	var s []byte
	for i := 0; i < pieces; i++ {
		switch k := r.Intn(10); {
		case k < 7:
			s = append(s, randCode(r, cs)...)
		case k < 8: // truncated code
			c := randCode(r, cs)
			s = append(s, c[:r.Intn(len(c))+0]...)
		case k < 9:
			s = append(s, lib.Pick(r, [][]byte{{0xD8, 0x00}, {0xDC, 0x00}, {0xD8, 0x00, 0x00, 0x41}, {0xDB, 0xFF, 0xDF, 0xFF}, {0x00, 0x11, 0x00, 0x00}, {0x00, 0x00, 0xD8, 0x00}, {0xFF, 0xFF, 0xFF, 0xFF}, {0x00}, {0x80}, {0xFF}})...)
		default:
			s = append(s, randBytes(r, r.Range(1, 4))...)
		}
	}
	return s
}

// long runs of 7-bit bytes including the positions that national 7-bit sets (swe7) reassign
func genSevenBit(r *lib.RNG) []byte {
	n := r.Range(8, 40)
	b := make([]byte, n)
	for i := range b {
		switch r.Intn(4) {
		case 0:
			b[i] = lib.Pick(r, []byte("@[\\]^`{|}~"))
		case 1:
			b[i] = byte(r.Range(0x20, 0x7E))
		default:
			b[i] = byte(r.Range('a', 'z'))
		}
	}
	if r.Chance(1, 2) {
		b[r.Intn(n)] = lib.Pick(r, []byte("@[\\]^`{|}~"))
	}
	return b
}

func gen(r *lib.RNG) caseT {
	all := append(append([]charset{}, charsets...), passthrough...)
	cs := all[r.Intn(len(all))]
	if cs.Wide == 0 && r.Chance(3, 4) {
		cs = charsets[r.Intn(len(charsets))]
	}
	c := caseT{Kind: "op", Charset: cs.Name}
	if cs.Wide != 0 && r.Chance(1, 12) {
		// CONVERT ... USING through SQL on valid text (representable, unrepresentable, U+FFFD, long 7-bit runs)
		var s []byte
		switch r.Intn(4) {
		case 0:
			s = genSevenBit(r)
		case 1:
			s = []byte("ab\xef\xbf\xbdcdef")
		default:
			for i, n := 0, r.Range(1, 6); i < n; i++ {
				if r.Chance(1, 5) {
					s = append(s, []byte(string(randRune(r)))...)
				} else if d, ok := cs.Enc.DecodeRune(randCode(r, cs)); ok && utf8.Valid(d) {
					s = append(s, d...)
				}
			}
			if r.Chance(1, 2) {
				s = append(s, []byte("tail")...)
			}
		}
		s = bytes.ReplaceAll(s, []byte{0}, []byte{'0'})
		return caseT{Kind: "conv", Charset: cs.Name, S: hex.EncodeToString(s)}
	}
	switch k := r.Intn(20); {
	case k < 6:
		c.Op = 0
	case k < 14:
		c.Op = 1
	case k < 18:
		c.Op = 2
	case k < 19:
		c.Op = 3
	default:
		c.Op = 4
	}
	var s, hid []byte
	pieces := r.Intn(6)
	if r.Chance(1, 12) {
		pieces = r.Range(6, 20)
	}
	switch c.Op {
	case 0:
		s = genCharsetSide(r, cs, pieces)
	case 3:
		s = genCharsetSide(r, cs, 1)
		if r.Chance(1, 10) || len(s) == 0 {
			s = append(s, randBytes(r, r.Range(1, 4))...)
		}
	case 4:
		s = genUTF8Side(r, cs, 1)
	default:
		s = genUTF8Side(r, cs, pieces)
	}
	if r.Chance(1, 6) && c.Op <= 2 {
		// long text: 7-bit runs (both directions), optionally with representable non-ASCII characters and U+FFFD mixed in
		s = genSevenBit(r)
		if c.Op != 0 && r.Chance(1, 2) {
			extra := genUTF8Side(r, cs, r.Range(1, 4))
			if utf8.Valid(extra) {
				p := r.Intn(len(s))
				s = append(append(append([]byte{}, s[:p]...), extra...), s[p:]...)
			}
		}
		if c.Op == 0 && cs.Wide == 2 || c.Op == 0 && cs.Wide == 4 {
			var w []byte
			for _, b := range s {
				if cs.Wide == 2 {
					w = append(w, 0, b)
				} else {
					w = append(w, 0, 0, 0, b)
				}
			}
			s = w
		}
	}
	if c.Op != 0 && c.Op != 3 && r.Chance(1, 10) {
		// exactly U+FFFD, alone or inside text
		fffd := []byte("\xef\xbf\xbd")
		switch r.Intn(3) {
		case 0:
			s = fffd
		case 1:
			s = append(append([]byte("ab"), fffd...), []byte("cdef")...)
		default:
			s = append(s, fffd...)
		}
	}
	if c.Op == 1 && r.Chance(3, 10) {
		switch r.Intn(3) {
		case 0:
			hid = randBytes(r, r.Range(1, 4))
		case 1:
			hid = bytes.Repeat([]byte{byte(r.Range(0x80, 0xBF))}, r.Range(1, 4))
		default:
			hid = []byte("AAAA")[:r.Range(1, 4)]
		}
	}
	c.S, c.Hid = hex.EncodeToString(s), hex.EncodeToString(hid)
	return c
}

// ---------- one case ----------
func runCase(c *lib.Ctx, cs0 caseT) {
	switch cs0.Kind {
	case "table":
		runTable(c, cs0)
		return
	case "sweep":
		runSweep(c, cs0)
		return
	case "sql":
		runSQL(c, cs0)
		return
	case "conv":
		runConv(c, cs0)
		return
	}
	cs, found := findCharset(cs0.Charset)
	if !found {
		return
	}
	s, _ := hex.DecodeString(cs0.S)
	hid, _ := hex.DecodeString(cs0.Hid)
	o := runOp(cs.Enc, cs0.Op, s, hid)
	cs0.Obs = o.String()
	key := ""
	if o.panic == "" && o.ok && len(o.out) > 0 {
		key = fmt.Sprintf("%s|%d|%s|%s", cs.Name, cs0.Op, cs0.S, cs0.Hid)
	}
	c.Count(fmt.Sprintf("op_%s", opNames[cs0.Op]))
	switch {
	case o.panic != "":
		c.Count("result_panic")
	case !o.ok:
		c.Count("result_false")
	default:
		c.Count("result_ok")
	}
	if len(hid) > 0 {
		c.Count("hidden_capacity")
	}
	var id int
	if cs.Wide == 0 {
		id = c.CaseNoModel(cs0, key)
	} else {
		term := fmt.Sprintf("C30.COp %s %d %s %s %s", cs.Name, cs0.Op, lib.CoqBytes(s), lib.CoqBytes(hid), o.coq())
		id = c.Case(term, cs0, key)
	}
	predicate(c, id, cs, cs0, s, hid, o)
}

func predicate(c *lib.Ctx, id int, cs charset, cs0 caseT, s, hid []byte, o obsT) {
	c.PredChecked()
	what := func(f string, a ...interface{}) string {
		return fmt.Sprintf("%s.%s(%x%s): ", cs.Name, opNames[cs0.Op], s, map[bool]string{true: " cap+" + cs0.Hid, false: ""}[len(hid) > 0]) + fmt.Sprintf(f, a...)
	}
	// DecodeRune / EncodeRune take one code point; the empty slice is outside their contract (the case is still
	// compared with the model, which also has Panic there)
	if (cs0.Op == 3 || cs0.Op == 4) && len(s) == 0 {
		return
	}
	// 1. never crashes
	if o.panic != "" {
		sig := "panic/" + opNames[cs0.Op] + "/" + firstWords(o.panic)
		if cs0.Op == 1 && strings.Contains(o.panic, "slice bounds out of range") && cs.Wide != 0 && tailShort(cs, s) {
			sig = "encode/slice-out-of-range/unencodable-tail-shorter-than-max-width"
		}
		c.PredFail(id, sig, what("%s", o.panic), cs0)
		return
	}
	switch cs0.Op {
	case 1:
		// for input that is not valid UTF-8 (no characters) the property demands only the absence of a crash
		if !utf8.Valid(s) {
			return
		}
		if o.ok {
			// 2. round trip: what Encode accepts, Decode gives back
			d := runOp(cs.Enc, 0, o.out, nil)
			if d.panic != "" || !d.ok || !bytes.Equal(d.out, s) {
				c.PredFail(id, "roundtrip/encode-then-decode/"+cs.Name, what("= %x accepted, but Decode of that = %s", o.out, d), cs0)
			}
		}
		// 2b. a string converts exactly as its characters do: all representable -> concatenation, otherwise reported
		if cs.Wide != 0 && len(hid) == 0 {
			var want []byte
			all := true
			for _, x := range string(s) {
				if e := runOp(cs.Enc, 4, []byte(string(x)), nil); e.panic == "" && e.ok {
					want = append(want, e.out...)
				} else {
					all = false
					break
				}
			}
			if all != o.ok || (all && !bytes.Equal(want, o.out)) {
				c.PredFail(id, "encode-differs-from-per-character-conversion/"+cs.Name, what("= %s, per character: ok=%v %x", o, all, want), cs0)
			}
		}
		// 3. independent oracle on valid text (a panic was reported above)
		if want, wok, known := oracleEncode(cs, s); known {
			if wok != o.ok || (wok && !bytes.Equal(want, o.out)) {
				c.PredFail(id, "encode-differs-from-definition/"+cs.Name, what("= %s, expected %x ok=%v", o, want, wok), cs0)
			}
		}
		// 4. EncodeReplaceUnknown agrees where Encode succeeds
		if o.ok {
			e := runOp(cs.Enc, 2, s, nil)
			if e.panic != "" || !bytes.Equal(e.out, o.out) {
				c.PredFail(id, "replace-unknown-differs-from-encode/"+cs.Name, what("= %x but EncodeReplaceUnknown = %s", o.out, e), cs0)
			}
		}
	case 0:
		// single-byte sets: a string decodes exactly as its bytes do
		if cs.Wide == 1 {
			var want []byte
			all := true
			for _, b := range s {
				if e := runOp(cs.Enc, 3, []byte{b}, nil); e.panic == "" && e.ok {
					want = append(want, e.out...)
				} else {
					all = false
					break
				}
			}
			if all != o.ok || (all && !bytes.Equal(want, o.out)) {
				c.PredFail(id, "decode-differs-from-per-byte-conversion/"+cs.Name, what("= %s, per byte: ok=%v %x", o, all, want), cs0)
			}
		}
		if o.ok && len(hid) == 0 {
			e := runOp(cs.Enc, 1, o.out, nil)
			if e.panic != "" || !e.ok || !bytes.Equal(e.out, s) {
				c.PredFail(id, "roundtrip/decode-then-encode/"+cs.Name, what("= %x, but Encode of that = %s", o.out, e), cs0)
			}
		}
	case 2:
		if len(s) > 0 && len(o.out) == 0 {
			c.PredFail(id, "replace-unknown-empty-result/"+cs.Name, what("= empty"), cs0)
		}
		if want, wok, known := oracleEncode(cs, s); known && wok && !bytes.Equal(want, o.out) {
			c.PredFail(id, "replace-unknown-differs-from-definition/"+cs.Name, what("= %x, expected %x", o.out, want), cs0)
		}
		// on valid text: every character is converted (as EncodeRune converts it) or replaced by one '?'
		if cs.Wide != 0 && utf8.Valid(s) {
			var want []byte
			for _, x := range string(s) {
				if e := runOp(cs.Enc, 4, []byte(string(x)), nil); e.panic == "" && e.ok {
					want = append(want, e.out...)
				} else {
					want = append(want, '?')
				}
			}
			if !bytes.Equal(want, o.out) {
				sig := "replace-unknown-not-per-character/" + cs.Name
				if n := len(o.out); n > 0 && n < len(want) && len(want)-n <= 2 && o.out[n-1] == '?' && bytes.Equal(want[:n], o.out) {
					sig = "replace-unknown/drops-characters-after-unrepresentable-near-end"
				}
				c.PredFail(id, sig, what("= %x, expected %x (each character converted or replaced by '?')", o.out, want), cs0)
			}
		}
	case 3:
		if o.ok {
			e := runOp(cs.Enc, 4, o.out, nil)
			if e.panic != "" || !e.ok || !bytes.Equal(e.out, s) {
				c.PredFail(id, "roundtrip/decoderune-then-encoderune/"+cs.Name, what("= %x, but EncodeRune of that = %s", o.out, e), cs0)
			}
		}
	case 4:
		if o.ok && utf8.Valid(s) {
			d := runOp(cs.Enc, 3, o.out, nil)
			if d.panic != "" || !d.ok || !bytes.Equal(d.out, s) {
				sig := "roundtrip/encoderune-then-decoderune/" + cs.Name
				c.PredFail(id, sig, what("= %x accepted, but DecodeRune of that = %s", o.out, d), cs0)
			}
		}
	}
}

func firstWords(s string) string {
	s = strings.TrimPrefix(s, "runtime error: ")
	f := strings.Fields(s)
	if len(f) > 4 {
		f = f[:4]
	}
	return strings.Join(f, "-")
}

func runTable(c *lib.Ctx, cs0 caseT) {
	cs, found := findCharset(cs0.Charset)
	if !found {
		return
	}
	term, _, ok := dumpTable(cs)
	c.Count("table_dump")
	if !ok {
		id := c.CaseNoModel(cs0, "")
		c.PredChecked()
		c.PredFail(id, "table-not-dumpable/"+cs.Name, cs.Name+" is not a *RangeMap with non-negative multipliers", cs0)
		return
	}
	c.Case(fmt.Sprintf("C30.CTable %s %s", cs.Name, term), cs0, "table|"+cs.Name)
}

// runSweep: implementation-only sweep over code points (every `stride`-th, all below 0x3000): EncodeRune/DecodeRune
// round trip, Encode of the character followed by "AAA" (so that the known tail defect does not mask the mapping),
// oracle where defined; and over all one/two-byte codes of the character set for the Decode direction.
func runSweep(c *lib.Ctx, cs0 caseT) {
	cs, found := findCharset(cs0.Charset)
	if !found {
		return
	}
	stride := cs0.Op
	if stride < 1 {
		stride = 1
	}
	id := c.CaseNoModel(cs0, "sweep|"+cs.Name)
	fails := 0
	fail := func(sig, what string, s []byte, op int) {
		fails++
		if fails <= 3 {
			c.PredFail(id, sig, what, caseT{Kind: "op", Charset: cs.Name, Op: op, S: hex.EncodeToString(s)})
		}
	}
	checked := 0
	for x := rune(0); x <= 0x10FFFF; x++ {
		if x >= 0xD800 && x <= 0xDFFF {
			continue
		}
		if x >= 0x3000 && int(x)%stride != 0 {
			continue
		}
		checked++
		u := []byte(string(x))
		er := runOp(cs.Enc, 4, u, nil)
		if er.panic != "" {
			fail("panic/EncodeRune/"+firstWords(er.panic), fmt.Sprintf("%s.EncodeRune(%x) panics: %s", cs.Name, u, er.panic), u, 4)
			continue
		}
		if er.ok {
			dr := runOp(cs.Enc, 3, er.out, nil)
			if dr.panic != "" || !dr.ok || !bytes.Equal(dr.out, u) {
				fail("roundtrip/encoderune-then-decoderune/"+cs.Name, fmt.Sprintf("%s.EncodeRune(%x) = %x but DecodeRune of that = %s", cs.Name, u, er.out, dr), u, 4)
			}
		}
		padded := append(append([]byte{}, u...), 'A', 'A', 'A')
		en := runOp(cs.Enc, 1, padded, nil)
		if en.panic != "" {
			fail("panic/Encode/"+firstWords(en.panic), fmt.Sprintf("%s.Encode(%x) panics: %s", cs.Name, padded, en.panic), padded, 1)
			continue
		}
		if en.ok != er.ok {
			fail("encode-differs-from-encoderune/"+cs.Name, fmt.Sprintf("%s.Encode(%x) ok=%v but EncodeRune(%x) ok=%v", cs.Name, padded, en.ok, u, er.ok), padded, 1)
		}
		if en.ok {
			de := runOp(cs.Enc, 0, en.out, nil)
			if de.panic != "" || !de.ok || !bytes.Equal(de.out, padded) {
				fail("roundtrip/encode-then-decode/"+cs.Name, fmt.Sprintf("%s.Encode(%x) = %x but Decode of that = %s", cs.Name, padded, en.out, de), padded, 1)
			}
		}
		if want, wok, known := oracleEncode(cs, padded); known && (wok != en.ok || (wok && !bytes.Equal(want, en.out))) {
			fail("encode-differs-from-definition/"+cs.Name, fmt.Sprintf("%s.Encode(%x) = %s, expected %x ok=%v", cs.Name, padded, en, want, wok), padded, 1)
		}
		ru := runOp(cs.Enc, 2, padded, nil)
		if ru.panic != "" {
			fail("panic/EncodeReplaceUnknown/"+firstWords(ru.panic), fmt.Sprintf("%s.EncodeReplaceUnknown(%x) panics: %s", cs.Name, padded, ru.panic), padded, 2)
		} else if en.ok && !bytes.Equal(ru.out, en.out) {
			fail("replace-unknown-differs-from-encode/"+cs.Name, fmt.Sprintf("%s.EncodeReplaceUnknown(%x) = %x, Encode = %x", cs.Name, padded, ru.out, en.out), padded, 2)
		} else if !en.ok && (len(ru.out) < 4 || ru.out[0] != '?' && cs.Wide != 2 && cs.Wide != 4) {
			fail("replace-unknown-no-question-mark/"+cs.Name, fmt.Sprintf("%s.EncodeReplaceUnknown(%x) = %x", cs.Name, padded, ru.out), padded, 2)
		}
	}
	// Decode direction: every 1-byte and 2-byte code
	for n := 0; n < 0x10000+0x100; n++ {
		var code []byte
		if n < 0x100 {
			code = []byte{byte(n)}
		} else {
			code = []byte{byte((n - 0x100) >> 8), byte(n - 0x100)}
		}
		checked++
		dr := runOp(cs.Enc, 3, code, nil)
		if dr.panic != "" {
			fail("panic/DecodeRune/"+firstWords(dr.panic), fmt.Sprintf("%s.DecodeRune(%x) panics: %s", cs.Name, code, dr.panic), code, 3)
			continue
		}
		if dr.ok {
			er := runOp(cs.Enc, 4, dr.out, nil)
			if er.panic != "" || !er.ok || !bytes.Equal(er.out, code) {
				fail("roundtrip/decoderune-then-encoderune/"+cs.Name, fmt.Sprintf("%s.DecodeRune(%x) = %x but EncodeRune of that = %s", cs.Name, code, dr.out, er), code, 3)
			}
			if cs.Wide != 0 && !utf8.Valid(dr.out) {
				fail("decode-yields-invalid-utf8/"+cs.Name, fmt.Sprintf("%s.DecodeRune(%x) = %x is not valid UTF-8", cs.Name, code, dr.out), code, 3)
			}
		}
		de := runOp(cs.Enc, 0, code, nil)
		if de.panic != "" {
			fail("panic/Decode/"+firstWords(de.panic), fmt.Sprintf("%s.Decode(%x) panics: %s", cs.Name, code, de.panic), code, 0)
		}
	}
	for i := 0; i < checked; i += 1 {
		c.PredChecked()
	}
	c.Count("sweep_charsets")
	c.SetExtra("sweep_points_"+cs.Name, checked)
}

// runSQL: the conversion reached through SQL; predicate: no statement makes the engine panic.
func runSQL(c *lib.Ctx, cs0 caseT) {
	id := c.CaseNoModel(cs0, "sql|"+strings.Join(cs0.SQL, ";"))
	c.Count("sql_script")
	c.PredChecked()
	e := eng.New("db")
	s := e.Session()
	for _, q := range cs0.SQL {
		r := s.Query(q)
		if r.Panic != "" {
			sig := "sql/panic/" + firstWords(r.Panic)
			if strings.Contains(r.Panic, "slice bounds out of range") && strings.Contains(q, "FROM t") {
				sig = "sql/read-of-unrepresentable-text-in-narrow-charset-column/slice-out-of-range"
			} else if strings.Contains(r.Panic, "slice bounds out of range") && strings.Contains(q, "HEX(CONVERT(") {
				sig = "sql/hex-of-convert-using/slice-out-of-range"
			}
			c.PredFail(id, sig, fmt.Sprintf("%q panics: %s", q, r.Panic), cs0)
			return
		}
	}
}

var convSess *eng.S

// runConv: CONVERT(_utf8mb4 x'..' USING cs) through the engine on valid UTF-8 text: every character is converted as
// EncodeRune converts it or replaced by one '?'; never a crash.
func runConv(c *lib.Ctx, cs0 caseT) {
	cs, found := findCharset(cs0.Charset)
	if !found || cs.Wide == 0 {
		return
	}
	s, _ := hex.DecodeString(cs0.S)
	if !utf8.Valid(s) || len(s) == 0 {
		return
	}
	id := c.CaseNoModel(cs0, "conv|"+cs.Name+"|"+cs0.S)
	c.Count("sql_convert_using")
	c.PredChecked()
	if convSess == nil {
		convSess = eng.New("db").Session()
	}
	q := fmt.Sprintf("SELECT CONVERT(_utf8mb4 x'%X' USING %s)", s, strings.ToLower(cs.Name))
	r := convSess.Query(q)
	if r.Panic != "" {
		c.PredFail(id, "sql/convert-using/panic/"+firstWords(r.Panic), q+" panics: "+r.Panic, cs0)
		return
	}
	if r.Err != nil || len(r.Rows) != 1 {
		c.PredFail(id, "sql/convert-using/error", fmt.Sprintf("%s fails: %v", q, r.Err), cs0)
		return
	}
	var got []byte
	switch v := r.Rows[0][0].(type) {
	case string:
		got = []byte(v)
	case []byte:
		got = v
	default:
		c.Count("sql_convert_using_unreadable")
		return
	}
	var want []byte
	for _, x := range string(s) {
		if e := runOp(cs.Enc, 4, []byte(string(x)), nil); e.panic == "" && e.ok {
			want = append(want, e.out...)
		} else {
			want = append(want, '?')
		}
	}
	if !bytes.Equal(want, got) {
		sig := "sql/convert-using-not-per-character/" + cs.Name
		if n := len(got); n > 0 && n < len(want) && len(want)-n <= 2 && got[n-1] == '?' && bytes.Equal(want[:n], got) {
			sig = "replace-unknown/drops-characters-after-unrepresentable-near-end"
		}
		c.PredFail(id, sig, fmt.Sprintf("%s = %x, expected %x (each character converted or replaced by '?')", q, got, want), cs0)
	}
}

func main() {
	lib.Main("C30", func(c *lib.Ctx) {
		c.Header = "From Coq Require Import List NArith.\nImport ListNotations.\nFrom GMS Require Import Codec.Charset Corr.C30 gen.C30Tables.\nOpen Scope N_scope."
		c.CaseType = "C30.case"
		c.MismatchFn = "C30.mismatches"
		c.SetRule("12 table cases (running RangeMap tables dumped by reflection vs the translated Coq tables); then seeded " +
			"operation cases: charset x {Decode, Encode, EncodeReplaceUnknown, DecodeRune, EncodeRune} x input built from 0-5 " +
			"(1/12: 6-20) pieces: characters the set can represent, random code points, malformed UTF-8 (truncated tails, " +
			"overlong, encoded surrogates, > U+10FFFF), random bytes; 30% of Encode inputs have 1-4 hidden capacity bytes. " +
			"Non-trivial = the operation succeeded with non-empty output; distinct = distinct (charset, op, input). " +
			"Implementation-only sweeps per charset over code points (all < U+3000, every k-th above; k=1 in the thorough tier) " +
			"and over all 1- and 2-byte codes are counted as predicate checks, not as model cases.")
		for _, cs := range charsets {
			_, m, _ := dumpTable(cs)
			maxIn[cs.Name] = m
		}
		if c.ReplayFile != "" {
			var cs caseT
			lib.LoadReplay(c.ReplayFile, &cs)
			runCase(c, cs)
			return
		}
		var corpus []caseT
		for _, cs := range charsets {
			corpus = append(corpus, caseT{Kind: "table", Charset: cs.Name})
		}
		h := func(b ...byte) string { return hex.EncodeToString(b) }
		corpus = append(corpus,
			caseT{Kind: "op", Charset: "Latin1", Op: 1, S: h(0xC3)},                    // panicked before 014a463e8: truncated tail
			caseT{Kind: "op", Charset: "Latin1", Op: 1, S: h(0xE6, 0x97, 0xA5)},        // panicked before 014a463e8: valid text, unrepresentable, at the tail
			caseT{Kind: "op", Charset: "Latin1", Op: 1, S: h('a', 0xE6, 0x97, 0xA5)},   // same after a prefix
			caseT{Kind: "op", Charset: "Latin1", Op: 1, S: h(0xE6, 0x97, 0xA5, 'a')},   // reported: false
			caseT{Kind: "op", Charset: "Latin1", Op: 1, S: h(0xC3), Hid: h(0xA9)},      // hidden capacity completes the rune: str[2:] fails
			caseT{Kind: "op", Charset: "Latin1", Op: 1, S: h(0xC3), Hid: h('A', 'A', 'A')}, // hidden capacity, nothing matches: false
			caseT{Kind: "op", Charset: "Latin1", Op: 1, S: h('a', 0xC3, 0xA9)},
			caseT{Kind: "op", Charset: "Latin1", Op: 0, S: h('a', 0xE9, 0x80)},
			caseT{Kind: "op", Charset: "Latin1", Op: 2, S: h(0xE6, 0x97, 0xA5, 'a', 0xC3)},
			caseT{Kind: "op", Charset: "Utf16", Op: 1, S: h(0xED, 0xA0, 0x80)},          // known: encoded surrogate accepted
			caseT{Kind: "op", Charset: "Utf32", Op: 1, S: h(0xED, 0xA0, 0x80, 'a')},     // known
			caseT{Kind: "op", Charset: "Utf32", Op: 1, S: h(0xF4, 0x90, 0x80, 0x80)},    // known: above U+10FFFF accepted
			caseT{Kind: "op", Charset: "Utf16", Op: 1, S: h(0xF0, 0x9F, 0x98, 0x80)},
			caseT{Kind: "op", Charset: "Utf16", Op: 0, S: h(0xD8, 0x3D, 0xDE, 0x00)},
			caseT{Kind: "op", Charset: "Utf16", Op: 0, S: h(0xD8, 0x3D, 0xDE)},
			caseT{Kind: "op", Charset: "Utf16", Op: 0, S: h(0xD8, 0x00)},
			caseT{Kind: "op", Charset: "Utf8mb3", Op: 1, S: h(0xF0, 0x9F, 0x98, 0x80)},
			caseT{Kind: "op", Charset: "Utf8mb3", Op: 2, S: h(0xF0, 0x9F, 0x98, 0x80, 'a')},
			caseT{Kind: "op", Charset: "Swe7", Op: 1, S: h('[', 0xC3, 0x84)},
			caseT{Kind: "op", Charset: "Swe7", Op: 2, S: h(';', 0xC5, 0xB9, '+')}, // known: '+' after the unrepresentable U+0179 is dropped
			caseT{Kind: "op", Charset: "Swe7", Op: 2, S: h(';', 0xC5, 0xB9, '+', '+', '+')},
			caseT{Kind: "op", Charset: "Ascii", Op: 3, S: ""},                            // DecodeRune on the empty slice: index -1
			caseT{Kind: "op", Charset: "Binary", Op: 1, S: h(0xFF, 0x00)},
			caseT{Kind: "op", Charset: "Utf8mb4", Op: 0, S: h(0xF0, 0x9F, 0x98, 0x80)},
			caseT{Kind: "sql", SQL: []string{"CREATE TABLE t (a VARCHAR(10) CHARACTER SET latin1)", "INSERT INTO t VALUES ('日')", "SELECT HEX(a) FROM t"}},
			caseT{Kind: "sql", SQL: []string{"SELECT HEX(CONVERT(_utf8mb4 x'EDA080' USING utf16))", "SELECT HEX(CONVERT(_utf8mb4 x'EFBFBD' USING utf16))", "SELECT HEX(CONVERT(_utf8mb4 x'EFBFBD' USING utf32))", "SELECT HEX(CONVERT(_utf8mb4 x'C3A9' USING latin1))"}},
			caseT{Kind: "sql", SQL: []string{"CREATE TABLE t (a VARCHAR(10) CHARACTER SET latin1)", "INSERT INTO t VALUES ('日')", "SELECT LENGTH(a) FROM t"}}, // panicked before 014a463e8 (HEX re-encodes the converted bytes with Encode)
			caseT{Kind: "op", Charset: "Utf16", Op: 2, S: h(0xEF, 0xBF, 0xBD)},
			caseT{Kind: "op", Charset: "Utf32", Op: 2, S: h('a', 0xEF, 0xBF, 0xBD, 'b')},
			caseT{Kind: "op", Charset: "Utf8mb3", Op: 2, S: h('a', 0xEF, 0xBF, 0xBD)},
			caseT{Kind: "op", Charset: "Latin1", Op: 2, S: h('a', 0xEF, 0xBF, 0xBD, 'b', 'c', 'd', 'e')},
			caseT{Kind: "op", Charset: "Swe7", Op: 2, S: h(0xEF, 0xBF, 0xBD, 'b', 'c', 'd', 'e')},
			caseT{Kind: "op", Charset: "Utf16", Op: 1, S: h(0xEF, 0xBF, 0xBD)},
			caseT{Kind: "op", Charset: "Swe7", Op: 1, S: hex.EncodeToString([]byte("abcdefgh@ijklmnop"))},
			caseT{Kind: "op", Charset: "Swe7", Op: 1, S: hex.EncodeToString([]byte("abcdefghijklmnop"))},
			caseT{Kind: "op", Charset: "Swe7", Op: 2, S: hex.EncodeToString([]byte("abcd[efgh]ijkl{mnop}qrst"))},
			caseT{Kind: "op", Charset: "Swe7", Op: 0, S: hex.EncodeToString([]byte("abcdefgh@[\\]^`{|}~ijklmnop"))},
			caseT{Kind: "op", Charset: "Latin1", Op: 0, S: hex.EncodeToString([]byte("abcdefgh@[\\]^`{|}~ijklmnop"))},
			caseT{Kind: "conv", Charset: "Utf16", S: h('a', 0xEF, 0xBF, 0xBD, 'b')},
			caseT{Kind: "conv", Charset: "Utf8mb3", S: h(0xEF, 0xBF, 0xBD)},
			caseT{Kind: "conv", Charset: "Latin1", S: h('a', 0xEF, 0xBF, 0xBD, 'b', 'c', 'd', 'e')},
			caseT{Kind: "conv", Charset: "Swe7", S: hex.EncodeToString([]byte("abcdefgh@ijklmnop"))},
			caseT{Kind: "sql", SQL: []string{"SELECT CONVERT('a日' USING latin1)", "SELECT CONVERT(x'C3' USING latin1)", "SELECT HEX(CONVERT('é\U0001F600' USING utf16))", "SELECT CONVERT(CONVERT('é' USING latin1) USING utf8mb4)"}},
		)
		for _, cs := range corpus {
			runCase(c, cs)
		}
		for i := len(corpus); i < c.N; i++ {
			runCase(c, gen(c.R.Fork()))
		}
		stride := 16
		if c.Tier == "thorough" {
			stride = 1
		}
		for _, cs := range append(append([]charset{}, charsets...), passthrough...) {
			runCase(c, caseT{Kind: "sweep", Charset: cs.Name, Op: stride})
		}
	})
}
