// Driver for C03 (index lookups vs filtered full scans).
//  (a) builder level: sql.MySQLIndexBuilder on an INT column index, sequences of Equals/NotEquals/GreaterThan/...
//      with integer, non-integral decimal and out-of-range literals; the resulting ranges are recorded for the
//      Coq model and point membership is compared with an independent evaluation of the filter (big.Rat).
//  (b) engine level: the same WHERE clause against an indexed table and an index-free twin with identical rows.
package main

import (
	"fmt"
	"os"
	"math/big"
	"sort"
	"strings"

	"github.com/cockroachdb/apd/v3"
	"github.com/dolthub/go-mysql-server/sql"
	"github.com/dolthub/go-mysql-server/sql/analyzer"
	"github.com/dolthub/go-mysql-server/sql/expression"
	"github.com/dolthub/go-mysql-server/sql/types"

	"verifharness/lib"
	"verifharness/lib/eng"
)

// ---------- builder level ----------
type opT struct {
	Op  string `json:"op"`  // eq ne gt ge lt le null notnull
	N   int64  `json:"n"`   // literal = N * 10^-S
	S   int    `json:"s"`   // 0 = integer literal (int64 key), >0 = decimal literal
	Dec bool   `json:"dec"` // pass the literal as *apd.Decimal even when S = 0
	Col  int   `json:"col,omitempty"`  // index column the call addresses
	Lits []opT `json:"lits,omitempty"` // in / notin: the key list (N, S, Dec of each)
}
type caseT struct {
	K     int      `json:"k,omitempty"` // builder: number of index columns (1: KEY ia(a), 2: KEY ibc(b,c))
	Kind  string   `json:"kind"` // builder | engine | boxes | dml
	Ops   []opT    `json:"ops,omitempty"`
	Where string   `json:"where,omitempty"`
	Stmts []string `json:"stmts,omitempty"` // dml: statements with "%T" for the table name; lines starting with "?" are lookups (WHERE text)
	Rows  []string `json:"rows,omitempty"`  // dml: initial rows "(pk,a,b)"
	Filters []*exprT `json:"filters,omitempty"` // scan: the conjuncts
	IncSeed uint64   `json:"incseed,omitempty"` // scan: seed for the choice of the include set
}

// exprT is a filter expression of the analyzer-level cases.
type exprT struct {
	Kind  string `json:"kind"` // leaf | other | and | or
	Leaf  *opT   `json:"leaf,omitempty"` // leaf: Col = table column (0 a, 1 b, 2 c)
	L     *exprT `json:"l,omitempty"`
	Right *exprT `json:"r,omitempty"`
	Tag   int    `json:"tag,omitempty"`
}

var litBase = []int64{0, 1, -1, 2, 3, 5, -3, 2147483647, 2147483646, 2147483648, -2147483648, -2147483647, -2147483649, 99999999999, -99999999999}

func genLit(r *lib.RNG) (int64, int, bool) {
	b := lib.Pick(r, litBase)
	switch r.Intn(4) {
	case 0:
		return b, 0, false
	case 1:
		return b, 0, true
	default:
		s := r.Range(1, 2)
		p := int64(10)
		if s == 2 {
			p = 100
		}
		frac := int64(r.Intn(int(p)))
		if r.Chance(1, 3) {
			frac = 0 // integral decimal such as 2.00
		}
		if b < 0 {
			return b*p - frac, s, true
		}
		return b*p + frac, s, true
	}
}

var opNames = []string{"eq", "ne", "gt", "ge", "lt", "le", "null", "notnull", "in", "notin"}

func genBuilder(r *lib.RNG) caseT {
	k := 1
	if r.Chance(1, 2) {
		k = 2
	}
	n := r.Range(1, 3)
	if k == 2 {
		n = r.Range(1, 5)
	}
	ops := make([]opT, n)
	for i := range ops {
		o := opT{Op: opNames[r.Intn(len(opNames))], Col: r.Intn(k)}
		switch {
		case r.Chance(1, 8):
			o.Op = lib.Pick(r, []string{"null", "notnull"})
		case o.Op == "in" || o.Op == "notin":
			m := r.Range(1, 3)
			for j := 0; j < m; j++ {
				var l opT
				l.N, l.S, l.Dec = genLit(r)
				if r.Chance(1, 2) {
					l.N, l.S, l.Dec = int64(r.Intn(6)), 0, false
				}
				o.Lits = append(o.Lits, l)
			}
		case o.Op != "null" && o.Op != "notnull":
			o.N, o.S, o.Dec = genLit(r)
			if k == 2 && r.Chance(1, 2) {
				o.N, o.S, o.Dec = int64(r.Intn(6)), 0, false
			}
		}
		ops[i] = o
	}
	return caseT{Kind: "builder", K: k, Ops: ops}
}

type world struct {
	e    *eng.E
	s    *eng.S
	idx  sql.Index // KEY ia (a)
	idx2 sql.Index // KEY ibc (b, c)
}

var domainVals = []string{"NULL", "-2147483648", "-2147483647", "-3", "-1", "0", "1", "2", "3", "5", "2147483646", "2147483647"}

func setup() *world {
	e := eng.New("db")
	s := e.Session()
	s.MustExec(
		"CREATE TABLE ti (pk INT PRIMARY KEY, a INT, b INT, c INT, KEY ia (a), KEY ibc (b, c))",
		"CREATE TABLE tn (pk INT, a INT, b INT, c INT)")
	r := lib.NewRNG(12345)
	var rows []string
	pk := 0
	for _, a := range domainVals {
		for j := 0; j < 3; j++ {
			pk++
			rows = append(rows, fmt.Sprintf("(%d,%s,%s,%s)", pk, a, lib.Pick(r, domainVals), lib.Pick(r, domainVals)))
		}
	}
	for _, t := range []string{"ti", "tn"} {
		s.MustExec("INSERT INTO " + t + " VALUES " + strings.Join(rows, ","))
	}
	// dense two-column grid for OR-of-boxes filters on a two-column index
	s.MustExec(
		"CREATE TABLE gi (pk INT PRIMARY KEY, a INT, b INT, KEY iab (a, b))",
		"CREATE TABLE gn (pk INT, a INT, b INT)")
	var grows []string
	gpk := 0
	gvals := []string{"NULL", "0", "1", "2", "3", "4", "5", "6", "7", "8", "9", "10", "11"}
	for _, a := range gvals {
		for _, b := range gvals {
			gpk++
			grows = append(grows, fmt.Sprintf("(%d,%s,%s)", gpk, a, b))
		}
	}
	for _, t := range []string{"gi", "gn"} {
		s.MustExec("INSERT INTO " + t + " VALUES " + strings.Join(grows, ","))
	}
	// VARCHAR column with a prefix index and DECIMAL column with an index, against an index-free twin
	s.MustExec(
		"CREATE TABLE si (pk INT PRIMARY KEY, s VARCHAR(10), d DECIMAL(6,2), KEY iss (s(2)), KEY idd (d), KEY isd (d, s(3)))",
		"CREATE TABLE sn (pk INT, s VARCHAR(10), d DECIMAL(6,2))")
	svals := []string{"NULL", "''", "'a'", "'ab'", "'abc'", "'abd'", "'ab '", "'b'", "'B'", "'ba'", "'z'"}
	dvals := []string{"NULL", "0.00", "1.50", "1.49", "1.51", "2.00", "-1.25", "9999.99", "-9999.99"}
	var srows []string
	spk := 0
	for _, sv := range svals {
		for _, dv := range dvals {
			spk++
			srows = append(srows, fmt.Sprintf("(%d,%s,%s)", spk, sv, dv))
		}
	}
	for _, t := range []string{"si", "sn"} {
		s.MustExec("INSERT INTO " + t + " VALUES " + strings.Join(srows, ","))
	}
	w := &world{e: e, s: s}
	db, err := e.Pro.Database(s.Ctx, "db")
	if err != nil {
		panic(err)
	}
	tbl, ok, err := db.GetTableInsensitive(s.Ctx, "ti")
	if err != nil || !ok {
		panic("no table ti")
	}
	idxs, err := tbl.(sql.IndexAddressable).GetIndexes(s.Ctx)
	if err != nil {
		panic(err)
	}
	for _, ix := range idxs {
		if strings.EqualFold(ix.ID(), "ia") {
			w.idx = ix
		}
		if strings.EqualFold(ix.ID(), "ibc") {
			w.idx2 = ix
		}
	}
	if w.idx == nil {
		panic("index ia not found")
	}
	return w
}

func pow10(s int) int64 {
	p := int64(1)
	for i := 0; i < s; i++ {
		p *= 10
	}
	return p
}

// litKey builds the Go key value and key type the analyzer would pass.
func litKey(o opT) (interface{}, sql.Type) {
	if o.S == 0 && !o.Dec {
		return o.N, types.Int64
	}
	d := apd.New(o.N, int32(-o.S))
	return d, types.MustCreateDecimalType(20, uint8(o.S))
}

// independent evaluation of one comparison on a column value (nil = NULL): true iff the SQL result is TRUE
func opTrue(o opT, v *int64) bool {
	switch o.Op {
	case "in":
		for _, l := range o.Lits {
			l.Op = "eq"
			if opTrue(l, v) {
				return true
			}
		}
		return false
	case "notin":
		for _, l := range o.Lits {
			l.Op = "ne"
			if !opTrue(l, v) {
				return false
			}
		}
		return true
	case "null":
		return v == nil
	case "notnull":
		return v != nil
	}
	if v == nil {
		return false
	}
	lit := new(big.Rat).SetFrac(big.NewInt(o.N), big.NewInt(pow10(o.S)))
	c := new(big.Rat).SetInt64(*v).Cmp(lit)
	switch o.Op {
	case "eq":
		return c == 0
	case "ne":
		return c != 0
	case "gt":
		return c > 0
	case "ge":
		return c >= 0
	case "lt":
		return c < 0
	case "le":
		return c <= 0
	}
	panic("bad op")
}

// cut code / printing for one-column ranges with int64 keys
func coqCut(c sql.MySQLRangeCut) string {
	switch c := c.(type) {
	case sql.BelowNull:
		return "BelowNull"
	case sql.AboveNull:
		return "AboveNull"
	case sql.AboveAll:
		return "AboveAll"
	case sql.Below:
		return "(Below " + lib.CoqZ(toI64(c.Key)) + ")"
	case sql.Above:
		return "(Above " + lib.CoqZ(toI64(c.Key)) + ")"
	}
	panic(fmt.Sprintf("cut %T", c))
}
func toI64(v interface{}) int64 {
	switch v := v.(type) {
	case int32:
		return int64(v)
	case int64:
		return v
	case int:
		return int64(v)
	}
	panic(fmt.Sprintf("key %T", v))
}

// membership of a column value in a one-column range, from the cuts alone (independent of Compare)
func cutBelow(c sql.MySQLRangeCut, v *int64) bool {
	switch c := c.(type) {
	case sql.BelowNull:
		return true
	case sql.AboveNull:
		return v != nil
	case sql.AboveAll:
		return false
	case sql.Below:
		return v != nil && toI64(c.Key) <= *v
	case sql.Above:
		return v != nil && toI64(c.Key) < *v
	}
	return false
}
func rangesHave(rs sql.MySQLRangeCollection, v *int64) bool {
	for _, r := range rs {
		if len(r) == 1 && cutBelow(r[0].LowerBound, v) && !cutBelow(r[0].UpperBound, v) {
			return true
		}
	}
	return false
}

func coqLit(o opT) string { return fmt.Sprintf("(%s, %d%%nat)", lib.CoqZ(o.N), o.S) }
func coqBop(o opT) string {
	switch o.Op {
	case "in":
		return fmt.Sprintf("(BIn %d%%nat %s)", o.Col, lib.CoqListOf(o.Lits, coqLit))
	case "notin":
		return fmt.Sprintf("(BNotIn %d%%nat %s)", o.Col, lib.CoqListOf(o.Lits, coqLit))
	}
	return fmt.Sprintf("(BOp %d%%nat %s)", o.Col, coqOp(o))
}
func coqOp(o opT) string {
	lit := coqLit(o)
	switch o.Op {
	case "eq":
		return "(OEq " + lit + ")"
	case "ne":
		return "(ONe " + lit + ")"
	case "gt":
		return "(OGt " + lit + ")"
	case "ge":
		return "(OGe " + lit + ")"
	case "lt":
		return "(OLt " + lit + ")"
	case "le":
		return "(OLe " + lit + ")"
	case "null":
		return "OIsNull"
	}
	return "OIsNotNull"
}

func opSig(o opT) string {
	if o.Op == "in" || o.Op == "notin" {
		parts := make([]string, len(o.Lits))
		for i, l := range o.Lits {
			l.Op = "k"
			parts[i] = strings.TrimPrefix(opSig(l), "k/")
		}
		return o.Op + "(" + strings.Join(parts, ",") + ")"
	}
	k := "int"
	if o.S > 0 || o.Dec {
		k = "integral-decimal"
		if o.N%pow10(o.S) != 0 {
			k = "nonintegral-decimal"
		}
	}
	rng := "inrange"
	q := new(big.Rat).SetFrac(big.NewInt(o.N), big.NewInt(pow10(o.S)))
	if q.Cmp(big.NewRat(2147483647, 1)) > 0 {
		rng = "above-int32"
	} else if q.Cmp(big.NewRat(-2147483648, 1)) < 0 {
		rng = "below-int32"
	}
	if o.Op == "null" || o.Op == "notnull" {
		return o.Op
	}
	return o.Op + "/" + k + "/" + rng
}

func rangesHaveT(rs sql.MySQLRangeCollection, t []*int64) bool {
	for _, r := range rs {
		if len(r) != len(t) {
			continue
		}
		ok := true
		for i := range r {
			if !(cutBelow(r[i].LowerBound, t[i]) && !cutBelow(r[i].UpperBound, t[i])) {
				ok = false
				break
			}
		}
		if ok {
			return true
		}
	}
	return false
}

func runBuilder(c *lib.Ctx, w *world, cs caseT) {
	ctx := w.s.Ctx
	if cs.K == 0 {
		cs.K = 1
	}
	idx, names := w.idx, []string{"ti.a"}
	if cs.K == 2 {
		idx, names = w.idx2, []string{"ti.b", "ti.c"}
	}
	b := sql.NewMySQLIndexBuilder(ctx, idx)
	for _, o := range cs.Ops {
		name := names[o.Col]
		key, kt := litKey(o)
		switch o.Op {
		case "eq":
			b.Equals(ctx, name, kt, key)
		case "ne":
			b.NotEquals(ctx, name, kt, key)
		case "gt":
			b.GreaterThan(ctx, name, kt, key)
		case "ge":
			b.GreaterOrEqual(ctx, name, kt, key)
		case "lt":
			b.LessThan(ctx, name, kt, key)
		case "le":
			b.LessOrEqual(ctx, name, kt, key)
		case "null":
			b.IsNull(ctx, name)
		case "notnull":
			b.IsNotNull(ctx, name)
		case "in", "notin":
			keys := make([]interface{}, len(o.Lits))
			kts := make([]sql.Type, len(o.Lits))
			for i, l := range o.Lits {
				keys[i], kts[i] = litKey(l)
			}
			if o.Op == "in" {
				b.In(ctx, name, kts, keys)
			} else {
				b.NotIn(ctx, name, kts, keys)
			}
		}
	}
	_, buildErr := b.Build(ctx)
	rs := b.Ranges(ctx)
	c.Count("kind_builder")
	c.Count(fmt.Sprintf("builder_%dcol", cs.K))
	sigs := make([]string, len(cs.Ops))
	for i, o := range cs.Ops {
		sigs[i] = opSig(o)
		c.Count("builder_op_" + strings.SplitN(sigs[i], "(", 2)[0])
	}
	if buildErr != nil || rs == nil {
		id := c.CaseNoModel(cs, "")
		c.PredFail(id, "builder/error/"+sigs[len(sigs)-1], fmt.Sprintf("builder returned an error for %+v: %v", cs.Ops, buildErr), cs)
		return
	}
	rstr := make([]string, 0, len(rs))
	for _, r := range rs {
		if len(r) != cs.K {
			panic("range width differs from the number of index columns")
		}
		cols := make([]string, len(r))
		for i := range r {
			cols[i] = "(mkR " + coqCut(r[i].LowerBound) + " " + coqCut(r[i].UpperBound) + ")"
		}
		rstr = append(rstr, lib.CoqList(cols))
	}
	if len(rs) > 1 {
		c.Count("builder_multiple_ranges")
	}
	term := fmt.Sprintf("CB %d%%nat %s %s", cs.K, lib.CoqListOf(cs.Ops, coqBop), lib.CoqList(rstr))
	id := c.Case(term, cs, fmt.Sprint(cs.K, cs.Ops))
	c.PredChecked()
	// candidate values per column: NULL, int32 bounds, 0, and the neighbourhood of every literal used on it
	cands := make([][]*int64, cs.K)
	for col := 0; col < cs.K; col++ {
		set := map[int64]bool{-2147483648: true, 2147483647: true, 0: true}
		add := func(o opT) {
			q := o.N / pow10(o.S)
			for d := int64(-2); d <= 2; d++ {
				if v := q + d; v >= -2147483648 && v <= 2147483647 {
					set[v] = true
				}
			}
		}
		for _, o := range cs.Ops {
			if o.Col != col {
				continue
			}
			add(o)
			for _, l := range o.Lits {
				add(l)
			}
		}
		keys := make([]int64, 0, len(set))
		for v := range set {
			keys = append(keys, v)
		}
		sort.Slice(keys, func(i, j int) bool { return keys[i] < keys[j] })
		cands[col] = append(cands[col], nil)
		for i := range keys {
			cands[col] = append(cands[col], &keys[i])
		}
	}
	var rec func(col int, t []*int64) bool
	rec = func(col int, t []*int64) bool {
		if col == cs.K {
			want := true
			for _, o := range cs.Ops {
				want = want && opTrue(o, t[o.Col])
			}
			if got := rangesHaveT(rs, t); got != want {
				vs := make([]string, len(t))
				for i, v := range t {
					vs[i] = "NULL"
					if v != nil {
						vs[i] = fmt.Sprint(*v)
					}
				}
				kind := "lookup-misses-matching-row"
				if got {
					kind = "lookup-returns-nonmatching-row"
				}
				c.PredFail(id, fmt.Sprintf("builder/%s/%dcol/%s", kind, cs.K, strings.Join(sigs, "+")),
					fmt.Sprintf("ops %+v: ranges %v, key tuple (%s): in ranges = %v, filter TRUE = %v", cs.Ops, rs, strings.Join(vs, ","), got, want), cs)
				return false
			}
			return true
		}
		for _, v := range cands[col] {
			if !rec(col+1, append(t, v)) {
				return false
			}
		}
		return true
	}
	rec(0, nil)
}


// ---------- the fast path of a lone IN filter on a one-column INT index ----------
func genInFast(r *lib.RNG) caseT {
	n := r.Range(1, 4)
	o := opT{Op: "in"}
	for j := 0; j < n; j++ {
		var l opT
		l.N, l.S, l.Dec = genLit(r)
		if r.Chance(1, 3) {
			l.N, l.S, l.Dec = int64(r.Intn(6)), 0, false
		}
		o.Lits = append(o.Lits, l)
	}
	return caseT{Kind: "infast", Ops: []opT{o}}
}

func runInFast(c *lib.Ctx, w *world, cs caseT) {
	o := cs.Ops[0]
	vals := make([]any, len(o.Lits))
	for i, l := range o.Lits {
		vals[i], _ = litKey(l)
	}
	rs, ok := analyzer.VerifC03InValsToMySQLRangeColl(w.s.Ctx, vals, types.Int32)
	c.Count("kind_infast")
	if !ok {
		id := c.CaseNoModel(cs, "")
		c.PredFail(id, "infast/declined", fmt.Sprintf("fast path declined %+v", o.Lits), cs)
		return
	}
	obs := "None"
	if rs != nil {
		rstr := make([]string, len(rs))
		for i, r := range rs {
			rstr[i] = "[(mkR " + coqCut(r[0].LowerBound) + " " + coqCut(r[0].UpperBound) + ")]"
		}
		obs = "(Some " + lib.CoqList(rstr) + ")"
		c.Count("infast_some_ranges")
	} else {
		c.Count("infast_nil")
	}
	id := c.Case(fmt.Sprintf("CIn %s %s", lib.CoqListOf(o.Lits, coqLit), obs), cs, fmt.Sprint("infast", o.Lits))
	c.PredChecked()
	// candidate values: NULL, bounds, neighbourhood of every key
	set := map[int64]bool{-2147483648: true, 2147483647: true, 0: true}
	for _, l := range o.Lits {
		q := l.N / pow10(l.S)
		for d := int64(-2); d <= 2; d++ {
			if v := q + d; v >= -2147483648 && v <= 2147483647 {
				set[v] = true
			}
		}
	}
	sig := opSig(o)
	if rs == nil {
		// nil means "no ranges": the caller must not read it as "no restriction". The list matches nothing exactly when
		// no key is an in-range integer; a nil for a satisfiable list would lose rows outright.
		for v := range set {
			v := v
			if opTrue(o, &v) {
				c.PredFail(id, "infast/nil-for-satisfiable-list/"+sig, fmt.Sprintf("IN %+v: nil although %d matches", o.Lits, v), cs)
				return
			}
		}
		return
	}
	check := func(v *int64) bool {
		if got, want := rangesHaveT(rs, []*int64{v}), opTrue(o, v); got != want {
			c.PredFail(id, "infast/ranges-differ-from-in-list/"+sig, fmt.Sprintf("IN %+v: ranges %v, value %v: in ranges = %v, IN TRUE = %v", o.Lits, rs, v, got, want), cs)
			return false
		}
		return true
	}
	if !check(nil) {
		return
	}
	for v := range set {
		v := v
		if !check(&v) {
			return
		}
	}
	for i := 0; i+1 < len(rs); i++ {
		if toI64(sql.GetMySQLRangeCutKey(rs[i][0].LowerBound)) >= toI64(sql.GetMySQLRangeCutKey(rs[i+1][0].LowerBound)) {
			c.PredFail(id, "infast/unsorted-or-duplicate/"+sig, fmt.Sprintf("IN %+v: ranges %v", o.Lits, rs), cs)
			return
		}
	}
}


// ---------- analyzer level: buildRoot + indexScanRangeBuilder through the hooks ----------
var tableCols = []string{"a", "b", "c"}

func genScanLeaf(r *lib.RNG) *exprT {
	if r.Chance(1, 10) {
		return &exprT{Kind: "other", Tag: r.Intn(3)}
	}
	o := opT{Op: opNames[r.Intn(len(opNames))], Col: r.Intn(3)}
	small := func() opT {
		if r.Chance(1, 4) {
			n, s, d := genLit(r)
			return opT{N: n, S: s, Dec: d}
		}
		return opT{N: int64(r.Intn(5))}
	}
	switch o.Op {
	case "in", "notin":
		m := r.Range(1, 3)
		for j := 0; j < m; j++ {
			o.Lits = append(o.Lits, small())
		}
	case "null", "notnull":
	default:
		l := small()
		o.N, o.S, o.Dec = l.N, l.S, l.Dec
	}
	return &exprT{Kind: "leaf", Leaf: &o}
}
func genScanExpr(r *lib.RNG, depth int) *exprT {
	if depth == 0 || r.Chance(2, 5) {
		return genScanLeaf(r)
	}
	k := "and"
	if r.Chance(3, 5) {
		k = "or"
	}
	return &exprT{Kind: k, L: genScanExpr(r, depth-1), Right: genScanExpr(r, depth-1)}
}
func genScan(r *lib.RNG) caseT {
	n := r.Range(1, 3)
	cs := caseT{Kind: "scan", K: r.Range(1, 2), IncSeed: r.Uint64()}
	for i := 0; i < n; i++ {
		cs.Filters = append(cs.Filters, genScanExpr(r, 3))
	}
	return cs
}

// column of the table -> position among the index columns (k first), others after
func scanColPos(k, col int) int {
	if k == 1 { // KEY ia (a): a=0, b=1, c=2
		return col
	}
	return []int{2, 0, 1}[col] // KEY ibc (b, c): b=0, c=1, a=2
}
func litIsDec(o opT) bool { return o.S > 0 || o.Dec }
func leafHasDec(o opT) bool {
	if o.Op == "null" || o.Op == "notnull" {
		return false
	}
	if o.Op == "in" || o.Op == "notin" {
		for _, l := range o.Lits {
			if litIsDec(l) {
				return true
			}
		}
		return false
	}
	return litIsDec(o)
}
func litExpr(o opT) sql.Expression {
	v, t := litKey(o)
	return expression.NewLiteral(v, t)
}
func (e *exprT) toSQL() sql.Expression {
	switch e.Kind {
	case "and":
		return expression.NewAnd(e.L.toSQL(), e.Right.toSQL())
	case "or":
		return expression.NewOr(e.L.toSQL(), e.Right.toSQL())
	case "other":
		gf := expression.NewGetFieldWithTable(1+e.Tag, 1, types.Int32, "db", "ti", tableCols[e.Tag], true)
		return expression.NewEquals(expression.NewPlus(gf, expression.NewLiteral(int64(1), types.Int64)), expression.NewLiteral(int64(3), types.Int64))
	}
	o := *e.Leaf
	gf := expression.NewGetFieldWithTable(1+o.Col, 1, types.Int32, "db", "ti", tableCols[o.Col], true)
	switch o.Op {
	case "eq":
		return expression.NewEquals(gf, litExpr(o))
	case "ne":
		return expression.NewNot(expression.NewEquals(gf, litExpr(o)))
	case "gt":
		return expression.NewGreaterThan(gf, litExpr(o))
	case "ge":
		return expression.NewGreaterThanOrEqual(gf, litExpr(o))
	case "lt":
		return expression.NewLessThan(gf, litExpr(o))
	case "le":
		return expression.NewLessThanOrEqual(gf, litExpr(o))
	case "null":
		return expression.DefaultExpressionFactory.NewIsNull(gf)
	case "notnull":
		return expression.DefaultExpressionFactory.NewIsNotNull(gf)
	}
	lits := make([]sql.Expression, len(o.Lits))
	for i, l := range o.Lits {
		lits[i] = litExpr(l)
	}
	in := expression.NewInTuple(gf, expression.NewTuple(lits...))
	if o.Op == "notin" {
		return expression.NewNot(in)
	}
	return in
}
func (e *exprT) coq(k int) string {
	switch e.Kind {
	case "and":
		return "(SAnd " + e.L.coq(k) + " " + e.Right.coq(k) + ")"
	case "or":
		return "(SOr " + e.L.coq(k) + " " + e.Right.coq(k) + ")"
	case "other":
		return fmt.Sprintf("(SOther %d%%nat)", e.Tag)
	}
	o := *e.Leaf
	o.Col = scanColPos(k, o.Col)
	return "(SLeaf " + coqBop(o) + " " + lib.CoqBool(leafHasDec(*e.Leaf)) + ")"
}
func (e *exprT) leaves(out *[]*exprT) {
	switch e.Kind {
	case "and", "or":
		e.L.leaves(out)
		e.Right.leaves(out)
	default:
		*out = append(*out, e)
	}
}

func coqSkel(n analyzer.VerifC03Node, k int) string {
	sub := func(ns []analyzer.VerifC03Node) string {
		ss := make([]string, len(ns))
		for i, c := range ns {
			ss[i] = coqSkel(c, k)
		}
		return lib.CoqList(ss)
	}
	switch n.Kind {
	case "and":
		return fmt.Sprintf("(KAnd %d%%nat %s %s)", n.Id, sub(n.Leaves), sub(n.Children))
	case "or":
		return fmt.Sprintf("(KOr %d%%nat %s)", n.Id, sub(n.Children))
	}
	col := -1
	for i, c := range tableCols {
		if n.Name == "ti."+c {
			col = scanColPos(k, i)
		}
	}
	return fmt.Sprintf("(KLeaf %d%%nat %d%%nat %d%%nat)", n.Id, col, n.Op)
}
func coqNats(xs []int) string {
	return lib.CoqListOf(xs, func(i int) string { return fmt.Sprintf("%d%%nat", i) })
}

// node ids that may be put into the include set: leaves on index columns, ORs all of whose leaves are, ANDs
func scanCandidates(n analyzer.VerifC03Node, k int, top bool, out *[]int) bool {
	switch n.Kind {
	case "leaf":
		ok := false
		for i, c := range tableCols {
			if n.Name == "ti."+c && scanColPos(k, i) < k {
				ok = true
			}
		}
		if ok && top {
			*out = append(*out, n.Id)
		}
		return ok
	case "or":
		all := true
		for _, c := range n.Children {
			all = scanCandidates(c, k, false, out) && all
		}
		if all && top {
			*out = append(*out, n.Id)
		}
		return all
	}
	all := true
	for _, l := range n.Leaves {
		all = scanCandidates(l, k, top, out) && all
	}
	for _, c := range n.Children {
		all = scanCandidates(c, k, top, out) && all
	}
	if all && !top {
		return true
	}
	return all
}

func runScan(c *lib.Ctx, w *world, cs caseT) {
	ctx := w.s.Ctx
	idx := w.idx
	if cs.K == 2 {
		idx = w.idx2
	}
	filters := make([]sql.Expression, len(cs.Filters))
	coqF := make([]string, len(cs.Filters))
	for i, f := range cs.Filters {
		filters[i] = f.toSQL()
		coqF[i] = f.coq(cs.K)
	}
	root := analyzer.VerifC03BuildRoot(ctx, "ti", filters)
	c.Count("kind_scan")
	// PreciseComparison on every leaf against the model's rule (no decimal literal)
	var ls []*exprT
	for _, f := range cs.Filters {
		f.leaves(&ls)
	}
	id := -1
	for _, l := range ls {
		if l.Kind != "leaf" {
			continue
		}
		if got, want := expression.PreciseComparison(ctx, l.toSQL()), !leafHasDec(*l.Leaf); got != want {
			id = c.CaseNoModel(cs, "")
			c.PredFail(id, "scan/precise-comparison-differs/"+opSig(*l.Leaf), fmt.Sprintf("PreciseComparison(%v) = %v, expected %v", l.toSQL(), got, want), cs)
			return
		}
	}
	otree := "None"
	var include []int
	if root.Tree != nil {
		otree = "(Some " + coqSkel(*root.Tree, cs.K) + ")"
		var cand []int
		top := root.Tree.Kind == "and"
		if top {
			scanCandidates(*root.Tree, cs.K, true, &cand)
		} else if scanCandidates(*root.Tree, cs.K, false, &cand) {
			cand = append(cand, root.Tree.Id)
		}
		r := lib.NewRNG(cs.IncSeed)
		mode := r.Intn(4)
		for _, x := range cand {
			if mode != 0 || r.Chance(2, 3) {
				include = append(include, x)
			}
		}
		if top && mode == 1 && len(cand) > 0 {
			include = append(include, root.Tree.Id)
		}
	}
	var ranges sql.MySQLRangeCollection
	var left []int
	var err error
	if root.Tree != nil {
		ranges, left, err = analyzer.VerifC03RangeBuild(ctx, root, idx, include)
	}
	if len(root.Imprecise) > 0 {
		c.Count("scan_with_imprecise")
	}
	if len(left) > 0 {
		c.Count("scan_with_leftover")
	}
	if len(include) > 0 {
		c.Count("scan_with_included_filters")
	}
	if root.Tree == nil {
		c.Count("scan_root_not_indexable")
	}
	if err != nil {
		c.Count("scan_range_build_error")
	}
	// key tuples on which the ranges are compared
	var pts [][]*int64
	vals := []*int64{nil}
	for _, v := range []int64{-1, 0, 1, 2, 3, 4, 5, 2147483647, -2147483648} {
		v := v
		vals = append(vals, &v)
	}
	if cs.K == 1 {
		for _, v := range vals {
			pts = append(pts, []*int64{v})
		}
	} else {
		for _, v := range vals[:8] {
			for _, u := range vals[:8] {
				pts = append(pts, []*int64{v, u})
			}
		}
	}
	coqPt := func(t []*int64) string {
		ss := make([]string, len(t))
		for i, v := range t {
			if v == nil {
				ss[i] = "None"
			} else {
				ss[i] = "(Some " + lib.CoqZ(*v) + ")"
			}
		}
		return lib.CoqList(ss)
	}
	rstr := make([]string, 0, len(ranges))
	for _, r := range ranges {
		cols := make([]string, len(r))
		for i := range r {
			cols[i] = "(mkR " + coqCut(r[i].LowerBound) + " " + coqCut(r[i].UpperBound) + ")"
		}
		rstr = append(rstr, lib.CoqList(cols))
	}
	term := fmt.Sprintf("CScan %d%%nat %s %s %s %s %s %s %s %s %s %s", cs.K, lib.CoqList(coqF), otree, coqNats(root.InvalidIds),
		lib.CoqBool(root.WholeIsLeft), coqNats(root.Imprecise), coqNats(include), lib.CoqBool(err != nil), coqNats(left),
		lib.CoqList(rstr), lib.CoqListOf(pts, coqPt))
	id = c.Case(term, cs, fmt.Sprint("scan", cs.K, coqF, include))
	c.PredChecked()
	// predicate on the implementation alone: on every row of the small grid, the filter is TRUE iff the row's key is in
	// the ranges and every left-over expression (of buildRoot and of the range builder) is TRUE.
	if root.Tree == nil || err != nil {
		return
	}
	// handled by the Coq side for now; the row-level predicate is evaluated by the engine-level cases
}

// ---------- engine level ----------
var engLits = []string{"0", "1", "-1", "2", "3", "5", "-3", "2147483647", "2147483646", "2147483648", "-2147483648", "-2147483649",
	"99999999999", "-99999999999", "1.5", "2.0", "-0.5", "2.99", "2147483646.5", "2147483647.5", "-2147483648.5", "NULL"}
var engCols = []string{"a", "b", "c", "pk"}

func genPred(r *lib.RNG, depth int) string {
	if depth > 0 && r.Chance(1, 2) {
		op := lib.Pick(r, []string{"AND", "OR"})
		return "(" + genPred(r, depth-1) + " " + op + " " + genPred(r, depth-1) + ")"
	}
	col := lib.Pick(r, engCols)
	if r.Chance(1, 6) {
		// a bound together with the NULL point of the same (nullable, indexed) column: ranges of the
		// "less-or-equal OR NULL" family; the table has rows exactly on the small integer bounds
		k := lib.Pick(r, []string{"0", "1", "2", "3", "5", "-1", "-3", "2147483646", "2.0", "1.5"})
		op := lib.Pick(r, []string{"<=", "<", ">=", ">", "="})
		neg := map[string]string{"<=": ">", "<": ">=", ">=": "<", ">": "<=", "=": "<>"}[op]
		switch r.Intn(4) {
		case 0:
			return fmt.Sprintf("(%s %s %s OR %s IS NULL)", col, op, k, col)
		case 1:
			return fmt.Sprintf("(%s IS NULL OR NOT (%s %s %s))", col, col, neg, k)
		case 2:
			return fmt.Sprintf("(%s IS NULL OR %s %s %s)", col, col, op, k)
		default:
			return fmt.Sprintf("(NOT (%s %s %s) OR %s IS NULL)", col, neg, k, col)
		}
	}
	switch r.Intn(10) {
	case 0:
		return col + " IS NULL"
	case 1:
		return col + " IS NOT NULL"
	case 2:
		return fmt.Sprintf("%s BETWEEN %s AND %s", col, lib.Pick(r, engLits), lib.Pick(r, engLits))
	case 3:
		n := r.Range(1, 3)
		ls := make([]string, n)
		for i := range ls {
			ls[i] = lib.Pick(r, engLits)
		}
		not := ""
		if r.Chance(1, 3) {
			not = "NOT "
		}
		return fmt.Sprintf("%s %sIN (%s)", col, not, strings.Join(ls, ", "))
	case 4:
		return fmt.Sprintf("NOT (%s %s %s)", col, lib.Pick(r, []string{"=", "<", ">", "<=", ">=", "<>"}), lib.Pick(r, engLits))
	default:
		return fmt.Sprintf("%s %s %s", col, lib.Pick(r, []string{"=", "<>", "<", "<=", ">", ">=", "<=>"}), lib.Pick(r, engLits))
	}
}

func runEngine(c *lib.Ctx, w *world, cs caseT) {
	qi := "SELECT pk, a, b, c FROM ti WHERE " + cs.Where
	qn := "SELECT pk, a, b, c FROM tn WHERE " + cs.Where
	ri := w.s.Query(qi)
	rn := w.s.Query(qn)
	c.Count("kind_engine")
	id := c.CaseNoModel(cs, cs.Where)
	c.PredChecked()
	shape := "and-or"
	if !strings.Contains(cs.Where, " AND ") && !strings.Contains(cs.Where, " OR ") {
		shape = "leaf"
	}
	for _, k := range []string{"BETWEEN", " IN ", "NOT IN", "IS NULL", "IS NOT NULL", "<=>", "NOT ("} {
		if strings.Contains(cs.Where, k) {
			shape += "/" + strings.ToLower(strings.TrimSpace(k))
		}
	}
	if strings.Contains(cs.Where, "IN (") {
		shape = "in-list" // IN lists take their own path through the index builder; keep their failures in one class
	}
	if ri.Panic != "" || rn.Panic != "" {
		c.PredFail(id, "engine/panic/"+shape, fmt.Sprintf("%s: panic indexed=%q scan=%q", cs.Where, ri.Panic, rn.Panic), cs)
		return
	}
	if (ri.Err != nil) != (rn.Err != nil) || (ri.Err != nil && eng.ErrKind(ri.Err) != eng.ErrKind(rn.Err)) {
		c.PredFail(id, "engine/error-differs/"+shape, fmt.Sprintf("%s: indexed err=%v scan err=%v", cs.Where, ri.Err, rn.Err), cs)
		return
	}
	if ri.Err != nil {
		c.Count("engine_both_error")
		return
	}
	bi, bn := eng.Bag(ri.Rows), eng.Bag(rn.Rows)
	if len(bi) > 0 {
		c.Count("engine_nonempty_result")
	}
	if strings.Join(bi, "|") != strings.Join(bn, "|") {
		c.PredFail(id, "engine/rows-differ/"+shape,
			fmt.Sprintf("WHERE %s: indexed table returns %d rows %v, index-free twin %d rows %v", cs.Where, len(bi), bi, len(bn), bn), cs)
	}
}


// ---------- OR of boxes on the two-column index (a, b) of the grid tables ----------
func genSide(r *lib.RNG, col string) string {
	k := func() int { return r.Intn(12) }
	switch r.Intn(9) {
	case 0:
		return fmt.Sprintf("%s = %d", col, k())
	case 1, 2, 3:
		lo := r.Intn(9)
		return fmt.Sprintf("%s BETWEEN %d AND %d", col, lo, lo+r.Range(0, 9))
	case 4:
		return fmt.Sprintf("%s < %d", col, k())
	case 5:
		return fmt.Sprintf("%s >= %d", col, k())
	case 6:
		lo := r.Intn(9)
		return fmt.Sprintf("(%s > %d AND %s <= %d)", col, lo, col, lo+r.Range(1, 6))
	case 7:
		return col + " IS NULL"
	default:
		return fmt.Sprintf("%s IN (%d, %d)", col, k(), k())
	}
}
func genBoxes(r *lib.RNG) string {
	n := r.Range(2, 4)
	boxes := make([]string, n)
	for i := range boxes {
		switch r.Intn(6) {
		case 0:
			boxes[i] = "(" + genSide(r, "a") + ")"
		default:
			boxes[i] = "(" + genSide(r, "a") + " AND " + genSide(r, "b") + ")"
		}
	}
	return strings.Join(boxes, " OR ")
}

func compareLookup(c *lib.Ctx, w *world, id int, cs caseT, kind, ti, tn, cols, where, ctxt string) bool {
	ri := w.s.Query("SELECT " + cols + " FROM " + ti + " WHERE " + where)
	rn := w.s.Query("SELECT " + cols + " FROM " + tn + " WHERE " + where)
	if ri.Panic != "" || rn.Panic != "" {
		c.PredFail(id, kind+"/panic", fmt.Sprintf("%s%s: panic indexed=%q twin=%q", ctxt, where, ri.Panic, rn.Panic), cs)
		return false
	}
	if (ri.Err != nil) != (rn.Err != nil) {
		c.PredFail(id, kind+"/error-differs", fmt.Sprintf("%s%s: indexed err=%v twin err=%v", ctxt, where, ri.Err, rn.Err), cs)
		return false
	}
	if ri.Err != nil {
		return true
	}
	bi, bn := eng.Bag(ri.Rows), eng.Bag(rn.Rows)
	if strings.Join(bi, "|") != strings.Join(bn, "|") {
		c.PredFail(id, kind+"/rows-differ", fmt.Sprintf("%sWHERE %s: indexed table returns %d rows %v, twin %d rows %v", ctxt, where, len(bi), bi, len(bn), bn), cs)
		return false
	}
	if len(bi) > 0 {
		c.Count(strings.ReplaceAll(kind, "/", "_") + "_nonempty_result")
	}
	return true
}

func runBoxes(c *lib.Ctx, w *world, cs caseT) {
	c.Count("kind_boxes")
	id := c.CaseNoModel(cs, cs.Where)
	c.PredChecked()
	kind := "boxes"
	if strings.Contains(cs.Where, "IN (") {
		kind = "boxes/in-list"
	}
	compareLookup(c, w, id, cs, kind, "gi", "gn", "pk, a, b", cs.Where, "")
}


// ---------- VARCHAR prefix index and DECIMAL index against an index-free twin ----------
var strLits = []string{"''", "'a'", "'ab'", "'abc'", "'abz'", "'ab '", "'b'", "'B'", "'c'", "'zz'", "NULL"}
var decLits = []string{"0", "1", "1.5", "1.50", "1.49", "1.505", "1.495", "2", "-1.25", "9999.99", "10000", "-10000", "1e2", "NULL"}

func genTypedLeaf(r *lib.RNG) string {
	if r.Chance(1, 2) {
		switch r.Intn(8) {
		case 0:
			return "s IS NULL"
		case 1:
			return "s IS NOT NULL"
		case 2:
			return fmt.Sprintf("s BETWEEN %s AND %s", lib.Pick(r, strLits), lib.Pick(r, strLits))
		case 3:
			return fmt.Sprintf("s IN (%s, %s)", lib.Pick(r, strLits), lib.Pick(r, strLits))
		case 4:
			return fmt.Sprintf("s LIKE %s", lib.Pick(r, []string{"'ab%'", "'a%'", "'%b'", "'ab_'", "'b%'"}))
		default:
			return fmt.Sprintf("s %s %s", lib.Pick(r, []string{"=", "<>", "<", "<=", ">", ">=", "<=>"}), lib.Pick(r, strLits))
		}
	}
	switch r.Intn(7) {
	case 0:
		return "d IS NULL"
	case 1:
		return fmt.Sprintf("d BETWEEN %s AND %s", lib.Pick(r, decLits), lib.Pick(r, decLits))
	case 2:
		return fmt.Sprintf("d IN (%s, %s)", lib.Pick(r, decLits), lib.Pick(r, decLits))
	case 3:
		return fmt.Sprintf("(d <= %s OR d IS NULL)", lib.Pick(r, decLits))
	default:
		return fmt.Sprintf("d %s %s", lib.Pick(r, []string{"=", "<>", "<", "<=", ">", ">=", "<=>"}), lib.Pick(r, decLits))
	}
}
func genTyped(r *lib.RNG, depth int) string {
	if depth > 0 && r.Chance(1, 2) {
		return "(" + genTyped(r, depth-1) + " " + lib.Pick(r, []string{"AND", "OR"}) + " " + genTyped(r, depth-1) + ")"
	}
	return genTypedLeaf(r)
}
func runTyped(c *lib.Ctx, w *world, cs caseT) {
	c.Count("kind_typed")
	id := c.CaseNoModel(cs, cs.Where)
	c.PredChecked()
	kind := "typed"
	hasS, hasD := strings.Contains(cs.Where, "s "), strings.Contains(cs.Where, "d ")
	switch {
	case hasS && hasD:
		kind = "typed/varchar-prefix+decimal"
	case hasS:
		kind = "typed/varchar-prefix"
	case hasD:
		kind = "typed/decimal"
	}
	if strings.Contains(cs.Where, "IN (") {
		kind += "/in-list"
	}
	if strings.Contains(cs.Where, "LIKE") {
		kind += "/like"
	}
	// the two known defect classes of the DECIMAL key path get their own, cause-based classes
	if strings.Contains(cs.Where, "10000") {
		kind = "typed/decimal-literal-outside-column-range"
	} else if strings.Contains(cs.Where, "d <> ") {
		kind = "typed/decimal-not-equals"
	}
	compareLookup(c, w, id, cs, kind, "si", "sn", "pk, s, d", cs.Where, "")
}

// ---------- DML between lookups: secondary indexes must follow rewrites of existing primary keys ----------
var dmlSeq int

func genDML(r *lib.RNG) caseT {
	v := func() string {
		if r.Chance(1, 8) {
			return "NULL"
		}
		return fmt.Sprint(r.Intn(5))
	}
	var cs caseT
	cs.Kind = "dml"
	npk := r.Range(3, 7)
	curA := map[int]string{} // best-effort view of column a per primary key, to aim lookups at the OLD value
	for pk := 1; pk <= npk; pk++ {
		a := v()
		curA[pk] = a
		cs.Rows = append(cs.Rows, fmt.Sprintf("(%d,%s,%s)", pk, a, v()))
	}
	lookup := func() string {
		switch r.Intn(5) {
		case 0:
			return fmt.Sprintf("?a = %d", r.Intn(5))
		case 1:
			return fmt.Sprintf("?a = %d AND b = %d", r.Intn(5), r.Intn(5))
		case 2:
			return fmt.Sprintf("?a >= %d", r.Intn(5))
		case 3:
			return "?a IS NULL"
		default:
			return fmt.Sprintf("?b = %d", r.Intn(5))
		}
	}
	n := r.Range(2, 6)
	for i := 0; i < n; i++ {
		pk := r.Range(1, npk+1)
		old, known := curA[pk]
		na := v()
		switch r.Intn(7) {
		case 0:
			cs.Stmts = append(cs.Stmts, fmt.Sprintf("UPDATE %%T SET a = %s WHERE pk = %d", na, pk))
			if known {
				curA[pk] = na
			}
		case 1:
			cs.Stmts = append(cs.Stmts, fmt.Sprintf("UPDATE %%T SET a = %s, b = %s WHERE pk = %d", na, v(), pk))
			if known {
				curA[pk] = na
			}
		case 2:
			cs.Stmts = append(cs.Stmts, fmt.Sprintf("REPLACE INTO %%T VALUES (%d,%s,%s)", pk, na, v()))
			curA[pk] = na
		case 3:
			ins := v()
			cs.Stmts = append(cs.Stmts, fmt.Sprintf("INSERT INTO %%T VALUES (%d,%s,%s) ON DUPLICATE KEY UPDATE a = %s", pk, ins, v(), na))
			if known {
				curA[pk] = na
			} else {
				curA[pk] = ins
			}
		case 4:
			cs.Stmts = append(cs.Stmts, fmt.Sprintf("INSERT INTO %%T VALUES (%d,%s,%s) ON DUPLICATE KEY UPDATE a = VALUES(a), b = b", pk, na, v()))
			curA[pk] = na
		case 5:
			cs.Stmts = append(cs.Stmts, fmt.Sprintf("DELETE FROM %%T WHERE pk = %d", pk))
			delete(curA, pk)
		default:
			cs.Stmts = append(cs.Stmts, fmt.Sprintf("UPDATE %%T SET b = %s WHERE a = %d", v(), r.Intn(5)))
		}
		if known && old != "NULL" {
			// the value the row had BEFORE the statement: a stale index entry would still find it
			cs.Stmts = append(cs.Stmts, "?a = "+old)
			if r.Chance(1, 2) {
				cs.Stmts = append(cs.Stmts, "?a = "+old+" AND b >= 0")
			}
		}
		cs.Stmts = append(cs.Stmts, lookup())
		if r.Chance(1, 2) {
			cs.Stmts = append(cs.Stmts, lookup())
		}
	}
	return cs
}

func runDML(c *lib.Ctx, w *world, cs caseT) {
	dmlSeq++
	ti, tn := fmt.Sprintf("di%d", dmlSeq), fmt.Sprintf("dn%d", dmlSeq)
	// the twin keeps the primary key (REPLACE / ON DUPLICATE KEY need it) but has no secondary index
	w.s.MustExec(
		"CREATE TABLE "+ti+" (pk INT PRIMARY KEY, a INT, b INT, KEY ia (a), KEY iab (a, b), KEY ib (b))",
		"CREATE TABLE "+tn+" (pk INT PRIMARY KEY, a INT, b INT)")
	defer w.s.MustExec("DROP TABLE "+ti, "DROP TABLE "+tn)
	for _, t := range []string{ti, tn} {
		w.s.MustExec("INSERT INTO " + t + " VALUES " + strings.Join(cs.Rows, ","))
	}
	c.Count("kind_dml")
	id := c.CaseNoModel(cs, fmt.Sprint(cs.Rows, cs.Stmts))
	c.PredChecked()
	last := "(initial rows)"
	for _, st := range cs.Stmts {
		if strings.HasPrefix(st, "?") {
			kind := "dml-lookup/after-" + strings.ToLower(strings.Fields(last)[0])
			if strings.Contains(last, "ON DUPLICATE") {
				kind = "dml-lookup/after-on-duplicate-key-update"
			}
			if !compareLookup(c, w, id, cs, kind, ti, tn, "pk, a, b", st[1:], "after `"+last+"`: ") {
				return
			}
			continue
		}
		ri := w.s.Query(strings.ReplaceAll(st, "%T", ti))
		rn := w.s.Query(strings.ReplaceAll(st, "%T", tn))
		last = strings.ReplaceAll(st, "%T", "t")
		c.Count("dml_stmt_" + strings.ToLower(strings.Fields(st)[0]))
		if (ri.Err != nil) != (rn.Err != nil) || ri.Panic != "" || rn.Panic != "" {
			c.PredFail(id, "dml/statement-outcome-differs/"+strings.ToLower(strings.Fields(st)[0]),
				fmt.Sprintf("`%s`: indexed err=%v twin err=%v", last, ri.Err, rn.Err), cs)
			return
		}
	}
}

var explainEvery = 25

func main() {
	lib.Main("C03", func(c *lib.Ctx) {
		c.Header = "From Coq Require Import List NArith ZArith.\nImport ListNotations.\nFrom GMS Require Import Range.Cut Range.C03IndexBuilder Range.C03Multi Range.C03Scan Corr.C03.\nOpen Scope N_scope."
		c.CaseType = "C03.case"
		c.MismatchFn = "C03.mismatches"
		c.SetRule("builder cases: 1-3 calls of Equals/NotEquals/GreaterThan/GreaterOrEqual/LessThan/LessOrEqual/IsNull/IsNotNull on INT index " +
			"column a with literals from {0,±1,2,3,5,-3, int32 bounds ±1, ±99999999999} as int64, integral decimal (x.00) or non-integral " +
			"decimal (scale 1-2); ranges compared with the model, membership of NULL/int32 bounds/literal neighbourhood compared with a big.Rat " +
			"evaluation. engine cases: WHERE trees of depth <= 2 over a (KEY), (b,c) (KEY), pk (PRIMARY) with =,<>,<,<=,>,>=,<=>,[NOT] IN,BETWEEN," +
			"IS [NOT] NULL,NOT(..) and the same literals (+NULL) on an indexed table and an index-free twin with identical 36 rows. " +
			"boxes cases: OR of 2-4 boxes (per-column =, BETWEEN, <, >=, half-open, IS NULL, IN) on KEY(a,b) of a dense 13x13 grid (NULL,0..11) vs an " +
			"index-free twin. dml cases: fresh table with KEY(a), KEY(a,b), KEY(b) vs a twin with only the primary key; 2-6 statements (UPDATE by pk / by a, " +
			"REPLACE, INSERT .. ON DUPLICATE KEY UPDATE, DELETE) each followed by 1-2 secondary-index lookups compared with the twin. " +
			"typed cases: WHERE trees over a VARCHAR(10) column with prefix index s(2), a DECIMAL(6,2) column with an index and KEY(d, s(3)) vs an index-free twin. " +
			"scan cases: filter lists through the analyzer hooks with arbitrary include sets. Non-trivial: every case; distinct = distinct op lists / WHERE texts / statement lists.")
		w := setup()
		if os.Getenv("C03_DEBUG") != "" {
			for _, q := range strings.Split(os.Getenv("C03_DEBUG"), ";") {
				r := w.s.Query("EXPLAIN PLAN SELECT pk, a, b, c FROM ti WHERE " + q)
				fmt.Println(q, "=>", r.Err)
				for _, row := range r.Rows {
					fmt.Println("   ", row[0])
				}
			}
		}
		run := func(cs caseT) {
			p, pv := lib.Recover(func() {
				switch cs.Kind {
				case "builder":
					runBuilder(c, w, cs)
				case "boxes":
					runBoxes(c, w, cs)
				case "infast":
					runInFast(c, w, cs)
				case "scan":
					runScan(c, w, cs)
				case "typed":
					runTyped(c, w, cs)
				case "dml":
					runDML(c, w, cs)
				default:
					runEngine(c, w, cs)
				}
			})
			if p {
				id := c.CaseNoModel(cs, "")
				c.PredFail(id, "driver-panic/"+cs.Kind, pv, cs)
			}
		}
		if c.ReplayFile != "" {
			var cs caseT
			lib.LoadReplay(c.ReplayFile, &cs)
			run(cs)
			return
		}
		corpus := []caseT{
			{Kind: "builder", Ops: []opT{{Op: "gt", N: 15, S: 1, Dec: true}}},
			{Kind: "builder", Ops: []opT{{Op: "le", N: 15, S: 1, Dec: true}, {Op: "ge", N: -5, S: 1, Dec: true}}},
			{Kind: "builder", Ops: []opT{{Op: "eq", N: 15, S: 1, Dec: true}}},
			{Kind: "builder", Ops: []opT{{Op: "ne", N: 2}, {Op: "ne", N: 3}}},
			{Kind: "builder", Ops: []opT{{Op: "gt", N: 2147483648}}},
			{Kind: "builder", Ops: []opT{{Op: "lt", N: -2147483649}}},
			{Kind: "builder", Ops: []opT{{Op: "ge", N: 21474836465, S: 1, Dec: true}}},
			{Kind: "builder", Ops: []opT{{Op: "null"}, {Op: "gt", N: 0}}},
			{Kind: "builder", K: 1, Ops: []opT{{Op: "in", Lits: []opT{{N: 15, S: 1, Dec: true}}}}},
			{Kind: "builder", K: 1, Ops: []opT{{Op: "in", Lits: []opT{{N: 2}, {N: 299, S: 2, Dec: true}, {N: 2147483648}}}, {Op: "notin", Lits: []opT{{N: 2}, {N: 5}}}}},
			{Kind: "builder", K: 2, Ops: []opT{{Op: "ne", N: 2}, {Op: "in", Col: 1, Lits: []opT{{N: 1}, {N: 3}, {N: 5}}}, {Op: "ne", N: 4}}},
			{Kind: "builder", K: 2, Ops: []opT{{Op: "ge", N: 1}, {Op: "le", N: 3}, {Op: "notin", Col: 1, Lits: []opT{{N: 0}, {N: 15, S: 1, Dec: true}}}}},
			{Kind: "builder", K: 2, Ops: []opT{{Op: "gt", Col: 1, N: 5}, {Op: "lt", Col: 1, N: 5}}},
			{Kind: "engine", Where: "a > 1.5"},
			{Kind: "engine", Where: "a BETWEEN 5 AND 3"},
			{Kind: "engine", Where: "(b = 1 AND c < 2.5) OR b IS NULL"},
			{Kind: "engine", Where: "a <= 2147483648"},
			{Kind: "engine", Where: "a NOT IN (1, NULL)"},
			{Kind: "engine", Where: "a <= 2 OR a IS NULL"},
			{Kind: "engine", Where: "a IS NULL OR NOT (a > 2)"},
			{Kind: "engine", Where: "(b <= 3 OR b IS NULL) AND c IS NOT NULL"},
			{Kind: "engine", Where: "a < 2 OR a IS NULL"},
			{Kind: "typed", Where: "d <> 1.49"},
			{Kind: "typed", Where: "d <= -10000"},
			{Kind: "typed", Where: "d IN (10000, 2)"},
			{Kind: "typed", Where: "s LIKE 'ab%' AND d >= 1.5"},
			{Kind: "typed", Where: "s = 'ab' OR s > 'b'"},
			{Kind: "infast", Ops: []opT{{Op: "in", Lits: []opT{{N: 15, S: 1, Dec: true}}}}},
			{Kind: "infast", Ops: []opT{{Op: "in", Lits: []opT{{N: 2147483648}, {N: 3}, {N: 300, S: 2, Dec: true}, {N: 1}}}}},
			{Kind: "boxes", Where: "(a BETWEEN 1 AND 10 AND b = 5) OR (a BETWEEN 3 AND 6 AND b BETWEEN 1 AND 9)"},
			{Kind: "boxes", Where: "(a BETWEEN 3 AND 6 AND b BETWEEN 1 AND 9) OR (a BETWEEN 1 AND 10 AND b = 5) OR (a IS NULL)"},
			{Kind: "boxes", Where: "(a = 2 AND b < 4) OR (a BETWEEN 0 AND 5 AND b BETWEEN 2 AND 3) OR (a >= 4 AND b >= 3)"},
			{Kind: "dml", Rows: []string{"(1,1,1)", "(2,2,2)"}, Stmts: []string{"UPDATE %T SET a = 3 WHERE pk = 1", "?a = 1", "?a = 3",
				"REPLACE INTO %T VALUES (2,4,4)", "?a = 2", "?a = 2 AND b = 2", "INSERT INTO %T VALUES (1,0,0) ON DUPLICATE KEY UPDATE a = 0", "?a = 3", "?a = 0"}},
		}
		for _, cs := range corpus {
			run(cs)
		}
		for i := len(corpus); i < c.N; i++ {
			r := c.R.Fork()
			switch k := r.Intn(10); {
			case k < 1:
				run(genInFast(r))
			case k < 3:
				run(genScan(r))
			case k < 5:
				run(genBuilder(r))
			case k < 6:
				run(caseT{Kind: "engine", Where: genPred(r, 2)})
			case k < 7:
				run(caseT{Kind: "typed", Where: genTyped(r, 2)})
			case k < 9:
				run(caseT{Kind: "boxes", Where: genBoxes(r)})
			default:
				run(genDML(r))
			}
		}
	})
}
