// Driver for C03 (index lookups vs filtered full scans).
//  (a) builder level: sql.MySQLIndexBuilder on an INT column index, sequences of Equals/NotEquals/GreaterThan/...
//      with integer, non-integral decimal and out-of-range literals; the resulting ranges are recorded for the
//      Coq model and point membership is compared with an independent evaluation of the filter (big.Rat).
//  (b) engine level: the same WHERE clause against an indexed table and an index-free twin with identical rows.
package main

import (
	"fmt"
	"os"
	"math/big"
	"sort"
	"strings"

	"github.com/cockroachdb/apd/v3"
	"github.com/dolthub/go-mysql-server/sql"
	"github.com/dolthub/go-mysql-server/sql/types"

	"verifharness/lib"
	"verifharness/lib/eng"
)

// ---------- builder level ----------
type opT struct {
	Op  string `json:"op"`  // eq ne gt ge lt le null notnull
	N   int64  `json:"n"`   // literal = N * 10^-S
	S   int    `json:"s"`   // 0 = integer literal (int64 key), >0 = decimal literal
	Dec bool   `json:"dec"` // pass the literal as *apd.Decimal even when S = 0
}
type caseT struct {
	Kind  string   `json:"kind"` // builder | engine
	Ops   []opT    `json:"ops,omitempty"`
	Where string   `json:"where,omitempty"`
}

var litBase = []int64{0, 1, -1, 2, 3, 5, -3, 2147483647, 2147483646, 2147483648, -2147483648, -2147483647, -2147483649, 99999999999, -99999999999}

func genLit(r *lib.RNG) (int64, int, bool) {
	b := lib.Pick(r, litBase)
	switch r.Intn(4) {
	case 0:
		return b, 0, false
	case 1:
		return b, 0, true
	default:
		s := r.Range(1, 2)
		p := int64(10)
		if s == 2 {
			p = 100
		}
		frac := int64(r.Intn(int(p)))
		if r.Chance(1, 3) {
			frac = 0 // integral decimal such as 2.00
		}
		if b < 0 {
			return b*p - frac, s, true
		}
		return b*p + frac, s, true
	}
}

var opNames = []string{"eq", "ne", "gt", "ge", "lt", "le", "null", "notnull"}

func genBuilder(r *lib.RNG) caseT {
	n := r.Range(1, 3)
	ops := make([]opT, n)
	for i := range ops {
		o := opT{Op: opNames[r.Intn(len(opNames))]}
		if r.Chance(1, 8) {
			o.Op = lib.Pick(r, []string{"null", "notnull"})
		} else if o.Op != "null" && o.Op != "notnull" {
			o.N, o.S, o.Dec = genLit(r)
		}
		ops[i] = o
	}
	return caseT{Kind: "builder", Ops: ops}
}

type world struct {
	e   *eng.E
	s   *eng.S
	idx sql.Index
}

var domainVals = []string{"NULL", "-2147483648", "-2147483647", "-3", "-1", "0", "1", "2", "3", "5", "2147483646", "2147483647"}

func setup() *world {
	e := eng.New("db")
	s := e.Session()
	s.MustExec(
		"CREATE TABLE ti (pk INT PRIMARY KEY, a INT, b INT, c INT, KEY ia (a), KEY ibc (b, c))",
		"CREATE TABLE tn (pk INT, a INT, b INT, c INT)")
	r := lib.NewRNG(12345)
	var rows []string
	pk := 0
	for _, a := range domainVals {
		for j := 0; j < 3; j++ {
			pk++
			rows = append(rows, fmt.Sprintf("(%d,%s,%s,%s)", pk, a, lib.Pick(r, domainVals), lib.Pick(r, domainVals)))
		}
	}
	for _, t := range []string{"ti", "tn"} {
		s.MustExec("INSERT INTO " + t + " VALUES " + strings.Join(rows, ","))
	}
	w := &world{e: e, s: s}
	db, err := e.Pro.Database(s.Ctx, "db")
	if err != nil {
		panic(err)
	}
	tbl, ok, err := db.GetTableInsensitive(s.Ctx, "ti")
	if err != nil || !ok {
		panic("no table ti")
	}
	idxs, err := tbl.(sql.IndexAddressable).GetIndexes(s.Ctx)
	if err != nil {
		panic(err)
	}
	for _, ix := range idxs {
		if strings.EqualFold(ix.ID(), "ia") {
			w.idx = ix
		}
	}
	if w.idx == nil {
		panic("index ia not found")
	}
	return w
}

func pow10(s int) int64 {
	p := int64(1)
	for i := 0; i < s; i++ {
		p *= 10
	}
	return p
}

// litKey builds the Go key value and key type the analyzer would pass.
func litKey(o opT) (interface{}, sql.Type) {
	if o.S == 0 && !o.Dec {
		return o.N, types.Int64
	}
	d := apd.New(o.N, int32(-o.S))
	return d, types.MustCreateDecimalType(20, uint8(o.S))
}

// independent evaluation of one comparison on a column value (nil = NULL): true iff the SQL result is TRUE
func opTrue(o opT, v *int64) bool {
	switch o.Op {
	case "null":
		return v == nil
	case "notnull":
		return v != nil
	}
	if v == nil {
		return false
	}
	lit := new(big.Rat).SetFrac(big.NewInt(o.N), big.NewInt(pow10(o.S)))
	c := new(big.Rat).SetInt64(*v).Cmp(lit)
	switch o.Op {
	case "eq":
		return c == 0
	case "ne":
		return c != 0
	case "gt":
		return c > 0
	case "ge":
		return c >= 0
	case "lt":
		return c < 0
	case "le":
		return c <= 0
	}
	panic("bad op")
}

// cut code / printing for one-column ranges with int64 keys
func coqCut(c sql.MySQLRangeCut) string {
	switch c := c.(type) {
	case sql.BelowNull:
		return "BelowNull"
	case sql.AboveNull:
		return "AboveNull"
	case sql.AboveAll:
		return "AboveAll"
	case sql.Below:
		return "(Below " + lib.CoqZ(toI64(c.Key)) + ")"
	case sql.Above:
		return "(Above " + lib.CoqZ(toI64(c.Key)) + ")"
	}
	panic(fmt.Sprintf("cut %T", c))
}
func toI64(v interface{}) int64 {
	switch v := v.(type) {
	case int32:
		return int64(v)
	case int64:
		return v
	case int:
		return int64(v)
	}
	panic(fmt.Sprintf("key %T", v))
}

// membership of a column value in a one-column range, from the cuts alone (independent of Compare)
func cutBelow(c sql.MySQLRangeCut, v *int64) bool {
	switch c := c.(type) {
	case sql.BelowNull:
		return true
	case sql.AboveNull:
		return v != nil
	case sql.AboveAll:
		return false
	case sql.Below:
		return v != nil && toI64(c.Key) <= *v
	case sql.Above:
		return v != nil && toI64(c.Key) < *v
	}
	return false
}
func rangesHave(rs sql.MySQLRangeCollection, v *int64) bool {
	for _, r := range rs {
		if len(r) == 1 && cutBelow(r[0].LowerBound, v) && !cutBelow(r[0].UpperBound, v) {
			return true
		}
	}
	return false
}

func coqOp(o opT) string {
	lit := fmt.Sprintf("(%s, %d%%nat)", lib.CoqZ(o.N), o.S)
	switch o.Op {
	case "eq":
		return "(OEq " + lit + ")"
	case "ne":
		return "(ONe " + lit + ")"
	case "gt":
		return "(OGt " + lit + ")"
	case "ge":
		return "(OGe " + lit + ")"
	case "lt":
		return "(OLt " + lit + ")"
	case "le":
		return "(OLe " + lit + ")"
	case "null":
		return "OIsNull"
	}
	return "OIsNotNull"
}

func opSig(o opT) string {
	k := "int"
	if o.S > 0 || o.Dec {
		k = "integral-decimal"
		if o.N%pow10(o.S) != 0 {
			k = "nonintegral-decimal"
		}
	}
	rng := "inrange"
	q := new(big.Rat).SetFrac(big.NewInt(o.N), big.NewInt(pow10(o.S)))
	if q.Cmp(big.NewRat(2147483647, 1)) > 0 {
		rng = "above-int32"
	} else if q.Cmp(big.NewRat(-2147483648, 1)) < 0 {
		rng = "below-int32"
	}
	if o.Op == "null" || o.Op == "notnull" {
		return o.Op
	}
	return o.Op + "/" + k + "/" + rng
}

func runBuilder(c *lib.Ctx, w *world, cs caseT) {
	ctx := w.s.Ctx
	b := sql.NewMySQLIndexBuilder(ctx, w.idx)
	for _, o := range cs.Ops {
		key, kt := litKey(o)
		switch o.Op {
		case "eq":
			b.Equals(ctx, "ti.a", kt, key)
		case "ne":
			b.NotEquals(ctx, "ti.a", kt, key)
		case "gt":
			b.GreaterThan(ctx, "ti.a", kt, key)
		case "ge":
			b.GreaterOrEqual(ctx, "ti.a", kt, key)
		case "lt":
			b.LessThan(ctx, "ti.a", kt, key)
		case "le":
			b.LessOrEqual(ctx, "ti.a", kt, key)
		case "null":
			b.IsNull(ctx, "ti.a")
		case "notnull":
			b.IsNotNull(ctx, "ti.a")
		}
	}
	_, buildErr := b.Build(ctx)
	rs := b.Ranges(ctx)
	c.Count("kind_builder")
	for _, o := range cs.Ops {
		c.Count("builder_op_" + opSig(o))
	}
	if buildErr != nil || rs == nil {
		id := c.CaseNoModel(cs, "")
		c.PredFail(id, "builder/error/"+opSig(cs.Ops[len(cs.Ops)-1]), fmt.Sprintf("builder returned an error for %+v: %v", cs.Ops, buildErr), cs)
		return
	}
	cols := make([]string, 0, len(rs))
	for _, r := range rs {
		if len(r) != 1 {
			panic("one-column range expected")
		}
		cols = append(cols, "(mkR "+coqCut(r[0].LowerBound)+" "+coqCut(r[0].UpperBound)+")")
	}
	term := lib.CoqTuple(lib.CoqListOf(cs.Ops, coqOp), lib.CoqList(cols))
	id := c.Case(term, cs, fmt.Sprint(cs.Ops))
	c.PredChecked()
	// candidate column values: NULL, int32 bounds, and the neighbourhood of every literal
	cand := map[int64]bool{-2147483648: true, 2147483647: true, 0: true}
	for _, o := range cs.Ops {
		q := o.N / pow10(o.S)
		for d := int64(-2); d <= 2; d++ {
			if v := q + d; v >= -2147483648 && v <= 2147483647 {
				cand[v] = true
			}
		}
	}
	check := func(v *int64) bool {
		want := true
		for _, o := range cs.Ops {
			want = want && opTrue(o, v)
		}
		if got := rangesHave(rs, v); got != want {
			vs := "NULL"
			if v != nil {
				vs = fmt.Sprint(*v)
			}
			kind := "lookup-misses-matching-row"
			if got {
				kind = "lookup-returns-nonmatching-row"
			}
			sigs := make([]string, len(cs.Ops))
			for i, o := range cs.Ops {
				sigs[i] = opSig(o)
			}
			c.PredFail(id, "builder/"+kind+"/"+strings.Join(sigs, "+"),
				fmt.Sprintf("ops %+v: ranges %v, column value %s: in ranges = %v, filter TRUE = %v", cs.Ops, rs, vs, got, want), cs)
			return false
		}
		return true
	}
	if !check(nil) {
		return
	}
	keys := make([]int64, 0, len(cand))
	for v := range cand {
		keys = append(keys, v)
	}
	sort.Slice(keys, func(i, j int) bool { return keys[i] < keys[j] })
	for _, v := range keys {
		v := v
		if !check(&v) {
			return
		}
	}
}

// ---------- engine level ----------
var engLits = []string{"0", "1", "-1", "2", "3", "5", "-3", "2147483647", "2147483646", "2147483648", "-2147483648", "-2147483649",
	"99999999999", "-99999999999", "1.5", "2.0", "-0.5", "2.99", "2147483646.5", "2147483647.5", "-2147483648.5", "NULL"}
var engCols = []string{"a", "b", "c", "pk"}

func genPred(r *lib.RNG, depth int) string {
	if depth > 0 && r.Chance(1, 2) {
		op := lib.Pick(r, []string{"AND", "OR"})
		return "(" + genPred(r, depth-1) + " " + op + " " + genPred(r, depth-1) + ")"
	}
	col := lib.Pick(r, engCols)
	if r.Chance(1, 6) {
		// a bound together with the NULL point of the same (nullable, indexed) column: ranges of the
		// "less-or-equal OR NULL" family; the table has rows exactly on the small integer bounds
		k := lib.Pick(r, []string{"0", "1", "2", "3", "5", "-1", "-3", "2147483646", "2.0", "1.5"})
		op := lib.Pick(r, []string{"<=", "<", ">=", ">", "="})
		neg := map[string]string{"<=": ">", "<": ">=", ">=": "<", ">": "<=", "=": "<>"}[op]
		switch r.Intn(4) {
		case 0:
			return fmt.Sprintf("(%s %s %s OR %s IS NULL)", col, op, k, col)
		case 1:
			return fmt.Sprintf("(%s IS NULL OR NOT (%s %s %s))", col, col, neg, k)
		case 2:
			return fmt.Sprintf("(%s IS NULL OR %s %s %s)", col, col, op, k)
		default:
			return fmt.Sprintf("(NOT (%s %s %s) OR %s IS NULL)", col, neg, k, col)
		}
	}
	switch r.Intn(10) {
	case 0:
		return col + " IS NULL"
	case 1:
		return col + " IS NOT NULL"
	case 2:
		return fmt.Sprintf("%s BETWEEN %s AND %s", col, lib.Pick(r, engLits), lib.Pick(r, engLits))
	case 3:
		n := r.Range(1, 3)
		ls := make([]string, n)
		for i := range ls {
			ls[i] = lib.Pick(r, engLits)
		}
		not := ""
		if r.Chance(1, 3) {
			not = "NOT "
		}
		return fmt.Sprintf("%s %sIN (%s)", col, not, strings.Join(ls, ", "))
	case 4:
		return fmt.Sprintf("NOT (%s %s %s)", col, lib.Pick(r, []string{"=", "<", ">", "<=", ">=", "<>"}), lib.Pick(r, engLits))
	default:
		return fmt.Sprintf("%s %s %s", col, lib.Pick(r, []string{"=", "<>", "<", "<=", ">", ">=", "<=>"}), lib.Pick(r, engLits))
	}
}

func runEngine(c *lib.Ctx, w *world, cs caseT) {
	qi := "SELECT pk, a, b, c FROM ti WHERE " + cs.Where
	qn := "SELECT pk, a, b, c FROM tn WHERE " + cs.Where
	ri := w.s.Query(qi)
	rn := w.s.Query(qn)
	c.Count("kind_engine")
	id := c.CaseNoModel(cs, cs.Where)
	c.PredChecked()
	shape := "and-or"
	if !strings.Contains(cs.Where, " AND ") && !strings.Contains(cs.Where, " OR ") {
		shape = "leaf"
	}
	for _, k := range []string{"BETWEEN", " IN ", "NOT IN", "IS NULL", "IS NOT NULL", "<=>", "NOT ("} {
		if strings.Contains(cs.Where, k) {
			shape += "/" + strings.ToLower(strings.TrimSpace(k))
		}
	}
	if strings.Contains(cs.Where, "IN (") {
		shape = "in-list" // IN lists take their own path through the index builder; keep their failures in one class
	}
	if ri.Panic != "" || rn.Panic != "" {
		c.PredFail(id, "engine/panic/"+shape, fmt.Sprintf("%s: panic indexed=%q scan=%q", cs.Where, ri.Panic, rn.Panic), cs)
		return
	}
	if (ri.Err != nil) != (rn.Err != nil) || (ri.Err != nil && eng.ErrKind(ri.Err) != eng.ErrKind(rn.Err)) {
		c.PredFail(id, "engine/error-differs/"+shape, fmt.Sprintf("%s: indexed err=%v scan err=%v", cs.Where, ri.Err, rn.Err), cs)
		return
	}
	if ri.Err != nil {
		c.Count("engine_both_error")
		return
	}
	bi, bn := eng.Bag(ri.Rows), eng.Bag(rn.Rows)
	if len(bi) > 0 {
		c.Count("engine_nonempty_result")
	}
	if strings.Join(bi, "|") != strings.Join(bn, "|") {
		c.PredFail(id, "engine/rows-differ/"+shape,
			fmt.Sprintf("WHERE %s: indexed table returns %d rows %v, index-free twin %d rows %v", cs.Where, len(bi), bi, len(bn), bn), cs)
	}
}

var explainEvery = 25

func main() {
	lib.Main("C03", func(c *lib.Ctx) {
		c.Header = "From Coq Require Import List NArith ZArith.\nImport ListNotations.\nFrom GMS Require Import Range.Cut Range.C03IndexBuilder Corr.C03.\nOpen Scope N_scope."
		c.CaseType = "C03.case"
		c.MismatchFn = "C03.mismatches"
		c.SetRule("builder cases: 1-3 calls of Equals/NotEquals/GreaterThan/GreaterOrEqual/LessThan/LessOrEqual/IsNull/IsNotNull on INT index " +
			"column a with literals from {0,±1,2,3,5,-3, int32 bounds ±1, ±99999999999} as int64, integral decimal (x.00) or non-integral " +
			"decimal (scale 1-2); ranges compared with the model, membership of NULL/int32 bounds/literal neighbourhood compared with a big.Rat " +
			"evaluation. engine cases: WHERE trees of depth <= 2 over a (KEY), (b,c) (KEY), pk (PRIMARY) with =,<>,<,<=,>,>=,<=>,[NOT] IN,BETWEEN," +
			"IS [NOT] NULL,NOT(..) and the same literals (+NULL) on an indexed table and an index-free twin with identical 36 rows. " +
			"Non-trivial: every case; distinct = distinct op lists / WHERE texts.")
		w := setup()
		if os.Getenv("C03_DEBUG") != "" {
			for _, q := range strings.Split(os.Getenv("C03_DEBUG"), ";") {
				r := w.s.Query("EXPLAIN PLAN SELECT pk, a, b, c FROM ti WHERE " + q)
				fmt.Println(q, "=>", r.Err)
				for _, row := range r.Rows {
					fmt.Println("   ", row[0])
				}
			}
		}
		run := func(cs caseT) {
			p, pv := lib.Recover(func() {
				if cs.Kind == "builder" {
					runBuilder(c, w, cs)
				} else {
					runEngine(c, w, cs)
				}
			})
			if p {
				id := c.CaseNoModel(cs, "")
				c.PredFail(id, "driver-panic/"+cs.Kind, pv, cs)
			}
		}
		if c.ReplayFile != "" {
			var cs caseT
			lib.LoadReplay(c.ReplayFile, &cs)
			run(cs)
			return
		}
		corpus := []caseT{
			{Kind: "builder", Ops: []opT{{Op: "gt", N: 15, S: 1, Dec: true}}},
			{Kind: "builder", Ops: []opT{{Op: "le", N: 15, S: 1, Dec: true}, {Op: "ge", N: -5, S: 1, Dec: true}}},
			{Kind: "builder", Ops: []opT{{Op: "eq", N: 15, S: 1, Dec: true}}},
			{Kind: "builder", Ops: []opT{{Op: "ne", N: 2}, {Op: "ne", N: 3}}},
			{Kind: "builder", Ops: []opT{{Op: "gt", N: 2147483648}}},
			{Kind: "builder", Ops: []opT{{Op: "lt", N: -2147483649}}},
			{Kind: "builder", Ops: []opT{{Op: "ge", N: 21474836465, S: 1, Dec: true}}},
			{Kind: "builder", Ops: []opT{{Op: "null"}, {Op: "gt", N: 0}}},
			{Kind: "engine", Where: "a > 1.5"},
			{Kind: "engine", Where: "a BETWEEN 5 AND 3"},
			{Kind: "engine", Where: "(b = 1 AND c < 2.5) OR b IS NULL"},
			{Kind: "engine", Where: "a <= 2147483648"},
			{Kind: "engine", Where: "a NOT IN (1, NULL)"},
			{Kind: "engine", Where: "a <= 2 OR a IS NULL"},
			{Kind: "engine", Where: "a IS NULL OR NOT (a > 2)"},
			{Kind: "engine", Where: "(b <= 3 OR b IS NULL) AND c IS NOT NULL"},
			{Kind: "engine", Where: "a < 2 OR a IS NULL"},
		}
		for _, cs := range corpus {
			run(cs)
		}
		for i := len(corpus); i < c.N; i++ {
			r := c.R.Fork()
			if r.Chance(1, 2) {
				run(genBuilder(r))
			} else {
				run(caseT{Kind: "engine", Where: genPred(r, 2)})
			}
		}
	})
}
