// scratch probe for C17 (removed after use): runs "s: SQL" lines from stdin on one engine
package main

import (
	"bufio"
	"fmt"
	"os"
	"strings"

	"verifharness/lib/eng"
)

func main() {
	e := eng.New("db")
	sess := map[string]*eng.S{}
	sc := bufio.NewScanner(os.Stdin)
	for sc.Scan() {
		line := strings.TrimSpace(sc.Text())
		if line == "" || strings.HasPrefix(line, "#") {
			fmt.Println(line)
			continue
		}
		if line == "---" {
			e = eng.New("db")
			sess = map[string]*eng.S{}
			fmt.Println("--- new engine")
			continue
		}
		i := strings.Index(line, ":")
		s, q := line[:i], strings.TrimSpace(line[i+1:])
		if sess[s] == nil {
			sess[s] = e.Session()
		}
		r := sess[s].Query(q)
		switch {
		case r.Panic != "":
			fmt.Printf("%s: %-50s PANIC %s\n", s, q, r.Panic)
		case r.Err != nil:
			fmt.Printf("%s: %-50s ERR[%s] %v\n", s, q, eng.ErrKind(r.Err), r.Err)
		default:
			fmt.Printf("%s: %-50s %v\n", s, q, eng.Rows(r.Rows))
		}
	}
}
