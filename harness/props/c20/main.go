// Driver for C20 (AUTO_INCREMENT values are unique, increasing and reported correctly).  Runs generated histories of
// INSERT / INSERT IGNORE (explicit, NULL, 0 and omitted ids), DELETE and ALTER TABLE ... AUTO_INCREMENT on one table
// through the real engine, records after every statement OkResult.InsertID, LAST_INSERT_ID(),
// Table.PeekNextAutoIncrementValue and the stored ids for the Coq model (Corr/C20.v), and evaluates the property on the
// implementation alone with an independent reference (MySQL's documented behaviour).
package main

import (
	"fmt"
	"sort"
	"strings"

	"github.com/dolthub/go-mysql-server/sql"
	"github.com/dolthub/go-mysql-server/sql/types"

	"verifharness/lib"
	"verifharness/lib/eng"
)

type Spec struct {
	Gen  bool   `json:"gen,omitempty"`  // NULL / 0 / column omitted
	Form string `json:"form,omitempty"` // "null" | "zero" (how a generated id is written)
	K    int64  `json:"k,omitempty"`    // explicit id (non-zero)
}

type Event struct {
	Kind  string `json:"kind"` // insert | ignore | delge | deleq | alter
	Specs []Spec `json:"specs,omitempty"`
	Omit  bool   `json:"omit,omitempty"` // INSERT INTO t (v) VALUES ...  (all ids generated)
	K     int64  `json:"k,omitempty"`
}

type caseT struct {
	Events []Event  `json:"events"`
	SQL    []string `json:"sql,omitempty"`
}

func coqSpec(s Spec) string {
	if s.Gen {
		return "None"
	}
	return "(Some " + lib.CoqZ(s.K) + ")"
}

func (e Event) Coq() string {
	switch e.Kind {
	case "insert":
		return "(EInsert false " + lib.CoqListOf(e.Specs, coqSpec) + ")"
	case "ignore":
		return "(EInsert true " + lib.CoqListOf(e.Specs, coqSpec) + ")"
	case "delge":
		return "(EDelGe " + lib.CoqZ(e.K) + ")"
	case "deleq":
		return "(EDelEq " + lib.CoqZ(e.K) + ")"
	case "alter":
		return "(EAlter " + lib.CoqZ(e.K) + ")"
	}
	panic("bad event")
}

func (e Event) SQL(serial *int64) string {
	switch e.Kind {
	case "insert", "ignore":
		var rows []string
		for _, s := range e.Specs {
			*serial++
			id := fmt.Sprintf("%d", s.K)
			if s.Gen {
				id = "NULL"
				if s.Form == "zero" {
					id = "0"
				}
			}
			if e.Omit {
				rows = append(rows, fmt.Sprintf("(%d)", *serial))
			} else {
				rows = append(rows, fmt.Sprintf("(%s,%d)", id, *serial))
			}
		}
		q := "INSERT "
		if e.Kind == "ignore" {
			q += "IGNORE "
		}
		if e.Omit {
			return q + "INTO t (v) VALUES " + strings.Join(rows, ",")
		}
		return q + "INTO t VALUES " + strings.Join(rows, ",")
	case "delge":
		return fmt.Sprintf("DELETE FROM t WHERE id >= %d", e.K)
	case "deleq":
		return fmt.Sprintf("DELETE FROM t WHERE id = %d", e.K)
	case "alter":
		return fmt.Sprintf("ALTER TABLE t AUTO_INCREMENT = %d", e.K)
	}
	panic("bad event")
}

func gen(r *lib.RNG) caseT {
	var c caseT
	n := r.Range(6, 14)
	hi := int64(0) // rough upper bound of the ids in use, to aim explicit values and deletes
	for i := 0; i < n; i++ {
		var e Event
		k := r.Intn(20)
		if i == 0 {
			k = 0
		}
		switch {
		case k < 11:
			e.Kind = "insert"
		case k < 14:
			e.Kind = "ignore"
		case k < 16:
			e.Kind = "delge"
			e.K = hi - int64(r.Intn(3))
		case k < 18:
			e.Kind = "deleq"
			e.K = 1 + int64(r.Intn(int(hi)+1))
		default:
			e.Kind = "alter"
			if r.Chance(1, 4) {
				e.K = 1 + int64(r.Intn(int(hi)+1)) // possibly below the current maximum
			} else {
				e.K = hi + 1 + int64(r.Intn(6))
				hi = e.K
			}
		}
		if e.Kind == "insert" || e.Kind == "ignore" {
			m := r.Range(1, 3)
			allGen := true
			for j := 0; j < m; j++ {
				var s Spec
				switch x := r.Intn(10); {
				case x < 5:
					s.Gen, s.Form = true, "null"
					if r.Chance(1, 4) {
						s.Form = "zero"
					}
					hi++
				case x < 9:
					s.K = 1 + int64(r.Intn(int(hi)+4))
					if s.K > hi {
						hi = s.K
					}
				default:
					s.K = -int64(r.Range(1, 3))
				}
				if !s.Gen {
					allGen = false
				}
				e.Specs = append(e.Specs, s)
			}
			if allGen && r.Chance(1, 3) {
				e.Omit = true
			}
		}
		c.Events = append(c.Events, e)
	}
	return c
}

// ---------- reference (MySQL's documented behaviour; a failed statement leaves no row and, as the engine's table data
// is restored, no counter change either) ----------
type ref struct {
	ctr    int64
	stored map[int64]bool
}

func (r *ref) max() int64 {
	m := int64(0)
	for k := range r.stored {
		if k > m {
			m = k
		}
	}
	return m
}

// insert returns (ok, ids given to the rows that were inserted (nil entry = skipped), first generated id or 0)
func (r *ref) insert(e Event) (bool, []*int64, int64) {
	ctr := r.ctr
	added := map[int64]bool{}
	out := make([]*int64, len(e.Specs))
	firstGen := int64(0)
	for i, s := range e.Specs {
		id := s.K
		if s.Gen {
			id = ctr
		}
		if r.stored[id] || added[id] {
			if e.Kind == "ignore" {
				continue
			}
			return false, nil, 0
		}
		added[id] = true
		v := id
		out[i] = &v
		if s.Gen && firstGen == 0 {
			firstGen = id
		}
		if id >= ctr {
			ctr = id + 1
		}
	}
	for k := range added {
		r.stored[k] = true
	}
	r.ctr = ctr
	return true, out, firstGen
}

func peek(s *eng.S) (uint64, error) {
	db, err := s.E.Pro.Database(s.Ctx, "db")
	if err != nil {
		return 0, err
	}
	tbl, ok, err := db.GetTableInsensitive(s.Ctx, "t")
	if err != nil || !ok {
		return 0, fmt.Errorf("table t not found: %v", err)
	}
	at, ok := tbl.(sql.AutoIncrementTable)
	if !ok {
		return 0, fmt.Errorf("%T is not an AutoIncrementTable", tbl)
	}
	return at.PeekNextAutoIncrementValue(s.Ctx)
}

func scalar(s *eng.S, q string) (int64, error) {
	r := s.Query(q)
	if r.Err != nil {
		return 0, r.Err
	}
	if len(r.Rows) != 1 || len(r.Rows[0]) != 1 {
		return 0, fmt.Errorf("%s: unexpected shape", q)
	}
	switch x := r.Rows[0][0].(type) {
	case int64:
		return x, nil
	case uint64:
		return int64(x), nil
	case int:
		return int64(x), nil
	}
	return 0, fmt.Errorf("%s: unexpected type %T", q, r.Rows[0][0])
}

var sigCount = map[string]int{}

func run(c *lib.Ctx, cs caseT) {
	e := eng.New("db")
	se := e.Session()
	create := "CREATE TABLE t (id BIGINT NOT NULL AUTO_INCREMENT PRIMARY KEY, v BIGINT)"
	se.MustExec(create)
	cs.SQL = []string{create}
	rf := &ref{ctr: 1, stored: map[int64]bool{}}
	var steps []string
	type pf struct{ sig, what string }
	var fails []pf
	serial := int64(0)
	prevLID := int64(0)
	floor := int64(0) // every generated id must exceed it: ids stored now or inserted since the last ALTER
	lowered := false  // an ALTER TABLE ... AUTO_INCREMENT = n with n <= max(id) happened
	interesting := false
	for _, ev := range cs.Events {
		before := serial
		q := ev.SQL(&serial)
		cs.SQL = append(cs.SQL, q)
		preMax := rf.max()
		res := se.Query(q)
		if res.Panic != "" {
			fails = append(fails, pf{"panic/" + ev.Kind, q + " panicked: " + res.Panic})
			break
		}
		succeeded := res.Err == nil
		if !succeeded && eng.ErrKind(res.Err) != "dup-key" {
			fails = append(fails, pf{"unexpected-error/" + ev.Kind + "/" + eng.ErrKind(res.Err), fmt.Sprintf("%s failed: %v", q, res.Err)})
			break
		}
		insertID := uint64(0)
		if succeeded && ev.Kind != "alter" {
			if okr, ok := res.Rows[0][0].(types.OkResult); ok {
				insertID = okr.InsertID
			}
		}
		lidNow, err1 := scalar(se, "SELECT LAST_INSERT_ID()")
		ctrNow, err2 := peek(se)
		sel := se.Query("SELECT id, v FROM t ORDER BY id")
		if err1 != nil || err2 != nil || sel.Err != nil {
			fails = append(fails, pf{"observe-failed", fmt.Sprint(err1, err2, sel.Err)})
			break
		}
		var ids []int64
		byV := map[int64]int64{}
		for _, r := range sel.Rows {
			ids = append(ids, r[0].(int64))
			if r[1] != nil {
				byV[r[1].(int64)] = r[0].(int64)
			}
		}
		sort.Slice(ids, func(i, j int) bool { return ids[i] < ids[j] })
		iidZ := fmt.Sprintf("%d%%Z", insertID)
		steps = append(steps, lib.CoqTuple(ev.Coq(), lib.CoqTuple(lib.CoqBool(succeeded), iidZ, lib.CoqZ(lidNow), fmt.Sprintf("%d%%Z", ctrNow), lib.CoqListOf(ids, lib.CoqZ))))
		c.Count("stmt_" + ev.Kind)

		// ---- property predicate on the implementation alone ----
		after := "other"
		if lowered {
			after = "after-alter-below-max"
		}
		where := fmt.Sprintf("%s (history: %s)", q, strings.Join(cs.SQL[1:len(cs.SQL)-1], "; "))
		switch ev.Kind {
		case "insert", "ignore":
			refOK, _, _ := rf.insert(ev)
			if succeeded != refOK {
				interesting = true
				if succeeded {
					fails = append(fails, pf{"insert-accepted-but-reference-rejects/" + after, where})
				} else {
					fails = append(fails, pf{"insert-rejected-but-reference-accepts/" + after, fmt.Sprintf("%s: %v", where, res.Err)})
				}
			}
			if !succeeded {
				interesting = true
				break
			}
			// the ids the engine gave to this statement's rows, in row order
			firstGen, firstInserted, skippedBefore, explicitBefore := int64(0), int64(0), false, false
			seenInserted := false
			for i, s := range ev.Specs {
				id, ok := byV[before+int64(i)+1]
				if !ok {
					if firstGen == 0 {
						skippedBefore = true
					}
					continue
				}
				if !seenInserted {
					seenInserted, firstInserted = true, id
				}
				if s.Gen {
					if id <= floor {
						interesting = true
						fails = append(fails, pf{"generated-id-not-above-ids-in-use/" + after,
							fmt.Sprintf("%s: generated id %d although %d was already in use", where, id, floor)})
					}
					if firstGen == 0 {
						firstGen = id
					}
				} else if firstGen == 0 {
					explicitBefore = true
				}
				if id > floor {
					floor = id
				}
			}
			_ = firstInserted
			if firstGen != 0 {
				if lidNow != firstGen {
					interesting = true
					sig := "last-insert-id-not-first-generated/" + after
					if ev.Kind == "ignore" && skippedBefore {
						sig = "last-insert-id-not-first-generated/ignore-skipped-a-row-before-it"
					}
					fails = append(fails, pf{sig, fmt.Sprintf("%s: LAST_INSERT_ID() = %d, first generated id = %d", where, lidNow, firstGen)})
				}
				if int64(insertID) != firstGen {
					interesting = true
					sig := "ok-insert-id-not-first-generated/" + after
					if explicitBefore {
						sig = "ok-insert-id-not-first-generated/explicit-id-row-before-it"
					}
					fails = append(fails, pf{sig, fmt.Sprintf("%s: OkResult.InsertID = %d, first generated id = %d", where, insertID, firstGen)})
				}
			} else if lidNow != prevLID {
				fails = append(fails, pf{"last-insert-id-changed-without-generated-value/" + ev.Kind + "/" + after, fmt.Sprintf("%s: LAST_INSERT_ID() %d -> %d", where, prevLID, lidNow)})
			}
		case "delge", "deleq":
			for k := range rf.stored {
				if (ev.Kind == "delge" && k >= ev.K) || (ev.Kind == "deleq" && k == ev.K) {
					delete(rf.stored, k)
				}
			}
			if lidNow != prevLID {
				fails = append(fails, pf{"last-insert-id-changed-without-generated-value/" + ev.Kind, fmt.Sprintf("%s: LAST_INSERT_ID() %d -> %d", where, prevLID, lidNow)})
			}
		case "alter":
			// MySQL: the counter cannot be set at or below the largest id in the table
			if ev.K <= preMax {
				lowered = true
				rf.ctr = preMax + 1
			} else {
				rf.ctr = ev.K
			}
			floor = preMax // an explicit reset: ids freed by earlier deletes may be handed out again
			if lidNow != prevLID {
				fails = append(fails, pf{"last-insert-id-changed-without-generated-value/alter", fmt.Sprintf("%s: LAST_INSERT_ID() %d -> %d", where, prevLID, lidNow)})
			}
		}
		if succeeded || (ev.Kind != "insert") {
			prevLID = lidNow
		} else {
			prevLID = lidNow // after a failed INSERT the value is unspecified: accept whatever it is now
		}
		// stored ids must be the reference's unless an earlier defect already made them diverge
		if !lowered {
			want := make([]int64, 0, len(rf.stored))
			for k := range rf.stored {
				want = append(want, k)
			}
			sort.Slice(want, func(i, j int) bool { return want[i] < want[j] })
			if fmt.Sprint(want) != fmt.Sprint(ids) {
				fails = append(fails, pf{"stored-ids-differ-from-reference/" + ev.Kind, fmt.Sprintf("%s: stored %v, reference %v", where, ids, want)})
			}
		}
	}
	key := ""
	if interesting {
		key = strings.Join(cs.SQL, ";")
	}
	id := c.Case(lib.CoqList(steps), cs, key)
	c.PredChecked()
	seen := map[string]bool{}
	for _, f := range fails {
		if !seen[f.sig] {
			seen[f.sig] = true
			if sigCount[f.sig] < 3 {
				c.PredFail(id, f.sig, f.what, cs)
			} else {
				c.Count("predicate_failure:" + f.sig)
			}
			sigCount[f.sig]++
		}
	}
}

func g(form string) Spec { return Spec{Gen: true, Form: form} }
func x(k int64) Spec     { return Spec{K: k} }

func corpus() []caseT {
	return []caseT{
		{Events: []Event{{Kind: "insert", Specs: []Spec{g("null"), g("null")}}, {Kind: "insert", Specs: []Spec{x(5), g("null")}},
			{Kind: "insert", Specs: []Spec{g("null"), g("null"), x(1)}}, {Kind: "insert", Specs: []Spec{g("null")}},
			{Kind: "ignore", Specs: []Spec{x(1), g("null"), x(20)}}, {Kind: "delge", K: 20}, {Kind: "insert", Specs: []Spec{g("zero")}},
			{Kind: "alter", K: 3}, {Kind: "insert", Specs: []Spec{g("null")}}, {Kind: "insert", Specs: []Spec{g("null")}},
			{Kind: "insert", Specs: []Spec{g("null")}}}},
		{Events: []Event{{Kind: "insert", Specs: []Spec{g("null"), g("null"), g("null")}, Omit: true}, {Kind: "delge", K: 3},
			{Kind: "insert", Specs: []Spec{g("null")}}, {Kind: "alter", K: 10}, {Kind: "insert", Specs: []Spec{g("null")}, Omit: true},
			{Kind: "deleq", K: 10}, {Kind: "insert", Specs: []Spec{x(-2), g("zero")}}, {Kind: "insert", Specs: []Spec{x(30)}},
			{Kind: "insert", Specs: []Spec{g("null")}}}},
	}
}

func main() {
	lib.Main("C20", func(c *lib.Ctx) {
		c.Header = "From Coq Require Import List ZArith.\nImport ListNotations.\nFrom GMS Require Import Store.C20AutoInc Corr.C20.\nOpen Scope N_scope."
		c.CaseType = "C20.case"
		c.MismatchFn = "C20.mismatches"
		c.SetRule("one table t(id BIGINT AUTO_INCREMENT PRIMARY KEY, v) per case, 6-14 statements: INSERT / INSERT IGNORE of 1-3 rows with " +
			"generated (NULL, 0, column omitted), explicit (near the current maximum, colliding or beyond) and negative ids, DELETE of the top " +
			"ids or of one id, ALTER TABLE AUTO_INCREMENT = n (1/4 of them at or below the maximum). A case is non-trivial when a statement " +
			"failed or disagreed with the reference; distinct = distinct SQL texts.")
		if c.ReplayFile != "" {
			var cs caseT
			lib.LoadReplay(c.ReplayFile, &cs)
			run(c, cs)
			return
		}
		cp := corpus()
		for _, cs := range cp {
			run(c, cs)
		}
		for i := len(cp); i < c.N; i++ {
			run(c, gen(c.R.Fork()))
		}
	})
}
