// Driver for C20 (AUTO_INCREMENT values are unique, increasing and reported correctly).  Runs generated histories of
// INSERT / INSERT IGNORE (explicit, NULL, 0 and omitted ids; rows may collide in a second unique column), DELETE and
// ALTER TABLE ... AUTO_INCREMENT on one table whose id column is TINYINT ... BIGINT UNSIGNED (histories also go to the
// type's maximum) through the real engine, records after every statement OkResult.InsertID, LAST_INSERT_ID(),
// Table.PeekNextAutoIncrementValue and the stored ids for the Coq model (Corr/C20.v), and evaluates the property on the
// implementation alone with an independent reference (MySQL's documented behaviour).
//
// Ids are handled as "virtual" int64 values: the real id x is x itself while small, and vmax - (tmax - x) near the top of
// a wide type (the generator only uses small ids and ids within a few steps of the type maximum), which keeps order and
// +1 steps; real decimal values appear only in the SQL text and in the Coq terms.
package main

import (
	"fmt"
	"math/big"
	"strings"

	"github.com/dolthub/go-mysql-server/sql"
	"github.com/dolthub/go-mysql-server/sql/types"

	"verifharness/lib"
	"verifharness/lib/eng"
)

type idType struct {
	SQL    string
	Max    string
	Signed bool
}

var idTypes = []idType{
	{"BIGINT", "9223372036854775807", true},
	{"BIGINT UNSIGNED", "18446744073709551615", false},
	{"TINYINT", "127", true},
	{"TINYINT UNSIGNED", "255", false},
	{"SMALLINT", "32767", true},
	{"INT UNSIGNED", "4294967295", false},
}

const smallLimit = int64(1) << 40
const vTop = int64(1) << 50

type dom struct {
	t    idType
	tmax *big.Int
	vmax int64
}

func newDom(t idType) dom {
	m, _ := new(big.Int).SetString(t.Max, 10)
	d := dom{t: t, tmax: m}
	if m.IsInt64() && m.Int64() < smallLimit {
		d.vmax = m.Int64()
	} else {
		d.vmax = vTop
	}
	return d
}

// real value of a virtual id, as a decimal string
func (d dom) real(v int64) string {
	if v < smallLimit {
		return fmt.Sprintf("%d", v)
	}
	return new(big.Int).Sub(d.tmax, big.NewInt(d.vmax-v)).String()
}

// virtual id of a real value
func (d dom) virt(x *big.Int) int64 {
	if x.IsInt64() && x.Int64() < smallLimit {
		return x.Int64()
	}
	return d.vmax - new(big.Int).Sub(d.tmax, x).Int64()
}

// value returned by the engine (intN / uintN); unsignedWrap: a uint64 that may be a wrapped negative int64
func (d dom) fromEngine(v interface{}, unsignedWrap bool) (*big.Int, error) {
	x, ok := new(big.Int).SetString(fmt.Sprint(v), 10)
	if !ok {
		return nil, fmt.Errorf("not an integer: %v (%T)", v, v)
	}
	if unsignedWrap && d.t.Signed && x.Cmp(new(big.Int).Lsh(big.NewInt(1), 63)) >= 0 {
		x.Sub(x, new(big.Int).Lsh(big.NewInt(1), 64))
	}
	return x, nil
}

type Spec struct {
	Gen  bool   `json:"gen,omitempty"`  // NULL / 0 / column omitted
	Form string `json:"form,omitempty"` // "null" | "zero"
	K    int64  `json:"k,omitempty"`    // explicit (virtual) id, non-zero
	U    int64  `json:"u"`              // value of the unique column u
}

type Event struct {
	Kind  string `json:"kind"` // insert | ignore | delge | deleq | alter
	Specs []Spec `json:"specs,omitempty"`
	Omit  bool   `json:"omit,omitempty"` // INSERT INTO t (u, v) VALUES ...  (all ids generated)
	K     int64  `json:"k,omitempty"`    // virtual
}

type caseT struct {
	Type   int      `json:"type"`
	Events []Event  `json:"events"`
	SQL    []string `json:"sql,omitempty"`
}

func coqZs(s string) string { return lib.CoqZStr(s) }

func (e Event) Coq(d dom, udup []bool) string {
	switch e.Kind {
	case "insert", "ignore":
		items := make([]string, len(e.Specs))
		for i, s := range e.Specs {
			id := "None"
			if !s.Gen {
				id = "(Some " + coqZs(d.real(s.K)) + ")"
			}
			items[i] = lib.CoqTuple(id, lib.CoqBool(udup[i]))
		}
		return fmt.Sprintf("(EInsert %s %s)", lib.CoqBool(e.Kind == "ignore"), lib.CoqList(items))
	case "delge":
		return "(EDelGe " + coqZs(d.real(e.K)) + ")"
	case "deleq":
		return "(EDelEq " + coqZs(d.real(e.K)) + ")"
	case "alter":
		return "(EAlter " + coqZs(d.real(e.K)) + ")"
	}
	panic("bad event")
}

func (e Event) SQL(d dom, serial *int64) string {
	switch e.Kind {
	case "insert", "ignore":
		var rows []string
		for _, s := range e.Specs {
			*serial++
			id := d.real(s.K)
			if s.Gen {
				id = "NULL"
				if s.Form == "zero" {
					id = "0"
				}
			}
			if e.Omit {
				rows = append(rows, fmt.Sprintf("(%d,%d)", s.U, *serial))
			} else {
				rows = append(rows, fmt.Sprintf("(%s,%d,%d)", id, s.U, *serial))
			}
		}
		q := "INSERT "
		if e.Kind == "ignore" {
			q += "IGNORE "
		}
		if e.Omit {
			return q + "INTO t (u, v) VALUES " + strings.Join(rows, ",")
		}
		return q + "INTO t VALUES " + strings.Join(rows, ",")
	case "delge":
		return "DELETE FROM t WHERE id >= " + d.real(e.K)
	case "deleq":
		return "DELETE FROM t WHERE id = " + d.real(e.K)
	case "alter":
		return "ALTER TABLE t AUTO_INCREMENT = " + d.real(e.K)
	}
	panic("bad event")
}

func gen(r *lib.RNG) caseT {
	c := caseT{Type: r.Intn(len(idTypes))}
	d := newDom(idTypes[c.Type])
	n := r.Range(6, 14)
	hi := int64(0) // rough upper bound of the ids in use
	clamp := func(v int64) int64 {
		if v > d.vmax {
			return d.vmax
		}
		if v >= smallLimit && v < d.vmax-1000 { // keep away from the gap of the virtual encoding
			return d.vmax - 3
		}
		return v
	}
	var us []int64
	nextU := int64(0)
	toTop := r.Chance(1, 3) // this history visits the type maximum
	for i := 0; i < n; i++ {
		var e Event
		k := r.Intn(20)
		if i == 0 {
			k = 0
		}
		switch {
		case k < 11:
			e.Kind = "insert"
		case k < 14:
			e.Kind = "ignore"
		case k < 16:
			e.Kind = "delge"
			e.K = clamp(hi - int64(r.Intn(3)))
		case k < 18:
			e.Kind = "deleq"
			if hi >= smallLimit {
				e.K = clamp(hi - int64(r.Intn(3)))
			} else {
				e.K = 1 + int64(r.Intn(int(hi)+1))
			}
		default:
			e.Kind = "alter"
			switch {
			case toTop && r.Chance(1, 2):
				e.K = d.vmax - int64(r.Intn(3))
				hi = e.K
			case r.Chance(1, 4) && hi < smallLimit:
				e.K = clamp(1 + int64(r.Intn(int(hi)+1))) // possibly below the current maximum
			default:
				e.K = clamp(hi + 1 + int64(r.Intn(6)))
				hi = e.K
			}
		}
		if e.Kind == "insert" || e.Kind == "ignore" {
			m := r.Range(1, 3)
			allGen := true
			used := map[int64]bool{}
			for j := 0; j < m; j++ {
				var s Spec
				switch x := r.Intn(10); {
				case x < 5:
					s.Gen, s.Form = true, "null"
					if r.Chance(1, 4) {
						s.Form = "zero"
					}
					hi = clamp(hi + 1)
				case x < 9:
					if toTop && r.Chance(1, 4) {
						s.K = d.vmax - int64(r.Intn(3))
					} else if hi >= smallLimit {
						s.K = clamp(hi - 2 + int64(r.Intn(4)))
					} else {
						s.K = clamp(1 + int64(r.Intn(int(hi)+4)))
					}
					if s.K > hi {
						hi = s.K
					}
				default:
					if d.t.Signed {
						s.K = -int64(r.Range(1, 3))
					} else {
						s.Gen, s.Form = true, "null"
						hi = clamp(hi + 1)
					}
				}
				if !s.Gen {
					allGen = false
				}
				// the unique column: mostly fresh, sometimes a value used by an earlier statement
				nextU++
				s.U = nextU
				if len(us) > 0 && r.Chance(1, 5) {
					if o := lib.Pick(r, us); !used[o] {
						s.U = o
						// a row that may be skipped as a duplicate in u does not carry an explicit id above the counter (Corr/C20.v: risky)
						if !s.Gen && s.K > 0 {
							s.K = 1 + int64(r.Intn(2))
						}
					}
				}
				used[s.U] = true
				e.Specs = append(e.Specs, s)
			}
			for _, s := range e.Specs {
				us = append(us, s.U)
			}
			if allGen && r.Chance(1, 3) {
				e.Omit = true
			}
		}
		c.Events = append(c.Events, e)
	}
	return c
}

// The predicate below needs no id counter of its own: which ids the engine generates is judged only by freshness (above
// every id in use), and whether a statement must fail only by what is independent of the counter (a duplicate explicit
// id, a duplicate u value, the type maximum being used up).

func peek(s *eng.S) (uint64, error) {
	db, err := s.E.Pro.Database(s.Ctx, "db")
	if err != nil {
		return 0, err
	}
	tbl, ok, err := db.GetTableInsensitive(s.Ctx, "t")
	if err != nil || !ok {
		return 0, fmt.Errorf("table t not found: %v", err)
	}
	at, ok := tbl.(sql.AutoIncrementTable)
	if !ok {
		return 0, fmt.Errorf("%T is not an AutoIncrementTable", tbl)
	}
	return at.PeekNextAutoIncrementValue(s.Ctx)
}

var sigCount = map[string]int{}

func run(c *lib.Ctx, cs caseT) {
	d := newDom(idTypes[cs.Type])
	e := eng.New("db")
	se := e.Session()
	create := "CREATE TABLE t (id " + d.t.SQL + " NOT NULL AUTO_INCREMENT PRIMARY KEY, u BIGINT, v BIGINT, UNIQUE KEY uu (u))"
	se.MustExec(create)
	cs.SQL = []string{create}
	preIDs := map[int64]bool{} // ids stored before the statement (observed)
	lowBound := int64(1)       // the id counter is at least this (ids stored so far, ALTER values); vmax + 1 = used up
	var steps []string
	type pf struct{ sig, what string }
	var fails []pf
	serial := int64(0)
	prevLID := int64(0)
	floor := int64(0) // every generated id must exceed it: ids stored now or inserted since the last ALTER
	lowered := false  // an ALTER TABLE ... AUTO_INCREMENT = n with n <= max(id) happened
	interesting := false
	storedU := map[int64]bool{}
	c.Count("id_type_" + strings.ReplaceAll(d.t.SQL, " ", "_"))
	for _, ev := range cs.Events {
		before := serial
		q := ev.SQL(d, &serial)
		cs.SQL = append(cs.SQL, q)
		preMax := int64(0)
		for k := range preIDs {
			if k > preMax {
				preMax = k
			}
		}
		exhausted := lowBound > d.vmax // the type maximum has been used
		udup := make([]bool, len(ev.Specs))
		for i, s := range ev.Specs {
			udup[i] = storedU[s.U]
		}
		res := se.Query(q)
		if res.Panic != "" {
			fails = append(fails, pf{"panic/" + ev.Kind, q + " panicked: " + res.Panic})
			break
		}
		succeeded := res.Err == nil
		if !succeeded && eng.ErrKind(res.Err) != "dup-key" {
			fails = append(fails, pf{"unexpected-error/" + ev.Kind + "/" + eng.ErrKind(res.Err), fmt.Sprintf("%s failed: %v", q, res.Err)})
			break
		}
		insertID := uint64(0)
		if succeeded && ev.Kind != "alter" {
			if okr, ok := res.Rows[0][0].(types.OkResult); ok {
				insertID = okr.InsertID
			}
		}
		lr := se.Query("SELECT LAST_INSERT_ID()")
		ctrNow, err2 := peek(se)
		sel := se.Query("SELECT id, u, v FROM t ORDER BY id")
		if lr.Err != nil || len(lr.Rows) != 1 || err2 != nil || sel.Err != nil {
			fails = append(fails, pf{"observe-failed", fmt.Sprint(lr.Err, err2, sel.Err)})
			break
		}
		lidBig, err := d.fromEngine(lr.Rows[0][0], true)
		if err != nil {
			fails = append(fails, pf{"observe-failed", err.Error()})
			break
		}
		lidNow := d.virt(lidBig)
		var ids []int64
		var idsReal []string
		byV := map[int64]int64{}
		storedU = map[int64]bool{}
		for _, r := range sel.Rows {
			x, err := d.fromEngine(r[0], false)
			if err != nil {
				fails = append(fails, pf{"observe-failed", err.Error()})
				break
			}
			ids = append(ids, d.virt(x))
			idsReal = append(idsReal, x.String())
			if r[2] != nil {
				byV[r[2].(int64)] = d.virt(x)
			}
			if r[1] != nil {
				storedU[r[1].(int64)] = true
			}
		}
		steps = append(steps, lib.CoqTuple(ev.Coq(d, udup), lib.CoqTuple(lib.CoqBool(succeeded), fmt.Sprintf("%d%%Z", insertID), coqZs(lidBig.String()),
			fmt.Sprintf("%d%%Z", ctrNow), lib.CoqListOf(idsReal, coqZs))))
		c.Count("stmt_" + ev.Kind)

		// ---- property predicate on the implementation alone ----
		after := "other"
		switch {
		case lowered:
			after = "after-alter-below-max"
		case exhausted:
			after = "at-type-maximum"
		}
		where := fmt.Sprintf("%s (table %s; history: %s)", q, create, strings.Join(cs.SQL[1:len(cs.SQL)-1], "; "))
		switch ev.Kind {
		case "insert", "ignore":
			// must the statement fail, whatever the counter is?  (plain INSERT: a duplicate explicit id or u value)
			mustFail, explicitClash := false, false
			seenK := map[int64]bool{}
			nGen := int64(0)
			for i, s := range ev.Specs {
				if s.Gen {
					nGen++
				}
				if udup[i] {
					mustFail = true
				}
				if !s.Gen {
					if preIDs[s.K] || seenK[s.K] {
						mustFail = true
					}
					seenK[s.K] = true
					if s.K > preMax {
						explicitClash = true // may coincide with an id generated in the same statement
					}
				}
			}
			if ev.Kind == "insert" {
				switch {
				case succeeded && mustFail:
					interesting = true
					fails = append(fails, pf{"insert-accepted-with-duplicate-id-or-unique-value/" + after, where})
				case !succeeded && !mustFail && !explicitClash && lowBound+nGen-1 <= d.vmax:
					// only generated ids can have collided: legitimate only when the ids up to the type maximum do not suffice
					interesting = true
					fails = append(fails, pf{"insert-of-generated-ids-rejected/" + after, fmt.Sprintf("%s: %v", where, res.Err)})
				}
			}
			if !succeeded {
				interesting = true
				break
			}
			// what happened to this statement's rows, in row order
			fgIdx := -1 // position of the first row whose id is to be generated (what the analyzer records)
			for i, s := range ev.Specs {
				if s.Gen {
					fgIdx = i
					break
				}
			}
			haveGen, firstGen := false, int64(0)
			explicitBefore := false // an explicit-id row was inserted before the first generated one
			skippedBeforeFg := false
			fgSkippedThenExplicit := false // row fgIdx was skipped and the next inserted row has an explicit id
			fgSkipped := false
			for i, s := range ev.Specs {
				id, ok := byV[before+int64(i)+1]
				if !ok {
					if fgIdx >= 0 && i < fgIdx {
						skippedBeforeFg = true
					}
					if i == fgIdx {
						fgSkipped = true
					}
					continue
				}
				if fgSkipped && i > fgIdx && !haveGen && !fgSkippedThenExplicit {
					fgSkippedThenExplicit = !s.Gen
					fgSkipped = false
				}
				if s.Gen {
					if id <= floor {
						interesting = true
						sig := "generated-id-not-above-ids-in-use/other"
						switch {
						case lowered:
							sig = "generated-id-not-above-ids-in-use/after-alter-below-max"
						case exhausted && id == d.vmax:
							sig = "generated-id-not-above-ids-in-use/reuses-the-type-maximum-after-delete"
						}
						fails = append(fails, pf{sig, fmt.Sprintf("%s: generated id %s although %s was already in use", where, d.real(id), d.real(floor))})
					}
					if !haveGen {
						haveGen, firstGen = true, id
					}
				} else if !haveGen {
					explicitBefore = true
				}
				if id > floor {
					floor = id
				}
			}
			cause := "other"
			switch {
			case ev.Kind == "ignore" && skippedBeforeFg:
				cause = "ignore-skipped-a-row-before-it"
			case ev.Kind == "ignore" && fgSkippedThenExplicit:
				cause = "ignore-first-generated-row-skipped-then-explicit-row"
			}
			if haveGen {
				if lidNow != firstGen {
					interesting = true
					fails = append(fails, pf{"last-insert-id-not-first-generated/" + cause,
						fmt.Sprintf("%s: LAST_INSERT_ID() = %s, first id generated by the statement = %s", where, lidBig.String(), d.real(firstGen))})
				}
				iid, _ := d.fromEngine(insertID, true)
				if d.virt(iid) != firstGen {
					interesting = true
					sig := "ok-insert-id-not-first-generated/" + after
					if explicitBefore {
						sig = "ok-insert-id-not-first-generated/explicit-id-row-before-it"
					}
					fails = append(fails, pf{sig, fmt.Sprintf("%s: OkResult.InsertID = %d, first id generated by the statement = %s", where, insertID, d.real(firstGen))})
				}
			} else if lidNow != prevLID {
				interesting = true
				fails = append(fails, pf{"last-insert-id-changed-without-generated-value/" + ev.Kind + "/" + cause,
					fmt.Sprintf("%s: LAST_INSERT_ID() %s -> %s although the statement generated no id", where, d.real(prevLID), lidBig.String())})
			}
		case "delge", "deleq":
			if lidNow != prevLID {
				fails = append(fails, pf{"last-insert-id-changed-without-generated-value/" + ev.Kind + "/other", fmt.Sprintf("%s: LAST_INSERT_ID() %s -> %s", where, d.real(prevLID), lidBig.String())})
			}
		case "alter":
			// MySQL: the counter cannot be set at or below the largest id in the table
			if ev.K <= preMax {
				lowered = true
				lowBound = preMax + 1
			} else {
				lowBound = ev.K
			}
			floor = preMax // an explicit reset: ids freed by earlier deletes may be handed out again
			if lidNow != prevLID {
				fails = append(fails, pf{"last-insert-id-changed-without-generated-value/alter/other", fmt.Sprintf("%s: LAST_INSERT_ID() %s -> %s", where, d.real(prevLID), lidBig.String())})
			}
		}
		prevLID = lidNow // after a failed INSERT the value is unspecified: accept whatever it is now
		preIDs = map[int64]bool{}
		for _, k := range ids {
			preIDs[k] = true
			if k+1 > lowBound {
				lowBound = k + 1
			}
		}
	}
	key := ""
	if interesting {
		key = strings.Join(cs.SQL, ";")
	}
	id := c.Case(lib.CoqTuple(coqZs(d.t.Max), lib.CoqList(steps)), cs, key)
	c.PredChecked()
	seen := map[string]bool{}
	for _, f := range fails {
		if !seen[f.sig] {
			seen[f.sig] = true
			if sigCount[f.sig] < 3 {
				c.PredFail(id, f.sig, f.what, cs)
			} else {
				c.Count("predicate_failure:" + f.sig)
			}
			sigCount[f.sig]++
		}
	}
}

func g(form string, u int64) Spec { return Spec{Gen: true, Form: form, U: u} }
func x(k, u int64) Spec           { return Spec{K: k, U: u} }

func corpus() []caseT {
	top := vTop
	return []caseT{
		{Type: 0, Events: []Event{{Kind: "insert", Specs: []Spec{g("null", 1), g("null", 2)}}, {Kind: "insert", Specs: []Spec{x(5, 3), g("null", 4)}},
			{Kind: "insert", Specs: []Spec{g("null", 5), g("null", 6), x(1, 7)}}, {Kind: "insert", Specs: []Spec{g("null", 8)}},
			{Kind: "ignore", Specs: []Spec{x(1, 9), g("null", 10), x(20, 11)}}, {Kind: "delge", K: 20}, {Kind: "insert", Specs: []Spec{g("zero", 12)}},
			{Kind: "alter", K: 3}, {Kind: "insert", Specs: []Spec{g("null", 13)}}, {Kind: "insert", Specs: []Spec{g("null", 14)}},
			{Kind: "insert", Specs: []Spec{g("null", 15)}}}},
		{Type: 0, Events: []Event{{Kind: "insert", Specs: []Spec{g("null", 1), g("null", 2), g("null", 3)}, Omit: true}, {Kind: "delge", K: 3},
			{Kind: "insert", Specs: []Spec{g("null", 4)}}, {Kind: "alter", K: 10}, {Kind: "insert", Specs: []Spec{g("null", 5)}, Omit: true},
			{Kind: "deleq", K: 10}, {Kind: "insert", Specs: []Spec{x(-2, 6), g("zero", 7)}}, {Kind: "insert", Specs: []Spec{x(30, 8)}},
			{Kind: "insert", Specs: []Spec{g("null", 9)}}}},
		// the first generated row of an INSERT IGNORE is skipped (duplicate in u), a later generated row is inserted
		{Type: 0, Events: []Event{{Kind: "insert", Specs: []Spec{g("null", 1)}}, {Kind: "ignore", Specs: []Spec{g("null", 1), g("null", 2), x(9, 3)}},
			{Kind: "ignore", Specs: []Spec{x(1, 4), g("null", 2), g("null", 5)}}, {Kind: "ignore", Specs: []Spec{g("null", 1), x(20, 6), g("null", 7)}}}},
		// BIGINT UNSIGNED up to 18446744073709551615: explicit maximum, then generated inserts; delete the maximum; again
		{Type: 1, Events: []Event{{Kind: "insert", Specs: []Spec{x(top-1, 1)}}, {Kind: "insert", Specs: []Spec{g("null", 2)}},
			{Kind: "insert", Specs: []Spec{g("null", 3)}}, {Kind: "insert", Specs: []Spec{g("null", 4), g("null", 5)}}, {Kind: "deleq", K: top},
			{Kind: "insert", Specs: []Spec{g("null", 6)}}, {Kind: "insert", Specs: []Spec{g("null", 7)}}, {Kind: "ignore", Specs: []Spec{g("null", 8), x(7, 9)}}}},
		{Type: 1, Events: []Event{{Kind: "insert", Specs: []Spec{g("null", 1)}}, {Kind: "alter", K: top}, {Kind: "insert", Specs: []Spec{g("null", 2)}},
			{Kind: "insert", Specs: []Spec{g("null", 3)}}, {Kind: "insert", Specs: []Spec{g("null", 4)}, Omit: true}}},
		{Type: 1, Events: []Event{{Kind: "insert", Specs: []Spec{x(top, 1)}}, {Kind: "insert", Specs: []Spec{g("null", 2)}}, {Kind: "delge", K: top},
			{Kind: "insert", Specs: []Spec{g("zero", 3), g("null", 4)}}}},
		// narrow types at their maxima
		{Type: 2, Events: []Event{{Kind: "alter", K: 126}, {Kind: "insert", Specs: []Spec{g("null", 1), g("null", 2)}}, {Kind: "insert", Specs: []Spec{g("null", 3)}},
			{Kind: "deleq", K: 127}, {Kind: "insert", Specs: []Spec{g("null", 4)}}, {Kind: "insert", Specs: []Spec{g("null", 5)}}}},
		{Type: 3, Events: []Event{{Kind: "insert", Specs: []Spec{x(255, 1)}}, {Kind: "insert", Specs: []Spec{g("null", 2)}}, {Kind: "insert", Specs: []Spec{x(254, 3)}}}},
		{Type: 0, Events: []Event{{Kind: "insert", Specs: []Spec{x(top, 1)}}, {Kind: "insert", Specs: []Spec{g("null", 2)}}, {Kind: "deleq", K: top},
			{Kind: "insert", Specs: []Spec{g("null", 3)}}}},
	}
}

func main() {
	lib.Main("C20", func(c *lib.Ctx) {
		c.Header = "From Coq Require Import List ZArith.\nImport ListNotations.\nFrom GMS Require Import Store.C20AutoInc Corr.C20.\nOpen Scope N_scope."
		c.CaseType = "C20.case"
		c.MismatchFn = "C20.mismatches"
		c.SetRule("one table t(id <TYPE> AUTO_INCREMENT PRIMARY KEY, u UNIQUE, v) per case, TYPE in BIGINT, BIGINT UNSIGNED, TINYINT [UNSIGNED], " +
			"SMALLINT, INT UNSIGNED; 6-14 statements: INSERT / INSERT IGNORE of 1-3 rows with generated (NULL, 0, column omitted), explicit " +
			"(near the current maximum, colliding or beyond, 1/3 of the histories also at the type's maximum) and negative ids, 1/5 of the rows " +
			"duplicate in u; DELETE of the top ids or of one id; ALTER TABLE AUTO_INCREMENT = n (also below MAX(id) and at the type maximum). " +
			"A case is non-trivial when a statement failed or disagreed with the reference; distinct = distinct SQL texts.")
		if c.ReplayFile != "" {
			var cs caseT
			lib.LoadReplay(c.ReplayFile, &cs)
			run(c, cs)
			return
		}
		cp := corpus()
		for _, cs := range cp {
			run(c, cs)
		}
		for i := len(cp); i < c.N; i++ {
			run(c, gen(c.R.Fork()))
		}
	})
}
