// Driver for C20 (AUTO_INCREMENT values are unique, increasing and reported correctly).  Runs generated histories of
// INSERT / INSERT IGNORE / REPLACE / INSERT ... ON DUPLICATE KEY UPDATE (explicit, NULL, 0 and omitted ids; rows may collide
// in a second unique column), DELETE, UPDATE of the id, ALTER TABLE ... AUTO_INCREMENT, SELECT LAST_INSERT_ID(n) and
// BEGIN / COMMIT / ROLLBACK issued by up to three sessions on one table whose id column is TINYINT ... BIGINT UNSIGNED
// (histories also go to the type's maximum) through the real engine, records after every statement OkResult.InsertID,
// LAST_INSERT_ID() of every session, Table.PeekNextAutoIncrementValue and the stored ids (as the acting session sees them)
// for the Coq model (Corr/C20.v), and evaluates the property on the implementation alone with an independent reference
// (MySQL's documented behaviour).
//
// Ids are handled as "virtual" int64 values: the real id x is x itself while small, and vmax - (tmax - x) near the top of
// a wide type (the generator only uses small ids and ids within a few steps of the type maximum), which keeps order and
// +1 steps; real decimal values appear only in the SQL text and in the Coq terms.
package main

import (
	"fmt"
	"math/big"
	"strings"

	"github.com/dolthub/go-mysql-server/sql"
	"github.com/dolthub/go-mysql-server/sql/types"

	"verifharness/lib"
	"verifharness/lib/eng"
)

type idType struct {
	SQL    string
	Max    string
	Signed bool
}

var idTypes = []idType{
	{"BIGINT", "9223372036854775807", true},
	{"BIGINT UNSIGNED", "18446744073709551615", false},
	{"TINYINT", "127", true},
	{"TINYINT UNSIGNED", "255", false},
	{"SMALLINT", "32767", true},
	{"INT UNSIGNED", "4294967295", false},
}

const smallLimit = int64(1) << 40
const vTop = int64(1) << 50

type dom struct {
	t    idType
	tmax *big.Int
	vmax int64
}

func newDom(t idType) dom {
	m, _ := new(big.Int).SetString(t.Max, 10)
	d := dom{t: t, tmax: m}
	if m.IsInt64() && m.Int64() < smallLimit {
		d.vmax = m.Int64()
	} else {
		d.vmax = vTop
	}
	return d
}

// real value of a virtual id, as a decimal string
func (d dom) real(v int64) string {
	if v < smallLimit {
		return fmt.Sprintf("%d", v)
	}
	return new(big.Int).Sub(d.tmax, big.NewInt(d.vmax-v)).String()
}

// virtual id of a real value
func (d dom) virt(x *big.Int) int64 {
	if x.IsInt64() && x.Int64() < smallLimit {
		return x.Int64()
	}
	return d.vmax - new(big.Int).Sub(d.tmax, x).Int64()
}

// value returned by the engine (intN / uintN); unsignedWrap: a uint64 that may be a wrapped negative int64
func (d dom) fromEngine(v interface{}, unsignedWrap bool) (*big.Int, error) {
	x, ok := new(big.Int).SetString(fmt.Sprint(v), 10)
	if !ok {
		return nil, fmt.Errorf("not an integer: %v (%T)", v, v)
	}
	if unsignedWrap && d.t.Signed && x.Cmp(new(big.Int).Lsh(big.NewInt(1), 63)) >= 0 {
		x.Sub(x, new(big.Int).Lsh(big.NewInt(1), 64))
	}
	return x, nil
}

type Spec struct {
	Gen  bool   `json:"gen,omitempty"`  // NULL / 0 / column omitted
	Form string `json:"form,omitempty"` // "null" | "zero"
	K    int64  `json:"k,omitempty"`    // explicit (virtual) id, non-zero
	U    int64  `json:"u"`              // value of the unique column u
}

type Event struct {
	Kind  string `json:"kind"` // insert | ignore | replace | odku | delge | deleq | alter | updid | setlid | begin | commit | rollback
	Specs []Spec `json:"specs,omitempty"`
	Omit  bool   `json:"omit,omitempty"` // INSERT INTO t (u, v) VALUES ...  (all ids generated)
	K     int64  `json:"k,omitempty"`    // virtual
	K2    int64  `json:"k2,omitempty"`   // updid: the new id (virtual)
	Act   string `json:"act,omitempty"`  // odku: setv | lid | add
	D     int64  `json:"d,omitempty"`    // odku add: id = id + d
	Sess  int    `json:"sess,omitempty"` // acting session
}

type caseT struct {
	Type   int      `json:"type"`
	NS     int      `json:"ns,omitempty"` // number of sessions (default 1)
	Events []Event  `json:"events"`
	SQL    []string `json:"sql,omitempty"`
}

func (e Event) insertLike() bool {
	return e.Kind == "insert" || e.Kind == "ignore" || e.Kind == "replace" || e.Kind == "odku"
}

func coqZs(s string) string { return lib.CoqZStr(s) }

func (e Event) Coq(d dom) string {
	stmt := func(ev string) string { return fmt.Sprintf("(WStmt %d%%nat %s)", e.Sess, ev) }
	switch e.Kind {
	case "insert", "ignore", "replace", "odku":
		items := make([]string, len(e.Specs))
		for i, s := range e.Specs {
			id := "None"
			if !s.Gen {
				id = "(Some " + coqZs(d.real(s.K)) + ")"
			}
			items[i] = lib.CoqTuple(id, lib.CoqZ(s.U))
		}
		mode := map[string]string{"insert": "MPlain", "ignore": "MIgnore", "replace": "MReplace"}[e.Kind]
		if e.Kind == "odku" {
			switch e.Act {
			case "lid":
				mode = "(MOdku OLid)"
			case "add":
				mode = "(MOdku (OAdd " + lib.CoqZ(e.D) + "))"
			default:
				mode = "(MOdku OSetV)"
			}
		}
		return stmt(fmt.Sprintf("(EInsert %s %s)", mode, lib.CoqList(items)))
	case "delge":
		return stmt("(EDelGe " + coqZs(d.real(e.K)) + ")")
	case "deleq":
		return stmt("(EDelEq " + coqZs(d.real(e.K)) + ")")
	case "alter":
		return stmt("(EAlter " + coqZs(d.real(e.K)) + ")")
	case "updid":
		return stmt("(EUpdId " + coqZs(d.real(e.K)) + " " + coqZs(d.real(e.K2)) + ")")
	case "setlid":
		return stmt("(ESetLid " + coqZs(d.real(e.K)) + ")")
	case "begin":
		return fmt.Sprintf("(WBegin %d%%nat)", e.Sess)
	case "commit":
		return fmt.Sprintf("(WCommit %d%%nat)", e.Sess)
	case "rollback":
		return fmt.Sprintf("(WRollback %d%%nat)", e.Sess)
	}
	panic("bad event")
}

func (e Event) SQL(d dom, serial *int64) string {
	switch e.Kind {
	case "insert", "ignore", "replace", "odku":
		var rows []string
		for _, s := range e.Specs {
			*serial++
			id := d.real(s.K)
			if s.Gen {
				id = "NULL"
				if s.Form == "zero" {
					id = "0"
				}
			}
			if e.Omit {
				rows = append(rows, fmt.Sprintf("(%d,%d)", s.U, *serial))
			} else {
				rows = append(rows, fmt.Sprintf("(%s,%d,%d)", id, s.U, *serial))
			}
		}
		q := "INSERT "
		switch e.Kind {
		case "ignore":
			q += "IGNORE "
		case "replace":
			q = "REPLACE "
		}
		tail := ""
		if e.Kind == "odku" {
			switch e.Act {
			case "lid":
				tail = " ON DUPLICATE KEY UPDATE id = LAST_INSERT_ID(id)"
			case "add":
				tail = fmt.Sprintf(" ON DUPLICATE KEY UPDATE id = id + %d", e.D)
				if e.D < 0 {
					tail = fmt.Sprintf(" ON DUPLICATE KEY UPDATE id = id - %d", -e.D)
				}
			default:
				tail = " ON DUPLICATE KEY UPDATE v = v"
			}
		}
		if e.Omit {
			return q + "INTO t (u, v) VALUES " + strings.Join(rows, ",") + tail
		}
		return q + "INTO t VALUES " + strings.Join(rows, ",") + tail
	case "updid":
		return "UPDATE t SET id = " + d.real(e.K2) + " WHERE id = " + d.real(e.K)
	case "setlid":
		return "SELECT LAST_INSERT_ID(" + d.real(e.K) + ")"
	case "begin":
		return "BEGIN"
	case "commit":
		return "COMMIT"
	case "rollback":
		return "ROLLBACK"
	case "delge":
		return "DELETE FROM t WHERE id >= " + d.real(e.K)
	case "deleq":
		return "DELETE FROM t WHERE id = " + d.real(e.K)
	case "alter":
		return "ALTER TABLE t AUTO_INCREMENT = " + d.real(e.K)
	}
	panic("bad event")
}

func gen(r *lib.RNG) caseT {
	c := caseT{Type: r.Intn(len(idTypes)), NS: 1}
	d := newDom(idTypes[c.Type])
	n := r.Range(6, 14)
	hi := int64(0) // rough upper bound of the ids in use
	clamp := func(v int64) int64 {
		if v > d.vmax {
			return d.vmax
		}
		if v >= smallLimit && v < d.vmax-1000 { // keep away from the gap of the virtual encoding
			return d.vmax - 3
		}
		return v
	}
	var us []int64
	nextU := int64(0)
	toTop := r.Chance(1, 3) // this history visits the type maximum
	// extended statements (UPDATE of the id, ODKU id = ..., LAST_INSERT_ID(n), several sessions, transactions) stay on small ids
	ext := !toTop && r.Chance(3, 5)
	txAllowed := false
	if ext {
		switch x := r.Intn(20); {
		case x < 10:
			c.NS = 1
		case x < 17:
			c.NS = 2
		default:
			c.NS = 3
		}
		txAllowed = r.Chance(2, 5)
	}
	inTx := make([]bool, c.NS)
	for i := 0; i < n; i++ {
		var e Event
		e.Sess = r.Intn(c.NS)
		k := r.Intn(30)
		if i == 0 {
			k = 0
		}
		switch {
		case k < 10:
			e.Kind = "insert"
		case k < 13:
			e.Kind = "ignore"
		case k < 16:
			e.Kind = "replace"
		case k < 19:
			e.Kind = "odku"
			e.Act = "setv"
			if ext {
				switch x := r.Intn(10); {
				case x < 2:
					e.Act = "lid"
				case x < 4 && hi < 100:
					e.Act = "add"
					e.D = int64(r.Range(1, 4))
					if d.t.Signed && r.Chance(1, 2) {
						e.D = -int64(r.Range(1, 3))
					}
				}
			}
		case k < 21:
			e.Kind = "delge"
			e.K = clamp(hi - int64(r.Intn(3)))
		case k < 23:
			e.Kind = "deleq"
			if hi >= smallLimit {
				e.K = clamp(hi - int64(r.Intn(3)))
			} else {
				e.K = 1 + int64(r.Intn(int(hi)+1))
			}
		case k < 25:
			e.Kind = "alter"
			switch {
			case toTop && r.Chance(1, 2):
				e.K = d.vmax - int64(r.Intn(3))
				hi = e.K
			case r.Chance(1, 4) && hi < smallLimit:
				e.K = clamp(1 + int64(r.Intn(int(hi)+1))) // possibly below the current maximum
			default:
				e.K = clamp(hi + 1 + int64(r.Intn(6)))
				hi = e.K
			}
			if inTx[e.Sess] { // DDL inside a transaction is outside the fragment
				e = Event{Kind: "insert", Sess: e.Sess}
			}
		case k < 27 && ext && hi < 100:
			e.Kind = "updid"
			e.K = 1 + int64(r.Intn(int(hi)+1))
			if r.Chance(1, 4) {
				e.K2 = hi + int64(r.Range(1, 3)) // at or above the counter
				hi = e.K2
			} else {
				e.K2 = 1 + int64(r.Intn(int(hi)+1))
			}
		case k < 28 && ext:
			e.Kind = "setlid"
			e.K = int64(r.Range(1, 90))
		case k < 30 && txAllowed:
			switch {
			case !inTx[e.Sess]:
				e.Kind = "begin"
				inTx[e.Sess] = true
			case r.Chance(3, 5):
				e.Kind = "commit"
				inTx[e.Sess] = false
			default:
				e.Kind = "rollback"
				inTx[e.Sess] = false
			}
		default:
			e.Kind = "insert"
		}
		if e.insertLike() {
			m := r.Range(1, 3)
			allGen := true
			used := map[int64]bool{}
			for j := 0; j < m; j++ {
				var s Spec
				switch x := r.Intn(10); {
				case x < 5:
					s.Gen, s.Form = true, "null"
					if r.Chance(1, 4) {
						s.Form = "zero"
					}
					hi = clamp(hi + 1)
				case x < 9:
					if toTop && r.Chance(1, 4) {
						s.K = d.vmax - int64(r.Intn(3))
					} else if hi >= smallLimit {
						s.K = clamp(hi - 2 + int64(r.Intn(4)))
					} else {
						s.K = clamp(1 + int64(r.Intn(int(hi)+4)))
					}
					if s.K > hi {
						hi = s.K
					}
				default:
					if d.t.Signed {
						s.K = -int64(r.Range(1, 3))
					} else {
						s.Gen, s.Form = true, "null"
						hi = clamp(hi + 1)
					}
				}
				if !s.Gen {
					allGen = false
				}
				// the unique column: mostly fresh, sometimes a value used by an earlier statement (pairwise different
				// within one statement)
				nextU++
				s.U = nextU
				if len(us) > 0 && r.Chance(1, 4) {
					if o := lib.Pick(r, us); !used[o] {
						s.U = o
					}
				}
				used[s.U] = true
				e.Specs = append(e.Specs, s)
			}
			for _, s := range e.Specs {
				us = append(us, s.U)
			}
			if allGen && r.Chance(1, 3) {
				e.Omit = true
			}
		}
		c.Events = append(c.Events, e)
	}
	return c
}

// The predicate below needs no id counter of its own: which ids the engine generates is judged only by freshness (above
// every id in use, equal to no stored id), and whether a statement must fail only by what is independent of the counter
// (a duplicate explicit id, a duplicate u value, the type maximum being used up).

func peek(s *eng.S) (uint64, error) {
	db, err := s.E.Pro.Database(s.Ctx, "db")
	if err != nil {
		return 0, err
	}
	tbl, ok, err := db.GetTableInsensitive(s.Ctx, "t")
	if err != nil || !ok {
		return 0, fmt.Errorf("table t not found: %v", err)
	}
	at, ok := tbl.(sql.AutoIncrementTable)
	if !ok {
		return 0, fmt.Errorf("%T is not an AutoIncrementTable", tbl)
	}
	return at.PeekNextAutoIncrementValue(s.Ctx)
}

var sigCount = map[string]int{}

func run(c *lib.Ctx, cs caseT) {
	d := newDom(idTypes[cs.Type])
	e := eng.New("db")
	if cs.NS < 1 {
		cs.NS = 1
	}
	sess := make([]*eng.S, cs.NS)
	for i := range sess {
		sess[i] = e.Session()
	}
	create := "CREATE TABLE t (id " + d.t.SQL + " NOT NULL AUTO_INCREMENT PRIMARY KEY, u BIGINT, v BIGINT, UNIQUE KEY uu (u))"
	sess[0].MustExec(create)
	cs.SQL = []string{create}
	lowBound := int64(1) // the id counter is at least this (ids stored so far, ALTER values); vmax + 1 = used up
	ctrUpper := int64(1) // ... and at most this: 1 + every id ever stored, every explicit id ever attempted (a skipped or failed
	// row raises the counter too: gaps are legal), every ALTER value
	var steps []string
	type pf struct{ sig, what string }
	var fails []pf
	serial := int64(0)
	prevLID := make([]int64, cs.NS)
	floor := int64(0)      // every generated id must exceed it: ids stored now or inserted since the last ALTER (committed)
	lowered := false       // an ALTER TABLE ... AUTO_INCREMENT = n with n <= max(id) happened
	updatedAbove := false  // an UPDATE (plain or ODKU id = id + d) produced an id above every id ever inserted
	overwritten := false   // a COMMIT stored a transaction's copy over what other sessions had committed meanwhile
	maxInserted := int64(0) // largest id ever inserted or named by ALTER
	dbVersion := 0
	inTx := make([]bool, cs.NS)
	txFloor := make([]int64, cs.NS)
	txVersion := make([]int, cs.NS)
	txGens := make([][]int64, cs.NS)
	interesting := false
	c.Count("id_type_" + strings.ReplaceAll(d.t.SQL, " ", "_"))
	c.Count(fmt.Sprintf("sessions_%d", cs.NS))
	for _, ev := range cs.Events {
		if ev.Sess < 0 || ev.Sess >= cs.NS {
			ev.Sess = 0
		}
		se := sess[ev.Sess]
		before := serial
		q := ev.SQL(d, &serial)
		label := q
		if cs.NS > 1 {
			label = fmt.Sprintf("[session %d] %s", ev.Sess, q)
		}
		cs.SQL = append(cs.SQL, label)
		// what the acting session sees before the statement
		pre := se.Query("SELECT id, u FROM t")
		if pre.Err != nil {
			fails = append(fails, pf{"observe-failed", fmt.Sprint(pre.Err)})
			break
		}
		preIDs := map[int64]bool{}
		storedU := map[int64]int64{}
		preMax := int64(0)
		for _, r := range pre.Rows {
			x, err := d.fromEngine(r[0], false)
			if err != nil {
				continue
			}
			k := d.virt(x)
			preIDs[k] = true
			if k > preMax {
				preMax = k
			}
			if k+1 > lowBound {
				lowBound = k + 1
			}
			if r[1] != nil {
				storedU[r[1].(int64)] = k
			}
		}
		for _, sp := range ev.Specs {
			if !sp.Gen && sp.K+1 > ctrUpper {
				ctrUpper = sp.K + 1
			}
		}
		if lowBound > ctrUpper {
			ctrUpper = lowBound
		}
		exhausted := ctrUpper > d.vmax // the counter may have reached the type maximum
		fl := &floor
		if inTx[ev.Sess] {
			fl = &txFloor[ev.Sess]
		}
		res := se.Query(q)
		if res.Panic != "" {
			fails = append(fails, pf{"panic/" + ev.Kind, q + " panicked: " + res.Panic})
			break
		}
		succeeded := res.Err == nil
		if !succeeded && eng.ErrKind(res.Err) != "dup-key" {
			fails = append(fails, pf{"unexpected-error/" + ev.Kind + "/" + eng.ErrKind(res.Err), fmt.Sprintf("%s failed: %v", q, res.Err)})
			break
		}
		insertID := uint64(0)
		if succeeded && len(res.Rows) > 0 && len(res.Rows[0]) > 0 {
			if okr, ok := res.Rows[0][0].(types.OkResult); ok {
				insertID = okr.InsertID
			}
		}
		lids := make([]*big.Int, cs.NS)
		var obsErr error
		for i, s2 := range sess {
			lr := s2.Query("SELECT LAST_INSERT_ID()")
			if lr.Err != nil || len(lr.Rows) != 1 {
				obsErr = fmt.Errorf("LAST_INSERT_ID(): %v", lr.Err)
				break
			}
			if lids[i], obsErr = d.fromEngine(lr.Rows[0][0], true); obsErr != nil {
				break
			}
		}
		ctrNow, err2 := peek(se)
		sel := se.Query("SELECT id, u, v FROM t ORDER BY id")
		if obsErr != nil || err2 != nil || sel.Err != nil {
			fails = append(fails, pf{"observe-failed", fmt.Sprint(obsErr, err2, sel.Err)})
			break
		}
		lidBig := lids[ev.Sess]
		lidNow := d.virt(lidBig)
		var ids []int64
		var idsReal []string
		byV := map[int64]int64{}
		for _, r := range sel.Rows {
			x, err := d.fromEngine(r[0], false)
			if err != nil {
				fails = append(fails, pf{"observe-failed", err.Error()})
				break
			}
			ids = append(ids, d.virt(x))
			idsReal = append(idsReal, x.String())
			if r[2] != nil {
				byV[r[2].(int64)] = d.virt(x)
			}
		}
		lidStrs := make([]string, len(lids))
		for i, l := range lids {
			lidStrs[i] = coqZs(l.String())
		}
		steps = append(steps, lib.CoqTuple(ev.Coq(d), lib.CoqTuple(lib.CoqBool(succeeded), fmt.Sprintf("%d%%Z", insertID), lib.CoqList(lidStrs),
			fmt.Sprintf("%d%%Z", ctrNow), lib.CoqListOf(idsReal, coqZs))))
		c.Count("stmt_" + ev.Kind)
		if ev.Kind == "odku" {
			c.Count("odku_" + ev.Act)
		}
		if inTx[ev.Sess] && ev.insertLike() {
			c.Count("stmt_in_transaction")
		}

		// ---- property predicate on the implementation alone ----
		after := "other"
		switch {
		case lowered:
			after = "after-alter-below-max"
		case exhausted:
			after = "at-type-maximum"
		case overwritten:
			after = "after-commit-overwrote-other-sessions"
		case updatedAbove:
			after = "after-update-above-counter"
		}
		where := fmt.Sprintf("%s (table %s; history: %s)", label, create, strings.Join(cs.SQL[1:len(cs.SQL)-1], "; "))
		// LAST_INSERT_ID() is per session: no statement changes the value of another session
		for i := range sess {
			if i != ev.Sess && d.virt(lids[i]) != prevLID[i] {
				fails = append(fails, pf{"last-insert-id-of-another-session-changed/" + ev.Kind,
					fmt.Sprintf("%s: LAST_INSERT_ID() of session %d went %s -> %s", where, i, d.real(prevLID[i]), lids[i].String())})
			}
		}
		unchangedLID := func() {
			if lidNow != prevLID[ev.Sess] {
				fails = append(fails, pf{"last-insert-id-changed-without-generated-value/" + ev.Kind + "/other",
					fmt.Sprintf("%s: LAST_INSERT_ID() %s -> %s", where, d.real(prevLID[ev.Sess]), lidBig.String())})
			}
		}
		switch ev.Kind {
		case "insert", "ignore", "replace", "odku":
			// must the statement fail, whatever the counter is?  (plain INSERT: a duplicate explicit id or u value)
			mustFail, explicitClash := false, false
			seenK := map[int64]bool{}
			nGen := int64(0)
			for _, s := range ev.Specs {
				if s.Gen {
					nGen++
				}
				if _, dup := storedU[s.U]; dup {
					mustFail = true
				}
				if !s.Gen {
					if preIDs[s.K] || seenK[s.K] {
						mustFail = true
					}
					seenK[s.K] = true
					if s.K > preMax {
						explicitClash = true // may coincide with an id generated in the same statement
					}
				}
			}
			switch ev.Kind {
			case "insert":
				switch {
				case succeeded && mustFail:
					interesting = true
					fails = append(fails, pf{"insert-accepted-with-duplicate-id-or-unique-value/" + after, where})
				case !succeeded && !mustFail && !explicitClash && ctrUpper+nGen-1 <= d.vmax:
					// only generated ids can have collided: legitimate only when the ids up to the type maximum do not suffice
					interesting = true
					if updatedAbove && !lowered {
						// an UPDATE put an id at or above the counter; whether the counter must follow is not part of the property
						c.Count("tolerated:generated-insert-rejected-after-update-above-counter")
					} else {
						fails = append(fails, pf{"insert-of-generated-ids-rejected/" + after, fmt.Sprintf("%s: %v", where, res.Err)})
					}
				}
			case "replace":
				if !succeeded {
					fails = append(fails, pf{"replace-rejected/" + after, fmt.Sprintf("%s: %v", where, res.Err)})
				}
			case "odku":
				if !succeeded && ev.Act != "add" { // id = id + d may legally hit a stored id
					fails = append(fails, pf{"odku-rejected/" + after, fmt.Sprintf("%s: %v", where, res.Err)})
				}
			}
			if !succeeded {
				interesting = true
				break
			}
			if ev.Kind == "odku" && ev.Act == "add" && (explicitClash || lowered || updatedAbove || len(seenK) < len(ev.Specs)-int(nGen)) {
				// id = id + d may have moved a row inserted by this very statement: its rows cannot be told apart by
				// observation; not judged (the comparison with the model still covers it)
				c.Count("not-judged:odku-add-may-move-own-rows")
				if ev.D > 0 {
					updatedAbove = true
				}
				break
			}
			// what happened to this statement's rows, in row order
			fgIdx := -1 // position of the first row whose id is to be generated (what the analyzer records)
			for i, s := range ev.Specs {
				if s.Gen {
					fgIdx = i
					break
				}
			}
			haveGen, firstGen := false, int64(0)
			explicitBefore := false // an explicit-id row was inserted before the first generated one
			skippedBeforeFg := false
			fgSkippedThenExplicit := false // row fgIdx was skipped and the next inserted row has an explicit id
			fgSkipped := false
			anyNotInserted := false
			for i, s := range ev.Specs {
				id, ok := byV[before+int64(i)+1]
				if !ok {
					anyNotInserted = true
					if fgIdx >= 0 && i < fgIdx {
						skippedBeforeFg = true
					}
					if i == fgIdx {
						fgSkipped = true
					}
					continue
				}
				if fgSkipped && i > fgIdx && !haveGen && !fgSkippedThenExplicit {
					fgSkippedThenExplicit = !s.Gen
					fgSkipped = false
				}
				if s.Gen {
					if id <= *fl || preIDs[id] {
						interesting = true
						sig := "generated-id-not-above-ids-in-use/other"
						switch {
						case lowered:
							sig = "generated-id-not-above-ids-in-use/after-alter-below-max"
						case exhausted && id == d.vmax:
							sig = "generated-id-not-above-ids-in-use/reuses-the-type-maximum-after-delete"
						case overwritten:
							sig = "generated-id-not-above-ids-in-use/after-commit-overwrote-other-sessions"
						case preIDs[id] && id > *fl && updatedAbove && ev.Kind == "replace":
							sig = "generated-id-equals-stored-id/replace-after-update-above-counter"
						}
						fails = append(fails, pf{sig, fmt.Sprintf("%s: generated id %s although %s was already in use", where, d.real(id), d.real(max64(*fl, id)))})
					}
					if inTx[ev.Sess] {
						txGens[ev.Sess] = append(txGens[ev.Sess], id)
					}
					if !haveGen {
						haveGen, firstGen = true, id
					}
				} else if !haveGen {
					explicitBefore = true
				}
				if id > *fl {
					*fl = id
				}
				if id > maxInserted {
					maxInserted = id
				}
			}
			if ev.Kind == "odku" && ev.Act == "add" && anyNotInserted {
				for _, k := range ids { // an id moved above everything ever inserted
					if k > maxInserted && !preIDs[k] {
						updatedAbove = true
					}
				}
			}
			cause := "other"
			switch {
			case ev.Kind == "replace":
				cause = "replace"
			case ev.Kind == "ignore" && skippedBeforeFg:
				cause = "ignore-skipped-a-row-before-it"
			case ev.Kind == "ignore" && fgSkippedThenExplicit:
				cause = "ignore-first-generated-row-skipped-then-explicit-row"
			case ev.Kind == "odku" && skippedBeforeFg:
				cause = "odku-updated-a-row-before-it"
			case ev.Kind == "odku" && fgSkippedThenExplicit:
				cause = "odku-first-generated-row-updated-then-explicit-row"
			}
			if ev.Kind == "odku" && ev.Act == "lid" && anyNotInserted {
				// LAST_INSERT_ID(expr) was evaluated: judged only for a single row (the value is the existing row's id)
				if len(ev.Specs) == 1 {
					s := ev.Specs[0]
					want, known := int64(0), false
					if !s.Gen && preIDs[s.K] {
						want, known = s.K, true
					} else if k, ok := storedU[s.U]; ok {
						want, known = k, true
					}
					if known && lidNow != want {
						fails = append(fails, pf{"last-insert-id-expr-not-reported/odku", fmt.Sprintf("%s: LAST_INSERT_ID() = %s, expected the updated row's id %s", where, lidBig.String(), d.real(want))})
					}
				}
				break
			}
			if haveGen {
				if lidNow != firstGen {
					interesting = true
					fails = append(fails, pf{"last-insert-id-not-first-generated/" + cause,
						fmt.Sprintf("%s: LAST_INSERT_ID() = %s, first id generated by the statement = %s", where, lidBig.String(), d.real(firstGen))})
				}
				iid, _ := d.fromEngine(insertID, true)
				if d.virt(iid) != firstGen {
					interesting = true
					sig := "ok-insert-id-not-first-generated/" + after
					switch {
					case ev.Kind == "replace" || ev.Kind == "odku":
						sig = "ok-insert-id-not-first-generated/" + cause
					case explicitBefore:
						sig = "ok-insert-id-not-first-generated/explicit-id-row-before-it"
					}
					fails = append(fails, pf{sig, fmt.Sprintf("%s: OkResult.InsertID = %d, first id generated by the statement = %s", where, insertID, d.real(firstGen))})
				}
			} else if lidNow != prevLID[ev.Sess] {
				interesting = true
				fails = append(fails, pf{"last-insert-id-changed-without-generated-value/" + ev.Kind + "/" + cause,
					fmt.Sprintf("%s: LAST_INSERT_ID() %s -> %s although the statement generated no id", where, d.real(prevLID[ev.Sess]), lidBig.String())})
			}
		case "delge", "deleq":
			unchangedLID()
		case "updid":
			// must fail exactly when the old id exists, the new one differs and is taken
			must := preIDs[ev.K] && ev.K2 != ev.K && preIDs[ev.K2]
			switch {
			case succeeded && must:
				fails = append(fails, pf{"update-id-accepted-with-duplicate/" + after, where})
			case !succeeded && !must:
				fails = append(fails, pf{"update-id-rejected/" + after, fmt.Sprintf("%s: %v", where, res.Err)})
			}
			if succeeded && preIDs[ev.K] && ev.K2 > maxInserted {
				updatedAbove = true
				interesting = true
			}
			unchangedLID()
		case "setlid":
			if lidNow != ev.K {
				fails = append(fails, pf{"last-insert-id-expr-not-reported/select", fmt.Sprintf("%s: LAST_INSERT_ID() = %s", where, lidBig.String())})
			}
		case "begin":
			if inTx[ev.Sess] { // implicit commit of the open transaction
				if txFloor[ev.Sess] > floor {
					floor = txFloor[ev.Sess]
				}
				dbVersion++
			}
			inTx[ev.Sess] = true
			txFloor[ev.Sess] = floor
			txVersion[ev.Sess] = dbVersion
			txGens[ev.Sess] = nil
			unchangedLID()
		case "commit":
			if inTx[ev.Sess] {
				// the transaction's rows become visible now: its generated ids must not be ids other sessions used meanwhile
				for _, id := range txGens[ev.Sess] {
					if id <= floor {
						interesting = true
						fails = append(fails, pf{"generated-id-not-above-ids-in-use/transaction-committed-after-other-sessions-used-the-id",
							fmt.Sprintf("%s: the transaction generated id %s, which another session was given and committed meanwhile", where, d.real(id))})
						break
					}
				}
				if dbVersion != txVersion[ev.Sess] {
					overwritten = true
				}
				if txFloor[ev.Sess] > floor {
					floor = txFloor[ev.Sess]
				}
				dbVersion++
				inTx[ev.Sess] = false
			}
			unchangedLID()
		case "rollback":
			inTx[ev.Sess] = false // ids generated inside may be generated again: uniqueness is over committed statements
			unchangedLID()
		case "alter":
			// MySQL: the counter cannot be set at or below the largest id in the table
			if ev.K <= preMax {
				lowered = true
				lowBound = preMax + 1
			} else {
				lowBound = ev.K
			}
			if ev.K > ctrUpper {
				ctrUpper = ev.K
			}
			if ev.K > maxInserted {
				maxInserted = ev.K - 1
			}
			floor = preMax // an explicit reset: ids freed by earlier deletes may be handed out again
			unchangedLID()
		}
		if succeeded && !inTx[ev.Sess] && ev.Kind != "begin" && ev.Kind != "commit" && ev.Kind != "rollback" && ev.Kind != "setlid" {
			dbVersion++
		}
		for i := range sess {
			prevLID[i] = d.virt(lids[i]) // after a failed INSERT the value is unspecified: accept whatever it is now
		}
		for _, k := range ids {
			if k+1 > lowBound {
				lowBound = k + 1
			}
			if k+1 > ctrUpper {
				ctrUpper = k + 1
			}
		}
	}
	key := ""
	if interesting {
		key = strings.Join(cs.SQL, ";")
	}
	id := c.Case(lib.CoqTuple(coqZs(d.t.Max), lib.CoqList(steps)), cs, key)
	c.PredChecked()
	seen := map[string]bool{}
	for _, f := range fails {
		if !seen[f.sig] {
			seen[f.sig] = true
			if sigCount[f.sig] < 3 {
				c.PredFail(id, f.sig, f.what, cs)
			} else {
				c.Count("predicate_failure:" + f.sig)
			}
			sigCount[f.sig]++
		}
	}
}

func max64(a, b int64) int64 {
	if a > b {
		return a
	}
	return b
}

func g(form string, u int64) Spec { return Spec{Gen: true, Form: form, U: u} }
func x(k, u int64) Spec           { return Spec{K: k, U: u} }

func corpus() []caseT {
	top := vTop
	return []caseT{
		{Type: 0, Events: []Event{{Kind: "insert", Specs: []Spec{g("null", 1), g("null", 2)}}, {Kind: "insert", Specs: []Spec{x(5, 3), g("null", 4)}},
			{Kind: "insert", Specs: []Spec{g("null", 5), g("null", 6), x(1, 7)}}, {Kind: "insert", Specs: []Spec{g("null", 8)}},
			{Kind: "ignore", Specs: []Spec{x(1, 9), g("null", 10), x(20, 11)}}, {Kind: "delge", K: 20}, {Kind: "insert", Specs: []Spec{g("zero", 12)}},
			{Kind: "alter", K: 3}, {Kind: "insert", Specs: []Spec{g("null", 13)}}, {Kind: "insert", Specs: []Spec{g("null", 14)}},
			{Kind: "insert", Specs: []Spec{g("null", 15)}}}},
		{Type: 0, Events: []Event{{Kind: "insert", Specs: []Spec{g("null", 1), g("null", 2), g("null", 3)}, Omit: true}, {Kind: "delge", K: 3},
			{Kind: "insert", Specs: []Spec{g("null", 4)}}, {Kind: "alter", K: 10}, {Kind: "insert", Specs: []Spec{g("null", 5)}, Omit: true},
			{Kind: "deleq", K: 10}, {Kind: "insert", Specs: []Spec{x(-2, 6), g("zero", 7)}}, {Kind: "insert", Specs: []Spec{x(30, 8)}},
			{Kind: "insert", Specs: []Spec{g("null", 9)}}}},
		// the first generated row of an INSERT IGNORE is skipped (duplicate in u), a later generated row is inserted
		{Type: 0, Events: []Event{{Kind: "insert", Specs: []Spec{g("null", 1)}}, {Kind: "ignore", Specs: []Spec{g("null", 1), g("null", 2), x(9, 3)}},
			{Kind: "ignore", Specs: []Spec{x(1, 4), g("null", 2), g("null", 5)}}, {Kind: "ignore", Specs: []Spec{g("null", 1), x(20, 6), g("null", 7)}}}},
		// BIGINT UNSIGNED up to 18446744073709551615: explicit maximum, then generated inserts; delete the maximum; again
		{Type: 1, Events: []Event{{Kind: "insert", Specs: []Spec{x(top-1, 1)}}, {Kind: "insert", Specs: []Spec{g("null", 2)}},
			{Kind: "insert", Specs: []Spec{g("null", 3)}}, {Kind: "insert", Specs: []Spec{g("null", 4), g("null", 5)}}, {Kind: "deleq", K: top},
			{Kind: "insert", Specs: []Spec{g("null", 6)}}, {Kind: "insert", Specs: []Spec{g("null", 7)}}, {Kind: "ignore", Specs: []Spec{g("null", 8), x(7, 9)}}}},
		{Type: 1, Events: []Event{{Kind: "insert", Specs: []Spec{g("null", 1)}}, {Kind: "alter", K: top}, {Kind: "insert", Specs: []Spec{g("null", 2)}},
			{Kind: "insert", Specs: []Spec{g("null", 3)}}, {Kind: "insert", Specs: []Spec{g("null", 4)}, Omit: true}}},
		{Type: 1, Events: []Event{{Kind: "insert", Specs: []Spec{x(top, 1)}}, {Kind: "insert", Specs: []Spec{g("null", 2)}}, {Kind: "delge", K: top},
			{Kind: "insert", Specs: []Spec{g("zero", 3), g("null", 4)}}}},
		// narrow types at their maxima
		{Type: 2, Events: []Event{{Kind: "alter", K: 126}, {Kind: "insert", Specs: []Spec{g("null", 1), g("null", 2)}}, {Kind: "insert", Specs: []Spec{g("null", 3)}},
			{Kind: "deleq", K: 127}, {Kind: "insert", Specs: []Spec{g("null", 4)}}, {Kind: "insert", Specs: []Spec{g("null", 5)}}}},
		{Type: 3, Events: []Event{{Kind: "insert", Specs: []Spec{x(255, 1)}}, {Kind: "insert", Specs: []Spec{g("null", 2)}}, {Kind: "insert", Specs: []Spec{x(254, 3)}}}},
		{Type: 0, Events: []Event{{Kind: "insert", Specs: []Spec{x(top, 1)}}, {Kind: "insert", Specs: []Spec{g("null", 2)}}, {Kind: "deleq", K: top},
			{Kind: "insert", Specs: []Spec{g("null", 3)}}}},
		// REPLACE: generated / explicit existing / explicit new ids, conflicts in u; LAST_INSERT_ID() is not set
		{Type: 0, Events: []Event{{Kind: "insert", Specs: []Spec{g("null", 1), g("null", 2), g("null", 3)}}, {Kind: "replace", Specs: []Spec{g("null", 4)}},
			{Kind: "replace", Specs: []Spec{g("null", 2)}}, {Kind: "replace", Specs: []Spec{x(1, 10)}}, {Kind: "replace", Specs: []Spec{x(20, 11)}},
			{Kind: "replace", Specs: []Spec{x(3, 11)}}, {Kind: "replace", Specs: []Spec{x(30, 12), g("null", 13)}}, {Kind: "replace", Specs: []Spec{g("zero", 14), g("null", 15)}},
			{Kind: "insert", Specs: []Spec{g("null", 16)}}}},
		// ON DUPLICATE KEY UPDATE: update path before / at the first generated row; explicit id above the counter on the update path
		{Type: 0, Events: []Event{{Kind: "insert", Specs: []Spec{g("null", 1)}}, {Kind: "odku", Act: "setv", Specs: []Spec{x(1, 2), g("null", 3), x(20, 4)}},
			{Kind: "odku", Act: "setv", Specs: []Spec{g("null", 1), x(30, 5)}}, {Kind: "odku", Act: "setv", Specs: []Spec{x(50, 1)}},
			{Kind: "odku", Act: "setv", Specs: []Spec{g("null", 1), g("null", 6)}}, {Kind: "odku", Act: "lid", Specs: []Spec{g("null", 4)}},
			{Kind: "odku", Act: "add", D: 100, Specs: []Spec{g("null", 4)}}, {Kind: "insert", Specs: []Spec{g("null", 7)}}, {Kind: "setlid", K: 77},
			{Kind: "odku", Act: "add", D: -1, Specs: []Spec{x(1, 8)}}}},
		// UPDATE of the id: to the counter's value; REPLACE then generates that id and destroys the row; plain INSERT is stuck
		{Type: 0, Events: []Event{{Kind: "insert", Specs: []Spec{g("null", 1), g("null", 2), g("null", 3)}}, {Kind: "updid", K: 1, K2: 4},
			{Kind: "replace", Specs: []Spec{g("null", 9)}}, {Kind: "updid", K: 2, K2: 5}, {Kind: "insert", Specs: []Spec{g("null", 10)}},
			{Kind: "insert", Specs: []Spec{g("null", 11)}}, {Kind: "updid", K: 3, K2: 4}, {Kind: "updid", K: 3, K2: 2}, {Kind: "updid", K: 7, K2: 8}}},
		// two sessions: alternating inserts, LAST_INSERT_ID() per session; a failing multi-row INSERT restores the counter
		{Type: 0, NS: 3, Events: []Event{{Kind: "insert", Specs: []Spec{g("null", 1), g("null", 2)}}, {Kind: "insert", Sess: 1, Specs: []Spec{g("null", 3)}},
			{Kind: "insert", Sess: 0, Specs: []Spec{g("null", 4)}}, {Kind: "insert", Sess: 2, Specs: []Spec{g("null", 5), g("null", 6)}},
			{Kind: "insert", Sess: 1, Specs: []Spec{g("null", 7), g("null", 8), g("null", 1)}}, {Kind: "insert", Sess: 0, Specs: []Spec{x(100, 9), g("null", 1)}},
			{Kind: "insert", Sess: 1, Specs: []Spec{g("null", 10)}}, {Kind: "setlid", Sess: 2, K: 5}, {Kind: "deleq", Sess: 0, K: 8}, {Kind: "insert", Sess: 2, Specs: []Spec{g("null", 11)}}}},
		// transactions: ROLLBACK takes the counter back; COMMIT after another session's insert hands the same id out twice
		{Type: 0, NS: 2, Events: []Event{{Kind: "insert", Specs: []Spec{g("null", 1)}}, {Kind: "begin"}, {Kind: "insert", Specs: []Spec{g("null", 2)}},
			{Kind: "insert", Specs: []Spec{g("null", 3)}}, {Kind: "rollback"}, {Kind: "insert", Specs: []Spec{g("null", 4)}}, {Kind: "begin"},
			{Kind: "insert", Specs: []Spec{g("null", 5)}}, {Kind: "insert", Sess: 1, Specs: []Spec{g("null", 6)}}, {Kind: "commit"},
			{Kind: "insert", Sess: 1, Specs: []Spec{g("null", 7)}}}},
		// INSERT IGNORE with a skipped explicit id above the counter: the two copies of the table data
		{Type: 0, Events: []Event{{Kind: "insert", Specs: []Spec{g("null", 1), g("null", 2), g("null", 3)}}, {Kind: "ignore", Specs: []Spec{x(100, 1), g("null", 5)}},
			{Kind: "ignore", Specs: []Spec{g("null", 6), x(200, 1), g("null", 8)}}, {Kind: "ignore", Specs: []Spec{g("null", 9), x(300, 1)}},
			{Kind: "insert", Specs: []Spec{g("null", 11)}}, {Kind: "deleq", K: 3}, {Kind: "ignore", Specs: []Spec{g("null", 12), x(400, 1), x(3, 14)}},
			{Kind: "ignore", Specs: []Spec{x(500, 1)}}, {Kind: "ignore", Specs: []Spec{x(600, 1), g("null", 2)}}, {Kind: "insert", Specs: []Spec{g("null", 20)}}}},
	}
}

func main() {
	lib.Main("C20", func(c *lib.Ctx) {
		c.Header = "From Coq Require Import List ZArith.\nImport ListNotations.\nFrom GMS Require Import Store.C20AutoInc Corr.C20.\nOpen Scope N_scope."
		c.CaseType = "C20.case"
		c.MismatchFn = "C20.mismatches"
		c.SetRule("one table t(id <TYPE> AUTO_INCREMENT PRIMARY KEY, u UNIQUE, v) per case, TYPE in BIGINT, BIGINT UNSIGNED, TINYINT [UNSIGNED], " +
			"SMALLINT, INT UNSIGNED; 6-14 statements: INSERT / INSERT IGNORE / REPLACE / INSERT ... ON DUPLICATE KEY UPDATE (v = const; id = " +
			"LAST_INSERT_ID(id); id = id + d) of 1-3 rows with generated (NULL, 0, column omitted), explicit (near the current maximum, colliding " +
			"or beyond, 1/3 of the histories also at the type's maximum) and negative ids, 1/4 of the rows duplicate in u; DELETE of the top ids or " +
			"of one id; ALTER TABLE AUTO_INCREMENT = n (also below MAX(id) and at the type maximum); in 2/5 of the histories also UPDATE of the id " +
			"(1/4 above the counter), SELECT LAST_INSERT_ID(n), 1-3 sessions alternating at statement granularity, and in 2/5 of those BEGIN / COMMIT / " +
			"ROLLBACK. A case is non-trivial when a statement failed or disagreed with the reference; distinct = distinct SQL texts.")
		if c.ReplayFile != "" {
			var cs caseT
			lib.LoadReplay(c.ReplayFile, &cs)
			run(c, cs)
			return
		}
		cp := corpus()
		for _, cs := range cp {
			run(c, cs)
		}
		for i := len(cp); i < c.N; i++ {
			run(c, gen(c.R.Fork()))
		}
	})
}
