// Temporal columns of every fractional-seconds precision (strict INSERT / Convert of well-formed and malformed text)
// and multi-column INSERT IGNORE rows, checked on the implementation alone (no Coq model for these).
package main

import (
	"context"
	"fmt"
	"math/big"
	"regexp"
	"strconv"
	"strings"
	"time"

	"github.com/dolthub/vitess/go/sqltypes"

	"github.com/dolthub/go-mysql-server/sql"
	"github.com/dolthub/go-mysql-server/sql/types"

	"verifharness/lib"
	"verifharness/lib/eng"
)

type rowCol struct {
	Type  string `json:"type"`  // SQL column type
	Text  string `json:"text"`  // SQL literal
	Class string `json:"class"` // fit | over | under | frac | junk
}

type civil struct{ Y, M, D, H, Mi, S, Us int }

// daysFromCivil: days since 1970-01-01 in the proleptic Gregorian calendar (written independently of package time).
func daysFromCivil(y, m, d int) int64 {
	yy := int64(y)
	if m <= 2 {
		yy--
	}
	era := yy / 400
	if yy < 0 && yy%400 != 0 {
		era--
	}
	yoe := yy - era*400
	mp := int64((m + 9) % 12)
	doy := (153*mp+2)/5 + int64(d) - 1
	doe := yoe*365 + yoe/4 - yoe/100 + doy
	return era*146097 + doe - 719468
}

func isLeap(y int) bool { return y%4 == 0 && (y%100 != 0 || y%400 == 0) }

func monthLen(y, m int) int {
	switch m {
	case 2:
		if isLeap(y) {
			return 29
		}
		return 28
	case 4, 6, 9, 11:
		return 30
	}
	return 31
}

func (c civil) micros() int64 {
	return daysFromCivil(c.Y, c.M, c.D)*86400000000 + int64(c.H)*3600000000 + int64(c.Mi)*60000000 + int64(c.S)*1000000 + int64(c.Us)
}

func civilOfTime(t time.Time) civil {
	t = t.UTC()
	return civil{t.Year(), int(t.Month()), t.Day(), t.Hour(), t.Minute(), t.Second(), t.Nanosecond() / 1000}
}

func floorDiv(a, b int64) int64 {
	q := a / b
	if (a%b != 0) && ((a < 0) != (b < 0)) {
		q--
	}
	return q
}

// roundMicros rounds a microsecond count half up to the unit of fractional-seconds precision p.
func roundMicros(us int64, p int) int64 {
	unit := int64(1)
	for i := p; i < 6; i++ {
		unit *= 10
	}
	return floorDiv(us+unit/2, unit) * unit
}

var yearPool = []int{1000, 1001, 1499, 1500, 1677, 1678, 1899, 1900, 1901, 1969, 1970, 1971, 1999, 2000, 2023, 2024, 2037, 2038, 2100, 2155, 2262, 2263, 2400, 5000, 9998}

func genCivil(r *lib.RNG, loY, hiY int) civil {
	var c civil
	for k := 0; ; k++ {
		if r.Chance(2, 3) {
			c.Y = lib.Pick(r, yearPool)
		} else {
			c.Y = r.Range(loY, hiY)
		}
		if (c.Y >= loY && c.Y <= hiY) || k > 50 {
			break
		}
	}
	if c.Y < loY || c.Y > hiY {
		c.Y = loY
	}
	c.M = r.Range(1, 12)
	if r.Chance(1, 4) {
		c.M = lib.Pick(r, []int{1, 2, 12})
	}
	c.D = r.Range(1, monthLen(c.Y, c.M))
	if r.Chance(1, 3) {
		c.D = lib.Pick(r, []int{1, monthLen(c.Y, c.M)})
	}
	switch r.Intn(4) {
	case 0:
	case 1:
		c.H, c.Mi, c.S = 23, 59, 59
	default:
		c.H, c.Mi, c.S = r.Intn(24), r.Intn(60), r.Intn(60)
	}
	switch r.Intn(5) {
	case 0:
	case 1:
		c.Us = lib.Pick(r, []int{500000, 499999, 999999, 999500, 999499, 5, 4, 50, 49, 500, 499, 5000, 50000, 450000})
	default:
		c.Us = r.Intn(1000000)
	}
	return c
}

// text prints the civil value; frac = number of fraction digits to print (0..6; trailing digits must be zero).
func (c civil) text(dateOnly bool, frac int) string {
	s := fmt.Sprintf("%04d-%02d-%02d", c.Y, c.M, c.D)
	if dateOnly {
		return s
	}
	s += fmt.Sprintf(" %02d:%02d:%02d", c.H, c.Mi, c.S)
	if frac > 0 {
		s += "." + fmt.Sprintf("%06d", c.Us)[:frac]
	}
	return s
}

var strictDT = regexp.MustCompile(`^(\d{4})-(\d{2})-(\d{2})(?: (\d{2}):(\d{2}):(\d{2})(?:\.(\d{1,6}))?)?$`)

// parseStrict accepts exactly YYYY-MM-DD[ HH:MM:SS[.f{1,6}]] with valid field values.
func parseStrict(s string) (civil, bool) {
	m := strictDT.FindStringSubmatch(s)
	if m == nil {
		return civil{}, false
	}
	at := func(i int) int { v, _ := strconv.Atoi(m[i]); return v }
	c := civil{Y: at(1), M: at(2), D: at(3)}
	if m[4] != "" {
		c.H, c.Mi, c.S = at(4), at(5), at(6)
		if m[7] != "" {
			c.Us, _ = strconv.Atoi((m[7] + "000000")[:6])
		}
	}
	if c.M < 1 || c.M > 12 || c.D < 1 || c.D > monthLen(c.Y, c.M) || c.H > 23 || c.Mi > 59 || c.S > 59 {
		return civil{}, false
	}
	return c, true
}

func genTemporal(r *lib.RNG) caseT {
	var c caseT
	c.Mode = "insert-temporal"
	c.Src = "string"
	p := r.Intn(7)
	if r.Chance(1, 3) {
		p = 6
	}
	kind := lib.Pick(r, []string{"datetime", "datetime", "datetime", "timestamp", "date", "time", "year"})
	switch kind {
	case "datetime", "timestamp":
		c.Target = fmt.Sprintf("%s(%d)", kind, p)
	case "time":
		c.Target = "time(6)" // GMS supports only TIME(6) ("TIME length not yet supported")
	default:
		c.Target = kind
	}
	lo, hi := 1000, 9998
	if kind == "timestamp" {
		lo, hi = 1971, 2037
	}
	cv := genCivil(r, lo, hi)
	var base string
	switch kind {
	case "date":
		base = cv.text(true, 0)
	case "year":
		base = fmt.Sprint(r.Range(1901, 2155))
	case "time":
		base = fmt.Sprintf("%02d:%02d:%02d", cv.H, cv.Mi, cv.S)
		if cv.Us != 0 {
			base += "." + fmt.Sprintf("%06d", cv.Us)
		}
	default:
		fr := 6
		if cv.Us == 0 {
			fr = 0
		}
		base = cv.text(false, fr)
	}
	if r.Chance(1, 2) {
		c.Text = base
		return c
	}
	// malformed: a parsable prefix followed by junk, or an impossible field value
	switch r.Intn(6) {
	case 0, 1:
		c.Text = base + lib.Pick(r, []string{"abc", "x", " foo", "Z!", "-", ".."})
	case 2:
		if kind == "year" {
			c.Text = lib.Pick(r, []string{"1900", "2156", "20x", "abcd", "19999"})
		} else if kind == "time" {
			c.Text = fmt.Sprintf("%02d:%02d:%02d", cv.H, lib.Pick(r, []int{60, 61, 99}), cv.S)
		} else {
			d := civil{Y: cv.Y, M: lib.Pick(r, []int{2, 4, 6, 9, 11}), H: cv.H, Mi: cv.Mi, S: cv.S}
			d.D = monthLen(d.Y, d.M) + 1 + r.Intn(2)
			if d.D > 31 {
				d.D = 31
			}
			if d.D <= monthLen(d.Y, d.M) {
				d.M, d.D = 2, 30
			}
			c.Text = d.text(kind == "date", 0)
		}
	case 3:
		if kind == "year" || kind == "time" {
			c.Text = lib.Pick(r, []string{"abc", "12:xx:10", "x", "839:00:00", "999:59:59", "-900:00:00"})
		} else {
			d := cv
			d.M = lib.Pick(r, []int{13, 0, 99})
			c.Text = fmt.Sprintf("%04d-%02d-%02d", d.Y, d.M, d.D)
			if kind != "date" {
				c.Text += fmt.Sprintf(" %02d:%02d:%02d", d.H, d.Mi, d.S)
			}
		}
	case 4:
		if kind == "datetime" || kind == "timestamp" {
			c.Text = fmt.Sprintf("%04d-%02d-%02d %02d:%02d:%02d", cv.Y, cv.M, cv.D, lib.Pick(r, []int{24, 25, 99}), cv.Mi, cv.S)
		} else {
			c.Text = base + "abc"
		}
	default:
		c.Text = lib.Pick(r, []string{"abc", "not a date", "20-23-01-15x", "xxxx-xx-xx"})
	}
	return c
}

func temporalType(t string) (sql.Type, string, int) {
	var p int
	switch {
	case strings.HasPrefix(t, "datetime("):
		fmt.Sscanf(t, "datetime(%d)", &p)
		return types.MustCreateDatetimeType(sqltypes.Datetime, p), "datetime", p
	case strings.HasPrefix(t, "timestamp("):
		fmt.Sscanf(t, "timestamp(%d)", &p)
		return types.MustCreateDatetimeType(sqltypes.Timestamp, p), "timestamp", p
	case t == "date":
		return types.Date, "date", 0
	case t == "year":
		return types.Year, "year", 0
	case strings.HasPrefix(t, "time("):
		fmt.Sscanf(t, "time(%d)", &p)
		return types.Time, "time", p
	}
	panic("temporal target " + t)
}

var junkAfterFraction = regexp.MustCompile(`^-?\d{2,3}:\d{2}:\d{2}\.\d{6}.*\D`)
var hoursBeyondRange = regexp.MustCompile(`^-?(839|8[4-9]\d|9\d\d):[0-5]\d:[0-5]\d$`)
var strictTime = regexp.MustCompile(`^(\d{2}):([0-5]\d):([0-5]\d)(?:\.(\d{1,6}))?$`)

func runTemporal(c *lib.Ctx, cs caseT, fail func(int, string, string)) {
	if engine == nil {
		engine = eng.New("db")
		sess = engine.Session()
	}
	typ, kind, p := temporalType(cs.Target)
	c.Count("target:" + kind)
	// the Coq model is compared on Convert's answer (DATE/DATETIME/TIMESTAMP text, colon-form TIME text, digit YEAR text)
	cvm, flagm, cerrm := typ.Convert(context.Background(), cs.Text)
	term := ""
	okm := cerrm == nil && flagm == sql.InRange
	switch kind {
	case "datetime", "timestamp", "date":
		out := "DErr"
		if okm {
			if t, isT := cvm.(time.Time); isT {
				out = "(DOk " + lib.CoqZ(civilOfTime(t).micros()) + ")"
			}
		}
		k := map[string]string{"datetime": "KDatetime", "timestamp": "KTimestamp", "date": "KDate"}[kind]
		term = fmt.Sprintf("(DtCase %s %d%%Z %s %s)", k, p, zbytes(cs.Text), out)
	case "time":
		if strings.Contains(cs.Text, ":") {
			out := "TmErr"
			if okm {
				if ts, isT := cvm.(types.Timespan); isT {
					out = "(TmOk " + lib.CoqZ(ts.AsMicroseconds()) + ")"
				}
			}
			term = fmt.Sprintf("(TimeCase %s %s)", zbytes(cs.Text), out)
		}
	case "year":
		digits := cs.Text != ""
		for i := 0; i < len(cs.Text); i++ {
			digits = digits && cs.Text[i] >= '0' && cs.Text[i] <= '9'
		}
		if digits {
			out := "YErr"
			if okm {
				out = "(YOk " + lib.CoqZStr(fmt.Sprint(cvm)) + ")"
			}
			term = fmt.Sprintf("(YearCase %s %s)", zbytes(cs.Text), out)
		}
	}
	var id int
	if term != "" {
		id = c.Case(term, cs, "temporal|"+cs.Target+"|"+cs.Text)
	} else {
		id = c.CaseNoModel(cs, "temporal|"+cs.Target+"|"+cs.Text)
	}
	c.PredChecked()
	// is the text well-formed (own strict grammar)?
	var want civil
	valid := false
	switch kind {
	case "year":
		y, err := strconv.Atoi(cs.Text)
		valid = err == nil && len(cs.Text) == 4 && y >= 1901 && y <= 2155
		want.Y = y
	case "time":
		valid = strictTime.MatchString(cs.Text)
	default:
		want, valid = parseStrict(cs.Text)
		if kind == "date" && valid && len(cs.Text) != 10 {
			valid = false // a time part given to a DATE column: leave unjudged
			c.Count("temporal:unjudged")
			return
		}
	}
	class := "malformed"
	if kind == "time" && !valid {
		switch {
		case junkAfterFraction.MatchString(cs.Text):
			class = "junk-after-fraction"
		case hoursBeyondRange.MatchString(cs.Text):
			class = "hours-beyond-838"
		}
	}
	if valid {
		class = "valid"
	}
	c.Count("temporal:" + class)
	name := "tt_" + strings.NewReplacer("(", "_", ")", "").Replace(cs.Target)
	if !tables[name] {
		sess.MustExec(fmt.Sprintf("CREATE TABLE %s (c %s)", name, cs.Target))
		tables[name] = true
	}
	sess.MustExec("DELETE FROM " + name)
	q := fmt.Sprintf("INSERT INTO %s VALUES ('%s')", name, strings.ReplaceAll(cs.Text, "'", "''"))
	r := sess.Query(q)
	if r.Panic != "" {
		fail(id, "insert/"+kind+"/panic", q+" panicked: "+r.Panic)
		return
	}
	// Convert at the API level: malformed text must be reported (error), well-formed text accepted
	cv, flag, cerr := typ.Convert(context.Background(), cs.Text)
	if !valid && cerr == nil && flag == sql.InRange {
		fail(id, "convert/"+kind+"/"+class+"-unreported", fmt.Sprintf("%s.Convert(%q) = %v, in range, no error", cs.Target, cs.Text, cv))
	}
	if valid && kind != "time" && kind != "year" && cerr != nil {
		fail(id, "convert/"+kind+"/well-formed-rejected", fmt.Sprintf("%s.Convert(%q): %v", cs.Target, cs.Text, cerr))
	}
	rd := sess.Query("SELECT c FROM " + name)
	stored := r.Err == nil && rd.Err == nil && len(rd.Rows) == 1
	if !valid {
		if stored {
			fail(id, "insert/"+kind+"/"+class+"-stored", fmt.Sprintf("%s (strict) stored %s", q, eng.Val(rd.Rows[0][0])))
		}
		return
	}
	if !stored {
		fail(id, "insert/"+kind+"/well-formed-rejected", fmt.Sprintf("%s: %v", q, r.Err))
		return
	}
	switch kind {
	case "year":
		if fmt.Sprint(rd.Rows[0][0]) != cs.Text {
			fail(id, "insert/year/altered", fmt.Sprintf("%s stored %v", q, rd.Rows[0][0]))
		}
	case "time":
	default:
		t, ok := rd.Rows[0][0].(time.Time)
		if !ok {
			fail(id, "insert/"+kind+"/non-time-stored", fmt.Sprintf("%s stored %T", q, rd.Rows[0][0]))
			return
		}
		exp := roundMicros(want.micros(), p)
		if got := civilOfTime(t).micros(); got != exp {
			fail(id, "insert/"+kind+"/well-formed-altered", fmt.Sprintf("%s stored %s (%d us), expected %d us (rounded to %d fraction digits)", q, eng.Val(t), got, exp, p))
		}
	}
}

// ---------- multi-column INSERT IGNORE rows ----------

var rowTables = map[string]string{}

var rowColTypes = []string{"tinyint", "smallint", "mediumint", "int", "bigint", "tinyint unsigned", "smallint unsigned", "int unsigned", "decimal(4,2)", "decimal(10,3)"}

func genRow(r *lib.RNG) caseT {
	c := caseT{Mode: "insert-ignore-row"}
	n := r.Range(2, 5)
	for i := 0; i < n; i++ {
		ct := lib.Pick(r, rowColTypes)
		var rc rowCol
		rc.Type = ct
		it := intTypeBySQLName(ct)
		cls := lib.Pick(r, []string{"fit", "over", "over", "under", "frac", "junk"})
		switch {
		case it == nil: // decimal: only rounding (out-of-range decimals are a separate known finding)
			cls = lib.Pick(r, []string{"fit", "frac"})
			if cls == "fit" {
				rc.Text = lib.Pick(r, []string{"1.25", "-3.5", "0", "12.34"})
			} else {
				rc.Text = lib.Pick(r, []string{"1.239", "-1.2351", "2.9999", "0.0049", "12.3456"})
			}
		case cls == "over":
			rc.Text = new(big.Int).Add(it.Max, big.NewInt(int64(1+r.Intn(1000000)))).String()
		case cls == "under" && it.Min.Sign() < 0:
			rc.Text = new(big.Int).Sub(it.Min, big.NewInt(int64(1+r.Intn(1000000)))).String()
		case cls == "frac":
			rc.Text = lib.Pick(r, []string{"1.5", "2.4", "-1.5", "0.5", "99.5"})
			if it.Min.Sign() == 0 {
				rc.Text = strings.TrimPrefix(rc.Text, "-")
			}
		case cls == "junk":
			rc.Text = "'abc'"
		default:
			cls = "fit"
			rc.Text = fmt.Sprint(r.Intn(100))
		}
		rc.Class = cls
		c.Row = append(c.Row, rc)
	}
	return c
}

func intTypeBySQLName(n string) *intType {
	for i := range intTypes {
		if intTypes[i].SQL == n {
			return &intTypes[i]
		}
	}
	return nil
}

func runRow(c *lib.Ctx, cs caseT, fail func(int, string, string)) {
	if engine == nil {
		engine = eng.New("db")
		sess = engine.Session()
	}
	id := c.CaseNoModel(cs, fmt.Sprint("row|", cs.Row))
	c.PredChecked()
	c.Count(fmt.Sprintf("row:%d-columns", len(cs.Row)))
	var defs, vals, tn []string
	for i, rc := range cs.Row {
		defs = append(defs, fmt.Sprintf("c%d %s", i, rc.Type))
		vals = append(vals, rc.Text)
		tn = append(tn, strings.NewReplacer(" ", "", "(", "", ")", "", ",", "_").Replace(rc.Type))
	}
	key := strings.Join(tn, "_")
	if rowTables[key] == "" {
		rowTables[key] = fmt.Sprintf("row_%d", len(rowTables))
	}
	name := rowTables[key]
	if !tables[name] {
		sess.MustExec(fmt.Sprintf("CREATE TABLE %s (%s)", name, strings.Join(defs, ", ")))
		tables[name] = true
	}
	sess.MustExec("DELETE FROM " + name)
	q := fmt.Sprintf("INSERT IGNORE INTO %s VALUES (%s)", name, strings.Join(vals, ", "))
	r := sess.Query(q)
	if r.Panic != "" {
		fail(id, "insert-ignore-row/panic", q+" panicked: "+r.Panic)
		return
	}
	if r.Err != nil {
		fail(id, "insert-ignore-row/rejected", fmt.Sprintf("%s: %v", q, r.Err))
		return
	}
	rd := sess.Query("SELECT * FROM " + name)
	if rd.Err != nil || len(rd.Rows) != 1 {
		fail(id, "insert-ignore-row/row-not-stored", fmt.Sprintf("%s: %d rows stored (%v)", q, len(rd.Rows), rd.Err))
		return
	}
	errorsBefore := 0
	for i, rc := range cs.Row {
		got := observe(rd.Rows[0][i])
		var want *big.Rat
		if rc.Class == "junk" {
			want = new(big.Rat)
		} else {
			x, ok := new(big.Rat).SetString(rc.Text)
			if !ok {
				panic("row literal " + rc.Text)
			}
			if it := intTypeBySQLName(rc.Type); it != nil {
				w := roundHalfAway(x, 0)
				if w.Cmp(it.Max) > 0 {
					w = it.Max
				}
				if w.Cmp(it.Min) < 0 {
					w = it.Min
				}
				want = new(big.Rat).SetInt(w)
			} else {
				var p, s int64
				fmt.Sscanf(rc.Type, "decimal(%d,%d)", &p, &s)
				want = new(big.Rat).SetFrac(roundHalfAway(x, s), pow10(s))
			}
		}
		if got.Z == nil || got.rat().Cmp(want) != 0 {
			sig := "insert-ignore-row/column-not-converted"
			if errorsBefore > 0 {
				sig = "insert-ignore-row/column-after-ignored-error-not-converted"
			}
			fail(id, sig, fmt.Sprintf("%s: column %d (%s, %s) stored %s, expected %s", q, i, rc.Type, rc.Text, eng.Val(rd.Rows[0][i]), want.RatString()))
			return
		}
		if rc.Class == "over" || rc.Class == "under" || rc.Class == "junk" {
			errorsBefore++
		}
	}
}
