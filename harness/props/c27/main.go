// Driver for C27 (storing a value keeps it exactly or reports the change): calls sql.Type.Convert of the integer
// types, DECIMAL and string types from /repo directly on generated values, records (target, source, observed
// value/flag/error) for the Coq model, and evaluates the property predicate on the implementation alone:
// exact-or-flagged against a math/big reference, nearest value when flagged, idempotence, and the same through
// INSERT / INSERT IGNORE + SELECT on the engine.
package main

import (
	"context"
	"fmt"
	"math/big"
	"math/rand"
	"regexp"
	"strings"
	"unicode/utf8"

	"github.com/cockroachdb/apd/v3"
	"github.com/dolthub/vitess/go/sqltypes"

	"github.com/dolthub/go-mysql-server/sql"
	"github.com/dolthub/go-mysql-server/sql/types"

	"verifharness/lib"
	"verifharness/lib/eng"
)

type caseT struct {
	Target string   `json:"target"` // i8..u64 | decimal(p,s) | coldecimal(p,s) | varchar(n) | char(n) | varbinary(n)
	Src    string   `json:"src"`    // int8..uint64 | int | uint | decimal | string
	Text   string   `json:"text"`   // the source value as text
	Mode   string   `json:"mode"`   // convert | insert | insert-ignore | insert-temporal | insert-ignore-row
	Row    []rowCol `json:"row,omitempty"`
}

type intType struct {
	Name, SQL, Coq string
	Min, Max       *big.Int
	T              sql.Type
}

func bi(s string) *big.Int {
	z, ok := new(big.Int).SetString(s, 10)
	if !ok {
		panic("bad int " + s)
	}
	return z
}

var intTypes = []intType{
	{"i8", "tinyint", "I8", bi("-128"), bi("127"), types.Int8},
	{"u8", "tinyint unsigned", "U8", bi("0"), bi("255"), types.Uint8},
	{"i16", "smallint", "I16", bi("-32768"), bi("32767"), types.Int16},
	{"u16", "smallint unsigned", "U16", bi("0"), bi("65535"), types.Uint16},
	{"i24", "mediumint", "I24", bi("-8388608"), bi("8388607"), types.Int24},
	{"u24", "mediumint unsigned", "U24", bi("0"), bi("16777215"), types.Uint24},
	{"i32", "int", "I32", bi("-2147483648"), bi("2147483647"), types.Int32},
	{"u32", "int unsigned", "U32", bi("0"), bi("4294967295"), types.Uint32},
	{"i64", "bigint", "I64", bi("-9223372036854775808"), bi("9223372036854775807"), types.Int64},
	{"u64", "bigint unsigned", "U64", bi("0"), bi("18446744073709551615"), types.Uint64},
}

func intTypeByName(n string) *intType {
	for i := range intTypes {
		if intTypes[i].Name == n {
			return &intTypes[i]
		}
	}
	return nil
}

var goKinds = []struct {
	Name     string
	Min, Max *big.Int
}{
	{"int8", bi("-128"), bi("127")}, {"uint8", bi("0"), bi("255")}, {"int16", bi("-32768"), bi("32767")}, {"uint16", bi("0"), bi("65535")},
	{"int32", bi("-2147483648"), bi("2147483647")}, {"uint32", bi("0"), bi("4294967295")},
	{"int64", bi("-9223372036854775808"), bi("9223372036854775807")}, {"uint64", bi("0"), bi("18446744073709551615")},
	{"int", bi("-9223372036854775808"), bi("9223372036854775807")},
	// Go uint sources are not fed: no engine code produces them (audit), so they are outside the property
}

var boundaries []*big.Int

func init() {
	seen := map[string]bool{}
	add := func(z *big.Int) {
		if !seen[z.String()] {
			seen[z.String()] = true
			boundaries = append(boundaries, new(big.Int).Set(z))
		}
	}
	for _, e := range []uint{0, 1, 7, 8, 15, 16, 23, 24, 31, 32, 62, 63, 64} {
		p := new(big.Int).Lsh(big.NewInt(1), e)
		for d := int64(-2); d <= 2; d++ {
			v := new(big.Int).Add(p, big.NewInt(d))
			add(v)
			add(new(big.Int).Neg(v))
		}
	}
	add(big.NewInt(0))
}

func goValue(kind string, z *big.Int) interface{} {
	switch kind {
	case "int8":
		return int8(z.Int64())
	case "int16":
		return int16(z.Int64())
	case "int32":
		return int32(z.Int64())
	case "int64":
		return z.Int64()
	case "int":
		return int(z.Int64())
	case "uint8":
		return uint8(z.Uint64())
	case "uint16":
		return uint16(z.Uint64())
	case "uint32":
		return uint32(z.Uint64())
	case "uint64":
		return z.Uint64()
	case "uint":
		return uint(z.Uint64())
	}
	panic("kind " + kind)
}

// observed value: signed Go integer, unsigned Go integer or decimal
type val struct {
	Kind  string // si | su | dec | str | bytes | nil | other
	Go    string
	Z     *big.Int
	Scale int64
	S     string
}

func observe(v interface{}) val {
	mk := func(kind, g string, z *big.Int) val { return val{Kind: kind, Go: g, Z: z} }
	switch x := v.(type) {
	case nil:
		return val{Kind: "nil"}
	case int8:
		return mk("si", "int8", big.NewInt(int64(x)))
	case int16:
		return mk("si", "int16", big.NewInt(int64(x)))
	case int32:
		return mk("si", "int32", big.NewInt(int64(x)))
	case int64:
		return mk("si", "int64", big.NewInt(x))
	case int:
		return mk("si", "int", big.NewInt(int64(x)))
	case uint8:
		return mk("su", "uint8", new(big.Int).SetUint64(uint64(x)))
	case uint16:
		return mk("su", "uint16", new(big.Int).SetUint64(uint64(x)))
	case uint32:
		return mk("su", "uint32", new(big.Int).SetUint64(uint64(x)))
	case uint64:
		return mk("su", "uint64", new(big.Int).SetUint64(x))
	case uint:
		return mk("su", "uint", new(big.Int).SetUint64(uint64(x)))
	case *apd.Decimal:
		if x == nil {
			return val{Kind: "nil"}
		}
		if x.Form != apd.Finite {
			return val{Kind: "other"}
		}
		z := new(big.Int).Set(x.Coeff.MathBigInt())
		if x.Negative {
			z.Neg(z)
		}
		sc := -int64(x.Exponent)
		if sc < 0 {
			z.Mul(z, new(big.Int).Exp(big.NewInt(10), big.NewInt(-sc), nil))
			sc = 0
		}
		return val{Kind: "dec", Go: "decimal", Z: z, Scale: sc}
	case string:
		return val{Kind: "str", S: x}
	case []byte:
		return val{Kind: "bytes", S: string(x)}
	}
	return val{Kind: "other"}
}

func (v val) rat() *big.Rat {
	r := new(big.Rat).SetInt(v.Z)
	if v.Kind == "dec" && v.Scale > 0 {
		r.Quo(r, new(big.Rat).SetInt(pow10(v.Scale)))
	}
	return r
}

var decimalText = regexp.MustCompile(`^[+-]?\d*\.\d+(e[+-]?\d+)?$|^[+-]?\d+e[+-]?\d+$`)

// cleanInt: surrounding blanks and one leading '+' are tolerated (as MySQL does); the rest must be [-]digits.
func cleanInt(x string) (*big.Int, bool) {
	t := strings.Trim(x, " \t")
	if strings.HasPrefix(t, "+") {
		t = t[1:]
		if t == "" || t[0] < '0' || t[0] > '9' {
			return nil, false
		}
	}
	if t == "" || strings.ContainsAny(t, " \t\n_") {
		return nil, false
	}
	for i := 0; i < len(t); i++ {
		if !(t[i] >= '0' && t[i] <= '9') && !(i == 0 && t[i] == '-' && len(t) > 1) {
			return nil, false
		}
	}
	return new(big.Int).SetString(t, 10)
}

// zbytes prints a string as a Coq list of Z byte values.
func zbytes(x string) string {
	items := make([]string, len(x))
	for i := 0; i < len(x); i++ {
		items[i] = fmt.Sprintf("%d%%Z", x[i])
	}
	return lib.CoqList(items)
}

// randSrc adapts the splitmix stream to math/rand's Source for big.Int.Rand.
type rngSource struct{ r *lib.RNG }

func (s rngSource) Int63() int64    { return s.r.Int63() }
func (s rngSource) Seed(int64)      {}
func (s rngSource) Uint64() uint64  { return s.r.Uint64() }
func randSrc(r *lib.RNG) *rand.Rand { return rand.New(rngSource{r}) }

func pow10(k int64) *big.Int { return new(big.Int).Exp(big.NewInt(10), big.NewInt(k), nil) }

func (v val) coq() string {
	switch v.Kind {
	case "si":
		return "(SI " + lib.CoqZStr(v.Z.String()) + ")"
	case "su":
		if v.Go == "uint" {
			return "(SW " + lib.CoqZStr(v.Z.String()) + ")"
		}
		return "(SU " + lib.CoqZStr(v.Z.String()) + ")"
	default:
		return fmt.Sprintf("(SD %s %d%%Z)", lib.CoqZStr(v.Z.String()), v.Scale)
	}
}

// roundHalfAway rounds x to `scale` fraction digits, ties away from zero; returns the scaled integer.
func roundHalfAway(x *big.Rat, scale int64) *big.Int {
	s := new(big.Rat).Mul(x, new(big.Rat).SetInt(pow10(scale)))
	neg := s.Sign() < 0
	s.Abs(s)
	s.Add(s, big.NewRat(1, 2))
	q := new(big.Int).Quo(s.Num(), s.Denom()) // floor for non-negative
	if neg {
		q.Neg(q)
	}
	return q
}

var flagName = map[sql.ConvertInRange]string{sql.InRange: "InRange", sql.Overflow: "Overflow", sql.Underflow: "Underflow"}

// ---------- generators ----------

var decShapes = [][2]int{{5, 0}, {10, 2}, {20, 5}, {38, 10}, {65, 30}, {18, 9}, {30, 28}, {1, 0}, {3, 3}}

func randDigits(r *lib.RNG, n int) string {
	var sb strings.Builder
	mode := r.Intn(4)
	for i := 0; i < n; i++ {
		d := r.Intn(10)
		switch mode {
		case 0:
			d = 9
		case 1:
			d = 0
			if i == 0 {
				d = 1
			}
		}
		if i == 0 && d == 0 && n > 1 {
			d = 1 + r.Intn(9)
		}
		sb.WriteByte(byte('0' + d))
	}
	return sb.String()
}

func randDecText(r *lib.RNG) string {
	var sb strings.Builder
	if r.Chance(2, 5) {
		sb.WriteByte('-')
	}
	switch r.Intn(6) {
	case 0: // around an integer boundary with a fraction
		b := new(big.Int).Abs(lib.Pick(r, boundaries))
		sb.WriteString(b.String())
	case 1:
		sb.WriteString(randDigits(r, r.Range(1, 40)))
	default:
		sb.WriteString(randDigits(r, r.Range(1, 12)))
	}
	if r.Chance(4, 5) {
		sb.WriteByte('.')
		n := r.Range(1, 32)
		if r.Chance(1, 2) {
			n = r.Range(1, 4)
		}
		switch r.Intn(5) {
		case 0:
			sb.WriteString(strings.Repeat("0", n-1) + "5") // ...05 / .5 ties
		case 1:
			sb.WriteString("5" + strings.Repeat("0", n-1))
		case 2:
			sb.WriteString("4" + strings.Repeat("9", n-1))
		default:
			sb.WriteString(randDigits(r, n))
		}
	}
	return sb.String()
}

func genIntFor(r *lib.RNG, lo, hi *big.Int, tgt *intType) *big.Int {
	in := func(z *big.Int) bool { return z.Cmp(lo) >= 0 && z.Cmp(hi) <= 0 }
	for k := 0; k < 40; k++ {
		var z *big.Int
		switch r.Intn(6) {
		case 0, 1:
			z = lib.Pick(r, boundaries)
		case 2:
			if tgt != nil { // around the target's own limits
				z = new(big.Int).Add(lib.Pick(r, []*big.Int{tgt.Min, tgt.Max}), big.NewInt(int64(r.Intn(5)-2)))
			} else {
				z = big.NewInt(int64(r.Intn(2001) - 1000))
			}
		case 3:
			z = big.NewInt(int64(r.Intn(401) - 200))
		default:
			span := new(big.Int).Sub(hi, lo)
			x := new(big.Int).SetUint64(r.Uint64())
			x.Lsh(x, 64).Or(x, new(big.Int).SetUint64(r.Uint64()))
			z = x.Mod(x, span.Add(span, big.NewInt(1))).Add(x, lo)
		}
		if in(z) {
			return z
		}
	}
	return new(big.Int).Set(hi)
}

var strAlphabet = []string{"a", "b", "Z", "0", "9", " ", "é", "ß", "日", "😀", "_"}

func gen(r *lib.RNG) caseT {
	var c caseT
	c.Mode = "convert"
	switch r.Intn(12) {
	case 0:
		return genTemporal(r)
	case 1:
		if r.Bool() {
			return genRow(r)
		}
		return genEsb(r)
	}
	switch r.Intn(20) {
	case 0, 1: // strings into string types (implementation-side predicate only)
		n := r.Range(0, 8)
		c.Target = fmt.Sprintf("%s(%d)", lib.Pick(r, []string{"varchar", "char", "varbinary"}), n)
		c.Src = "string"
		l := r.Range(0, n+3)
		var sb strings.Builder
		for i := 0; i < l; i++ {
			sb.WriteString(lib.Pick(r, strAlphabet))
		}
		c.Text = sb.String()
		return c
	case 2: // numeric strings into integer types (implementation-side predicate only)
		t := &intTypes[r.Intn(len(intTypes))]
		c.Target = t.Name
		c.Src = "string"
		z := genIntFor(r, bi("-100000000000000000000"), bi("100000000000000000000"), t)
		switch r.Intn(8) {
		case 0:
			c.Text = z.String() + lib.Pick(r, []string{"abc", "x", " 1", "-", ".5", "e3"})
		case 1:
			c.Text = lib.Pick(r, []string{"abc", "", "-", "x1", "+", " ", "\t-\t", "+-5", "--5", "- 5"})
		case 2:
			c.Text = lib.Pick(r, []string{" ", "\t", "  "}) + z.String() + lib.Pick(r, []string{"", " ", "\t "})
		case 3:
			c.Text = "+" + new(big.Int).Abs(z).String()
		case 4:
			c.Text = lib.Pick(r, []string{"00", "-000", "0"}) + new(big.Int).Abs(z).String()
		default:
			c.Text = z.String()
		}
		if r.Chance(1, 4) {
			c.Mode = "insert"
		}
		return c
	}
	var tgt *intType
	if r.Chance(7, 10) {
		tgt = &intTypes[r.Intn(len(intTypes))]
		c.Target = tgt.Name
	} else {
		ds := lib.Pick(r, decShapes)
		c.Target = fmt.Sprintf("%s(%d,%d)", lib.Pick(r, []string{"decimal", "coldecimal"}), ds[0], ds[1])
	}
	if r.Chance(1, 3) {
		c.Src = "decimal"
		c.Text = randDecText(r)
		if tgt != nil && r.Chance(1, 2) { // around the target's limits with a fraction
			b := lib.Pick(r, []*big.Int{tgt.Min, tgt.Max, bi("0"), bi("-1")})
			c.Text = b.String() + lib.Pick(r, []string{".4", ".5", ".49999", ".50000", ".6", ".0", ".05"})
		}
	} else {
		k := goKinds[r.Intn(len(goKinds))]
		c.Src = k.Name
		c.Text = genIntFor(r, k.Min, k.Max, tgt).String()
	}
	if r.Chance(1, 6) {
		c.Mode = lib.Pick(r, []string{"insert", "insert-ignore"})
	}
	return c
}

// ---------- running ----------

var ctx = sql.NewEmptyContext()
var engine *eng.E
var sess *eng.S
var tables = map[string]bool{}
var sigSeen = map[string]int{}

func parseTarget(t string) (typ sql.Type, it *intType, p, s int64, col bool, kind string) {
	if it = intTypeByName(t); it != nil {
		return it.T, it, 0, 0, false, "int"
	}
	var name string
	if i := strings.Index(t, "("); i > 0 {
		name = t[:i]
	}
	switch name {
	case "decimal", "coldecimal":
		fmt.Sscanf(t[len(name):], "(%d,%d)", &p, &s)
		if name == "coldecimal" {
			return types.MustCreateColumnDecimalType(uint8(p), uint8(s)), nil, p, s, true, "dec"
		}
		return types.MustCreateDecimalType(uint8(p), uint8(s)), nil, p, s, false, "dec"
	case "varchar":
		fmt.Sscanf(t[len(name):], "(%d)", &p)
		return types.MustCreateString(sqltypes.VarChar, p, sql.Collation_utf8mb4_bin), nil, p, 0, false, "str"
	case "char":
		fmt.Sscanf(t[len(name):], "(%d)", &p)
		return types.MustCreateString(sqltypes.Char, p, sql.Collation_utf8mb4_bin), nil, p, 0, false, "str"
	case "varbinary":
		fmt.Sscanf(t[len(name):], "(%d)", &p)
		return types.MustCreateBinary(sqltypes.VarBinary, p), nil, p, 0, false, "bin"
	}
	panic("target " + t)
}

func sqlType(t string) string {
	if it := intTypeByName(t); it != nil {
		return it.SQL
	}
	return strings.TrimPrefix(t, "col")
}

func run(c *lib.Ctx, cs caseT) {
	if cs.Mode == "insert-temporal" || cs.Mode == "insert-ignore-row" || cs.Mode == "convert-esb" {
		c.Count("mode:" + cs.Mode)
		f := func(id int, sig, what string) {
			sigSeen[sig]++
			if sigSeen[sig] <= 5 {
				c.PredFail(id, sig, what, cs)
			} else {
				c.Count("predicate_failure:" + sig)
			}
		}
		if cs.Mode == "insert-temporal" {
			runTemporal(c, cs, f)
		} else if cs.Mode == "convert-esb" {
			runEsb(c, cs, f)
		} else {
			runRow(c, cs, f)
		}
		return
	}
	typ, it, p, s, col, tkind := parseTarget(cs.Target)
	c.Count("target:" + tkind)
	c.Count("mode:" + cs.Mode)
	failed := false
	fail := func(id int, sig, what string) {
		failed = true
		sigSeen[sig]++
		if sigSeen[sig] <= 5 {
			c.PredFail(id, sig, what, cs)
		} else {
			c.Count("predicate_failure:" + sig)
		}
	}
	// the source value
	var srcV interface{}
	var src val
	switch cs.Src {
	case "decimal":
		d, _, err := apd.NewFromString(cs.Text)
		if err != nil {
			panic(err)
		}
		srcV = d
	case "string":
		srcV = cs.Text
	default:
		srcV = goValue(cs.Src, bi(cs.Text))
	}
	src = observe(srcV)
	c.Count("src:" + cs.Src)

	if cs.Mode != "convert" {
		runInsert(c, cs, it, p, s, src, fail)
		return
	}

	var out interface{}
	var flag sql.ConvertInRange
	var err error
	pn, pv := lib.Recover(func() { out, flag, err = typ.Convert(context.Background(), srcV) })
	desc := fmt.Sprintf("%s.Convert(%s %s)", cs.Target, cs.Src, cs.Text)
	if pn {
		id := c.CaseNoModel(cs, "")
		c.PredChecked()
		fail(id, "convert/panic", desc+" panicked: "+pv)
		return
	}
	ov := observe(out)

	// ---- strings: implementation-side predicate only ----
	if tkind == "str" || tkind == "bin" {
		outS := "TErr"
		if err == nil && flag == sql.InRange && (ov.Kind == "str" || ov.Kind == "bytes") {
			outS = "(TOk " + zbytes(ov.S) + ")"
		}
		var id int
		if utf8.ValidString(cs.Text) || tkind == "bin" {
			id = c.Case(fmt.Sprintf("(TextCase %s %d%%Z %s %d%%Z %s)", lib.CoqBool(tkind == "bin"), p, zbytes(cs.Text), utf8.RuneCountInString(cs.Text), outS), cs, "str|"+cs.Target+"|"+cs.Text)
		} else {
			id = c.CaseNoModel(cs, "str|"+cs.Target+"|"+cs.Text)
		}
		c.PredChecked()
		n := int64(utf8.RuneCountInString(cs.Text))
		if tkind == "bin" {
			n = int64(len(cs.Text))
		}
		switch {
		case n > p:
			c.Count("string:over-long")
			if err == nil && flag == sql.InRange {
				fail(id, "convert/"+tkind+"/over-long-accepted", fmt.Sprintf("%s accepted %d characters: %q", desc, n, ov.S))
			}
		case err != nil || flag != sql.InRange:
			fail(id, "convert/"+tkind+"/fitting-rejected", fmt.Sprintf("%s rejected: %v", desc, err))
		case ov.S != cs.Text:
			fail(id, "convert/"+tkind+"/altered", fmt.Sprintf("%s = %q", desc, ov.S))
		default:
			o2, f2, e2 := typ.Convert(context.Background(), out)
			if e2 != nil || f2 != sql.InRange || observe(o2).S != ov.S {
				fail(id, "convert/"+tkind+"/not-idempotent", fmt.Sprintf("%s = %q, again = %q (%v)", desc, ov.S, observe(o2).S, e2))
			}
		}
		return
	}
	if cs.Src == "string" { // numeric text into an integer type
		var id int
		if it.Coq != "U64" && !pn {
			outS := "CErr"
			if err == nil && (ov.Kind == "si" || ov.Kind == "su") {
				outS = fmt.Sprintf("(COk %s %s)", ov.coq(), flagName[flag])
			}
			id = c.Case(fmt.Sprintf("(StrIntCase %s %s %s)", it.Coq, zbytes(cs.Text), outS), cs, "numstr|"+cs.Target+"|"+cs.Text)
		} else {
			id = c.CaseNoModel(cs, "numstr|"+cs.Target+"|"+cs.Text)
		}
		c.PredChecked()
		z, clean := cleanInt(cs.Text)
		switch {
		case clean && z.Cmp(it.Min) >= 0 && z.Cmp(it.Max) <= 0:
			if err != nil || flag != sql.InRange || (ov.Kind != "si" && ov.Kind != "su") || ov.Z.Cmp(z) != 0 {
				fail(id, "convert/"+it.Name+"/string/representable-altered", fmt.Sprintf("%s = %v flag %s err %v", desc, out, flagName[flag], err))
			}
		case clean:
			c.Count("numstr:out-of-range")
			if err == nil && flag == sql.InRange {
				fail(id, "convert/"+it.Name+"/string/out-of-range-unflagged", fmt.Sprintf("%s = %v, in range, no error", desc, out))
			}
		default:
			c.Count("numstr:malformed")
			if tr := strings.Trim(cs.Text, " \t\n\r"); err == nil && flag == sql.InRange && (tr == "" || tr == "-" || tr == "+") {
				fail(id, "convert/int/string/empty-or-sign-only-unreported", fmt.Sprintf("%s = %v, in range, no error", desc, out))
			} else if err == nil && flag == sql.InRange {
				fail(id, "convert/"+it.Name+"/string/malformed-unreported", fmt.Sprintf("%s = %v, in range, no error", desc, out))
			}
		}
		return
	}

	// ---- integers and decimals: model + predicate ----
	var tcoq string
	if it != nil {
		tcoq = "(TInt " + it.Coq + ")"
	} else {
		tcoq = fmt.Sprintf("(TDec %d%%Z %d%%Z %s)", p, s, lib.CoqBool(col))
	}
	outCoq := "CErr"
	if err == nil {
		if ov.Kind != "si" && ov.Kind != "su" && ov.Kind != "dec" {
			id := c.CaseNoModel(cs, "")
			c.PredChecked()
			fail(id, "convert/non-numeric-result", fmt.Sprintf("%s = %v (%T)", desc, out, out))
			return
		}
		outCoq = fmt.Sprintf("(COk %s %s)", ov.coq(), flagName[flag])
	}
	id := c.Case("(NumCase "+tcoq+" "+src.coq()+" "+outCoq+")", cs, cs.Target+"|"+src.coq())
	c.PredChecked()
	c.Count("flag:" + map[bool]string{true: "error", false: flagName[flag]}[err != nil])
	x := src.rat()
	tn := cs.Target
	if it != nil {
		xr := roundHalfAway(x, 0)
		if err != nil {
			fail(id, "convert/"+tn+"/unexpected-error", fmt.Sprintf("%s: %v", desc, err))
			return
		}
		wantGo := map[string]string{"I8": "int8", "U8": "uint8", "I16": "int16", "U16": "uint16", "I24": "int32", "U24": "uint32", "I32": "int32", "U32": "uint32", "I64": "int64", "U64": "uint64"}[it.Coq]
		if ov.Go != wantGo {
			fail(id, "convert/"+tn+"/wrong-carrier", fmt.Sprintf("%s returned a %s", desc, ov.Go))
			return
		}
		maxR, minR := new(big.Rat).SetInt(it.Max), new(big.Rat).SetInt(it.Min)
		switch flag {
		case sql.InRange:
			if ov.Z.Cmp(xr) != 0 || xr.Cmp(it.Min) < 0 || xr.Cmp(it.Max) > 0 {
				fail(id, "convert/"+tn+"/in-range-but-altered", fmt.Sprintf("%s = %s flagged InRange, exact %s", desc, ov.Z, x.RatString()))
				return
			}
		default:
			// a flagged result reports the change (strict INSERT rejects it); at the API level the property demands neither a
			// particular flag nor the nearest value (that is checked under INSERT IGNORE) -- only that the value really is
			// not representable
			if x.Cmp(minR) >= 0 && x.Cmp(maxR) <= 0 {
				fail(id, "convert/"+tn+"/flagged-although-representable", fmt.Sprintf("%s flagged %s, exact %s", desc, flagName[flag], x.RatString()))
			}
			return
		}
	} else {
		xs := x // the documented exception: more fraction digits than the type has are rounded half away from zero
		if src.Kind == "dec" && src.Scale > s {
			xs = new(big.Rat).SetFrac(roundHalfAway(x, s), pow10(s))
		}
		limit := new(big.Rat).SetInt(pow10(p - s))
		if new(big.Rat).Abs(xs).Cmp(limit) >= 0 {
			c.Count("decimal:out-of-range")
			if err == nil && flag == sql.InRange {
				fail(id, "convert/decimal/out-of-range-unflagged", fmt.Sprintf("%s = %v in range, no error", desc, out))
			}
			return
		}
		if err != nil || flag != sql.InRange {
			fail(id, "convert/decimal/representable-rejected", fmt.Sprintf("%s: flag %s err %v", desc, flagName[flag], err))
			return
		}
		if ov.Kind != "dec" || ov.rat().Cmp(xs) != 0 || (col && ov.Scale != s) || ov.Scale > s {
			fail(id, "convert/decimal/altered", fmt.Sprintf("%s = %v, expected %s at scale <= %d", desc, out, xs.FloatString(int(s)), s))
			return
		}
	}
	// converting the converted value again never changes it
	o2, f2, e2 := typ.Convert(context.Background(), out)
	v2 := observe(o2)
	if !failed && flag == sql.InRange {
		if e2 != nil || f2 != sql.InRange || v2.Kind != ov.Kind || v2.Z.Cmp(ov.Z) != 0 || v2.Scale != ov.Scale {
			fail(id, "convert/"+tkind+"/not-idempotent", fmt.Sprintf("%s = %v, converting that again = %v flag %s err %v", desc, out, o2, flagName[f2], e2))
		}
	}
}

// runInsert stores the value through INSERT / INSERT IGNORE and reads it back (implementation-side predicate only).
func runInsert(c *lib.Ctx, cs caseT, it *intType, p, s int64, src val, fail func(int, string, string)) {
	if engine == nil {
		engine = eng.New("db")
		sess = engine.Session()
	}
	id := c.CaseNoModel(cs, cs.Mode+"|"+cs.Target+"|"+cs.Text)
	c.PredChecked()
	st := sqlType(cs.Target)
	name := "t_" + strings.NewReplacer(" ", "_", "(", "_", ")", "", ",", "_").Replace(st)
	if !tables[name] {
		sess.MustExec(fmt.Sprintf("CREATE TABLE %s (c %s)", name, st))
		tables[name] = true
	}
	sess.MustExec("DELETE FROM " + name)
	kw := "INSERT"
	if cs.Mode == "insert-ignore" {
		kw = "INSERT IGNORE"
	}
	lit := cs.Text
	if cs.Src == "string" {
		lit = "'" + strings.ReplaceAll(cs.Text, "'", "''") + "'"
	}
	q := fmt.Sprintf("%s INTO %s VALUES (%s)", kw, name, lit)
	r := sess.Query(q)
	if r.Panic != "" {
		fail(id, cs.Mode+"/panic", q+" panicked: "+r.Panic)
		return
	}
	if cs.Src == "string" { // strict INSERT of text into an integer column: malformed text must be rejected
		if it == nil || cs.Mode != "insert" {
			return
		}
		if decimalText.MatchString(strings.Trim(cs.Text, " \t")) {
			c.Count("numstr:decimal-text-unjudged")
			return
		}
		z, clean := cleanInt(cs.Text)
		rd := sess.Query("SELECT c FROM " + name)
		stored := r.Err == nil && rd.Err == nil && len(rd.Rows) == 1
		switch {
		case clean && z.Cmp(it.Min) >= 0 && z.Cmp(it.Max) <= 0:
			if !stored || observe(rd.Rows[0][0]).Z == nil || observe(rd.Rows[0][0]).Z.Cmp(z) != 0 {
				sig := "insert/" + it.Name + "/string/representable-not-stored-exactly"
				if it.Name == "u64" && strings.HasPrefix(strings.Trim(cs.Text, " \t"), "+") {
					sig = "insert/u64/string/plus-prefixed-not-stored-exactly"
				}
				got := "nothing"
				if stored {
					got = eng.Val(rd.Rows[0][0])
				}
				fail(id, sig, fmt.Sprintf("%s: stored %s, err %v", q, got, r.Err))
			}
		case stored:
			tr := strings.Trim(cs.Text, " \t\n\r")
			if tr == "" || tr == "-" || tr == "+" {
				fail(id, "insert/int/string/empty-or-sign-only-stored", fmt.Sprintf("%s (strict) stored %v", q, rd.Rows[0][0]))
			} else if clean {
				fail(id, "insert/"+it.Name+"/string/out-of-range-stored", fmt.Sprintf("%s (strict) stored %v", q, rd.Rows[0][0]))
			} else {
				fail(id, "insert/"+it.Name+"/string/malformed-stored", fmt.Sprintf("%s (strict) stored %v", q, rd.Rows[0][0]))
			}
		}
		return
	}
	x := src.rat()
	var want, lo, hi *big.Rat // the exact (or documented rounded) value and the representable range
	var tn string
	if it != nil {
		want = new(big.Rat).SetInt(roundHalfAway(x, 0))
		lo, hi = new(big.Rat).SetInt(it.Min), new(big.Rat).SetInt(it.Max)
		tn = it.Name
	} else {
		want = new(big.Rat).SetFrac(roundHalfAway(x, s), pow10(s))
		hi = new(big.Rat).Sub(new(big.Rat).SetInt(pow10(p-s)), new(big.Rat).SetFrac(big.NewInt(1), pow10(s)))
		lo = new(big.Rat).Neg(hi)
		tn = "decimal"
	}
	fits := want.Cmp(lo) >= 0 && want.Cmp(hi) <= 0
	if r.Err != nil {
		c.Count("insert:rejected")
		if fits && x.Cmp(lo) >= 0 && x.Cmp(hi) <= 0 { // a fraction beyond the limit may be rejected although it would round into range
			fail(id, cs.Mode+"/"+tn+"/representable-rejected", fmt.Sprintf("%s: %v", q, r.Err))
		} else if cs.Mode == "insert-ignore" {
			fail(id, cs.Mode+"/"+tn+"/out-of-range-rejected-under-ignore", fmt.Sprintf("%s: %v", q, r.Err))
		}
		return
	}
	rd := sess.Query("SELECT c FROM " + name)
	if rd.Err != nil || len(rd.Rows) != 1 {
		fail(id, cs.Mode+"/"+tn+"/row-not-stored", fmt.Sprintf("%s succeeded but %d rows are stored (%v)", q, len(rd.Rows), rd.Err))
		return
	}
	got := observe(rd.Rows[0][0])
	if got.Kind != "si" && got.Kind != "su" && got.Kind != "dec" {
		fail(id, cs.Mode+"/"+tn+"/non-numeric-stored", fmt.Sprintf("%s stored %v", q, rd.Rows[0][0]))
		return
	}
	switch {
	case fits:
		if got.rat().Cmp(want) != 0 {
			fail(id, cs.Mode+"/"+tn+"/representable-altered", fmt.Sprintf("%s stored %s, expected %s", q, got.rat().RatString(), want.RatString()))
		}
	case cs.Mode == "insert":
		fail(id, "insert/"+tn+"/out-of-range-stored", fmt.Sprintf("%s (strict) stored %s for the unrepresentable %s", q, got.rat().RatString(), x.RatString()))
	default:
		c.Count("insert-ignore:clamped")
		nearest := lo
		side := "underflow"
		if want.Cmp(hi) > 0 {
			nearest = hi
			side = "overflow"
		}
		if got.rat().Cmp(nearest) != 0 {
			fail(id, "insert-ignore/"+tn+"/"+side+"-not-nearest", fmt.Sprintf("%s stored %s, nearest representable is %s", q, got.rat().RatString(), nearest.RatString()))
		}
	}
}

func main() {
	lib.Main("C27", func(c *lib.Ctx) {
		c.Header = "From Coq Require Import List NArith ZArith.\nImport ListNotations.\nFrom GMS Require Import Codec.C25Arith Codec.C27Convert Codec.C27Strings Codec.C27Temporal Codec.C27Enum Corr.C27.\nOpen Scope N_scope."
		c.CaseType = "C27.case"
		c.MismatchFn = "C27.mismatches"
		c.SetRule("(target type, source value) pairs: targets = the ten integer types, DECIMAL(p,s) of nine shapes as column and " +
			"non-column type, VARCHAR/CHAR/VARBINARY(n); sources = Go integers of every carrier (type limits, +-2^k+-2, values " +
			"around the target's limits, uniform), decimals (ties, .49999, up to 40 integer and 32 fraction digits), numeric and " +
			"malformed strings, strings around the length limit (multi-byte); 1/6 of numeric pairs go through INSERT / " +
			"INSERT IGNORE + SELECT. Non-trivial = every case; distinct = distinct (target, source).")
		if c.ReplayFile != "" {
			var cs caseT
			lib.LoadReplay(c.ReplayFile, &cs)
			run(c, cs)
			return
		}
		corpus := []caseT{
			{"u8", "int64", "-1", "convert", nil}, {"u8", "int64", "-300", "convert", nil}, {"u16", "int8", "-1", "convert", nil},
			{"u24", "int32", "-1", "convert", nil}, {"u32", "int64", "-5", "convert", nil}, {"u64", "int64", "-1", "convert", nil},
			{"u64", "decimal", "-1", "convert", nil}, {"u64", "decimal", "-0.4", "convert", nil}, {"u64", "decimal", "-5", "convert", nil},
			{"u64", "int64", "-9223372036854775808", "convert", nil},
			{"i8", "int64", "128", "convert", nil}, {"i8", "int64", "-129", "convert", nil}, {"i8", "uint64", "18446744073709551615", "convert", nil},
			{"i64", "uint64", "9223372036854775808", "convert", nil}, {"i64", "decimal", "9223372036854775807.4", "convert", nil},
			{"i64", "decimal", "-9223372036854775808.5", "convert", nil}, {"i32", "decimal", "2147483647.5", "convert", nil},
			{"i32", "decimal", "2147483647.4", "convert", nil}, {"i8", "decimal", "-0.5", "convert", nil}, {"i8", "decimal", "0.49999", "convert", nil},
			{"u8", "decimal", "-0.4", "convert", nil}, {"u8", "decimal", "255.5", "convert", nil},
			{"coldecimal(10,2)", "decimal", "1.005", "convert", nil}, {"coldecimal(10,2)", "decimal", "99999999.995", "convert", nil},
			{"decimal(10,2)", "decimal", "1.5", "convert", nil}, {"coldecimal(5,0)", "int64", "99999", "convert", nil},
			{"coldecimal(5,0)", "int64", "100000", "convert", nil}, {"coldecimal(3,3)", "decimal", "0.9995", "convert", nil},
			{"coldecimal(65,30)", "uint64", "18446744073709551615", "convert", nil},
			{"u8", "int64", "-1", "insert", nil}, {"u8", "int64", "-1", "insert-ignore", nil}, {"u8", "int64", "300", "insert-ignore", nil},
			{"i8", "int64", "-300", "insert-ignore", nil}, {"u16", "int64", "-2", "insert-ignore", nil}, {"u24", "int64", "-2", "insert-ignore", nil},
			{"u32", "int64", "-2", "insert-ignore", nil}, {"u64", "int64", "-2", "insert-ignore", nil},
			{"coldecimal(5,2)", "decimal", "1000.5", "insert-ignore", nil}, {"coldecimal(5,2)", "decimal", "-1000.5", "insert-ignore", nil}, {"coldecimal(5,2)", "decimal", "1.005", "insert", nil},
			{"i32", "decimal", "1.5", "insert", nil},
			{"varchar(3)", "string", "日本語", "convert", nil}, {"varchar(3)", "string", "abcd", "convert", nil}, {"varbinary(3)", "string", "é1", "convert", nil},
			{"i32", "string", "", "insert", nil}, {"i32", "string", "-", "insert", nil}, {"u8", "string", "12abc", "insert", nil}, {"u8", "string", "300", "insert", nil},
			{"i8", "string", "12", "insert", nil}, {"i64", "string", "-9223372036854775809", "insert", nil}, {"i64", "string", "9223372036854775808", "insert", nil},
			{"u64", "string", "18446744073709551616", "insert", nil}, {"u64", "string", "+9007199254740993", "insert", nil}, {"u64", "string", "+18446744073709551615", "insert", nil}, {"i64", "string", "9223372036854775808", "convert", nil}, {"i32", "string", "", "convert", nil},
			{"u24", "decimal", "-18446744073709551617.5", "convert", nil},
			{"i8", "string", "12abc", "convert", nil}, {"i8", "string", "127", "convert", nil}, {"i8", "string", "128", "convert", nil}, {"u8", "string", "-1", "convert", nil},
		}
		tmp := func(t, x string) caseT { return caseT{Target: t, Src: "string", Text: x, Mode: "insert-temporal"} }
		for p := 0; p <= 6; p++ { // malformed text with a parsable prefix, every fsp
			corpus = append(corpus, tmp(fmt.Sprintf("datetime(%d)", p), "2023-01-15 10:30:45abc"), tmp(fmt.Sprintf("datetime(%d)", p), "2023-02-30 10:00:00"),
				tmp(fmt.Sprintf("timestamp(%d)", p), "2023-01-15 10:30:45abc"), tmp(fmt.Sprintf("datetime(%d)", p), "2023-01-15 10:30:45.5"),
				tmp(fmt.Sprintf("datetime(%d)", p), "1500-06-15 23:59:59.999999"))
		}
		corpus = append(corpus, tmp("date", "2023-02-30"), tmp("date", "2023-01-15abc"), tmp("date", "1500-06-15"), tmp("datetime(6)", "2023-01-15 25:00:00"),
			tmp("datetime(6)", "abc"), tmp("time(6)", "10:30:45abc"), tmp("time(6)", "11:59:30.451048abc"), tmp("time(6)", "00:00:00.499999 foo"), tmp("time(6)", "999:59:59"), tmp("time(6)", "839:00:00"), tmp("time(6)", "10:61:45"), tmp("year", "20x"), tmp("year", "1900"), tmp("year", "2023"),
			tmp("datetime(6)", "9998-12-31 23:59:59.999999"), tmp("datetime(0)", "1000-01-01 00:00:00"))
		esb := func(t, src, x string) caseT { return caseT{Target: t, Src: src, Text: x, Mode: "convert-esb"} }
		corpus = append(corpus, esb("bit(8)", "decimal", "-5.0"), esb("bit(64)", "int64", "-1"), esb("bit(64)", "decimal", "-1.0"), esb("bit(8)", "int64", "-5"),
			esb("bit(8)", "int64", "255"), esb("bit(8)", "int64", "256"), esb("set(3)", "decimal", "-3.0"), esb("set(3)", "int64", "7"), esb("set(3)", "int64", "8"),
			esb("set(3)", "int64", "-1"), esb("enum(3)", "int64", "0"), esb("enum(3)", "int64", "3"), esb("enum(3)", "int64", "4"), esb("enum(3)", "int64", "-1"),
			esb("enum(3)", "decimal", "2.5"), esb("bit(1)", "decimal", "0.5"))
		rowc := func(cols ...rowCol) caseT { return caseT{Mode: "insert-ignore-row", Row: cols} }
		corpus = append(corpus,
			rowc(rowCol{"tinyint", "1000", "over"}, rowCol{"mediumint", "9000000", "over"}, rowCol{"decimal(4,2)", "1.239", "frac"}),
			rowc(rowCol{"tinyint", "5", "fit"}, rowCol{"mediumint", "9000000", "over"}, rowCol{"decimal(4,2)", "1.239", "frac"}),
			rowc(rowCol{"tinyint", "'abc'", "junk"}, rowCol{"smallint", "-40000", "under"}, rowCol{"int unsigned", "4294967296", "over"}, rowCol{"decimal(10,3)", "2.9999", "frac"}),
			rowc(rowCol{"bigint", "9223372036854775808", "over"}, rowCol{"tinyint unsigned", "256", "over"}, rowCol{"int", "1.5", "frac"}))
		for _, cs := range corpus {
			run(c, cs)
		}
		for n := len(corpus); n < c.N; n++ {
			run(c, gen(c.R.Fork()))
		}
	})
}
