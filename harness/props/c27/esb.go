// ENUM / SET / BIT: Type.Convert of integers and decimals, compared with the Coq model (Codec/C27Enum.v); predicate on
// the implementation: an accepted value must be the exact source value (rounded half away from zero for a decimal)
// and lie in the type's domain -- negative inputs are never representable.
package main

import (
	"context"
	"fmt"
	"math/big"

	"github.com/cockroachdb/apd/v3"

	"github.com/dolthub/go-mysql-server/sql"
	"github.com/dolthub/go-mysql-server/sql/types"

	"verifharness/lib"
)

var memberNames = []string{"a", "b", "c", "d", "e", "f", "g", "h", "i", "j", "k", "l"}

func esbType(kind string, n int) sql.Type {
	switch kind {
	case "enum":
		return types.MustCreateEnumType(memberNames[:n], sql.Collation_utf8mb4_bin)
	case "set":
		return types.MustCreateSetType(memberNames[:n], sql.Collation_utf8mb4_bin)
	}
	return types.MustCreateBitType(uint8(n))
}

func genEsb(r *lib.RNG) caseT {
	kind := lib.Pick(r, []string{"enum", "set", "bit"})
	n := r.Range(1, 10)
	if kind == "bit" {
		n = lib.Pick(r, []int{1, 7, 8, 16, 31, 63, 64})
	}
	c := caseT{Mode: "convert-esb", Target: fmt.Sprintf("%s(%d)", kind, n)}
	lim := new(big.Int).Lsh(big.NewInt(1), uint(n))
	if kind == "enum" {
		lim = big.NewInt(int64(n) + 1)
	}
	var z *big.Int
	switch r.Intn(6) {
	case 0:
		z = big.NewInt(int64(r.Intn(5) - 2))
	case 1:
		z = new(big.Int).Add(lim, big.NewInt(int64(r.Intn(5)-3)))
	case 2:
		z = big.NewInt(-int64(r.Intn(300)))
	default:
		z = new(big.Int).Rand(randSrc(r), lim)
	}
	if r.Chance(1, 3) {
		c.Src = "decimal"
		c.Text = z.String() + lib.Pick(r, []string{".0", ".4", ".5", ".49", ".00"})
		return c
	}
	k := "int64"
	if z.Sign() >= 0 && r.Bool() {
		k = "uint64"
	}
	if z.Cmp(bi("9223372036854775807")) > 0 {
		k = "uint64"
	}
	c.Src, c.Text = k, z.String()
	return c
}

func runEsb(c *lib.Ctx, cs caseT, fail func(int, string, string)) {
	var kind string
	var n int
	for _, k := range []string{"enum", "set", "bit"} {
		if _, err := fmt.Sscanf(cs.Target, k+"(%d)", &n); err == nil {
			kind = k
			break
		}
	}
	typ := esbType(kind, n)
	c.Count("target:" + kind)
	var srcV interface{}
	if cs.Src == "decimal" {
		d, _, err := apd.NewFromString(cs.Text)
		if err != nil {
			panic(err)
		}
		srcV = d
	} else {
		srcV = goValue(cs.Src, bi(cs.Text))
	}
	src := observe(srcV)
	var out interface{}
	var flag sql.ConvertInRange
	var err error
	pn, pv := lib.Recover(func() { out, flag, err = typ.Convert(context.Background(), srcV) })
	if pn {
		id := c.CaseNoModel(cs, "")
		c.PredChecked()
		fail(id, "convert/"+kind+"/panic", cs.Target+".Convert("+cs.Text+") panicked: "+pv)
		return
	}
	ov := observe(out)
	outS := "EErr"
	accepted := err == nil && flag == sql.InRange && ov.Z != nil
	if accepted {
		outS = "(EOk " + lib.CoqZStr(ov.Z.String()) + ")"
	}
	kcode := map[string]int{"enum": 0, "set": 1, "bit": 2}[kind]
	id := c.Case(fmt.Sprintf("(EsbCase %d%%Z %d%%Z %s %s)", kcode, n, src.coq(), outS), cs, cs.Target+"|"+cs.Src+"|"+cs.Text)
	c.PredChecked()
	if !accepted {
		return
	}
	want := roundHalfAway(src.rat(), 0)
	desc := fmt.Sprintf("%s.Convert(%s %s) = %s", cs.Target, cs.Src, cs.Text, ov.Z)
	switch {
	case want.Sign() < 0 && src.Kind == "dec":
		fail(id, "convert/"+kind+"/negative-decimal-accepted", desc+" (a negative value is silently stored as a different one)")
	case want.Sign() < 0:
		fail(id, "convert/"+kind+"/negative-integer-accepted", desc+" (a negative value is silently stored as a different one)")
	case ov.Z.Cmp(want) != 0:
		fail(id, "convert/"+kind+"/altered", desc+", exact "+want.String())
	}
}
