// Driver for C37 (processlist.go): drives generated call histories against the real sqle.ProcessList with
// real sql.Contexts, records after every call the outcome, Processes(), Threads_connected /
// Threads_running and which contexts are cancelled (for the Coq model), and evaluates the property
// predicate with an independent session tracker.
package main

import (
	"context"
	gosql "database/sql"
	"fmt"
	"io"
	"log"
	"net"
	"sort"
	"strconv"
	"strings"
	"sync"
	"sync/atomic"
	"time"

	gomysql "github.com/go-sql-driver/mysql"
	"github.com/sirupsen/logrus"

	"github.com/dolthub/go-mysql-server/memory"
	"github.com/dolthub/go-mysql-server/server"

	sqle "github.com/dolthub/go-mysql-server"
	"github.com/dolthub/go-mysql-server/sql"
	"github.com/dolthub/go-mysql-server/sql/variables"

	"verifharness/lib"
	"verifharness/lib/eng"
)

type ev struct {
	K   string `json:"k"` // add ready remove beginq endq beginop endop kill
	C   uint32 `json:"c"`
	H   int    `json:"h,omitempty"`
	U   int    `json:"u,omitempty"`
	D   int    `json:"d,omitempty"`
	Pid uint64 `json:"pid,omitempty"`
	Q   int    `json:"q,omitempty"`
}

type caseT struct {
	Stream string `json:"stream"` // wf | failbegin | malformed
	Events []ev   `json:"events,omitempty"`
	// engine-kill stream
	Slow     string `json:"slow,omitempty"`
	KillStmt string `json:"kill,omitempty"`
}

func tok(prefix string, n int) string {
	if n == 0 {
		return ""
	}
	return prefix + strconv.Itoa(n)
}

func untok(prefix, s string) uint64 {
	if s == "" || s == "unauthenticated user" {
		return 0
	}
	n, err := strconv.Atoi(strings.TrimPrefix(s, prefix))
	if err != nil {
		panic("unexpected string in process list: " + s)
	}
	return uint64(n)
}

func statusVar(name string) uint64 {
	_, v, ok := sql.StatusVariables.GetGlobal(name)
	if !ok {
		panic("status variable missing: " + name)
	}
	return v.(uint64)
}

var sessCache = map[[4]int]sql.Session{}

func sess(c uint32, h, u, d int) sql.Session {
	key := [4]int{int(c), h, u, d}
	if s, ok := sessCache[key]; ok {
		return s
	}
	s := newSess(c, h, u, d)
	sessCache[key] = s
	return s
}

func newSess(c uint32, h, u, d int) sql.Session {
	s := sql.NewBaseSessionWithClientServer("srv", sql.Client{User: tok("u", u), Address: tok("h", h)}, c)
	s.SetCurrentDatabase(tok("d", d))
	return s
}

// ---- independent tracker of what the history means (the oracle of the predicate) ----
type tconn struct {
	phase int // 0 absent, 1 idle, 2 in operation, 3 in query
	pid   uint64
	q     int
	cur   int // id of the context handed out by the open bracket, -1 if none
}

type tracker struct {
	conns map[uint32]*tconn
	used  map[uint64]bool
	live  map[uint64]bool
	wf    bool
}

func (t *tracker) get(c uint32) *tconn {
	if t.conns[c] == nil {
		t.conns[c] = &tconn{cur: -1}
	}
	return t.conns[c]
}

// allowed reports whether the discipline of server/context.go + server/handler.go allows e next.
func (t *tracker) allowed(e ev) bool {
	tc := t.get(e.C)
	switch e.K {
	case "add":
		return tc.phase == 0
	case "ready":
		return tc.phase == 1 || tc.phase == 2
	case "remove":
		return tc.phase == 1
	case "beginq":
		return tc.phase == 1 && e.Pid != 0 && !t.used[e.Pid]
	case "endq":
		if tc.phase == 3 && tc.pid == e.Pid {
			return true
		}
		return e.Pid != 0 && t.used[e.Pid] && !t.live[e.Pid]
	case "beginop":
		return tc.phase == 1
	case "endop":
		return tc.phase == 2
	case "kill":
		return true
	}
	return false
}

type procObs struct {
	Conn    uint32
	Cmd     string
	Host    uint64
	User    uint64
	DB      uint64
	Query   uint64
	QPid    uint64
	HasKill bool
}

func run(c *lib.Ctx, cs caseT) {
	if cs.Stream == "engine-kill" {
		runEngineKill(c, cs)
		return
	}
	if cs.Stream == "server-kill" {
		runServerKill(c, cs)
		return
	}
	base := [2]uint64{statusVar("Threads_connected"), statusVar("Threads_running")} // the registry is global
	pl := sqle.NewProcessList()
	var ctxs []*sql.Context
	// server/handler.go: `sqlCtx, err = pl.BeginQuery(sqlCtx, q); defer pl.EndQuery(sqlCtx)` and plan.AddTrackedRowIter's
	// callback both pass the context RETURNED by BeginQuery (the one Kill cancels); same for BeginOperation/EndOperation.
	qctx := map[uint64]*sql.Context{}
	opctx := map[uint32]*sql.Context{}
	tr := &tracker{conns: map[uint32]*tconn{}, used: map[uint64]bool{}, live: map[uint64]bool{}, wf: true}
	checkPred := cs.Stream != "malformed"
	var items []string
	type fail struct{ sig, what string }
	var fails []fail
	addFail := func(sig, what string) {
		for _, f := range fails {
			if f.sig == sig {
				return
			}
		}
		fails = append(fails, fail{sig, what})
	}
	kills, deadEnds, readyInOp := 0, 0, 0

	for i, e := range cs.Events {
		allowed := tr.allowed(e)
		if !allowed {
			tr.wf = false
		}
		tcn := tr.get(e.C)
		before := map[int]bool{}
		for k, x := range ctxs {
			if x.Err() != nil {
				before[k] = true
			}
		}
		ownedBefore := tcn.cur
		// only these calls may cancel the connection's current context
		mayCancel := e.K == "kill" || e.K == "endop" || e.K == "remove" || (e.K == "endq" && tcn.phase == 3 && tcn.pid == e.Pid)
		outcome := "ODone"
		var evTerms []string
		var retErr error
		panicked, pv := lib.Recover(func() {
			switch e.K {
			case "add":
				pl.AddConnection(e.C, tok("h", e.H))
				evTerms = []string{fmt.Sprintf("EAddInc %d", e.C), fmt.Sprintf("EAddIns %d %d", e.C, e.H)}
			case "ready":
				pl.ConnectionReady(sess(e.C, e.H, e.U, e.D))
				evTerms = []string{fmt.Sprintf("EReady %d %d %d %d", e.C, e.H, e.U, e.D)}
			case "remove":
				evTerms = []string{fmt.Sprintf("ERemove %d", e.C)}
				pl.RemoveConnection(e.C)
			case "beginq":
				evTerms = []string{fmt.Sprintf("EBeginQ %d %d %d", e.C, e.Pid, e.Q)}
				in := sql.NewContext(context.Background(), sql.WithSession(sess(e.C, 0, 0, 0)), sql.WithPid(e.Pid))
				nc, err := pl.BeginQuery(in, tok("q", e.Q))
				retErr = err
				if err == nil {
					outcome = fmt.Sprintf("(OCtx %d)", len(ctxs))
					ctxs = append(ctxs, nc)
					qctx[e.Pid] = nc
				} else if sql.ErrPidAlreadyUsed.Is(err) {
					outcome = "OErrPidUsed"
				} else if strings.Contains(err.Error(), "not registered") {
					outcome = "OErrNotRegistered"
				} else {
					outcome = "OErrOpRunning"
				}
			case "endq":
				evTerms = []string{fmt.Sprintf("EEndQ %d %d", e.C, e.Pid)}
				in := qctx[e.Pid]
				if in == nil || in.Session.ID() != e.C { // ill-formed histories only: no such query on this connection
					in = sql.NewContext(context.Background(), sql.WithSession(sess(e.C, 0, 0, 0)), sql.WithPid(e.Pid))
				}
				pl.EndQuery(in)
			case "beginop":
				evTerms = []string{fmt.Sprintf("EBeginOp %d", e.C)}
				in := sql.NewContext(context.Background(), sql.WithSession(sess(e.C, 0, 0, 0)))
				nc, err := pl.BeginOperation(in)
				retErr = err
				if err == nil {
					outcome = fmt.Sprintf("(OCtx %d)", len(ctxs))
					ctxs = append(ctxs, nc)
					opctx[e.C] = nc
				} else if strings.Contains(err.Error(), "not registered") {
					outcome = "OErrNotRegistered"
				} else if strings.Contains(err.Error(), "already running") {
					outcome = "OErrOpRunning"
				} else {
					outcome = "OErrPidUsed"
				}
			case "endop":
				evTerms = []string{fmt.Sprintf("EEndOp %d", e.C)}
				in := opctx[e.C]
				if in == nil {
					in = sql.NewContext(context.Background(), sql.WithSession(sess(e.C, 0, 0, 0)))
				}
				pl.EndOperation(in)
			case "kill":
				evTerms = []string{fmt.Sprintf("EKill %d", e.C)}
				pl.Kill(e.C)
			default:
				panic("driver: unknown event " + e.K)
			}
		})
		if panicked {
			if strings.HasPrefix(pv, "driver:") || strings.Contains(pv, "unexpected string") {
				panic(pv)
			}
			outcome = "OPanic"
		}

		// ---- observe ----
		var ps []procObs
		for _, p := range pl.Processes() {
			ps = append(ps, procObs{p.Connection, string(p.Command), untok("h", p.Host), untok("u", p.User),
				untok("d", p.Database), untok("q", p.Query), p.QueryPid, p.Kill != nil})
		}
		sort.Slice(ps, func(a, b int) bool { return ps[a].Conn < ps[b].Conn })
		tcv, trv := statusVar("Threads_connected")-base[0], statusVar("Threads_running")-base[1]
		var canc []string
		newly := []int{}
		for k, x := range ctxs {
			if x.Err() != nil {
				canc = append(canc, strconv.Itoa(k))
				if !before[k] {
					newly = append(newly, k)
				}
			}
		}
		pvs := make([]string, len(ps))
		for k, p := range ps {
			cmd := map[string]string{"Connect": "CConnect", "Sleep": "CSleep", "Query": "CQuery"}[p.Cmd]
			if cmd == "" {
				panic("unexpected command " + p.Cmd)
			}
			pvs[k] = fmt.Sprintf("PV %d %s %d %d %d %d %d %s", p.Conn, cmd, p.Host, p.User, p.DB, p.Query, p.QPid, lib.CoqBool(p.HasKill))
		}
		for k, t := range evTerms {
			if k+1 < len(evTerms) {
				items = append(items, fmt.Sprintf("J (%s)", t))
			} else {
				items = append(items, fmt.Sprintf("I (%s) %s %s %d%%Z %d%%Z %s", t, outcome, lib.CoqList(pvs), tcv, trv, lib.CoqList(canc)))
			}
		}

		// ---- update the tracker (what the history means, independent of the implementation) ----
		if allowed {
			switch e.K {
			case "add":
				tcn.phase = 1
			case "ready":
				if tcn.phase == 2 {
					readyInOp++
				}
			case "remove":
				tcn.phase = 0
			case "beginq":
				tcn.phase, tcn.pid, tcn.q = 3, e.Pid, e.Q
				tr.used[e.Pid], tr.live[e.Pid] = true, true
				tcn.cur = len(ctxs) - 1
			case "endq":
				if tcn.phase == 3 && tcn.pid == e.Pid {
					tcn.phase, tcn.pid, tcn.q, tcn.cur = 1, 0, 0, -1
					delete(tr.live, e.Pid)
				} else {
					deadEnds++
				}
			case "beginop":
				tcn.phase = 2
				tcn.cur = len(ctxs) - 1
			case "endop":
				tcn.phase, tcn.cur = 1, -1
			case "kill":
				if tcn.phase == 3 {
					kills++
				}
			}
		}
		if !checkPred || !tr.wf {
			// histories outside the server's call discipline are outside the property's quantifier:
			// they are compared with the model only
			continue
		}

		// ---- property predicate on the implementation alone ----
		at := fmt.Sprintf("after call %d (%s conn %d)", i, e.K, e.C)
		if panicked {
			addFail("panic/"+e.K, at+": "+pv)
			break
		}
		if allowed && retErr != nil {
			addFail("error-on-legal-call/"+e.K, at+": "+retErr.Error())
		}
		var want []uint32
		nrun := 0
		for id, x := range tr.conns {
			if x.phase != 0 {
				want = append(want, id)
			}
			if x.phase == 3 {
				nrun++
			}
		}
		sort.Slice(want, func(a, b int) bool { return want[a] < want[b] })
		var got []uint32
		for _, p := range ps {
			got = append(got, p.Conn)
		}
		if fmt.Sprint(got) != fmt.Sprint(want) {
			addFail("process-list-is-not-the-set-of-connected-sessions", fmt.Sprintf("%s: Processes() lists %v, connected sessions are %v", at, got, want))
		} else {
			for _, p := range ps {
				x := tr.conns[p.Conn]
				if x.phase == 3 {
					if p.Cmd != "Query" || p.Query != uint64(x.q) || p.QPid != x.pid {
						addFail("running-query-not-shown", fmt.Sprintf("%s: conn %d runs pid %d q%d but shows %s/q%d/pid %d", at, p.Conn, x.pid, x.q, p.Cmd, p.Query, p.QPid))
					}
				} else if p.Cmd == "Query" || p.Query != 0 || p.QPid != 0 {
					addFail("idle-session-shows-a-query", fmt.Sprintf("%s: conn %d is idle but shows %s/q%d/pid %d", at, p.Conn, p.Cmd, p.Query, p.QPid))
				}
			}
		}
		if tcv != uint64(len(want)) {
			addFail("Threads_connected-differs-from-connected-sessions", fmt.Sprintf("%s: Threads_connected = %d, %d sessions connected", at, tcv, len(want)))
		}
		if trv != uint64(nrun) {
			addFail("Threads_running-differs-from-running-queries", fmt.Sprintf("%s: Threads_running = %d, %d queries running", at, trv, nrun))
		}
		for _, k := range newly {
			if k != ownedBefore || !mayCancel {
				addFail("cancelled-a-context-that-was-not-the-target/"+e.K, fmt.Sprintf("%s: context %d was cancelled; the connection's current context was %d", at, k, ownedBefore))
			}
		}
		if e.K == "kill" && tcn.phase == 3 && ctxs[tcn.cur].Err() == nil {
			addFail("kill-did-not-cancel-the-running-query", fmt.Sprintf("%s: context %d still live", at, tcn.cur))
		}
		if (e.K == "beginq" || e.K == "beginop") && retErr == nil && ctxs[len(ctxs)-1].Err() != nil {
			addFail("new-context-already-cancelled/"+e.K, at)
		}
	}

	key := ""
	if kills > 0 && len(cs.Events) >= 6 {
		key = fmt.Sprint(cs.Events)
	}
	c.Count("stream_" + cs.Stream)
	c.Count(fmt.Sprintf("events_%02d-%02d", len(cs.Events)/10*10, len(cs.Events)/10*10+9))
	if kills > 0 {
		c.Count("has_kill_of_running_query")
	}
	if deadEnds > 0 {
		c.Count("has_repeated_EndQuery")
	}
	if readyInOp > 0 {
		c.Count("has_ConnectionReady_inside_operation")
	}
	if tr.wf {
		c.Count("history_well_formed")
	} else {
		c.Count("history_not_well_formed")
	}
	term := fmt.Sprintf("Case %s %s", lib.CoqBool(tr.wf), lib.CoqList(items))
	id := c.Case(term, cs, key)
	if checkPred {
		c.PredChecked()
		for _, f := range fails {
			c.PredFail(id, f.sig, f.what, cs)
		}
	}
}

// ---------------- engine-level slice: a real KILL issued from a second session ----------------
var engE *eng.E
var engPid atomic.Uint64

func engSetup() {
	if engE != nil {
		return
	}
	engE = eng.New("db")
	s := engE.Session()
	s.MustExec("CREATE TABLE big (i INT PRIMARY KEY)")
	var vals []string
	for i := 0; i < 300; i++ {
		vals = append(vals, fmt.Sprintf("(%d)", i))
	}
	s.MustExec("INSERT INTO big VALUES " + strings.Join(vals, ","))
}

// handlerQuery runs q as server/handler.go doQuery does: BeginQuery, deferred EndQuery with the returned context,
// Engine.Query, spool rows, Close (whose tracked iterator calls EndQuery too).
func handlerQuery(s *eng.S, q string) (rows []sql.Row, err error) {
	pl := engE.Engine.ProcessList
	ctx := sql.NewContext(context.Background(), sql.WithSession(s.Ctx.Session), sql.WithPid(engPid.Add(1)), sql.WithProcessList(pl))
	ctx.SetCurrentDatabase("db")
	ctx, err = pl.BeginQuery(ctx, q)
	if err != nil {
		return nil, err
	}
	defer pl.EndQuery(ctx)
	_, iter, _, err := engE.Engine.Query(ctx, q)
	if err != nil {
		return nil, err
	}
	for {
		row, e := iter.Next(ctx)
		if e == io.EOF {
			break
		}
		if e != nil {
			iter.Close(ctx)
			return rows, e
		}
		rows = append(rows, row.Copy())
	}
	return rows, iter.Close(ctx)
}

func runEngineKill(c *lib.Ctx, cs caseT) {
	engSetup()
	c.Count("stream_engine-kill")
	id := c.CaseNoModel(cs, "engine-kill/"+cs.Slow+"/"+cs.KillStmt)
	c.PredChecked()
	pl := engE.Engine.ProcessList
	s1, s2 := engE.Session(), engE.Session()
	id1, id2 := s1.Ctx.Session.ID(), s2.Ctx.Session.ID()
	baseC, baseR := statusVar("Threads_connected"), statusVar("Threads_running")
	pl.AddConnection(id1, "h1")
	pl.ConnectionReady(s1.Ctx.Session)
	pl.AddConnection(id2, "h2")
	pl.ConnectionReady(s2.Ctx.Session)
	fail := func(sig, what string) { c.PredFail(id, "engine-kill/"+sig, what, cs) }
	type res struct {
		err error
		dur time.Duration
	}
	done := make(chan res, 1)
	go func() {
		t0 := time.Now()
		_, err := handlerQuery(s1, cs.Slow)
		done <- res{err, time.Since(t0)}
	}()
	// wait until the victim is shown running its query
	shown := false
	for t0 := time.Now(); time.Since(t0) < 2*time.Second && !shown; {
		for _, p := range pl.Processes() {
			if p.Connection == id1 && p.Command == sql.ProcessCommandQuery && p.Query == cs.Slow {
				shown = true
			}
		}
	}
	if !shown {
		fail("running-query-not-shown", fmt.Sprintf("connection %d runs %q but Processes() never showed it", id1, cs.Slow))
	}
	if _, err := handlerQuery(s2, fmt.Sprintf("%s %d", cs.KillStmt, id1)); err != nil {
		fail("kill-statement-failed", err.Error())
	}
	r := <-done
	if r.err == nil && r.dur > 1500*time.Millisecond {
		fail("kill-did-not-cancel-the-running-query", fmt.Sprintf("%q ran to completion (%v) although %s %d was issued", cs.Slow, r.dur, cs.KillStmt, id1))
	}
	// SHOW STATUS from the killer's session: only that statement itself is running now
	rows, err := handlerQuery(s2, "SHOW STATUS LIKE 'Threads_running'")
	if err != nil || len(rows) != 1 {
		fail("show-status-failed", fmt.Sprint(err, rows))
	} else if got := fmt.Sprint(rows[0][1]); got != fmt.Sprint(baseR+1) {
		fail("Threads_running-after-killed-query", fmt.Sprintf("after %s %d of %q and its EndQuery, SHOW STATUS LIKE 'Threads_running' = %s, expected %d (the SHOW statement only)", cs.KillStmt, id1, cs.Slow, got, baseR+1))
	}
	if got := statusVar("Threads_running"); got != baseR {
		fail("Threads_running-after-killed-query", fmt.Sprintf("after %s %d of %q and its EndQuery Threads_running = %d with 0 running queries (start value %d)", cs.KillStmt, id1, cs.Slow, got, baseR))
	}
	for _, p := range pl.Processes() {
		if (p.Connection == id1 || p.Connection == id2) && (p.Command == sql.ProcessCommandQuery || p.Query != "" || p.QueryPid != 0) {
			fail("idle-session-shows-a-query", fmt.Sprintf("connection %d shows %s %q pid %d after all queries ended", p.Connection, p.Command, p.Query, p.QueryPid))
		}
	}
	// the cancellation must not leak into the victim's next query
	if rows, err := handlerQuery(s1, "SELECT 41 + 1"); err != nil || len(rows) != 1 || fmt.Sprint(rows[0][0]) != "42" {
		fail("cancellation-leaked-into-next-query", fmt.Sprintf("next query on the killed connection: rows %v err %v", rows, err))
	}
	if got := statusVar("Threads_running"); got != baseR {
		fail("Threads_running-after-killed-query", fmt.Sprintf("Threads_running = %d after the follow-up query (start value %d)", got, baseR))
	}
	pl.RemoveConnection(id1)
	pl.RemoveConnection(id2)
	if got := statusVar("Threads_connected"); got != baseC {
		fail("Threads_connected-after-disconnect", fmt.Sprintf("Threads_connected = %d, start value %d", got, baseC))
	}
}

// ---------------- server-level slice: SHOW PROCESSLIST / KILL over the wire (server.NewServer + go-sql-driver) ----------------
var (
	srvOnce sync.Once
	srvAddr string
)

func startServer() {
	engSetup()
	srvOnce.Do(func() {
		gomysql.SetLogger(log.New(io.Discard, "", 0)) // the client logs "unexpected EOF" when the server closes a killed connection
		ln, err := net.Listen("tcp", "127.0.0.1:0")
		if err != nil {
			panic("driver: " + err.Error())
		}
		srvAddr = ln.Addr().String()
		srv, err := server.NewServer(server.Config{Protocol: "tcp", Address: srvAddr, Listener: ln}, engE.Engine, sql.NewContext, memory.NewSessionBuilder(engE.Pro), nil)
		if err != nil {
			panic("driver: " + err.Error())
		}
		go func() { _ = srv.Start() }()
	})
}

type wire struct {
	db   *gosql.DB
	conn *gosql.Conn
	id   uint32
}

func dial() *wire {
	db, err := gosql.Open("mysql", fmt.Sprintf("root:@tcp(%s)/db", srvAddr))
	if err != nil {
		panic("driver: " + err.Error())
	}
	db.SetMaxOpenConns(1)
	var conn *gosql.Conn
	for i := 0; ; i++ {
		if conn, err = db.Conn(context.Background()); err == nil {
			break
		}
		if i > 100 {
			panic("driver: server does not answer: " + err.Error())
		}
		time.Sleep(20 * time.Millisecond)
	}
	w := &wire{db: db, conn: conn}
	if err := conn.QueryRowContext(context.Background(), "SELECT CONNECTION_ID()").Scan(&w.id); err != nil {
		panic("driver: " + err.Error())
	}
	return w
}

func (w *wire) close() { w.conn.Close(); w.db.Close() }

// processlist returns SHOW PROCESSLIST as id -> (Command, Info).
func (w *wire) processlist() (map[uint32][2]string, error) {
	rows, err := w.conn.QueryContext(context.Background(), "SHOW PROCESSLIST")
	if err != nil {
		return nil, err
	}
	defer rows.Close()
	cols, _ := rows.Columns()
	out := map[uint32][2]string{}
	for rows.Next() {
		vals := make([]gosql.NullString, len(cols))
		ptrs := make([]interface{}, len(cols))
		for i := range vals {
			ptrs[i] = &vals[i]
		}
		if err := rows.Scan(ptrs...); err != nil {
			return nil, err
		}
		var id uint32
		var cmd, info string
		for i, cn := range cols {
			switch strings.ToLower(cn) {
			case "id":
				fmt.Sscan(vals[i].String, &id)
			case "command":
				cmd = vals[i].String
			case "info":
				info = vals[i].String
			}
		}
		out[id] = [2]string{cmd, info}
	}
	return out, rows.Err()
}

func (w *wire) status(name string) string {
	var n, v string
	if err := w.conn.QueryRowContext(context.Background(), "SHOW STATUS LIKE '"+name+"'").Scan(&n, &v); err != nil {
		return "ERR:" + err.Error()
	}
	return v
}

func runServerKill(c *lib.Ctx, cs caseT) {
	startServer()
	c.Count("stream_server-kill")
	id := c.CaseNoModel(cs, "server-kill/"+cs.Slow+"/"+cs.KillStmt)
	c.PredChecked()
	fail := func(sig, what string) { c.PredFail(id, "server-kill/"+sig, what, cs) }
	c0, r0 := statusVar("Threads_connected"), statusVar("Threads_running")
	w1, w2 := dial(), dial()
	defer func() {
		// the server handles the disconnect asynchronously: wait until the registry is back to the start values
		w2.close()
		for t0 := time.Now(); time.Since(t0) < 3*time.Second && statusVar("Threads_connected") != c0; time.Sleep(2 * time.Millisecond) {
		}
		if got := statusVar("Threads_connected"); got != c0 {
			fail("Threads_connected-after-disconnect", fmt.Sprintf("Threads_connected = %d after both clients disconnected, start value %d", got, c0))
		}
	}()
	if got := w2.status("Threads_connected"); got != fmt.Sprint(c0+2) {
		fail("Threads_connected-with-two-clients", fmt.Sprintf("SHOW STATUS LIKE 'Threads_connected' = %s with two client connections (start value %d)", got, c0))
	}
	type res struct {
		err error
		dur time.Duration
	}
	done := make(chan res, 1)
	go func() {
		t0 := time.Now()
		rows, err := w1.conn.QueryContext(context.Background(), cs.Slow)
		if err == nil {
			for rows.Next() {
			}
			err = rows.Err()
			rows.Close()
		}
		done <- res{err, time.Since(t0)}
	}()
	shown := false
	for t0 := time.Now(); time.Since(t0) < 2*time.Second && !shown; {
		pl, err := w2.processlist()
		if err != nil {
			fail("show-processlist-failed", err.Error())
			break
		}
		if p, ok := pl[w1.id]; ok && p[0] == "Query" && p[1] == cs.Slow {
			shown = true
			if q, ok := pl[w2.id]; !ok || q[0] != "Query" || q[1] != "SHOW PROCESSLIST" {
				fail("own-statement-not-shown", fmt.Sprintf("SHOW PROCESSLIST lists the issuing connection %d as %v", w2.id, q))
			}
			if len(pl) != 2 {
				fail("process-list-is-not-the-set-of-connected-sessions", fmt.Sprintf("two clients are connected, SHOW PROCESSLIST lists %d rows: %v", len(pl), pl))
			}
		}
	}
	if !shown {
		fail("running-query-not-shown", fmt.Sprintf("connection %d runs %q but SHOW PROCESSLIST never showed it", w1.id, cs.Slow))
	}
	if _, err := w2.conn.ExecContext(context.Background(), fmt.Sprintf("%s %d", cs.KillStmt, w1.id)); err != nil {
		fail("kill-statement-failed", err.Error())
	}
	r := <-done
	if r.err == nil && r.dur > 1500*time.Millisecond {
		fail("kill-did-not-cancel-the-running-query", fmt.Sprintf("%q ran to completion (%v) although %s %d was issued", cs.Slow, r.dur, cs.KillStmt, w1.id))
	}
	// KILL QUERY: the victim's handler has returned (EndQuery ran) when the client got its answer.  KILL CONNECTION closes
	// the socket first, the victim's handler unwinds shortly after: allow it a moment.
	got := w2.status("Threads_running")
	for t0 := time.Now(); cs.KillStmt != "KILL QUERY" && got != fmt.Sprint(r0+1) && time.Since(t0) < 2*time.Second; time.Sleep(5 * time.Millisecond) {
		got = w2.status("Threads_running")
	}
	if got != fmt.Sprint(r0+1) {
		fail("Threads_running-after-killed-query", fmt.Sprintf("after %s %d of %q: SHOW STATUS LIKE 'Threads_running' = %s, expected %d (the SHOW statement only)", cs.KillStmt, w1.id, cs.Slow, got, r0+1))
	}
	if cs.KillStmt == "KILL QUERY" {
		var v int
		if err := w1.conn.QueryRowContext(context.Background(), "SELECT 41 + 1").Scan(&v); err != nil || v != 42 {
			fail("cancellation-leaked-into-next-query", fmt.Sprintf("next query on the killed connection: %d %v", v, err))
		}
		if pl, err := w2.processlist(); err == nil {
			if p := pl[w1.id]; p[0] == "Query" || p[1] != "" {
				fail("idle-session-shows-a-query", fmt.Sprintf("connection %d is idle but SHOW PROCESSLIST shows %v", w1.id, p))
			}
		}
		w1.close()
	} else {
		// KILL CONNECTION: the server closes the victim's connection
		var v int
		err := w1.conn.QueryRowContext(context.Background(), "SELECT 1").Scan(&v)
		for i := 0; err == nil && i < 50; i++ {
			time.Sleep(10 * time.Millisecond)
			err = w1.conn.QueryRowContext(context.Background(), "SELECT 1").Scan(&v)
		}
		if err == nil {
			fail("kill-connection-left-the-connection-open", fmt.Sprintf("connection %d still answers after KILL CONNECTION", w1.id))
		}
		w1.close()
	}
	// after the victim is gone: one session listed, counters back
	ok := false
	var last map[uint32][2]string
	for t0 := time.Now(); time.Since(t0) < 3*time.Second && !ok; time.Sleep(5 * time.Millisecond) {
		last, _ = w2.processlist()
		_, still := last[w1.id]
		ok = !still && w2.status("Threads_connected") == fmt.Sprint(c0+1)
	}
	if !ok {
		fail("registry-after-disconnect", fmt.Sprintf("3 s after connection %d went away: SHOW PROCESSLIST %v, Threads_connected %s (start value %d, one client left)", w1.id, last, w2.status("Threads_connected"), c0))
	}
	if got := w2.status("Threads_running"); got != fmt.Sprint(r0+1) {
		fail("Threads_running-after-disconnect", fmt.Sprintf("Threads_running = %s, expected %d", got, r0+1))
	}
}

// ---------------- generators ----------------
type gconn struct {
	phase int
	pid   uint64
	ended []uint64 // pids of this connection's ended queries
}

func genWF(r *lib.RNG, failBegin bool) caseT {
	cs := caseT{Stream: "wf"}
	if failBegin {
		cs.Stream = "failbegin"
	}
	nconn := r.Range(1, 4)
	conns := make([]gconn, nconn+1) // ids 1..nconn
	var dead []uint64
	nextPid := uint64(r.Range(1, 3))
	n := r.Range(6, 40)
	failAt := -1
	if failBegin {
		failAt = r.Range(2, n-1)
	}
	for len(cs.Events) < n {
		if len(cs.Events) == failAt || (failBegin && r.Chance(1, 15)) {
			// a BeginQuery that must fail: unregistered connection, or a pid that is running elsewhere
			var livePids []uint64
			var idle []uint32
			for id := 1; id <= nconn; id++ {
				if conns[id].phase == 3 {
					livePids = append(livePids, conns[id].pid)
				}
				if conns[id].phase == 1 {
					idle = append(idle, uint32(id))
				}
			}
			if len(livePids) > 0 && len(idle) > 0 && r.Bool() {
				cs.Events = append(cs.Events, ev{K: "beginq", C: lib.Pick(r, idle), Pid: lib.Pick(r, livePids), Q: r.Range(1, 5)})
				continue
			}
			var absent []uint32
			for id := 1; id <= nconn; id++ {
				if conns[id].phase == 0 {
					absent = append(absent, uint32(id))
				}
			}
			absent = append(absent, uint32(nconn+1+r.Intn(3)))
			cs.Events = append(cs.Events, ev{K: "beginq", C: lib.Pick(r, absent), Pid: nextPid, Q: r.Range(1, 5)})
			nextPid += uint64(r.Range(1, 2)) // the failed call's pid is simply not used again
			continue
		}
		if r.Chance(3, 20) {
			cs.Events = append(cs.Events, ev{K: "kill", C: uint32(r.Range(1, nconn+1))})
			continue
		}
		if len(dead) > 0 && r.Chance(1, 8) {
			cs.Events = append(cs.Events, ev{K: "endq", C: uint32(r.Range(1, nconn+1)), Pid: lib.Pick(r, dead)})
			continue
		}
		id := r.Range(1, nconn)
		g := &conns[id]
		cid := uint32(id)
		switch g.phase {
		case 0:
			cs.Events = append(cs.Events, ev{K: "add", C: cid, H: r.Range(0, 3)})
			g.phase = 1
		case 1:
			switch x := r.Intn(20); {
			case x < 4:
				cs.Events = append(cs.Events, ev{K: "ready", C: cid, H: r.Range(0, 3), U: r.Range(0, 3), D: r.Range(0, 3)})
			case x < 12:
				cs.Events = append(cs.Events, ev{K: "beginq", C: cid, Pid: nextPid, Q: r.Range(0, 5)})
				g.phase, g.pid = 3, nextPid
				nextPid += uint64(r.Range(1, 2))
			case x < 17:
				cs.Events = append(cs.Events, ev{K: "beginop", C: cid})
				g.phase = 2
			default:
				cs.Events = append(cs.Events, ev{K: "remove", C: cid})
				g.phase = 0
			}
		case 2:
			if r.Chance(1, 3) {
				cs.Events = append(cs.Events, ev{K: "ready", C: cid, H: r.Range(0, 3), U: r.Range(0, 3), D: r.Range(0, 3)})
			} else {
				cs.Events = append(cs.Events, ev{K: "endop", C: cid})
				g.phase = 1
			}
		case 3:
			if len(g.ended) > 0 && r.Chance(1, 3) {
				// the handler's second EndQuery of an EARLIER query arriving late, while the next query runs
				cs.Events = append(cs.Events, ev{K: "endq", C: cid, Pid: lib.Pick(r, g.ended)})
				continue
			}
			if r.Chance(1, 4) { // KILL QUERY / KILL CONNECTION strictly inside the bracket
				cs.Events = append(cs.Events, ev{K: "kill", C: cid})
			}
			g.ended = append(g.ended, g.pid)
			cs.Events = append(cs.Events, ev{K: "endq", C: cid, Pid: g.pid})
			dead = append(dead, g.pid)
			g.phase = 1
			if r.Chance(1, 2) { // the second EndQuery of handler.go's defer
				cs.Events = append(cs.Events, ev{K: "endq", C: cid, Pid: g.pid})
			}
		}
	}
	return cs
}

func genMalformed(r *lib.RNG) caseT {
	cs := caseT{Stream: "malformed"}
	n := r.Range(3, 30)
	kinds := []string{"add", "ready", "remove", "beginq", "beginq", "endq", "endq", "beginop", "endop", "kill"}
	for i := 0; i < n; i++ {
		e := ev{K: lib.Pick(r, kinds), C: uint32(r.Intn(4))}
		switch e.K {
		case "add":
			e.H = r.Range(0, 2)
		case "ready":
			e.H, e.U, e.D = r.Range(0, 2), r.Range(0, 2), r.Range(0, 2)
		case "beginq":
			e.Pid, e.Q = uint64(r.Intn(5)), r.Range(0, 3)
		case "endq":
			e.Pid = uint64(r.Intn(5))
		}
		cs.Events = append(cs.Events, e)
	}
	return cs
}

func main() {
	logrus.SetOutput(io.Discard)
	variables.InitSystemVariables()
	variables.InitStatusVariables()
	lib.Main("C37", func(c *lib.Ctx) {
		c.Header = "From Coq Require Import List NArith ZArith.\nImport ListNotations.\nFrom GMS Require Import Sys.ProcessList Corr.C37.\nOpen Scope N_scope."
		c.CaseType = "C37.case"
		c.MismatchFn = "C37.mismatches"
		c.SetRule("call histories on 1-4 connections, 6-40 calls: 70% follow the call discipline of server/context.go + handler.go " +
			"(random interleaving across connections, Kill of any id at any time, repeated EndQuery of ended queries, ConnectionReady " +
			"inside operation brackets); 10% additionally contain BeginQuery calls that must fail (unregistered connection / pid in use); " +
			"20% arbitrary calls (model comparison only, nil-func panics included). A case is non-trivial when a running query is killed; " +
			"distinct = distinct histories.")
		if c.ReplayFile != "" {
			var cs caseT
			lib.LoadReplay(c.ReplayFile, &cs)
			run(c, cs)
			return
		}
		corpus := []caseT{
			// outside the discipline (model comparison only): failed BeginQuery on an unregistered connection (Coq lemma)
			{Stream: "failbegin", Events: []ev{{K: "add", C: 1, H: 5}, {K: "beginq", C: 2, Pid: 7, Q: 1}}},
			// outside the discipline: failed BeginQuery with a pid that is running on another connection (Coq lemma)
			{Stream: "failbegin", Events: []ev{{K: "add", C: 1, H: 5}, {K: "add", C: 2, H: 5}, {K: "beginq", C: 1, Pid: 7, Q: 1}, {K: "beginq", C: 2, Pid: 7, Q: 1}}},
			// the non-vacuity history of Props/C37.v (AddConnection halves cannot be interleaved by a sequential driver)
			{Stream: "wf", Events: []ev{{K: "add", C: 2, H: 9}, {K: "add", C: 1, H: 9}, {K: "ready", C: 1, H: 9, U: 3, D: 4}, {K: "beginq", C: 1, Pid: 7, Q: 1},
				{K: "kill", C: 1}, {K: "beginop", C: 2}, {K: "ready", C: 2, H: 9, U: 3, D: 4}, {K: "endq", C: 1, Pid: 7}, {K: "endop", C: 2}, {K: "endq", C: 1, Pid: 7},
				{K: "beginq", C: 1, Pid: 8, Q: 2}, {K: "kill", C: 5}, {K: "remove", C: 2}}},
			// kill strictly between BeginQuery and EndQuery, counters checked after EndQuery; then a fresh query
			{Stream: "wf", Events: []ev{{K: "add", C: 1, H: 1}, {K: "add", C: 2, H: 1}, {K: "beginq", C: 1, Pid: 1, Q: 1}, {K: "beginq", C: 2, Pid: 2, Q: 2},
				{K: "kill", C: 1}, {K: "endq", C: 1, Pid: 1}, {K: "endq", C: 1, Pid: 1}, {K: "beginq", C: 1, Pid: 3, Q: 3}, {K: "kill", C: 2}, {K: "kill", C: 2},
				{K: "endq", C: 2, Pid: 2}, {K: "endq", C: 1, Pid: 3}, {K: "remove", C: 1}, {K: "remove", C: 2}}},
			// begin(pid1) end(pid1) begin(pid2), then a LATE duplicate end(pid1): must not disturb pid2
			{Stream: "wf", Events: []ev{{K: "add", C: 1, H: 1}, {K: "ready", C: 1, H: 1, U: 1, D: 1}, {K: "beginq", C: 1, Pid: 1, Q: 1}, {K: "endq", C: 1, Pid: 1},
				{K: "beginq", C: 1, Pid: 2, Q: 2}, {K: "endq", C: 1, Pid: 1}, {K: "endq", C: 1, Pid: 1}, {K: "kill", C: 1}, {K: "endq", C: 1, Pid: 2}, {K: "endq", C: 1, Pid: 2}, {K: "endq", C: 1, Pid: 1}}},
			// ill-formed: EndQuery with pid 0 on an idle connection calls a nil Kill
			{Stream: "malformed", Events: []ev{{K: "add", C: 1}, {K: "endq", C: 1, Pid: 0}, {K: "kill", C: 1}}},
			// ill-formed: RemoveConnection while a query runs, ConnectionReady while a query runs
			{Stream: "malformed", Events: []ev{{K: "add", C: 1}, {K: "beginq", C: 1, Pid: 3, Q: 1}, {K: "remove", C: 1}, {K: "endq", C: 1, Pid: 3}}},
			{Stream: "malformed", Events: []ev{{K: "add", C: 1}, {K: "beginq", C: 1, Pid: 3, Q: 1}, {K: "ready", C: 1, U: 1}, {K: "endq", C: 1, Pid: 3}, {K: "beginq", C: 1, Pid: 3, Q: 2}}},
		}
		corpus = append(corpus,
			caseT{Stream: "engine-kill", Slow: "SELECT SLEEP(2)", KillStmt: "KILL QUERY"},
			caseT{Stream: "engine-kill", Slow: "SELECT SLEEP(2), 1", KillStmt: "KILL CONNECTION"},
			caseT{Stream: "engine-kill", Slow: "SELECT COUNT(*) FROM big a, big b, big c WHERE a.i + b.i + c.i < 0", KillStmt: "KILL QUERY"},
			caseT{Stream: "engine-kill", Slow: "SELECT SLEEP(2) FROM big WHERE i < 2", KillStmt: "KILL QUERY"},
			caseT{Stream: "server-kill", Slow: "SELECT SLEEP(2)", KillStmt: "KILL QUERY"},
			caseT{Stream: "server-kill", Slow: "SELECT SLEEP(2), 7", KillStmt: "KILL CONNECTION"},
			caseT{Stream: "server-kill", Slow: "SELECT COUNT(*) FROM big a, big b, big c WHERE a.i + b.i + c.i < 0", KillStmt: "KILL QUERY"})
		for _, cs := range corpus {
			run(c, cs)
		}
		for i := len(corpus); i < c.N; i++ {
			r := c.R.Fork()
			switch x := r.Intn(10); {
			case x < 7:
				run(c, genWF(r, false))
			case x < 8:
				run(c, genWF(r, true))
			default:
				run(c, genMalformed(r))
			}
		}
	})
}
