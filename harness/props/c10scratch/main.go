package main

import (
	"bufio"
	"fmt"
	"os"
	"strings"

	"verifharness/lib/eng"
)

func main() {
	e := eng.New("db")
	s := e.Session()
	sc := bufio.NewScanner(os.Stdin)
	sc.Buffer(make([]byte, 1<<20), 1<<20)
	for sc.Scan() {
		q := strings.TrimSpace(sc.Text())
		if q == "" {
			continue
		}
		if q == "---" {
			e = eng.New("db")
			s = e.Session()
			fmt.Println("--- fresh engine")
			continue
		}
		fmt.Printf("> %s\n", q)
		r := s.Query(q)
		if r.Panic != "" {
			fmt.Printf("  PANIC: %s\n", r.Panic)
		} else if r.Err != nil {
			fmt.Printf("  ERR: %v\n", r.Err)
		} else {
			for i, row := range r.Rows {
				if i < 5 {
					fmt.Printf("  %v\n", row)
				}
			}
		}
	}
}
