package main

import (
	"bufio"
	"fmt"
	"os"
	"strings"

	"verifharness/lib/eng"
)

func main() {
	e := eng.New("db")
	s := e.Session()
	sc := bufio.NewScanner(os.Stdin)
	sc.Buffer(make([]byte, 1<<20), 1<<20)
	for sc.Scan() {
		q := strings.TrimSpace(sc.Text())
		if q == "" {
			continue
		}
		if q == "---" {
			e = eng.New("db")
			s = e.Session()
			fmt.Println("--- fresh engine")
			continue
		}
		r := s.Query(q)
		fmt.Printf("> %s\n", q)
		if r.Panic != "" {
			fmt.Printf("  PANIC: %s\n", r.Panic)
		} else if r.Err != nil {
			fmt.Printf("  ERR: %v\n", r.Err)
		} else {
			for _, row := range r.Rows {
				fmt.Printf("  %v\n", row)
			}
		}
	}
}
