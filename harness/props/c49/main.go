// Driver for C49 (internal/similartext): runs Find and distanceForStrings from /repo on generated candidate
// lists, records the observations for the Coq model, and evaluates the property predicate with an
// independent reference edit distance.
package main

import (
	"fmt"
	"strings"

	"github.com/dolthub/go-mysql-server/verifhooks"

	"verifharness/lib"
)

type caseT struct {
	Names []string `json:"names"`
	Src   string   `json:"src"`
	Out   string   `json:"out,omitempty"`
}

var alphabet = []string{"a", "b", "c", "d", "_", "A", "1", "é", "日", " "}

func randStr(r *lib.RNG, maxLen int) string {
	n := r.Intn(maxLen + 1)
	var sb strings.Builder
	for i := 0; i < n; i++ {
		sb.WriteString(lib.Pick(r, alphabet))
	}
	return sb.String()
}

// mutate applies k random byte-level or symbol-level edits.
func mutate(r *lib.RNG, s string, k int) string {
	b := []byte(s)
	for i := 0; i < k; i++ {
		switch r.Intn(3) {
		case 0: // insert
			p := r.Intn(len(b) + 1)
			ins := []byte(lib.Pick(r, alphabet))
			b = append(b[:p], append(ins, b[p:]...)...)
		case 1: // delete
			if len(b) > 0 {
				p := r.Intn(len(b))
				b = append(b[:p], b[p+1:]...)
			}
		default: // substitute
			if len(b) > 0 {
				b[r.Intn(len(b))] = lib.Pick(r, alphabet)[0]
			}
		}
	}
	return string(b)
}

// refDist: insert = delete = 1, substitute = 2  <=>  len(a)+len(b)-2*LCS(a,b); full-table LCS, written
// independently of the code under test.
func refDist(a, b string) int {
	l := make([][]int, len(a)+1)
	for i := range l {
		l[i] = make([]int, len(b)+1)
	}
	for i := len(a) - 1; i >= 0; i-- {
		for j := len(b) - 1; j >= 0; j-- {
			if a[i] == b[j] {
				l[i][j] = l[i+1][j+1] + 1
			} else if l[i+1][j] >= l[i][j+1] {
				l[i][j] = l[i+1][j]
			} else {
				l[i][j] = l[i][j+1]
			}
		}
	}
	return len(a) + len(b) - 2*l[0][0]
}

func format(l []string) string { return ", maybe you mean " + strings.Join(l, " or ") + "?" }

func gen(r *lib.RNG) caseT {
	var c caseT
	c.Src = randStr(r, 7)
	if r.Chance(1, 25) {
		c.Src = ""
	}
	n := r.Intn(7)
	for i := 0; i < n; i++ {
		switch r.Intn(5) {
		case 0:
			c.Names = append(c.Names, randStr(r, 8))
		case 1:
			c.Names = append(c.Names, c.Src)
		default:
			c.Names = append(c.Names, mutate(r, c.Src, r.Range(1, 4)))
		}
	}
	if c.Names == nil {
		c.Names = []string{}
	}
	return c
}

func run(c *lib.Ctx, cs caseT) {
	var out string
	var dists []int
	p, pv := lib.Recover(func() {
		out = verifhooks.SimilarFind(cs.Names, cs.Src)
		for _, n := range cs.Names {
			dists = append(dists, verifhooks.SimilarDistance(n, cs.Src))
		}
	})
	cs.Out = out
	if p {
		id := c.CaseNoModel(cs, "panic")
		c.PredFail(id, "panic", "Find/distanceForStrings panicked: "+pv, cs)
		return
	}
	// reference
	min := -1
	for _, n := range cs.Names {
		d := refDist(n, cs.Src)
		if d < 3 && (min == -1 || d < min) {
			min = d
		}
	}
	var best []string
	for _, n := range cs.Names {
		if min >= 0 && refDist(n, cs.Src) == min {
			best = append(best, n)
		}
	}
	key := ""
	if len(best) > 0 && cs.Src != "" {
		key = fmt.Sprintf("%q|%q", cs.Names, cs.Src)
		c.Count(fmt.Sprintf("suggest_at_distance_%d", min))
		c.Count(fmt.Sprintf("suggested_%d_names", len(best)))
	} else if cs.Src == "" {
		c.Count("empty_src")
	} else {
		c.Count("no_candidate_qualifies")
	}
	c.Count(fmt.Sprintf("candidates_%d", len(cs.Names)))
	term := lib.CoqTuple(
		lib.CoqListOf(cs.Names, lib.CoqStr), lib.CoqStr(cs.Src), lib.CoqStr(out),
		lib.CoqListOf(dists, lib.CoqNat))
	id := c.Case(term, cs, key)

	// property predicate on the implementation alone
	c.PredChecked()
	switch {
	case out == "":
		if cs.Src != "" && len(best) > 0 {
			c.PredFail(id, "no-suggestion-although-candidate-qualifies",
				fmt.Sprintf("Find(%q,%q) = \"\" but %q is at distance %d < 3", cs.Names, cs.Src, best[0], min), cs)
		}
	case len(best) == 0:
		c.PredFail(id, "suggestion-although-no-candidate-qualifies",
			fmt.Sprintf("Find(%q,%q) = %q but no candidate is within distance 2", cs.Names, cs.Src, out), cs)
	default:
		ok := out == format(best)
		for _, b := range best {
			if out == format([]string{b}) {
				ok = true
			}
		}
		if !ok {
			c.PredFail(id, "suggestion-not-a-closest-candidate",
				fmt.Sprintf("Find(%q,%q) = %q; closest candidates (distance %d) are %q", cs.Names, cs.Src, out, min, best), cs)
		}
	}
	for i, n := range cs.Names {
		if dists[i] != refDist(n, cs.Src) {
			c.PredFail(id, "distance-not-edit-distance",
				fmt.Sprintf("distanceForStrings(%q,%q) = %d, reference %d", n, cs.Src, dists[i], refDist(n, cs.Src)), cs)
			break
		}
	}
}

func main() {
	lib.Main("C49", func(c *lib.Ctx) {
		c.Header = "From Coq Require Import List NArith.\nImport ListNotations.\nFrom GMS Require Import Corr.C49.\nOpen Scope N_scope."
		c.CaseType = "C49.case"
		c.MismatchFn = "C49.mismatches"
		c.SetRule("candidate lists (0-6 names) derived from the looked-up name by 1-4 random byte/symbol edits, " +
			"random strings, exact copies; alphabet includes multi-byte symbols; 1/25 empty names. " +
			"A case is non-trivial when the name is non-empty and at least one candidate is within the threshold; " +
			"distinct = distinct (names, src) pairs.")
		if c.ReplayFile != "" {
			var cs caseT
			lib.LoadReplay(c.ReplayFile, &cs)
			run(c, cs)
			return
		}
		// fixed corpus first
		corpus := []caseT{
			{Names: []string{"foo", "bar", "fox"}, Src: "fo"},
			{Names: []string{"barbaz"}, Src: "fo"},
			{Names: []string{"a", "b"}, Src: ""},
			{Names: []string{}, Src: "abc"},
			{Names: []string{"abc", "abd", "ab", "abcd", "xbc"}, Src: "abc"},
			{Names: []string{"日本", "日"}, Src: "日本"},
		}
		for _, cs := range corpus {
			run(c, cs)
		}
		for c_i := len(corpus); c_i < c.N; c_i++ {
			run(c, gen(c.R.Fork()))
		}
	})
}
