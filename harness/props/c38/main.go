// Driver for C38 (sql/lock_subsystem.go): (a) sequential operation sequences on the real sql.LockSubsystem,
// recorded for the Coq sequential specification and checked against an independent reference lock table;
// (b) concurrent goroutine runs whose invocation/response histories are checked for linearizability against
// the reference by a WGL-style search (supporting evidence only; the Coq theorem covers all schedules);
// (c) a directed stress scenario probing whether ReleaseAll is observably non-atomic.
package main

import (
	"context"
	gosql "database/sql"
	"fmt"
	"io"
	"net"
	"sort"
	"strings"
	"sync"
	"sync/atomic"
	"time"

	_ "github.com/go-sql-driver/mysql"
	"github.com/sirupsen/logrus"

	"github.com/dolthub/go-mysql-server/memory"
	"github.com/dolthub/go-mysql-server/server"
	"github.com/dolthub/go-mysql-server/sql"

	"verifharness/lib"
	"verifharness/lib/eng"
)

type opT struct {
	T  int    `json:"t"`           // session id (>= 1)
	K  string `json:"k"`           // try lock unlock relall state
	N  int    `json:"n,omitempty"` // name index (>= 1)
	R  string `json:"r,omitempty"` // observed result (filled by the run)
	In int64  `json:"in,omitempty"`
	Rs int64  `json:"rs,omitempty"`
}

type caseT struct {
	Mode string `json:"mode"` // seq | conc | relall-stress
	Ops  []opT  `json:"ops,omitempty"`
	// conc: per-goroutine programs
	Progs [][]opT `json:"progs,omitempty"`
	// fresh-race: G sessions, Rounds brand-new names
	G       int  `json:"g,omitempty"`
	Rounds  int  `json:"rounds,omitempty"`
	UseLock bool `json:"use_lock,omitempty"`
	SQL     []sqlOp `json:"sql,omitempty"`
}

const universe = 3

func name(n int) string { return fmt.Sprintf("n%d", n) }

type sessT struct {
	s   *sql.BaseSession
	ctx *sql.Context
}

func newSess(id int) *sessT {
	s := sql.NewBaseSessionWithClientServer("srv", sql.Client{User: "u", Address: "h"}, uint32(id))
	return &sessT{s, sql.NewContext(context.Background(), sql.WithSession(s))}
}

// exec runs one operation on the implementation and returns its result as a Coq `ret` term.
func exec(ls *sql.LockSubsystem, se *sessT, o opT) string {
	switch o.K {
	case "try":
		ok, err := ls.TryLock(se.ctx, name(o.N))
		if err != nil {
			return "ERR:" + err.Error()
		}
		return "RBool " + lib.CoqBool(ok)
	case "lock":
		err := ls.Lock(se.ctx, name(o.N), 300*time.Microsecond)
		return errRet(err)
	case "unlock":
		return errRet(ls.Unlock(se.ctx, name(o.N)))
	case "relall":
		k, err := ls.ReleaseAll(se.ctx)
		if err != nil {
			return "ERR:" + err.Error()
		}
		return fmt.Sprintf("RCount %d", k)
	case "state":
		st, ow := ls.GetLockState(name(o.N))
		return fmt.Sprintf("RState %d %d", int(st), ow)
	}
	panic("driver: unknown op " + o.K)
}

func errRet(err error) string {
	switch {
	case err == nil:
		return "ROk"
	case sql.ErrLockTimeout.Is(err):
		return "RTimeout"
	case sql.ErrLockDoesNotExist.Is(err):
		return "RNotExist"
	case sql.ErrLockNotOwned.Is(err):
		return "RNotOwned"
	}
	return "ERR:" + err.Error()
}

func coqOp(o opT) string {
	switch o.K {
	case "try":
		return fmt.Sprintf("(OTry %d)", o.N)
	case "lock":
		return fmt.Sprintf("(OLock %d)", o.N)
	case "unlock":
		return fmt.Sprintf("(OUnlock %d)", o.N)
	case "relall":
		return "ORelAll"
	default:
		return fmt.Sprintf("(OState %d)", o.N)
	}
}

// ---- reference lock table: the property's re-entrant counted lock, written independently ----
type cell struct{ owner, count int }
type ref struct {
	exists map[int]bool
	held   map[int]cell
}

func newRef() *ref { return &ref{map[int]bool{}, map[int]cell{}} }

func (r *ref) clone() *ref {
	c := newRef()
	for k, v := range r.exists {
		c.exists[k] = v
	}
	for k, v := range r.held {
		c.held[k] = v
	}
	return c
}

func (r *ref) key() string {
	var sb strings.Builder
	for n := 1; n <= 8; n++ {
		if c, ok := r.held[n]; ok {
			fmt.Fprintf(&sb, "%d:%d/%d,", n, c.owner, c.count)
		} else if r.exists[n] {
			fmt.Fprintf(&sb, "%d:f,", n)
		}
	}
	return sb.String()
}

// apply returns the result the property prescribes for op o (by session o.T) and updates the table.
// For "relall" names is the set of names the session may hold.
func (r *ref) apply(o opT) string {
	c, held := r.held[o.N]
	switch o.K {
	case "try", "lock":
		r.exists[o.N] = true
		if !held {
			r.held[o.N] = cell{o.T, 1}
		} else if c.owner == o.T {
			r.held[o.N] = cell{o.T, c.count + 1}
		} else if o.K == "try" {
			return "RBool false"
		} else {
			return "RTimeout"
		}
		if o.K == "try" {
			return "RBool true"
		}
		return "ROk"
	case "unlock":
		if !r.exists[o.N] {
			return "RNotExist"
		}
		if !held || c.owner != o.T {
			return "RNotOwned"
		}
		if c.count > 1 {
			r.held[o.N] = cell{o.T, c.count - 1}
		} else {
			delete(r.held, o.N)
		}
		return "ROk"
	case "relall":
		k := 0
		for n, c := range r.held {
			if c.owner == o.T {
				delete(r.held, n)
				k++
			}
		}
		return fmt.Sprintf("RCount %d", k)
	case "state":
		if held {
			return fmt.Sprintf("RState 1 %d", c.owner)
		}
		if r.exists[o.N] {
			return "RState 2 0"
		}
		return "RState 0 0"
	}
	panic("driver: unknown op")
}

// ---------------- (a) sequential ----------------
func runSeq(c *lib.Ctx, cs caseT) {
	ls := sql.NewLockSubsystem()
	sess := map[int]*sessT{}
	rf := newRef()
	var items []string
	type fail struct{ sig, what string }
	var fails []fail
	contended, reentrant := 0, 0
	for i := range cs.Ops {
		o := &cs.Ops[i]
		if sess[o.T] == nil {
			sess[o.T] = newSess(o.T)
		}
		var got string
		p, pv := lib.Recover(func() { got = exec(ls, sess[o.T], *o) })
		if p {
			got = "ERR:panic " + pv
		}
		o.R = got
		if c0, ok := rf.held[o.N]; ok && (o.K == "try" || o.K == "lock") {
			if c0.owner == o.T {
				reentrant++
			} else {
				contended++
			}
		}
		want := rf.apply(*o)
		at := fmt.Sprintf("call %d (%s n%d by session %d)", i, o.K, o.N, o.T)
		if got != want && len(fails) == 0 {
			fails = append(fails, fail{"sequential/" + o.K + "/wrong-result", fmt.Sprintf("%s returned %q, a re-entrant counted lock returns %q", at, got, want)})
		}
		var states []string
		for n := 1; n <= universe; n++ {
			st, ow := ls.GetLockState(name(n))
			states = append(states, fmt.Sprintf("St %d %d", int(st), ow))
			wantSt := rf.clone().apply(opT{T: o.T, K: "state", N: n})
			if g := fmt.Sprintf("RState %d %d", int(st), ow); g != wantSt && len(fails) == 0 {
				fails = append(fails, fail{"sequential/" + o.K + "/wrong-holder-afterwards", fmt.Sprintf("after %s GetLockState(n%d) = %s, expected %s", at, n, g, wantSt)})
			}
		}
		var mine []int
		_ = sess[o.T].s.IterLocks(func(nm string) error {
			var k int
			fmt.Sscanf(nm, "n%d", &k)
			mine = append(mine, k)
			return nil
		})
		sort.Ints(mine)
		// every lock the session holds must be in its own set (otherwise ReleaseAll / disconnect would miss it)
		for n, cl := range rf.held {
			if cl.owner == o.T && !containsInt(mine, n) && len(fails) == 0 {
				fails = append(fails, fail{"sequential/held-lock-missing-from-session-set", fmt.Sprintf("after %s session %d holds n%d but its lock set is %v", at, o.T, n, mine)})
			}
		}
		if strings.HasPrefix(got, "ERR:") {
			id := c.CaseNoModel(cs, "")
			c.PredChecked()
			c.PredFail(id, "sequential/"+o.K+"/unexpected-error", at+": "+got, cs)
			return
		}
		items = append(items, fmt.Sprintf("It %d %s (%s) %s %s", o.T, coqOp(*o), got, lib.CoqList(states), lib.CoqListOf(mine, lib.CoqNat)))
	}
	key := ""
	if contended > 0 && reentrant > 0 {
		key = fmt.Sprint(cs.Ops)
	}
	c.Count("mode_seq")
	if contended > 0 {
		c.Count("seq_has_contended_acquire")
	}
	if reentrant > 0 {
		c.Count("seq_has_reentrant_acquire")
	}
	id := c.Case("Case "+lib.CoqList(items), cs, key)
	c.PredChecked()
	for _, f := range fails {
		c.PredFail(id, f.sig, f.what, cs)
	}
}

func containsInt(xs []int, x int) bool {
	for _, y := range xs {
		if x == y {
			return true
		}
	}
	return false
}

// ---------------- (b) concurrent histories + linearizability search ----------------
var clock atomic.Int64

func runConc(c *lib.Ctx, cs caseT) {
	ls := sql.NewLockSubsystem()
	var wg sync.WaitGroup
	start := make(chan struct{})
	for g := range cs.Progs {
		wg.Add(1)
		go func(g int) {
			defer wg.Done()
			se := newSess(cs.Progs[g][0].T)
			<-start
			for i := range cs.Progs[g] {
				o := &cs.Progs[g][i]
				o.In = clock.Add(1)
				o.R = exec(ls, se, *o)
				o.Rs = clock.Add(1)
			}
		}(g)
	}
	close(start)
	wg.Wait()
	var hist []opT
	for _, p := range cs.Progs {
		hist = append(hist, p...)
	}
	c.Count("mode_conc")
	c.Count(fmt.Sprintf("conc_goroutines_%d", len(cs.Progs)))
	overlaps := 0
	for i := range hist {
		for j := range hist {
			if i < j && hist[i].In < hist[j].Rs && hist[j].In < hist[i].Rs {
				overlaps++
			}
		}
	}
	key := ""
	if overlaps > 0 {
		c.Count("conc_has_overlapping_operations")
		key = fmt.Sprint(hist)
	}
	id := c.CaseNoModel(cs, key)
	c.PredChecked()
	for _, o := range hist {
		if strings.HasPrefix(o.R, "ERR:") {
			c.PredFail(id, "concurrent/unexpected-error", fmt.Sprintf("%s n%d by %d: %s", o.K, o.N, o.T, o.R), cs)
			return
		}
	}
	if linearizable(hist, false, false) {
		return
	}
	if linearizable(hist, true, false) {
		// explained once the creation of the lock entry (LockDoesNotExist -> LockFree) is its own step: only the
		// three-valued Go GetLockState / the Unlock error kind can tell the two apart, no SQL-level result can
		c.Count("conc_needs_separate_creation_step")
		return
	}
	if linearizable(hist, true, true) {
		c.PredFail(id, "concurrent/ReleaseAll-not-atomic", "history is linearizable only when ReleaseAll is read as a sequence of per-name releases: "+fmt.Sprint(hist), cs)
		return
	}
	c.PredFail(id, "concurrent/history-not-linearizable", fmt.Sprint(hist), cs)
}

// linearizable: WGL-style search.  With split, a ReleaseAll by t returning k is replaced by one
// "rel1" sub-operation per name (same interval) whose successes must add up to k.
func linearizable(hist []opT, splitCreate, split bool) bool {
	type sub struct {
		opT
		parent int // index of the ReleaseAll it belongs to, or -1
	}
	var ops []sub
	want := map[int]int{}
	for i, o := range hist {
		if o.K == "relall" && split {
			var k int
			fmt.Sscanf(o.R, "RCount %d", &k)
			want[i] = k
			for n := 1; n <= universe; n++ {
				ops = append(ops, sub{opT{T: o.T, K: "rel1", N: n, In: o.In, Rs: o.Rs}, i})
			}
		} else {
			if splitCreate && (o.K == "try" || o.K == "lock") {
				ops = append(ops, sub{opT{T: o.T, K: "create", N: o.N, In: o.In, Rs: o.Rs}, i})
			}
			ops = append(ops, sub{o, -1})
		}
	}
	if len(ops) > 62 {
		return true // too large to search; not counted as a failure
	}
	seen := map[string]bool{}
	var dfs func(done uint64, rf *ref, cnt map[int]int) bool
	dfs = func(done uint64, rf *ref, cnt map[int]int) bool {
		if done == (uint64(1)<<len(ops))-1 {
			for p, k := range want {
				if cnt[p] != k {
					return false
				}
			}
			return true
		}
		key := fmt.Sprintf("%x|%s|%v", done, rf.key(), cnt)
		if seen[key] {
			return false
		}
		seen[key] = true
		minRs := int64(1) << 62
		for i, o := range ops {
			if done&(1<<i) == 0 && o.Rs < minRs {
				minRs = o.Rs
			}
		}
		for i, o := range ops {
			if done&(1<<i) != 0 || o.In > minRs {
				continue
			}
			r2 := rf.clone()
			c2 := cnt
			if o.K == "create" {
				r2.exists[o.N] = true
			} else if splitCreate && (o.K == "try" || o.K == "lock") && !rf.exists[o.N] {
				continue // the operation's own creation step comes first
			} else if o.K == "rel1" {
				if cl, ok := r2.held[o.N]; ok && cl.owner == o.T {
					delete(r2.held, o.N)
					c2 = map[int]int{}
					for k, v := range cnt {
						c2[k] = v
					}
					c2[o.parent]++
				}
			} else if r2.apply(o.opT) != o.R {
				continue
			}
			if dfs(done|1<<i, r2, c2) {
				return true
			}
		}
		return false
	}
	return dfs(0, newRef(), map[int]int{})
}

// ---------------- (c) directed: is ReleaseAll observably non-atomic? ----------------
func runRelAllStress(c *lib.Ctx, cs caseT) {
	c.Count("mode_relall_stress")
	id := c.CaseNoModel(cs, "relall-stress")
	c.PredChecked()
	const names = 400
	for trial := 0; trial < 40; trial++ {
		ls := sql.NewLockSubsystem()
		a, b := newSess(1), newSess(2)
		for n := 1; n <= names; n++ {
			if ok, _ := ls.TryLock(a.ctx, name(n)); !ok {
				panic("driver: setup")
			}
		}
		var inRA, doneRA atomic.Bool
		type rec struct {
			n  int
			ok bool
		}
		var recs []rec
		var wg sync.WaitGroup
		wg.Add(1)
		go func() {
			defer wg.Done()
			for !inRA.Load() {
			}
			for n := 1; n <= names && !doneRA.Load(); n++ {
				ok, _ := ls.TryLock(b.ctx, name(n))
				if doneRA.Load() {
					break // only results obtained strictly inside A's ReleaseAll interval count
				}
				recs = append(recs, rec{n, ok})
			}
		}()
		inRA.Store(true)
		k, _ := ls.ReleaseAll(a.ctx)
		doneRA.Store(true)
		wg.Wait()
		first := -1
		for _, r := range recs {
			if r.ok && first < 0 {
				first = r.n
			}
			if !r.ok && first >= 0 {
				c.PredFail(id, "concurrent/ReleaseAll-not-atomic",
					fmt.Sprintf("session 1 held n1..n%d and called ReleaseAll (returned %d); during that call session 2's TryLock(n%d) succeeded and its later TryLock(n%d) failed: no single instant for ReleaseAll explains both", names, k, first, r.n), cs)
				return
			}
		}
	}
}

// ---------------- (d) directed: several sessions race for a brand-new name ----------------
func runFreshRace(c *lib.Ctx, cs caseT) {
	c.Count("mode_fresh_race")
	id := c.CaseNoModel(cs, fmt.Sprintf("fresh-race-%d-%d", cs.G, cs.Rounds))
	c.PredChecked()
	ls := sql.NewLockSubsystem()
	sess := make([]*sessT, cs.G)
	for g := range sess {
		sess[g] = newSess(g + 1)
	}
	for round := 0; round < cs.Rounds; round++ {
		nm := fmt.Sprintf("fresh-%d", round)
		var ready, won atomic.Int32
		winners := make([]bool, cs.G)
		var wg sync.WaitGroup
		for g := 0; g < cs.G; g++ {
			wg.Add(1)
			go func(g int) {
				defer wg.Done()
				ready.Add(1)
				for int(ready.Load()) < cs.G {
				}
				var ok bool
				if cs.UseLock {
					ok = ls.Lock(sess[g].ctx, nm, 0) == nil
				} else {
					ok, _ = ls.TryLock(sess[g].ctx, nm)
				}
				if ok {
					won.Add(1)
					winners[g] = true
				}
			}(g)
		}
		wg.Wait()
		st, owner := ls.GetLockState(nm)
		if won.Load() != 1 {
			c.PredFail(id, "concurrent/fresh-name-not-acquired-by-exactly-one-session",
				fmt.Sprintf("round %d: %d of %d sessions were told they hold the brand-new lock %q (state %d, owner %d)", round, won.Load(), cs.G, nm, st, owner), cs)
			return
		}
		if st != sql.LockInUse || owner == 0 || !winners[owner-1] {
			c.PredFail(id, "concurrent/fresh-name-holder-misreported",
				fmt.Sprintf("round %d: GetLockState(%q) = (%d, %d) but the session that acquired it is %v", round, nm, st, owner, winners), cs)
			return
		}
		// the losers must not be able to release it, the winner must
		for g := 0; g < cs.G; g++ {
			err := ls.Unlock(sess[g].ctx, nm)
			if (err == nil) != winners[g] {
				c.PredFail(id, "concurrent/fresh-name-release-by-wrong-session", fmt.Sprintf("round %d: Unlock by session %d (winner=%v) returned %v", round, g+1, winners[g], err), cs)
				return
			}
		}
	}
}

// ---------------- (e) the SQL layer through a real server: GET_LOCK family and release on disconnect ----------------
type sqlOp struct {
	C   int    `json:"c"`             // logical connection (1..3)
	K   string `json:"k"`             // get rel isfree isused relall disconnect
	N   int    `json:"n,omitempty"`   // name index
	Tmo int    `json:"tmo,omitempty"` // GET_LOCK timeout (seconds): 0, >0, <0
}

var (
	srvOnce   sync.Once
	srvAddr   string
	srvEngine *eng.E
	sqlSerial int
)

func startServer() {
	srvOnce.Do(func() {
		logrus.SetOutput(io.Discard)
		srvEngine = eng.New("db")
		ln, err := net.Listen("tcp", "127.0.0.1:0")
		if err != nil {
			panic("driver: " + err.Error())
		}
		srvAddr = ln.Addr().String()
		cfg := server.Config{Protocol: "tcp", Address: srvAddr, Listener: ln}
		srv, err := server.NewServer(cfg, srvEngine.Engine, sql.NewContext, memory.NewSessionBuilder(srvEngine.Pro), nil)
		if err != nil {
			panic("driver: " + err.Error())
		}
		go func() { _ = srv.Start() }()
	})
}

type sqlConn struct {
	db   *gosql.DB
	conn *gosql.Conn
	id   uint32 // server-side connection id
	t    int    // model session number
}

func openConn(t int) *sqlConn {
	db, err := gosql.Open("mysql", fmt.Sprintf("root:@tcp(%s)/db", srvAddr))
	if err != nil {
		panic("driver: " + err.Error())
	}
	db.SetMaxOpenConns(1)
	var conn *gosql.Conn
	for i := 0; ; i++ {
		conn, err = db.Conn(context.Background())
		if err == nil {
			break
		}
		if i > 100 {
			panic("driver: server does not answer: " + err.Error())
		}
		time.Sleep(20 * time.Millisecond)
	}
	c := &sqlConn{db: db, conn: conn, t: t}
	if err := conn.QueryRowContext(context.Background(), "SELECT CONNECTION_ID()").Scan(&c.id); err != nil {
		panic("driver: " + err.Error())
	}
	return c
}

// scalar runs a one-value statement; returns the Coq sqlval term and the printable value.
func (c *sqlConn) scalar(q string) (string, error) {
	var v gosql.NullInt64
	if err := c.conn.QueryRowContext(context.Background(), q).Scan(&v); err != nil {
		return "", err
	}
	if !v.Valid {
		return "NULL", nil
	}
	return fmt.Sprint(v.Int64), nil
}

func runSQL(c *lib.Ctx, cs caseT) {
	startServer()
	sqlSerial++
	nm := func(n int) string { return fmt.Sprintf("c%d_n%d", sqlSerial, n) }
	c.Count("mode_sql")
	conns := map[int]*sqlConn{}
	idToT := map[uint32]int{}
	nextT := 0
	get := func(lc int) *sqlConn {
		if conns[lc] == nil {
			nextT++
			conns[lc] = openConn(nextT)
			idToT[conns[lc].id] = nextT
		}
		return conns[lc]
	}
	defer func() {
		for _, x := range conns {
			x.conn.Close()
			x.db.Close()
		}
	}()
	rf := newRef()
	var items []string
	var fail [2]string
	setFail := func(sig, what string) {
		if fail[0] == "" {
			fail = [2]string{sig, what}
		}
	}
	disconnects, reentrant, contended := 0, 0, 0
	for i, o := range cs.SQL {
		x := get(o.C)
		t := x.t
		at := fmt.Sprintf("statement %d (%s n%d tmo %d on connection %d)", i, o.K, o.N, o.Tmo, o.C)
		var got, want, term string
		var err error
		switch o.K {
		case "get":
			if cl, ok := rf.held[o.N]; ok {
				if cl.owner == t {
					reentrant++
				} else {
					contended++
				}
			}
			if cl, ok := rf.held[o.N]; ok && cl.owner != t && o.Tmo < 0 {
				// a negative timeout waits for ever: issue it, let the holder release, and only then must it return 1
				holder := cl.owner
				done := make(chan string, 1)
				go func() {
					v, e := x.scalar(fmt.Sprintf("SELECT GET_LOCK('%s', %d)", nm(o.N), o.Tmo))
					if e != nil {
						v = "ERR:" + e.Error()
					}
					done <- v
				}()
				select {
				case v := <-done:
					setFail("sql/get_lock/negative-timeout-returned-while-lock-held", at+": returned "+v+" while session "+fmt.Sprint(holder)+" holds the lock")
				case <-time.After(150 * time.Millisecond):
				}
				for _, hc := range conns {
					if hc.t == holder {
						for rf.held[o.N].owner == holder {
							v, e := hc.scalar(fmt.Sprintf("SELECT RELEASE_LOCK('%s')", nm(o.N)))
							w := rf.apply(opT{T: holder, K: "unlock", N: o.N})
							if e != nil || (v == "1") != (w == "ROk") {
								setFail("sql/release_lock/wrong-value", fmt.Sprintf("%s: holder's RELEASE_LOCK returned %s %v", at, v, e))
								break
							}
							items = append(items, fmt.Sprintf("SI %d (SRel %d) (Some (VInt 1))", holder, o.N))
							if _, still := rf.held[o.N]; !still {
								break
							}
						}
					}
				}
				select {
				case got = <-done:
				case <-time.After(3 * time.Second):
					got = "still waiting"
				}
				rf.apply(opT{T: t, K: "lock", N: o.N})
				want = "1"
				term = fmt.Sprintf("SI %d (SGet %d (%d)%%Z) ", t, o.N, o.Tmo)
				break
			}
			got, err = x.scalar(fmt.Sprintf("SELECT GET_LOCK('%s', %d)", nm(o.N), o.Tmo))
			k := "lock"
			if o.Tmo == 0 {
				k = "try"
			}
			switch rf.apply(opT{T: t, K: k, N: o.N}) {
			case "ROk", "RBool true":
				want = "1"
			default:
				want = "0"
			}
			term = fmt.Sprintf("SI %d (SGet %d (%d)%%Z) ", t, o.N, o.Tmo)
		case "rel":
			got, err = x.scalar(fmt.Sprintf("SELECT RELEASE_LOCK('%s')", nm(o.N)))
			want = map[string]string{"ROk": "1", "RNotOwned": "0", "RNotExist": "NULL"}[rf.apply(opT{T: t, K: "unlock", N: o.N})]
			term = fmt.Sprintf("SI %d (SRel %d) ", t, o.N)
		case "isfree":
			got, err = x.scalar(fmt.Sprintf("SELECT IS_FREE_LOCK('%s')", nm(o.N)))
			want = "1"
			if _, ok := rf.held[o.N]; ok {
				want = "0"
			}
			term = fmt.Sprintf("SI %d (SIsFree %d) ", t, o.N)
		case "isused":
			got, err = x.scalar(fmt.Sprintf("SELECT IS_USED_LOCK('%s')", nm(o.N)))
			want = "NULL"
			if cl, ok := rf.held[o.N]; ok {
				want = fmt.Sprint(cl.owner)
			}
			if got != "NULL" && err == nil { // translate the server's connection id into the model's session number
				var id uint32
				fmt.Sscan(got, &id)
				if tt, ok := idToT[id]; ok {
					got = fmt.Sprint(tt)
				} else {
					got = "999999"
				}
			}
			term = fmt.Sprintf("SI %d (SIsUsed %d) ", t, o.N)
		case "relall":
			got, err = x.scalar("SELECT RELEASE_ALL_LOCKS()")
			want = strings.TrimPrefix(rf.apply(opT{T: t, K: "relall"}), "RCount ")
			term = fmt.Sprintf("SI %d SRelAll ", t)
		case "disconnect":
			disconnects++
			x.conn.Close()
			x.db.Close()
			delete(conns, o.C)
			gone := false
			for t0 := time.Now(); time.Since(t0) < 3*time.Second && !gone; {
				gone = true
				for _, p := range srvEngine.Engine.ProcessList.Processes() {
					if p.Connection == x.id {
						gone = false
					}
				}
				if !gone {
					time.Sleep(2 * time.Millisecond)
				}
			}
			if !gone {
				setFail("sql/disconnect/connection-still-listed", at+": the closed connection is still in the process list after 3 s")
			}
			rf.apply(opT{T: t, K: "relall"})
			items = append(items, fmt.Sprintf("SI %d SDisconnect None", t))
			// the property: exactly that session's locks are free now, everything else is untouched
			for n := 1; n <= universe; n++ {
				st, ow := srvEngine.Engine.LS.GetLockState(nm(n))
				wantOw := 0
				if cl, ok := rf.held[n]; ok {
					wantOw = cl.owner
				}
				if (st == sql.LockInUse) != (wantOw != 0) || (wantOw != 0 && idToT[ow] != wantOw) {
					setFail("sql/disconnect/locks-after-disconnect", fmt.Sprintf("%s: lock n%d is in state %d owner conn %d, expected holder session %d", at, n, st, ow, wantOw))
				}
			}
			continue
		default:
			panic("driver: unknown sql op " + o.K)
		}
		if err != nil {
			setFail("sql/"+o.K+"/error", at+": "+err.Error())
			break
		}
		if got != want {
			setFail("sql/"+o.K+"/wrong-value", fmt.Sprintf("%s returned %s, a re-entrant counted lock gives %s", at, got, want))
		}
		if got == "NULL" {
			items = append(items, term+"(Some VNull)")
		} else if _, e := fmt.Sscan(got, new(uint64)); e == nil {
			items = append(items, term+"(Some (VInt "+got+"))")
		} else {
			items = append(items, term+"None")
		}
	}
	if disconnects > 0 {
		c.Count("sql_has_disconnect")
	}
	if reentrant > 0 {
		c.Count("sql_has_reentrant_get_lock")
	}
	if contended > 0 {
		c.Count("sql_has_contended_get_lock")
	}
	key := ""
	if contended > 0 && (reentrant > 0 || disconnects > 0) {
		key = fmt.Sprint(cs.SQL)
	}
	id := c.Case("SqlCase "+lib.CoqList(items), cs, key)
	c.PredChecked()
	if fail[0] != "" {
		c.PredFail(id, fail[0], fail[1], cs)
	}
}

func genSQL(r *lib.RNG) caseT {
	cs := caseT{Mode: "sql"}
	n := r.Range(5, 25)
	kinds := []string{"get", "get", "get", "get", "rel", "rel", "rel", "isfree", "isused", "isused", "relall", "disconnect"}
	for i := 0; i < n; i++ {
		o := sqlOp{C: r.Range(1, 3), K: lib.Pick(r, kinds)}
		if o.K != "relall" && o.K != "disconnect" {
			o.N = r.Range(1, universe)
		}
		if o.K == "get" {
			switch x := r.Intn(60); {
			case x < 36:
				o.Tmo = 0
			case x < 59:
				o.Tmo = -1
			default:
				o.Tmo = 1 // a real one-second wait when the lock is held by someone else
			}
		}
		cs.SQL = append(cs.SQL, o)
	}
	return cs
}

// ---------------- generators ----------------
func genOp(r *lib.RNG, t int) opT {
	kinds := []string{"try", "try", "try", "lock", "unlock", "unlock", "unlock", "relall", "state", "state"}
	o := opT{T: t, K: lib.Pick(r, kinds)}
	if o.K != "relall" {
		o.N = r.Range(1, universe)
	}
	return o
}

func genSeq(r *lib.RNG) caseT {
	cs := caseT{Mode: "seq"}
	n := r.Range(4, 30)
	nsess := r.Range(1, 3)
	for i := 0; i < n; i++ {
		if nsess >= 2 && r.Chance(1, 12) {
			// S1 locks x, S1 ReleaseAll, S2 locks x, S1 ReleaseAll again (stale name in S1's set): S2 must keep x
			x, s1 := r.Range(1, universe), r.Range(1, nsess)
			s2 := s1%nsess + 1
			cs.Ops = append(cs.Ops, opT{T: s1, K: lib.Pick(r, []string{"try", "lock"}), N: x}, opT{T: s1, K: "relall"},
				opT{T: s2, K: lib.Pick(r, []string{"try", "lock"}), N: x}, opT{T: s1, K: "relall"}, opT{T: s2, K: "state", N: x},
				opT{T: s1, K: "try", N: x}, opT{T: s2, K: "unlock", N: x})
			continue
		}
		cs.Ops = append(cs.Ops, genOp(r, r.Range(1, nsess)))
	}
	return cs
}

func genConc(r *lib.RNG) caseT {
	cs := caseT{Mode: "conc"}
	g := r.Range(2, 4)
	for t := 1; t <= g; t++ {
		var p []opT
		for i, n := 0, r.Range(3, 7); i < n; i++ {
			o := genOp(r, t)
			if o.K == "lock" { // keep histories short in time: non-blocking attempts only, plus a few bounded waits
				if r.Chance(2, 3) {
					o.K = "try"
				}
			}
			p = append(p, o)
		}
		cs.Progs = append(cs.Progs, p)
	}
	return cs
}

func run(c *lib.Ctx, cs caseT) {
	switch cs.Mode {
	case "seq":
		runSeq(c, cs)
	case "conc":
		runConc(c, cs)
	case "relall-stress":
		runRelAllStress(c, cs)
	case "fresh-race":
		runFreshRace(c, cs)
	case "sql":
		runSQL(c, cs)
	default:
		panic("driver: unknown mode " + cs.Mode)
	}
}

func main() {
	lib.Main("C38", func(c *lib.Ctx) {
		c.Header = "From Coq Require Import List NArith ZArith.\nImport ListNotations.\nFrom GMS Require Import Sys.Locks Sys.C38Sql Corr.C38.\nOpen Scope N_scope."
		c.CaseType = "C38.case"
		c.MismatchFn = "C38.mismatches"
		c.SetRule("60% sequential sequences (4-30 calls of TryLock/Lock(300us)/Unlock/ReleaseAll/GetLockState by 1-3 sessions on 3 names; " +
			"compared call by call with the Coq sequential specification and with an independent reference lock table), 40% concurrent runs " +
			"(2-4 goroutines = sessions, 3-7 calls each, invocation/response order recorded with an atomic counter, history checked for " +
			"linearizability by exhaustive search), 12% SQL-layer sequences through a real server.NewServer and go-sql-driver connections (GET_LOCK with timeout 0 / 1 s / -1, RELEASE_LOCK, IS_FREE_LOCK, IS_USED_LOCK, RELEASE_ALL_LOCKS, client disconnect; every value compared with the Coq SQL-layer model and the reference), plus a directed ReleaseAll stress scenario and directed fresh-name races (2-4 sessions issue their first-ever TryLock/Lock on a brand-new name at the same instant, 100-400 rounds: exactly one may succeed). Non-trivial: a sequential case with both a " +
			"contended and a re-entrant acquisition, a concurrent case with overlapping operations; distinct = distinct histories.")
		if c.ReplayFile != "" {
			var cs caseT
			lib.LoadReplay(c.ReplayFile, &cs)
			for i := range cs.Ops {
				cs.Ops[i].R, cs.Ops[i].In, cs.Ops[i].Rs = "", 0, 0
			}
			run(c, cs)
			return
		}
		corpus := []caseT{
			{Mode: "seq", Ops: []opT{{T: 1, K: "try", N: 1}, {T: 1, K: "try", N: 1}, {T: 2, K: "try", N: 1}, {T: 2, K: "unlock", N: 1}, {T: 1, K: "unlock", N: 1},
				{T: 2, K: "lock", N: 1}, {T: 1, K: "unlock", N: 1}, {T: 2, K: "try", N: 1}, {T: 2, K: "state", N: 1}}},
			{Mode: "seq", Ops: []opT{{T: 1, K: "unlock", N: 2}, {T: 1, K: "state", N: 2}, {T: 1, K: "lock", N: 2}, {T: 1, K: "lock", N: 3}, {T: 2, K: "relall"}, {T: 1, K: "relall"},
				{T: 1, K: "relall"}, {T: 2, K: "try", N: 2}, {T: 1, K: "relall"}, {T: 2, K: "unlock", N: 2}, {T: 2, K: "unlock", N: 2}}},
			{Mode: "relall-stress"},
			// S1 locks, releases all, S2 locks, S1 releases all again: S2 keeps the lock
			{Mode: "seq", Ops: []opT{{T: 1, K: "try", N: 1}, {T: 1, K: "try", N: 2}, {T: 1, K: "relall"}, {T: 2, K: "try", N: 1}, {T: 2, K: "lock", N: 2}, {T: 2, K: "lock", N: 2},
				{T: 1, K: "relall"}, {T: 2, K: "state", N: 1}, {T: 2, K: "state", N: 2}, {T: 1, K: "try", N: 1}, {T: 1, K: "unlock", N: 2}, {T: 2, K: "unlock", N: 2}, {T: 2, K: "relall"}, {T: 1, K: "relall"}}},
			// SQL layer over a real server: re-entrancy, contention, timeouts 0 / 1 / -1, RELEASE_ALL_LOCKS, disconnect
			{Mode: "sql", SQL: []sqlOp{{C: 1, K: "get", N: 1}, {C: 1, K: "get", N: 1, Tmo: -1}, {C: 1, K: "get", N: 1, Tmo: 5}, {C: 2, K: "get", N: 1}, {C: 2, K: "isused", N: 1},
				{C: 2, K: "isfree", N: 1}, {C: 2, K: "rel", N: 1}, {C: 2, K: "rel", N: 2}, {C: 1, K: "rel", N: 1}, {C: 1, K: "rel", N: 1}, {C: 2, K: "get", N: 1, Tmo: 1},
				{C: 1, K: "rel", N: 1}, {C: 2, K: "get", N: 1, Tmo: 1}, {C: 1, K: "get", N: 1, Tmo: -1}, {C: 1, K: "isused", N: 1}, {C: 1, K: "rel", N: 1}, {C: 1, K: "isfree", N: 1}}},
			{Mode: "sql", SQL: []sqlOp{{C: 1, K: "get", N: 1}, {C: 1, K: "get", N: 2}, {C: 1, K: "get", N: 2}, {C: 2, K: "get", N: 3}, {C: 1, K: "relall"}, {C: 2, K: "get", N: 1}, {C: 1, K: "relall"},
				{C: 2, K: "isused", N: 1}, {C: 1, K: "get", N: 2}, {C: 1, K: "disconnect"}, {C: 2, K: "isused", N: 1}, {C: 2, K: "isfree", N: 2}, {C: 3, K: "get", N: 2}, {C: 2, K: "disconnect"},
				{C: 3, K: "isfree", N: 1}, {C: 3, K: "isfree", N: 3}, {C: 3, K: "isused", N: 2}, {C: 3, K: "relall"}}},
			{Mode: "fresh-race", G: 2, Rounds: 400},
			{Mode: "fresh-race", G: 4, Rounds: 400},
			{Mode: "fresh-race", G: 3, Rounds: 300, UseLock: true},
		}
		for _, cs := range corpus {
			run(c, cs)
		}
		for i := len(corpus); i < c.N; i++ {
			r := c.R.Fork()
			switch x := r.Intn(100); {
			case x < 50:
				run(c, genSeq(r))
			case x < 85:
				run(c, genConc(r))
			case x < 97:
				run(c, genSQL(r))
			default:
				run(c, caseT{Mode: "fresh-race", G: r.Range(2, 4), Rounds: r.Range(100, 300), UseLock: r.Chance(1, 3)})
			}
		}
	})
}
