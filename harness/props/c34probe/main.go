package main

import (
	"bufio"
	"fmt"
	"os"

	"verifharness/lib/eng"
)

func main() {
	e := eng.New("db")
	s := e.Session()
	sc := bufio.NewScanner(os.Stdin)
	sc.Buffer(make([]byte, 1<<20), 1<<20)
	for sc.Scan() {
		q := sc.Text()
		if q == "" {
			continue
		}
		r := s.Query(q)
		if r.Err != nil {
			fmt.Printf("%s\n   => ERR[%s] %v\n", q, eng.ErrKind(r.Err), r.Err)
			continue
		}
		ty := ""
		for _, c := range r.Schema {
			ty += c.Type.String() + " "
		}
		fmt.Printf("%s\n   => %v   (%s)\n", q, eng.Rows(r.Rows), ty)
	}
}
