// Driver for C14 (primary and unique keys are enforced exactly).  Runs generated DML histories through the real
// engine (memory backend), records every step for the Coq editor model (Corr/C14.v) and evaluates the property on the
// implementation alone: after a statement no two stored rows may be equal in the primary key / a unique index
// (collation and character prefix aware), and a statement rejected as a duplicate must really collide according to
// an independent row-at-a-time reference (model.go).
package main

import (
	"fmt"
	"strings"

	"github.com/dolthub/go-mysql-server/sql/types"

	"verifharness/lib"
	"verifharness/lib/eng"
)

type caseT struct {
	Schema Schema   `json:"schema"`
	Stmts  []Stmt   `json:"stmts"`
	SQL    []string `json:"sql,omitempty"`
}

var intPool = []int64{0, 1, 2, 11, 12, 21, 22, 111, 112, -1, -11, 5}
var binPool = []string{"a", "A", "ab", "b", "é", "è", "e", "ex", "ey", "1", "12", "2", "a1", "1a", "", "日本", "日", "abcd", "abce", "日本x", "日本y"}
var ciPool = []string{"a", "A", "b", "B", "ab", "AB", "aB", "1", "12", "a1", "A1", "abcd", "abce", "ABCE"}

func genVal(r *lib.RNG, c Col) Val {
	switch {
	case !c.Str:
		return IntV(lib.Pick(r, intPool))
	case c.Ci:
		return StrV(lib.Pick(r, ciPool))
	default:
		return StrV(lib.Pick(r, binPool))
	}
}

func genSchema(r *lib.RNG) Schema {
	var s Schema
	npk := []int{0, 1, 1, 2, 2, 2}[r.Intn(6)]
	n := npk + r.Range(1, 2)
	if n < 2 {
		n = 2
	}
	for i := 0; i < n; i++ {
		var c Col
		switch k := r.Intn(20); {
		case k < 12:
		case k < 18:
			c.Str = true
		default:
			c.Str, c.Ci = true, true
		}
		s.Cols = append(s.Cols, c)
	}
	s.PK = []int{}
	for i := 0; i < npk; i++ {
		s.PK = append(s.PK, i)
	}
	s.Uniq = []Unique{}
	if r.Chance(11, 20) {
		u := Unique{Cols: []int{npk}, Prefix: []int{0}}
		if n-npk >= 2 && r.Chance(1, 4) {
			u = Unique{Cols: []int{npk, npk + 1}, Prefix: []int{0, 0}}
		}
		for j, c := range u.Cols {
			if s.Cols[c].Str && r.Chance(1, 2) {
				u.Prefix[j] = r.Range(1, 2)
			}
		}
		if r.Chance(2, 3) {
			s.Uniq = append(s.Uniq, u)
		} else {
			// the same kind of index, but created later over the existing rows; prefix keys up to 3 characters
			for j, c := range u.Cols {
				if s.Cols[c].Str && r.Chance(1, 2) {
					u.Prefix[j] = r.Range(1, 3)
				}
			}
			s.Planned = &u
		}
	}
	return s
}

func genRow(r *lib.RNG, s Schema, have []Row) Row {
	row := make(Row, len(s.Cols))
	for i, c := range s.Cols {
		row[i] = genVal(r, c)
		if !s.isPK(i) && r.Chance(1, 8) {
			row[i] = NullV()
		}
	}
	// bias: integer key pairs whose printed concatenations collide ("112": (1,12) / (11,2), ...)
	if len(s.PK) == 2 && !s.Cols[0].Str && !s.Cols[1].Str && r.Chance(1, 4) {
		p := lib.Pick(r, [][2]int64{{1, 12}, {11, 2}, {1, 11}, {11, 1}, {12, 1}, {1, 21}, {2, 11}, {21, 1}, {11, 12}, {111, 2}})
		row[0], row[1] = IntV(p[0]), IntV(p[1])
	}
	// bias: reuse the key / the unique value of a row that was inserted earlier
	if len(have) > 0 && r.Chance(1, 3) {
		o := lib.Pick(r, have)
		if r.Bool() {
			for _, p := range s.PK {
				row[p] = o[p]
			}
		} else if u := s.anyUnique(); u != nil {
			for _, c := range u.Cols {
				row[c] = o[c]
			}
		}
	}
	return row
}

// pickFilterCol: any column except a string column of a unique secondary index (see Schema.colRef); -1 if none
func pickFilterCol(r *lib.RNG, s Schema) int {
	var ok []int
	for i := range s.Cols {
		if !(s.InUnique(i) && s.Cols[i].Str) {
			ok = append(ok, i)
		}
	}
	if len(ok) == 0 {
		return -1
	}
	return lib.Pick(r, ok)
}

func (s Schema) anyUnique() *Unique {
	if len(s.Uniq) > 0 {
		return &s.Uniq[0]
	}
	return s.Planned
}

func genPred(r *lib.RNG, s Schema, depth int) *Pred {
	if depth == 0 && r.Chance(2, 5) {
		return nil
	}
	if depth < 1 && r.Chance(1, 5) {
		k := "and"
		if r.Bool() {
			k = "or"
		}
		l, rr := genPred(r, s, 1), genPred(r, s, 1)
		if l == nil || rr == nil {
			return nil
		}
		return &Pred{Kind: k, L: l, R: rr}
	}
	c := pickFilterCol(r, s)
	if c < 0 {
		return nil
	}
	v := genVal(r, s.Cols[c])
	op := lib.Pick(r, []string{"=", "=", "<>", "<", "<=", ">", ">="})
	return &Pred{Kind: "cmp", Col: c, Op: op, V: &v}
}

func genAssigns(r *lib.RNG, s Schema, have []Row) []Assign {
	n := r.Range(1, 2)
	var as []Assign
	used := map[int]bool{}
	for i := 0; i < n; i++ {
		c := r.Intn(len(s.Cols))
		if u := s.anyUnique(); u != nil && i == 0 && r.Chance(1, 3) {
			c = lib.Pick(r, u.Cols)
		}
		if used[c] {
			continue
		}
		used[c] = true
		if len(have) > 0 && s.InUnique(c) && r.Chance(1, 2) {
			// set a unique column to a value that another row holds
			as = append(as, Assign{Col: c, V: lib.Pick(r, have)[c]})
			continue
		}
		if !s.Cols[c].Str && r.Chance(3, 5) {
			as = append(as, Assign{Col: c, Add: true, K: lib.Pick(r, []int64{1, -1, 10, 100, 1})})
		} else {
			as = append(as, Assign{Col: c, V: genVal(r, s.Cols[c])})
		}
	}
	return as
}

func genTail(r *lib.RNG, s Schema, st *Stmt) {
	st.Where = genPred(r, s, 0)
	if st.Where != nil && st.Where.Kind == "" {
		st.Where = nil
	}
	if oc := pickFilterCol(r, s); r.Bool() && oc >= 0 {
		st.Order = &Order{Col: oc, Desc: r.Bool()}
	}
	st.Limit = -1
	if r.Chance(2, 5) {
		st.Limit = r.Intn(4)
	}
}

func gen(r *lib.RNG) caseT {
	c := caseT{Schema: genSchema(r)}
	s := c.Schema
	var have []Row
	n := r.Range(5, 11)
	for i := 0; i < n; i++ {
		st := Stmt{Limit: -1}
		k := r.Intn(20)
		if i == 0 {
			k = 0
		}
		if s.Planned != nil && i >= 2 && r.Chance(1, 5) {
			c.Stmts = append(c.Stmts, Stmt{Kind: "addunique", Index: s.Planned, Alter: r.Bool(), Limit: -1})
			continue
		}
		switch {
		case k < 5:
			st.Kind = "insert"
		case k < 7:
			st.Kind = "ignore"
		case k < 10:
			st.Kind = "replace"
		case k < 13:
			st.Kind = "odku"
		case k < 18:
			st.Kind = "update"
		default:
			st.Kind = "delete"
		}
		switch st.Kind {
		case "insert", "ignore", "replace", "odku":
			m := r.Range(1, 3)
			for j := 0; j < m; j++ {
				row := genRow(r, s, have)
				st.Rows = append(st.Rows, row)
				have = append(have, row)
			}
			if st.Kind == "odku" {
				st.Assign = genAssigns(r, s, have)
			}
		case "update":
			st.Assign = genAssigns(r, s, have)
			genTail(r, s, &st)
		case "delete":
			genTail(r, s, &st)
		}
		c.Stmts = append(c.Stmts, st)
	}
	return c
}

// keyString: the concatenation of the printed key values (used only to CLASSIFY a failing input)
func keyString(s Schema, r Row) string {
	var sb strings.Builder
	for _, p := range s.PK {
		if r[p].Str {
			sb.WriteString(r[p].S)
		} else {
			fmt.Fprintf(&sb, "%d", r[p].I)
		}
	}
	return sb.String()
}

func candidates(s Schema, pre []Row, st Stmt) []Row {
	c := append([]Row(nil), pre...)
	c = append(c, st.Rows...)
	if len(st.Assign) > 0 {
		for _, r := range pre {
			c = append(c, applyAssigns(st.Assign, r))
		}
		for _, r := range st.Rows {
			c = append(c, applyAssigns(st.Assign, r))
		}
	}
	return c
}

func classifyFalseDup(s Schema, pre []Row, st Stmt) string {
	cs := candidates(s, pre, st)
	if st.Kind == "addunique" {
		// errIfDuplicateEntryExist hashes the j-th indexed value with the type of the j-th TABLE column: a binary string
		// column indexed at position j is compared under table column j's case- and accent-insensitive collation
		// (the values are distinct under the indexed column's own collation, else the rejection would be legitimate)
		for j, ic := range st.Index.Cols {
			if s.Cols[ic].Str && !s.Cols[ic].Ci && j < len(s.Cols) && s.Cols[j].Str && s.Cols[j].Ci {
				for x := range pre {
					for y := x + 1; y < len(pre); y++ {
						a, b := pre[x][ic], pre[y][ic]
						if !a.Null && !b.Null && a.S != b.S && foldCi(a.S) == foldCi(b.S) {
							return "false-dup/index-build-compares-under-another-columns-collation"
						}
					}
				}
			}
		}
	}
	for _, u := range s.Uniq {
		for k, c := range u.Cols {
			if !s.Cols[c].Str || u.Prefix[k] == 0 {
				continue
			}
			for i := range cs {
				for j := i + 1; j < len(cs); j++ {
					a, b := cs[i][c], cs[j][c]
					if a.Null || b.Null {
						continue
					}
					pa, pb := a.S, b.S
					if len(pa) > u.Prefix[k] {
						pa = pa[:u.Prefix[k]]
					}
					if len(pb) > u.Prefix[k] {
						pb = pb[:u.Prefix[k]]
					}
					if pa == pb && charPrefix(a.S, u.Prefix[k]) != charPrefix(b.S, u.Prefix[k]) {
						return "false-dup/unique-prefix-counts-bytes-not-characters"
					}
				}
			}
		}
	}
	// case variants under a case-insensitive collation: rows the editor took for different keys pile up and collide later
	for i := range cs {
		for j := i + 1; j < len(cs); j++ {
			for _, p := range s.PK {
				if s.Cols[p].Ci && s.keyEq(cs[i], cs[j]) && cs[i][p] != cs[j][p] {
					return "false-dup/pk-case-variant-under-ci-collation"
				}
			}
			for _, u := range s.Uniq {
				for _, c := range u.Cols {
					if s.Cols[c].Ci && s.uniqEq(u, cs[i], cs[j]) && cs[i][c] != cs[j][c] {
						return "false-dup/unique-case-variant-under-ci-collation"
					}
				}
			}
		}
	}
	// a unique value freed by a pending delete is taken twice; the surplus row then collides later in the statement
	for _, u := range s.Uniq {
		for xi, x := range cs {
			if !touchedRow(s, pre, st, xi, x) {
				continue
			}
			for yi, y := range cs {
				if yi != xi && yi >= len(pre) && byteUniqEq(u, x, y) {
					return "false-dup/unique-value-freed-by-pending-delete-" + st.Kind
				}
			}
		}
	}
	// (repaired by commit 1b57e874c; checked last so that a returning collision is reported unless another known cause
	// explains the input)
	if len(s.PK) >= 2 {
		for i := range cs {
			for j := i + 1; j < len(cs); j++ {
				if !s.keyEq(cs[i], cs[j]) && keyString(s, cs[i]) == keyString(s, cs[j]) {
					return "false-dup/composite-key-string-collision"
				}
			}
		}
	}
	return "false-dup/other-" + st.Kind
}

func classifyMissedDup(s Schema, pre, post []Row, a, b Row, which string, st Stmt) string {
	if which == "pk" {
		for _, p := range s.PK {
			if s.Cols[p].Ci && a[p] != b[p] {
				return "missed-dup/pk-case-variant-under-ci-collation"
			}
		}
		return "missed-dup/pk-other-" + st.Kind
	}
	for _, u := range s.Uniq {
		if !s.uniqEq(u, a, b) {
			continue
		}
		for _, c := range u.Cols {
			if s.Cols[c].Ci && a[c] != b[c] {
				return "missed-dup/unique-case-variant-under-ci-collation"
			}
		}
	}
	// a row (stored, or added earlier by the same statement) that held the same unique value (as the editor compares
	// it: bytes, byte prefix) was deleted or rewritten by this very statement
	touched := func(xi int, x Row) bool { return touchedRow(s, pre, st, xi, x) }
	for _, u := range s.Uniq {
		if !s.uniqEq(u, a, b) {
			continue
		}
		for xi, x := range candidates(s, pre, st) { // stored rows, then the statement's rows, then their images
			if touched(xi, x) && byteUniqEq(u, x, a) {
				return "missed-dup/unique-value-freed-by-pending-delete-" + st.Kind
			}
		}
	}
	return "missed-dup/unique-other-" + st.Kind
}

// touchedRow: candidate number xi (see candidates) is deleted or rewritten by the statement itself
func touchedRow(s Schema, pre []Row, st Stmt, xi int, x Row) bool {
	switch st.Kind {
	case "replace", "odku":
		for ri, r := range st.Rows {
			if xi != len(pre)+ri && s.conflict(x, r) != "" {
				return true
			}
		}
	case "update":
		return s.predTrue(st.Where, x) && !applyAssigns(st.Assign, x).Same(x)
	}
	return false
}

// byteUniqEq: equality of the indexed values as Go values, prefix counted in bytes (classification only)
func byteUniqEq(u Unique, a, b Row) bool {
	for j, c := range u.Cols {
		x, y := a[c], b[c]
		if x.Null || y.Null || x.Str != y.Str {
			return false
		}
		if x.Str && u.Prefix[j] > 0 {
			if len(x.S) > u.Prefix[j] {
				x.S = x.S[:u.Prefix[j]]
			}
			if len(y.S) > u.Prefix[j] {
				y.S = y.S[:u.Prefix[j]]
			}
		}
		if x != y {
			return false
		}
	}
	return true
}

var sigCount = map[string]int{}

func actionCoq(st Stmt) string {
	if st.Kind == "addunique" {
		return st.Coq()
	}
	return "(ADml " + st.Coq() + ")"
}

func hasTies(s Schema, rows []Row) bool {
	if len(s.PK) == 0 {
		return false
	}
	for i := range rows {
		for j := i + 1; j < len(rows); j++ {
			if s.keyEq(rows[i], rows[j]) {
				return true
			}
		}
	}
	return false
}

func run(c *lib.Ctx, cs caseT) {
	s := cs.Schema
	e := eng.New("db")
	se := e.Session()
	se.MustExec(s.CreateSQL("t"))
	cs.SQL = []string{s.CreateSQL("t")}
	var steps []string
	pre := []Row{}
	type pf struct{ sig, what string }
	var fails []pf
	interesting := false
	checked := 0
	for _, st := range cs.Stmts {
		if st.Kind == "addunique" && len(s.Uniq) > 0 {
			continue // the index exists already (an earlier attempt succeeded); one unique index per table
		}
		q := st.SQL("t", s)
		cs.SQL = append(cs.SQL, q)
		res := se.Query(q)
		succeeded := res.Err == nil
		if res.Panic != "" {
			fails = append(fails, pf{"panic/" + st.Kind, fmt.Sprintf("%s panicked: %s", q, res.Panic)})
			break
		}
		if !succeeded && eng.ErrKind(res.Err) != "dup-key" {
			fails = append(fails, pf{"unexpected-error/" + st.Kind + "/" + eng.ErrKind(res.Err), fmt.Sprintf("%s failed: %v", q, res.Err)})
			break
		}
		if succeeded {
			if len(res.Rows) != 1 {
				fails = append(fails, pf{"no-ok-result/" + st.Kind, q})
				break
			}
			if _, ok := res.Rows[0][0].(types.OkResult); !ok {
				fails = append(fails, pf{"no-ok-result/" + st.Kind, q})
				break
			}
		}
		sel := se.Query("SELECT * FROM t")
		if sel.Err != nil {
			fails = append(fails, pf{"select-failed", fmt.Sprintf("SELECT * after %s: %v", q, sel.Err)})
			break
		}
		post, err := FromEngine(s, sel.Rows)
		if err != nil {
			fails = append(fails, pf{"select-failed", err.Error()})
			break
		}
		ordered := !hasTies(s, post)
		// the schema in effect after the statement (a unique index may just have been created over the existing rows)
		sBefore, sAfter := s, s
		if st.Kind == "addunique" {
			sBefore = s.WithUnique(*st.Index) // what the statement has to respect
			if succeeded {
				sAfter = sBefore
			}
			c.Count(fmt.Sprintf("addunique_cols_%d_prefix_%v_succeeded_%v", len(st.Index.Cols), st.Index.Prefix[0] > 0, succeeded))
		}
		steps = append(steps, lib.CoqTuple(actionCoq(st), lib.CoqBool(succeeded), RowsCoq(post), lib.CoqBool(ordered)))
		c.Count("stmt_" + st.Kind)
		if !succeeded {
			c.Count("rejected_" + st.Kind)
			interesting = true
		}

		// ---- property predicate on the implementation alone ----
		if i, _, _ := s.DupPair(pre); i >= 0 {
			c.Count("step_skipped_prestate_already_has_duplicates")
		} else {
			checked++
			ref := s.Ref(pre, st)
			if i, j, w := sAfter.DupPair(post); i >= 0 {
				interesting = true
				fails = append(fails, pf{classifyMissedDup(sAfter, pre, post, post[i], post[j], w, st),
					fmt.Sprintf("after %s (table %s) the stored rows %s and %s are equal in the %s key; before: %s", q, s.CreateSQL("t"), post[i].Text(), post[j].Text(), w, RowsText(pre))})
			}
			if !succeeded && !ref.Dup {
				fails = append(fails, pf{classifyFalseDup(sBefore, pre, st),
					fmt.Sprintf("%s (table %s, stored %s) was rejected: %v; but no two rows collide in a key", q, s.CreateSQL("t"), RowsText(pre), res.Err)})
			}
			if succeeded && ref.Dup {
				if ref.TransientOnly {
					c.Count("accepted_update_with_transient_collision_only")
				} else {
					c.Count("accepted_although_rowwise_reference_rejects")
				}
				interesting = true
			}
			if succeeded && !ref.Dup && !BagEq(post, ref.Rows) {
				c.Count("contents_differ_from_reference")
			}
		}
		pre = post
		s = sAfter
	}
	key := ""
	if interesting {
		key = strings.Join(cs.SQL, ";")
	}
	c.Count(fmt.Sprintf("pk_cols_%d", len(cs.Schema.PK)))
	c.Count(fmt.Sprintf("unique_indexes_at_creation_%d", len(cs.Schema.Uniq)))
	term := lib.CoqTuple(cs.Schema.Coq(), lib.CoqList(steps))
	id := c.Case(term, cs, key)
	for k := 0; k < checked || k < 1; k++ {
		c.PredChecked()
		break
	}
	seen := map[string]bool{}
	for _, f := range fails {
		if !seen[f.sig] {
			seen[f.sig] = true
			// the summary keeps at most 200 failures: report every signature a few times only, count the rest
			if sigCount[f.sig] < 3 {
				c.PredFail(id, f.sig, f.what, cs)
			} else {
				c.Count("predicate_failure:" + f.sig)
			}
			sigCount[f.sig]++
		}
	}
}

func iv(xs ...int64) Row {
	r := make(Row, len(xs))
	for i, x := range xs {
		r[i] = IntV(x)
	}
	return r
}

func corpus() []caseT {
	ints := func(n int) []Col { return make([]Col, n) }
	v := func(x Val) *Val { return &x }
	return []caseT{
		// composite key whose printed concatenation collides: (1,12) / (11,2)
		{Schema: Schema{Cols: ints(3), PK: []int{0, 1}, Uniq: []Unique{}},
			Stmts: []Stmt{{Kind: "insert", Rows: []Row{iv(1, 12, 0), iv(11, 2, 0)}, Limit: -1},
				{Kind: "insert", Rows: []Row{iv(1, 12, 0)}, Limit: -1}, {Kind: "insert", Rows: []Row{iv(11, 2, 0)}, Limit: -1},
				{Kind: "update", Assign: []Assign{{Col: 2, Add: true, K: 1}}, Limit: -1},
				{Kind: "update", Assign: []Assign{{Col: 0, Add: true, K: 100}, {Col: 1, Add: true, K: 100}}, Limit: -1}}},
		// case variants under a case-insensitive collation
		{Schema: Schema{Cols: []Col{{Str: true, Ci: true}, {}}, PK: []int{0}, Uniq: []Unique{}},
			Stmts: []Stmt{{Kind: "insert", Rows: []Row{{StrV("a"), IntV(1)}}, Limit: -1}, {Kind: "insert", Rows: []Row{{StrV("A"), IntV(2)}}, Limit: -1},
				{Kind: "insert", Rows: []Row{{StrV("a"), IntV(3)}}, Limit: -1}}},
		{Schema: Schema{Cols: []Col{{}, {Str: true, Ci: true}}, PK: []int{0}, Uniq: []Unique{{Cols: []int{1}, Prefix: []int{0}}}},
			Stmts: []Stmt{{Kind: "insert", Rows: []Row{{IntV(1), StrV("ab")}, {IntV(2), StrV("AB")}}, Limit: -1}}},
		// unique value freed by a pending delete: REPLACE / ODKU / UPDATE
		{Schema: Schema{Cols: ints(2), PK: []int{0}, Uniq: []Unique{{Cols: []int{1}, Prefix: []int{0}}}},
			Stmts: []Stmt{{Kind: "insert", Rows: []Row{iv(1, 5), iv(2, 6), iv(3, 7)}, Limit: -1},
				{Kind: "replace", Rows: []Row{iv(1, 9), iv(2, 5), iv(3, 5)}, Limit: -1}}},
		{Schema: Schema{Cols: ints(2), PK: []int{0}, Uniq: []Unique{{Cols: []int{1}, Prefix: []int{0}}}},
			Stmts: []Stmt{{Kind: "insert", Rows: []Row{iv(1, 5)}, Limit: -1},
				{Kind: "odku", Rows: []Row{iv(1, 0), iv(4, 5), iv(5, 5)}, Assign: []Assign{{Col: 1, V: IntV(9)}}, Limit: -1}}},
		{Schema: Schema{Cols: ints(2), PK: []int{0}, Uniq: []Unique{{Cols: []int{1}, Prefix: []int{0}}}},
			Stmts: []Stmt{{Kind: "insert", Rows: []Row{iv(1, 5), iv(2, 6)}, Limit: -1},
				{Kind: "update", Assign: []Assign{{Col: 0, Add: true, K: 10}, {Col: 1, V: IntV(5)}}, Limit: -1}}},
		// prefix index counted in bytes
		{Schema: Schema{Cols: []Col{{}, {Str: true}}, PK: []int{0}, Uniq: []Unique{{Cols: []int{1}, Prefix: []int{1}}}},
			Stmts: []Stmt{{Kind: "insert", Rows: []Row{{IntV(1), StrV("é")}}, Limit: -1}, {Kind: "insert", Rows: []Row{{IntV(2), StrV("è")}}, Limit: -1},
				{Kind: "insert", Rows: []Row{{IntV(3), StrV("ex")}, {IntV(4), StrV("ey")}}, Limit: -1}}},
		// keyless table, unique key, NULLs
		{Schema: Schema{Cols: ints(2), PK: []int{}, Uniq: []Unique{{Cols: []int{0}, Prefix: []int{0}}}},
			Stmts: []Stmt{{Kind: "insert", Rows: []Row{{NullV(), IntV(1)}, {NullV(), IntV(1)}, iv(2, 2)}, Limit: -1},
				{Kind: "insert", Rows: []Row{iv(2, 3)}, Limit: -1},
				{Kind: "delete", Where: &Pred{Kind: "cmp", Col: 1, Op: "=", V: v(IntV(1))}, Limit: 1},
				{Kind: "update", Assign: []Assign{{Col: 0, V: IntV(2)}}, Where: &Pred{Kind: "cmp", Col: 1, Op: "=", V: v(IntV(1))}, Limit: -1}}},
		// (a) composite key + unique index, stored rows whose printed keys collide, UPDATE to another row's unique value
		{Schema: Schema{Cols: ints(3), PK: []int{0, 1}, Uniq: []Unique{{Cols: []int{2}, Prefix: []int{0}}}},
			Stmts: []Stmt{{Kind: "insert", Rows: []Row{iv(1, 12, 5)}, Limit: -1}, {Kind: "insert", Rows: []Row{iv(11, 2, 6)}, Limit: -1},
				{Kind: "update", Assign: []Assign{{Col: 2, V: IntV(6)}}, Where: &Pred{Kind: "cmp", Col: 0, Op: "=", V: v(IntV(1))}, Limit: -1},
				{Kind: "update", Assign: []Assign{{Col: 2, V: IntV(5)}}, Where: &Pred{Kind: "cmp", Col: 0, Op: "=", V: v(IntV(11))}, Limit: -1},
				{Kind: "update", Assign: []Assign{{Col: 2, V: IntV(7)}}, Where: &Pred{Kind: "cmp", Col: 0, Op: "=", V: v(IntV(11))}, Limit: -1}}},
		// (b) unique index created over existing rows: prefix and full value, CREATE and ALTER, keyed and keyless
		{Schema: Schema{Cols: []Col{{}, {Str: true}}, PK: []int{0}, Uniq: []Unique{}, Planned: &Unique{Cols: []int{1}, Prefix: []int{3}}},
			Stmts: []Stmt{{Kind: "insert", Rows: []Row{{IntV(1), StrV("abcd")}, {IntV(2), StrV("abce")}, {IntV(3), NullV()}, {IntV(4), NullV()}}, Limit: -1},
				{Kind: "addunique", Index: &Unique{Cols: []int{1}, Prefix: []int{3}}, Limit: -1},
				{Kind: "addunique", Index: &Unique{Cols: []int{1}, Prefix: []int{3}}, Alter: true, Limit: -1},
				{Kind: "delete", Where: &Pred{Kind: "cmp", Col: 0, Op: "=", V: v(IntV(2))}, Limit: -1},
				{Kind: "addunique", Index: &Unique{Cols: []int{1}, Prefix: []int{3}}, Alter: true, Limit: -1},
				{Kind: "insert", Rows: []Row{{IntV(5), StrV("abcf")}}, Limit: -1}, {Kind: "insert", Rows: []Row{{IntV(6), StrV("abd")}}, Limit: -1}}},
		{Schema: Schema{Cols: []Col{{}, {Str: true}}, PK: []int{}, Uniq: []Unique{}, Planned: &Unique{Cols: []int{1}, Prefix: []int{0}}},
			Stmts: []Stmt{{Kind: "insert", Rows: []Row{{IntV(1), StrV("abcd")}, {IntV(2), StrV("abcd")}}, Limit: -1},
				{Kind: "addunique", Index: &Unique{Cols: []int{1}, Prefix: []int{0}}, Limit: -1},
				{Kind: "update", Assign: []Assign{{Col: 1, V: StrV("abce")}}, Where: &Pred{Kind: "cmp", Col: 0, Op: "=", V: v(IntV(2))}, Limit: -1},
				{Kind: "addunique", Index: &Unique{Cols: []int{1}, Prefix: []int{0}}, Limit: -1},
				{Kind: "insert", Rows: []Row{{IntV(3), StrV("abce")}}, Limit: -1}}},
		{Schema: Schema{Cols: ints(3), PK: []int{0, 1}, Uniq: []Unique{}, Planned: &Unique{Cols: []int{2}, Prefix: []int{0}}},
			Stmts: []Stmt{{Kind: "insert", Rows: []Row{iv(1, 12, 5)}, Limit: -1}, {Kind: "insert", Rows: []Row{iv(11, 2, 6)}, Limit: -1},
				{Kind: "addunique", Index: &Unique{Cols: []int{2}, Prefix: []int{0}}, Limit: -1}}},
		// index built on a binary column while the table's first column is case-insensitive
		{Schema: Schema{Cols: []Col{{Str: true, Ci: true}, {Str: true}}, PK: []int{}, Uniq: []Unique{}, Planned: &Unique{Cols: []int{1}, Prefix: []int{0}}},
			Stmts: []Stmt{{Kind: "insert", Rows: []Row{{StrV("b"), StrV("a")}, {StrV("B"), StrV("A")}}, Limit: -1},
				{Kind: "addunique", Index: &Unique{Cols: []int{1}, Prefix: []int{0}}, Limit: -1}}},
		// ... reached through an accent variant: c1's 'e' / 'è' are hashed under c0's utf8mb4_0900_ai_ci (seed 31337)
		{Schema: Schema{Cols: []Col{{Str: true, Ci: true}, {Str: true}}, PK: []int{0}, Uniq: []Unique{}, Planned: &Unique{Cols: []int{1}, Prefix: []int{2}}},
			Stmts: []Stmt{{Kind: "insert", Rows: []Row{{StrV("1"), StrV("1a")}, {StrV("12"), NullV()}, {StrV("aB"), StrV("e")}, {StrV("abcd"), StrV("日")}, {StrV("ABCE"), StrV("è")}}, Limit: -1},
				{Kind: "addunique", Index: &Unique{Cols: []int{1}, Prefix: []int{2}}, Limit: -1}}},
		// order-dependent key shifts
		{Schema: Schema{Cols: ints(2), PK: []int{0}, Uniq: []Unique{}},
			Stmts: []Stmt{{Kind: "insert", Rows: []Row{iv(1, 0), iv(2, 0), iv(3, 0)}, Limit: -1},
				{Kind: "update", Assign: []Assign{{Col: 0, Add: true, K: 1}}, Limit: -1},
				{Kind: "update", Assign: []Assign{{Col: 0, Add: true, K: 1}}, Order: &Order{Col: 0, Desc: true}, Limit: -1},
				{Kind: "update", Assign: []Assign{{Col: 0, Add: true, K: -1}}, Order: &Order{Col: 0}, Limit: 2}}},
	}
}

func main() {
	lib.Main("C14", func(c *lib.Ctx) {
		c.Header = "From Coq Require Import List NArith ZArith.\nImport ListNotations.\nFrom GMS Require Import Store.C14Editor Corr.C14.\nOpen Scope N_scope."
		c.CaseType = "C14.case"
		c.MismatchFn = "C14.mismatches"
		c.SetRule("one table per case: 0-2 primary key columns (BIGINT / VARCHAR with utf8mb4_0900_bin or _ai_ci), 0-1 unique index " +
			"(1-2 columns, optional prefix), 1-2 further columns; 5-11 statements (INSERT, INSERT IGNORE, REPLACE, ON DUPLICATE KEY UPDATE, " +
			"UPDATE, DELETE with WHERE / ORDER BY / LIMIT) over small collision-biased value pools (1,12,11,2; a,A; é,è; NULLs). " +
			"A case is non-trivial when some statement was rejected, stored a duplicate or hit a key collision; distinct = distinct SQL texts.")
		if c.ReplayFile != "" {
			var cs caseT
			lib.LoadReplay(c.ReplayFile, &cs)
			run(c, cs)
			return
		}
		cp := corpus()
		for _, cs := range cp {
			run(c, cs)
		}
		for i := len(cp); i < c.N; i++ {
			run(c, gen(c.R.Fork()))
		}
	})
}
