// Driver for C08 (aggregate and window functions): runs GROUP BY aggregates and window functions of /repo's engine
// over generated partitions (NULLs, ties, duplicates, sizes 0..n) and ROWS frame specifications, records the
// observations for the Coq model and evaluates the property predicate with an independent Go reference of the
// definitions.
package main

import (
	"fmt"
	"math"
	"math/big"
	"sort"
	"strings"

	"github.com/cockroachdb/apd/v3"

	"verifharness/lib"
	"verifharness/lib/eng"
)

type IV struct {
	Null bool  `json:"null,omitempty"`
	V    int64 `json:"v,omitempty"`
}

func (v IV) SQL() string {
	if v.Null {
		return "NULL"
	}
	return fmt.Sprintf("%d", v.V)
}
func (v IV) Coq() string {
	if v.Null {
		return "None"
	}
	return "(Some " + lib.CoqZ(v.V) + ")"
}
func coqIVs(xs []IV) string { return lib.CoqListOf(xs, func(v IV) string { return v.Coq() }) }

type Rec struct {
	ID int64 `json:"id"`
	G  int64 `json:"g"`
	K  IV    `json:"k"`
	X  IV    `json:"x"`
}

type Bound struct {
	Kind string `json:"kind"` // UP, P, C, F, UF
	N    int64  `json:"n,omitempty"`
}

func (b Bound) SQL() string {
	switch b.Kind {
	case "UP":
		return "UNBOUNDED PRECEDING"
	case "P":
		return fmt.Sprintf("%d PRECEDING", b.N)
	case "C":
		return "CURRENT ROW"
	case "F":
		return fmt.Sprintf("%d FOLLOWING", b.N)
	}
	return "UNBOUNDED FOLLOWING"
}
func (b Bound) Coq() string {
	switch b.Kind {
	case "UP":
		return "UnbP"
	case "P":
		return fmt.Sprintf("(Prec %d)", b.N)
	case "C":
		return "Cur"
	case "F":
		return fmt.Sprintf("(Foll %d)", b.N)
	}
	return "UnbF"
}

// lo/hi offsets relative to the current row; unbounded = +-1<<40
func (b Bound) off() int64 {
	switch b.Kind {
	case "UP":
		return -(1 << 40)
	case "P":
		return -b.N
	case "F":
		return b.N
	case "UF":
		return 1 << 40
	}
	return 0
}

type caseT struct {
	Kind  string   `json:"kind"` // window | group | special
	Rows  []Rec    `json:"rows"`
	SB    Bound    `json:"sb"`
	EB    Bound    `json:"eb"`
	NT    int64    `json:"ntile"`
	LagO  int64    `json:"lag_off"`
	LagD  IV       `json:"lag_def"`
	LeadO int64    `json:"lead_off"`
	LeadD IV       `json:"lead_def"`
	Where string   `json:"where,omitempty"`
	Cents []IV     `json:"cents,omitempty"` // decimal kind: d = cents/100 per row (g from Rows)
	RDesc bool     `json:"range_desc,omitempty"`
	Strs  []SV     `json:"strs,omitempty"` // gconcat kind: s per row
	GCD   bool     `json:"gc_distinct,omitempty"`
	GCO   string   `json:"gc_order,omitempty"` // "", "asc", "desc"
	GCS   *string  `json:"gc_sep,omitempty"`   // nil: default ','
	SQL   []string `json:"sql,omitempty"`
}

// ---------- observed values ----------

type oval struct {
	kind string // null int f nan panic other
	i    int64
	f    float64
	raw  string
}

func obs(v interface{}) oval {
	switch x := v.(type) {
	case nil:
		return oval{kind: "null"}
	case int64:
		return oval{kind: "int", i: x}
	case int:
		return oval{kind: "int", i: int64(x)}
	case int8:
		return oval{kind: "int", i: int64(x)}
	case int16:
		return oval{kind: "int", i: int64(x)}
	case int32:
		return oval{kind: "int", i: int64(x)}
	case uint64:
		if x > math.MaxInt64 {
			return oval{kind: "other", raw: fmt.Sprint(x)}
		}
		return oval{kind: "int", i: int64(x)}
	case float64:
		if math.IsNaN(x) {
			return oval{kind: "nan"}
		}
		if x == math.Trunc(x) && math.Abs(x) < 1<<62 {
			return oval{kind: "int", i: int64(x), f: x}
		}
		return oval{kind: "f", f: x}
	}
	return oval{kind: "other", raw: fmt.Sprintf("%T:%v", v, v)}
}
func (o oval) Coq() string {
	switch o.kind {
	case "null":
		return "ONull"
	case "int":
		return "(OInt " + lib.CoqZ(o.i) + ")"
	case "nan":
		return "ONaN"
	case "panic":
		return "OPanic"
	case "f":
		frac, exp := math.Frexp(o.f)
		m := int64(frac * (1 << 53))
		return fmt.Sprintf("(OF %s %s)", lib.CoqZ(m), lib.CoqZ(int64(exp-53)))
	}
	return "OPanic" // never agrees with the model: reported as a mismatch
}
func (o oval) String() string {
	switch o.kind {
	case "null":
		return "NULL"
	case "int":
		return fmt.Sprint(o.i)
	case "f":
		return fmt.Sprint(o.f)
	}
	return o.kind + o.raw
}
func coqOvals(os []oval) string { return lib.CoqListOf(os, func(o oval) string { return o.Coq() }) }

// expected value by the definition
type want struct {
	null bool
	num  int64 // value, or numerator
	den  int64 // 0: integer value; >0: rational num/den
}

func wInt(x int64) want { return want{num: x} }
func wNull() want       { return want{null: true} }
func wIV(v IV) want {
	if v.Null {
		return wNull()
	}
	return wInt(v.V)
}
func (w want) String() string {
	if w.null {
		return "NULL"
	}
	if w.den > 0 {
		return fmt.Sprintf("%d/%d", w.num, w.den)
	}
	return fmt.Sprint(w.num)
}
func (w want) matches(o oval) bool {
	switch {
	case w.null:
		return o.kind == "null"
	case w.den == 0:
		return o.kind == "int" && o.i == w.num
	default:
		q := float64(w.num) / float64(w.den)
		var f float64
		switch o.kind {
		case "int":
			f = float64(o.i)
		case "f":
			f = o.f
		default:
			return false
		}
		return math.Abs(f-q) <= 1e-9*math.Max(1, math.Abs(q))
	}
}

// ---------- reference definitions ----------

func refAgg(fn string, xs []IV) want {
	var nn []int64
	for _, x := range xs {
		if !x.Null {
			nn = append(nn, x.V)
		}
	}
	switch fn {
	case "COUNT":
		return wInt(int64(len(nn)))
	case "COUNT*":
		return wInt(int64(len(xs)))
	}
	if len(nn) == 0 {
		return wNull()
	}
	var s int64
	mn, mx := nn[0], nn[0]
	for _, x := range nn {
		s += x
		if x < mn {
			mn = x
		}
		if x > mx {
			mx = x
		}
	}
	switch fn {
	case "SUM":
		return wInt(s)
	case "AVG":
		return want{num: s, den: int64(len(nn))}
	case "MIN":
		return wInt(mn)
	case "MAX":
		return wInt(mx)
	}
	panic("refAgg " + fn)
}

func keyLess(a, b IV) bool { // NULL sorts first
	if a.Null || b.Null {
		return a.Null && !b.Null
	}
	return a.V < b.V
}
func keyEq(a, b IV) bool { return a.Null == b.Null && (a.Null || a.V == b.V) }

func refNtile(count, b, i int64) int64 {
	if b > count {
		return i + 1
	}
	size, big := count/b, count%b
	if i < big*(size+1) {
		return i/(size+1) + 1
	}
	return big + (i-big*(size+1))/size + 1
}

// ---------- generators ----------

func genIV(r *lib.RNG, nullNum, nullDen int, lo, hi int) IV {
	if r.Chance(nullNum, nullDen) {
		return IV{Null: true}
	}
	return IV{V: int64(r.Range(lo, hi))}
}

func genRows(r *lib.RNG) []Rec {
	n := r.Range(0, 10)
	if r.Chance(1, 8) {
		n = r.Range(11, 22)
	}
	ng := r.Range(1, 3)
	nullNum := lib.Pick(r, []int{1, 1, 2, 5})
	rows := make([]Rec, n)
	perm := make([]int64, n)
	for i := range perm {
		perm[i] = int64(i + 1)
	}
	for i := n - 1; i > 0; i-- {
		j := r.Intn(i + 1)
		perm[i], perm[j] = perm[j], perm[i]
	}
	for i := range rows {
		x := genIV(r, nullNum, 6, -20, 60)
		if !x.Null && r.Chance(1, 10) {
			x.V = lib.Pick(r, []int64{-1, 1000000, -999983, 255, 1 << 40})
		}
		rows[i] = Rec{ID: perm[i], G: int64(r.Range(1, ng)), K: genIV(r, 1, 6, 0, 3), X: x}
	}
	return rows
}

func genBound(r *lib.RNG, start bool) Bound {
	n := int64(r.Range(0, 3))
	switch r.Intn(5) {
	case 0:
		if start {
			return Bound{Kind: "UP"}
		}
		return Bound{Kind: "UF"}
	case 1:
		return Bound{Kind: "P", N: n}
	case 2:
		return Bound{Kind: "C"}
	case 3:
		return Bound{Kind: "F", N: n}
	default:
		if start {
			return Bound{Kind: "P", N: n + 1}
		}
		return Bound{Kind: "F", N: n + 1}
	}
}

func gen(r *lib.RNG) caseT {
	cs := caseT{Kind: "window", Rows: genRows(r), SB: genBound(r, true), EB: genBound(r, false),
		NT: int64(r.Range(1, 6)), LagO: int64(r.Range(0, 3)), LeadO: int64(r.Range(0, 3)),
		LagD: genIV(r, 1, 2, -7, -1), LeadD: genIV(r, 1, 2, -7, -1)}
	switch r.Intn(10) {
	case 0: // DECIMAL aggregates
		cs.Kind = "decimal"
		cs.Cents = make([]IV, len(cs.Rows))
		for i := range cs.Cents {
			cs.Cents[i] = genIV(r, 1, 5, -5000, 90000)
		}
		return cs
	case 3: // GROUP_CONCAT
		cs.Kind = "gconcat"
		cs.Strs = make([]SV, len(cs.Rows))
		for i := range cs.Strs {
			switch r.Intn(7) {
			case 0:
				cs.Strs[i] = SV{Null: true}
			case 1:
				cs.Strs[i] = SV{S: ""}
			default:
				cs.Strs[i] = SV{S: lib.Pick(r, []string{"a", "b", "ab", "B", "a,b", "x|y", "0"})}
			}
		}
		cs.GCD = r.Bool()
		cs.GCO = lib.Pick(r, []string{"", "asc", "desc", "asc"})
		if r.Bool() {
			sp := lib.Pick(r, []string{"|", "", "--", ", "})
			cs.GCS = &sp
		}
		return cs
	case 1, 2: // RANGE frames: integer order keys without NULL, gaps and ties
		cs.Kind = "range"
		for i := range cs.Rows {
			cs.Rows[i].K = IV{V: int64(r.Range(0, 9))}
		}
		return cs
	}
	if r.Chance(3, 4) {
		cs.Kind = "group"
		if r.Chance(1, 6) {
			cs.Where = "id > 1000"
		}
	}
	return cs
}

// ---------- running ----------

var nCases int

func mkCase(c *lib.Ctx, term string, replay interface{}, key string) int {
	nCases++
	return c.Case(term, replay, key)
}
func mkCaseNM(c *lib.Ctx, replay interface{}, key string) int {
	nCases++
	return c.CaseNoModel(replay, key)
}

func setup(rows []Rec) *eng.S {
	e := eng.New("db")
	s := e.Session()
	s.MustExec("CREATE TABLE t (id BIGINT PRIMARY KEY, g BIGINT, k BIGINT, x BIGINT)")
	if len(rows) > 0 {
		var vals []string
		for _, r := range rows {
			vals = append(vals, fmt.Sprintf("(%d,%d,%s,%s)", r.ID, r.G, r.K.SQL(), r.X.SQL()))
		}
		s.MustExec("INSERT INTO t VALUES " + strings.Join(vals, ","))
	}
	return s
}

type fnSpec struct {
	name  string // label
	sql   string
	coq   string
	frame bool
}

func runWindow(c *lib.Ctx, cs caseT) {
	s := setup(cs.Rows)
	// window order: g, k (NULL first), id
	buf := append([]Rec(nil), cs.Rows...)
	sort.SliceStable(buf, func(i, j int) bool {
		a, b := buf[i], buf[j]
		if a.G != b.G {
			return a.G < b.G
		}
		if !keyEq(a.K, b.K) {
			return keyLess(a.K, b.K)
		}
		return a.ID < b.ID
	})
	pos := map[int64]int{}
	xs := make([]IV, len(buf))
	ks := make([]IV, len(buf))
	for i, r := range buf {
		pos[r.ID] = i
		xs[i] = r.X
		ks[i] = r.K
	}
	type part struct{ ps, pe int }
	var parts []part
	for i := 0; i < len(buf); {
		j := i
		for j < len(buf) && buf[j].G == buf[i].G {
			j++
		}
		parts = append(parts, part{i, j})
		i = j
	}
	frameSQL := fmt.Sprintf("ROWS BETWEEN %s AND %s", cs.SB.SQL(), cs.EB.SQL())
	wf := "OVER (PARTITION BY g ORDER BY k, id " + frameSQL + ")"
	wp := "OVER (PARTITION BY g ORDER BY k, id)"
	wr := "OVER (PARTITION BY g ORDER BY k)"
	def := func(v IV) string {
		if v.Null {
			return ""
		}
		return fmt.Sprintf(", %d", v.V)
	}
	lagD, leadD := cs.LagD, cs.LeadD
	queries := [][]fnSpec{
		{
			{"SUM", "SUM(x) " + wf, "FSum", true}, {"AVG", "AVG(x) " + wf, "FAvg", true},
			{"COUNT", "COUNT(x) " + wf, "FCount", true}, {"COUNT*", "COUNT(*) " + wf, "FCountStar", true},
			{"MAX", "MAX(x) " + wf, "FMax", true}, {"FIRST_VALUE", "FIRST_VALUE(x) " + wf, "FFirst", true},
			{"LAST_VALUE", "LAST_VALUE(x) " + wf, "FLast", true},
			{"ROW_NUMBER", "ROW_NUMBER() " + wp, "FRowNumber", false},
			{"NTILE", fmt.Sprintf("NTILE(%d) %s", cs.NT, wp), fmt.Sprintf("(FNtile %d)", cs.NT), false},
			{"LAG", fmt.Sprintf("LAG(x, %d%s) %s", cs.LagO, def(lagD), wp), fmt.Sprintf("(FLag %d %s)", cs.LagO, lagD.Coq()), false},
			{"LEAD", fmt.Sprintf("LEAD(x, %d%s) %s", cs.LeadO, def(leadD), wp), fmt.Sprintf("(FLead %d %s)", cs.LeadO, leadD.Coq()), false},
		},
		{{"MIN", "MIN(x) " + wf, "FMin", true}},
		{{"RANK", "RANK() " + wr, "FRank", false}, {"DENSE_RANK", "DENSE_RANK() " + wr, "FDenseRank", false},
			{"PERCENT_RANK", "PERCENT_RANK() " + wr, "FPercentRank", false}},
	}
	cs.SQL = nil
	lo, hi := cs.SB.off(), cs.EB.off()
	frameShape := cs.SB.Kind + "-" + cs.EB.Kind
	for _, fns := range queries {
		var sel []string
		for _, f := range fns {
			sel = append(sel, f.sql)
		}
		q := "SELECT id, " + strings.Join(sel, ", ") + " FROM t"
		cs.SQL = append(cs.SQL, q)
		res := s.Query(q)
		if res.Err != nil && res.Panic == "" {
			// frame specification rejected by the engine (e.g. start after end kinds): not a case
			c.Count("query_rejected:" + eng.ErrKind(res.Err))
			continue
		}
		// observed[f][bufpos]
		observed := make([][]oval, len(fns))
		for fi := range fns {
			observed[fi] = make([]oval, len(buf))
		}
		if res.Panic == "" {
			if len(res.Rows) != len(buf) {
				id := mkCaseNM(c, cs, "")
				c.PredChecked()
				c.PredFail(id, "win/row-count", fmt.Sprintf("%s returned %d rows for %d input rows", q, len(res.Rows), len(buf)), cs)
				continue
			}
			badRow := false
			for _, row := range res.Rows {
				idv, ok := row[0].(int64)
				p, known := pos[idv]
				if !ok || !known || len(row) != 1+len(fns) {
					badRow = true
					break
				}
				for fi := range fns {
					observed[fi][p] = obs(row[1+fi])
				}
			}
			if badRow {
				id := mkCaseNM(c, cs, "")
				c.PredChecked()
				c.PredFail(id, "win/row-identity", fmt.Sprintf("%s returned a row whose id column is not an id of the table: %v", q, eng.Rows(res.Rows)), cs)
				continue
			}
		}
		for fi, f := range fns {
			for _, pt := range parts {
				n := pt.pe - pt.ps
				var o []oval
				if res.Panic != "" {
					o = []oval{{kind: "panic"}}
				} else {
					o = observed[fi][pt.ps:pt.pe]
				}
				sb, eb := cs.SB, cs.EB
				term := fmt.Sprintf("CWin %s %s %s %d %d %s %s %s", f.coq, coqIVs(xs), coqIVs(ks), pt.ps, pt.pe, sb.Coq(), eb.Coq(), coqOvals(o))
				key := ""
				if n >= 2 {
					key = fmt.Sprintf("%s|%v|%d", f.sql, buf, pt.ps)
				}
				var id int
				if res.Panic != "" && pt.ps != 0 {
					// the panic took the whole query down; the model attributes it to the first partition
					id = mkCaseNM(c, cs, key)
				} else {
					id = mkCase(c, term, cs, key)
				}
				c.Count("win_" + f.name)
				if f.frame {
					c.Count("frame_" + frameShape)
				}
				c.PredChecked()
				if res.Panic != "" {
					sig := "win-" + strings.ToLower(f.name) + "/panic"
					if f.name == "MIN" && strings.Contains(res.Panic, "slice bounds out of range") {
						sig = "win-min/panic-frame-before-first-row"
					}
					c.PredFail(id, sig, fmt.Sprintf("%s panicked: %s (rows %v)", q, res.Panic, buf), cs)
					continue
				}
				for i := 0; i < n; i++ {
					abs := pt.ps + i
					// frame rows by the definition
					var fr []IV
					for j := 0; j < n; j++ {
						if int64(i)+lo <= int64(j) && int64(j) <= int64(i)+hi {
							fr = append(fr, xs[pt.ps+j])
						}
					}
					var w want
					switch f.name {
					case "SUM", "AVG", "COUNT", "COUNT*", "MIN", "MAX":
						w = refAgg(f.name, fr)
					case "FIRST_VALUE":
						if len(fr) == 0 {
							w = wNull()
						} else {
							w = wIV(fr[0])
						}
					case "LAST_VALUE":
						if len(fr) == 0 {
							w = wNull()
						} else {
							w = wIV(fr[len(fr)-1])
						}
					case "ROW_NUMBER":
						w = wInt(int64(i + 1))
					case "NTILE":
						w = wInt(refNtile(int64(n), cs.NT, int64(i)))
					case "LAG", "LEAD":
						j, d := i-int(cs.LagO), lagD
						if f.name == "LEAD" {
							j, d = i+int(cs.LeadO), leadD
						}
						if j >= 0 && j < n {
							w = wIV(xs[pt.ps+j])
						} else {
							w = wIV(d)
						}
					case "RANK", "DENSE_RANK", "PERCENT_RANK":
						less := 0
						dist := map[string]bool{}
						for j := 0; j < n; j++ {
							if keyLess(ks[pt.ps+j], ks[abs]) {
								less++
								dist[ks[pt.ps+j].SQL()] = true
							}
						}
						switch f.name {
						case "RANK":
							w = wInt(int64(less + 1))
						case "DENSE_RANK":
							w = wInt(int64(len(dist) + 1))
						default:
							if n == 1 {
								w = wInt(0)
							} else {
								w = want{num: int64(less), den: int64(n - 1)}
							}
						}
					}
					if !w.matches(o[i]) {
						sig := "win-" + strings.ToLower(f.name) + "/wrong-value/" + frameShape
						allNull := len(fr) > 0
						for _, x := range fr {
							if !x.Null {
								allNull = false
							}
						}
						switch {
						case f.name == "SUM" && allNull && o[i].kind == "int" && o[i].i == 0:
							sig = "win-sum/all-null-frame-gives-0"
						case f.name == "AVG" && w.null && o[i].kind == "nan":
							sig = "win-avg/no-value-gives-nan"
						}
						c.PredFail(id, sig, fmt.Sprintf("%s: row id=%d (position %d of its partition %v) got %v, definition gives %v over frame %v",
							f.sql, buf[abs].ID, i, xs[pt.ps:pt.pe], o[i], w, fr), cs)
						break
					}
				}
			}
		}
	}
}

func runGroup(c *lib.Ctx, cs caseT) {
	s := setup(cs.Rows)
	where := ""
	if cs.Where != "" {
		where = " WHERE " + cs.Where
	}
	aggs := "SUM(x), AVG(x), COUNT(x), COUNT(*), MIN(x), MAX(x), BIT_AND(x), BIT_OR(x), BIT_XOR(x)"
	type grp struct {
		xs  []IV
		row []interface{}
	}
	var groups []grp
	var q string
	if cs.Where != "" || len(cs.Rows) == 0 {
		q = "SELECT 0, " + aggs + " FROM t" + where
		res := s.Query(q)
		if res.Err != nil || len(res.Rows) != 1 {
			id := mkCaseNM(c, cs, "")
			c.PredChecked()
			c.PredFail(id, "group/error", fmt.Sprintf("%s: %v (%d rows)", q, res.Err, len(res.Rows)), cs)
			return
		}
		groups = append(groups, grp{nil, res.Rows[0]})
	} else {
		q = "SELECT g, " + aggs + " FROM t GROUP BY g"
		res := s.Query(q)
		if res.Err != nil {
			id := mkCaseNM(c, cs, "")
			c.PredChecked()
			c.PredFail(id, "group/error", fmt.Sprintf("%s: %v", q, res.Err), cs)
			return
		}
		byG := map[int64][]IV{}
		for _, r := range cs.Rows {
			byG[r.G] = append(byG[r.G], r.X)
		}
		if len(res.Rows) != len(byG) {
			id := mkCaseNM(c, cs, "")
			c.PredChecked()
			c.PredFail(id, "group/group-count", fmt.Sprintf("%s returned %d groups, expected %d", q, len(res.Rows), len(byG)), cs)
			return
		}
		for _, row := range res.Rows {
			groups = append(groups, grp{byG[row[0].(int64)], row})
		}
	}
	cs.SQL = []string{q}
	for _, g := range groups {
		o := make([]oval, 9)
		for i := range o {
			o[i] = obs(g.row[1+i])
		}
		u := func(v interface{}) string {
			switch x := v.(type) {
			case uint64:
				return fmt.Sprintf("%d", x)
			case int64:
				return lib.CoqZ(x)
			}
			return "(-1)"
		}
		term := fmt.Sprintf("CGroup %s %s %s %s %s %s %s %s %s %s", coqIVs(g.xs), o[0].Coq(), o[1].Coq(), u(g.row[3]), u(g.row[4]),
			o[4].Coq(), o[5].Coq(), u(g.row[7]), u(g.row[8]), u(g.row[9]))
		key := ""
		if len(g.xs) >= 2 {
			key = fmt.Sprintf("g|%v", g.xs)
		}
		id := mkCase(c, term, cs, key)
		c.Count(fmt.Sprintf("group_size_%d", min(len(g.xs), 6)))
		c.PredChecked()
		for i, fn := range []string{"SUM", "AVG", "COUNT", "COUNT*", "MIN", "MAX"} {
			w := refAgg(fn, g.xs)
			if !w.matches(o[i]) {
				c.PredFail(id, "group-"+strings.ToLower(fn)+"/wrong-value", fmt.Sprintf("%s over %v = %v, definition gives %v", fn, g.xs, o[i], w), cs)
			}
		}
		and, or, xor := ^uint64(0), uint64(0), uint64(0)
		for _, x := range g.xs {
			if !x.Null {
				and &= uint64(x.V)
				or |= uint64(x.V)
				xor ^= uint64(x.V)
			}
		}
		for i, wv := range []uint64{and, or, xor} {
			if got, ok := g.row[7+i].(uint64); !ok || got != wv {
				c.PredFail(id, "group-bit/wrong-value", fmt.Sprintf("BIT_AND/OR/XOR[%d] over %v = %v, definition gives %d", i, g.xs, g.row[7+i], wv), cs)
			}
		}
	}
}

// ---------- DECIMAL aggregates (exact apd accumulator), evaluated repeatedly; the table must stay unchanged ----------

func decCents(v interface{}) (int64, bool) {
	var txt string
	switch x := v.(type) {
	case *apd.Decimal:
		txt = x.Text('f')
	case apd.Decimal:
		txt = x.Text('f')
	case string:
		txt = x
	default:
		return 0, false
	}
	r, ok := new(big.Rat).SetString(txt)
	if !ok {
		return 0, false
	}
	r.Mul(r, big.NewRat(100, 1))
	if !r.IsInt() || !r.Num().IsInt64() {
		return 0, false
	}
	return r.Num().Int64(), true
}

func obsDec(v interface{}) oval {
	if v == nil {
		return oval{kind: "null"}
	}
	if c, ok := decCents(v); ok {
		return oval{kind: "int", i: c}
	}
	return oval{kind: "other", raw: fmt.Sprintf("%T:%v", v, v)}
}

func centsSQL(v IV) string {
	if v.Null {
		return "NULL"
	}
	sign := ""
	c := v.V
	if c < 0 {
		sign, c = "-", -c
	}
	return fmt.Sprintf("%s%d.%02d", sign, c/100, c%100)
}

func runDecimal(c *lib.Ctx, cs caseT) {
	e := eng.New("db")
	s := e.Session()
	s.MustExec("CREATE TABLE td (id BIGINT PRIMARY KEY, g BIGINT, d DECIMAL(12,2))")
	byG := map[int64][]IV{}
	var all []IV
	for i, r := range cs.Rows {
		s.MustExec(fmt.Sprintf("INSERT INTO td VALUES (%d, %d, %s)", r.ID, r.G, centsSQL(cs.Cents[i])))
		byG[r.G] = append(byG[r.G], cs.Cents[i])
		all = append(all, cs.Cents[i])
	}
	qGroup := "SELECT g, SUM(d), MIN(d), MAX(d), COUNT(d), AVG(d) FROM td GROUP BY g"
	qSum := "SELECT g, SUM(d) FROM td GROUP BY g"
	qAll := "SELECT 0, SUM(d), MIN(d), MAX(d), COUNT(d), AVG(d) FROM td"
	cs.SQL = []string{qGroup, qSum, qSum, qAll, qGroup, "SELECT id, d FROM td ORDER BY id"}
	fail := func(id int, sig, what string) { c.PredFail(id, sig, what, cs) }
	checkAgg := func(q string, round int, xs []IV, row []interface{}, withModel bool) {
		o := []oval{obsDec(row[1]), obsDec(row[2]), obsDec(row[3]), obs(row[4])}
		var id int
		key := ""
		if len(xs) >= 2 {
			key = fmt.Sprintf("dec|%v", xs)
		}
		if withModel {
			term := fmt.Sprintf("CDec %s %s %s %s %s", coqIVs(xs), o[0].Coq(), o[1].Coq(), o[2].Coq(), lib.CoqZ(o[3].i))
			id = mkCase(c, term, cs, key)
		} else {
			id = mkCaseNM(c, cs, key)
		}
		c.Count("decimal_group")
		nn := 0
		for _, x := range xs {
			if !x.Null {
				nn++
			}
		}
		if nn >= 2 {
			c.Count("decimal_group_2plus_values")
		}
		c.PredChecked()
		for i, fn := range []string{"SUM", "MIN", "MAX", "COUNT"} {
			w := refAgg(fn, xs)
			if !w.matches(o[i]) {
				fail(id, fmt.Sprintf("decimal-%s/wrong-value/evaluation-%d", strings.ToLower(fn), round),
					fmt.Sprintf("%s (evaluation %d): %s over cents %v = %v cents, definition gives %v", q, round, fn, xs, o[i], w))
			}
		}
		// AVG = sum/count rounded at scale+4
		w := refAgg("AVG", xs)
		if w.null {
			if row[5] != nil {
				fail(id, "decimal-avg/wrong-value", fmt.Sprintf("%s: AVG over %v = %v, definition gives NULL", q, xs, row[5]))
			}
		} else {
			var txt string
			switch x := row[5].(type) {
			case *apd.Decimal:
				txt = x.Text('f')
			default:
				txt = fmt.Sprint(x)
			}
			got, ok := new(big.Rat).SetString(txt)
			want := big.NewRat(w.num, w.den*100)
			if !ok || new(big.Rat).Abs(new(big.Rat).Sub(got, want)).Cmp(big.NewRat(1, 1000000)) > 0 {
				fail(id, "decimal-avg/wrong-value", fmt.Sprintf("%s: AVG over cents %v = %s, definition gives %s", q, xs, txt, want.FloatString(8)))
			}
		}
	}
	round := 0
	for qi, q := range []string{qGroup, qSum, qSum, qAll, qGroup} {
		round++
		res := s.Query(q)
		if res.Err != nil {
			id := mkCaseNM(c, cs, "")
			c.PredChecked()
			fail(id, "decimal/error", fmt.Sprintf("%s: %v", q, res.Err))
			return
		}
		for _, row := range res.Rows {
			switch {
			case q == qSum:
				g, _ := row[0].(int64)
				w := refAgg("SUM", byG[g])
				id := mkCaseNM(c, cs, "")
				c.PredChecked()
				if o := obsDec(row[1]); !w.matches(o) {
					fail(id, fmt.Sprintf("decimal-sum/wrong-value/evaluation-%d", round), fmt.Sprintf("%s (evaluation %d): SUM over cents %v = %v, definition gives %v", q, round, byG[g], o, w))
				}
			case q == qAll:
				if len(all) > 0 || true {
					checkAgg(q, round, all, row, false)
				}
			default:
				g, _ := row[0].(int64)
				checkAgg(q, round, byG[g], row, qi == 0)
			}
		}
	}
	// the stored values must be what was inserted
	res := s.Query("SELECT id, d FROM td ORDER BY id")
	id := mkCaseNM(c, cs, "")
	c.PredChecked()
	want := map[int64]IV{}
	for i, r := range cs.Rows {
		want[r.ID] = cs.Cents[i]
	}
	if res.Err != nil || len(res.Rows) != len(cs.Rows) {
		fail(id, "decimal/table-changed", fmt.Sprintf("SELECT id, d FROM td after the aggregates: %v, %d rows for %d inserted", res.Err, len(res.Rows), len(cs.Rows)))
		return
	}
	for _, row := range res.Rows {
		w := want[row[0].(int64)]
		o := obsDec(row[1])
		if !wIV(w).matches(o) {
			fail(id, "decimal/table-changed-by-aggregate", fmt.Sprintf("after %v the stored d of id=%v is %v cents, inserted %v", cs.SQL[:5], row[0], o, wIV(w)))
			break
		}
	}
}

// ---------- GROUP_CONCAT ----------

type SV struct {
	Null bool   `json:"null,omitempty"`
	S    string `json:"s,omitempty"`
}

func coqBytesOpt(v SV) string {
	if v.Null {
		return "None"
	}
	return "(Some " + lib.CoqStr(v.S) + ")"
}

func runGroupConcat(c *lib.Ctx, cs caseT) {
	e := eng.New("db")
	s := e.Session()
	s.MustExec("CREATE TABLE tg (id BIGINT PRIMARY KEY, g BIGINT, s VARCHAR(40))")
	for i, r := range cs.Rows {
		v := "NULL"
		if !cs.Strs[i].Null {
			v = "'" + cs.Strs[i].S + "'"
		}
		s.MustExec(fmt.Sprintf("INSERT INTO tg VALUES (%d, %d, %s)", r.ID, r.G, v))
	}
	arg := "s"
	if cs.GCD {
		arg = "DISTINCT s"
	}
	switch cs.GCO {
	case "asc":
		arg += " ORDER BY id"
	case "desc":
		arg += " ORDER BY id DESC"
	}
	sep := ","
	if cs.GCS != nil {
		sep = *cs.GCS
		arg += " SEPARATOR '" + sep + "'"
	}
	q := "SELECT g, GROUP_CONCAT(" + arg + ") FROM tg GROUP BY g"
	cs.SQL = []string{q}
	res := s.Query(q)
	if res.Err != nil {
		id := mkCaseNM(c, cs, "")
		c.PredChecked()
		c.PredFail(id, "group-concat/error", fmt.Sprintf("%s: %v", q, res.Err), cs)
		return
	}
	type rec struct {
		id int64
		v  SV
	}
	byG := map[int64][]rec{}
	for i, r := range cs.Rows {
		byG[r.G] = append(byG[r.G], rec{r.ID, cs.Strs[i]})
	}
	for _, row := range res.Rows {
		g, _ := row[0].(int64)
		rs := byG[g]
		// arrival order without ORDER BY: the table scan of a keyed table is in primary-key order
		sort.SliceStable(rs, func(i, j int) bool { return rs[i].id < rs[j].id })
		var obsS *string
		switch x := row[1].(type) {
		case string:
			obsS = &x
		case []byte:
			t := string(x)
			obsS = &t
		}
		var items []string
		for _, r := range rs {
			items = append(items, fmt.Sprintf("(%s, %s)", lib.CoqZ(r.id), coqBytesOpt(r.v)))
		}
		order := "None"
		switch cs.GCO {
		case "asc":
			order = "(Some false)"
		case "desc":
			order = "(Some true)"
		}
		ob := "None"
		if obsS != nil {
			ob = "(Some " + lib.CoqStr(*obsS) + ")"
		}
		term := fmt.Sprintf("CGC %s %s %s %s %s", lib.CoqBool(cs.GCD), order, lib.CoqStr(sep), lib.CoqList(items), ob)
		key := ""
		if len(rs) >= 2 {
			key = fmt.Sprintf("gc|%s|%v", arg, rs)
		}
		id := mkCase(c, term, cs, key)
		c.Count("group_concat")
		c.PredChecked()
		// the definition: NULLs skipped, empty strings kept, DISTINCT, ORDER BY id, separator, 1024 bytes
		ord := append([]rec(nil), rs...)
		if cs.GCO == "desc" {
			sort.SliceStable(ord, func(i, j int) bool { return ord[i].id > ord[j].id })
		}
		var vals []string
		hasEmpty := false
		seenV := map[string]bool{}
		// DISTINCT removes duplicates before ordering; with ORDER BY id the survivor of equal strings is irrelevant to the text
		// except for its position: MySQL orders the distinct values by the key of the row kept; keep the first in arrival order
		keep := map[int64]bool{}
		for _, r := range rs {
			if r.v.Null {
				continue
			}
			if cs.GCD {
				if seenV[r.v.S] {
					continue
				}
				seenV[r.v.S] = true
			}
			keep[r.id] = true
		}
		for _, r := range ord {
			if keep[r.id] {
				vals = append(vals, r.v.S)
				if r.v.S == "" {
					hasEmpty = true
				}
			}
		}
		var want *string
		if len(vals) > 0 {
			w := strings.Join(vals, sep)
			if len(w) > 1024 {
				w = w[:1024]
			}
			want = &w
		}
		same := (want == nil) == (obsS == nil) && (want == nil || *want == *obsS)
		if !same {
			sig := "group-concat/wrong-value"
			if hasEmpty {
				sig = "group-concat/empty-string-skipped"
			}
			show := func(p *string) string {
				if p == nil {
					return "NULL"
				}
				return fmt.Sprintf("%q", *p)
			}
			c.PredFail(id, sig, fmt.Sprintf("%s: group g=%d rows %v returned %s, definition gives %s", q, g, rs, show(obsS), show(want)), cs)
		}
	}
}

// ---------- RANGE frames over an integer order key: implementation-side reference only ----------

func runRange(c *lib.Ctx, cs caseT) {
	s := setup(cs.Rows)
	frameSQL := fmt.Sprintf("RANGE BETWEEN %s AND %s", cs.SB.SQL(), cs.EB.SQL())
	dir := ""
	if cs.RDesc {
		dir = " DESC"
	}
	w := "OVER (PARTITION BY g ORDER BY k" + dir + " " + frameSQL + ")"
	fns := []string{"SUM", "COUNT", "COUNT*", "MAX", "AVG"}
	q := fmt.Sprintf("SELECT id, SUM(x) %s, COUNT(x) %s, COUNT(*) %s, MAX(x) %s, AVG(x) %s FROM t", w, w, w, w, w)
	cs.SQL = []string{q}
	res := s.Query(q)
	if res.Err != nil && res.Panic == "" {
		c.Count("range_query_rejected:" + eng.ErrKind(res.Err))
		return
	}
	shape := "range-" + cs.SB.Kind + "-" + cs.EB.Kind
	if res.Panic != "" {
		id := mkCaseNM(c, cs, q)
		c.PredChecked()
		c.PredFail(id, "range/panic/"+shape, fmt.Sprintf("%s panicked: %s", q, res.Panic), cs)
		return
	}
	byID := map[int64]Rec{}
	for _, r := range cs.Rows {
		byID[r.ID] = r
	}
	// window order: g, k in the requested direction, id
	buf := append([]Rec(nil), cs.Rows...)
	sort.SliceStable(buf, func(i, j int) bool {
		a, b := buf[i], buf[j]
		if a.G != b.G {
			return a.G < b.G
		}
		if a.K.V != b.K.V {
			if cs.RDesc {
				return a.K.V > b.K.V
			}
			return a.K.V < b.K.V
		}
		return a.ID < b.ID
	})
	pos := map[int64]int{}
	xs := make([]IV, len(buf))
	for i, r := range buf {
		pos[r.ID] = i
		xs[i] = r.X
	}
	// the frame of row r by the definition: rows of the partition whose key lies in [key+lo, key+hi] in sort direction
	sgn := int64(1)
	if cs.RDesc {
		sgn = -1
	}
	frameOf := func(r Rec) []IV {
		var fr []IV
		for _, o := range cs.Rows {
			if o.G != r.G {
				continue
			}
			dv := (o.K.V - r.K.V) * sgn // distance in sort direction
			okLo := cs.SB.Kind == "UP" || dv >= cs.SB.off()
			okHi := cs.EB.Kind == "UF" || dv <= cs.EB.off()
			if okLo && okHi {
				fr = append(fr, o.X)
			}
		}
		return fr
	}
	coqFn := map[string]string{"SUM": "FSum", "COUNT": "FCount", "COUNT*": "FCountStar", "MAX": "FMax", "AVG": "FAvg"}
	okRows := len(res.Rows) == len(cs.Rows)
	observed := make([][]oval, len(fns))
	for fi := range fns {
		observed[fi] = make([]oval, len(buf))
	}
	if okRows {
		for _, row := range res.Rows {
			idv, ok := row[0].(int64)
			p, known := pos[idv]
			if !ok || !known {
				okRows = false
				break
			}
			for fi := range fns {
				observed[fi][p] = obs(row[1+fi])
			}
		}
	}
	for fi, fn := range fns {
		if !okRows {
			id := mkCaseNM(c, cs, "")
			c.PredChecked()
			c.PredFail(id, "win/row-identity", fmt.Sprintf("%s returned %d rows for %d, or a row with a foreign id", q, len(res.Rows), len(cs.Rows)), cs)
			break
		}
		for ps := 0; ps < len(buf); {
			pe := ps
			for pe < len(buf) && buf[pe].G == buf[ps].G {
				pe++
			}
			var pkeys []string
			for _, r := range buf[ps:pe] {
				pkeys = append(pkeys, lib.CoqZ(r.K.V))
			}
			term := fmt.Sprintf("CRange %s %s %s %d %d %s %s %s", coqFn[fn], coqIVs(xs), lib.CoqList(pkeys), ps, pe, cs.SB.Coq(), cs.EB.Coq(), coqOvals(observed[fi][ps:pe]))
			key := ""
			if pe-ps >= 2 {
				key = fmt.Sprintf("%s|%s|%v|%d", fn, frameSQL, buf, ps)
			}
			id := mkCase(c, term, cs, key)
			c.Count("range_" + fn)
			c.Count("frame_" + shape)
			c.PredChecked()
			for i := ps; i < pe; i++ {
				r := buf[i]
				fr := frameOf(r)
				wv := refAgg(fn, fr)
				o := observed[fi][i]
				if wv.matches(o) {
					continue
				}
				sig := "range-" + strings.ToLower(fn) + "/wrong-value/" + shape
				allNull := len(fr) > 0
				for _, x := range fr {
					if !x.Null {
						allNull = false
					}
				}
				switch {
				case cs.RDesc:
					// window_framer.go never looks at the sort direction: bounds are computed as for ASC
					sig = "range-frame/desc-order-key-treated-as-ascending"
				case fn == "SUM" && allNull && o.kind == "int" && o.i == 0:
					sig = "win-sum/all-null-frame-gives-0"
				case fn == "AVG" && wv.null && o.kind == "nan":
					sig = "win-avg/no-value-gives-nan"
				}
				c.PredFail(id, sig, fmt.Sprintf("%s(x) OVER (PARTITION BY g ORDER BY k%s %s): row id=%d (g=%d, k=%d) got %v, definition gives %v over frame %v; partition rows %v",
					fn, dir, frameSQL, r.ID, r.G, r.K.V, o, wv, fr, buf[ps:pe]), cs)
				break
			}
			ps = pe
		}
	}
}

// special corpus cases outside the modelled fragment: predicate only
func runSpecial(c *lib.Ctx) {
	e := eng.New("db")
	s := e.Session()
	s.MustExec("CREATE TABLE u (id BIGINT PRIMARY KEY, x BIGINT, s1 VARCHAR(20), s2 VARCHAR(20), c VARCHAR(20) COLLATE utf8mb4_0900_ai_ci)",
		"INSERT INTO u VALUES (1,9007199254740992,'a,','b','a'),(2,1,'a',',b','A'),(3,NULL,'x','y','b')")
	type sp struct {
		sig, q, wantS string
		check         func(v interface{}) bool
	}
	for _, t := range []sp{
		{"sum/beyond-2^53-float64-accumulator", "SELECT SUM(x) FROM u", "9007199254740993", func(v interface{}) bool {
			f, ok := v.(float64)
			return ok && f == 9007199254740993 && false // float64 cannot hold the value: any float result is off by one
		}},
		{"sum/beyond-2^53-float64-accumulator", "SELECT SUM(x) FROM (SELECT 9007199254740992 AS x UNION ALL SELECT 1 UNION ALL SELECT 1) q", "9007199254740994 (representable in float64)", func(v interface{}) bool {
			f, ok := v.(float64)
			return ok && f == 9007199254740994
		}},
		{"win-sum/beyond-2^53-prefix-difference", "SELECT SUM(x) OVER (ORDER BY id ROWS BETWEEN CURRENT ROW AND CURRENT ROW) FROM u WHERE id = 2 OR id = 1 ORDER BY id DESC LIMIT 1", "1", func(v interface{}) bool {
			f, ok := v.(float64)
			return ok && f == 1
		}},
		{"count-distinct/separator-collision", "SELECT COUNT(DISTINCT s1, s2) FROM u", "3", func(v interface{}) bool { return fmt.Sprint(v) == "3" }},
		{"count-distinct/ci-collation-ignored", "SELECT COUNT(DISTINCT c) FROM u", "2", func(v interface{}) bool { return fmt.Sprint(v) == "2" }},
	} {
		res := s.Query(t.q)
		cs := caseT{Kind: "special", SQL: []string{t.q}}
		id := mkCaseNM(c, cs, t.q)
		c.PredChecked()
		c.Count("special")
		if res.Err != nil || len(res.Rows) != 1 {
			c.PredFail(id, "special/error", fmt.Sprintf("%s: %v", t.q, res.Err), cs)
			continue
		}
		if !t.check(res.Rows[0][0]) {
			c.PredFail(id, t.sig, fmt.Sprintf("%s over u = [(1,2^53,'a,','b','a'),(2,1,'a',',b','A'),(3,NULL,'x','y','b')] returned %v, definition gives %s", t.q, res.Rows[0][0], t.wantS), cs)
		}
	}
}

func run(c *lib.Ctx, cs caseT) {
	switch cs.Kind {
	case "group":
		runGroup(c, cs)
	case "special":
		runSpecial(c)
	case "decimal":
		runDecimal(c, cs)
	case "range":
		runRange(c, cs)
	case "gconcat":
		runGroupConcat(c, cs)
	default:
		runWindow(c, cs)
	}
}

func main() {
	lib.Main("C08", func(c *lib.Ctx) {
		c.Header = "From Coq Require Import List NArith ZArith.\nImport ListNotations.\nFrom GMS Require Import Expr.C08Agg Corr.C08.\nOpen Scope N_scope."
		c.CaseType = "C08.case"
		c.MismatchFn = "C08.mismatches"
		c.SetRule("tables of 0-22 rows (id, g in 1..3, k in {NULL,0..3}, x NULL or integer, NULL rate 1/6..5/6); group datasets: " +
			"SUM/AVG/COUNT/COUNT(*)/MIN/MAX/BIT_AND/BIT_OR/BIT_XOR per GROUP BY g group or over an empty input (one case per group); window " +
			"datasets: SUM/AVG/COUNT/COUNT(*)/MIN/MAX/FIRST_VALUE/LAST_VALUE over a random ROWS frame (all bound kinds, offsets 0..4, " +
			"start after end included), ROW_NUMBER, NTILE(1..6), LAG/LEAD (offset 0..3, optional default), RANK/DENSE_RANK/PERCENT_RANK " +
			"with PARTITION BY g (one case per function and partition). Non-trivial = at least 2 rows in the group/partition.")
		if c.ReplayFile != "" {
			var cs caseT
			lib.LoadReplay(c.ReplayFile, &cs)
			run(c, cs)
			return
		}
		iv := func(x int64) IV { return IV{V: x} }
		null := IV{Null: true}
		corpus := []Rec{{1, 1, iv(0), null}, {2, 1, iv(0), null}, {3, 1, iv(1), iv(5)}, {4, 2, iv(2), iv(7)}, {5, 2, iv(2), iv(1)}, {6, 2, null, null}}
		runSpecial(c)
		run(c, caseT{Kind: "window", Rows: corpus, SB: Bound{Kind: "C"}, EB: Bound{Kind: "C"}, NT: 2, LagO: 1, LagD: null, LeadO: 2, LeadD: iv(-1)})
		run(c, caseT{Kind: "window", Rows: corpus, SB: Bound{Kind: "P", N: 3}, EB: Bound{Kind: "P", N: 2}, NT: 4, LagO: 0, LagD: null, LeadO: 1, LeadD: null})
		run(c, caseT{Kind: "window", Rows: corpus, SB: Bound{Kind: "F", N: 1}, EB: Bound{Kind: "UF"}, NT: 7, LagO: 2, LagD: iv(-3), LeadO: 0, LeadD: null})
		run(c, caseT{Kind: "group", Rows: corpus})
		run(c, caseT{Kind: "group", Rows: corpus, Where: "id > 1000"})
		run(c, caseT{Kind: "group", Rows: []Rec{}})
		run(c, caseT{Kind: "decimal", Rows: corpus, Cents: []IV{iv(10), iv(20), iv(135), null, iv(-250), iv(99999)}})
		gcRows := []Rec{{ID: 1, G: 1}, {ID: 2, G: 1}, {ID: 3, G: 1}, {ID: 4, G: 2}, {ID: 5, G: 2}, {ID: 6, G: 3}}
		gcStrs := []SV{{S: "a"}, {S: ""}, {S: "b"}, {Null: true}, {S: "a"}, {Null: true}}
		bar := "|"
		run(c, caseT{Kind: "gconcat", Rows: gcRows, Strs: gcStrs})
		run(c, caseT{Kind: "gconcat", Rows: gcRows, Strs: gcStrs, GCD: true, GCO: "desc", GCS: &bar})
		var longRows []Rec
		var longStrs []SV
		for i := 1; i <= 90; i++ {
			longRows = append(longRows, Rec{ID: int64(i), G: 1})
			longStrs = append(longStrs, SV{S: fmt.Sprintf("value-%04d-abcdefgh", i%37)})
		}
		run(c, caseT{Kind: "gconcat", Rows: longRows, Strs: longStrs, GCO: "desc"})
		run(c, caseT{Kind: "gconcat", Rows: longRows, Strs: longStrs, GCD: true, GCO: "asc", GCS: &bar})
		rk := []Rec{{1, 1, iv(0), iv(5)}, {2, 1, iv(1), iv(7)}, {3, 1, iv(1), null}, {4, 1, iv(2), iv(1)}, {5, 1, iv(5), iv(3)}, {6, 2, iv(4), null}, {7, 2, iv(4), iv(2)}}
		run(c, caseT{Kind: "range", Rows: rk, SB: Bound{Kind: "P", N: 2}, EB: Bound{Kind: "P", N: 1}})
		run(c, caseT{Kind: "range", Rows: rk, SB: Bound{Kind: "P", N: 3}, EB: Bound{Kind: "P", N: 2}})
		run(c, caseT{Kind: "range", Rows: rk, SB: Bound{Kind: "P", N: 1}, EB: Bound{Kind: "F", N: 1}})
		run(c, caseT{Kind: "range", Rows: rk, SB: Bound{Kind: "UP"}, EB: Bound{Kind: "C"}})
		run(c, caseT{Kind: "range", Rows: rk, SB: Bound{Kind: "C"}, EB: Bound{Kind: "UF"}, RDesc: true})
		for nCases < c.N {
			run(c, gen(c.R.Fork()))
		}
	})
}
