// Driver for C06 (equivalent SQL formulations return equal results): generates pairs / triples of spellings that SQL
// defines as equivalent, runs all of them on the real engine over generated data and requires equal results (as bags);
// the spellings inside the modelled expression fragment are also recorded for the Coq model.
package main

import (
	"encoding/json"
	"fmt"
	"math/big"
	"sort"
	"strings"

	"verifharness/lib"
	x "verifharness/lib/c05expr"
	"verifharness/lib/eng"
)

type caseT struct {
	Kind string    `json:"kind"` // in-or between on-where cte in-subquery literal-column
	T1   [][]x.Val `json:"t1"`   // columns a b d s c   (c: case-insensitive collation, engine-only)
	T2   [][]x.Val `json:"t2"`
	E    []*x.Ex   `json:"e"`              // kind-specific expressions
	Col  []string  `json:"col,omitempty"`  // in-subquery: column of t1, column of t2
	Wrap string    `json:"wrap,omitempty"` // between: operator applied on top of both spellings (not, isnull, isnotnull, istrue, isfalse)
	SQL  []string  `json:"sql,omitempty"`  // the spellings that were run
}

var names = []string{"a", "b", "d", "s"}
var ctypes = []string{"int", "int", "dec", "str"}

func cols(prefix string, off int) []*x.Ex {
	var out []*x.Ex
	for i, n := range names {
		out = append(out, x.Col(off+i, prefix+n, ctypes[i]))
	}
	return out
}

type env struct {
	e      *eng.E
	s      *eng.S
	tables map[string]string
	c      *lib.Ctx
	defs   map[string]string
}

// plain returns a copy of the table that certainly has no secondary index (filters are evaluated, not looked up)
func (v *env) plain(rows [][]x.Val) string {
	kb, _ := json.Marshal(rows)
	key := "plain|" + string(kb)
	if n, ok := v.tables[key]; ok {
		return n
	}
	name := fmt.Sprintf("p%d", len(v.tables))
	v.s.MustExec("CREATE TABLE " + name + " (id INT PRIMARY KEY, a INT, b INT, d DECIMAL(10,2), s VARCHAR(20), c VARCHAR(20) COLLATE utf8mb4_0900_ai_ci)")
	for i, r := range rows {
		vals := []string{fmt.Sprintf("%d", i)}
		for _, c := range r {
			vals = append(vals, c.SQL())
		}
		v.s.MustExec("INSERT INTO " + name + " VALUES (" + strings.Join(vals, ", ") + ")")
	}
	v.tables[key] = name
	return name
}

func (v *env) table(rows [][]x.Val) string {
	kb, _ := json.Marshal(rows)
	if n, ok := v.tables[string(kb)]; ok {
		return n
	}
	name := fmt.Sprintf("t%d", len(v.tables))
	v.s.MustExec("CREATE TABLE " + name + " (id INT PRIMARY KEY, a INT, b INT, d DECIMAL(10,2), s VARCHAR(20), c VARCHAR(20) COLLATE utf8mb4_0900_ai_ci)")
	if len(v.tables)%2 == 1 {
		v.s.MustExec("CREATE INDEX " + name + "_a ON " + name + " (a)")
	}
	for i, r := range rows {
		vals := []string{fmt.Sprintf("%d", i)}
		for _, c := range r {
			vals = append(vals, c.SQL())
		}
		v.s.MustExec("INSERT INTO " + name + " VALUES (" + strings.Join(vals, ", ") + ")")
	}
	v.tables[string(kb)] = name
	return name
}

// rowsCoq: name of a Coq definition (kept in the shard header) of the rows' modelled columns a b d s
func (v *env) rowsCoq(rows [][]x.Val) string {
	kb, _ := json.Marshal(rows)
	if n, ok := v.defs[string(kb)]; ok {
		return n
	}
	name := fmt.Sprintf("ds%d", len(v.defs))
	v.defs[string(kb)] = name
	v.c.Header += "\nDefinition " + name + " : list row := " +
		lib.CoqListOf(rows, func(r []x.Val) string { return lib.CoqListOf(r[:4], func(v x.Val) string { return v.Coq() }) }) + "."
	return name
}

func genRows(r *lib.RNG) [][]x.Val {
	n := r.Range(4, 7)
	rows := make([][]x.Val, n)
	for i := range rows {
		row := make([]x.Val, 5)
		for j := range row {
			if r.Chance(1, 6) {
				row[j] = x.Null()
				continue
			}
			switch j {
			case 0, 1:
				row[j] = x.Int(lib.Pick(r, []int64{-1, 0, 1, 2, 3, 5}))
			case 2:
				row[j] = x.Dec(lib.Pick(r, []int64{-150, 0, 50, 100, 150, 200, 225, 1000, 2000, 10, 10000}), 2)
			case 3:
				row[j] = x.Str(lib.Pick(r, []string{"", "a", "A", "ab", "b", "1"}))
			default:
				row[j] = x.Str(lib.Pick(r, []string{"a", "A", "b", "B", "ab"}))
			}
		}
		rows[i] = row
	}
	return rows
}

func and(a, b *x.Ex) *x.Ex { return x.Bin("and", "", a, b) }

func wrap(w string, e *x.Ex) *x.Ex {
	switch w {
	case "not":
		return x.Un("not", e)
	case "isnull":
		return x.Un("isnull", e)
	case "isnotnull":
		return x.Un("not", x.Un("isnull", e))
	case "istrue":
		r := x.Un("istrue", e)
		r.Op = "true"
		return r
	case "isfalse":
		r := x.Un("istrue", e)
		r.Op = "false"
		return r
	}
	return e
}

func orChain(a *x.Ex, l []*x.Ex) *x.Ex {
	if len(l) == 1 {
		return x.Bin("cmp", "=", a, l[0])
	}
	return x.Bin("or", "", x.Bin("cmp", "=", a, l[0]), orChain(a, l[1:]))
}

func genCase(r *lib.RNG, t1, t2 [][]x.Val) caseT {
	raw := r.Chance(1, 4)
	g := &x.Gen{R: r, Raw: raw, Cols: cols("", 0)}
	cs := caseT{T1: t1, T2: t2}
	switch r.Intn(6) {
	case 0:
		cs.Kind = "in-or"
		o := g.Operands(1, r.Range(2, 5))
		if raw && r.Chance(1, 3) {
			// case-insensitive column against case-variant literals (engine only)
			o = []*x.Ex{{K: "raw", T: "str", Raw: "c"}}
			for i := r.Range(1, 3); i > 0; i-- {
				o = append(o, x.Lit(x.Str(lib.Pick(r, []string{"a", "A", "B", "ab", "x"})), "str"))
			}
		}
		if r.Chance(1, 4) {
			// decimal comparison type with a static list holding 0 and multiples of ten
			o = []*x.Ex{x.Col(2, "d", "dec")}
			asInt := r.Bool()
			for i := r.Range(1, 3); i > 0; i-- {
				n := lib.Pick(r, []int64{0, 10, 20, 1, 2, 100})
				if asInt {
					o = append(o, x.Lit(x.Int(n), "int"))
				} else {
					o = append(o, x.Lit(x.Dec(n*100, 2), "dec"))
				}
			}
		}
		if r.Chance(1, 5) {
			o[r.Range(1, len(o)-1)] = x.Lit(x.Null(), "null")
		}
		cs.E = o
	case 1:
		cs.Kind = "between"
		cs.E = g.Operands(1, 3)
		if r.Chance(1, 3) {
			cs.E[r.Range(1, 2)] = x.Lit(x.Null(), "null")
		}
		cs.Wrap = lib.Pick(r, []string{"", "", "not", "isnull", "isnotnull", "istrue", "isfalse"})
	case 2:
		cs.Kind = "on-where"
		g2 := &x.Gen{R: r, Raw: false, Cols: append(cols("t1.", 0), cols("t2.", 4)...)}
		mk := func() *x.Ex {
			i := r.Intn(4)
			j := i
			if r.Chance(1, 3) && i < 2 {
				j = r.Intn(2)
			}
			l, rr := g2.Cols[i], g2.Cols[4+j]
			op := lib.Pick(r, []string{"=", "=", "=", "<", "<=", ">"})
			if r.Chance(1, 5) && i < 2 {
				ll := *l
				return x.Bin("cmp", op, x.Bin("arith", "+", &ll, x.Lit(x.Int(1), "int")), rr)
			}
			ll, r2 := *l, *rr
			return x.Bin("cmp", op, &ll, &r2)
		}
		p1 := mk()
		var p2 *x.Ex
		switch r.Intn(3) {
		case 0:
			p2 = mk()
		case 1:
			p2 = g2.Boolean(1)
		default:
			gl := &x.Gen{R: r, Cols: cols("t1.", 0)}
			p2 = gl.Boolean(1)
		}
		cs.E = []*x.Ex{p1, p2}
	case 3:
		cs.Kind = "cte"
		cs.E = []*x.Ex{g.Boolean(r.Range(1, 2)), g.Boolean(r.Range(1, 2))}
	case 4:
		cs.Kind = "in-subquery"
		i := r.Intn(5)
		all := []string{"a", "b", "d", "s", "c"}
		j := i
		if i < 2 && r.Bool() {
			j = r.Intn(2)
		}
		cs.Col = []string{all[i], all[j]}
		g2 := &x.Gen{R: r, Cols: cols("t2.", 0)}
		cs.E = []*x.Ex{g2.Boolean(1)}
		if r.Chance(1, 3) {
			cs.E = []*x.Ex{x.Lit(x.Int(1), "bool")}
		}
	default:
		cs.Kind = "literal-column"
		switch r.Intn(4) {
		case 0:
			cs.E = []*x.Ex{g.Num(2)}
		default:
			cs.E = []*x.Ex{g.Boolean(r.Range(1, 2))}
		}
	}
	return cs
}

// ---------- running ----------

func idBag(res eng.Result) ([]string, error) {
	if res.Err != nil {
		return nil, res.Err
	}
	return eng.Bag(res.Rows), nil
}

func ints(res eng.Result) []int {
	var out []int
	for _, r := range res.Rows {
		v, _ := x.ValFromGo(r[0])
		out = append(out, int(v.I))
	}
	sort.Ints(out)
	return out
}

func coqIDs(a []int) string { return lib.CoqListOf(a, func(i int) string { return fmt.Sprintf("%d", i) }) }

func eqStr(a, b []string) bool {
	if len(a) != len(b) {
		return false
	}
	for i := range a {
		if a[i] != b[i] {
			return false
		}
	}
	return true
}

// what in the expressions could explain a divergence that is already known
func intLike(t string) bool { return t == "int" || t == "bool" }

// inIntFirst: IN operands (left, e1, e2, ..) with an integer left operand, an integer first element and a later decimal
// element (HashInTuple then compares as BIGINT and rounds the decimal)
func inIntFirst(o []*x.Ex) bool {
	if len(o) > 2 && intLike(x.TyOf(o[0])) && intLike(x.TyOf(o[1])) {
		for _, e := range o[2:] {
			if x.TyOf(e) == "dec" {
				return true
			}
		}
	}
	return false
}

func feature(es []*x.Ex) string {
	scales := map[int]bool{}
	ciCol, hasDec, hasInt := false, false, false
	for _, e := range es {
		e.Walk(func(n *x.Ex) {
			if n.K == "lit" && n.V.K == "dec" {
				scales[n.V.S] = true
				hasDec = true
			}
			if n.K == "col" && n.T == "dec" {
				scales[2] = true
				hasDec = true
			}
			if (n.K == "col" || n.K == "lit") && n.T == "int" {
				hasInt = true
			}
			if n.K == "raw" && n.Raw == "c" {
				ciCol = true
			}
		})
	}
	switch {
	case ciCol:
		return "case-insensitive-column"
	case len(scales) > 1:
		return "decimal-scale-mix"
	}
	_, _ = hasDec, hasInt
	return "plain"
}

func modelled(es ...*x.Ex) bool {
	for _, e := range es {
		if e.HasRaw() || !x.Wt(e) {
			return false
		}
	}
	return true
}

func run(c *lib.Ctx, v *env, cs caseT) {
	t1, t2 := v.table(cs.T1), v.table(cs.T2)
	s := v.s
	c.Count("kind:" + cs.Kind)
	var sqls []string
	var results [][]string
	runAll := func(qs ...string) (ok bool) {
		sqls = qs
		results = nil
		nerr := 0
		for _, q := range qs {
			res := s.Query(q)
			if res.Panic != "" {
				cs.SQL = qs
				id := c.CaseNoModel(cs, "")
				c.PredFail(id, "engine-panic/"+cs.Kind, "engine panicked on "+q+": "+res.Panic, cs)
				return false
			}
			b, err := idBag(res)
			if err != nil {
				nerr++
				results = append(results, []string{"error:" + eng.ErrKind(err)})
			} else {
				results = append(results, b)
			}
		}
		if nerr == len(qs) {
			c.Count("all-spellings-error:" + cs.Kind)
			cs.SQL = qs
			c.CaseNoModel(cs, "")
			return false
		}
		return true
	}
	// compare every spelling with the first; id = case id
	compare := func(id int, es []*x.Ex) {
		c.PredChecked()
		for i := 1; i < len(results); i++ {
			if !eqStr(results[0], results[i]) {
				c.PredFail(id, cs.Kind+"/"+feature(es),
					fmt.Sprintf("spellings differ: [%s] => %v  but  [%s] => %v  (t1 rows %s)", sqls[0], results[0], sqls[i], results[i], rowsText(cs.T1)), cs)
				return
			}
		}
	}
	nontriv := func() string {
		if len(results) > 0 && len(results[0]) > 0 {
			return cs.Kind + "|" + sqls[0]
		}
		return ""
	}

	switch cs.Kind {
	case "in-or":
		in := &x.Ex{K: "in", A: cs.E}
		or := orChain(cs.E[0], cs.E[1:])
		if !runAll("SELECT id FROM "+t1+" WHERE "+in.SQL(), "SELECT id FROM "+t1+" WHERE "+or.SQL(),
			"SELECT id, "+in.SQL()+" FROM "+t1, "SELECT id, "+or.SQL()+" FROM "+t1) {
			return
		}
		cs.SQL = sqls
		var id int
		if modelled(in, or) && !hasErr(results) {
			w1, w2 := ints(s.Query(sqls[0])), ints(s.Query(sqls[1]))
			id = c.Case("(WherePair "+v.rowsCoq(cs.T1)+" "+in.Coq()+" "+or.Coq()+" "+coqIDs(w1)+" "+coqIDs(w2)+")", cs, nontriv())
		} else {
			id = c.CaseNoModel(cs, nontriv())
		}
		c.PredChecked()
		ft := feature(cs.E)
		if ft == "plain" && inIntFirst(cs.E) {
			ft = "integer-first-element-then-decimal"
		}
		hashInCase(c, v, cs)
		if !eqStr(results[0], results[1]) {
			c.PredFail(id, "in-or/where/"+ft, fmt.Sprintf("[%s] => %v but [%s] => %v (rows %s)", sqls[0], results[0], sqls[1], results[1], rowsText(cs.T1)), cs)
		}
		if !eqStr(results[2], results[3]) {
			c.PredFail(id, "in-or/select/"+feature(cs.E), fmt.Sprintf("[%s] => %v but [%s] => %v (rows %s)", sqls[2], results[2], sqls[3], results[3], rowsText(cs.T1)), cs)
		}
	case "between":
		bt := wrap(cs.Wrap, &x.Ex{K: "between", A: cs.E})
		if cs.Wrap == "not" {
			bt.Alt = true // NOT BETWEEN
		}
		pr := wrap(cs.Wrap, and(x.Bin("cmp", ">=", cs.E[0], cs.E[1]), x.Bin("cmp", "<=", cs.E[0], cs.E[2])))
		c.Count("between-wrap:" + cs.Wrap)
		if !runAll("SELECT id FROM "+t1+" WHERE "+bt.SQL(), "SELECT id FROM "+t1+" WHERE "+pr.SQL(),
			"SELECT id, "+bt.SQL()+" FROM "+t1, "SELECT id, "+pr.SQL()+" FROM "+t1) {
			return
		}
		cs.SQL = sqls
		var id int
		if modelled(bt, pr) && !hasErr(results) {
			w1, w2 := ints(s.Query(sqls[0])), ints(s.Query(sqls[1]))
			id = c.Case("(WherePair "+v.rowsCoq(cs.T1)+" "+bt.Coq()+" "+pr.Coq()+" "+coqIDs(w1)+" "+coqIDs(w2)+")", cs, nontriv())
		} else {
			id = c.CaseNoModel(cs, nontriv())
		}
		c.PredChecked()
		if !eqStr(results[0], results[1]) {
			c.PredFail(id, "between/where/"+feature(cs.E), fmt.Sprintf("[%s] => %v but [%s] => %v (rows %s)", sqls[0], results[0], sqls[1], results[1], rowsText(cs.T1)), cs)
		}
		if !eqStr(results[2], results[3]) {
			c.PredFail(id, "between/select/"+feature(cs.E), fmt.Sprintf("[%s] => %v but [%s] => %v (rows %s)", sqls[2], results[2], sqls[3], results[3], rowsText(cs.T1)), cs)
		}
	case "on-where":
		p1, p2 := cs.E[0], cs.E[1]
		p := and(p1, p2)
		sel := "SELECT t1.id, t2.id FROM " + t1 + " t1"
		qs := []string{sel + " JOIN " + t2 + " t2 ON " + p.SQL(), sel + ", " + t2 + " t2 WHERE " + p.SQL(),
			sel + " CROSS JOIN " + t2 + " t2 WHERE " + p.SQL(), sel + " JOIN " + t2 + " t2 ON " + p1.SQL() + " WHERE " + p2.SQL()}
		if p1.K == "cmp" && p1.Op == "=" {
			// the equality spelled as two inequalities (no hash / lookup join on it)
			two := and(x.Bin("cmp", "<=", p1.A[0], p1.A[1]), x.Bin("cmp", "<=", p1.A[1], p1.A[0]))
			qs = append(qs, sel+" JOIN "+t2+" t2 ON "+and(two, p2).SQL())
			c.Count("on-where:equality-as-two-inequalities")
		}
		if !runAll(qs...) {
			return
		}
		cs.SQL = sqls
		var id int
		if modelled(p) && !hasErr(results) {
			res := s.Query(sqls[0] + " ORDER BY t1.id, t2.id")
			var obs []string
			for _, r := range res.Rows {
				a, _ := x.ValFromGo(r[0])
				b, _ := x.ValFromGo(r[1])
				obs = append(obs, fmt.Sprintf("(%d, %d)", a.I, b.I))
			}
			id = c.Case("(JoinCase "+v.rowsCoq(cs.T1)+" "+v.rowsCoq(cs.T2)+" "+p.Coq()+" "+lib.CoqList(obs)+")", cs, nontriv())
		} else {
			id = c.CaseNoModel(cs, nontriv())
		}
		// the two-inequality spelling alone deviating, with the indexed column a in the join condition: RangeHeapJoin built
		// over an index scan of that column loses the filters pushed to that side
		onA := false
		p1.Walk(func(n *x.Ex) {
			if n.K == "col" && (n.N == "t1.a" || n.N == "t2.a") {
				onA = true
			}
		})
		if len(results) == 5 && onA && eqStr(results[0], results[1]) && eqStr(results[0], results[2]) && eqStr(results[0], results[3]) && !eqStr(results[0], results[4]) {
			c.PredChecked()
			c.PredFail(id, "on-where/equality-as-two-inequalities-on-indexed-column",
				fmt.Sprintf("spellings differ: [%s] => %v  but  [%s] => %v  (t1 %s rows %s; t2 %s rows %s)", sqls[0], results[0], sqls[4], results[4], t1, rowsText(cs.T1), t2, rowsText(cs.T2)), cs)
		} else {
			compare(id, cs.E)
		}
	case "cte":
		q, p := cs.E[0], cs.E[1]
		body := "SELECT id, a, b, d, s, c FROM " + t1 + " WHERE " + q.SQL()
		if !runAll("WITH cte AS ("+body+") SELECT id FROM cte WHERE "+p.SQL(),
			"SELECT id FROM ("+body+") dt WHERE "+p.SQL(),
			"SELECT id FROM "+t1+" WHERE "+and(q, p).SQL()) {
			return
		}
		cs.SQL = sqls
		var id int
		if modelled(q, p) && !hasErr(results) {
			w1, w2 := ints(s.Query(sqls[0])), ints(s.Query(sqls[2]))
			id = c.Case("(WherePair "+v.rowsCoq(cs.T1)+" "+and(q, p).Coq()+" "+and(q, p).Coq()+" "+coqIDs(w1)+" "+coqIDs(w2)+")", cs, nontriv())
		} else {
			id = c.CaseNoModel(cs, nontriv())
		}
		compare(id, cs.E)
	case "in-subquery":
		xc, yc, q := cs.Col[0], cs.Col[1], cs.E[0]
		if !runAll("SELECT id FROM "+t1+" t1 WHERE t1."+xc+" IN (SELECT t2."+yc+" FROM "+t2+" t2 WHERE "+q.SQL()+")",
			"SELECT id FROM "+t1+" t1 WHERE EXISTS (SELECT 1 FROM "+t2+" t2 WHERE "+q.SQL()+" AND t2."+yc+" = t1."+xc+")",
			"SELECT DISTINCT t1.id FROM "+t1+" t1 JOIN "+t2+" t2 ON t1."+xc+" = t2."+yc+" WHERE "+q.SQL()) {
			return
		}
		cs.SQL = sqls
		id := c.CaseNoModel(cs, nontriv())
		f := "plain"
		if xc == "c" {
			f = "case-insensitive-column"
		}
		c.PredChecked()
		for i := 1; i < len(results); i++ {
			if !eqStr(results[0], results[i]) {
				c.PredFail(id, "in-subquery/"+f, fmt.Sprintf("spellings differ: [%s] => %v but [%s] => %v", sqls[0], results[0], sqls[i], results[i]), cs)
				break
			}
		}
	case "literal-column":
		e := cs.E[0]
		for i, row := range cs.T1 {
			if i >= 3 {
				break
			}
			inl := inline(e, row)
			if !runAll(fmt.Sprintf("SELECT %s FROM %s WHERE id = %d", e.SQL(), t1, i), "SELECT "+inl.SQL()) {
				continue
			}
			cs.SQL = sqls
			if !hasErr(results) {
				results[0], results[1] = numCanon(s.Query(sqls[0])), numCanon(s.Query(sqls[1]))
			}
			var id int
			if modelled(e, inl) && !hasErr(results) {
				v1, e1 := x.ValFromGo(s.Query(sqls[0]).Rows[0][0])
				v2, e2 := x.ValFromGo(s.Query(sqls[1]).Rows[0][0])
				if e1 == nil && e2 == nil {
					row4 := lib.CoqListOf(row[:4], func(v x.Val) string { return v.Coq() })
					id = c.Case("(SelPair ["+row4+"] "+e.Coq()+" "+inl.Coq()+" ["+v1.Coq()+"] ["+v2.Coq()+"])", cs, nontriv())
				} else {
					id = c.CaseNoModel(cs, nontriv())
				}
			} else {
				id = c.CaseNoModel(cs, nontriv())
			}
			c.PredChecked()
			if !eqStr(results[0], results[1]) {
				c.PredFail(id, "literal-column/"+feature(cs.E), fmt.Sprintf("[%s] => %v but [%s] => %v (row %s)", sqls[0], results[0], sqls[1], results[1], rowsText([][]x.Val{row})), cs)
				break
			}
		}
	}
}

// numCanon prints a one-column, one-row result with numbers canonicalised by value (10, 10.00 and float 10 agree):
// the literal spelling may legitimately get another numeric type than the column spelling.
func numCanon(res eng.Result) []string {
	if res.Err != nil {
		return []string{"error:" + eng.ErrKind(res.Err)}
	}
	var out []string
	for _, r := range res.Rows {
		switch t := r[0].(type) {
		case float64:
			out = append(out, "n:"+new(big.Rat).SetFloat64(t).RatString())
		case float32:
			out = append(out, "n:"+new(big.Rat).SetFloat64(float64(t)).RatString())
		default:
			v, err := x.ValFromGo(r[0])
			switch {
			case err != nil:
				out = append(out, eng.Val(r[0]))
			case v.K == "int":
				out = append(out, "n:"+new(big.Rat).SetInt64(v.I).RatString())
			case v.K == "dec":
				d := new(big.Int).Exp(big.NewInt(10), big.NewInt(int64(v.S)), nil)
				out = append(out, "n:"+new(big.Rat).SetFrac(big.NewInt(v.I), d).RatString())
			default:
				out = append(out, v.Canon())
			}
		}
	}
	return out
}

// hashInCase: WHERE x IN (literals) / WHERE NOT x IN (literals) on an index-free copy, for the HashInTuple model
func hashInCase(c *lib.Ctx, v *env, cs caseT) {
	left := cs.E[0]
	if left.HasRaw() || !x.Wt(left) {
		return
	}
	for _, e := range cs.E[1:] {
		if e.K != "lit" || !x.Wt(e) {
			return
		}
	}
	lt, ft := x.TyOf(left), x.TyOf(cs.E[1])
	ok := false
	switch {
	case lt == "str":
		ok = ft == "str"
	case lt == "dec":
		ok = ft != "str"
	case intLike(lt):
		ok = ft == "dec" || intLike(ft)
	}
	for _, e := range cs.E[1:] {
		// string elements only with a string left operand and vice versa (isConsistentType / fragment of the model)
		if (x.TyOf(e) == "str") != (lt == "str") && x.TyOf(e) != "null" {
			ok = false
		}
	}
	if !ok {
		return
	}
	t := v.plain(cs.T1)
	in := &x.Ex{K: "in", A: cs.E}
	r1 := v.s.Query("SELECT id FROM " + t + " WHERE " + in.SQL())
	r2 := v.s.Query("SELECT id FROM " + t + " WHERE NOT " + in.SQL())
	if r1.Err != nil || r2.Err != nil {
		c.Count("hash-in:error")
		return
	}
	els := make([]string, len(cs.E)-1)
	for i, e := range cs.E[1:] {
		els[i] = "(" + e.V.Coq() + ", " + coqTy(x.TyOf(e)) + ")"
	}
	c.Count("hash-in:modelled")
	c.Case("(HashInCase "+v.rowsCoq(cs.T1)+" "+coqTy(lt)+" "+left.Coq()+" "+lib.CoqList(els)+" "+coqIDs(ints(r1))+" "+coqIDs(ints(r2))+")", cs, "")
}

func coqTy(t string) string {
	switch t {
	case "null":
		return "TyNull"
	case "bool":
		return "TyBool"
	case "int":
		return "TyInt"
	case "dec":
		return "TyDec"
	}
	return "TyStr"
}

func hasErr(rs [][]string) bool {
	for _, r := range rs {
		if len(r) == 1 && strings.HasPrefix(r[0], "error:") {
			return true
		}
	}
	return false
}

func inline(e *x.Ex, row []x.Val) *x.Ex {
	if e.K == "col" {
		return x.Lit(row[e.I], e.T)
	}
	if e.K == "raw" && e.Raw == "c" {
		return x.Lit(row[4], "str")
	}
	cp := *e
	cp.A = make([]*x.Ex, len(e.A))
	for i, a := range e.A {
		cp.A[i] = inline(a, row)
	}
	return &cp
}

func rowsText(rows [][]x.Val) string {
	var sb strings.Builder
	for i, r := range rows {
		if i > 0 {
			sb.WriteString(" ")
		}
		sb.WriteString("(")
		for j, v := range r {
			if j > 0 {
				sb.WriteString(",")
			}
			sb.WriteString(v.SQL())
		}
		sb.WriteString(")")
	}
	return sb.String()
}

func corpus() []caseT {
	i := func(n int64) x.Val { return x.Int(n) }
	d := func(m int64) x.Val { return x.Dec(m, 2) }
	st := x.Str
	nl := x.Null()
	t1 := [][]x.Val{{i(5), i(5), d(1000), st("b"), st("b")}, {i(5), i(0), d(100), st("b"), st("b")}, {i(1), i(2), d(150), st("a"), st("a")}, {nl, i(3), nl, nl, st("A")}, {i(2), i(0), d(0), st(""), st("b")}, {i(3), i(3), d(225), st("ab"), nl}}
	t2 := [][]x.Val{{i(7), i(7), d(1000), st("q"), st("q")}, {i(8), i(8), d(10), st("q"), st("q")}, {i(1), i(1), d(150), st("a"), st("A")}, {i(2), nl, d(100), st("b"), st("B")}, {nl, i(3), nl, nl, nl}}
	a, dd := x.Col(0, "a", "int"), x.Col(2, "d", "dec")
	li := func(n int64) *x.Ex { return x.Lit(x.Int(n), "int") }
	return []caseT{
		{Kind: "in-or", T1: t1, T2: t2, E: []*x.Ex{a, li(1), li(2), x.Lit(x.Null(), "null")}},
		// known: hashed IN vs '=' on decimals of another scale
		{Kind: "in-or", T1: t1, T2: t2, E: []*x.Ex{dd, x.Lit(x.Dec(1495, 3), "dec")}},
		// known: hashed IN ignores the column's case-insensitive collation
		{Kind: "in-or", T1: t1, T2: t2, E: []*x.Ex{{K: "raw", T: "str", Raw: "c"}, x.Lit(x.Str("A"), "str"), x.Lit(x.Str("x"), "str")}},
		{Kind: "between", T1: t1, T2: t2, E: []*x.Ex{a, li(1), li(2)}},
		// known: BETWEEN in the select list vs the pair of comparisons on decimals of another scale
		{Kind: "between", T1: t1, T2: t2, E: []*x.Ex{dd, x.Lit(x.Dec(1495, 3), "dec"), x.Lit(x.Dec(1499, 3), "dec")}},
		// known: hashed IN takes its comparison type from the first element (1.50 rounded to 2 matches a = 2)
		{Kind: "in-or", T1: t1, T2: t2, E: []*x.Ex{a, li(0), x.Lit(x.Dec(150, 2), "dec")}},
		// known: the planbuilder rounds a literal compared with a column to the column's scale; literal against literal is exact
		{Kind: "literal-column", T1: t1, T2: t2, E: []*x.Ex{x.Bin("cmp", "=", dd, x.Lit(x.Dec(1495, 3), "dec"))}},
		{Kind: "between", T1: t1, T2: t2, E: []*x.Ex{x.Lit(x.Dec(2254, 3), "dec"), x.Lit(x.Dec(200, 2), "dec"), dd}},
		{Kind: "between", T1: t1, T2: t2, Wrap: "not", E: []*x.Ex{a, x.Lit(x.Null(), "null"), li(3)}},
		{Kind: "between", T1: t1, T2: t2, Wrap: "isnotnull", E: []*x.Ex{a, x.Lit(x.Null(), "null"), li(2)}},
		{Kind: "in-or", T1: t1, T2: t2, E: []*x.Ex{dd, li(10), li(20), li(0)}},
		{Kind: "in-or", T1: t1, T2: t2, E: []*x.Ex{dd, x.Lit(x.Dec(1000, 2), "dec"), x.Lit(x.Dec(0, 2), "dec")}},
		{Kind: "on-where", T1: t1, T2: t2, E: []*x.Ex{x.Bin("cmp", "=", x.Col(2, "t1.d", "dec"), x.Col(6, "t2.d", "dec")), x.Lit(x.Int(1), "bool")}},
		{Kind: "on-where", T1: t1, T2: t2, E: []*x.Ex{x.Bin("cmp", "=", x.Col(0, "t1.a", "int"), x.Col(4, "t2.a", "int")), x.Bin("cmp", "<=", x.Col(1, "t1.b", "int"), x.Col(5, "t2.b", "int"))}},
		{Kind: "cte", T1: t1, T2: t2, E: []*x.Ex{x.Bin("cmp", ">", a, li(0)), x.Un("isnull", dd)}},
		{Kind: "in-subquery", T1: t1, T2: t2, Col: []string{"a", "a"}, E: []*x.Ex{x.Lit(x.Int(1), "bool")}},
		{Kind: "in-subquery", T1: t1, T2: t2, Col: []string{"c", "c"}, E: []*x.Ex{x.Lit(x.Int(1), "bool")}},
		{Kind: "literal-column", T1: t1, T2: t2, E: []*x.Ex{x.Bin("cmp", "<", x.Bin("arith", "+", a, li(1)), x.Col(1, "b", "int"))}},
	}
}

func main() {
	lib.Main("C06", func(c *lib.Ctx) {
		c.Header = "From Coq Require Import List NArith ZArith.\nImport ListNotations.\nFrom GMS Require Import Expr.C05Expr Corr.C06.\nOpen Scope N_scope."
		c.CaseType = "C06.case"
		c.MismatchFn = "C06.mismatches"
		c.SetRule("six kinds of equivalent spellings over two generated tables (a INT, b INT, d DECIMAL(10,2), s VARCHAR, c VARCHAR ai_ci; 4-7 rows, NULLs; " +
			"every second table has an index on a): x IN (list) vs OR of equalities (WHERE and select list); BETWEEN vs >= AND <= (WHERE and select list); " +
			"inner join ON p vs comma/CROSS JOIN WHERE p vs ON p1 WHERE p2; CTE vs derived table vs flattened WHERE; IN (subquery) vs EXISTS vs DISTINCT join; " +
			"expression over columns vs the same expression over literals of the row's values. One quarter of the cases use engine-only constructs " +
			"(functions, other decimal scales, the case-insensitive column). Non-trivial = the first spelling returns at least one row.")
		v := &env{tables: map[string]string{}, defs: map[string]string{}, c: c}
		v.e = eng.New("db")
		v.s = v.e.Session()
		if c.ReplayFile != "" {
			var cs caseT
			lib.LoadReplay(c.ReplayFile, &cs)
			run(c, v, cs)
			return
		}
		cp := corpus()
		for _, cs := range cp {
			run(c, v, cs)
		}
		var t1, t2 [][]x.Val
		for i := len(cp); i < c.N; i++ {
			r := c.R.Fork()
			if t1 == nil || i%30 == 0 {
				t1, t2 = genRows(r), genRows(r)
			}
			run(c, v, genCase(r, t1, t2))
		}
	})
}
