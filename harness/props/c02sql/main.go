// scratch: run SQL statements from stdin (one per line) through the engine
package main

import (
	"bufio"
	"fmt"
	"os"
	"strings"

	"verifharness/lib/eng"
)

func main() {
	e := eng.New("db")
	s := e.Session()
	sc := bufio.NewScanner(os.Stdin)
	sc.Buffer(make([]byte, 1<<20), 1<<20)
	for sc.Scan() {
		q := strings.TrimSpace(sc.Text())
		if q == "" || strings.HasPrefix(q, "--") {
			continue
		}
		r := s.Query(q)
		fmt.Println(">", q)
		if r.Err != nil {
			fmt.Println("  ERR:", r.Err)
			continue
		}
		var ts []string
		for _, c := range r.Schema {
			ts = append(ts, c.Name+":"+c.Type.String())
		}
		fmt.Println("  schema:", strings.Join(ts, " | "))
		for _, row := range eng.Rows(r.Rows) {
			fmt.Println("  ", row)
		}
	}
}
